(* Property C03 (operator / helper level): every expression template the HLSL backend emits for
   an IR operator, math builtin or conversion, evaluated under HLSL's own operator meaning
   (Hlsl/Ops.v, Hlsl/Sem.v) with the generated helper functions AS EMITTED, computes the WGSL
   meaning (Base/Bits32.v, Base/F32.v) for ALL 32-bit operands and has no undefined behaviour
   (integer division by zero, INT_MIN / -1, out-of-range float->int are failed executions of the
   HLSL semantics: the hardened helpers are REQUIRED).  Statement-level preservation for whole
   programs is validated per program by differential execution (checks/c03.py), not proved. *)
From Coq Require Import List ZArith String Bool.
Import ListNotations.
Require Import Naga.Base.Bits32 Naga.Base.F32 Naga.IR.Syntax Naga.IR.Values Naga.IR.Sem.
Require Import Naga.Hlsl.Syntax Naga.Hlsl.Ops Naga.Hlsl.Sem Naga.Hlsl.Catalogue Naga.Hlsl.CatalogueProofs Naga.Hlsl.OpTable.
Require Import Naga.Gen.HlslOpTable.
Open Scope string_scope.
Open Scope Z_scope.

(* every catalogue entry with status Proved computes its WGSL meaning on all operands *)
Theorem c03_catalogue_sound : Forall entry_ok catalogue.
Proof. exact catalogue_sound. Qed.
Print Assumptions c03_catalogue_sound.

(* the probed output of the current working tree only uses catalogue templates *)
Theorem c03_probed_templates_in_catalogue : forallb row_in_catalogue table = true.
Proof. exact gen_table_in_catalogue. Qed.

Theorem c03_every_entry_probed : forallb (fun e => existsb (same_key e) table) catalogue = true.
Proof. exact gen_catalogue_exercised. Qed.

(* the hardened helpers, from their parsed bodies (C15's trapping mode): never UB, WGSL value *)
Theorem c03_naga_div_i32 : forall a b, in32 a -> in32 b ->
  eval_template h_Divide_i32 [("a", TScal KInt, VI32 a); ("b", TScal KInt, VI32 b)] t_Divide_i32 = Done (VI32 (div_i32 a b)).
Proof. exact hlsl_Divide_i32_correct. Qed.

Theorem c03_naga_div_u32 : forall a b, in32 a -> in32 b ->
  eval_template h_Divide_u32 [("a", TScal KUint, VU32 a); ("b", TScal KUint, VU32 b)] t_Divide_u32 = Done (VU32 (div_u32 a b)).
Proof. exact hlsl_Divide_u32_correct. Qed.

Theorem c03_naga_mod_i32 : forall a b, in32 a -> in32 b ->
  eval_template h_Modulo_i32 [("a", TScal KInt, VI32 a); ("b", TScal KInt, VI32 b)] t_Modulo_i32 = Done (VI32 (rem_i32 a b)).
Proof. exact hlsl_Modulo_i32_correct. Qed.
Print Assumptions c03_naga_mod_i32.

Theorem c03_naga_mod_u32 : forall a b, in32 a -> in32 b ->
  eval_template h_Modulo_u32 [("a", TScal KUint, VU32 a); ("b", TScal KUint, VU32 b)] t_Modulo_u32 = Done (VU32 (rem_u32 a b)).
Proof. exact hlsl_Modulo_u32_correct. Qed.

Theorem c03_naga_neg_i32 : forall a, in32 a ->
  eval_template h_Negate_i32 [("a", TScal KInt, VI32 a)] t_Negate_i32 = Done (VI32 (neg32 a)).
Proof. exact hlsl_Negate_i32_correct. Qed.

Theorem c03_abs_i32 : forall a, in32 a ->
  eval_template h_MathAbs_i32 [("a", TScal KInt, VI32 a)] t_MathAbs_i32 = Done (VI32 (abs_i32 a)).
Proof. exact hlsl_MathAbs_i32_correct. Qed.

(* float -> int through naga_f2i32 / naga_f2u32 (int(clamp(value, lo, hi)) as emitted): defined in HLSL and
   equal to the WGSL value for every non-NaN operand below 2^31 (2^32) *)
Theorem c03_naga_f2i32 : forall a, in32 a -> f2i32_defined a = true ->
  eval_template h_As_i32_f32 [("a", TScal KFloat, VF32 a)] t_As_i32_f32 = Done (VI32 (i32_of_f32 a)).
Proof. exact hlsl_As_i32_f32_correct. Qed.
Theorem c03_naga_f2u32 : forall a, in32 a -> f2u32_defined a = true ->
  eval_template h_As_u32_f32 [("a", TScal KFloat, VF32 a)] t_As_u32_f32 = Done (VU32 (u32_of_f32 a)).
Proof. exact hlsl_As_u32_f32_correct. Qed.

(* naga_extractBits / naga_insertBits from their emitted bodies *)
Theorem c03_extract_bits_i32 : forall a b c, in32 a -> in32 b -> in32 c ->
  eval_template h_MathExtractBits_i32 [("a", TScal KInt, VI32 a); ("b", TScal KUint, VU32 b); ("c", TScal KUint, VU32 c)] t_MathExtractBits_i32
  = Done (VI32 (extract_bits_i32 a b c)).
Proof. exact hlsl_MathExtractBits_i32_correct. Qed.
Theorem c03_insert_bits_u32 : forall a b c d, in32 a -> in32 b -> in32 c -> in32 d ->
  eval_template h_MathInsertBits_u32 [("a", TScal KUint, VU32 a); ("b", TScal KUint, VU32 b); ("c", TScal KUint, VU32 c); ("d", TScal KUint, VU32 d)] t_MathInsertBits_u32
  = Done (VU32 (insert_bits a b c d)).
Proof. exact hlsl_MathInsertBits_u32_correct. Qed.

(* i32 + - * go through asuint ... asint *)
Theorem c03_add_i32 : forall a b, in32 a -> in32 b ->
  eval_template h_Add_i32 [("a", TScal KInt, VI32 a); ("b", TScal KInt, VI32 b)] t_Add_i32 = Done (VI32 (add32 a b)).
Proof. exact hlsl_Add_i32_correct. Qed.

(* shifts: HLSL masks the amount with 31, WGSL takes it modulo 32 *)
Theorem c03_shl_i32 : forall a b, in32 a -> in32 b ->
  eval_template h_ShiftLeft_i32 [("a", TScal KInt, VI32 a); ("b", TScal KUint, VU32 b)] t_ShiftLeft_i32 = Done (VI32 (shl32 a b)).
Proof. exact hlsl_ShiftLeft_i32_correct. Qed.
Theorem c03_shr_i32 : forall a b, in32 a -> in32 b ->
  eval_template h_ShiftRight_i32 [("a", TScal KInt, VI32 a); ("b", TScal KUint, VU32 b)] t_ShiftRight_i32 = Done (VI32 (shr_i32 a b)).
Proof. exact hlsl_ShiftRight_i32_correct. Qed.

(* select: (c ? b : a) *)
Theorem c03_select_i32 : forall a b (c : bool), in32 a -> in32 b ->
  eval_template h_Select_i32 [("a", TScal KInt, VI32 a); ("b", TScal KInt, VI32 b); ("c", TScal KBool, VBool c)] t_Select_i32
  = Done (VI32 (if c then b else a)).
Proof. exact hlsl_Select_i32_correct. Qed.

(* mul(b, a) computes the WGSL product a * b: matrix (4 columns of 3) times vector, as the IR semantics defines it *)
Theorem c03_mul_mat4x3_vec : forall a00 a01 a02 a10 a11 a12 a20 a21 a22 a30 a31 a32 b0 b1 b2 b3,
  eval_template [] [("a", TMat KFloat 4 3, VMat [vf [a00; a01; a02]; vf [a10; a11; a12]; vf [a20; a21; a22]; vf [a30; a31; a32]]);
                    ("b", TVec KFloat 4, vf [b0; b1; b2; b3])] t_MulMatVec_f32
  = eval_binary Naga.IR.Syntax.BMul (VMat [vf [a00; a01; a02]; vf [a10; a11; a12]; vf [a20; a21; a22]; vf [a30; a31; a32]]) (vf [b0; b1; b2; b3]).
Proof. exact hlsl_MulMatVec_c4r3_correct. Qed.

(* refuted templates: genuine defects of the emitted code (known_findings.jsonl) *)
Theorem c03_count_leading_zeros_u32_refuted :
  exists a, in32 a /\ eval_template h_MathCountLeadingZeros_u32 [("a", TScal KUint, VU32 a)] t_MathCountLeadingZeros_u32
                      <> Done (VU32 (count_leading_zeros a)).
Proof. exact hlsl_MathCountLeadingZeros_u32_refuted. Qed.
Theorem c03_count_trailing_zeros_u32_refuted :
  exists a, in32 a /\ eval_template h_MathCountTrailingZeros_u32 [("a", TScal KUint, VU32 a)] t_MathCountTrailingZeros_u32
                      <> Done (VU32 (count_trailing_zeros a)).
Proof. exact hlsl_MathCountTrailingZeros_u32_refuted. Qed.
Theorem c03_sign_f32_refuted :
  exists a, in32 a /\ eval_template h_MathSign_f32 [("a", TScal KFloat, VF32 a)] t_MathSign_f32
                      <> Done (VF32 (if is_nan_bits a then a else if flt 0 a then 1065353216 else if flt a 0 then 3212836864 else a)).
Proof. exact hlsl_MathSign_f32_refuted. Qed.

(* non-vacuity: the hypotheses are satisfiable and the statements are about the dangerous operands *)
Example c03_example_div_int_min_by_minus_one :
  in32 2147483648 /\ in32 4294967295 /\
  eval_template h_Divide_i32 [("a", TScal KInt, VI32 2147483648); ("b", TScal KInt, VI32 4294967295)] t_Divide_i32
  = Done (VI32 2147483648) /\
  (* the bare HLSL operator on the same operands is undefined behaviour *)
  eval_template [] [("a", TScal KInt, VI32 2147483648); ("b", TScal KInt, VI32 4294967295)] (EBin BDiv (EVar "a") (EVar "b"))
  = Fail "UB: signed division overflow (INT_MIN / -1)".
Proof. unfold in32, M32. repeat split; try reflexivity; try (vm_compute; reflexivity); try (cbv; congruence). Qed.

Example c03_example_mod_by_zero :
  eval_template h_Modulo_u32 [("a", TScal KUint, VU32 7); ("b", TScal KUint, VU32 0)] t_Modulo_u32 = Done (VU32 0) /\
  eval_template [] [("a", TScal KUint, VU32 7); ("b", TScal KUint, VU32 0)] (EBin BMod (EVar "a") (EVar "b"))
  = Fail "UB: integer remainder by zero".
Proof. split; vm_compute; reflexivity. Qed.

Example c03_example_f2i32_defined_is_satisfiable :
  f2i32_defined 3212836864 = true /\ f2i32_defined 1325400063 = true /\ f2i32_defined 4286578688 = true /\
  eval_template h_As_i32_f32 [("a", TScal KFloat, VF32 4286578688)] t_As_i32_f32 = Done (VI32 2147483648).   (* -inf -> INT_MIN *)
Proof. repeat split; vm_compute; reflexivity. Qed.

Example c03_example_shift_by_33 :
  eval_template h_ShiftLeft_u32 [("a", TScal KUint, VU32 1); ("b", TScal KUint, VU32 33)] t_ShiftLeft_u32 = Done (VU32 2).
Proof. vm_compute. reflexivity. Qed.

Example c03_catalogue_is_not_empty : (List.length catalogue = 171)%nat /\ (600 <= List.length table)%nat.
Proof. split; [reflexivity | vm_compute; repeat constructor]. Qed.


(* ==== statement level: the control-flow ENCODINGS (coq/Target/*.v) =========================================
   Theorems for ALL bodies / continuing blocks / conditions / states / fuels about the fixed ways in which naga
   encodes structured control flow, over the generic structured language of Target/Structured.v whose semantics IS
   the IR reference interpreter (c03_ir_interpreter_is_generic: exact equality with IR/Sem.v) and whose rules are
   those of the target interpreters (Target/GlslInstance.v).  Tied to /repo on every run by the recogniser
   Target/Shapes.v (tool cfshape) over every emitted text: a loop or switch outside the proved shapes is reported. *)
Require Import Naga.Target.Structured Naga.Target.LoopInit Naga.Target.LoopBound Naga.Target.ContinueForward
        Naga.Target.SwitchForms Naga.Target.Desugar Naga.Target.IrInstance Naga.Target.GlslInstance Naga.Target.Examples.

(* IR/Sem.v's interpreter is the generic interpreter on the translation IrInstance.tr: exact equality, all fuels *)
Theorem c03_ir_interpreter_is_generic : forall (m : Naga.IR.Syntax.module) (f : Naga.IR.Syntax.func) (n : nat),
  (forall b fr mem, conv (Naga.IR.Sem.exec_block n m f b fr mem) = run_block n (tr_b m f b) (fr, mem)) /\
  (forall s fr mem, conv (Naga.IR.Sem.exec_stmt n m f s fr mem) = run_stmt n (tr m f s) (fr, mem)) /\
  (forall cs fr mem, conv (Naga.IR.Sem.exec_cases n m f cs fr mem) = run_cases n (tr_c m f cs) (fr, mem)) /\
  (forall body cont brk fr mem,
     conv (Naga.IR.Sem.exec_loop n m f body cont brk fr mem) =
     run_loop n (tr_b m f body) (tr_b m f cont)
              (match brk with Some h => Some (bool_of m f "break if: not a bool" h) | None => None end) (fr, mem)).
Proof. exact ir_is_generic. Qed.
Print Assumptions c03_ir_interpreter_is_generic.

(* and the translated statements satisfy the monotonicity hypothesis of every encoding theorem *)
Theorem c03_ir_translation_monotone : forall m f b, mono_b (tr_b m f b).
Proof. exact tr_b_mono. Qed.
Print Assumptions c03_ir_translation_monotone.

(* bool loop_init = true; while(true) { if (!loop_init) { continuing; if (break_if) break; } loop_init = false; body }
   computes exactly what Loop{body; continuing; break_if} computes; the flag variable L is fresh (explicit
   hypotheses) and ends up false; both directions *)
Theorem c03_loop_init_encoding_equiv :
  forall (state R : Type) (L : lens state bool) (body cont : list (Structured.stmt state R)) (bi : option (cond state)),
  mono_b body -> mono_b cont -> indep_b L body -> indep_b L cont ->
  (forall c : cond state, bi = Some c -> indep_fn L c) ->
  may_brk_b cont = false -> may_cont_b cont = false ->
  forall (st : state) (o : Structured.outcome R) (X : state),
  evals_b (loop_init_enc L body cont bi) st (o, X) <->
  (exists s' : state, X = lset L false s' /\ evals_s (Loop body cont bi) st (o, s')).
Proof. exact loop_init_encoding_equiv. Qed.
Print Assumptions c03_loop_init_encoding_equiv.

Example c03_loop_init_nonvacuous :
  mono_b ex_body /\ mono_b ex_cont /\ indep_b flagL ex_body /\ indep_b flagL ex_cont /\
  (forall c, ex_bi = Some c -> indep_fn flagL c) /\ may_brk_b ex_cont = false /\ may_cont_b ex_cont = false /\
  run_stmt 40 ex_loop ex_start = Done (Structured.ONormal, mkx 5 6 true (7, 7)%Z) /\
  run_block 40 (loop_init_enc flagL ex_body ex_cont ex_bi) ex_start = Done (Structured.ONormal, mkx 5 6 false (7, 7)%Z).
Proof.
  exact (conj ex_mono_body (conj ex_mono_cont (conj ex_indep_flag_body (conj ex_indep_flag_cont (conj ex_indep_flag_bi
        (conj eq_refl (conj eq_refl (conj ex_ir_run ex_loop_init_run)))))))).
Qed.

(* the uint2 loop_bound counter (check for zero, 64-bit decrement with 32-bit wrapping arithmetic) is transparent
   for a loop that terminates within k < 2^64 iterations; C = the counter variable, fresh for the loop body X *)
Theorem c03_loop_bound_transparent :
  forall (state R : Type) (C : lens state (Z * Z)) (X : list (Structured.stmt state R)),
  mono_b X -> indep_b C X ->
  forall (k : nat) (st : state) (o : Structured.outcome R) (s' : state),
  (Z.of_nat k < 2 ^ 64)%Z -> iter_ev X k st (o, s') ->
  exists p' : Z * Z, evals_b (bounded_enc C X) st (o, lset C p' s').
Proof. exact loop_bound_forward. Qed.
Print Assumptions c03_loop_bound_transparent.

(* conversely: a run of the bounded form with fuel n < 2^64 (hence fewer than 2^64 iterations) is a run of the loop *)
Theorem c03_loop_bound_transparent_converse :
  forall (state R : Type) (C : lens state (Z * Z)) (X : list (Structured.stmt state R)),
  mono_b X -> indep_b C X ->
  forall (n : nat) (st : state) (r : Structured.outcome R * state),
  (Z.of_nat n < 2 ^ 64)%Z -> run_block n (bounded_enc C X) st = Done r ->
  exists (o : Structured.outcome R) (s' : state) (p' : Z * Z), r = (o, lset C p' s') /\ evals_s (WhileTrue X) st (o, s').
Proof. exact loop_bound_converse. Qed.
Print Assumptions c03_loop_bound_transparent_converse.

Example c03_loop_bound_nonvacuous :
  mono_b ex_plain_body /\ indep_b ctrL ex_plain_body /\
  exists p, run_block 40 (bounded_enc ctrL ex_plain_body) ex_start = Done (Structured.ONormal, lset ctrL p (mkx 5 6 true (7, 7)%Z)).
Proof. exact (conj ex_mono_plain (conj ex_indep_ctr_plain ex_bounded_run)). Qed.

(* continue forwarding through should_continue (switch inside a loop): forward direction - whenever the IR switch
   terminates, the emitted form terminates with the same outcome (Continue where the IR says Continue) and the same
   state up to the flag.  Partial: the converse (termination of the emitted form implies termination of the IR
   form) is not proved. *)
Theorem c03_continue_forward_equiv_partial :
  forall (state R : Type) (F : lens state bool) (n : nat) (sel : state -> result (option nat))
         (cs : list (list (Structured.stmt state R) * bool)) (st : state) (o : Structured.outcome R) (s : state),
  mono_c cs -> indep_c F cs -> indep_fn F sel ->
  run_stmt n (Switch sel cs) st = Done (o, s) ->
  evals_b (fwd_switch F sel cs) st (o, lset F (is_cont o) s).
Proof. exact continue_forward_switch. Qed.
Print Assumptions c03_continue_forward_equiv_partial.

(* the same for a single-body switch written as do { } while(false): the IR meaning of such a switch is "the body,
   Break ends it" (c03_single_body_switch_partial) *)
Theorem c03_continue_forward_do_while_partial :
  forall (state R : Type) (F : lens state bool) (n : nat) (body : list (Structured.stmt state R)) (st : state)
         (o1 : Structured.outcome R) (s : state),
  mono_b body -> indep_b F body ->
  run_block n body st = Done (o1, s) ->
  evals_b (fwd_once F body) st (unbreak_o o1, lset F (is_cont o1) s).
Proof. exact continue_forward_once. Qed.
Print Assumptions c03_continue_forward_do_while_partial.

Theorem c03_single_body_switch_partial :
  forall (state R : Type) (n : nat) (sel : state -> result (option nat))
         (pre : list (list (Structured.stmt state R) * bool)) (body : list (Structured.stmt state R)) (ft : bool)
         (st : state) (r : Structured.outcome R * state),
  empty_labels pre ->
  (forall i : option nat, sel st = Done i -> exists j : nat, i = Some j /\ (j <= List.length pre)%nat) ->
  may_cont_b body = false ->
  run_stmt n (Switch sel (pre ++ (body, ft) :: nil)%list) st = Done r ->
  evals_s (DoOnce body) st r.
Proof. exact single_body_once. Qed.
Print Assumptions c03_single_body_switch_partial.

Example c03_continue_forward_nonvacuous :
  mono_c ex_cases /\ indep_c flagL ex_cases /\ indep_fn flagL ex_sel /\
  run_stmt 10 (Switch ex_sel ex_cases) (mkx 1 0 false (0, 0)%Z) = Done (Structured.OContinue, mkx 1 0 false (0, 0)%Z) /\
  run_block 12 (fwd_switch flagL ex_sel ex_cases) (mkx 1 0 false (0, 0)%Z) = Done (Structured.OContinue, mkx 1 0 true (0, 0)%Z).
Proof. exact (conj ex_mono_cases (conj ex_indep_cases (conj ex_indep_sel (conj ex_switch_continue_run ex_fwd_switch_run)))). Qed.

(* inserted `break;` after every non-fall-through case that does not end in a terminator: forward direction *)
Theorem c03_switch_case_breaks_partial :
  forall (state R : Type) (n : nat) (sel : state -> result (option nat))
         (cs : list (list (Structured.stmt state R) * bool)) (st : state) (r : Structured.outcome R * state),
  mono_c cs -> run_stmt n (Switch sel cs) st = Done r -> evals_s (Switch sel (enc_cases cs)) st r.
Proof. exact case_breaks_forward. Qed.
Print Assumptions c03_switch_case_breaks_partial.


(* ==== two-direction forms of the encoding theorems above (coq/Target/ContinueForwardConv.v, SwitchFormsConv.v):
   the CONVERSE of every `_partial` statement is proved too - a terminating run of the emitted form comes from a
   terminating run of the IR form with the related result - so the emitted form terminates with a result exactly
   when the IR form does (it cannot terminate where the source diverges or fails).  Same side conditions. *)
Require Import Naga.Target.ContinueForwardConv Naga.Target.SwitchFormsConv Naga.Target.ExamplesConv.

(* continue forwarding through should_continue, switch inside a loop: emitted form <-> IR switch *)
Theorem c03_continue_forward_equiv :
  forall (state R : Type) (F : lens state bool) (sel : state -> result (option nat))
         (cs : list (list (Structured.stmt state R) * bool)) (st : state) (r' : Structured.outcome R * state),
  mono_c cs -> indep_c F cs -> indep_fn F sel ->
  (evals_b (fwd_switch F sel cs) st r' <->
   exists (o : Structured.outcome R) (s : state),
     evals_s (Switch sel cs) st (o, s) /\ r' = (o, lset F (is_cont o) s)).
Proof. exact continue_forward_switch_iff. Qed.
Print Assumptions c03_continue_forward_equiv.

(* the converse alone, in fuel form: ANY terminating run of the emitted form, at any fuel *)
Theorem c03_continue_forward_converse :
  forall (state R : Type) (F : lens state bool) (n : nat) (sel : state -> result (option nat))
         (cs : list (list (Structured.stmt state R) * bool)) (st : state) (r' : Structured.outcome R * state),
  mono_c cs -> indep_c F cs -> indep_fn F sel ->
  run_block n (fwd_switch F sel cs) st = Done r' ->
  exists (o : Structured.outcome R) (s : state),
    evals_s (Switch sel cs) st (o, s) /\ r' = (o, lset F (is_cont o) s).
Proof. exact continue_forward_switch_conv. Qed.
Print Assumptions c03_continue_forward_converse.

(* the do { } while(false) form of a body with continues <-> the body (Break / Continue / Return classified) *)
Theorem c03_continue_forward_do_while :
  forall (state R : Type) (F : lens state bool) (body : list (Structured.stmt state R)) (st : state)
         (r' : Structured.outcome R * state),
  mono_b body -> indep_b F body ->
  (evals_b (fwd_once F body) st r' <->
   exists (o1 : Structured.outcome R) (s : state),
     evals_b body st (o1, s) /\ r' = (unbreak_o o1, lset F (is_cont o1) s)).
Proof. exact continue_forward_once_iff. Qed.
Print Assumptions c03_continue_forward_do_while.

(* ... and against the IR single-body SWITCH itself (empty fall-through labels, then the body), selector selecting a
   label of the switch: the should_continue / do-while form <-> the IR switch *)
Theorem c03_continue_forward_single_body_switch :
  forall (state R : Type) (F : lens state bool) (sel : state -> result (option nat))
         (pre : list (list (Structured.stmt state R) * bool)) (body : list (Structured.stmt state R)) (ft : bool)
         (st : state) (r' : Structured.outcome R * state),
  empty_labels pre -> selects sel pre st -> mono_b body -> indep_b F body ->
  (evals_b (fwd_once F body) st r' <->
   exists (o : Structured.outcome R) (s : state),
     evals_s (Switch sel (pre ++ (body, ft) :: nil)%list) st (o, s) /\ r' = (o, lset F (is_cont o) s)).
Proof. exact continue_forward_single_body_iff. Qed.
Print Assumptions c03_continue_forward_single_body_switch.

(* single-body switch without an escaping continue <-> do { body } while(false) *)
Theorem c03_single_body_switch :
  forall (state R : Type) (sel : state -> result (option nat))
         (pre : list (list (Structured.stmt state R) * bool)) (body : list (Structured.stmt state R)) (ft : bool)
         (st : state) (r : Structured.outcome R * state),
  empty_labels pre -> selects sel pre st -> may_cont_b body = false ->
  (evals_s (Switch sel (pre ++ (body, ft) :: nil)%list) st r <-> evals_s (DoOnce body) st r).
Proof. exact single_body_once_iff. Qed.
Print Assumptions c03_single_body_switch.

Example c03_single_body_nonvacuous :
  empty_labels ex_pre /\ (forall st, selects ex_sel ex_pre st) /\ mono_b ex_wbody /\ indep_b flagL ex_wbody /\
  may_cont_b ex_plain_single = false /\
  run_stmt 10 (Switch ex_sel (ex_pre ++ (ex_wbody, false) :: nil)%list) (mkx 1 0 false (0, 0)%Z)
    = Done (Structured.OContinue, mkx 1 0 false (0, 0)%Z) /\
  run_block 12 (fwd_once flagL ex_wbody) (mkx 1 0 true (0, 0)%Z) = Done (Structured.OContinue, mkx 1 0 true (0, 0)%Z) /\
  run_stmt 10 (Switch ex_sel (ex_pre ++ (ex_plain_single, false) :: nil)%list) (mkx 2 5 true (0, 0)%Z)
    = Done (Structured.ONormal, mkx 2 7 true (0, 0)%Z) /\
  run_stmt 10 (DoOnce ex_plain_single) (mkx 2 5 true (0, 0)%Z) = Done (Structured.ONormal, mkx 2 7 true (0, 0)%Z).
Proof.
  exact (conj ex_empty_labels (conj ex_selects (conj ex_mono_wbody (conj ex_indep_wbody (conj ex_plain_single_no_continue
        (conj ex_single_switch_continue_run (conj ex_fwd_once_continue_run
        (conj ex_single_switch_plain_run ex_do_once_plain_run)))))))).
Qed.

(* inserted `break;` after every non-fall-through case that does not end in a terminator: emitted switch <-> IR switch,
   same result *)
Theorem c03_switch_case_breaks :
  forall (state R : Type) (sel : state -> result (option nat))
         (cs : list (list (Structured.stmt state R) * bool)) (st : state) (r : Structured.outcome R * state),
  mono_c cs -> (evals_s (Switch sel (enc_cases cs)) st r <-> evals_s (Switch sel cs) st r).
Proof. exact case_breaks_iff. Qed.
Print Assumptions c03_switch_case_breaks.

Example c03_switch_case_breaks_nonvacuous :
  mono_c ex_cases /\
  enc_cases ex_cases = ((Structured.Continue :: nil, true) :: (a_store :: Structured.Break :: nil, true) :: nil)%list /\
  run_stmt 10 (Switch ex_sel ex_cases) (mkx 2 5 true (0, 0)%Z) = Done (Structured.ONormal, mkx 2 7 true (0, 0)%Z) /\
  run_stmt 10 (Switch ex_sel (enc_cases ex_cases)) (mkx 2 5 true (0, 0)%Z) = Done (Structured.ONormal, mkx 2 7 true (0, 0)%Z).
Proof. exact (conj ex_mono_cases (conj ex_enc_cases (conj ex_case_breaks_ir_run ex_case_breaks_enc_run))). Qed.
