(* Property C03 (operator / helper level): every expression template the HLSL backend emits for
   an IR operator, math builtin or conversion, evaluated under HLSL's own operator meaning
   (Hlsl/Ops.v, Hlsl/Sem.v) with the generated helper functions AS EMITTED, computes the WGSL
   meaning (Base/Bits32.v, Base/F32.v) for ALL 32-bit operands and has no undefined behaviour
   (integer division by zero, INT_MIN / -1, out-of-range float->int are failed executions of the
   HLSL semantics: the hardened helpers are REQUIRED).  Statement-level preservation for whole
   programs is validated per program by differential execution (checks/c03.py), not proved. *)
From Coq Require Import List ZArith String Bool.
Import ListNotations.
Require Import Naga.Base.Bits32 Naga.Base.F32 Naga.IR.Syntax Naga.IR.Values Naga.IR.Sem.
Require Import Naga.Hlsl.Syntax Naga.Hlsl.Ops Naga.Hlsl.Sem Naga.Hlsl.Catalogue Naga.Hlsl.CatalogueProofs Naga.Hlsl.OpTable.
Require Import Naga.Gen.HlslOpTable.
Open Scope string_scope.
Open Scope Z_scope.

(* every catalogue entry with status Proved computes its WGSL meaning on all operands *)
Theorem c03_catalogue_sound : Forall entry_ok catalogue.
Proof. exact catalogue_sound. Qed.
Print Assumptions c03_catalogue_sound.

(* the probed output of the current working tree only uses catalogue templates *)
Theorem c03_probed_templates_in_catalogue : forallb row_in_catalogue table = true.
Proof. exact gen_table_in_catalogue. Qed.

Theorem c03_every_entry_probed : forallb (fun e => existsb (same_key e) table) catalogue = true.
Proof. exact gen_catalogue_exercised. Qed.

(* the hardened helpers, from their parsed bodies (C15's trapping mode): never UB, WGSL value *)
Theorem c03_naga_div_i32 : forall a b, in32 a -> in32 b ->
  eval_template h_Divide_i32 [("a", TScal KInt, VI32 a); ("b", TScal KInt, VI32 b)] t_Divide_i32 = Done (VI32 (div_i32 a b)).
Proof. exact hlsl_Divide_i32_correct. Qed.

Theorem c03_naga_div_u32 : forall a b, in32 a -> in32 b ->
  eval_template h_Divide_u32 [("a", TScal KUint, VU32 a); ("b", TScal KUint, VU32 b)] t_Divide_u32 = Done (VU32 (div_u32 a b)).
Proof. exact hlsl_Divide_u32_correct. Qed.

Theorem c03_naga_mod_i32 : forall a b, in32 a -> in32 b ->
  eval_template h_Modulo_i32 [("a", TScal KInt, VI32 a); ("b", TScal KInt, VI32 b)] t_Modulo_i32 = Done (VI32 (rem_i32 a b)).
Proof. exact hlsl_Modulo_i32_correct. Qed.
Print Assumptions c03_naga_mod_i32.

Theorem c03_naga_mod_u32 : forall a b, in32 a -> in32 b ->
  eval_template h_Modulo_u32 [("a", TScal KUint, VU32 a); ("b", TScal KUint, VU32 b)] t_Modulo_u32 = Done (VU32 (rem_u32 a b)).
Proof. exact hlsl_Modulo_u32_correct. Qed.

Theorem c03_naga_neg_i32 : forall a, in32 a ->
  eval_template h_Negate_i32 [("a", TScal KInt, VI32 a)] t_Negate_i32 = Done (VI32 (neg32 a)).
Proof. exact hlsl_Negate_i32_correct. Qed.

Theorem c03_abs_i32 : forall a, in32 a ->
  eval_template h_MathAbs_i32 [("a", TScal KInt, VI32 a)] t_MathAbs_i32 = Done (VI32 (abs_i32 a)).
Proof. exact hlsl_MathAbs_i32_correct. Qed.

(* float -> int through naga_f2i32 / naga_f2u32 (int(clamp(value, lo, hi)) as emitted): defined in HLSL and
   equal to the WGSL value for every non-NaN operand below 2^31 (2^32) *)
Theorem c03_naga_f2i32 : forall a, in32 a -> f2i32_defined a = true ->
  eval_template h_As_i32_f32 [("a", TScal KFloat, VF32 a)] t_As_i32_f32 = Done (VI32 (i32_of_f32 a)).
Proof. exact hlsl_As_i32_f32_correct. Qed.
Theorem c03_naga_f2u32 : forall a, in32 a -> f2u32_defined a = true ->
  eval_template h_As_u32_f32 [("a", TScal KFloat, VF32 a)] t_As_u32_f32 = Done (VU32 (u32_of_f32 a)).
Proof. exact hlsl_As_u32_f32_correct. Qed.

(* naga_extractBits / naga_insertBits from their emitted bodies *)
Theorem c03_extract_bits_i32 : forall a b c, in32 a -> in32 b -> in32 c ->
  eval_template h_MathExtractBits_i32 [("a", TScal KInt, VI32 a); ("b", TScal KUint, VU32 b); ("c", TScal KUint, VU32 c)] t_MathExtractBits_i32
  = Done (VI32 (extract_bits_i32 a b c)).
Proof. exact hlsl_MathExtractBits_i32_correct. Qed.
Theorem c03_insert_bits_u32 : forall a b c d, in32 a -> in32 b -> in32 c -> in32 d ->
  eval_template h_MathInsertBits_u32 [("a", TScal KUint, VU32 a); ("b", TScal KUint, VU32 b); ("c", TScal KUint, VU32 c); ("d", TScal KUint, VU32 d)] t_MathInsertBits_u32
  = Done (VU32 (insert_bits a b c d)).
Proof. exact hlsl_MathInsertBits_u32_correct. Qed.

(* i32 + - * go through asuint ... asint *)
Theorem c03_add_i32 : forall a b, in32 a -> in32 b ->
  eval_template h_Add_i32 [("a", TScal KInt, VI32 a); ("b", TScal KInt, VI32 b)] t_Add_i32 = Done (VI32 (add32 a b)).
Proof. exact hlsl_Add_i32_correct. Qed.

(* shifts: HLSL masks the amount with 31, WGSL takes it modulo 32 *)
Theorem c03_shl_i32 : forall a b, in32 a -> in32 b ->
  eval_template h_ShiftLeft_i32 [("a", TScal KInt, VI32 a); ("b", TScal KUint, VU32 b)] t_ShiftLeft_i32 = Done (VI32 (shl32 a b)).
Proof. exact hlsl_ShiftLeft_i32_correct. Qed.
Theorem c03_shr_i32 : forall a b, in32 a -> in32 b ->
  eval_template h_ShiftRight_i32 [("a", TScal KInt, VI32 a); ("b", TScal KUint, VU32 b)] t_ShiftRight_i32 = Done (VI32 (shr_i32 a b)).
Proof. exact hlsl_ShiftRight_i32_correct. Qed.

(* select: (c ? b : a) *)
Theorem c03_select_i32 : forall a b (c : bool), in32 a -> in32 b ->
  eval_template h_Select_i32 [("a", TScal KInt, VI32 a); ("b", TScal KInt, VI32 b); ("c", TScal KBool, VBool c)] t_Select_i32
  = Done (VI32 (if c then b else a)).
Proof. exact hlsl_Select_i32_correct. Qed.

(* mul(b, a) computes the WGSL product a * b: matrix (4 columns of 3) times vector, as the IR semantics defines it *)
Theorem c03_mul_mat4x3_vec : forall a00 a01 a02 a10 a11 a12 a20 a21 a22 a30 a31 a32 b0 b1 b2 b3,
  eval_template [] [("a", TMat KFloat 4 3, VMat [vf [a00; a01; a02]; vf [a10; a11; a12]; vf [a20; a21; a22]; vf [a30; a31; a32]]);
                    ("b", TVec KFloat 4, vf [b0; b1; b2; b3])] t_MulMatVec_f32
  = eval_binary Naga.IR.Syntax.BMul (VMat [vf [a00; a01; a02]; vf [a10; a11; a12]; vf [a20; a21; a22]; vf [a30; a31; a32]]) (vf [b0; b1; b2; b3]).
Proof. exact hlsl_MulMatVec_c4r3_correct. Qed.

(* refuted templates: genuine defects of the emitted code (known_findings.jsonl) *)
Theorem c03_count_leading_zeros_u32_refuted :
  exists a, in32 a /\ eval_template h_MathCountLeadingZeros_u32 [("a", TScal KUint, VU32 a)] t_MathCountLeadingZeros_u32
                      <> Done (VU32 (count_leading_zeros a)).
Proof. exact hlsl_MathCountLeadingZeros_u32_refuted. Qed.
Theorem c03_count_trailing_zeros_u32_refuted :
  exists a, in32 a /\ eval_template h_MathCountTrailingZeros_u32 [("a", TScal KUint, VU32 a)] t_MathCountTrailingZeros_u32
                      <> Done (VU32 (count_trailing_zeros a)).
Proof. exact hlsl_MathCountTrailingZeros_u32_refuted. Qed.
Theorem c03_sign_f32_refuted :
  exists a, in32 a /\ eval_template h_MathSign_f32 [("a", TScal KFloat, VF32 a)] t_MathSign_f32
                      <> Done (VF32 (if is_nan_bits a then a else if flt 0 a then 1065353216 else if flt a 0 then 3212836864 else a)).
Proof. exact hlsl_MathSign_f32_refuted. Qed.

(* non-vacuity: the hypotheses are satisfiable and the statements are about the dangerous operands *)
Example c03_example_div_int_min_by_minus_one :
  in32 2147483648 /\ in32 4294967295 /\
  eval_template h_Divide_i32 [("a", TScal KInt, VI32 2147483648); ("b", TScal KInt, VI32 4294967295)] t_Divide_i32
  = Done (VI32 2147483648) /\
  (* the bare HLSL operator on the same operands is undefined behaviour *)
  eval_template [] [("a", TScal KInt, VI32 2147483648); ("b", TScal KInt, VI32 4294967295)] (EBin BDiv (EVar "a") (EVar "b"))
  = Fail "UB: signed division overflow (INT_MIN / -1)".
Proof. unfold in32, M32. repeat split; try reflexivity; try (vm_compute; reflexivity); try (cbv; congruence). Qed.

Example c03_example_mod_by_zero :
  eval_template h_Modulo_u32 [("a", TScal KUint, VU32 7); ("b", TScal KUint, VU32 0)] t_Modulo_u32 = Done (VU32 0) /\
  eval_template [] [("a", TScal KUint, VU32 7); ("b", TScal KUint, VU32 0)] (EBin BMod (EVar "a") (EVar "b"))
  = Fail "UB: integer remainder by zero".
Proof. split; vm_compute; reflexivity. Qed.

Example c03_example_f2i32_defined_is_satisfiable :
  f2i32_defined 3212836864 = true /\ f2i32_defined 1325400063 = true /\ f2i32_defined 4286578688 = true /\
  eval_template h_As_i32_f32 [("a", TScal KFloat, VF32 4286578688)] t_As_i32_f32 = Done (VI32 2147483648).   (* -inf -> INT_MIN *)
Proof. repeat split; vm_compute; reflexivity. Qed.

Example c03_example_shift_by_33 :
  eval_template h_ShiftLeft_u32 [("a", TScal KUint, VU32 1); ("b", TScal KUint, VU32 33)] t_ShiftLeft_u32 = Done (VU32 2).
Proof. vm_compute. reflexivity. Qed.

Example c03_catalogue_is_not_empty : (List.length catalogue = 171)%nat /\ (600 <= List.length table)%nat.
Proof. split; [reflexivity | vm_compute; repeat constructor]. Qed.
