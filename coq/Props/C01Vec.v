(* Property C01, vector shapes (operator level): the vector form of every component-wise instruction template
   -- the scalar catalogue template with its constants splatted to width n -- computes, for EVERY width
   n >= 1 and ALL operand vectors, exactly the vector of the scalar template's results on the components; and it
   is undefined / failed as soon as one component's scalar evaluation is.  So every `_correct` lemma of
   Props/C01.v (all 32-bit operands, scalar) holds per component at every width, "never undefined behaviour"
   lifts, and every `_refuted` witness is a witness for vectors too.
   The class of templates ([cw_shape] / [cw_template] + [splats_width], Spv/VectorLift.v) is syntactic and
   executable; Spv/VectorLiftCheck.v (gen_vector_rows_lift, re-checked on every run over the regenerated
   Gen/SpvOpTable.v) shows that every vector-shaped row naga emits today whose scalar form is an interpreted
   catalogue entry is in the class, except the five listed non-component-wise keys (all, any, dot on i32, u32, f32).
   To be merged into Props/C01.v by the lead. *)
From Coq Require Import List ZArith String Bool Lia.
Import ListNotations.
Require Import Naga.Base.Bits32 Naga.Base.F32 Naga.IR.Values Naga.Spv.Ops Naga.Spv.Catalogue Naga.Spv.CatalogueProofs
               Naga.Spv.VectorLift Naga.Spv.VectorLiftCheck Naga.Gen.SpvOpTable.
Open Scope Z_scope.
Local Notation length := List.length.

(* the generic lifting theorem: all widths n >= 1, all component-wise templates, all environments *)
Theorem c01_vector_lift : forall n isv tv envv rs,
  (1 <= n)%nat -> cw_shape isv tv = true -> splats_width n tv = true -> env_ok n isv envv ->
  length rs = n ->
  (forall i, (i < n)%nat -> teval (cenv i envv) (erase_splat tv) = Done (nth i rs (VBool false))) ->
  teval envv tv = Done (VVec rs).
Proof. exact teval_vector_lift. Qed.
Print Assumptions c01_vector_lift.

(* failures lift: an undefined / failed component makes the vector evaluation undefined / failed *)
Theorem c01_vector_lift_undefined : forall n isv tv envv,
  (1 <= n)%nat -> cw_shape isv tv = true -> splats_width n tv = true -> env_ok n isv envv ->
  (exists i, (i < n)%nat /\ is_done (teval (cenv i envv) (erase_splat tv)) = false) ->
  is_done (teval envv tv) = false.
Proof. exact teval_vector_lift_undefined. Qed.
Print Assumptions c01_vector_lift_undefined.

(* and conversely a defined vector result consists of exactly n defined, non-vector component results *)
Theorem c01_vector_lift_inv : forall n isv tv envv v,
  (1 <= n)%nat -> cw_shape isv tv = true -> splats_width n tv = true -> env_ok n isv envv ->
  teval envv tv = Done v ->
  exists rs, v = VVec rs /\ length rs = n /\ forallb scalar rs = true
    /\ forall i, (i < n)%nat -> teval (cenv i envv) (erase_splat tv) = Done (nth i rs (VBool false)).
Proof. exact teval_vector_lift_inv. Qed.
Print Assumptions c01_vector_lift_inv.

(* the tie: the theorem applies to what naga emits now (regenerated table) *)
Theorem c01_vector_rows_in_class :
  rows_not_lifted table = [] /\ rows_not_vectorized table = [].
Proof. exact (conj gen_vector_rows_lift gen_vector_rows_are_vectorized). Qed.
Print Assumptions c01_vector_rows_in_class.

(* instances at every width: the wrapped integer division / remainder helpers, shifts, clamp, select with a
   vector condition, float -> int, conversions with splatted constants *)
Theorem c01_vector_int_div_mod : forall n la lb, (1 <= n)%nat -> length la = n -> length lb = n ->
  Forall in32 la -> Forall in32 lb ->
  teval [VVec (map VI32 la); VVec (map VI32 lb)] (vectorize n t_div_i32) = Done (VVec (zipw (fun a b => VI32 (div_i32 a b)) la lb))
  /\ teval [VVec (map VI32 la); VVec (map VI32 lb)] (vectorize n t_mod_i32) = Done (VVec (zipw (fun a b => VI32 (rem_i32 a b)) la lb))
  /\ teval [VVec (map VU32 la); VVec (map VU32 lb)] (vectorize n t_div_u32) = Done (VVec (zipw (fun a b => VU32 (div_u32 a b)) la lb))
  /\ teval [VVec (map VU32 la); VVec (map VU32 lb)] (vectorize n t_mod_u32) = Done (VVec (zipw (fun a b => VU32 (rem_u32 a b)) la lb)).
Proof.
  exact (fun n la lb Hn L1 L2 F1 F2 =>
    conj (spv_div_i32_vecn n la lb Hn L1 L2 F1 F2) (conj (spv_mod_i32_vecn n la lb Hn L1 L2 F1 F2)
    (conj (spv_div_u32_vecn n la lb Hn L1 L2 F1 F2) (spv_mod_u32_vecn n la lb Hn L1 L2 F1 F2)))).
Qed.
Print Assumptions c01_vector_int_div_mod.

Theorem c01_vector_shifts_partial : forall n la lb, (1 <= n)%nat -> length la = n -> length lb = n ->
  Forall in32 la -> Forall shamt_ok lb ->
  teval [VVec (map VI32 la); VVec (map VU32 lb)] t_shl_i32 = Done (VVec (zipw (fun a b => VI32 (shl32 a b)) la lb))
  /\ teval [VVec (map VI32 la); VVec (map VU32 lb)] t_shr_i32 = Done (VVec (zipw (fun a b => VI32 (shr_i32 a b)) la lb))
  /\ teval [VVec (map VU32 la); VVec (map VU32 lb)] t_shl_u32 = Done (VVec (zipw (fun a b => VU32 (shl32 a b)) la lb))
  /\ teval [VVec (map VU32 la); VVec (map VU32 lb)] t_shr_u32 = Done (VVec (zipw (fun a b => VU32 (shr_u32 a b)) la lb)).
Proof.
  exact (fun n la lb Hn L1 L2 F1 F2 =>
    conj (spv_shl_i32_vecn_partial n la lb Hn L1 L2 F1 F2) (conj (spv_shr_i32_vecn_partial n la lb Hn L1 L2 F1 F2)
    (conj (spv_shl_u32_vecn_partial n la lb Hn L1 L2 F1 F2) (spv_shr_u32_vecn_partial n la lb Hn L1 L2 F1 F2)))).
Qed.
Print Assumptions c01_vector_shifts_partial.

(* the shift finding and the need for naga_div's guard, at every width: ONE bad component makes the whole vector undefined *)
Theorem c01_vector_undefined_lifts :
  (forall n la lb i, (1 <= n)%nat -> length la = n -> length lb = n -> (i < n)%nat -> 32 <= nth i lb 0 ->
     is_done (teval [VVec (map VI32 la); VVec (map VU32 lb)] t_shl_i32) = false)
  /\ (forall n la lb i, (1 <= n)%nat -> length la = n -> length lb = n -> (i < n)%nat -> nth i lb 0 = 0 ->
     is_done (teval [VVec (map VI32 la); VVec (map VI32 lb)] (TOp 135 KSint [TArg 0; TArg 1])) = false).
Proof. exact (conj spv_shl_i32_vecn_undefined bare_sdiv_vecn_undefined). Qed.
Print Assumptions c01_vector_undefined_lifts.

Theorem c01_vector_clamp_select : 
  (forall n lx llo lhi, (1 <= n)%nat -> length lx = n -> length llo = n -> length lhi = n ->
     Forall (fun p => lt_i32 (snd (snd p)) (fst (snd p)) = false) (combine lx (combine llo lhi)) ->
     teval [VVec (map VI32 lx); VVec (map VI32 llo); VVec (map VI32 lhi)] t_clamp_i32
     = Done (VVec (zipw3 (fun x lo hi => VI32 (clamp_i32 x lo hi)) lx llo lhi)))
  /\ (forall n lx llo lhi, (1 <= n)%nat -> length lx = n -> length llo = n -> length lhi = n ->
     Forall (fun p => lt_u32 (snd (snd p)) (fst (snd p)) = false) (combine lx (combine llo lhi)) ->
     teval [VVec (map VU32 lx); VVec (map VU32 llo); VVec (map VU32 lhi)] t_clamp_u32
     = Done (VVec (zipw3 (fun x lo hi => VU32 (clamp_u32 x lo hi)) lx llo lhi)))
  /\ (forall n lf lt lc, (1 <= n)%nat -> length lf = n -> length lt = n -> length lc = n ->
     teval [VVec (map VI32 lf); VVec (map VI32 lt); VVec (map VBool lc)] t_select_i32
     = Done (VVec (zipw3 (fun f t (c : bool) => if c then VI32 t else VI32 f) lf lt lc)))
  /\ (forall n lf lt lc, (1 <= n)%nat -> length lf = n -> length lt = n -> length lc = n ->
     teval [VVec (map VF32 lf); VVec (map VF32 lt); VVec (map VBool lc)] t_select_f32
     = Done (VVec (zipw3 (fun f t (c : bool) => if c then VF32 t else VF32 f) lf lt lc))).
Proof.
  exact (conj spv_clamp_i32_vecn_partial (conj spv_clamp_u32_vecn_partial (conj spv_select_i32_vecn spv_select_f32_vecn))).
Qed.
Print Assumptions c01_vector_clamp_select.

Theorem c01_vector_conversions :
  (forall n la, (1 <= n)%nat -> length la = n -> Forall ftos_ok la ->
     teval [VVec (map VF32 la)] t_as_i32_f32 = Done (VVec (map (fun a => VI32 (i32_of_f32 a)) la)))
  /\ (forall n la, (1 <= n)%nat -> length la = n -> Forall ftou_ok la ->
     teval [VVec (map VF32 la)] t_as_u32_f32 = Done (VVec (map (fun a => VU32 (u32_of_f32 a)) la)))
  /\ (forall n lb, (1 <= n)%nat -> length lb = n ->
     teval [VVec (map VBool lb)] (vectorize n t_as_i32_bool) = Done (VVec (map (fun b => VI32 (u32_of_bool b)) lb)))
  /\ (forall n la, (1 <= n)%nat -> length la = n -> Forall in32 la ->
     teval [VVec (map VI32 la)] (vectorize n t_as_bool_i32) = Done (VVec (map (fun a => VBool (bool_of_32 a)) la))).
Proof.
  exact (conj spv_as_i32_f32_vecn_partial (conj spv_as_u32_f32_vecn_partial (conj spv_as_i32_bool_vecn spv_as_bool_i32_vecn))).
Qed.
Print Assumptions c01_vector_conversions.

(* ---- non-vacuity ---- *)
(* n = 5, a width naga never emits: the theorem is not a sweep over 2, 3, 4.  MIN / -1 and x / 0 are among the components. *)
Example c01_vector_lift_width5 :
  teval [VVec (map VI32 [7; 4294967289; 2147483648; 5; 0]); VVec (map VI32 [2; 2; 4294967295; 0; 0])] (vectorize 5 t_div_i32)
  = Done (VVec (map VI32 [3; 4294967293; 2147483648; 5; 0])).
Proof. exact div_i32_vec5. Qed.

(* the hypotheses of c01_vector_lift are satisfiable at n = 5 by the template naga's vec rows have the form of *)
Example c01_vector_lift_hyps_width5 :
  cw_shape (fun _ => true) (vectorize 5 t_div_i32) = true
  /\ splats_width 5 (vectorize 5 t_div_i32) = true
  /\ env_ok 5 (fun _ => true) [VVec (map VI32 [7; 4294967289; 2147483648; 5; 0]); VVec (map VI32 [2; 2; 4294967295; 0; 0])]
  /\ texp_eqb (erase_splat (vectorize 5 t_div_i32)) t_div_i32 = true.
Proof.
  repeat split; try reflexivity.
  apply vec_env_ok. repeat constructor; eexists; repeat split; reflexivity.
Qed.

(* the class really excludes what is not component-wise, and a scalar constant where a splat is needed *)
Example c01_vector_class_rejects :
  cw_template t_dot_f32 = false /\ cw_template t_any_bool = false /\ cw_template t_dot_i32_v3 = false
  /\ cw_template (TOp 171 KBool [TArg 0; TConst KSint 0]) = false
  /\ splats_width 3 (TOp 171 KBool [TArg 0; TSplat 2 (TConst KSint 0)]) = false
  /\ teval [VVec [VI32 1; VI32 0; VI32 2]] (TOp 171 KBool [TArg 0; TSplat 2 (TConst KSint 0)])
     = Fail "vector length mismatch".
Proof. repeat split; reflexivity. Qed.

(* the undefined-lifting theorem fires: vec5 << with one amount = 32 *)
Example c01_vector_undefined_width5 :
  is_done (teval [VVec (map VI32 [1; 1; 1; 1; 1]); VVec (map VU32 [0; 1; 32; 3; 4])] t_shl_i32) = false.
Proof. apply (spv_shl_i32_vecn_undefined 5 _ _ 2%nat); simpl; lia. Qed.
