(* Property C01 (operator level + executable SPIR-V semantics): the SPIR-V instruction template naga emits
   for every WGSL operator / builtin on i32, u32, f32, bool computes the WGSL meaning for ALL 32-bit operands
   and never depends on undefined behaviour -- or, where it does not, a witness (`_refuted`, each a recorded
   finding).  Templates are evaluated with the operation semantics of the executable SPIR-V interpreter
   (Spv/Ops.v, used by Spv/Sem.v); the catalogue is tied to today's naga by Spv/OpTableCheck.v
   (gen_table_in_catalogue over the regenerated Gen/SpvOpTable.v).  The lemmas about the division /
   remainder wrappers, shifts, float->int conversions, bit-field and clamp instructions are also C15's
   operator-level theorems for the SPIR-V backend.
   Partial: the whole-program theorem (spv_check_sound, DESIGN section 4) is not proved; whole programs are
   covered by validation: the extracted interpreter (tool spvrun) against the IR reference interpreter
   (tool irrun) on generated and hand-written programs (checks/c01.py). *)
From Coq Require Import List ZArith String Bool.
Import ListNotations.
Require Import Naga.Base.Bits32 Naga.Base.F32 Naga.IR.Values Naga.Spv.Binary Naga.Spv.Ops Naga.Spv.Sem
               Naga.Spv.Catalogue Naga.Spv.CatalogueProofs Naga.Spv.OpTableCheck Naga.Gen.SpvOpTable
               Naga.IR.Syntax Naga.IR.Sem Naga.IR.SemProps Naga.Wgsl.Sem Naga.Wgsl.SemProps.
Open Scope Z_scope.


(* i32 / u32 arithmetic, incl. the wrapped helpers naga_div / naga_mod (OpSDiv, OpSRem, OpUDiv, OpUMod behind the rhs == 0 / MIN,-1 guard) *)
Theorem c01_int_arith :
  (forall a b, in32 a -> in32 b -> teval [VI32 a; VI32 b] t_add_i32 = Done (VI32 (add32 a b)))
  /\ (forall a b, in32 a -> in32 b -> teval [VI32 a; VI32 b] t_sub_i32 = Done (VI32 (sub32 a b)))
  /\ (forall a b, in32 a -> in32 b -> teval [VI32 a; VI32 b] t_mul_i32 = Done (VI32 (mul32 a b)))
  /\ (forall a b, in32 a -> in32 b -> teval [VU32 a; VU32 b] t_add_u32 = Done (VU32 (add32 a b)))
  /\ (forall a b, in32 a -> in32 b -> teval [VU32 a; VU32 b] t_sub_u32 = Done (VU32 (sub32 a b)))
  /\ (forall a b, in32 a -> in32 b -> teval [VU32 a; VU32 b] t_mul_u32 = Done (VU32 (mul32 a b)))
  /\ (forall a b, in32 a -> in32 b -> teval [VI32 a; VI32 b] t_div_i32 = Done (VI32 (div_i32 a b)))
  /\ (forall a b, in32 a -> in32 b -> teval [VI32 a; VI32 b] t_mod_i32 = Done (VI32 (rem_i32 a b)))
  /\ (forall a b, in32 a -> in32 b -> teval [VU32 a; VU32 b] t_div_u32 = Done (VU32 (div_u32 a b)))
  /\ (forall a b, in32 a -> in32 b -> teval [VU32 a; VU32 b] t_mod_u32 = Done (VU32 (rem_u32 a b)))
  /\ (exists a b, in32 a /\ in32 b /\ teval [VI32 a; VI32 b] (TOp 135 KSint [TArg 0; TArg 1]) <> Done (VI32 (div_i32 a b)))
  /\ (exists a b, in32 a /\ in32 b /\ teval [VI32 a; VI32 b] (TOp 139 KSint [TArg 0; TArg 1]) <> Done (VI32 (rem_i32 a b)))
  /\ (forall a0 a1 b0 b1, in32 a0 -> in32 a1 -> in32 b0 -> in32 b1 -> teval [VVec [VI32 a0; VI32 a1]; VVec [VI32 b0; VI32 b1]] t_div_i32_vec2 = Done (VVec [VI32 (div_i32 a0 b0); VI32 (div_i32 a1 b1)])).
Proof.
  exact (conj spv_add_i32_correct (conj spv_sub_i32_correct (conj spv_mul_i32_correct (conj spv_add_u32_correct (conj spv_sub_u32_correct (conj spv_mul_u32_correct (conj spv_div_i32_correct (conj spv_mod_i32_correct (conj spv_div_u32_correct (conj spv_mod_u32_correct (conj bare_sdiv_undefined (conj smod_is_not_wgsl_rem spv_div_i32_vec2_correct)))))))))))).
Qed.
Print Assumptions c01_int_arith.

(* integer comparisons (signedness is in the opcode) *)
Theorem c01_int_compare :
  (forall a b, in32 a -> in32 b -> teval [VI32 a; VI32 b] t_eq_i32 = Done (VBool (a =? b)))
  /\ (forall a b, in32 a -> in32 b -> teval [VI32 a; VI32 b] t_ne_i32 = Done (VBool (negb (a =? b))))
  /\ (forall a b, in32 a -> in32 b -> teval [VI32 a; VI32 b] t_lt_i32 = Done (VBool (lt_i32 a b)))
  /\ (forall a b, in32 a -> in32 b -> teval [VI32 a; VI32 b] t_le_i32 = Done (VBool (le_i32 a b)))
  /\ (forall a b, in32 a -> in32 b -> teval [VI32 a; VI32 b] t_gt_i32 = Done (VBool (lt_i32 b a)))
  /\ (forall a b, in32 a -> in32 b -> teval [VI32 a; VI32 b] t_ge_i32 = Done (VBool (le_i32 b a)))
  /\ (forall a b, in32 a -> in32 b -> teval [VU32 a; VU32 b] t_eq_u32 = Done (VBool (a =? b)))
  /\ (forall a b, in32 a -> in32 b -> teval [VU32 a; VU32 b] t_ne_u32 = Done (VBool (negb (a =? b))))
  /\ (forall a b, in32 a -> in32 b -> teval [VU32 a; VU32 b] t_lt_u32 = Done (VBool (lt_u32 a b)))
  /\ (forall a b, in32 a -> in32 b -> teval [VU32 a; VU32 b] t_le_u32 = Done (VBool (le_u32 a b)))
  /\ (forall a b, in32 a -> in32 b -> teval [VU32 a; VU32 b] t_gt_u32 = Done (VBool (lt_u32 b a)))
  /\ (forall a b, in32 a -> in32 b -> teval [VU32 a; VU32 b] t_ge_u32 = Done (VBool (le_u32 b a)))
  /\ (exists a b, in32 a /\ in32 b /\ teval [VI32 a; VI32 b] (TOp 176 KBool [TArg 0; TArg 1]) <> Done (VBool (lt_i32 a b))).
Proof.
  exact (conj spv_eq_i32_correct (conj spv_ne_i32_correct (conj spv_lt_i32_correct (conj spv_le_i32_correct (conj spv_gt_i32_correct (conj spv_ge_i32_correct (conj spv_eq_u32_correct (conj spv_ne_u32_correct (conj spv_lt_u32_correct (conj spv_le_u32_correct (conj spv_gt_u32_correct (conj spv_ge_u32_correct ult_is_not_i32_lt)))))))))))).
Qed.
Print Assumptions c01_int_compare.

(* bitwise operators and integer negation *)
Theorem c01_bitwise :
  (forall a b, in32 a -> in32 b -> teval [VI32 a; VI32 b] t_and_i32 = Done (VI32 (and32 a b)))
  /\ (forall a b, in32 a -> in32 b -> teval [VI32 a; VI32 b] t_or_i32 = Done (VI32 (or32 a b)))
  /\ (forall a b, in32 a -> in32 b -> teval [VI32 a; VI32 b] t_xor_i32 = Done (VI32 (xor32 a b)))
  /\ (forall a, in32 a -> teval [VI32 a] t_not_i32 = Done (VI32 (not32 a)))
  /\ (forall a b, in32 a -> in32 b -> teval [VU32 a; VU32 b] t_and_u32 = Done (VU32 (and32 a b)))
  /\ (forall a b, in32 a -> in32 b -> teval [VU32 a; VU32 b] t_or_u32 = Done (VU32 (or32 a b)))
  /\ (forall a b, in32 a -> in32 b -> teval [VU32 a; VU32 b] t_xor_u32 = Done (VU32 (xor32 a b)))
  /\ (forall a, in32 a -> teval [VU32 a] t_not_u32 = Done (VU32 (not32 a)))
  /\ (forall a, in32 a -> teval [VI32 a] t_neg_i32 = Done (VI32 (neg32 a))).
Proof.
  exact (conj spv_and_i32_correct (conj spv_or_i32_correct (conj spv_xor_i32_correct (conj spv_not_i32_correct (conj spv_and_u32_correct (conj spv_or_u32_correct (conj spv_xor_u32_correct (conj spv_not_u32_correct spv_neg_i32_correct)))))))).
Qed.
Print Assumptions c01_bitwise.

(* shifts: correct for amounts < 32, REFUTED for amounts >= 32 (emitted unmasked) *)
Theorem c01_shifts :
  (forall a b, in32 a -> 0 <= b < 32 -> teval [VI32 a; VU32 b] t_shl_i32 = Done (VI32 (shl32 a b)))
  /\ (exists a b, in32 a /\ in32 b /\ teval [VI32 a; VU32 b] t_shl_i32 <> Done (VI32 (shl32 a b)))
  /\ (forall a b, in32 a -> 0 <= b < 32 -> teval [VU32 a; VU32 b] t_shl_u32 = Done (VU32 (shl32 a b)))
  /\ (exists a b, in32 a /\ in32 b /\ teval [VU32 a; VU32 b] t_shl_u32 <> Done (VU32 (shl32 a b)))
  /\ (forall a b, in32 a -> 0 <= b < 32 -> teval [VI32 a; VU32 b] t_shr_i32 = Done (VI32 (shr_i32 a b)))
  /\ (exists a b, in32 a /\ in32 b /\ teval [VI32 a; VU32 b] t_shr_i32 <> Done (VI32 (shr_i32 a b)))
  /\ (forall a b, in32 a -> 0 <= b < 32 -> teval [VU32 a; VU32 b] t_shr_u32 = Done (VU32 (shr_u32 a b)))
  /\ (exists a b, in32 a /\ in32 b /\ teval [VU32 a; VU32 b] t_shr_u32 <> Done (VU32 (shr_u32 a b))).
Proof.
  exact (conj spv_shl_i32_correct_partial (conj spv_shl_i32_refuted (conj spv_shl_u32_correct_partial (conj spv_shl_u32_refuted (conj spv_shr_i32_correct_partial (conj spv_shr_i32_refuted (conj spv_shr_u32_correct_partial spv_shr_u32_refuted))))))).
Qed.
Print Assumptions c01_shifts.

(* f32 arithmetic and comparisons; != and % are not the WGSL operators on all operands *)
Theorem c01_f32_ops :
  (forall a b, in32 a -> in32 b -> teval [VF32 a; VF32 b] t_add_f32 = Done (VF32 (fadd a b)))
  /\ (forall a b, in32 a -> in32 b -> teval [VF32 a; VF32 b] t_sub_f32 = Done (VF32 (fsub a b)))
  /\ (forall a b, in32 a -> in32 b -> teval [VF32 a; VF32 b] t_mul_f32 = Done (VF32 (fmul a b)))
  /\ (forall a b, in32 a -> in32 b -> teval [VF32 a; VF32 b] t_div_f32 = Done (VF32 (fdiv a b)))
  /\ (forall a, in32 a -> teval [VF32 a] t_neg_f32 = Done (VF32 (fneg a)))
  /\ (forall a b, in32 a -> in32 b -> teval [VF32 a; VF32 b] t_eq_f32 = Done (VBool (feq a b)))
  /\ (forall a b, in32 a -> in32 b -> teval [VF32 a; VF32 b] t_lt_f32 = Done (VBool (flt a b)))
  /\ (forall a b, in32 a -> in32 b -> teval [VF32 a; VF32 b] t_le_f32 = Done (VBool (fle a b)))
  /\ (forall a b, in32 a -> in32 b -> teval [VF32 a; VF32 b] t_gt_f32 = Done (VBool (fgt a b)))
  /\ (forall a b, in32 a -> in32 b -> teval [VF32 a; VF32 b] t_ge_f32 = Done (VBool (fge a b)))
  /\ (forall a b, is_nan_bits a = false -> is_nan_bits b = false -> teval [VF32 a; VF32 b] t_ne_f32 = Done (VBool (fne a b)))
  /\ (exists a b, teval [VF32 a; VF32 b] t_ne_f32 = Done (VBool false) /\ fne a b = true)
  /\ (exists a b, in32 a /\ in32 b /\ teval [VF32 a; VF32 b] t_mod_f32 <> (z <~ wgsl_rem_f32 a b ;; Done (VF32 z)))
  /\ (forall a b, teval [VF32 a; VF32 b] (TOp 140 KFloat [TArg 0; TArg 1]) = (z <~ wgsl_rem_f32 a b ;; Done (VF32 z))).
Proof.
  exact (conj spv_add_f32_correct (conj spv_sub_f32_correct (conj spv_mul_f32_correct (conj spv_div_f32_correct (conj spv_neg_f32_correct (conj spv_eq_f32_correct (conj spv_lt_f32_correct (conj spv_le_f32_correct (conj spv_gt_f32_correct (conj spv_ge_f32_correct (conj spv_ne_f32_correct_partial (conj spv_ne_f32_nan_differs (conj spv_mod_f32_refuted frem_is_wgsl_rem))))))))))))).
Qed.
Print Assumptions c01_f32_ops.

(* bool operators, all / any *)
Theorem c01_bool_ops :
  (forall a b, teval [VBool a; VBool b] t_eq_bool = Done (VBool (Bool.eqb a b)))
  /\ (forall a b, teval [VBool a; VBool b] t_ne_bool = Done (VBool (negb (Bool.eqb a b))))
  /\ (forall a b, teval [VBool a; VBool b] t_and_bool = Done (VBool (andb a b)))
  /\ (forall a b, teval [VBool a; VBool b] t_or_bool = Done (VBool (orb a b)))
  /\ (forall a, teval [VBool a] t_lnot_bool = Done (VBool (negb a)))
  /\ (forall l, teval [VVec (map VBool l)] t_all_bool = Done (VBool (forallb (fun b => b) l)))
  /\ (forall l, teval [VVec (map VBool l)] t_any_bool = Done (VBool (existsb (fun b => b) l))).
Proof.
  exact (conj spv_eq_bool_correct (conj spv_ne_bool_correct (conj spv_and_bool_correct (conj spv_or_bool_correct (conj spv_lnot_bool_correct (conj spv_all_bool_correct spv_any_bool_correct)))))).
Qed.
Print Assumptions c01_bool_ops.

(* value conversions and bitcasts; f32 -> i32/u32 REFUTED outside the target range (bare OpConvertFToS/U) *)
Theorem c01_conversions :
  (forall a, in32 a -> teval [VI32 a] t_as_u32_i32 = Done (VU32 (u32_of_i32 a)))
  /\ (forall a, in32 a -> teval [VU32 a] t_as_i32_u32 = Done (VI32 (i32_of_u32 a)))
  /\ (forall a, in32 a -> teval [VI32 a] t_as_f32_i32 = Done (VF32 (f32_of_i32 a)))
  /\ (forall a, in32 a -> teval [VU32 a] t_as_f32_u32 = Done (VF32 (f32_of_u32 a)))
  /\ (forall a, in32 a -> teval [VI32 a] t_as_bool_i32 = Done (VBool (bool_of_32 a)))
  /\ (forall a, in32 a -> teval [VU32 a] t_as_bool_u32 = Done (VBool (bool_of_32 a)))
  /\ (forall b, teval [VBool b] t_as_i32_bool = Done (VI32 (u32_of_bool b)))
  /\ (forall b, teval [VBool b] t_as_u32_bool = Done (VU32 (u32_of_bool b)))
  /\ (forall b, teval [VBool b] t_as_f32_bool = Done (VF32 (if b then 1065353216 else 0)))
  /\ (forall a, is_nan_bits a = false -> teval [VF32 a] t_as_bool_f32 = Done (VBool (negb (feq a 0))))
  /\ (exists a, teval [VF32 a] t_as_bool_f32 = Done (VBool false) /\ negb (feq a 0) = true)
  /\ (forall a z, z_of_f32_trunc a = Some z -> -2147483648 <= z <= 2147483647 -> teval [VF32 a] t_as_i32_f32 = Done (VI32 (i32_of_f32 a)))
  /\ (exists a, in32 a /\ teval [VF32 a] t_as_i32_f32 <> Done (VI32 (i32_of_f32 a)))
  /\ (teval [VF32 QNAN] t_as_i32_f32 <> Done (VI32 (i32_of_f32 QNAN)))
  /\ (forall a z, z_of_f32_trunc a = Some z -> 0 <= z <= 4294967295 -> teval [VF32 a] t_as_u32_f32 = Done (VU32 (u32_of_f32 a)))
  /\ (exists a, in32 a /\ teval [VF32 a] t_as_u32_f32 <> Done (VU32 (u32_of_f32 a)))
  /\ (forall a, in32 a -> teval [VI32 a] t_bitcast_u32_i32 = Done (VU32 a))
  /\ (forall a, in32 a -> teval [VI32 a] t_bitcast_f32_i32 = Done (VF32 a))
  /\ (forall a, in32 a -> teval [VU32 a] t_bitcast_i32_u32 = Done (VI32 a))
  /\ (forall a, in32 a -> teval [VU32 a] t_bitcast_f32_u32 = Done (VF32 a))
  /\ (forall a, in32 a -> teval [VF32 a] t_bitcast_i32_f32 = Done (VI32 a))
  /\ (forall a, in32 a -> teval [VF32 a] t_bitcast_u32_f32 = Done (VU32 a)).
Proof.
  exact (conj spv_as_u32_i32_correct (conj spv_as_i32_u32_correct (conj spv_as_f32_i32_correct (conj spv_as_f32_u32_correct (conj spv_as_bool_i32_correct (conj spv_as_bool_u32_correct (conj spv_as_i32_bool_correct (conj spv_as_u32_bool_correct (conj spv_as_f32_bool_correct (conj spv_as_bool_f32_correct_partial (conj spv_as_bool_f32_nan_differs (conj spv_as_i32_f32_correct_partial (conj spv_as_i32_f32_refuted (conj spv_as_i32_f32_refuted_nan (conj spv_as_u32_f32_correct_partial (conj spv_as_u32_f32_refuted (conj spv_bitcast_u32_i32_correct (conj spv_bitcast_f32_i32_correct (conj spv_bitcast_i32_u32_correct (conj spv_bitcast_f32_u32_correct (conj spv_bitcast_i32_f32_correct spv_bitcast_u32_f32_correct))))))))))))))))))))).
Qed.
Print Assumptions c01_conversions.

(* select *)
Theorem c01_select :
  (forall f t c, teval [VI32 f; VI32 t; VBool c] t_select_i32 = Done (if c then VI32 t else VI32 f))
  /\ (forall f t c, teval [VU32 f; VU32 t; VBool c] t_select_u32 = Done (if c then VU32 t else VU32 f))
  /\ (forall f t c, teval [VF32 f; VF32 t; VBool c] t_select_f32 = Done (if c then VF32 t else VF32 f))
  /\ (forall f t c, teval [VBool f; VBool t; VBool c] t_select_bool = Done (if c then VBool t else VBool f))
  /\ (exists f t c, teval [VI32 f; VI32 t; VBool c] (TOp 169 KSint [TArg 2; TArg 0; TArg 1]) <> Done (if c then VI32 t else VI32 f)).
Proof.
  exact (conj spv_select_i32_correct (conj spv_select_u32_correct (conj spv_select_f32_correct (conj spv_select_bool_correct select_swapped_is_wrong)))).
Qed.
Print Assumptions c01_select.

(* integer builtins; abs(u32) and clamp with low > high REFUTED *)
Theorem c01_int_math :
  (forall a, in32 a -> teval [VI32 a] t_abs_i32 = Done (VI32 (abs_i32 a)))
  /\ (forall a, in32 a -> teval [VI32 a] t_sign_i32 = Done (VI32 (sign_i32 a)))
  /\ (forall a b, in32 a -> in32 b -> teval [VI32 a; VI32 b] t_min_i32 = Done (VI32 (min_i32 a b)))
  /\ (forall a b, in32 a -> in32 b -> teval [VI32 a; VI32 b] t_max_i32 = Done (VI32 (max_i32 a b)))
  /\ (forall a b, in32 a -> in32 b -> teval [VU32 a; VU32 b] t_min_u32 = Done (VU32 (min_u32 a b)))
  /\ (forall a b, in32 a -> in32 b -> teval [VU32 a; VU32 b] t_max_u32 = Done (VU32 (max_u32 a b)))
  /\ (forall a, 0 <= a < H32 -> teval [VU32 a] t_abs_u32 = Done (VU32 a))
  /\ (exists a, in32 a /\ teval [VU32 a] t_abs_u32 <> Done (VU32 a))
  /\ (forall x lo hi, lt_i32 hi lo = false -> teval [VI32 x; VI32 lo; VI32 hi] t_clamp_i32 = Done (VI32 (clamp_i32 x lo hi)))
  /\ (exists x lo hi, in32 x /\ in32 lo /\ in32 hi /\ teval [VI32 x; VI32 lo; VI32 hi] t_clamp_i32 <> Done (VI32 (clamp_i32 x lo hi)))
  /\ (forall x lo hi, lt_u32 hi lo = false -> teval [VU32 x; VU32 lo; VU32 hi] t_clamp_u32 = Done (VU32 (clamp_u32 x lo hi)))
  /\ (exists x lo hi, in32 x /\ in32 lo /\ in32 hi /\ teval [VU32 x; VU32 lo; VU32 hi] t_clamp_u32 <> Done (VU32 (clamp_u32 x lo hi))).
Proof.
  exact (conj spv_abs_i32_correct (conj spv_sign_i32_correct (conj spv_min_i32_correct (conj spv_max_i32_correct (conj spv_min_u32_correct (conj spv_max_u32_correct (conj spv_abs_u32_correct_partial (conj spv_abs_u32_refuted (conj spv_clamp_i32_correct_partial (conj spv_clamp_i32_refuted (conj spv_clamp_u32_correct_partial spv_clamp_u32_refuted))))))))))).
Qed.
Print Assumptions c01_int_math.

(* f32 builtins; round REFUTED on ties; min/max/clamp/saturate/sign partial (NaN unspecified) *)
Theorem c01_f32_math :
  (forall a, in32 a -> teval [VF32 a] t_abs_f32 = Done (VF32 (fabs a)))
  /\ (forall a, in32 a -> teval [VF32 a] t_floor_f32 = Done (VF32 (ffloor a)))
  /\ (forall a, in32 a -> teval [VF32 a] t_ceil_f32 = Done (VF32 (fceil a)))
  /\ (forall a, in32 a -> teval [VF32 a] t_trunc_f32 = Done (VF32 (ftrunc a)))
  /\ (forall a, in32 a -> teval [VF32 a] t_sqrt_f32 = Done (VF32 (fsqrt a)))
  /\ (forall a b c, in32 a -> in32 b -> in32 c -> teval [VF32 a; VF32 b; VF32 c] t_fma_f32 = Done (VF32 (ffma a b c)))
  /\ (forall a, is_half_tie a = false -> teval [VF32 a] t_round_f32 = Done (VF32 (fround a)))
  /\ (exists a, in32 a /\ teval [VF32 a] t_round_f32 <> Done (VF32 (fround a)))
  /\ (forall a, teval [VF32 a] (TExt 2 KFloat [TArg 0]) = Done (VF32 (fround a)))
  /\ (forall a b, is_nan_bits a = false -> is_nan_bits b = false -> teval [VF32 a; VF32 b] t_min_f32 = Done (VF32 (fmin a b)))
  /\ (forall a b, is_nan_bits a = false -> is_nan_bits b = false -> teval [VF32 a; VF32 b] t_max_f32 = Done (VF32 (fmax a b)))
  /\ (exists a b, teval [VF32 a; VF32 b] t_min_f32 = Fail "NAN: FMin with a NaN operand")
  /\ (forall x lo hi, is_nan_bits x = false -> is_nan_bits lo = false -> is_nan_bits hi = false -> flt hi lo = false -> teval [VF32 x; VF32 lo; VF32 hi] t_clamp_f32 = Done (VF32 (wgsl_clamp_f32 x lo hi)))
  /\ (forall x, is_nan_bits x = false -> teval [VF32 x] t_saturate_f32 = Done (VF32 (wgsl_clamp_f32 x 0 1065353216)))
  /\ (forall x, is_nan_bits x = false -> teval [VF32 x] t_sign_f32 = Done (VF32 (wgsl_sign_f32 x))).
Proof.
  exact (conj spv_abs_f32_correct (conj spv_floor_f32_correct (conj spv_ceil_f32_correct (conj spv_trunc_f32_correct (conj spv_sqrt_f32_correct (conj spv_fma_f32_correct (conj spv_round_f32_correct_partial (conj spv_round_f32_refuted (conj roundeven_is_wgsl_round (conj spv_min_f32_correct_partial (conj spv_max_f32_correct_partial (conj spv_min_f32_nan_unspecified (conj spv_clamp_f32_correct_partial (conj spv_saturate_f32_correct_partial spv_sign_f32_correct_partial)))))))))))))).
Qed.
Print Assumptions c01_f32_math.

(* bit builtins; countLeadingZeros / countTrailingZeros / extractBits / insertBits REFUTED *)
Theorem c01_bit_builtins :
  (forall a, in32 a -> teval [VI32 a] t_countOneBits_i32 = Done (VI32 (count_one_bits a)))
  /\ (forall a, in32 a -> teval [VU32 a] t_countOneBits_u32 = Done (VU32 (count_one_bits a)))
  /\ (forall a, in32 a -> teval [VI32 a] t_reverseBits_i32 = Done (VI32 (reverse_bits a)))
  /\ (forall a, in32 a -> teval [VU32 a] t_reverseBits_u32 = Done (VU32 (reverse_bits a)))
  /\ (forall a, in32 a -> teval [VI32 a] t_firstLeadingBit_i32 = Done (VI32 (first_leading_bit_i32 a)))
  /\ (forall a, in32 a -> teval [VU32 a] t_firstLeadingBit_u32 = Done (VU32 (first_leading_bit_u32 a)))
  /\ (forall a, in32 a -> teval [VI32 a] t_firstTrailingBit_i32 = Done (VI32 (first_trailing_bit a)))
  /\ (forall a, in32 a -> teval [VU32 a] t_firstTrailingBit_u32 = Done (VU32 (first_trailing_bit a)))
  /\ (exists a, in32 a /\ teval [VU32 a] t_countLeadingZeros_u32 <> Done (VU32 (count_leading_zeros a)))
  /\ (exists a, in32 a /\ teval [VI32 a] t_countLeadingZeros_i32 <> Done (VI32 (count_leading_zeros a)))
  /\ (forall a, a <> 0 -> teval [VU32 a] t_countTrailingZeros_u32 = Done (VU32 (count_trailing_zeros a)))
  /\ (exists a, in32 a /\ teval [VU32 a] t_countTrailingZeros_u32 <> Done (VU32 (count_trailing_zeros a)))
  /\ (forall a, a <> 0 -> teval [VI32 a] t_countTrailingZeros_i32 = Done (VI32 (count_trailing_zeros a)))
  /\ (exists a, in32 a /\ teval [VI32 a] t_countTrailingZeros_i32 <> Done (VI32 (count_trailing_zeros a)))
  /\ (forall e o c, 0 <= o -> 0 <= c -> o + c <= 32 -> teval [VU32 e; VU32 o; VU32 c] t_extractBits_u32 = Done (VU32 (extract_bits_u32 e o c)))
  /\ (exists e o c, in32 e /\ in32 o /\ in32 c /\ teval [VU32 e; VU32 o; VU32 c] t_extractBits_u32 <> Done (VU32 (extract_bits_u32 e o c)))
  /\ (forall e o c, 0 <= o -> 0 <= c -> o + c <= 32 -> teval [VI32 e; VU32 o; VU32 c] t_extractBits_i32 = Done (VI32 (extract_bits_i32 e o c)))
  /\ (exists e o c, in32 e /\ in32 o /\ in32 c /\ teval [VI32 e; VU32 o; VU32 c] t_extractBits_i32 <> Done (VI32 (extract_bits_i32 e o c)))
  /\ (forall e n o c, 0 <= o -> 0 <= c -> o + c <= 32 -> teval [VU32 e; VU32 n; VU32 o; VU32 c] t_insertBits_u32 = Done (VU32 (insert_bits e n o c)))
  /\ (exists e n o c, in32 e /\ in32 n /\ in32 o /\ in32 c /\ teval [VU32 e; VU32 n; VU32 o; VU32 c] t_insertBits_u32 <> Done (VU32 (insert_bits e n o c)))
  /\ (forall e n o c, 0 <= o -> 0 <= c -> o + c <= 32 -> teval [VI32 e; VI32 n; VU32 o; VU32 c] t_insertBits_i32 = Done (VI32 (insert_bits e n o c)))
  /\ (exists e n o c, in32 e /\ in32 n /\ in32 o /\ in32 c /\ teval [VI32 e; VI32 n; VU32 o; VU32 c] t_insertBits_i32 <> Done (VI32 (insert_bits e n o c))).
Proof.
  exact (conj spv_countOneBits_i32_correct (conj spv_countOneBits_u32_correct (conj spv_reverseBits_i32_correct (conj spv_reverseBits_u32_correct (conj spv_firstLeadingBit_i32_correct (conj spv_firstLeadingBit_u32_correct (conj spv_firstTrailingBit_i32_correct (conj spv_firstTrailingBit_u32_correct (conj spv_countLeadingZeros_u32_refuted (conj spv_countLeadingZeros_i32_refuted (conj spv_countTrailingZeros_u32_correct_partial (conj spv_countTrailingZeros_u32_refuted (conj spv_countTrailingZeros_i32_correct_partial (conj spv_countTrailingZeros_i32_refuted (conj spv_extractBits_u32_correct_partial (conj spv_extractBits_u32_refuted (conj spv_extractBits_i32_correct_partial (conj spv_extractBits_i32_refuted (conj spv_insertBits_u32_correct_partial (conj spv_insertBits_u32_refuted (conj spv_insertBits_i32_correct_partial spv_insertBits_i32_refuted))))))))))))))))))))).
Qed.
Print Assumptions c01_bit_builtins.

(* dot products; the vec2 form of naga_div *)
Theorem c01_dot_and_vectors :
  (forall a0 a1 b0 b1, teval [VVec [VI32 a0; VI32 a1]; VVec [VI32 b0; VI32 b1]] t_dot_i32_v2 = Done (VI32 (add32 (mul32 a0 b0) (mul32 a1 b1))))
  /\ (forall a0 a1 a2 b0 b1 b2, teval [VVec [VI32 a0; VI32 a1; VI32 a2]; VVec [VI32 b0; VI32 b1; VI32 b2]] t_dot_i32_v3 = Done (VI32 (add32 (add32 (mul32 a0 b0) (mul32 a1 b1)) (mul32 a2 b2))))
  /\ (forall a0 a1 a2 a3 b0 b1 b2 b3, teval [VVec [VI32 a0; VI32 a1; VI32 a2; VI32 a3]; VVec [VI32 b0; VI32 b1; VI32 b2; VI32 b3]] t_dot_i32_v4 = Done (VI32 (add32 (add32 (add32 (mul32 a0 b0) (mul32 a1 b1)) (mul32 a2 b2)) (mul32 a3 b3))))
  /\ (forall a0 a1 b0 b1, teval [VVec [VU32 a0; VU32 a1]; VVec [VU32 b0; VU32 b1]] t_dot_u32_v2 = Done (VU32 (add32 (mul32 a0 b0) (mul32 a1 b1))))
  /\ (forall a0 a1 a2 b0 b1 b2, teval [VVec [VU32 a0; VU32 a1; VU32 a2]; VVec [VU32 b0; VU32 b1; VU32 b2]] t_dot_u32_v3 = Done (VU32 (add32 (add32 (mul32 a0 b0) (mul32 a1 b1)) (mul32 a2 b2))))
  /\ (forall a0 a1 a2 a3 b0 b1 b2 b3, teval [VVec [VU32 a0; VU32 a1; VU32 a2; VU32 a3]; VVec [VU32 b0; VU32 b1; VU32 b2; VU32 b3]] t_dot_u32_v4 = Done (VU32 (add32 (add32 (add32 (mul32 a0 b0) (mul32 a1 b1)) (mul32 a2 b2)) (mul32 a3 b3))))
  /\ (forall la lb, teval [VVec la; VVec lb] t_dot_f32 = dot_vals la lb).
Proof.
  exact (conj spv_dot_i32_v2_correct (conj spv_dot_i32_v3_correct (conj spv_dot_i32_v4_correct (conj spv_dot_u32_v2_correct (conj spv_dot_u32_v3_correct (conj spv_dot_u32_v4_correct spv_dot_f32_correct)))))).
Qed.
Print Assumptions c01_dot_and_vectors.

(* ---- the two reference semantics the WGSL -> IR -> SPIR-V legs are validated against are partial FUNCTIONS
   of (program, inputs): the fuel never changes a result.  "Computes what the WGSL program means" is
   therefore well defined, for every program and every input. ---- *)
Theorem c01_wgsl_meaning_is_a_function :
  forall f1 f2 P globals args r1 r2,
    wgsl_run f1 P globals args = Done r1 -> wgsl_run f2 P globals args = Done r2 -> r1 = r2.
Proof. exact wgsl_run_deterministic. Qed.
Print Assumptions c01_wgsl_meaning_is_a_function.

Theorem c01_wgsl_fuel_monotone :
  forall fuel fuel' P globals args r, (fuel <= fuel')%nat ->
    wgsl_run fuel P globals args = Done r -> wgsl_run fuel' P globals args = Done r.
Proof. exact wgsl_run_fuel_monotone. Qed.

Theorem c01_ir_meaning_is_a_function :
  forall f1 f2 m ep globals args r1 r2,
    run_entry f1 m ep globals args = Done r1 -> run_entry f2 m ep globals args = Done r2 -> r1 = r2.
Proof. exact run_entry_deterministic. Qed.
Print Assumptions c01_ir_meaning_is_a_function.

Theorem c01_ir_fuel_monotone :
  forall fuel fuel' m ep globals args r, (fuel <= fuel')%nat ->
    run_entry fuel m ep globals args = Done r -> run_entry fuel' m ep globals args = Done r.
Proof. exact run_entry_fuel_monotone. Qed.

(* the tie to the compiler: every template probed from today's naga is in the catalogue *)
Theorem c01_gen_table_in_catalogue : missing_rows table = [].
Proof. exact gen_table_in_catalogue. Qed.
Print Assumptions c01_gen_table_in_catalogue.
Theorem c01_gen_table_covers_catalogue :
  forallb (fun e => match e with (k, t, _) =>
     existsb (fun r => match r with (k', _, t') => String.eqb k k' && texp_eqb (erase_splat t') t end) table end) catalogue = true.
Proof. exact gen_table_covers_catalogue. Qed.
Theorem c01_catalogue_lemmas_cover :
  forallb (fun e => match e with (k, _, s) =>
             match s with Uninterpreted => true | _ => existsb (String.eqb k) lemma_keys end end) catalogue = true.
Proof. exact catalogue_lemmas_cover. Qed.

(* non-vacuity: the interpreter runs what naga emits today for a loop with `continue` and a store on one path
   (lib/spvprogs.py loop_continue: for k in 0..3 { if a[k]==2 {continue} if a[k]==3 {acc+=100; continue} acc += a[k]&15; o[k]=acc } o[3]=acc) *)
Definition example_words : list Z := [119734787; 65792; 0; 106; 0; 131089; 1; 720906; 1599492179; 1599227979; 1919906931; 1600481121; 1717990754; 1935635045; 1634889588; 1667196263; 1936941420; 0; 393227; 1; 1280527431; 1685353262; 808793134; 0; 196622; 0; 1; 327695; 5; 12; 1852399981; 0; 393232; 12; 17; 1; 1; 1; 262215; 4; 6; 4; 196679; 5; 2; 327752; 5; 0; 35; 0; 262215; 7; 34; 0; 262215; 7; 33; 0; 196679; 8; 2; 327752; 8; 0; 35; 0; 262215; 10; 34; 0; 262215; 10; 33; 1; 196679; 10; 24; 131091; 2; 262165; 3; 32; 1; 196637; 4; 3; 196638; 5; 4; 262176; 6; 12; 5; 196638; 8; 4; 262176; 9; 12; 8; 196641; 11; 2; 262176; 14; 7; 3; 262187; 3; 17; 0; 262165; 22; 32; 0; 262167; 23; 22; 2; 262176; 24; 7; 23; 131092; 25; 262167; 26; 25; 2; 262187; 22; 27; 0; 262187; 22; 28; 1; 262187; 22; 29; 4294967295; 327724; 23; 30; 27; 27; 327724; 23; 31; 29; 29; 262187; 3; 44; 4; 262176; 50; 12; 4; 262176; 52; 12; 3; 262187; 3; 58; 2; 262187; 3; 70; 3; 262187; 3; 76; 100; 262187; 3; 85; 15; 262187; 3; 97; 1; 262187; 22; 100; 3; 262203; 6; 7; 12; 262203; 9; 10; 12; 327734; 2; 12; 0; 11; 131320; 13; 262203; 14; 15; 7; 262203; 14; 16; 7; 327739; 24; 32; 7; 31; 196670; 15; 17; 196670; 16; 17; 131321; 18; 131320; 18; 262390; 21; 20; 0; 131321; 33; 131320; 33; 262205; 23; 35; 32; 327850; 26; 36; 30; 35; 262299; 25; 37; 36; 196855; 34; 0; 262394; 37; 21; 34; 131320; 34; 327761; 22; 38; 35; 1; 327850; 25; 39; 38; 27; 393385; 22; 40; 39; 28; 27; 327760; 23; 41; 40; 28; 327810; 23; 42; 35; 41; 196670; 32; 42; 131321; 19; 131320; 19; 262205; 3; 43; 16; 327857; 25; 45; 43; 44; 196855; 48; 0; 262394; 45; 46; 47; 131320; 46; 131321; 48; 131320; 47; 131321; 21; 131320; 48; 262205; 3; 49; 16; 327745; 50; 51; 10; 27; 327745; 52; 53; 51; 49; 262205; 3; 54; 53; 327745; 50; 55; 10; 27; 327745; 52; 56; 55; 49; 262205; 3; 57; 56; 327850; 25; 59; 57; 58; 196855; 62; 0; 262394; 59; 60; 61; 131320; 60; 131321; 20; 131320; 61; 131321; 62; 131320; 62; 262205; 3; 63; 16; 327745; 50; 64; 10; 27; 327745; 52; 65; 64; 63; 262205; 3; 66; 65; 327745; 50; 67; 10; 27; 327745; 52; 68; 67; 63; 262205; 3; 69; 68; 327850; 25; 71; 69; 70; 196855; 74; 0; 262394; 71; 72; 73; 131320; 72; 262205; 3; 75; 15; 327808; 3; 77; 75; 76; 196670; 15; 77; 131321; 20; 131320; 73; 131321; 74; 131320; 74; 262205; 3; 78; 16; 327745; 50; 79; 10; 27; 327745; 52; 80; 79; 78; 262205; 3; 81; 80; 327745; 50; 82; 10; 27; 327745; 52; 83; 82; 78; 262205; 3; 84; 83; 327879; 3; 86; 84; 85; 262205; 3; 87; 15; 327808; 3; 88; 87; 86; 196670; 15; 88; 262205; 3; 89; 16; 327745; 50; 90; 7; 27; 327745; 52; 91; 90; 89; 262205; 3; 92; 91; 262205; 3; 93; 15; 327745; 50; 94; 7; 27; 327745; 52; 95; 94; 89; 196670; 95; 93; 131321; 20; 131320; 20; 262205; 3; 96; 16; 327808; 3; 98; 96; 97; 196670; 16; 98; 131321; 18; 131320; 21; 327745; 50; 99; 7; 27; 327745; 52; 101; 99; 100; 262205; 3; 102; 101; 262205; 3; 103; 15; 327745; 50; 104; 7; 27; 327745; 52; 105; 104; 100; 196670; 105; 103; 65789; 65592].
Example c01_interpreter_runs_naga_output :
  run_words 5000 example_words "main"
    [("0:0", VArr [VI32 0; VI32 0; VI32 0; VI32 0]); ("0:1", VArr [VI32 5; VI32 2; VI32 3; VI32 9])] [("LocalInvocationId", VVec [VU32 0; VU32 0; VU32 0])]
  = Done [("0:0", VArr [VI32 5; VI32 0; VI32 0; VI32 114]); ("0:1", VArr [VI32 5; VI32 2; VI32 3; VI32 9])].
Proof. vm_compute. reflexivity. Qed.

(* non-vacuity of the operator lemmas: the hypotheses hold for the boundary operands, and the guarded division really meets them *)
Example c01_div_boundary :
  in32 2147483648 /\ in32 4294967295 /\
  teval [VI32 2147483648; VI32 4294967295] t_div_i32 = Done (VI32 2147483648) /\
  teval [VI32 7; VI32 0] t_div_i32 = Done (VI32 7) /\
  teval [VI32 4294967289; VI32 2] t_mod_i32 = Done (VI32 4294967295) /\
  teval [VI32 2147483648; VI32 4294967295] t_mod_i32 = Done (VI32 0).
Proof. unfold in32, M32. repeat split; try Lia.lia; vm_compute; reflexivity. Qed.


(* ==== statement level: the control-flow ENCODINGS (coq/Target/*.v) =========================================
   Theorems for ALL bodies / continuing blocks / conditions / states / fuels about the fixed ways in which naga
   encodes structured control flow, over the generic structured language of Target/Structured.v whose semantics IS
   the IR reference interpreter (c01_ir_interpreter_is_generic: exact equality with IR/Sem.v) and whose rules are
   those of the target interpreters (Target/GlslInstance.v).  Tied to /repo on every run by the recogniser
   Target/Shapes.v (tool cfshape) over every emitted text: a loop or switch outside the proved shapes is reported. *)
Require Import Naga.Target.Structured Naga.Target.LoopInit Naga.Target.LoopBound Naga.Target.ContinueForward
        Naga.Target.SwitchForms Naga.Target.Desugar Naga.Target.IrInstance Naga.Target.GlslInstance Naga.Target.Examples.

(* IR/Sem.v's interpreter is the generic interpreter on the translation IrInstance.tr: exact equality, all fuels *)
Theorem c01_ir_interpreter_is_generic : forall (m : Naga.IR.Syntax.module) (f : Naga.IR.Syntax.func) (n : nat),
  (forall b fr mem, conv (Naga.IR.Sem.exec_block n m f b fr mem) = run_block n (tr_b m f b) (fr, mem)) /\
  (forall s fr mem, conv (Naga.IR.Sem.exec_stmt n m f s fr mem) = run_stmt n (tr m f s) (fr, mem)) /\
  (forall cs fr mem, conv (Naga.IR.Sem.exec_cases n m f cs fr mem) = run_cases n (tr_c m f cs) (fr, mem)) /\
  (forall body cont brk fr mem,
     conv (Naga.IR.Sem.exec_loop n m f body cont brk fr mem) =
     run_loop n (tr_b m f body) (tr_b m f cont)
              (match brk with Some h => Some (bool_of m f "break if: not a bool" h) | None => None end) (fr, mem)).
Proof. exact ir_is_generic. Qed.
Print Assumptions c01_ir_interpreter_is_generic.

(* and the translated statements satisfy the monotonicity hypothesis of every encoding theorem *)
Theorem c01_ir_translation_monotone : forall m f b, mono_b (tr_b m f b).
Proof. exact tr_b_mono. Qed.
Print Assumptions c01_ir_translation_monotone.

(* lowering: while (c) body / for (init; c; upd) body  ->  Loop { [if c {} else {break}; Block body]; upd; none },
   exact fuel relation in both directions *)
Theorem c01_while_desugar_equiv :
  forall (state R : Type) (c : cond state) (body upd : list (Structured.stmt state R)),
  mono_b body -> mono_b upd ->
  forall (n : nat) (st : state) (r : Structured.outcome R * state),
  (run_stmt n (While c body upd) st = Done r -> run_stmt (4 + n)%nat (lowered c body upd) st = Done r) /\
  (run_stmt n (lowered c body upd) st = Done r -> run_stmt n (While c body upd) st = Done r).
Proof.
  intros state R c body upd Mb Mu n st r. split.
  - exact (while_desugar_forward state R c body upd Mb Mu n st r).
  - exact (while_desugar_converse state R c body upd Mb n st r).
Qed.
Print Assumptions c01_while_desugar_equiv.

Theorem c01_for_desugar_equiv :
  forall (state R : Type) (c : cond state) (body upd : list (Structured.stmt state R)),
  mono_b body -> mono_b upd ->
  forall (init : list (Structured.stmt state R)) (st : state) (r : Structured.outcome R * state),
  mono_b init ->
  (evals_b (init ++ While c body upd :: nil)%list st r <-> evals_b (init ++ lowered c body upd :: nil)%list st r).
Proof. exact for_desugar_equiv. Qed.
Print Assumptions c01_for_desugar_equiv.

(* a && b  ->  if a { sb; t = b } else { t = false }      a || b  ->  if !a { sb; t = b } else { t = true } *)
Theorem c01_short_circuit_equiv :
  forall (state R : Type) (T : lens state bool) (a b : cond state) (sb : list (Structured.stmt state R)),
  mono_b sb ->
  forall st X : state,
  (evals_s (and_enc T a b sb) st (Structured.ONormal, X) <->
   (exists (v : bool) (s' : state), sc_spec a b sb false st v s' /\ X = lset T v s')) /\
  (evals_s (or_enc T a b sb) st (Structured.ONormal, X) <->
   (exists (v : bool) (s' : state), sc_spec a b sb true st v s' /\ X = lset T v s')).
Proof.
  intros state R T a b sb M st X. split; [exact (short_circuit_and state R T a b sb M st X)|exact (short_circuit_or state R T a b sb M st X)].
Qed.
Print Assumptions c01_short_circuit_equiv.

Example c01_desugar_nonvacuous :
  mono_b ex_wbody /\ mono_b ex_cont /\
  run_stmt 40 (While c_lt5 ex_wbody ex_cont) ex_start = Done (Structured.ONormal, mkx 5 6 true (7, 7)%Z) /\
  run_stmt 44 (lowered c_lt5 ex_wbody ex_cont) ex_start = Done (Structured.ONormal, mkx 5 6 true (7, 7)%Z).
Proof. exact (conj ex_mono_wbody (conj ex_mono_cont (conj ex_while_run ex_lowered_run))). Qed.

