(* C02 — Every emitted SPIR-V module is structurally valid.
   Property theorems only.  The validator spv_validate (Spv/ValidateMain.v) is what the check
   extracts and runs on every module naga emits; these theorems say what its acceptance means
   and that its building blocks are correct for ALL inputs.  Partial with respect to DESIGN C02:
   (iii) validate_progress (acceptance excludes UndefinedId/TypeMismatch/MissingTerminator
   failures of a SPIR-V interpreter) is not stated because no SPIR-V semantics exists in the
   tree; the Vulkan/capability/type rule groups are executable specifications without a
   meaning theorem. *)
From Coq Require Import List ZArith String Bool FMapPositive MSets.MSetPositive Sorted.
Require Import Naga.Spv.Binary Naga.Spv.Opcodes Naga.Spv.Graph Naga.Spv.Validate Naga.Spv.ValidateMain
        Naga.Spv.ValidateProofs Naga.Spv.Builder.
Import ListNotations.
Open Scope Z_scope.

(* (0) the reader: decoding inverts encoding, and loses nothing *)
Theorem c02_decode_encode : forall h is, header_wf h -> Forall instr_wf is -> decode (encode h is) = Some (h, is).
Proof. exact decode_encode. Qed.
Print Assumptions c02_decode_encode.

Theorem c02_encode_decode : forall ws h is, decode ws = Some (h, is) ->
  encode h is = ws /\ header_wf h /\ Forall instr_wf is.
Proof. exact encode_decode. Qed.
Print Assumptions c02_encode_decode.

(* (i) the graph search is sound and complete for every finite graph, hence dominance *)
Theorem c02_reachable_correct : forall succ fuel starts R,
  reachable_set succ fuel starts = Some R -> forall x, PS.In x R <-> reach succ starts x.
Proof. exact reachable_correct. Qed.
Print Assumptions c02_reachable_correct.

Theorem c02_dominates_spec : forall succ fuel entry d u b,
  dominates succ fuel entry d u = Some b ->
  (b = true <-> forall l, walk succ entry l u -> In d l).
Proof. exact dominates_spec. Qed.
Print Assumptions c02_dominates_spec.

(* the dominance test the validator evaluates on a function's CFG is that definition *)
Theorem c02_validator_dominance : forall f bs d u R,
  let fi := analyse_fn f bs in
  0 < d -> 0 < u -> 0 < fi_entry fi ->
  PM.find (Z.to_pos d) (fi_avoid fi) = Some R ->
  (dom fi d u = true <->
   forall l, walk (fn_succ fi) (Z.to_pos (fi_entry fi)) l (Z.to_pos u) -> In (Z.to_pos d) l).
Proof. exact dom_spec. Qed.
Print Assumptions c02_validator_dominance.

(* (ii) soundness of the executable rules against declarative statements *)
Theorem c02_ids_unique_sound : forall is, check_ids is = true -> NoDup (defined_ids is).
Proof. exact ids_unique_sound. Qed.
Print Assumptions c02_ids_unique_sound.

Theorem c02_layout_sound : forall is, check_layout is = true -> sections_in_order is.
Proof. exact layout_sound. Qed.
Print Assumptions c02_layout_sound.

Theorem c02_terminated_sound : forall body, check_blocks body = true ->
  exists bs, body = flat_map (flatten_block (A := instr)) bs /\ Forall (block_ok opcode) bs.
Proof. exact terminated_sound. Qed.
Print Assumptions c02_terminated_sound.

Theorem c02_terminated_complete : forall bs, Forall (block_ok opcode) bs ->
  check_blocks (flat_map (flatten_block (A := instr)) bs) = true.
Proof. exact terminated_complete. Qed.
Print Assumptions c02_terminated_complete.

(* what acceptance by the extracted validator means *)
Theorem c02_accepted_header : forall h is, spv_validate (h, is) = [] ->
  magic h = 119734787 /\ schema h = 0 /\ version_major h = 1 /\ version_minor h <= 6 /\
  forall p id, In p (parse_all 0 is) -> In id (all_ids p) -> 0 < id < bound h.
Proof. exact accepted_header. Qed.
Print Assumptions c02_accepted_header.

Theorem c02_accepted_ids_unique : forall h is, spv_validate (h, is) = [] -> NoDup (defined_ids is).
Proof. exact accepted_ids_unique. Qed.
Print Assumptions c02_accepted_ids_unique.

Theorem c02_accepted_layout : forall h is, spv_validate (h, is) = [] -> sections_in_order is.
Proof. exact accepted_layout. Qed.
Print Assumptions c02_accepted_layout.

Theorem c02_accepted_blocks : forall h is f, spv_validate (h, is) = [] ->
  In f (collect_fns (parse_all 0 is) 0 None) ->
  exists bs, fn_body f = flat_map (flatten_block (A := pinstr)) bs /\ Forall (block_ok pi_op) bs.
Proof. exact accepted_blocks. Qed.
Print Assumptions c02_accepted_blocks.

(* (iv) for-all-histories invariants of the two builder state machines *)
Theorem c02_alloc_id_inv : forall n, Z.of_nat n < 4294967295 ->
  let s := alloc_n n id_init in
  NoDup (allocated s) /\
  (forall id, In id (allocated s) -> 0 < id < build_bound s) /\
  StronglySorted (fun a b => a > b) (allocated s).
Proof. exact alloc_id_inv. Qed.
Print Assumptions c02_alloc_id_inv.

Theorem c02_consume_inv : forall f, built f -> check_blocks (to_instructions_body f) = true.
Proof. exact consume_inv. Qed.
Print Assumptions c02_consume_inv.

(* ---- non-vacuity: a complete, accepted module and rejected variants of it ---- *)

(* OpCapability Shader; OpMemoryModel Logical GLSL450; OpEntryPoint GLCompute %1 "main";
   OpExecutionMode %1 LocalSize 1 1 1; %2 = OpTypeVoid; %3 = OpTypeFunction %2;
   %1 = OpFunction %2 None %3; %4 = OpLabel; OpReturn; OpFunctionEnd *)
Definition tiny_words : list Z :=
  [119734787; 65536; 0; 5; 0;
   131089; 1;
   196622; 0; 1;
   327695; 5; 1; 1852399981; 0;
   393232; 1; 17; 1; 1; 1;
   131091; 2;
   196641; 3; 2;
   327734; 2; 1; 0; 3;
   131320; 4;
   65789;
   65592].

Example tiny_accepted :
  match decode tiny_words with Some m => spv_validate m | None => [V "undecodable" 0 0 0] end = [].
Proof. vm_compute. reflexivity. Qed.

(* the same module with OpReturn removed is rejected by the block rule *)
Example tiny_without_terminator_rejected :
  match decode (firstn 33 tiny_words ++ [65592]) with
  | Some m => existsb (fun v => String.eqb (v_rule v) "block_unterminated") (spv_validate m)
  | None => false
  end = true.
Proof. vm_compute. reflexivity. Qed.

(* ... with the bound one too small: rejected by the header rule *)
Example tiny_bound_too_small_rejected :
  match decode ([119734787; 65536; 0; 4; 0] ++ skipn 5 tiny_words) with
  | Some m => existsb (fun v => String.eqb (v_rule v) "id_out_of_bound") (spv_validate m)
  | None => false
  end = true.
Proof. vm_compute. reflexivity. Qed.

(* dominance on a diamond 1 -> {2,3} -> 4: the entry dominates 4, the arms do not *)
Definition diamond (x : positive) : list positive :=
  match x with 1%positive => [2; 3]%positive | 2%positive => [4%positive] | 3%positive => [4%positive] | _ => [] end.
Example diamond_dominance :
  dominates diamond 10 1 1 4 = Some true /\ dominates diamond 10 1 2 4 = Some false /\
  dominates diamond 10 1 4 4 = Some true.
Proof. vm_compute. repeat split; reflexivity. Qed.
