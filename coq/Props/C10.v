(* Property C10 (lexical part): tokenisation terminates within |s| scanner
   steps on every input and produces at most |s|+1 tokens. *)
From Coq Require Import List ZArith Bool.
Import ListNotations.
Require Import Naga.Lex.LexModel Naga.Lex.LexProofs Naga.Lex.LexInst Naga.Lex.LexFinal Naga.Gen.LexTables.
Open Scope Z_scope.

Theorem c10_scan_step_consumes :
  forall c s l col, (length (rest_of (scan_token is_letter keyword K c s l col)) <= length s)%nat.
Proof. exact go_scan_progress. Qed.
Print Assumptions c10_scan_step_consumes.

Theorem c10_lex_never_out_of_fuel : forall s, lex_go s <> None.
Proof. exact go_lex_total. Qed.
Print Assumptions c10_lex_never_out_of_fuel.

Theorem c10_token_count_linear :
  forall fuel s l col o ts fin,
  lex_fuel is_letter keyword K fuel s l col o = Some (ts, fin) -> (length ts <= length s)%nat.
Proof. exact go_lex_token_count. Qed.
Print Assumptions c10_token_count_linear.

(* ---- parser (coq/Parse: Gallina transliteration of the whole of parser.go, tied to /repo by the
   correspondence leg of checks/c19.py and the regenerated tables of Parse/ParseInst.v) *)
From Coq Require Import String.
Require Import Naga.Parse.Ast Naga.Parse.ParserModel Naga.Parse.ParserProofs.

(* Parse() terminates on EVERY token list: the fuel the model hands to its loops and recursions
   (length of the token list + 1) is never exhausted *)
Theorem c10_parse_never_out_of_fuel : forall ts, parse ts <> OutOfFuel.
Proof. exact parse_never_out_of_fuel. Qed.
Print Assumptions c10_parse_never_out_of_fuel.

(* ... and always returns a module together with its list of errors (no error escapes the recovery loop) *)
Theorem c10_parse_total : forall ts, exists ds es, parse ts = Parsed ds es.
Proof. exact parse_total. Qed.
Print Assumptions c10_parse_total.

(* progress, on every state with at most `total` remaining tokens: a sub-parser that succeeds has consumed at
   least one token; one that fails reports the index of the token that is current at the failure (never
   before its start) and has not moved backwards.  (The loops of the parser rest on this: see the loop
   lemmas of Parse/ParserProofs.v for which loop uses which consumption argument.) *)
Theorem c10_parse_progress :
  progresses expression /\ progresses typeSpec /\ progresses statement /\ progresses block /\ progresses declaration.
Proof. exact parse_progress. Qed.
Print Assumptions c10_parse_progress.

(* non-vacuity: an unterminated function body: one error, at the EOF token (index 5) *)
Example c10_parse_example :
  parse [mktoken TkFn "fn"; mktoken TkIdent "f"; mktoken TkLeftParen "("; mktoken TkRightParen ")";
         mktoken TkLeftBrace "{"; mktoken TkEOF ""]%string
  = Parsed [] [PErr (EExpected TkRightBrace) 5].
Proof. vm_compute. reflexivity. Qed.
