(* Property C10 (lexical part): tokenisation terminates within |s| scanner
   steps on every input and produces at most |s|+1 tokens. *)
From Coq Require Import List ZArith Bool.
Import ListNotations.
Require Import Naga.Lex.LexModel Naga.Lex.LexProofs Naga.Lex.LexInst Naga.Lex.LexFinal Naga.Gen.LexTables.
Open Scope Z_scope.

Theorem c10_scan_step_consumes :
  forall c s l col, (length (rest_of (scan_token is_letter keyword K c s l col)) <= length s)%nat.
Proof. exact go_scan_progress. Qed.
Print Assumptions c10_scan_step_consumes.

Theorem c10_lex_never_out_of_fuel : forall s, lex_go s <> None.
Proof. exact go_lex_total. Qed.
Print Assumptions c10_lex_never_out_of_fuel.

Theorem c10_token_count_linear :
  forall fuel s l col o ts fin,
  lex_fuel is_letter keyword K fuel s l col o = Some (ts, fin) -> (length ts <= length s)%nat.
Proof. exact go_lex_token_count. Qed.
Print Assumptions c10_token_count_linear.
