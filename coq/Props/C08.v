(* Property C08 (validator part): ir.Validate never rejects what WGSL allows --
   stated at full strength, REFUTED for the pinned tree by concrete modules, and
   proved under the exact side conditions that make it true; together with the
   converse direction (soundness), which does hold.  [validate_model] is the
   transliteration of ir/validate.go (Valid/ValidatorModel.v), tied to the Go code
   on every run by the validator correspondence of checks/c08.py. *)
From Coq Require Import List ZArith String Bool.
Import ListNotations.
Require Import Naga.IR.Syntax.
Require Import Naga.Valid.ValidatorModel Naga.Valid.CfLegal Naga.Valid.Reach Naga.Valid.BindingRule.
Require Import Naga.Valid.CfProofs Naga.Valid.ReachProofs Naga.Valid.BindingProofs Naga.Valid.ModuleProofs.
Require Import Naga.Valid.ValidatorModelFixed Naga.Valid.FixedProofs.
Open Scope string_scope.
Open Scope Z_scope.

(* a function body satisfies the two side conditions of the pinned validator *)
Definition cf_accepted_shape (body : list stmt) : Prop :=
  cf_legal body /\ breaks_in_loop body /\ continuing_flat body.

(* ------------------------------------------------------------------ *)
(* control flow *)

(* soundness: no illegal placement of break/continue/return is accepted in a function of module.Functions *)
Theorem validator_cf_sound :
  forall m, cf_errors (validate_model m) = [] -> forall f, In f (m_functions m) -> cf_legal (f_body f).
Proof. intros m H f Hf. apply (cf_sound (env_of m f)). exact (proj1 (validate_cf_errors m) H f Hf). Qed.
Print Assumptions validator_cf_sound.

(* exact characterisation of the validator's control-flow verdict, for all modules *)
Theorem validator_cf_exact :
  forall m, cf_errors (validate_model m) = [] <-> forall f, In f (m_functions m) -> cf_accepted_shape (f_body f).
Proof.
  intros m. rewrite validate_cf_errors. unfold cf_accepted_shape.
  split; intros H f Hf; apply (cf_exact (env_of m f)); auto.
Qed.
Print Assumptions validator_cf_exact.

(* completeness under the side conditions: every break lies in a loop, continuing blocks hold no jump/discard *)
Theorem validator_cf_complete_partial :
  forall m, (forall f, In f (m_functions m) -> cf_legal (f_body f)) ->
            (forall f, In f (m_functions m) -> breaks_in_loop (f_body f)) ->
            (forall f, In f (m_functions m) -> continuing_flat (f_body f)) ->
            cf_errors (validate_model m) = [].
Proof. intros m H1 H2 H3. apply validator_cf_exact. intros f Hf. repeat split; auto. Qed.
Print Assumptions validator_cf_complete_partial.

(* witnesses: WGSL-legal modules that the validator rejects *)
Definition ty_i32 : ty := mkty "" (TScalar (mkscalar Sint 4)).
Definition ty_vec4f : ty := mkty "" (TVector 4 (mkscalar Float 4)).
Definition fn_of (name : string) (body : list stmt) : func :=
  mkfunc name [] None [] [ELiteral (LI32 1)] [RHandle O] body [].
Definition ep_calling (callee : nat) : entry_point :=
  mkep "main" StCompute [1; 1; 1] (mkfunc "main" [] None [] [] [] [SCall callee [] None; SReturn None] []).
Definition module_of (body : list stmt) : module :=
  mkmodule [ty_i32] [] [] [] [fn_of "helper" body] [ep_calling O] [].

(*  fn helper() { switch (1) { case 1: { break; } default: {} } }   @compute fn main() { helper(); }  *)
Definition m_switch_break : module :=
  module_of [SSwitch O [(SVI32 1, [SBreak], false); (SVDefault, [], false)]; SReturn None].
(*  fn helper() { loop { continuing { loop { break; } break if true; } } }  *)
Definition m_loop_in_continuing : module :=
  module_of [SLoop [] [SLoop [SBreak] [] None] (Some O); SReturn None].
(*  fn helper() { loop { continuing { discard; break if true; } } }  *)
Definition m_discard_in_continuing : module :=
  module_of [SLoop [] [SKill] (Some O); SReturn None].

Definition all_bodies_legal (m : module) : Prop :=
  (forall f, In f (m_functions m) -> cf_legal (f_body f)) /\
  (forall ep, In ep (m_entry_points m) -> cf_legal (f_body (ep_func ep))).

Lemma all_bodies_legal_b m :
  forallb (fun f => cf_legal_bodyb (f_body f)) (m_functions m)
  && forallb (fun ep => cf_legal_bodyb (f_body (ep_func ep))) (m_entry_points m) = true -> all_bodies_legal m.
Proof.
  rewrite andb_true_iff, !forallb_forall. intros [H1 H2].
  split; intros x Hx; apply cf_legal_iff; auto.
Qed.

Theorem validator_cf_complete_refuted :
  exists m, all_bodies_legal m /\ binding_rule_ok m /\ cf_errors (validate_model m) <> [].
Proof.
  exists m_switch_break. split; [|split].
  - apply all_bodies_legal_b. vm_compute. reflexivity.
  - apply binding_rule_okb_spec. vm_compute. reflexivity.
  - vm_compute. discriminate.
Qed.
Print Assumptions validator_cf_complete_refuted.

(* each of the three defect shapes, with the exact error the validator reports *)
Theorem validator_cf_refuted_witnesses :
  (all_bodies_legal m_switch_break /\
   validate_model m_switch_break = [mkverr VBreakOutsideLoop "helper" 0 None]) /\
  (all_bodies_legal m_loop_in_continuing /\
   validate_model m_loop_in_continuing = [mkverr VBreakInContinuing "helper" 0 None]) /\
  (all_bodies_legal m_discard_in_continuing /\
   validate_model m_discard_in_continuing = [mkverr VKillInContinuing "helper" 0 None]).
Proof.
  repeat split; try (apply all_bodies_legal_b; vm_compute; reflexivity); vm_compute; reflexivity.
Qed.
Print Assumptions validator_cf_refuted_witnesses.

(* observation (not part of C08): entry-point functions are never walked, so soundness stops at module.Functions *)
Definition m_break_in_entry_point : module :=
  mkmodule [ty_i32] [] [] [] []
           [mkep "main" StCompute [1; 1; 1] (mkfunc "main" [] None [] [] [] [SBreak; SReturn None] [])] [].
Theorem validator_ignores_entry_point_bodies :
  validate_model m_break_in_entry_point = [] /\
  ~ (forall ep, In ep (m_entry_points m_break_in_entry_point) -> cf_legal (f_body (ep_func ep))).
Proof.
  split; [vm_compute; reflexivity|]. intros H.
  specialize (H _ (or_introl eq_refl)). apply cf_legal_iff in H. vm_compute in H. discriminate.
Qed.
Print Assumptions validator_ignores_entry_point_bodies.

(* ------------------------------------------------------------------ *)
(* resource bindings *)

(* soundness: an accepted module satisfies WGSL's per-entry-point rule *)
Theorem validator_bindings_sound :
  forall m, binding_errors (validate_model m) = [] -> binding_rule_ok m.
Proof. intros m H. apply module_unique_implies_rule. now apply validate_binding_errors. Qed.
Print Assumptions validator_bindings_sound.

(* exact characterisation: module-wide uniqueness over all declared resource variables *)
Theorem validator_bindings_exact :
  forall m, binding_errors (validate_model m) = [] <-> NoDup (module_bindings m).
Proof. exact validate_binding_errors. Qed.
Print Assumptions validator_bindings_exact.

(* completeness when one entry point statically uses every resource variable *)
Theorem validator_bindings_complete_partial :
  forall m, binding_rule_ok m -> one_ep_uses_all m -> binding_errors (validate_model m) = [].
Proof. intros m H1 H2. apply validate_binding_errors. now apply rule_implies_module_unique. Qed.
Print Assumptions validator_bindings_complete_partial.

(*  @group(0) @binding(0) var<uniform> a: vec4<f32>;   @group(0) @binding(0) var<uniform> b: vec4<f32>;
    @vertex fn vs() -> @builtin(position) vec4<f32> { return a; }   @fragment fn fs() -> @location(0) vec4<f32> { return b; }  *)
Definition uniform_at (name : string) (g b : Z) : global_var := mkglobal name SpUniform (Some (g, b)) O None None 0.
Definition ep_returning_global (name : string) (st : stage) (g : nat) (b : binding) : entry_point :=
  mkep name st [0; 0; 0]
       (mkfunc name [] (Some (mkres O (Some b))) [] [EGlobalVariable g; ELoad O] [RHandle O; RHandle O]
               [SEmit 1 2; SReturn (Some 1%nat)] []).
Definition m_shared_pair : module :=
  mkmodule [ty_vec4f] [] [uniform_at "a" 0 0; uniform_at "b" 0 0] [] []
           [ep_returning_global "vs" StVertex 0 (BBuiltin "BuiltinPosition" false);
            ep_returning_global "fs" StFragment 1 (BLocation 0 None None)] [].

Theorem validator_bindings_complete_refuted :
  exists m, binding_rule_ok m /\ all_bodies_legal m /\ binding_errors (validate_model m) <> [].
Proof.
  exists m_shared_pair. split; [|split].
  - apply binding_rule_okb_spec. vm_compute. reflexivity.
  - apply all_bodies_legal_b. vm_compute. reflexivity.
  - vm_compute. discriminate.
Qed.
Print Assumptions validator_bindings_complete_refuted.

Theorem validator_bindings_refuted_witness :
  binding_rule_ok m_shared_pair /\ validate_model m_shared_pair = [mkverr VGlobalDupBinding "" (-1) None].
Proof. split; [apply binding_rule_okb_spec|]; vm_compute; reflexivity. Qed.
Print Assumptions validator_bindings_refuted_witness.

(* ------------------------------------------------------------------ *)
(* static use through the call graph *)

Theorem used_globals_correct :
  forall m root g, In g (used_globals m root) <-> uses m root g.
Proof. exact ReachProofs.used_globals_correct. Qed.
Print Assumptions used_globals_correct.

(* fuel argument: number of functions + 1 iterations always reach the fixed point *)
Theorem reachability_terminates : forall m root, exists l, reached_opt m root = Some l.
Proof. exact reached_opt_total. Qed.
Print Assumptions reachability_terminates.

Theorem reached_correct : forall m root f, In f (reached m root) <-> reach m root f.
Proof. exact ReachProofs.reached_correct. Qed.
Print Assumptions reached_correct.

(* the executable specifications run by the check are the relational ones *)
Theorem cf_legal_decided : forall body, cf_legal body <-> cf_legal_bodyb body = true.
Proof. exact cf_legal_iff. Qed.
Print Assumptions cf_legal_decided.

Theorem binding_rule_decided : forall m, binding_rule_okb m = true <-> binding_rule_ok m.
Proof. exact binding_rule_okb_spec. Qed.
Print Assumptions binding_rule_decided.

(* ------------------------------------------------------------------ *)
(* non-vacuity: a module with nested control flow and two entry points that meets every hypothesis of the
   partial theorems, and is accepted *)
Definition body_rich : list stmt :=
  [SLoop [SIf O [] [SBreak];
          SSwitch O [(SVI32 1, [SContinue], false); (SVI32 2, [SIf O [SBreak] []], false); (SVDefault, [SBreak], false)];
          SLoop [SBreak] [] None;
          SIf O [SReturn None] [SContinue]]
         [SIf O [SStore O O] []] (Some O);
   SReturn None].
Definition m_rich : module :=
  mkmodule [ty_vec4f; ty_i32] [] [uniform_at "a" 0 0; uniform_at "b" 0 1] [] [fn_of "helper" body_rich]
           [mkep "vs" StVertex [0; 0; 0]
                 (mkfunc "vs" [] (Some (mkres O (Some (BBuiltin "BuiltinPosition" false)))) []
                         [EGlobalVariable 0; ELoad O; EGlobalVariable 1; ELoad 2%nat; EBinary BAdd 1%nat 3%nat]
                         [RHandle O; RHandle O; RHandle O; RHandle O; RHandle O]
                         [SCall O [] None; SEmit 1 2; SEmit 3 5; SReturn (Some 4%nat)] []);
            ep_returning_global "fs" StFragment 1 (BLocation 0 None None)] [].

Example c08_partial_hypotheses_satisfiable :
  (forall f, In f (m_functions m_rich) -> cf_accepted_shape (f_body f)) /\
  binding_rule_ok m_rich /\ one_ep_uses_all m_rich /\ validate_model m_rich = [] /\
  used_globals m_rich (ep_func (ep_returning_global "fs" StFragment 1 (BLocation 0 None None))) = [1%nat].
Proof.
  split; [|split; [|split; [|split]]].
  - intros f [<-|[]]. unfold cf_accepted_shape, breaks_in_loop, continuing_flat. rewrite cf_legal_iff.
    vm_compute. auto.
  - apply binding_rule_okb_spec. vm_compute. reflexivity.
  - eexists. split; [left; reflexivity|]. intros g Hg.
    destruct g as [|[|g]]; [vm_compute; auto|vm_compute; auto|].
    exfalso. apply Hg. unfold binding_of. cbn. destruct g; reflexivity.
  - vm_compute. reflexivity.
  - vm_compute. reflexivity.
Qed.

(* ------------------------------------------------------------------ *)
(* the validator as repaired by the proposed fix (Valid/ValidatorModelFixed.v; the check decides on every
   run which of the two transliterations /repo's ir/validate.go matches): complete AND sound *)

Theorem fixed_validator_cf_complete :
  forall m, (forall f, In f (m_functions m) -> cf_legal (f_body f)) -> cf_errors (validate_model_fx m) = [].
Proof. intros m H. now apply fixed_cf_exact. Qed.
Print Assumptions fixed_validator_cf_complete.

Theorem fixed_validator_cf_sound :
  forall m, cf_errors (validate_model_fx m) = [] -> forall f, In f (m_functions m) -> cf_legal (f_body f).
Proof. intros m H. now apply fixed_cf_exact. Qed.
Print Assumptions fixed_validator_cf_sound.

Theorem fixed_validator_bindings_complete :
  forall m, binding_rule_ok m -> binding_errors_fx (validate_model_fx m) = [].
Proof. intros m H. now apply (fixed_bindings_exact false). Qed.
Print Assumptions fixed_validator_bindings_complete.

Theorem fixed_validator_bindings_sound :
  forall m, binding_errors_fx (validate_model_fx m) = [] -> binding_rule_ok m.
Proof. intros m H. now apply (fixed_bindings_exact false). Qed.
Print Assumptions fixed_validator_bindings_sound.

(* the witnesses that refute completeness of the pinned validator are accepted by the repaired one,
   and a genuinely illegal module is still rejected *)
Definition m_two_pairs_one_ep : module :=
  mkmodule [ty_vec4f] [] [uniform_at "a" 0 0; uniform_at "b" 0 0] [] []
           [mkep "vs" StVertex [0; 0; 0]
                 (mkfunc "vs" [] (Some (mkres O (Some (BBuiltin "BuiltinPosition" false)))) []
                         [EGlobalVariable 0; ELoad O; EGlobalVariable 1; ELoad 2%nat; EBinary BAdd 1%nat 3%nat]
                         [RHandle O; RHandle O; RHandle O; RHandle O; RHandle O]
                         [SEmit 1 2; SEmit 3 5; SReturn (Some 4%nat)] [])] [].
Example fixed_validator_on_witnesses :
  validate_model_fx m_switch_break = [] /\ validate_model_fx m_loop_in_continuing = [] /\
  validate_model_fx m_discard_in_continuing = [] /\ validate_model_fx m_shared_pair = [] /\
  validate_model_fx m_rich = [] /\
  validate_model_fx (module_of [SLoop [] [SBreak] (Some O); SContinue]) =
    [mkverr VBreakInContinuing "helper" 0 None; mkverr VContinueOutsideLoop "helper" 1 None] /\
  validate_model_fx m_two_pairs_one_ep = [mkverr VEpDupBinding "" (-1) None].
Proof. repeat split; vm_compute; reflexivity. Qed.

(* ------------------------------------------------------------------ *)
(* the suite-safe repair (validate_suitesafe.diff, [validate_model_fx2]): as above, but discard inside a
   continuing block is still reported.  Complete under exactly that side condition; bindings complete. *)

Theorem fixed2_validator_cf_exact :
  forall m, cf_errors (validate_model_fx2 m) = [] <->
            forall f, In f (m_functions m) -> cf_legal (f_body f) /\ no_discard_in_continuing (f_body f).
Proof. exact fixed2_cf_exact. Qed.
Print Assumptions fixed2_validator_cf_exact.

Theorem fixed2_validator_cf_complete_partial :
  forall m, (forall f, In f (m_functions m) -> cf_legal (f_body f)) ->
            (forall f, In f (m_functions m) -> no_discard_in_continuing (f_body f)) ->
            cf_errors (validate_model_fx2 m) = [].
Proof. intros m H1 H2. apply fixed2_cf_exact. intros f Hf. split; auto. Qed.
Print Assumptions fixed2_validator_cf_complete_partial.

Theorem fixed2_validator_cf_sound :
  forall m, cf_errors (validate_model_fx2 m) = [] -> forall f, In f (m_functions m) -> cf_legal (f_body f).
Proof. intros m H f Hf. exact (proj1 (proj1 (fixed2_cf_exact m) H f Hf)). Qed.
Print Assumptions fixed2_validator_cf_sound.

(* finding (c) stays: a legal module with discard in a continuing block is still rejected *)
Theorem fixed2_validator_cf_complete_refuted :
  all_bodies_legal m_discard_in_continuing /\
  validate_model_fx2 m_discard_in_continuing = [mkverr VKillInContinuing "helper" 0 None].
Proof. split; [apply all_bodies_legal_b|]; vm_compute; reflexivity. Qed.
Print Assumptions fixed2_validator_cf_complete_refuted.

Theorem fixed2_validator_bindings_complete :
  forall m, binding_rule_ok m -> binding_errors_fx (validate_model_fx2 m) = [].
Proof. intros m H. now apply (fixed_bindings_exact true). Qed.
Print Assumptions fixed2_validator_bindings_complete.

Theorem fixed2_validator_bindings_sound :
  forall m, binding_errors_fx (validate_model_fx2 m) = [] -> binding_rule_ok m.
Proof. intros m H. now apply (fixed_bindings_exact true). Qed.
Print Assumptions fixed2_validator_bindings_sound.

Example fixed2_validator_on_witnesses :
  validate_model_fx2 m_switch_break = [] /\ validate_model_fx2 m_loop_in_continuing = [] /\
  validate_model_fx2 m_shared_pair = [] /\ validate_model_fx2 m_rich = [] /\
  validate_model_fx2 m_two_pairs_one_ep = [mkverr VEpDupBinding "" (-1) None] /\
  (forall f, In f (m_functions m_rich) -> no_discard_in_continuing (f_body f)).
Proof. repeat split; try (vm_compute; reflexivity). intros f [<-|[]]. vm_compute. reflexivity. Qed.

(* ================================================================================================ *)
(* "valid WGSL program" made formal: the type checker Wgsl/Typecheck.wgsl_check over the ASTs of     *)
(* lib/wgslgen.py (DESIGN 3.3; deviation D3 repaired), sound w.r.t. the reference semantics          *)
(* Wgsl/Sem.v.  Tie: checks/c08.py runs the extracted checker on every program of the typed          *)
(* generator (all must be accepted) before naga is asked to accept them; checks/c11.py gives naga    *)
(* the ill-typed mutants that the checker rejects.                                                   *)
(* ================================================================================================ *)
Require Import Naga.IR.Values Naga.Wgsl.Sem Naga.Wgsl.Typecheck.
Require Import Naga.Wgsl.TypecheckBase Naga.Wgsl.TypecheckMem Naga.Wgsl.TypecheckProofs Naga.Wgsl.TypecheckProgram
               Naga.Wgsl.TypecheckRules.

(* Type soundness, for ALL programs, inputs and fuel: an accepted program run on well-typed inputs ends
   with well-typed module variables, runs out of fuel, or stops with a defined dynamic error (index out
   of bounds, negative index, the unmodelled f32 %) -- never with a type / shape / scoping / arity failure. *)
Theorem wgsl_typecheck_sound :
  forall p gl args fuel,
    wgsl_check p = None -> inputs_ok p gl args ->
    match wgsl_run fuel p gl args with
    | Done gs => Forall2 (vty (wp_structs p)) gs (map wg_ty (wp_globals p))
    | OutOfFuel => True
    | Fail m => benign m = true
    end.
Proof. exact wgsl_check_sound. Qed.
Print Assumptions wgsl_typecheck_sound.

(* Progress + preservation for expressions in any scope of an accepted program: a well-typed expression
   evaluates to a value of its type in a well-typed (only grown) memory, or to a listed dynamic error. *)
Theorem wgsl_expr_progress_preservation :
  forall p genv cf g x t r sg e mem fuel,
    wgsl_check p = None ->
    tyx (wp_structs p) (prog_sigs p) (prog_delta p) cf g x = TOk (t, r) ->
    wt p genv (prog_delta p) sg g e mem ->
    match eval p genv fuel e mem x with
    | Done (v, mem') => exists sg', ext sg sg' /\ mem_ok (wp_structs p) sg' mem' /\ bty (wp_structs p) sg' v t
    | OutOfFuel => True
    | Fail m => benign m = true
    end.
Proof. exact expr_progress_preservation. Qed.
Print Assumptions wgsl_expr_progress_preservation.

(* the checker decides its rules: every program with a break outside loop and switch (reached through
   if / else / nested blocks, at any depth) is rejected *)
Theorem wgsl_check_rejects_break_outside_loop :
  forall p f, In f (wp_funcs p) \/ f = wp_entry p -> Exists bare_break (wf_body f) -> wgsl_check p <> None.
Proof. exact check_rejects_break_outside_loop. Qed.
Print Assumptions wgsl_check_rejects_break_outside_loop.

(* ... every program with `let n = e; n = x;` in a function body is rejected; and in ANY scope, an
   assignment / compound assignment / ++ / -- rooted at a value binding (let, parameter, const) is *)
Theorem wgsl_check_rejects_assign_to_let :
  forall p f pre n e x post,
    In f (wp_funcs p) \/ f = wp_entry p ->
    wf_body f = pre ++ WLet n e :: WAssign (WVar n) x :: post -> wgsl_check p <> None.
Proof. exact check_rejects_assign_to_let. Qed.
Print Assumptions wgsl_check_rejects_assign_to_let.

Theorem wgsl_check_rejects_assign_to_value :
  forall ss PHI D cf F g cur s l n t0 r,
    (exists x, s = WAssign l x) \/ (exists op x, s = WCompound op l x) \/ s = WIncr l \/ s = WDecr l ->
    root_var l = Some n -> tlookup_all D n g = Some (TVal t0) ->
    tys ss PHI D cf F (g, cur) s = TOk r -> False.
Proof. exact assign_to_value_rejected. Qed.
Print Assumptions wgsl_check_rejects_assign_to_value.

(* non-vacuity: a program with a helper, a pointer, a loop and a store is accepted, its inputs are
   well typed; the same program with `let` assigned, or with a bare break, is rejected with the rule *)
Definition tc_example_body (extra : list wstmt) : list wstmt :=
  [ WVarDecl "x" (TyS WU32) (Some (WSwz (WVar "gid") [0%nat]));
    WLet "q" (WAddr (WVar "x"));
    WLet "k" (WCall "h" [WLit WI32 1%Z]);
    WLoop [WIf (WBin ">=" (WDeref (WVar "q")) (WLit WU32 3%Z)) [WBreak] []] [WIncr (WVar "x")] None ]
  ++ extra ++
  [ WAssign (WIdx (WVar "out0") (WLit WI32 0%Z)) (WBin "+" (WVar "x") (WConv WU32 (WVar "k"))) ].

Definition tc_example (extra : list wstmt) : wprog :=
  mkwprog [] [] [mkwglobal "out0" "storage_rw" (TyArr None (TyS WU32)) None]
          [mkwfunc "h" [("p", TyS WI32)] (Some (TyS WI32)) [WReturn (Some (WBin "+" (WVar "p") (WLit WI32 1%Z)))]]
          (mkwfunc "main" [("gid", TyVec 3 WU32)] None (tc_example_body extra)).

Example wgsl_check_accepts_example : wgsl_check (tc_example []) = None.
Proof. vm_compute. reflexivity. Qed.

Example wgsl_check_example_inputs :
  inputs_ok (tc_example []) [Some (VArr [VU32 7%Z; VU32 9%Z])] [VVec [VU32 1%Z; VU32 0%Z; VU32 0%Z]].
Proof.
  split.
  - constructor; [|constructor]. cbn. constructor; [repeat constructor|intros k Hk; discriminate].
  - constructor; [|constructor]. constructor; [reflexivity|repeat constructor].
Qed.

Example wgsl_check_example_runs :
  wgsl_run 200 (tc_example []) [Some (VArr [VU32 7%Z; VU32 9%Z])] [VVec [VU32 1%Z; VU32 0%Z; VU32 0%Z]]
  = Done [VArr [VU32 5%Z; VU32 9%Z]].
Proof. vm_compute. reflexivity. Qed.

Example wgsl_check_rejects_examples :
  wgsl_check (tc_example [WAssign (WVar "k") (WLit WI32 2%Z)]) = Some (RAssignToNonRef, "entry main") /\
  wgsl_check (tc_example [WIf (WLit WBool 1%Z) [WBreak] []]) = Some (RBreakOutsideLoop, "entry main") /\
  wgsl_check (tc_example [WLet "z" (WBin "+" (WVar "x") (WLit WI32 1%Z))]) = Some (ROperandTypes, "entry main") /\
  wgsl_check (tc_example [WLet "z" (WBuiltin "min" [WVar "x"])]) = Some (RBuiltinArity, "entry main").
Proof. repeat split; vm_compute; reflexivity. Qed.
