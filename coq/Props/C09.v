(* Property C09: lowering yields a well-formed, fully typed, deduplicated IR module.
   The theorems say what an empty verdict of the executable checker [wf_module]
   (IR/Wf.v; extracted and run on every module naga.LowerWithSource returns) MEANS,
   for all modules: handle discipline, uniqueness of types, the typifier being a
   function of the expression prefix, the emit discipline over all execution paths
   (IR/Paths.v), and all-paths-return.  The relation between WGSL source and the IR
   (typed_lowering_wf, wf_safety of DESIGN.md) is NOT proved here: the tie to /repo is
   the checker run on real lowering output (V) plus regenerated tables (R). *)
From Coq Require Import List ZArith String Bool.
Import ListNotations.
Require Import Naga.IR.Syntax Naga.IR.Infer Naga.IR.Paths Naga.IR.Wf Naga.IR.WfProofs Naga.IR.EmitProofs Naga.IR.ReturnProofs
        Naga.IR.TypesProofs.
Open Scope nat_scope.

(* every clause of the per-function part holds for every function, entry points included *)
Lemma wf_func_parts : forall m, wf_module m = [] -> forall fn f, nth_error (all_funcs m) fn = Some f ->
  chk_expr_types m fn f (assumed_all m f) (recorded_all m f) = [] /\ chk_emit_func fn f = [] /\
  chk_returns m fn f (assumed_all m f) (recorded_all m f) = [] /\ chk_store_call m fn f (assumed_all m f) (recorded_all m f) = [].
Proof.
  intros m H fn f Hn. apply wf_module_parts in H. destruct H as (_ & _ & _ & _ & Hf & _).
  pose proof (check_idx_nil _ _ _ Hf fn f Hn) as Hi. cbn in Hi. unfold chk_func in Hi.
  apply app_eq_nil in Hi. destruct Hi as [H1 Hi]. apply app_eq_nil in Hi. destruct Hi as [H2 Hi].
  apply app_eq_nil in Hi. destruct Hi as [H3 H4]. auto.
Qed.

(* 1. handles: in range and strictly backwards (types, global expressions, function expressions, statements) *)
Theorem wf_handles_sound : forall m, wf_module m = [] ->
  (forall i t, nth_error (m_types m) i = Some t -> Forall (fun r => r < i) (type_refs (ty_inner t))) /\
  (forall i e, nth_error (m_global_exprs m) i = Some e -> Forall (fun r => r < i) (expr_refs e)) /\
  (forall fn f, nth_error (all_funcs m) fn = Some f ->
     (forall i e, nth_error (f_exprs f) i = Some e ->
        Forall (fun r => r < i) (expr_refs e) /\ expr_operands_ok m (List.length (f_args f)) (List.length (f_locals f)) e = true) /\
     List.length (f_expr_types f) = List.length (f_exprs f) /\
     (forall s, substmt s (f_body f) ->
        Forall (fun r => r < List.length (f_exprs f)) (stmt_refs s) /\
        match s with
        | SEmit a b => a <= b <= List.length (f_exprs f)
        | SCall g _ _ => g < List.length (m_functions m)
        | _ => True
        end)).
Proof. exact wf_handles_sound_thm. Qed.
Print Assumptions wf_handles_sound.

(* 2. equal (name, inner) types sit at one handle (image-class types, decoded to a bare tag, excepted) *)
Theorem types_unique_sound : forall m, wf_module m = [] ->
  forall i j t, nth_error (m_types m) i = Some t -> nth_error (m_types m) j = Some t -> comparable t = true -> i = j.
Proof. exact types_unique_sound_thm. Qed.
Print Assumptions types_unique_sound.

(* 3. the typifier is a function, and the type of handle i depends only on expressions 0..i:
      appending expressions never changes an inferred type (what lets backends type incrementally) *)
Theorem infer_deterministic : forall m f i t1 t2, infer m f i = Some t1 -> infer m f i = Some t2 -> t1 = t2.
Proof. exact infer_deterministic_thm. Qed.
Print Assumptions infer_deterministic.

Theorem infer_stable_under_append : forall m f f' more,
  f_args f' = f_args f -> f_locals f' = f_locals f -> f_expr_types f' = f_expr_types f ->
  f_exprs f' = f_exprs f ++ more ->
  forall i, i < List.length (f_exprs f) -> infer m f' i = infer m f i.
Proof. exact infer_stable_under_append_thm. Qed.
Print Assumptions infer_stable_under_append.

(* 4. recorded types: when the local check passes and nothing is left unrecorded, the recorded
      table IS the independently inferred one wherever the typifier has a rule *)
Theorem recorded_types_are_inferred : forall m, wf_module m = [] -> forall fn f, nth_error (all_funcs m) fn = Some f ->
  forall i t, infer m f i = Some t -> recorded m f i = Some t.
Proof.
  intros m H fn f Hn. destruct (wf_func_parts m H fn f Hn) as (Ht & _).
  destruct (wf_handles_sound_thm m H) as (_ & _ & Hf). destruct (Hf fn f Hn) as (Hb & Hl & _).
  eapply types_local_sound; eauto. intros i e He. now apply Hb.
Qed.
Print Assumptions recorded_types_are_inferred.

(* 5. emit discipline, over every execution path of every function body *)
Theorem emit_cover_unique : forall m, wf_module m = [] -> forall fn f, nth_error (all_funcs m) fn = Some f ->
  (forall evs o, path_block (f_exprs f) (f_body f) evs o -> uses_ok (f_exprs f) (fun _ => False) evs) /\
  (exists cov, covered_block (body_fuel f) (f_body f) = Some cov /\ NoDup cov /\
     (forall a b h, substmt (SEmit a b) (f_body f) -> a <= h < b -> In h cov) /\
     (forall i e, nth_error (f_exprs f) i = Some e -> pre_emit e = false -> result_kind e = false -> In i cov)).
Proof. intros m H fn f Hn. destruct (wf_func_parts m H fn f Hn) as (_ & He & _). now apply emit_check_sound with (fn := fn). Qed.
Print Assumptions emit_cover_unique.

(* 6. every path of a function with a result ends in Kill or Return of a value of that type;
      a function without result never returns a value *)
Theorem all_paths_return_sound : forall m, wf_module m = [] -> forall fn f, nth_error (all_funcs m) fn = Some f ->
  forall evs o, path_block (f_exprs f) (f_body f) evs o ->
  match f_result f with
  | Some r =>
    o = OKill \/
    exists v, o = ORet (Some v) /\
              (opt_inner_eqb (etype m f v) (tinner m (fr_type r)) || opt_inner_eqb (recorded m f v) (tinner m (fr_type r))) = true
  | None => o = OKill \/ o = ORet None \/ o = ONormal
  end.
Proof.
  intros m H fn f Hn evs o Hp. destruct (wf_func_parts m H fn f Hn) as (_ & _ & Hr & _).
  pose proof (returns_check_sound m fn f _ _ Hr evs o Hp) as Hs. destruct (f_result f); [| exact Hs].
  destruct Hs as [Hk | (v & Hv & Ht)]; [now left | right]. exists v. split; [assumption |].
  unfold etype. rewrite (recorded_all_spec m f v) in Ht. exact Ht.
Qed.
Print Assumptions all_paths_return_sound.

(* 7. every Store and Call statement anywhere in a body is type-correct (under the inferred or the recorded typing) *)
Theorem stores_calls_typed : forall m, wf_module m = [] -> forall fn f, nth_error (all_funcs m) fn = Some f ->
  forall s, substmt s (f_body f) ->
  match s with
  | SStore p v => store_typed m (assumed_all m f) p v || store_typed m (recorded_all m f) p v = true
  | SCall g args res =>
    exists callee, nth_error (m_functions m) g = Some callee /\ List.length args = List.length (f_args callee) /\
      (args_ok m (assumed_all m f) args (f_args callee) || args_ok m (recorded_all m f) args (f_args callee)) = true /\
      (match res, f_result callee with Some _, Some _ | None, None => True | _, _ => False end)
  | _ => True
  end.
Proof.
  intros m H fn f Hn s Hs. destruct (wf_func_parts m H fn f Hn) as (_ & _ & _ & Hc).
  pose proof (forall_block_sound _ _ _ _ Hc s Hs) as Hp. destruct s; try exact I; cbn in Hp.
  - now apply guard_nil in Hp.
  - destruct (nth_error (m_functions m) f0) as [callee |] eqn:Hcal; [| discriminate]. exists callee. split; [reflexivity |].
    apply app_eq_nil in Hp. destruct Hp as [H1 Hp]. apply app_eq_nil in Hp. destruct Hp as [H2 H3].
    apply guard_nil in H1. apply guard_nil in H2. apply guard_nil in H3. apply PeanoNat.Nat.eqb_eq in H1. split; [assumption |].
    rewrite H1, PeanoNat.Nat.eqb_refl in H2. cbn in H2. rewrite orb_false_r in H2. split; [assumption |].
    destruct result, (f_result callee); try discriminate; exact I.
Qed.
Print Assumptions stores_calls_typed.

(* ---- non-vacuity: a module with a helper call, a loop with break, stores and loads passes;
        moving one Emit after its use, or recording a comparison with its operand type, is rejected ---- *)
Definition i32t : type_inner := TScalar (mkscalar Sint 4).
Definition ex_g : func :=
  mkfunc "g" [mkarg "x" 0 None] (Some (mkres 0 None)) []
         [EFunctionArgument 0; ELiteral (LI32 1); EBinary BAdd 0 1]
         [RHandle 0; RValue i32t; RHandle 0]
         [SEmit 2 3; SReturn (Some 2)] [].
Definition ex_f_body (first_emit : stmt) : list stmt :=
  [SStore 0 1; SCall 0 [1] (Some 2); SStore 0 2;
   SLoop [first_emit; SIf 4 [SBreak] []; SStore 0 1] [] None;
   SEmit 5 6; SReturn (Some 5)].
Definition ex_f (cmp_ty : type_resolution) (body : list stmt) : func :=
  mkfunc "f" [] (Some (mkres 0 None)) [mklocal "a" 0 None]
         [ELocalVariable 0; ELiteral (LI32 5); ECallResult 0; ELoad 0; EBinary BLt 3 1; ELoad 0]
         [RValue (TPointer 0 SpFunction); RValue i32t; RHandle 0; RHandle 0; cmp_ty; RHandle 0]
         body [].
Definition ex_module (f : func) : module := mkmodule [mkty "" i32t] [] [] [] [ex_g; f] [] [].
Definition bool_res : type_resolution := RValue (TScalar (mkscalar SBool 1)).

Example c09_example_accepted : wf_module (ex_module (ex_f bool_res (ex_f_body (SEmit 3 5)))) = [].
Proof. vm_compute. reflexivity. Qed.

Example c09_example_emit_after_use_rejected :
  map v_clause (wf_module (ex_module (ex_f bool_res
     [SStore 0 1; SCall 0 [1] (Some 2); SStore 0 2;
      SLoop [SIf 4 [SBreak] []; SEmit 3 5; SStore 0 1] [] None; SEmit 5 6; SReturn (Some 5)])))
  = ["emit.use_unevaluated.If"%string].
Proof. vm_compute. reflexivity. Qed.

Example c09_example_comparison_typed_as_operand_rejected :
  map v_clause (wf_module (ex_module (ex_f (RHandle 0) (ex_f_body (SEmit 3 5))))) = ["types.mismatch.Binary.Lt"%string].
Proof. vm_compute. reflexivity. Qed.

Example c09_example_missing_return_rejected :
  map v_clause (wf_module (ex_module (ex_f bool_res
     [SStore 0 1; SEmit 3 5; SIf 4 [SEmit 5 6; SReturn (Some 5)] [SReturn None]])))
  = ["emit.uncovered.CallResult"%string; "return.missing_value"%string] \/
  In "return.missing_value"%string (map v_clause (wf_module (ex_module (ex_f bool_res
     [SStore 0 1; SEmit 3 5; SIf 4 [SEmit 5 6; SReturn (Some 5)] [SReturn None]])))).
Proof. right. vm_compute. tauto. Qed.

(* ---- 8. the type registry (internal/registry GetOrCreate), over all request histories ---- *)
(* clause 8: the result bindings of every entry point are pairwise distinct, and @blend_src occurs only as the complete
   dual-source pair (two location outputs, both at location 0, blend_src 0 and 1) *)
Require Import Naga.IR.EntryProofs.

Theorem entry_results_sound : forall m, wf_module m = [] ->
  forall i ep, nth_error (m_entry_points m) i = Some ep ->
  exists l, result_bindings m ep = Some l /\
    (forall p q a b, nth_error l p = Some a -> nth_error l q = Some b -> (p < q)%nat -> binding_key_eqb a b = false) /\
    ((forall pr, In pr (loc_pairs l) -> snd pr = None) \/
     (exists a b, loc_pairs l = [(0, Some a); (0, Some b)]%Z /\ ((a = 0 /\ b = 1) \/ (a = 1 /\ b = 0))%Z)).
Proof. exact entry_results_sound_thm. Qed.
Print Assumptions entry_results_sound.

Example c09_example_dual_source_pair_accepted :
  blend_src_complete [BBuiltin "BuiltinFragDepth" false; BLocation 0 None (Some 1%Z); BLocation 0 None (Some 0%Z)] = true.
Proof. vm_compute. reflexivity. Qed.

Example c09_example_half_dual_source_rejected :
  blend_src_complete [BLocation 0 None None; BLocation 0 None (Some 0%Z)] = false.
Proof. vm_compute. reflexivity. Qed.

Require Import Naga.Registry.RegistryModel Naga.Registry.RegistryProofs.

(* the key determines name and type, up to struct member bindings (ValuePointer types, whose key ignores
   every field, excepted: they are never registered) *)
Theorem registry_key_injective : forall n t n' t', registrable t = true -> registrable t' = true ->
  build_key n t = build_key n' t' -> n = n' /\ norm t = norm t'.
Proof. exact build_key_inj. Qed.
Print Assumptions registry_key_injective.

(* for every sequence of GetOrCreate requests from the empty registry: the arena only grows (handles
   stay valid), every returned handle denotes a type with the requested key, and no two arena
   entries have the same name and the same type up to member bindings *)
Theorem registry_inv : forall reqs r' hs, run empty_registry reqs = (r', hs) ->
  Inv r' /\
  Forall2 (fun req h => exists t0, nth_error (r_types r') h = Some t0 /\ ty_key t0 = build_key (fst req) (snd req)) reqs hs /\
  (forall i j a b, nth_error (r_types r') i = Some a -> nth_error (r_types r') j = Some b ->
     ty_name a = ty_name b -> norm (ty_inner a) = norm (ty_inner b) -> i = j).
Proof.
  intros reqs r' hs Hr. destruct (registry_history _ _ _ _ inv_empty Hr) as (Hi & Hp & Hf).
  split; [exact Hi |]. split; [exact Hf |]. exact (registry_dedup _ _ _ Hr).
Qed.
Print Assumptions registry_inv.

Theorem registry_handles_stable : forall reqs r r' hs, Inv r -> run r reqs = (r', hs) ->
  exists suffix, r_types r' = (r_types r ++ suffix)%list.
Proof. intros reqs r r' hs Hi Hr. now destruct (registry_history _ _ _ _ Hi Hr) as (_ & Hp & _). Qed.
Print Assumptions registry_handles_stable.

Example registry_example :
  let f32 := TScalar (mkscalar Float 4) in
  let reqs := [(""%string, f32); (""%string, TVector 3%Z (mkscalar Float 4)); (""%string, f32);
               ("F"%string, f32); (""%string, TArray 0 (Some 4%Z) 4%Z); (""%string, TArray 0 (Some 4%Z) 16%Z);
               (""%string, TArray 0 (Some 4%Z) 4%Z)] in
  snd (run empty_registry reqs) = [0; 1; 0; 2; 3; 4; 3].
Proof. vm_compute. reflexivity. Qed.
