(* Property C05 (GLSL output computes what the WGSL program means), operator level:
   every GLSL expression template naga emits for an IR operator / math builtin, evaluated in the GLSL 4.60
   semantics of Glsl/Ops.v + Glsl/Sem.v, yields the WGSL-defined value (Base/Bits32.v, Base/F32.v) for ALL 32-bit
   operands on which GLSL defines the result (the property's own restriction: no integer division by zero or
   overflow, no % with negative operands, shift amounts below 32, in-range float->int, clamp bounds ordered).
   The templates are tied to /repo by Glsl/OpTable.v (gen_table_in_catalogue over the regenerated probe table).
   Statement-level preservation for whole programs is validated per program by differential execution
   (irrun vs glslrun), not proved: partial. *)
From Coq Require Import List ZArith String Bool Lia.
Import ListNotations.
Require Import Naga.Base.Bits32 Naga.Base.F32 Naga.IR.Values.
Require Import Naga.Glsl.Syntax Naga.Glsl.Ops Naga.Glsl.Sem Naga.Glsl.Catalogue Naga.Glsl.CatalogueProofs Naga.Glsl.OpTable.
Open Scope string_scope.
Open Scope Z_scope.


Theorem c05_add_i32_correct : forall es a b, teval es (t_bin BAdd) (e2 (VI32 a) (VI32 b)) = Done (VI32 (add32 a b)).
Proof. exact glsl_add_i32_correct. Qed.

Theorem c05_add_u32_correct : forall es a b, teval es (t_bin BAdd) (e2 (VU32 a) (VU32 b)) = Done (VU32 (add32 a b)).
Proof. exact glsl_add_u32_correct. Qed.

Theorem c05_add_f32_correct : forall es a b, teval es (t_bin BAdd) (e2 (VF32 a) (VF32 b)) = Done (VF32 (fadd a b)).
Proof. exact glsl_add_f32_correct. Qed.

Theorem c05_sub_i32_correct : forall es a b, teval es (t_bin BSub) (e2 (VI32 a) (VI32 b)) = Done (VI32 (sub32 a b)).
Proof. exact glsl_sub_i32_correct. Qed.

Theorem c05_sub_u32_correct : forall es a b, teval es (t_bin BSub) (e2 (VU32 a) (VU32 b)) = Done (VU32 (sub32 a b)).
Proof. exact glsl_sub_u32_correct. Qed.

Theorem c05_sub_f32_correct : forall es a b, teval es (t_bin BSub) (e2 (VF32 a) (VF32 b)) = Done (VF32 (fsub a b)).
Proof. exact glsl_sub_f32_correct. Qed.

Theorem c05_mul_i32_correct : forall es a b, teval es (t_bin BMul) (e2 (VI32 a) (VI32 b)) = Done (VI32 (mul32 a b)).
Proof. exact glsl_mul_i32_correct. Qed.

Theorem c05_mul_u32_correct : forall es a b, teval es (t_bin BMul) (e2 (VU32 a) (VU32 b)) = Done (VU32 (mul32 a b)).
Proof. exact glsl_mul_u32_correct. Qed.

Theorem c05_mul_f32_correct : forall es a b, teval es (t_bin BMul) (e2 (VF32 a) (VF32 b)) = Done (VF32 (fmul a b)).
Proof. exact glsl_mul_f32_correct. Qed.

Theorem c05_div_i32_correct : forall es a b, in32 a -> in32 b -> defined_div_i32 a b ->
  teval es (t_bin BDiv) (e2 (VI32 a) (VI32 b)) = Done (VI32 (div_i32 a b)).
Proof. exact glsl_div_i32_correct. Qed.

Theorem c05_div_u32_correct : forall es a b, in32 a -> in32 b -> defined_div_u32 a b ->
  teval es (t_bin BDiv) (e2 (VU32 a) (VU32 b)) = Done (VU32 (div_u32 a b)).
Proof. exact glsl_div_u32_correct. Qed.

Theorem c05_div_f32_correct : forall es a b, teval es (t_bin BDiv) (e2 (VF32 a) (VF32 b)) = Done (VF32 (fdiv a b)).
Proof. exact glsl_div_f32_correct. Qed.

Theorem c05_rem_i32_correct : forall es a b, in32 a -> in32 b -> defined_rem_i32 a b ->
  teval es (t_bin BMod) (e2 (VI32 a) (VI32 b)) = Done (VI32 (rem_i32 a b)).
Proof. exact glsl_rem_i32_correct. Qed.

Theorem c05_rem_u32_correct : forall es a b, in32 a -> in32 b -> defined_rem_u32 a b ->
  teval es (t_bin BMod) (e2 (VU32 a) (VU32 b)) = Done (VU32 (rem_u32 a b)).
Proof. exact glsl_rem_u32_correct. Qed.

Theorem c05_and_i32_correct : forall es a b, teval es (t_bin BAnd) (e2 (VI32 a) (VI32 b)) = Done (VI32 (and32 a b)).
Proof. exact glsl_and_i32_correct. Qed.

Theorem c05_and_u32_correct : forall es a b, teval es (t_bin BAnd) (e2 (VU32 a) (VU32 b)) = Done (VU32 (and32 a b)).
Proof. exact glsl_and_u32_correct. Qed.

Theorem c05_or_i32_correct : forall es a b, teval es (t_bin BOr) (e2 (VI32 a) (VI32 b)) = Done (VI32 (or32 a b)).
Proof. exact glsl_or_i32_correct. Qed.

Theorem c05_or_u32_correct : forall es a b, teval es (t_bin BOr) (e2 (VU32 a) (VU32 b)) = Done (VU32 (or32 a b)).
Proof. exact glsl_or_u32_correct. Qed.

Theorem c05_xor_i32_correct : forall es a b, teval es (t_bin BXor) (e2 (VI32 a) (VI32 b)) = Done (VI32 (xor32 a b)).
Proof. exact glsl_xor_i32_correct. Qed.

Theorem c05_xor_u32_correct : forall es a b, teval es (t_bin BXor) (e2 (VU32 a) (VU32 b)) = Done (VU32 (xor32 a b)).
Proof. exact glsl_xor_u32_correct. Qed.

Theorem c05_and_bool_correct : forall es a b, teval es (t_bin BLAnd) (e2 (VBool a) (VBool b)) = Done (VBool (a && b)).
Proof. exact glsl_and_bool_correct. Qed.

Theorem c05_or_bool_correct : forall es a b, teval es (t_bin BLOr) (e2 (VBool a) (VBool b)) = Done (VBool (a || b)).
Proof. exact glsl_or_bool_correct. Qed.

Theorem c05_shl_i32_correct : forall es a b, in32 a -> in32 b -> defined_shift b ->
  teval es (t_bin BShl) (e2 (VI32 a) (VU32 b)) = Done (VI32 (shl32 a b)).
Proof. exact glsl_shl_i32_correct. Qed.

Theorem c05_shl_u32_correct : forall es a b, in32 a -> in32 b -> defined_shift b ->
  teval es (t_bin BShl) (e2 (VU32 a) (VU32 b)) = Done (VU32 (shl32 a b)).
Proof. exact glsl_shl_u32_correct. Qed.

Theorem c05_shr_i32_correct : forall es a b, in32 a -> in32 b -> defined_shift b ->
  teval es (t_bin BShr) (e2 (VI32 a) (VU32 b)) = Done (VI32 (shr_i32 a b)).
Proof. exact glsl_shr_i32_correct. Qed.

Theorem c05_shr_u32_correct : forall es a b, in32 a -> in32 b -> defined_shift b ->
  teval es (t_bin BShr) (e2 (VU32 a) (VU32 b)) = Done (VU32 (shr_u32 a b)).
Proof. exact glsl_shr_u32_correct. Qed.

Theorem c05_shl_unmasked : forall es a b, 32 <= b ->
  teval es (t_bin BShl) (e2 (VU32 a) (VU32 b)) = Fail "UB: shift amount negative or >= 32".
Proof. exact glsl_shl_unmasked. Qed.

Theorem c05_eq_i32_correct : forall es a b, teval es (t_bin BEq) (e2 (VI32 a) (VI32 b)) = Done (VBool (a =? b)).
Proof. exact glsl_eq_i32_correct. Qed.

Theorem c05_eq_u32_correct : forall es a b, teval es (t_bin BEq) (e2 (VU32 a) (VU32 b)) = Done (VBool (a =? b)).
Proof. exact glsl_eq_u32_correct. Qed.

Theorem c05_eq_f32_correct : forall es a b, teval es (t_bin BEq) (e2 (VF32 a) (VF32 b)) = Done (VBool (feq a b)).
Proof. exact glsl_eq_f32_correct. Qed.

Theorem c05_eq_bool_correct : forall es a b, teval es (t_bin BEq) (e2 (VBool a) (VBool b)) = Done (VBool (Bool.eqb a b)).
Proof. exact glsl_eq_bool_correct. Qed.

Theorem c05_ne_i32_correct : forall es a b, teval es (t_bin BNe) (e2 (VI32 a) (VI32 b)) = Done (VBool (negb (a =? b))).
Proof. exact glsl_ne_i32_correct. Qed.

Theorem c05_ne_u32_correct : forall es a b, teval es (t_bin BNe) (e2 (VU32 a) (VU32 b)) = Done (VBool (negb (a =? b))).
Proof. exact glsl_ne_u32_correct. Qed.

Theorem c05_ne_f32_correct : forall es a b, teval es (t_bin BNe) (e2 (VF32 a) (VF32 b)) = Done (VBool (fne a b)).
Proof. exact glsl_ne_f32_correct. Qed.

Theorem c05_ne_bool_correct : forall es a b, teval es (t_bin BNe) (e2 (VBool a) (VBool b)) = Done (VBool (negb (Bool.eqb a b))).
Proof. exact glsl_ne_bool_correct. Qed.

Theorem c05_lt_i32_correct : forall es a b, teval es (t_bin BLt) (e2 (VI32 a) (VI32 b)) = Done (VBool (lt_i32 a b)).
Proof. exact glsl_lt_i32_correct. Qed.

Theorem c05_lt_u32_correct : forall es a b, teval es (t_bin BLt) (e2 (VU32 a) (VU32 b)) = Done (VBool (lt_u32 a b)).
Proof. exact glsl_lt_u32_correct. Qed.

Theorem c05_lt_f32_correct : forall es a b, teval es (t_bin BLt) (e2 (VF32 a) (VF32 b)) = Done (VBool (flt a b)).
Proof. exact glsl_lt_f32_correct. Qed.

Theorem c05_le_i32_correct : forall es a b, teval es (t_bin BLe) (e2 (VI32 a) (VI32 b)) = Done (VBool (le_i32 a b)).
Proof. exact glsl_le_i32_correct. Qed.

Theorem c05_le_u32_correct : forall es a b, teval es (t_bin BLe) (e2 (VU32 a) (VU32 b)) = Done (VBool (le_u32 a b)).
Proof. exact glsl_le_u32_correct. Qed.

Theorem c05_le_f32_correct : forall es a b, teval es (t_bin BLe) (e2 (VF32 a) (VF32 b)) = Done (VBool (fle a b)).
Proof. exact glsl_le_f32_correct. Qed.

Theorem c05_gt_i32_correct : forall es a b, teval es (t_bin BGt) (e2 (VI32 a) (VI32 b)) = Done (VBool (lt_i32 b a)).
Proof. exact glsl_gt_i32_correct. Qed.

Theorem c05_gt_u32_correct : forall es a b, teval es (t_bin BGt) (e2 (VU32 a) (VU32 b)) = Done (VBool (lt_u32 b a)).
Proof. exact glsl_gt_u32_correct. Qed.

Theorem c05_gt_f32_correct : forall es a b, teval es (t_bin BGt) (e2 (VF32 a) (VF32 b)) = Done (VBool (fgt a b)).
Proof. exact glsl_gt_f32_correct. Qed.

Theorem c05_ge_i32_correct : forall es a b, teval es (t_bin BGe) (e2 (VI32 a) (VI32 b)) = Done (VBool (le_i32 b a)).
Proof. exact glsl_ge_i32_correct. Qed.

Theorem c05_ge_u32_correct : forall es a b, teval es (t_bin BGe) (e2 (VU32 a) (VU32 b)) = Done (VBool (le_u32 b a)).
Proof. exact glsl_ge_u32_correct. Qed.

Theorem c05_ge_f32_correct : forall es a b, teval es (t_bin BGe) (e2 (VF32 a) (VF32 b)) = Done (VBool (fge a b)).
Proof. exact glsl_ge_f32_correct. Qed.

Theorem c05_neg_i32_correct : forall es a, teval es (t_un UNeg) (e1 (VI32 a)) = Done (VI32 (neg32 a)).
Proof. exact glsl_neg_i32_correct. Qed.

Theorem c05_neg_f32_correct : forall es a, teval es (t_un UNeg) (e1 (VF32 a)) = Done (VF32 (fneg a)).
Proof. exact glsl_neg_f32_correct. Qed.

Theorem c05_lognot_bool_correct : forall es a, teval es (t_un ULogNot) (e1 (VBool a)) = Done (VBool (negb a)).
Proof. exact glsl_lognot_bool_correct. Qed.

Theorem c05_bitnot_i32_correct : forall es a, teval es (t_un UBitNot) (e1 (VI32 a)) = Done (VI32 (not32 a)).
Proof. exact glsl_bitnot_i32_correct. Qed.

Theorem c05_bitnot_u32_correct : forall es a, teval es (t_un UBitNot) (e1 (VU32 a)) = Done (VU32 (not32 a)).
Proof. exact glsl_bitnot_u32_correct. Qed.

Theorem c05_select_correct : forall es (a b : value) (c : bool), is_poison a = false -> is_poison b = false ->
  teval es t_select (e3 a b (VBool c)) = Done (if c then b else a).
Proof. exact glsl_select_correct. Qed.

Theorem c05_select_i32_correct : forall es a b c, teval es t_select (e3 (VI32 a) (VI32 b) (VBool c)) = Done (VI32 (if c then b else a)).
Proof. exact glsl_select_i32_correct. Qed.

Theorem c05_select_u32_correct : forall es a b c, teval es t_select (e3 (VU32 a) (VU32 b) (VBool c)) = Done (VU32 (if c then b else a)).
Proof. exact glsl_select_u32_correct. Qed.

Theorem c05_select_f32_correct : forall es a b c, teval es t_select (e3 (VF32 a) (VF32 b) (VBool c)) = Done (VF32 (if c then b else a)).
Proof. exact glsl_select_f32_correct. Qed.

Theorem c05_select_bool_correct : forall es a b c, teval es t_select (e3 (VBool a) (VBool b) (VBool c)) = Done (VBool (if c then b else a)).
Proof. exact glsl_select_bool_correct. Qed.

Theorem c05_select_vector_condition_refuted : forall es a b cs, teval es t_select (e3 a b (VVec cs)) = Fail "TYPE: ?: condition must be a scalar bool".
Proof. exact glsl_select_vector_condition_refuted. Qed.

Theorem c05_mix_select_vec2 : forall es a0 a1 b0 b1 c0 c1, teval es (ECall "mix" [va; vb; vc]) (e3 (VVec [VI32 a0; VI32 a1]) (VVec [VI32 b0; VI32 b1]) (VVec [VBool c0; VBool c1]))
  = Done (VVec [VI32 (if c0 then b0 else a0); VI32 (if c1 then b1 else a1)]).
Proof. exact glsl_mix_select_vec2. Qed.

Theorem c05_all_correct : forall es a0 a1, teval es (t_call1 "all") (e1 (VVec [VBool a0; VBool a1])) = Done (VBool (a0 && a1)).
Proof. exact glsl_all_correct. Qed.

Theorem c05_any_correct : forall es a0 a1, teval es (t_call1 "any") (e1 (VVec [VBool a0; VBool a1])) = Done (VBool (a0 || a1)).
Proof. exact glsl_any_correct. Qed.

Theorem c05_abs_i32_correct : forall es a, teval es (t_call1 "abs") (e1 (VI32 a)) = Done (VI32 (abs_i32 a)).
Proof. exact glsl_abs_i32_correct. Qed.

Theorem c05_abs_u32_refuted : forall es a, teval es (t_call1 "abs") (e1 (VU32 a)) = Fail "TYPE: abs: operand type".
Proof. exact glsl_abs_u32_refuted. Qed.

Theorem c05_sign_i32_correct : forall es a, in32 a -> teval es (t_call1 "sign") (e1 (VI32 a)) = Done (VI32 (sign_i32 a)).
Proof. exact glsl_sign_i32_correct. Qed.

Theorem c05_min_i32_correct : forall es a b, teval es (t_call2 "min") (e2 (VI32 a) (VI32 b)) = Done (VI32 (min_i32 a b)).
Proof. exact glsl_min_i32_correct. Qed.

Theorem c05_min_u32_correct : forall es a b, teval es (t_call2 "min") (e2 (VU32 a) (VU32 b)) = Done (VU32 (min_u32 a b)).
Proof. exact glsl_min_u32_correct. Qed.

Theorem c05_max_i32_correct : forall es a b, teval es (t_call2 "max") (e2 (VI32 a) (VI32 b)) = Done (VI32 (max_i32 a b)).
Proof. exact glsl_max_i32_correct. Qed.

Theorem c05_max_u32_correct : forall es a b, teval es (t_call2 "max") (e2 (VU32 a) (VU32 b)) = Done (VU32 (max_u32 a b)).
Proof. exact glsl_max_u32_correct. Qed.

Theorem c05_clamp_i32_correct : forall es a lo hi, sgn lo <= sgn hi ->
  teval es (t_call3 "clamp") (e3 (VI32 a) (VI32 lo) (VI32 hi)) = Done (VI32 (clamp_i32 a lo hi)).
Proof. exact glsl_clamp_i32_correct. Qed.

Theorem c05_clamp_u32_correct : forall es a lo hi, lo <= hi ->
  teval es (t_call3 "clamp") (e3 (VU32 a) (VU32 lo) (VU32 hi)) = Done (VU32 (clamp_u32 a lo hi)).
Proof. exact glsl_clamp_u32_correct. Qed.

Theorem c05_dot_i32_vec2_correct : forall es a0 a1 b0 b1, teval es (t_int_dot 2) (e2 (VVec [VI32 a0; VI32 a1]) (VVec [VI32 b0; VI32 b1])) = dot_vals [VI32 a0; VI32 a1] [VI32 b0; VI32 b1].
Proof. exact glsl_dot_i32_vec2_correct. Qed.

Theorem c05_dot_i32_vec3_correct : forall es a0 a1 a2 b0 b1 b2, teval es (t_int_dot 3) (e2 (VVec [VI32 a0; VI32 a1; VI32 a2]) (VVec [VI32 b0; VI32 b1; VI32 b2]))
  = dot_vals [VI32 a0; VI32 a1; VI32 a2] [VI32 b0; VI32 b1; VI32 b2].
Proof. exact glsl_dot_i32_vec3_correct. Qed.

Theorem c05_dot_i32_vec4_correct : forall es a0 a1 a2 a3 b0 b1 b2 b3, teval es (t_int_dot 4) (e2 (VVec [VI32 a0; VI32 a1; VI32 a2; VI32 a3]) (VVec [VI32 b0; VI32 b1; VI32 b2; VI32 b3]))
  = dot_vals [VI32 a0; VI32 a1; VI32 a2; VI32 a3] [VI32 b0; VI32 b1; VI32 b2; VI32 b3].
Proof. exact glsl_dot_i32_vec4_correct. Qed.

Theorem c05_dot_u32_vec2_correct : forall es a0 a1 b0 b1, teval es (t_int_dot 2) (e2 (VVec [VU32 a0; VU32 a1]) (VVec [VU32 b0; VU32 b1])) = dot_vals [VU32 a0; VU32 a1] [VU32 b0; VU32 b1].
Proof. exact glsl_dot_u32_vec2_correct. Qed.

Theorem c05_dot_u32_vec3_correct : forall es a0 a1 a2 b0 b1 b2, teval es (t_int_dot 3) (e2 (VVec [VU32 a0; VU32 a1; VU32 a2]) (VVec [VU32 b0; VU32 b1; VU32 b2]))
  = dot_vals [VU32 a0; VU32 a1; VU32 a2] [VU32 b0; VU32 b1; VU32 b2].
Proof. exact glsl_dot_u32_vec3_correct. Qed.

Theorem c05_dot_u32_vec4_correct : forall es a0 a1 a2 a3 b0 b1 b2 b3, teval es (t_int_dot 4) (e2 (VVec [VU32 a0; VU32 a1; VU32 a2; VU32 a3]) (VVec [VU32 b0; VU32 b1; VU32 b2; VU32 b3]))
  = dot_vals [VU32 a0; VU32 a1; VU32 a2; VU32 a3] [VU32 b0; VU32 b1; VU32 b2; VU32 b3].
Proof. exact glsl_dot_u32_vec4_correct. Qed.

Theorem c05_dot_f32_vec2_correct : forall es a0 a1 b0 b1, teval es (t_call2 "dot") (e2 (VVec [VF32 a0; VF32 a1]) (VVec [VF32 b0; VF32 b1])) = dot_vals [VF32 a0; VF32 a1] [VF32 b0; VF32 b1].
Proof. exact glsl_dot_f32_vec2_correct. Qed.

Theorem c05_dot_f32_vec3_correct : forall es a0 a1 a2 b0 b1 b2, teval es (t_call2 "dot") (e2 (VVec [VF32 a0; VF32 a1; VF32 a2]) (VVec [VF32 b0; VF32 b1; VF32 b2]))
  = dot_vals [VF32 a0; VF32 a1; VF32 a2] [VF32 b0; VF32 b1; VF32 b2].
Proof. exact glsl_dot_f32_vec3_correct. Qed.

Theorem c05_dot_f32_vec4_correct : forall es a0 a1 a2 a3 b0 b1 b2 b3, teval es (t_call2 "dot") (e2 (VVec [VF32 a0; VF32 a1; VF32 a2; VF32 a3]) (VVec [VF32 b0; VF32 b1; VF32 b2; VF32 b3]))
  = dot_vals [VF32 a0; VF32 a1; VF32 a2; VF32 a3] [VF32 b0; VF32 b1; VF32 b2; VF32 b3].
Proof. exact glsl_dot_f32_vec4_correct. Qed.

Theorem c05_countOneBits_i32_correct : forall es a, teval es (t_call1 "bitCount") (e1 (VI32 a)) = Done (VI32 (count_one_bits a)).
Proof. exact glsl_countOneBits_i32_correct. Qed.

Theorem c05_countOneBits_u32_correct : forall es a, teval es (t_ctor_call (TScalar KUint) "bitCount") (e1 (VU32 a)) = Done (VU32 (count_one_bits a)).
Proof. exact glsl_countOneBits_u32_correct. Qed.

Theorem c05_reverseBits_i32_correct : forall es a, teval es (t_call1 "bitfieldReverse") (e1 (VI32 a)) = Done (VI32 (reverse_bits a)).
Proof. exact glsl_reverseBits_i32_correct. Qed.

Theorem c05_reverseBits_u32_correct : forall es a, teval es (t_call1 "bitfieldReverse") (e1 (VU32 a)) = Done (VU32 (reverse_bits a)).
Proof. exact glsl_reverseBits_u32_correct. Qed.

Theorem c05_firstLeadingBit_u32_correct : forall es a, in32 a ->
  teval es (t_ctor_call (TScalar KUint) "findMSB") (e1 (VU32 a)) = Done (VU32 (first_leading_bit_u32 a)).
Proof. exact glsl_firstLeadingBit_u32_correct. Qed.

Theorem c05_firstLeadingBit_i32_correct : forall es a, in32 a ->
  teval es (t_call1 "findMSB") (e1 (VI32 a)) = Done (VI32 (first_leading_bit_i32 a)).
Proof. exact glsl_firstLeadingBit_i32_correct. Qed.

Theorem c05_firstTrailingBit_i32_correct : forall es a, in32 a ->
  teval es (t_call1 "findLSB") (e1 (VI32 a)) = Done (VI32 (first_trailing_bit a)).
Proof. exact glsl_firstTrailingBit_i32_correct. Qed.

Theorem c05_firstTrailingBit_u32_correct : forall es a, in32 a ->
  teval es (t_ctor_call (TScalar KUint) "findLSB") (e1 (VU32 a)) = Done (VU32 (first_trailing_bit a)).
Proof. exact glsl_firstTrailingBit_u32_correct. Qed.

Theorem c05_countLeadingZeros_u32_bits : forall es a, in32 a ->
  teval es t_clz (e1 (VU32 a)) = Done (VI32 (count_leading_zeros a)).
Proof. exact glsl_countLeadingZeros_u32_bits. Qed.

Theorem c05_countLeadingZeros_i32_nonneg : forall es a, in32 a -> 0 <= sgn a ->
  teval es t_clz (e1 (VI32 a)) = Done (VI32 (count_leading_zeros a)).
Proof. exact glsl_countLeadingZeros_i32_nonneg. Qed.

Theorem c05_countLeadingZeros_u32_kind_refuted : forall es a, in32 a ->
  teval es t_clz (e1 (VU32 a)) <> Done (VU32 (count_leading_zeros a)).
Proof. exact glsl_countLeadingZeros_u32_kind_refuted. Qed.

Theorem c05_countLeadingZeros_i32_refuted : exists a, in32 a /\ teval false t_clz (e1 (VI32 a)) = Done (VI32 32) /\ count_leading_zeros a = 0.
Proof. exact glsl_countLeadingZeros_i32_refuted. Qed.

Theorem c05_countTrailingZeros_nonzero : forall es a, in32 a -> a <> 0 ->
  teval es t_ctz (e1 (VI32 a)) = Done (VI32 (count_trailing_zeros a)).
Proof. exact glsl_countTrailingZeros_nonzero. Qed.

Theorem c05_countTrailingZeros_refuted : teval false t_ctz (e1 (VI32 0)) = Done (VI32 4294967295) /\ teval false t_ctz (e1 (VU32 0)) = Done (VI32 4294967295)
  /\ count_trailing_zeros 0 = 32.
Proof. exact glsl_countTrailingZeros_refuted. Qed.

Theorem c05_extractBits_u32_correct : forall es a b c, in32 a -> in32 b -> in32 c ->
  teval es t_extract (e3 (VU32 a) (VU32 b) (VU32 c)) = Done (VU32 (extract_bits_u32 a b c)).
Proof. exact glsl_extractBits_u32_correct. Qed.

Theorem c05_extractBits_i32_correct : forall es a b c, in32 a -> in32 b -> in32 c ->
  teval es t_extract (e3 (VI32 a) (VU32 b) (VU32 c)) = Done (VI32 (extract_bits_i32 a b c)).
Proof. exact glsl_extractBits_i32_correct. Qed.

Theorem c05_insertBits_u32_correct : forall es a nb c d, in32 a -> in32 nb -> in32 c -> in32 d ->
  teval es t_insert (e4 (VU32 a) (VU32 nb) (VU32 c) (VU32 d)) = Done (VU32 (insert_bits a nb c d)).
Proof. exact glsl_insertBits_u32_correct. Qed.

Theorem c05_insertBits_i32_correct : forall es a nb c d, in32 a -> in32 nb -> in32 c -> in32 d ->
  teval es t_insert (e4 (VI32 a) (VI32 nb) (VU32 c) (VU32 d)) = Done (VI32 (insert_bits a nb c d)).
Proof. exact glsl_insertBits_i32_correct. Qed.

Theorem c05_abs_f32_correct : forall es a, teval es (t_call1 "abs") (e1 (VF32 a)) = Done (VF32 (fabs a)).
Proof. exact glsl_abs_f32_correct. Qed.

Theorem c05_sign_f32_correct : forall es a, teval es (t_call1 "sign") (e1 (VF32 a))
  = Done (VF32 (if is_nan_bits a then a else if flt 0 a then 1065353216 else if flt a 0 then 3212836864 else a)).
Proof. exact glsl_sign_f32_correct. Qed.

Theorem c05_min_f32_correct : forall es a b, teval es (t_call2 "min") (e2 (VF32 a) (VF32 b)) = Done (VF32 (fmin a b)).
Proof. exact glsl_min_f32_correct. Qed.

Theorem c05_max_f32_correct : forall es a b, teval es (t_call2 "max") (e2 (VF32 a) (VF32 b)) = Done (VF32 (fmax a b)).
Proof. exact glsl_max_f32_correct. Qed.

Theorem c05_clamp_f32_correct : forall es a lo hi, flt hi lo = false ->
  teval es (t_call3 "clamp") (e3 (VF32 a) (VF32 lo) (VF32 hi)) = Done (VF32 (fmin (fmax a lo) hi)).
Proof. exact glsl_clamp_f32_correct. Qed.

Theorem c05_floor_f32_correct : forall es a, teval es (t_call1 "floor") (e1 (VF32 a)) = Done (VF32 (ffloor a)).
Proof. exact glsl_floor_f32_correct. Qed.

Theorem c05_ceil_f32_correct : forall es a, teval es (t_call1 "ceil") (e1 (VF32 a)) = Done (VF32 (fceil a)).
Proof. exact glsl_ceil_f32_correct. Qed.

Theorem c05_trunc_f32_correct : forall es a, teval es (t_call1 "trunc") (e1 (VF32 a)) = Done (VF32 (ftrunc a)).
Proof. exact glsl_trunc_f32_correct. Qed.

Theorem c05_round_f32_correct : forall es a, teval es (t_call1 "round") (e1 (VF32 a)) = Done (VF32 (fround a)).
Proof. exact glsl_round_f32_correct. Qed.

Theorem c05_sqrt_f32_correct : forall es a, teval es (t_call1 "sqrt") (e1 (VF32 a)) = Done (VF32 (fsqrt a)).
Proof. exact glsl_sqrt_f32_correct. Qed.

Theorem c05_saturate_f32_correct : forall es a, teval es (t_saturate 1) (e1 (VF32 a)) = Done (VF32 (fmin (fmax a 0) 1065353216)).
Proof. exact glsl_saturate_f32_correct. Qed.

Theorem c05_fma_f32_correct : forall es a b c, teval es t_fma_fused (e3 (VF32 a) (VF32 b) (VF32 c)) = Done (VF32 (ffma a b c)).
Proof. exact glsl_fma_f32_correct. Qed.

Theorem c05_fma_unfused_f32_correct : forall es a b c, teval es t_fma_unfused (e3 (VF32 a) (VF32 b) (VF32 c)) = Done (VF32 (fadd (fmul a b) c)).
Proof. exact glsl_fma_unfused_f32_correct. Qed.

Theorem c05_i32_to_u32_correct : forall es a, teval es (t_ctor (TScalar KUint)) (e1 (VI32 a)) = Done (VU32 (u32_of_i32 a)).
Proof. exact glsl_i32_to_u32_correct. Qed.

Theorem c05_u32_to_i32_correct : forall es a, teval es (t_ctor (TScalar KInt)) (e1 (VU32 a)) = Done (VI32 (i32_of_u32 a)).
Proof. exact glsl_u32_to_i32_correct. Qed.

Theorem c05_i32_to_f32_correct : forall es a, teval es (t_ctor (TScalar KFloat)) (e1 (VI32 a)) = Done (VF32 (f32_of_i32 a)).
Proof. exact glsl_i32_to_f32_correct. Qed.

Theorem c05_u32_to_f32_correct : forall es a, teval es (t_ctor (TScalar KFloat)) (e1 (VU32 a)) = Done (VF32 (f32_of_u32 a)).
Proof. exact glsl_u32_to_f32_correct. Qed.

Theorem c05_i32_to_bool_correct : forall es a, teval es (t_ctor (TScalar KBool)) (e1 (VI32 a)) = Done (VBool (bool_of_32 a)).
Proof. exact glsl_i32_to_bool_correct. Qed.

Theorem c05_u32_to_bool_correct : forall es a, teval es (t_ctor (TScalar KBool)) (e1 (VU32 a)) = Done (VBool (bool_of_32 a)).
Proof. exact glsl_u32_to_bool_correct. Qed.

Theorem c05_f32_to_bool_correct : forall es a, teval es (t_ctor (TScalar KBool)) (e1 (VF32 a)) = Done (VBool (negb (feq a 0))).
Proof. exact glsl_f32_to_bool_correct. Qed.

Theorem c05_bool_to_i32_correct : forall es a, teval es (t_ctor (TScalar KInt)) (e1 (VBool a)) = Done (VI32 (u32_of_bool a)).
Proof. exact glsl_bool_to_i32_correct. Qed.

Theorem c05_bool_to_u32_correct : forall es a, teval es (t_ctor (TScalar KUint)) (e1 (VBool a)) = Done (VU32 (u32_of_bool a)).
Proof. exact glsl_bool_to_u32_correct. Qed.

Theorem c05_bool_to_f32_correct : forall es a, teval es (t_ctor (TScalar KFloat)) (e1 (VBool a)) = Done (VF32 (if a then 1065353216 else 0)).
Proof. exact glsl_bool_to_f32_correct. Qed.

Theorem c05_f32_to_i32_correct : forall es a, defined_f2i a ->
  teval es (t_ctor (TScalar KInt)) (e1 (VF32 a)) = Done (VI32 (i32_of_f32 a)).
Proof. exact glsl_f32_to_i32_correct. Qed.

Theorem c05_f32_to_u32_correct : forall es a, defined_f2u a ->
  teval es (t_ctor (TScalar KUint)) (e1 (VF32 a)) = Done (VU32 (u32_of_f32 a)).
Proof. exact glsl_f32_to_u32_correct. Qed.

Theorem c05_f32_to_i32_unclamped : teval false (t_ctor (TScalar KInt)) (e1 (VF32 1333788672)) = Fail "UB: float to int conversion out of range".
Proof. exact glsl_f32_to_i32_unclamped. Qed.

Theorem c05_bitcast_i32_u32_correct : forall es a, teval es (t_ctor (TScalar KUint)) (e1 (VI32 a)) = Done (VU32 a).
Proof. exact glsl_bitcast_i32_u32_correct. Qed.

Theorem c05_bitcast_u32_i32_correct : forall es a, teval es (t_ctor (TScalar KInt)) (e1 (VU32 a)) = Done (VI32 a).
Proof. exact glsl_bitcast_u32_i32_correct. Qed.

Theorem c05_bitcast_i32_f32_correct : forall es a, teval es (t_call1 "intBitsToFloat") (e1 (VI32 a)) = Done (VF32 a).
Proof. exact glsl_bitcast_i32_f32_correct. Qed.

Theorem c05_bitcast_u32_f32_correct : forall es a, teval es (t_call1 "uintBitsToFloat") (e1 (VU32 a)) = Done (VF32 a).
Proof. exact glsl_bitcast_u32_f32_correct. Qed.

Theorem c05_bitcast_f32_i32_correct : forall es a, teval es (t_call1 "floatBitsToInt") (e1 (VF32 a)) = Done (VI32 a).
Proof. exact glsl_bitcast_f32_i32_correct. Qed.

Theorem c05_bitcast_f32_u32_correct : forall es a, teval es (t_call1 "floatBitsToUint") (e1 (VF32 a)) = Done (VU32 a).
Proof. exact glsl_bitcast_f32_u32_correct. Qed.

(* vector shapes: the component-wise templates against the IR meaning (Values.lift2 of the scalar meaning) *)
Theorem c05_add_i32_vec_correct : forall es a la b lb, teval es (t_bin BAdd) (e2 (VVec (ints (a :: la))) (VVec (ints (b :: lb)))) = lift2 (arith_scalar OAdd) (VVec (ints (a :: la))) (VVec (ints (b :: lb))).
Proof. exact glsl_add_i32_vec_correct. Qed.

Theorem c05_sub_i32_vec_correct : forall es a la b lb, teval es (t_bin BSub) (e2 (VVec (ints (a :: la))) (VVec (ints (b :: lb)))) = lift2 (arith_scalar OSub) (VVec (ints (a :: la))) (VVec (ints (b :: lb))).
Proof. exact glsl_sub_i32_vec_correct. Qed.

Theorem c05_mul_i32_vec_correct : forall es a la b lb, teval es (t_bin BMul) (e2 (VVec (ints (a :: la))) (VVec (ints (b :: lb)))) = lift2 (arith_scalar OMul) (VVec (ints (a :: la))) (VVec (ints (b :: lb))).
Proof. exact glsl_mul_i32_vec_correct. Qed.

Theorem c05_div_i32_vec_correct : forall es a la b lb, (forall p q, In (p, q) (combine (a :: la) (b :: lb)) -> in32 p /\ in32 q /\ defined_div_i32 p q) ->
  teval es (t_bin BDiv) (e2 (VVec (ints (a :: la))) (VVec (ints (b :: lb)))) = lift2 (arith_scalar ODiv) (VVec (ints (a :: la))) (VVec (ints (b :: lb))).
Proof. exact glsl_div_i32_vec_correct. Qed.

Theorem c05_rem_i32_vec_correct : forall es a la b lb, (forall p q, In (p, q) (combine (a :: la) (b :: lb)) -> in32 p /\ in32 q /\ defined_rem_i32 p q) ->
  teval es (t_bin BMod) (e2 (VVec (ints (a :: la))) (VVec (ints (b :: lb)))) = lift2 (arith_scalar ORem) (VVec (ints (a :: la))) (VVec (ints (b :: lb))).
Proof. exact glsl_rem_i32_vec_correct. Qed.

Theorem c05_add_u32_vec_correct : forall es a la b lb, teval es (t_bin BAdd) (e2 (VVec (uints (a :: la))) (VVec (uints (b :: lb)))) = lift2 (arith_scalar OAdd) (VVec (uints (a :: la))) (VVec (uints (b :: lb))).
Proof. exact glsl_add_u32_vec_correct. Qed.

Theorem c05_mul_u32_vec_correct : forall es a la b lb, teval es (t_bin BMul) (e2 (VVec (uints (a :: la))) (VVec (uints (b :: lb)))) = lift2 (arith_scalar OMul) (VVec (uints (a :: la))) (VVec (uints (b :: lb))).
Proof. exact glsl_mul_u32_vec_correct. Qed.

Theorem c05_div_u32_vec_correct : forall es a la b lb, (forall p q, In (p, q) (combine (a :: la) (b :: lb)) -> defined_div_u32 p q) ->
  teval es (t_bin BDiv) (e2 (VVec (uints (a :: la))) (VVec (uints (b :: lb)))) = lift2 (arith_scalar ODiv) (VVec (uints (a :: la))) (VVec (uints (b :: lb))).
Proof. exact glsl_div_u32_vec_correct. Qed.

(* the regenerated table of what naga emits today is inside the catalogue (or a listed refuted template) *)
Theorem c05_gen_table_in_catalogue : forallb classified Naga.Gen.GlslOpTable.table = true.
Proof. exact gen_table_in_catalogue. Qed.

(* One Print Assumptions for all statements above (printing it per theorem costs more than a second each, the
   closure being the Flocq development): the axioms are those of Flocq/Reals, reached through Base/F32.v, to which the
   GLSL evaluator refers for its floating-point leaves.  The integer leaf lemmas do not depend on them: *)
Definition c05_all_theorems := (c05_add_i32_vec_correct,
  c05_sub_i32_vec_correct,
  c05_mul_i32_vec_correct,
  c05_div_i32_vec_correct,
  c05_rem_i32_vec_correct,
  c05_add_u32_vec_correct,
  c05_mul_u32_vec_correct,
  c05_div_u32_vec_correct,
  c05_add_i32_correct,
  c05_add_u32_correct,
  c05_add_f32_correct,
  c05_sub_i32_correct,
  c05_sub_u32_correct,
  c05_sub_f32_correct,
  c05_mul_i32_correct,
  c05_mul_u32_correct,
  c05_mul_f32_correct,
  c05_div_i32_correct,
  c05_div_u32_correct,
  c05_div_f32_correct,
  c05_rem_i32_correct,
  c05_rem_u32_correct,
  c05_and_i32_correct,
  c05_and_u32_correct,
  c05_or_i32_correct,
  c05_or_u32_correct,
  c05_xor_i32_correct,
  c05_xor_u32_correct,
  c05_and_bool_correct,
  c05_or_bool_correct,
  c05_shl_i32_correct,
  c05_shl_u32_correct,
  c05_shr_i32_correct,
  c05_shr_u32_correct,
  c05_shl_unmasked,
  c05_eq_i32_correct,
  c05_eq_u32_correct,
  c05_eq_f32_correct,
  c05_eq_bool_correct,
  c05_ne_i32_correct,
  c05_ne_u32_correct,
  c05_ne_f32_correct,
  c05_ne_bool_correct,
  c05_lt_i32_correct,
  c05_lt_u32_correct,
  c05_lt_f32_correct,
  c05_le_i32_correct,
  c05_le_u32_correct,
  c05_le_f32_correct,
  c05_gt_i32_correct,
  c05_gt_u32_correct,
  c05_gt_f32_correct,
  c05_ge_i32_correct,
  c05_ge_u32_correct,
  c05_ge_f32_correct,
  c05_neg_i32_correct,
  c05_neg_f32_correct,
  c05_lognot_bool_correct,
  c05_bitnot_i32_correct,
  c05_bitnot_u32_correct,
  c05_select_correct,
  c05_select_i32_correct,
  c05_select_u32_correct,
  c05_select_f32_correct,
  c05_select_bool_correct,
  c05_select_vector_condition_refuted,
  c05_mix_select_vec2,
  c05_all_correct,
  c05_any_correct,
  c05_abs_i32_correct,
  c05_abs_u32_refuted,
  c05_sign_i32_correct,
  c05_min_i32_correct,
  c05_min_u32_correct,
  c05_max_i32_correct,
  c05_max_u32_correct,
  c05_clamp_i32_correct,
  c05_clamp_u32_correct,
  c05_dot_i32_vec2_correct,
  c05_dot_i32_vec3_correct,
  c05_dot_i32_vec4_correct,
  c05_dot_u32_vec2_correct,
  c05_dot_u32_vec3_correct,
  c05_dot_u32_vec4_correct,
  c05_dot_f32_vec2_correct,
  c05_dot_f32_vec3_correct,
  c05_dot_f32_vec4_correct,
  c05_countOneBits_i32_correct,
  c05_countOneBits_u32_correct,
  c05_reverseBits_i32_correct,
  c05_reverseBits_u32_correct,
  c05_firstLeadingBit_u32_correct,
  c05_firstLeadingBit_i32_correct,
  c05_firstTrailingBit_i32_correct,
  c05_firstTrailingBit_u32_correct,
  c05_countLeadingZeros_u32_bits,
  c05_countLeadingZeros_i32_nonneg,
  c05_countLeadingZeros_u32_kind_refuted,
  c05_countLeadingZeros_i32_refuted,
  c05_countTrailingZeros_nonzero,
  c05_countTrailingZeros_refuted,
  c05_extractBits_u32_correct,
  c05_extractBits_i32_correct,
  c05_insertBits_u32_correct,
  c05_insertBits_i32_correct,
  c05_abs_f32_correct,
  c05_sign_f32_correct,
  c05_min_f32_correct,
  c05_max_f32_correct,
  c05_clamp_f32_correct,
  c05_floor_f32_correct,
  c05_ceil_f32_correct,
  c05_trunc_f32_correct,
  c05_round_f32_correct,
  c05_sqrt_f32_correct,
  c05_saturate_f32_correct,
  c05_fma_f32_correct,
  c05_fma_unfused_f32_correct,
  c05_i32_to_u32_correct,
  c05_u32_to_i32_correct,
  c05_i32_to_f32_correct,
  c05_u32_to_f32_correct,
  c05_i32_to_bool_correct,
  c05_u32_to_bool_correct,
  c05_f32_to_bool_correct,
  c05_bool_to_i32_correct,
  c05_bool_to_u32_correct,
  c05_bool_to_f32_correct,
  c05_f32_to_i32_correct,
  c05_f32_to_u32_correct,
  c05_f32_to_i32_unclamped,
  c05_bitcast_i32_u32_correct,
  c05_bitcast_u32_i32_correct,
  c05_bitcast_i32_f32_correct,
  c05_bitcast_u32_f32_correct,
  c05_bitcast_f32_i32_correct,
  c05_bitcast_f32_u32_correct,
  c05_gen_table_in_catalogue).
Print Assumptions c05_all_theorems.
Print Assumptions g_div_i_ok.
Print Assumptions g_mod_i_ok.
Print Assumptions g_findMSB_i_ok.
Print Assumptions g_findLSB_ok.
Print Assumptions g_bfe_i_ok.
Print Assumptions g_bfi_ok.

(* ---- non-vacuity: the definedness hypotheses are satisfiable by non-trivial instances ---- *)
Example c05_ex_div : in32 4294967289 /\ in32 2 /\ defined_div_i32 4294967289 2 /\
  teval false (t_bin BDiv) (e2 (VI32 4294967289) (VI32 2)) = Done (VI32 4294967293).     (* -7 / 2 = -3 *)
Proof.
  split; [unfold in32, M32; lia|]. split; [unfold in32, M32; lia|]. split.
  - split; [discriminate | intros [H _]; discriminate].
  - vm_compute. reflexivity.
Qed.
Example c05_ex_rem : defined_rem_i32 7 3 /\ teval true (t_bin BMod) (e2 (VI32 7) (VI32 3)) = Done (VI32 1).
Proof. split; [unfold defined_rem_i32; repeat split; vm_compute; congruence | vm_compute; reflexivity]. Qed.
Example c05_ex_shift : defined_shift 31 /\ teval false (t_bin BShl) (e2 (VI32 1) (VU32 31)) = Done (VI32 2147483648).
Proof. split; [unfold defined_shift; lia | vm_compute; reflexivity]. Qed.
Example c05_ex_f2i : defined_f2i 3236954112 /\                                             (* -7.5 *)
  teval false (t_ctor (TScalar KInt)) (e1 (VF32 3236954112)) = Done (VI32 4294967289).      (* -7 *)
Proof. split; [exists (-7); split; [vm_compute; reflexivity | lia] | vm_compute; reflexivity]. Qed.
Example c05_ex_f2u : defined_f2u 1089470464 /\                                             (* 7.5 *)
  teval false (t_ctor (TScalar KUint)) (e1 (VF32 1089470464)) = Done (VU32 7).
Proof. split; [exists 7; repeat split; try (vm_compute; reflexivity); lia | vm_compute; reflexivity]. Qed.
Example c05_ex_extract : teval true t_extract (e3 (VI32 4294967040) (VU32 4) (VU32 40)) = Done (VI32 4294967280).
Proof. vm_compute. reflexivity. Qed.
Example c05_ex_table : (List.length Naga.Gen.GlslOpTable.table >= 400)%nat /\ List.length refuted_rows = 32%nat.
Proof. split; vm_compute; [repeat constructor | reflexivity]. Qed.


(* ==== statement level: the control-flow ENCODINGS (coq/Target/*.v) =========================================
   Theorems for ALL bodies / continuing blocks / conditions / states / fuels about the fixed ways in which naga
   encodes structured control flow, over the generic structured language of Target/Structured.v whose semantics IS
   the IR reference interpreter (c05_ir_interpreter_is_generic: exact equality with IR/Sem.v) and whose rules are
   those of the target interpreters (Target/GlslInstance.v).  Tied to /repo on every run by the recogniser
   Target/Shapes.v (tool cfshape) over every emitted text: a loop or switch outside the proved shapes is reported. *)
Require Import Naga.Target.Structured Naga.Target.LoopInit Naga.Target.LoopBound Naga.Target.ContinueForward
        Naga.Target.SwitchForms Naga.Target.Desugar Naga.Target.IrInstance Naga.Target.GlslInstance Naga.Target.Examples.

(* IR/Sem.v's interpreter is the generic interpreter on the translation IrInstance.tr: exact equality, all fuels *)
Theorem c05_ir_interpreter_is_generic : forall (m : Naga.IR.Syntax.module) (f : Naga.IR.Syntax.func) (n : nat),
  (forall b fr mem, conv (Naga.IR.Sem.exec_block n m f b fr mem) = run_block n (tr_b m f b) (fr, mem)) /\
  (forall s fr mem, conv (Naga.IR.Sem.exec_stmt n m f s fr mem) = run_stmt n (tr m f s) (fr, mem)) /\
  (forall cs fr mem, conv (Naga.IR.Sem.exec_cases n m f cs fr mem) = run_cases n (tr_c m f cs) (fr, mem)) /\
  (forall body cont brk fr mem,
     conv (Naga.IR.Sem.exec_loop n m f body cont brk fr mem) =
     run_loop n (tr_b m f body) (tr_b m f cont)
              (match brk with Some h => Some (bool_of m f "break if: not a bool" h) | None => None end) (fr, mem)).
Proof. exact ir_is_generic. Qed.
Print Assumptions c05_ir_interpreter_is_generic.

(* and the translated statements satisfy the monotonicity hypothesis of every encoding theorem *)
Theorem c05_ir_translation_monotone : forall m f b, mono_b (tr_b m f b).
Proof. exact tr_b_mono. Qed.
Print Assumptions c05_ir_translation_monotone.

(* bool loop_init = true; while(true) { if (!loop_init) { continuing; if (break_if) break; } loop_init = false; body }
   computes exactly what Loop{body; continuing; break_if} computes; the flag variable L is fresh (explicit
   hypotheses) and ends up false; both directions *)
Theorem c05_loop_init_encoding_equiv :
  forall (state R : Type) (L : lens state bool) (body cont : list (Structured.stmt state R)) (bi : option (cond state)),
  mono_b body -> mono_b cont -> indep_b L body -> indep_b L cont ->
  (forall c : cond state, bi = Some c -> indep_fn L c) ->
  may_brk_b cont = false -> may_cont_b cont = false ->
  forall (st : state) (o : Structured.outcome R) (X : state),
  evals_b (loop_init_enc L body cont bi) st (o, X) <->
  (exists s' : state, X = lset L false s' /\ evals_s (Loop body cont bi) st (o, s')).
Proof. exact loop_init_encoding_equiv. Qed.
Print Assumptions c05_loop_init_encoding_equiv.

Example c05_loop_init_nonvacuous :
  mono_b ex_body /\ mono_b ex_cont /\ indep_b flagL ex_body /\ indep_b flagL ex_cont /\
  (forall c, ex_bi = Some c -> indep_fn flagL c) /\ may_brk_b ex_cont = false /\ may_cont_b ex_cont = false /\
  run_stmt 40 ex_loop ex_start = Done (Structured.ONormal, mkx 5 6 true (7, 7)%Z) /\
  run_block 40 (loop_init_enc flagL ex_body ex_cont ex_bi) ex_start = Done (Structured.ONormal, mkx 5 6 false (7, 7)%Z).
Proof.
  exact (conj ex_mono_body (conj ex_mono_cont (conj ex_indep_flag_body (conj ex_indep_flag_cont (conj ex_indep_flag_bi
        (conj eq_refl (conj eq_refl (conj ex_ir_run ex_loop_init_run)))))))).
Qed.

(* continue forwarding through should_continue (switch inside a loop): forward direction - whenever the IR switch
   terminates, the emitted form terminates with the same outcome (Continue where the IR says Continue) and the same
   state up to the flag.  Partial: the converse (termination of the emitted form implies termination of the IR
   form) is not proved. *)
Theorem c05_continue_forward_equiv_partial :
  forall (state R : Type) (F : lens state bool) (n : nat) (sel : state -> result (option nat))
         (cs : list (list (Structured.stmt state R) * bool)) (st : state) (o : Structured.outcome R) (s : state),
  mono_c cs -> indep_c F cs -> indep_fn F sel ->
  run_stmt n (Switch sel cs) st = Done (o, s) ->
  evals_b (fwd_switch F sel cs) st (o, lset F (is_cont o) s).
Proof. exact continue_forward_switch. Qed.
Print Assumptions c05_continue_forward_equiv_partial.

(* the same for a single-body switch written as do { } while(false): the IR meaning of such a switch is "the body,
   Break ends it" (c05_single_body_switch_partial) *)
Theorem c05_continue_forward_do_while_partial :
  forall (state R : Type) (F : lens state bool) (n : nat) (body : list (Structured.stmt state R)) (st : state)
         (o1 : Structured.outcome R) (s : state),
  mono_b body -> indep_b F body ->
  run_block n body st = Done (o1, s) ->
  evals_b (fwd_once F body) st (unbreak_o o1, lset F (is_cont o1) s).
Proof. exact continue_forward_once. Qed.
Print Assumptions c05_continue_forward_do_while_partial.

Theorem c05_single_body_switch_partial :
  forall (state R : Type) (n : nat) (sel : state -> result (option nat))
         (pre : list (list (Structured.stmt state R) * bool)) (body : list (Structured.stmt state R)) (ft : bool)
         (st : state) (r : Structured.outcome R * state),
  empty_labels pre ->
  (forall i : option nat, sel st = Done i -> exists j : nat, i = Some j /\ (j <= List.length pre)%nat) ->
  may_cont_b body = false ->
  run_stmt n (Switch sel (pre ++ (body, ft) :: nil)%list) st = Done r ->
  evals_s (DoOnce body) st r.
Proof. exact single_body_once. Qed.
Print Assumptions c05_single_body_switch_partial.

Example c05_continue_forward_nonvacuous :
  mono_c ex_cases /\ indep_c flagL ex_cases /\ indep_fn flagL ex_sel /\
  run_stmt 10 (Switch ex_sel ex_cases) (mkx 1 0 false (0, 0)%Z) = Done (Structured.OContinue, mkx 1 0 false (0, 0)%Z) /\
  run_block 12 (fwd_switch flagL ex_sel ex_cases) (mkx 1 0 false (0, 0)%Z) = Done (Structured.OContinue, mkx 1 0 true (0, 0)%Z).
Proof. exact (conj ex_mono_cases (conj ex_indep_cases (conj ex_indep_sel (conj ex_switch_continue_run ex_fwd_switch_run)))). Qed.

(* inserted `break;` after every non-fall-through case that does not end in a terminator: forward direction *)
Theorem c05_switch_case_breaks_partial :
  forall (state R : Type) (n : nat) (sel : state -> result (option nat))
         (cs : list (list (Structured.stmt state R) * bool)) (st : state) (r : Structured.outcome R * state),
  mono_c cs -> run_stmt n (Switch sel cs) st = Done r -> evals_s (Switch sel (enc_cases cs)) st r.
Proof. exact case_breaks_forward. Qed.
Print Assumptions c05_switch_case_breaks_partial.

(* the control-flow rules of the GLSL interpreter (Glsl/Sem.v, tool glslrun) are the generic step combinators *)
Theorem c05_glsl_while_true_is_generic_loop : forall P fu body st,
  gconv (Naga.Glsl.Sem.exec_while P (S fu) (Naga.Glsl.Syntax.EBool true) body st) =
  loop_step (fun s => gconv (Naga.Glsl.Sem.exec_scoped P fu body s)) (fun s => Done (Structured.ONormal, s)) None
            (fun s => gconv (Naga.Glsl.Sem.exec_while P fu (Naga.Glsl.Syntax.EBool true) body s)) st.
Proof. exact glsl_while_true_is_loop_step. Qed.
Theorem c05_glsl_do_while_false_is_generic_do_once : forall P fu body st,
  gconv (Naga.Glsl.Sem.exec_dowhile P (S fu) body (Naga.Glsl.Syntax.EBool false) st) =
  doonce_step (fun s => gconv (Naga.Glsl.Sem.exec_scoped P fu body s)) st.
Proof. exact glsl_dowhile_false_is_doonce_step. Qed.
Theorem c05_glsl_switch_cases_are_generic_cases : forall P fu labels body rest st,
  gconv (Naga.Glsl.Sem.exec_cases P (S fu) ((labels, body) :: rest) st) =
  case_step (fun s => gconv (Naga.Glsl.Sem.exec_stmts P fu body s)) true (fun s => gconv (Naga.Glsl.Sem.exec_cases P fu rest s)) st.
Proof. exact glsl_cases_is_case_step. Qed.
Print Assumptions c05_glsl_while_true_is_generic_loop.


(* ==== two-direction forms of the encoding theorems above (coq/Target/ContinueForwardConv.v, SwitchFormsConv.v):
   the CONVERSE of every `_partial` statement is proved too - a terminating run of the emitted form comes from a
   terminating run of the IR form with the related result - so the emitted form terminates with a result exactly
   when the IR form does (it cannot terminate where the source diverges or fails).  Same side conditions. *)
Require Import Naga.Target.ContinueForwardConv Naga.Target.SwitchFormsConv Naga.Target.ExamplesConv.

(* continue forwarding through should_continue, switch inside a loop: emitted form <-> IR switch *)
Theorem c05_continue_forward_equiv :
  forall (state R : Type) (F : lens state bool) (sel : state -> result (option nat))
         (cs : list (list (Structured.stmt state R) * bool)) (st : state) (r' : Structured.outcome R * state),
  mono_c cs -> indep_c F cs -> indep_fn F sel ->
  (evals_b (fwd_switch F sel cs) st r' <->
   exists (o : Structured.outcome R) (s : state),
     evals_s (Switch sel cs) st (o, s) /\ r' = (o, lset F (is_cont o) s)).
Proof. exact continue_forward_switch_iff. Qed.
Print Assumptions c05_continue_forward_equiv.

(* the converse alone, in fuel form: ANY terminating run of the emitted form, at any fuel *)
Theorem c05_continue_forward_converse :
  forall (state R : Type) (F : lens state bool) (n : nat) (sel : state -> result (option nat))
         (cs : list (list (Structured.stmt state R) * bool)) (st : state) (r' : Structured.outcome R * state),
  mono_c cs -> indep_c F cs -> indep_fn F sel ->
  run_block n (fwd_switch F sel cs) st = Done r' ->
  exists (o : Structured.outcome R) (s : state),
    evals_s (Switch sel cs) st (o, s) /\ r' = (o, lset F (is_cont o) s).
Proof. exact continue_forward_switch_conv. Qed.
Print Assumptions c05_continue_forward_converse.

(* the do { } while(false) form of a body with continues <-> the body (Break / Continue / Return classified) *)
Theorem c05_continue_forward_do_while :
  forall (state R : Type) (F : lens state bool) (body : list (Structured.stmt state R)) (st : state)
         (r' : Structured.outcome R * state),
  mono_b body -> indep_b F body ->
  (evals_b (fwd_once F body) st r' <->
   exists (o1 : Structured.outcome R) (s : state),
     evals_b body st (o1, s) /\ r' = (unbreak_o o1, lset F (is_cont o1) s)).
Proof. exact continue_forward_once_iff. Qed.
Print Assumptions c05_continue_forward_do_while.

(* ... and against the IR single-body SWITCH itself (empty fall-through labels, then the body), selector selecting a
   label of the switch: the should_continue / do-while form <-> the IR switch *)
Theorem c05_continue_forward_single_body_switch :
  forall (state R : Type) (F : lens state bool) (sel : state -> result (option nat))
         (pre : list (list (Structured.stmt state R) * bool)) (body : list (Structured.stmt state R)) (ft : bool)
         (st : state) (r' : Structured.outcome R * state),
  empty_labels pre -> selects sel pre st -> mono_b body -> indep_b F body ->
  (evals_b (fwd_once F body) st r' <->
   exists (o : Structured.outcome R) (s : state),
     evals_s (Switch sel (pre ++ (body, ft) :: nil)%list) st (o, s) /\ r' = (o, lset F (is_cont o) s)).
Proof. exact continue_forward_single_body_iff. Qed.
Print Assumptions c05_continue_forward_single_body_switch.

(* single-body switch without an escaping continue <-> do { body } while(false) *)
Theorem c05_single_body_switch :
  forall (state R : Type) (sel : state -> result (option nat))
         (pre : list (list (Structured.stmt state R) * bool)) (body : list (Structured.stmt state R)) (ft : bool)
         (st : state) (r : Structured.outcome R * state),
  empty_labels pre -> selects sel pre st -> may_cont_b body = false ->
  (evals_s (Switch sel (pre ++ (body, ft) :: nil)%list) st r <-> evals_s (DoOnce body) st r).
Proof. exact single_body_once_iff. Qed.
Print Assumptions c05_single_body_switch.

Example c05_single_body_nonvacuous :
  empty_labels ex_pre /\ (forall st, selects ex_sel ex_pre st) /\ mono_b ex_wbody /\ indep_b flagL ex_wbody /\
  may_cont_b ex_plain_single = false /\
  run_stmt 10 (Switch ex_sel (ex_pre ++ (ex_wbody, false) :: nil)%list) (mkx 1 0 false (0, 0)%Z)
    = Done (Structured.OContinue, mkx 1 0 false (0, 0)%Z) /\
  run_block 12 (fwd_once flagL ex_wbody) (mkx 1 0 true (0, 0)%Z) = Done (Structured.OContinue, mkx 1 0 true (0, 0)%Z) /\
  run_stmt 10 (Switch ex_sel (ex_pre ++ (ex_plain_single, false) :: nil)%list) (mkx 2 5 true (0, 0)%Z)
    = Done (Structured.ONormal, mkx 2 7 true (0, 0)%Z) /\
  run_stmt 10 (DoOnce ex_plain_single) (mkx 2 5 true (0, 0)%Z) = Done (Structured.ONormal, mkx 2 7 true (0, 0)%Z).
Proof.
  exact (conj ex_empty_labels (conj ex_selects (conj ex_mono_wbody (conj ex_indep_wbody (conj ex_plain_single_no_continue
        (conj ex_single_switch_continue_run (conj ex_fwd_once_continue_run
        (conj ex_single_switch_plain_run ex_do_once_plain_run)))))))).
Qed.

(* inserted `break;` after every non-fall-through case that does not end in a terminator: emitted switch <-> IR switch,
   same result *)
Theorem c05_switch_case_breaks :
  forall (state R : Type) (sel : state -> result (option nat))
         (cs : list (list (Structured.stmt state R) * bool)) (st : state) (r : Structured.outcome R * state),
  mono_c cs -> (evals_s (Switch sel (enc_cases cs)) st r <-> evals_s (Switch sel cs) st r).
Proof. exact case_breaks_iff. Qed.
Print Assumptions c05_switch_case_breaks.

Example c05_switch_case_breaks_nonvacuous :
  mono_c ex_cases /\
  enc_cases ex_cases = ((Structured.Continue :: nil, true) :: (a_store :: Structured.Break :: nil, true) :: nil)%list /\
  run_stmt 10 (Switch ex_sel ex_cases) (mkx 2 5 true (0, 0)%Z) = Done (Structured.ONormal, mkx 2 7 true (0, 0)%Z) /\
  run_stmt 10 (Switch ex_sel (enc_cases ex_cases)) (mkx 2 5 true (0, 0)%Z) = Done (Structured.ONormal, mkx 2 7 true (0, 0)%Z).
Proof. exact (conj ex_mono_cases (conj ex_enc_cases (conj ex_case_breaks_ir_run ex_case_breaks_enc_run))). Qed.
