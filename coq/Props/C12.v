(* Property C12: output depends only on (source, options) — deterministic, history- and race-free.

   PARTIAL by nature.  The theorems are universal (all histories, all schedules, all enumeration
   orders) but conditional: IF Reset re-initialises every mutable field, configuration fields and the
   module are never written, and map walks are sorted or order-insensitive, THEN the bytes are the same.
   The hypotheses are tied to the Go sources by the regenerated obligations of State/GenObligations.v
   and by monitors on the implementation (harness/cmd/histdrive); they are not proved of Go code, and
   Go's randomised map iteration and data races are run-time behaviour. *)
From Coq Require Import List String Bool Arith Permutation.
Import ListNotations.
Require Import Naga.State.Tie Naga.State.Reset Naga.State.History Naga.State.Schedule Naga.State.MapOrder.
Require Import Naga.State.GenObligations Naga.State.Instance.
Require Import Naga.State.CloneFrame Naga.State.CloneObligations.
Require Import Naga.Gen.BackendState Naga.Gen.MapWalks Naga.Gen.CloneRegions.

(* every mutable field is cleared  ==>  reset s = reset s' whenever s, s' have the same configuration *)
Theorem c12_reset_canonical :
  forall (value : Type) (is_cfg is_reset : field -> bool) (canon : state -> field -> value) (s s' : state),
  all_reset is_cfg is_reset (fields_of s) = true -> same_config is_cfg s s' ->
  reset is_cfg is_reset canon s = reset is_cfg is_reset canon s'.
Proof. exact @reset_canonical. Qed.
Print Assumptions c12_reset_canonical.

(* for ALL histories of Compile/Reset calls on one object: what was compiled before does not matter *)
Theorem c12_history_independent :
  forall (state module output : Type) (reset : state -> state) (body : state -> module -> state * output)
         (R : state -> state -> Prop),
  (forall s s', R s s' -> R s' s) -> (forall s1 s2 s3, R s1 s2 -> R s2 s3 -> R s1 s3) ->
  (forall s s', R s s' -> reset s = reset s') ->
  (forall s, R s s -> R s (reset s)) ->
  (forall s m, R s s -> R s (fst (body s m))) ->
  forall (history : list (op module)) (m : module) (s0 : state), R s0 s0 ->
  last_output output (snd (run state module output reset body s0 (history ++ [OCompile module m]))) =
  last_output output (snd (run state module output reset body s0 [OCompile module m])).
Proof. exact history_independent. Qed.
Print Assumptions c12_history_independent.

(* ... and every call in the history returns what a fresh object of the same configuration returns *)
Theorem c12_history_outputs_pointwise :
  forall (state module output : Type) (reset : state -> state) (body : state -> module -> state * output)
         (R : state -> state -> Prop),
  (forall s s', R s s' -> R s' s) -> (forall s1 s2 s3, R s1 s2 -> R s2 s3 -> R s1 s3) ->
  (forall s s', R s s' -> reset s = reset s') ->
  (forall s, R s s -> R s (reset s)) ->
  (forall s m, R s s -> R s (fst (body s m))) ->
  forall (ops : list (op module)) (s0 fresh : state), R s0 fresh ->
  snd (run state module output reset body s0 ops) =
  map (fun m => snd (compile state module output reset body fresh m)) (compiles module ops).
Proof. exact history_outputs_pointwise. Qed.
Print Assumptions c12_history_outputs_pointwise.

(* the same, instantiated with the fields of codegen.Backend and the actions of Reset/Compile as they
   are in /repo on this run; `_partial`: the hypothesis on `body` (configuration fields are left alone)
   is tied by the obligation config_fields_not_written_backend, which on the pinned tree holds only
   modulo the recorded finding options.Version (see c12_spirv_reuse_refuted) *)
Theorem c12_spirv_backend_history_independent_partial :
  forall (value module output : Type) (canon : @state value -> field -> value)
         (body : @state value -> module -> @state value * output),
  (forall s m, wf backend_fields backend_scratch s -> same_config (g_is_cfg backend_cfg) s (fst (body s m))) ->
  forall history m s0, wf backend_fields backend_scratch s0 ->
  last_output _ (snd (run _ _ _ (g_reset backend_acts backend_cfg canon) body s0 (history ++ [OCompile _ m]))) =
  last_output _ (snd (run _ _ _ (g_reset backend_acts backend_cfg canon) body s0 [OCompile _ m])).
Proof. exact spirv_backend_history_independent. Qed.
Print Assumptions c12_spirv_backend_history_independent_partial.

Theorem c12_modulebuilder_reset_canonical :
  forall (value : Type) (canon : @state value -> field -> value) (s s' : @state value),
  Rg modulebuilder_fields modulebuilder_cfg modulebuilder_scratch s s' ->
  g_reset modulebuilder_acts modulebuilder_cfg canon s = g_reset modulebuilder_acts modulebuilder_cfg canon s'.
Proof. exact modulebuilder_reset_canonical. Qed.
Print Assumptions c12_modulebuilder_reset_canonical.

(* faithful model of requireSpirvVersion14 writing b.options.Version: the statement is FALSE for it *)
Theorem c12_spirv_reuse_refuted :
  exists history m,
    last_output _ (snd (run _ _ _ leak_reset leak_body leak_fresh (history ++ [OCompile _ m]))) <>
    last_output _ (snd (run _ _ _ leak_reset leak_body leak_fresh [OCompile _ m])).
Proof. exact spirv_reuse_history_independent_refuted. Qed.
Print Assumptions c12_spirv_reuse_refuted.

(* a backend whose steps never write the module leaves it equal; each backend's output on a module
   handed from backend to backend equals its output when run alone, for every sequence of backends *)
Theorem c12_module_frame :
  forall (module output backend : Type) (call : backend -> module -> module * output),
  History.read_only module output backend call ->
  forall (bs : list backend) (m : module),
  fst (run_backends module output backend call m bs) = m /\
  snd (run_backends module output backend call m bs) = map (fun b => snd (call b m)) bs.
Proof. exact module_frame_and_outputs. Qed.
Print Assumptions c12_module_frame.

(* N threads, private state, read-only shared module: for EVERY interleaving each thread ends where
   its sequential run ends, and the module is unchanged *)
Theorem c12_schedule_independent :
  forall (local shared : Type) (step : nat -> local -> shared -> local * shared),
  Schedule.read_only local shared step ->
  forall (sched : list nat) (ls : locals local) (sh : shared) (i : nat),
  fst (exec local shared step sched (ls, sh)) i =
  fst (exec local shared step (repeat i (count i sched)) (ls, sh)) i /\
  snd (exec local shared step sched (ls, sh)) = sh.
Proof. exact schedule_independent. Qed.
Print Assumptions c12_schedule_independent.

(* output built from sort(keys m) does not depend on the order in which the map is enumerated *)
Theorem c12_sorted_iteration_deterministic :
  forall (A : Type) (leb : A -> A -> bool),
  (forall a b, leb a b = true \/ leb b a = true) ->
  (forall a b c, leb a b = true -> leb b c = true -> leb a c = true) ->
  forall (output : Type) (emit : list A -> output) (l1 l2 : list A),
  (forall a b, In a l1 -> In b l1 -> le A leb a b -> le A leb b a -> a = b) ->
  Permutation l1 l2 -> emit (isort A leb l1) = emit (isort A leb l2).
Proof. exact sorted_iteration_deterministic. Qed.
Print Assumptions c12_sorted_iteration_deterministic.

(* order-insensitive accumulation: commutative (and idempotent: only the SET of entries matters) *)
Theorem c12_fold_comm_perm_invariant :
  forall (A B : Type) (f : A -> B -> B), (forall a b s, f a (f b s) = f b (f a s)) ->
  forall l1 l2 s, Permutation l1 l2 ->
  fold_left (fun s a => f a s) l1 s = fold_left (fun s a => f a s) l2 s.
Proof. exact fold_left_comm_perm_invariant. Qed.
Print Assumptions c12_fold_comm_perm_invariant.

Theorem c12_fold_comm_idem_perm_invariant :
  forall (A B : Type) (f : A -> B -> B),
  (forall a b s, f a (f b s) = f b (f a s)) -> (forall a s, f a (f a s) = f a s) ->
  forall l1 l2 s, incl l1 l2 -> incl l2 l1 -> fold_right f s l1 = fold_right f s l2.
Proof. exact fold_comm_idem_perm_invariant. Qed.
Print Assumptions c12_fold_comm_idem_perm_invariant.

(* ---- operations that take pipeline constants: they write a shallow CLONE of the caller's module ---- *)

(* every region the override-resolution pass writes is re-allocated by the clone  ==>  the caller's module is unchanged *)
Theorem c12_clone_frame :
  forall (value : Type) (copied : region -> bool) (p : @pass value) (o : @store value),
  (forall r, In r (writes p) -> copied r = true) ->
  forall r, fst (run_pass copied p (clone o)) r = o r.
Proof. exact @clone_frame_caller. Qed.
Print Assumptions c12_clone_frame.

(* what the back end sees after the pass (hence its output) is the pass run in place on a private full copy,
   whichever regions were copied: a missing copy damages the caller, not this compilation (why tests pass) *)
Theorem c12_clone_view_independent :
  forall (value : Type) (copied : region -> bool) (p : @pass value), extensional p ->
  forall s r, view copied (run_pass copied p s) r = run_in_place p (view copied s) r.
Proof. exact @clone_view_independent. Qed.
Print Assumptions c12_clone_view_independent.

(* the hypothesis is necessary *)
Theorem c12_clone_frame_needed :
  forall (value : Type) (copied : region -> bool) (o : @store value) (r : region) (v : value),
  copied r = false -> v <> o r -> fst (run_pass copied [(r, fun _ => v)] (clone o)) r <> o r.
Proof. exact @clone_frame_needed. Qed.
Print Assumptions c12_clone_frame_needed.

(* msl.Compile with Options.PipelineConstants, instantiated with the regions applyPipelineConstants re-allocates as
   regenerated from /repo on this run: any history of such operations leaves the module equal and each yields its
   run-alone output (PARTIAL: the written regions are the reviewed list state/clone_writes.txt, not extracted) *)
Theorem c12_msl_pipeline_constants_history_partial :
  forall (value output : Type) (emit : @store value -> output) (ops : list (@pass value)),
  Forall (fun p => forall r, In r (writes p) -> In r (clone_sound_writes msl_clone_writes msl_clone_known)) ops ->
  forall o,
  fst (run_backends _ _ _ (msl_pc_call emit) o ops) = o /\
  snd (run_backends _ _ _ (msl_pc_call emit) o ops) = map (fun p => snd (msl_pc_call emit p o)) ops.
Proof. exact @msl_pipeline_constants_history. Qed.
Print Assumptions c12_msl_pipeline_constants_history_partial.

(* ir.CloneModuleForOverrides + ir.ProcessOverrides (= glsl.Compile with PipelineConstants): frame only for passes that
   stay off the regions recorded as findings (nested blocks, call arguments, statement pointees are shared AND written) *)
Theorem c12_ir_process_overrides_frame_partial :
  forall (value : Type) (p : @pass value) (o : @store value),
  (forall r, In r (writes p) -> In r (clone_sound_writes ir_clone_writes ir_clone_known)) ->
  forall r, fst (run_pass (fun x => mem x ir_clone_copied) p (clone o)) r = o r.
Proof. exact @ir_process_overrides_frame_partial. Qed.
Print Assumptions c12_ir_process_overrides_frame_partial.

(* the shape of the defect of the pinned tree: top-level Body copied, nested block shared, both renumbered *)
Theorem c12_shallow_clone_frame_refuted :
  exists o : @store nat, fst (run_pass shallow_copied renumber (clone o)) "Body.nested" <> o "Body.nested".
Proof. exact shallow_clone_frame_refuted. Qed.
Print Assumptions c12_shallow_clone_frame_refuted.

(* ---- non-vacuity: the hypotheses are satisfiable by concrete, non-trivial instances ---- *)

(* a Backend state over exactly the extracted fields; a body that counts compilations in a
   re-initialised field ("glslExtID") and reports that count: it leaves configuration alone, and its
   output is history independent only because Reset clears the field *)
Definition ex_state (v : nat) : @state nat := map (fun f => (f, v)) (observable backend_fields backend_scratch).
Definition ex_get (s : @state nat) (f : string) : nat :=
  match find (fun fv => String.eqb (fst fv) f) s with Some fv => snd fv | None => 0 end.
Definition ex_body (s : @state nat) (m : nat) : @state nat * nat :=
  (map (fun fv => if String.eqb (fst fv) "glslExtID" then (fst fv, S (snd fv)) else fv) s, ex_get s "glslExtID" + m).

Example c12_example_backend :
  wf backend_fields backend_scratch (ex_state 7) /\
  g_is_reset backend_acts "glslExtID" = true /\ g_is_cfg backend_cfg "options.Debug" = true /\
  snd (run _ _ _ (g_reset backend_acts backend_cfg (fun _ _ => 0)) ex_body (ex_state 7)
         [OCompile _ 1; OCompile _ 2; OReset _; OCompile _ 3]) = [1; 2; 3] /\
  (* without Reset the same body leaks: *)
  snd (run _ _ _ (fun s => s) ex_body (ex_state 7) [OCompile _ 1; OCompile _ 2]) = [8; 10].
Proof. vm_compute. repeat split; reflexivity. Qed.

(* ... and that body satisfies the hypothesis of c12_spirv_backend_history_independent_partial *)
Example c12_example_body_frames : forall s m, same_config (g_is_cfg backend_cfg) s (fst (ex_body s m)).
Proof.
  intros s m. unfold ex_body. simpl. induction s as [|[f v] t IH]; simpl; constructor; auto.
  destruct (String.eqb f "glslExtID") eqn:E; simpl; split; auto.
  intro Hc. apply String.eqb_eq in E. subst f. vm_compute in Hc. discriminate.
Qed.

(* three threads stepping counters that read the shared value: read-only, any interleaving *)
Example c12_example_schedule :
  let step := fun (i : nat) (l sh : nat) => (l + sh + i, sh) in
  Schedule.read_only nat nat step /\
  fst (exec nat nat step [0; 1; 2; 1; 0; 2; 2] (fun _ => 0, 5)) 2 = fst (exec nat nat step [2; 2; 2] (fun _ => 0, 5)) 2 /\
  fst (exec nat nat step [0; 1; 2; 1; 0; 2; 2] (fun _ => 0, 5)) 2 = 21.
Proof. split; [intros i l sh; reflexivity|]. vm_compute. split; reflexivity. Qed.

Example c12_example_sorted_walk :
  isort nat Nat.leb [42; 7; 19; 3] = isort nat Nat.leb [3; 19; 42; 7] /\ isort nat Nat.leb [42; 7; 19; 3] = [3; 7; 19; 42].
Proof. vm_compute. split; reflexivity. Qed.


(* a pass that resolves an override in the regions msl applyPipelineConstants re-allocates: the caller's
   GlobalExpressions keep the default (2) while the clone's view carries the pipeline value (7) *)
Example c12_example_msl_pipeline_constants :
  let p : @pass nat := [("GlobalExpressions", fun _ => 7); ("Functions", fun v => v "GlobalExpressions" + 1)] in
  let o : @store nat := fun _ => 2 in
  (forall r, In r (writes p) -> In r (clone_sound_writes msl_clone_writes msl_clone_known)) /\
  fst (run_pass (fun x => mem x msl_clone_copied) p (clone o)) "GlobalExpressions" = 2 /\
  view (fun x => mem x msl_clone_copied) (run_pass (fun x => mem x msl_clone_copied) p (clone o)) "Functions" = 8.
Proof.
  split; [|vm_compute; split; reflexivity].
  intros r Hr. simpl in Hr. destruct Hr as [H|[H|[]]]; subst r; vm_compute; tauto.
Qed.
