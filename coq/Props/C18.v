(* Property C18: DXIL output is a well-formed, self-consistent container with sound
   bitcode.  Theorems about the models of dxil/internal/bitcode/writer.go and
   dxil/internal/container/{container,hash}.go; the models are tied to /repo by
   regenerated constants (Dxil/GenObligations.v), byte-exact correspondence runs and
   by running the extracted reader/parser on what dxil.Compile returns (checks/c18.py). *)
From Coq Require Import List ZArith Bool Lia.
From Coq Require Permutation.
Import ListNotations.
Require Import Naga.Dxil.Bitstream Naga.Dxil.Dxbc Naga.Dxil.MetaModel Naga.Dxil.MetaProofs Naga.Dxil.CheckModel Naga.Dxil.CheckProofs.
Open Scope Z_scope.

(* ---- bit-level codecs: all values, all widths ---- *)

(* a w-bit field reads back as the value (data fits in width bits) ... *)
Theorem c18_bits_roundtrip : forall w v p rest, 0 <= v < 2 ^ Z.of_nat w ->
  read_fixed w (p, bits_of w v ++ rest) = Some (v, (p + Z.of_nat w, rest)).
Proof. exact read_fixed_bits. Qed.
Print Assumptions c18_bits_roundtrip.

(* ... and as the value modulo 2^w when it does not *)
Theorem c18_bits_roundtrip_mod : forall w v p rest,
  read_fixed w (p, bits_of w v ++ rest) = Some (v mod 2 ^ Z.of_nat w, (p + Z.of_nat w, rest)).
Proof. exact read_fixed_bits_mod. Qed.
Print Assumptions c18_bits_roundtrip_mod.

(* VBR: every value >= 0 (no upper bound), every chunk width >= 2 *)
Theorem c18_vbr_roundtrip : forall w v p rest, (2 <= w)%nat -> 0 <= v ->
  read_vbr w (p, enc_vbr w v ++ rest) = Some (v, (p + Z.of_nat (length (enc_vbr w v)), rest)).
Proof. exact vbr_roundtrip. Qed.
Print Assumptions c18_vbr_roundtrip.

(* EncodeSignedVBR on every int64, decoded as LLVM's reader decodes it *)
Theorem c18_signed_vbr_roundtrip : forall v, - 2 ^ 63 <= v < 2 ^ 63 ->
  decode_signed_vbr (encode_signed_vbr v) = v /\ 0 <= encode_signed_vbr v < 2 ^ 64.
Proof. exact signed_vbr_roundtrip. Qed.
Print Assumptions c18_signed_vbr_roundtrip.

Theorem c18_char6_roundtrip : forall c, is_char6 c = true ->
  exists e, encode_char6 c = Some e /\ 0 <= e < 64 /\ decode_char6 e = c.
Proof. exact char6_roundtrip. Qed.
Print Assumptions c18_char6_roundtrip.

(* ---- the writer machine (writer.go) ---- *)

(* WriteBits appends exactly the low `width` bits; width in [0,32], data fits *)
Theorem c18_write_bits_refines : forall s d w, Inv s -> 0 <= w <= 32 -> 0 <= d < 2 ^ w ->
  appends s (write_bits s d w) (bits_of (Z.to_nat w) d).
Proof. exact write_bits_appends. Qed.
Print Assumptions c18_write_bits_refines.

(* WriteVBR terminates and appends the VBR encoding: every uint64, width in [2,32] *)
Theorem c18_write_vbr_refines : forall s v w, Inv s -> 2 <= w <= 32 -> 0 <= v < two64 ->
  exists s', write_vbr s v w = Some s' /\ appends s s' (enc_vbr (Z.to_nat w) v).
Proof. exact write_vbr_appends. Qed.
Print Assumptions c18_write_vbr_refines.

Theorem c18_write_fixed_refines : forall s v w, Inv s -> 0 <= w <= 32 -> 0 <= v < 2 ^ w ->
  appends s (write_fixed s v w) (bits_of (Z.to_nat w) v).
Proof. exact write_fixed_appends. Qed.
Print Assumptions c18_write_fixed_refines.

(* the documented ">32 bits wide" path of WriteFixed does NOT write the value (latent:
   no caller in /repo) *)
Theorem c18_write_fixed_wide_refuted :
  exists s v w, Inv s /\ 32 < w <= 64 /\ 0 <= v < 2 ^ w /\
    wabs (write_fixed s v w) <> wabs s ++ bits_of (Z.to_nat w) v /\
    length (wabs (write_fixed s v w)) = (length (wabs s) + 2 * Z.to_nat w - 32)%nat.
Proof. exact write_fixed_wide_refuted. Qed.
Print Assumptions c18_write_fixed_wide_refuted.

(* Align32: afterwards no pending bits, data a multiple of 4 bytes, position a multiple of 32 *)
Theorem c18_align32_inv : forall s, Inv s ->
  wbits (align32 s) = 0 /\ Z.of_nat (length (wdata (align32 s))) mod 4 = 0 /\ wpos (align32 s) mod 32 = 0.
Proof. exact align32_inv. Qed.
Print Assumptions c18_align32_inv.

(* every block body starts 32-bit aligned (EnterBlock) ... *)
Theorem c18_block_body_aligned : forall s w id nw, Inv s -> waw s = Z.of_nat w -> (2 <= w <= 32)%nat ->
  u64 id -> (2 <= nw <= 32)%nat ->
  exists s1, enter_block s id (Z.of_nat nw) = Some s1 /\ wbits s1 = 0 /\ wpos s1 mod 32 = 0 /\ Inv s1.
Proof. exact block_body_aligned. Qed.
Print Assumptions c18_block_body_aligned.

(* ... and ExitBlock back-patches the number of 32-bit words written since EnterBlock *)
Theorem c18_block_len_correct : forall s nw oaw rest D B, Inv s -> waw s = Z.of_nat nw -> (2 <= nw <= 32)%nat ->
  wblocks s = (oaw, Z.of_nat (length D)) :: rest -> wdata s = D ++ [0; 0; 0; 0] ++ B ->
  Z.of_nat (length D) mod 4 = 0 ->
  exists s' body, exit_block s = Some s' /\
    wdata s' = D ++ le32 ((Z.of_nat (length body) / 4) mod BitstreamModel.two32) ++ body /\
    firstn (length B) body = B /\
    Z.of_nat (length body) mod 4 = 0 /\
    wbits s' = 0 /\ waw s' = oaw /\ wblocks s' = rest /\
    (Z.of_nat (length body) / 4 < BitstreamModel.two32 ->
     4 * le_val (firstn 4 (skipn (length D) (wdata s'))) = Z.of_nat (length (wdata s')) - Z.of_nat (length D) - 4).
Proof. exact block_len_correct. Qed.
Print Assumptions c18_block_len_correct.

(* the machine, with its placeholder-and-back-patch, writes exactly the abstract
   encoding of every tree of records and nested blocks (operands any uint64) *)
Theorem c18_writer_refines_encoder : forall x s w, Inv s -> waw s = Z.of_nat w -> (2 <= w <= 32)%nat -> item_mwf x ->
  exists s', run_ops s (ops_of_item x) = Some s' /\ appends s s' (enc_item w (wpos s) x).
Proof. intros x. exact (item_run_all x). Qed.
Print Assumptions c18_writer_refines_encoder.

Theorem c18_serialize_refines : forall l, items_mwf l ->
  exists bytes, serialize_tree l = Some bytes /\
    bits_of_bytes bytes = enc_stream l ++ zeros (padlen (Z.of_nat (length (enc_stream l)))) /\
    Z.of_nat (length bytes) mod 4 = 0.
Proof. exact serialize_refines. Qed.
Print Assumptions c18_serialize_refines.

(* ---- streams ---- *)

(* read_stream (write_stream tree) = tree, for ALL trees of records and nested blocks
   with abbreviation widths in [2,32], non-negative operands of any size, and block
   bodies shorter than 2^32 words *)
Theorem c18_stream_roundtrip : forall l, items_wf l -> items_fits 2 32 l -> dec_stream (enc_stream l) = Ok l.
Proof. exact stream_roundtrip. Qed.
Print Assumptions c18_stream_roundtrip.

(* soundness of the reader: whatever it accepts is exactly the canonical encoding of the
   tree it returns (magic, abbreviation ids 0/1/3 only, canonical VBRs, zero padding to
   32-bit boundaries, every block length word = body length in words, widths in [2,32]) *)
Theorem c18_stream_reader_sound : forall bs l, dec_stream bs = Ok l ->
  bs = enc_stream l /\ items_wf l /\ items_fits 2 32 l.
Proof. exact dec_stream_sound. Qed.
Print Assumptions c18_stream_reader_sound.

Theorem c18_vbr_reader_sound : forall w r v r', (2 <= w)%nat -> read_vbr w r = Some (v, r') ->
  0 <= v /\ snd r = enc_vbr w v ++ snd r' /\ fst r' = fst r + Z.of_nat (length (enc_vbr w v)).
Proof. exact read_vbr_sound. Qed.
Print Assumptions c18_vbr_reader_sound.

(* end to end: the reader applied to the bytes the writer machine produced returns the tree *)
Theorem c18_writer_reader_roundtrip : forall l, items_mwf l -> forallb is_block l = true -> items_fits 2 32 l ->
  exists bytes, serialize_tree l = Some bytes /\ dec_bytes bytes = Ok l.
Proof. exact writer_reader_roundtrip. Qed.
Print Assumptions c18_writer_reader_roundtrip.

(* ---- DXBC container ---- *)

Theorem c18_dxbc_roundtrip : forall d ps, length d = 16%nat -> Forall byte d -> Forall part_ok ps ->
  total_size ps < DxbcModel.two32 -> parse (build d ps) = Some (d, ps).
Proof. exact dxbc_roundtrip. Qed.
Print Assumptions c18_dxbc_roundtrip.

(* whatever the parser accepts IS the canonical container of the parsed parts *)
Theorem c18_dxbc_parse_sound : forall b d ps, parse b = Some (d, ps) ->
  b = build d ps /\ length d = 16%nat /\ Forall byte d /\ Forall part_ok ps /\
  total_size ps = zlen b /\ total_size ps < DxbcModel.two32.
Proof. exact parse_sound. Qed.
Print Assumptions c18_dxbc_parse_sound.

Theorem c18_dxbc_sizes_consistent : forall d ps, length d = 16%nat ->
  let offs := part_offsets (header_size (zlen ps)) ps in
  zlen (build d ps) = total_size ps /\
  length offs = length ps /\
  offsets_chain offs ps /\
  Forall2 (fun o p => header_size (zlen ps) <= o /\ o + 8 + zlen (p_data p) <= total_size ps) offs ps /\
  (forall o offs', offs = o :: offs' -> o = 32 + 4 * zlen ps).
Proof. exact dxbc_sizes_consistent. Qed.
Print Assumptions c18_dxbc_sizes_consistent.

Theorem c18_parsed_sizes_consistent : forall b d ps, parse b = Some (d, ps) ->
  b = build d ps /\ zlen b = total_size ps /\
  offsets_chain (part_offsets (header_size (zlen ps)) ps) ps /\
  Forall2 (fun o p => header_size (zlen ps) <= o /\ o + 8 + zlen (p_data p) <= zlen b)
          (part_offsets (header_size (zlen ps)) ps) ps.
Proof. exact parsed_sizes_consistent. Qed.
Print Assumptions c18_parsed_sizes_consistent.

(* writing a digest into bytes 4..20 changes nothing else *)
Theorem c18_set_digest : forall d d' ps, length d = 16%nat -> length d' = 16%nat ->
  set_digest d' (build d ps) = build d' ps.
Proof. exact set_digest_build. Qed.
Print Assumptions c18_set_digest.

(* program header: stage kind and shader model survive AddDXILPart / AddSTATPart *)
Theorem c18_program_header_roundtrip : forall k ma mi bc, program_ok k ma mi bc ->
  parse_program (program_bytes k ma mi bc) = Some (mkProg k ma mi mi bc).
Proof. exact program_header_roundtrip. Qed.
Print Assumptions c18_program_header_roundtrip.

Theorem c18_program_header_sound : forall dt g, parse_program dt = Some g -> Forall byte dt ->
  zlen dt = 24 + zlen (pg_bitcode g) /\ zlen (pg_bitcode g) mod 4 = 0 /\
  0 <= pg_minor g < 16 /\ 0 <= pg_major g < 4096 /\ 0 <= pg_kind g < 65536 /\
  exists ver dver, dt = le32 ver ++ le32 ((24 + zlen (pg_bitcode g)) / 4) ++ le32 1279875140 ++ le32 dver ++
                        le32 16 ++ le32 (zlen (pg_bitcode g)) ++ pg_bitcode g /\
                   ver = pg_kind g * 65536 + pg_major g * 16 + pg_minor g /\ dver = 256 + pg_dxil_minor g.
Proof. exact program_header_sound. Qed.
Print Assumptions c18_program_header_sound.

(* ---- hash fields ---- *)

(* the digest ComputeRetailHash stores is the retail hash of bytes 20..end of the
   final container, and the checker classifies it as such *)
Theorem c18_hash_verifies : forall steps d ps, length d = 16%nat ->
  exists d', compute_retail_hash steps (build d ps) = build d' ps /\ length d' = 16%nat /\
             d' = retail_md5 steps (skipn 20 (build d' ps)) /\
             classify_digest steps (build d' ps) d' = DRetail.
Proof. exact retail_hash_verifies. Qed.
Print Assumptions c18_hash_verifies.

Theorem c18_bypass_hash : forall d ps, length d = 16%nat ->
  set_bypass_hash (build d ps) = build bypass_digest ps.
Proof. exact bypass_hash_verifies. Qed.
Print Assumptions c18_bypass_hash.

(* ---- the checker run on real output (tie V) ---- *)

(* an accepted container is the canonical serialization of its parts; a "retail"
   verdict means the digest field equals the retail hash of bytes 20..end; an accepted
   HASH part is MD5 of the bitcode; an accepted stream is what the verified reader
   returns and its bits are the canonical encoding of that tree; an accepted index check means every collected reference is in range *)
Theorem c18_check_container_sound : forall steps b r, check_container steps b = Some r ->
  exists d ps,
    parse b = Some (d, ps) /\ b = build d ps /\ zlen b = total_size ps /\ length d = 16%nat /\
    r_parts r = map (fun p => (p_fourcc p, zlen (p_data p))) ps /\
    (r_digest r = DRetail -> d = retail_md5 steps (skipn 20 b)) /\
    (r_digest r = DBypass -> d = bypass_digest) /\
    (r_hash_part_ok r = true ->
       exists pd a h, find_part FourCC_DXIL ps = Some pd /\ parse_program (p_data pd) = Some a /\
                      find_part FourCC_HASH ps = Some h /\ p_data h = [0; 0; 0; 0] ++ md5 steps (pg_bitcode a)) /\
    (forall l, r_stream r = Ok l ->
       exists pd a, find_part FourCC_DXIL ps = Some pd /\ parse_program (p_data pd) = Some a /\ dec_bytes (pg_bitcode a) = Ok l /\
                    bits_of_bytes (pg_bitcode a) = enc_stream l /\ items_wf l /\ items_fits 2 32 l) /\
    (r_meta r = Some (Some None) ->
       exists l refs, r_stream r = Ok l /\ meta_refs l = Some refs /\ Forall ref_in_range refs).
Proof. exact check_container_sound. Qed.
Print Assumptions c18_check_container_sound.

(* index checker: acceptance means one MODULE block and all collected type / value /
   basic-block / metadata / attribute references within their bounds *)
Theorem c18_meta_check_sound : forall l, meta_ok l = true ->
  exists id aw body refs, l = [Blk id aw body] /\ id = 8 /\ meta_refs l = Some refs /\ Forall ref_in_range refs.
Proof. exact meta_check_sound. Qed.
Print Assumptions c18_meta_check_sound.

Theorem c18_meta_check_complete : forall l r, meta_check l = Some (Some r) ->
  exists refs, meta_refs l = Some refs /\ In r refs /\ ~ ref_in_range r.
Proof. exact meta_check_complete. Qed.
Print Assumptions c18_meta_check_complete.

(* ---- interface parts: PSV0 against itself and against ISG1 / OSG1 / PSG1 ---- *)

(* the permutation test of the checker: accepted = same elements in some order *)
Theorem c18_perm_check_sound : forall a b, perm_check a b = true -> Permutation.Permutation a b.
Proof. exact perm_check_sound. Qed.
Print Assumptions c18_perm_check_sound.

(* when the element rules accept and PSV0 stores signature elements: every element lies inside its
   row(s), SigInputVectors / SigOutputVectors[stream] equal the highest row reached by an allocated element of
   the signature (so no allocated element sits above the declared count, and the count is not larger than
   needed), no two allocated elements claim one lane of one row, and the PSV0 elements are - up to order -
   the ISG1 / OSG1 / PSG1 elements in stream, register row, component lanes, component type and semantic
   index; when PSV0 stores no elements its vector counts are zero *)
Theorem c18_sig_rules_sound : forall isg osg psg pv, sig_rules isg osg psg pv = None ->
  (psv_declares_elements pv = true ->
     sig_consistent (psv_sigs_of pv) (sig_part_elems isg) (sig_part_elems osg)
                    (match psg with Some d => Some (sig_part_elems d) | None => None end)) /\
  (psv_declares_elements pv = false ->
     ps_vin (psv_sigs_of pv) = 0 /\ Forall (fun v => v = 0) (ps_vouts (psv_sigs_of pv))).
Proof. exact sig_rules_sound. Qed.
Print Assumptions c18_sig_rules_sound.

(* the same, from the report of the checker that is run on real output *)
Theorem c18_check_container_sig_sound : forall steps b r, check_container steps b = Some r -> snd (r_sig r) = None ->
  exists d ps pi po pv,
    parse b = Some (d, ps) /\ b = build d ps /\
    find_part FourCC_ISG1 ps = Some pi /\ find_part FourCC_OSG1 ps = Some po /\ find_part FourCC_PSV0 ps = Some pv /\
    let psg := match find_part FourCC_PSG1 ps with Some pp => Some (sig_part_elems (p_data pp)) | None => None end in
    (psv_declares_elements (p_data pv) = true ->
       sig_consistent (psv_sigs_of (p_data pv)) (sig_part_elems (p_data pi)) (sig_part_elems (p_data po)) psg) /\
    (psv_declares_elements (p_data pv) = false ->
       ps_vin (psv_sigs_of (p_data pv)) = 0 /\ Forall (fun v => v = 0) (ps_vouts (psv_sigs_of (p_data pv)))).
Proof. exact check_container_sig_sound. Qed.
Print Assumptions c18_check_container_sig_sound.

(* ---- non-vacuity: concrete non-trivial instances of the hypotheses ---- *)

Definition ex_tree : list item :=
  [Blk 8 3 [Rec 1 [1]; Blk 0 2 [];
            Blk 17 4 [Rec 1 [3]; Rec 7 [32]; Rec 21 [0; 1; 0; 18446744073709551615]];
            Rec 2 [100; 120; 105; 108]; Blk 12 4 [Rec 1 [1]; Rec 10 []]]].

Example c18_example_tree :
  items_mwf ex_tree /\ items_wf ex_tree /\ items_fits 2 32 ex_tree /\ forallb is_block ex_tree = true /\
  (exists bytes, serialize_tree ex_tree = Some bytes /\ dec_bytes bytes = Ok ex_tree /\ length bytes = 88%nat).
Proof.
  assert (M : items_mwf ex_tree).
  { unfold ex_tree. cbn [items_mwf item_mwf length]. unfold u64, two64.
    repeat match goal with
    | |- _ /\ _ => split
    | |- Forall _ _ => constructor
    | |- True => exact I
    | |- _ => lia
    end. }
  assert (F : items_fits 2 32 ex_tree) by (vm_compute; repeat split; reflexivity).
  split; [exact M|]. split; [apply mwf_wf; exact M|]. split; [exact F|]. split; [reflexivity|].
  eexists. split; [vm_compute; reflexivity|]. split; vm_compute; reflexivity.
Qed.

Example c18_example_container :
  let bc := [66; 67; 192; 222; 33; 12; 0; 0] in
  let ps := [features_part 0; hash_part; dxil_part 1 6 0 bc] in
  Forall part_ok ps /\ total_size ps < DxbcModel.two32 /\ program_ok 1 6 0 bc /\
  parse (build (repeat 0 16%nat) ps) = Some (repeat 0 16%nat, ps) /\ zlen (build (repeat 0 16%nat) ps) = 128.
Proof.
  cbv zeta. split.
  - repeat constructor; unfold part_ok, byte, DxbcModel.two32; cbn; repeat (split; try lia; try constructor); try lia.
  - split; [vm_compute; reflexivity|]. split; [unfold program_ok, DxbcModel.two32; cbn; lia|].
    split; vm_compute; reflexivity.
Qed.


(* the interface parts dxil.Compile returns for
     @fragment fn main(@location(0) a: vec3<f32>, @location(1) b: vec3<f32>, @location(2) c: f32) -> @location(0) vec4<f32>
   (as a struct): location 2 is packed back into lane w of row 0 after location 1 took row 1.  The rules accept
   it, PSV0 stores elements, two input vectors are declared; with SigInputVectors lowered to 1 (what a
   "row of the last element" counter would write) the rules reject it. *)
Definition ex_isg1 : list Z :=
  [3; 0; 0; 0; 8; 0; 0; 0; 0; 0; 0; 0; 104; 0; 0; 0; 0; 0; 0; 0; 0; 0; 0; 0; 3; 0; 0; 0; 0; 0; 0; 0; 7; 7; 0; 0; 0; 0; 0; 0; 0; 0; 0; 0; 104; 0; 0; 0; 2; 0; 0; 0; 0; 0; 0; 0; 3; 0; 0; 0; 0; 0; 0; 0; 8; 8; 0; 0; 0; 0; 0; 0; 0; 0; 0; 0; 104; 0; 0; 0; 1; 0; 0; 0; 0; 0; 0; 0; 3; 0; 0; 0; 1; 0; 0; 0; 7; 7; 0; 0; 0; 0; 0; 0; 76; 79; 67; 0].
Definition ex_osg1 : list Z :=
  [1; 0; 0; 0; 8; 0; 0; 0; 0; 0; 0; 0; 40; 0; 0; 0; 0; 0; 0; 0; 64; 0; 0; 0; 3; 0; 0; 0; 0; 0; 0; 0; 15; 0; 0; 0; 0; 0; 0; 0; 83; 86; 95; 84; 97; 114; 103; 101; 116; 0; 0; 0].
Definition ex_psv0 : list Z :=
  [52; 0; 0; 0; 0; 0; 0; 0; 0; 0; 0; 0; 0; 0; 0; 0; 0; 0; 0; 0; 0; 0; 0; 0; 255; 255; 255; 255; 0; 0; 0; 0; 3; 1; 0; 2; 1; 0; 0; 0; 0; 0; 0; 0; 0; 0; 0; 0; 0; 0; 0; 0; 1; 0; 0; 0; 0; 0; 0; 0; 20; 0; 0; 0; 0; 109; 97; 105; 110; 0; 76; 79; 67; 0; 76; 79; 67; 0; 76; 79; 67; 0; 0; 0; 3; 0; 0; 0; 0; 0; 0; 0; 1; 0; 0; 0; 2; 0; 0; 0; 16; 0; 0; 0; 6; 0; 0; 0; 0; 0; 0; 0; 1; 0; 67; 0; 3; 2; 0; 0; 10; 0; 0; 0; 1; 0; 0; 0; 1; 1; 67; 0; 3; 2; 0; 0; 14; 0; 0; 0; 2; 0; 0; 0; 1; 0; 113; 0; 3; 2; 0; 0; 0; 0; 0; 0; 0; 0; 0; 0; 1; 0; 68; 16; 3; 0; 0; 0; 1; 0; 0; 0; 2; 0; 0; 0; 4; 0; 0; 0; 8; 0; 0; 0; 1; 0; 0; 0; 2; 0; 0; 0; 4; 0; 0; 0; 0; 0; 0; 0].

Example c18_example_interface :
  sig_rules ex_isg1 ex_osg1 None ex_psv0 = None /\ psv_declares_elements ex_psv0 = true /\
  ps_vin (psv_sigs_of ex_psv0) = 2 /\
  map (fun e => (pe_start_row e, pe_start_col e, pe_cols e)) (ps_ins (psv_sigs_of ex_psv0)) = [(0, 0, 3); (1, 0, 3); (0, 3, 1)] /\
  map (fun e => (se_reg e, se_mask e)) (sig_part_elems ex_isg1) = [(0, 7); (0, 8); (1, 7)] /\
  (let bad := firstn 35 ex_psv0 ++ [1] ++ skipn 36 ex_psv0 in
   sig_rules ex_isg1 ex_osg1 None bad <> None /\
   ps_vin (psv_sigs_of bad) = 1 /\ max_top (ps_ins (psv_sigs_of bad)) = 2).
Proof. repeat split; try (vm_compute; reflexivity). vm_compute. discriminate. Qed.
