(* Property C14: pipeline-overridable constants behave as substituted WGSL constants.

   Specification: Overrides/Spec.v ([subst_overrides], [spec_binop], [spec_unop]: WGSL
   semantics on Base/Bits32 and Flocq binary32).  Implementation model: Overrides/Model.v
   (a transliteration of lower.go's override lowering, ir/process_overrides.go and the MSL
   pipeline_constants.go), tied to /repo on every run by Overrides/GenOblig.v over the
   regenerated Gen/OverrideOps.v and by the model/implementation correspondence of
   checks/c14.py.

   [model_binop o t a b] is what the override evaluator makes of `a o b` for operands a, b
   already of their WGSL types (float64 arithmetic of EvalBinaryFloat, then
   makeOverrideLiteral at type t); [spec_binop o a b] is the WGSL value.

   Sound: + - * / unary- ~ ! on i32/u32/bool for ALL operands (hypotheses = the stated
   no-overflow / exactness conditions); + - * / on f32 up to the sign of a zero result
   (`_partial`).  Refuted (witnesses = findings): every other operator, overflow, division
   by zero, NaN/out-of-range supplied values, unconverted supplied values seen by derived
   overrides, dropped defaults, workgroup sizes, the MSL path's silent failures, and the
   caller's module being altered through storage the clone shares. *)
From Coq Require Import ZArith Bool List String Reals.
From Flocq Require Import Core.Core IEEE754.BinarySingleNaN.
Import ListNotations.
Require Import Naga.Base.Bits32 Naga.Overrides.F64 Naga.Overrides.Spec Naga.Overrides.Model
               Naga.Overrides.FloatProofs Naga.Overrides.FloatProofs32 Naga.Overrides.FloatLink
               Naga.Overrides.Proofs Naga.Overrides.FloatDiv Naga.Overrides.DivProofs Naga.Overrides.GenOblig.
Open Scope Z_scope.

(* ================= operators the evaluator gets right (all operand values) ================= *)
Theorem override_eval_sound_add_i32 : forall p q, in32 p -> in32 q -> - H32 <= sgn p + sgn q < H32 ->
  spec_binop Add (VI32 p) (VI32 q) = Ok (model_binop Add TI32 (VI32 p) (VI32 q)).
Proof. exact sound_add_i32. Qed.
Print Assumptions override_eval_sound_add_i32.

Theorem override_eval_sound_sub_i32 : forall p q, in32 p -> in32 q -> - H32 <= sgn p - sgn q < H32 ->
  spec_binop Sub (VI32 p) (VI32 q) = Ok (model_binop Sub TI32 (VI32 p) (VI32 q)).
Proof. exact sound_sub_i32. Qed.

Theorem override_eval_sound_mul_i32 : forall p q, in32 p -> in32 q -> - H32 <= sgn p * sgn q < H32 ->
  spec_binop Mul (VI32 p) (VI32 q) = Ok (model_binop Mul TI32 (VI32 p) (VI32 q)).
Proof. exact sound_mul_i32. Qed.

Theorem override_eval_sound_neg_i32 : forall p, in32 p ->
  spec_unop UNeg (VI32 p) = Ok (model_unop UNeg TI32 (VI32 p)).
Proof. exact sound_neg_i32. Qed.

Theorem override_eval_sound_add_u32 : forall p q, in32 p -> in32 q ->
  spec_binop Add (VU32 p) (VU32 q) = Ok (model_binop Add TU32 (VU32 p) (VU32 q)).
Proof. exact sound_add_u32. Qed.

Theorem override_eval_sound_sub_u32 : forall p q, in32 p -> in32 q ->
  spec_binop Sub (VU32 p) (VU32 q) = Ok (model_binop Sub TU32 (VU32 p) (VU32 q)).
Proof. exact sound_sub_u32. Qed.

(* partial: exact while the product stays below 2^53 (wrap-around up to there is right) *)
Theorem override_eval_sound_mul_u32_partial : forall p q, in32 p -> in32 q -> p * q < P53 ->
  spec_binop Mul (VU32 p) (VU32 q) = Ok (model_binop Mul TU32 (VU32 p) (VU32 q)).
Proof. exact sound_mul_u32. Qed.

(* integer division: all operands with a non-zero divisor (INT_MIN / -1 excluded: WGSL makes
   it, like x / 0, a pipeline-creation error in an override-expression) *)
Theorem override_eval_sound_div_i32 : forall p q, in32 p -> in32 q -> q <> 0 ->
  ~ (p = INT_MIN_BITS /\ q = ALL_ONES) ->
  spec_binop Div (VI32 p) (VI32 q) = Ok (model_binop Div TI32 (VI32 p) (VI32 q)).
Proof. exact sound_div_i32. Qed.

Theorem override_eval_sound_div_u32 : forall p q, in32 p -> in32 q -> q <> 0 ->
  spec_binop Div (VU32 p) (VU32 q) = Ok (model_binop Div TU32 (VU32 p) (VU32 q)).
Proof. exact sound_div_u32. Qed.

Theorem override_eval_sound_bitnot_i32 : forall p, in32 p ->
  spec_unop UBitNot (VI32 p) = Ok (model_unop UBitNot TI32 (VI32 p)).
Proof. exact sound_bitnot_i32. Qed.

Theorem override_eval_sound_bitnot_u32 : forall p, in32 p ->
  spec_unop UBitNot (VU32 p) = Ok (model_unop UBitNot TU32 (VU32 p)).
Proof. exact sound_bitnot_u32. Qed.

Theorem override_eval_sound_not_bool : forall b,
  spec_unop UNot (VBool b) = Ok (model_unop UNot TBool (VBool b)).
Proof. exact sound_not_bool. Qed.

(* f32: float32(float64(a) op float64(b)) has the value of the correctly rounded binary32
   operation whenever that is finite (double rounding is innocuous); partial: real value and
   finiteness, not the sign of a zero result *)
Theorem override_eval_sound_add_f32_partial : forall a b : f32, is_finite a = true -> is_finite b = true ->
  (Rabs (R32 (B2R a + B2R b)) < bpow radix2 128)%R ->
  same_f32_value (model_binop Add TF32 (VF32 a) (VF32 b)) (spec_binop Add (VF32 a) (VF32 b)).
Proof. exact sound_add_f32. Qed.

Theorem override_eval_sound_sub_f32_partial : forall a b : f32, is_finite a = true -> is_finite b = true ->
  (Rabs (R32 (B2R a - B2R b)) < bpow radix2 128)%R ->
  same_f32_value (model_binop Sub TF32 (VF32 a) (VF32 b)) (spec_binop Sub (VF32 a) (VF32 b)).
Proof. exact sound_sub_f32. Qed.

Theorem override_eval_sound_mul_f32_partial : forall a b : f32, is_finite a = true -> is_finite b = true ->
  (Rabs (R32 (B2R a * B2R b)) < bpow radix2 128)%R ->
  same_f32_value (model_binop Mul TF32 (VF32 a) (VF32 b)) (spec_binop Mul (VF32 a) (VF32 b)).
Proof. exact sound_mul_f32. Qed.

Theorem override_eval_sound_div_f32_partial : forall a b : f32, is_finite a = true -> is_finite b = true ->
  B2R b <> 0%R -> (Rabs (R32 (B2R a / B2R b)) < bpow radix2 128)%R ->
  same_f32_value (model_binop Div TF32 (VF32 a) (VF32 b)) (spec_binop Div (VF32 a) (VF32 b)).
Proof. exact sound_div_f32. Qed.
Print Assumptions override_eval_sound_div_f32_partial.

(* ================= operators the evaluator gets wrong ================= *)
(* every operator outside + - * /, on every operand type WGSL defines it for *)
Theorem override_eval_unimplemented_refuted : forall o t, implemented o = false -> applicable o t = true ->
  exists a b, type_of a = t /\ is_ok (spec_binop o a b) = true /\
              agrees (model_binop o (result_ty o t) a b) (spec_binop o a b) = false.
Proof. exact unimplemented_refuted. Qed.
Print Assumptions override_eval_unimplemented_refuted.

Theorem override_eval_sound_mod_i32_refuted : exists p q, in32 p /\ in32 q /\
  spec_binop Mod (VI32 p) (VI32 q) = Ok (VI32 3) /\ model_binop Mod TI32 (VI32 p) (VI32 q) = VI32 0.
Proof. exact mod_i32_refuted. Qed.
Theorem override_eval_sound_gt_i32_refuted : exists p q, in32 p /\ in32 q /\
  spec_binop Gt (VI32 p) (VI32 q) = Ok (VBool true) /\ model_binop Gt TBool (VI32 p) (VI32 q) = VBool false.
Proof. exact gt_i32_refuted. Qed.
Theorem override_eval_sound_shl_u32_refuted : exists p q, in32 p /\ in32 q /\
  spec_binop Shl (VU32 p) (VU32 q) = Ok (VU32 8) /\ model_binop Shl TU32 (VU32 p) (VU32 q) = VU32 0.
Proof. exact shl_u32_refuted. Qed.
Theorem override_eval_add_i32_overflow_refuted : exists p q, in32 p /\ in32 q /\
  spec_binop Add (VI32 p) (VI32 q) = Ok (VI32 2147483649) /\ model_binop Add TI32 (VI32 p) (VI32 q) = VI32 2147483648.
Proof. exact add_i32_overflow_refuted. Qed.
Theorem override_eval_mul_u32_above_2p53_refuted : exists p q, in32 p /\ in32 q /\
  agrees (model_binop Mul TU32 (VU32 p) (VU32 q)) (spec_binop Mul (VU32 p) (VU32 q)) = false.
Proof. exact mul_u32_large_refuted. Qed.
Theorem override_eval_div_by_zero_not_reported_refuted : exists p, in32 p /\
  spec_binop Div (VI32 p) (VI32 0) = Err EDiag /\ model_binop Div TI32 (VI32 p) (VI32 0) = VI32 0.
Proof. exact div_by_zero_not_reported. Qed.

(* ================= lookup, missing values, derived overrides ================= *)
Theorem lookup_id_before_name : forall m d i vi,
  g_id d = Some i -> assoc_s (dec_string i) m = Some vi ->
  forall resolved, resolve_one m resolved d = Some (f64_of_bits vi).
Proof. exact Proofs.lookup_id_before_name. Qed.

Theorem override_missing_is_error : forall ds m d,
  In d ds -> find_value m d = None -> g_init d = None -> process ds m = None.
Proof. exact Proofs.override_missing_is_error. Qed.

Theorem override_error_only_when_missing : forall ds m,
  (forall d, In d ds -> find_value m d <> None \/ g_init d <> None) -> process ds m <> None.
Proof. exact process_total. Qed.

Theorem derived_overrides_topological : forall m ds vs,
  resolve_all m ds = Some vs ->
  List.length vs = List.length ds /\
  forall i d, nth_error ds i = Some d -> nth_error vs i = resolve_one m (firstn i vs) d.
Proof. exact Proofs.derived_overrides_topological. Qed.

Theorem derived_override_gets_resolved_value : forall m ds vs i d k,
  resolve_all m ds = Some vs -> nth_error ds i = Some d ->
  find_value m d = None -> g_init d = Some (GOvr k) -> (k < i)%nat ->
  nth_error vs i = Some (nth k vs f64_zero).
Proof. exact derived_ref_gets_value. Qed.

(* ... the RAW supplied float64 (3.7 for an i32), not the converted value (3) *)
Theorem derived_override_sees_converted_value_refuted :
  subst_overrides ex_decls [("a"%string, bits_3_7)] = Ok [VI32 3; VI32 6] /\
  process (lower ex_decls) [("a"%string, bits_3_7)] = Some [GI32 3; GI32 7].
Proof. exact derived_sees_unconverted_value_refuted. Qed.

Theorem nan_for_numeric_override_is_error_refuted :
  subst_overrides [mkDecl "a" None (Some TI32) (Some (ELit (LInt 7 SNone)))] [("a"%string, nan_bits)] = Err EConv /\
  process (lower [mkDecl "a" None (Some TI32) (Some (ELit (LInt 7 SNone)))]) [("a"%string, nan_bits)] = Some [GI32 2147483648].
Proof. exact nan_taken_as_value_refuted. Qed.

Theorem unconvertible_value_is_error_refuted :
  subst_overrides [mkDecl "a" None (Some TU32) None] [("a"%string, 13830554455654793216)] = Err EConv /\
  process (lower [mkDecl "a" None (Some TU32) None]) [("a"%string, 13830554455654793216)] = Some [GU32 4294967295].
Proof. exact out_of_range_value_not_rejected_refuted. Qed.

Theorem default_with_const_reference_refuted :
  let d := mkDecl "a" None (Some TI32) (Some (EConst TI32 (LInt 4 SNone))) in
  subst_overrides [d] [] = Ok [VI32 4] /\ process (lower [d]) [] = None.
Proof. exact const_ref_default_dropped_refuted. Qed.

Theorem default_integer_literal_exact_refuted :
  let d := mkDecl "a" None (Some TI32) (Some (ELit (LInt 16777217 SNone))) in
  subst_overrides [d] [] = Ok [VI32 16777217] /\ process (lower [d]) [] = Some [GI32 16777216].
Proof. exact int_literal_above_2p24_refuted. Qed.

Theorem workgroup_size_from_override_refuted :
  subst_expr [VU32 64] None (ERef 0) = Ok (VU32 64) /\ lower_wg (ERef 0) = 1.
Proof. exact workgroup_size_override_ignored_refuted. Qed.

Theorem msl_missing_is_error_refuted :
  subst_overrides [mkDecl "a" None (Some TI32) None] [] = Err EMissing /\
  msl_resolve (lower [mkDecl "a" None (Some TI32) None]) [] = [None].
Proof. exact msl_missing_not_error_refuted. Qed.

(* ================= the caller's module ================= *)
(* storage classes the clone owns are safe ... *)
Theorem process_preserves_original_partial : forall s w l,
  mem_loc l leaked = false -> after_process s w l = s l.
Proof. exact Proofs.process_preserves_original_partial. Qed.

(* ... but nested blocks, pointer fields of statements, call-argument slices and the pointer
   fields of image expressions are shared with the caller and written in place *)
Theorem leaked_locations : leaked = [LNestedBlocks; LStmtPtrs; LCallArgs; LExprPtrs].
Proof. exact Proofs.leaked_locations. Qed.
Theorem process_preserves_original_refuted : exists s w l, after_process s w l <> s l.
Proof. exact Proofs.process_preserves_original_refuted. Qed.
Print Assumptions process_preserves_original_refuted.

(* ================= non-vacuity ================= *)
Example c14_example_i32 :
  in32 4294967289 /\ in32 4 /\ - H32 <= sgn 4294967289 * sgn 4 < H32 /\          (* -7 * 4 *)
  spec_binop Mul (VI32 4294967289) (VI32 4) = Ok (VI32 4294967268) /\
  model_binop Mul TI32 (VI32 4294967289) (VI32 4) = VI32 4294967268.
Proof. unfold in32, M32, H32. repeat split; try (vm_compute; congruence); vm_compute; reflexivity. Qed.

Example c14_example_f32 :        (* 0.1f + 0.2f *)
  let a := f32_of_bits 1036831949 in let b := f32_of_bits 1045220557 in
  is_finite a = true /\ is_finite b = true /\
  agrees (model_binop Add TF32 (VF32 a) (VF32 b)) (spec_binop Add (VF32 a) (VF32 b)) = true.
Proof. vm_compute. repeat split; reflexivity. Qed.

Example c14_example_derived :     (* a = 9 by @id (name entry 100 ignored), b = a + 1 *)
  let ds := [mkDecl "a" (Some 5) (Some TI32) (Some (ELit (LInt 7 SNone)));
             mkDecl "b" None (Some TI32) (Some (EBin Add (ERef 0) (ELit (LInt 1 SNone))))] in
  let m := [("a"%string, 4636737291354636288); ("5"%string, 4621256167635550208)] in
  subst_overrides ds m = Ok [VI32 9; VI32 10] /\ process (lower ds) m = Some [GI32 9; GI32 10].
Proof. vm_compute. split; reflexivity. Qed.
