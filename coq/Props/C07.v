(* Property C07: buffer memory layout is the WGSL layout, in the IR and in every backend.
   All statements quantify over the unbounded grammar of host-shareable types
   (Layout/Spec.v: scalars, vectors, matrices, atomics, fixed and runtime-sized arrays,
   structures with optional @align/@size per member). *)
From Coq Require Import List ZArith Bool.
Import ListNotations.
Require Import Naga.Layout.Spec Naga.Layout.Constraints Naga.Layout.Naga Naga.Layout.Hlsl Naga.Layout.Glsl
  Naga.Layout.Spv Naga.Layout.Msl Naga.Layout.Arith Naga.Layout.SpecProofs Naga.Layout.NagaProofs Naga.Layout.HlslProofs
  Naga.Layout.GlslProofs Naga.Layout.MslProofs.
Open Scope Z_scope.

(* ---- the WGSL layout itself is well-formed ---- *)

Theorem offsets_aligned : forall ms i o m, wf (TStruct ms) = true ->
  nth_error (member_offsets ms) i = Some o -> nth_error ms i = Some m ->
  (fst (member_info m) | o).
Proof. exact offsets_aligned_lemma. Qed.
Print Assumptions offsets_aligned.

Theorem members_disjoint : forall ms i j oi oj mi mj, wf (TStruct ms) = true -> (i < j)%nat ->
  nth_error (member_offsets ms) i = Some oi -> nth_error ms i = Some mi ->
  nth_error (member_offsets ms) j = Some oj -> nth_error ms j = Some mj ->
  oi + snd (member_info mi) <= oj.
Proof. exact members_disjoint_lemma. Qed.
Print Assumptions members_disjoint.

Theorem members_inside : forall ms i o m, wf (TStruct ms) = true ->
  nth_error (member_offsets ms) i = Some o -> nth_error ms i = Some m ->
  0 <= o /\ o + snd (member_info m) <= size_of (TStruct ms).
Proof. exact members_inside_lemma. Qed.
Print Assumptions members_inside.

(* for structures (and arrays: stride and size); false for vec3 by the WGSL table (size 12, align 16) *)
Theorem size_multiple_of_align : forall ms, wf (TStruct ms) = true ->
  (align_of (TStruct ms) | size_of (TStruct ms)).
Proof. exact struct_size_multiple_of_align. Qed.
Print Assumptions size_multiple_of_align.

Theorem stride_multiple_of_align : forall e, wf e = true -> (align_of e | stride_of e).
Proof. exact array_stride_multiple_of_align. Qed.
Print Assumptions stride_multiple_of_align.

(* ---- naga's lowerer ---- *)

(* partial: needs decimal-literal attribute arguments and no nested structure whose
   alignment is changed by @align (both refuted below), and no uint32 overflow *)
Theorem naga_layout_eq_spec_partial : forall t,
  wf t = true -> plain_attrs t = true -> inner_align_inert t = true -> fits t = true ->
  naga_layout t = spec_layout t.
Proof. exact NagaProofs.naga_layout_eq_spec_partial. Qed.
Print Assumptions naga_layout_eq_spec_partial.

Theorem ir_type_size_eq : forall t,
  wf t = true -> plain_attrs t = true -> inner_align_inert t = true -> fits t = true ->
  ir_type_size t = size_of t.
Proof. exact NagaProofs.ir_type_size_eq. Qed.
Print Assumptions ir_type_size_eq.

(* struct A { @align(16) x: f32 }  struct B { y: f32, a: A }: a at 4, WGSL says 16 *)
Theorem naga_layout_refuted_nested_align :
  exists t, wf t = true /\ plain_attrs t = true /\ fits t = true /\ naga_layout t <> spec_layout t.
Proof. exact NagaProofs.naga_layout_refuted_nested_align. Qed.
Print Assumptions naga_layout_refuted_nested_align.

(* @align(0x10) and @size(K): silently ignored *)
Theorem naga_layout_refuted_nonliteral_attr :
  (exists t, wf t = true /\ inner_align_inert t = true /\ fits t = true /\ naga_layout t <> spec_layout t) /\
  (exists t, wf t = true /\ inner_align_inert t = true /\ fits t = true /\ naga_layout t <> spec_layout t).
Proof. exact NagaProofs.naga_layout_refuted_nonliteral_attr. Qed.
Print Assumptions naga_layout_refuted_nonliteral_attr.

(* ---- SPIR-V: Offset and ArrayStride decorations are copies of the IR values above;
   MatrixStride is computed and equals the WGSL column distance ---- *)
Theorem spv_matrix_stride_eq_spec : forall c r s, wf (TMat c r s) = true ->
  spv_matrix_stride r s = align_of (TVec r s) /\
  path_offset [1] (TMat c r s) = Some (spv_matrix_stride r s) /\
  c * spv_matrix_stride r s = size_of (TMat c r s).
Proof. exact spv_matrix_stride_eq_spec_lemma. Qed.
Print Assumptions spv_matrix_stride_eq_spec.

(* ---- HLSL: byte addresses of storage-buffer accesses ---- *)

Theorem hlsl_offset_eq_spec_partial : forall p t,
  wf t = true -> plain_attrs t = true -> inner_align_inert t = true -> fits t = true ->
  path_fits p t = true ->
  hlsl_access_offset p t = path_offset p t.
Proof. exact hlsl_offset_eq_spec_lemma. Qed.
Print Assumptions hlsl_offset_eq_spec_partial.

(* ---- GLSL ---- *)

(* storage_compatible = host-shareable and no explicit @align/@size (GLSL cannot express them) *)
Theorem std430_eq_wgsl : forall t, wf t = true -> no_attrs t = true ->
  glsl_layout false t = spec_layout t.
Proof. exact std430_eq_wgsl_lemma. Qed.
Print Assumptions std430_eq_wgsl.

(* uniform blocks: under WGSL's own constraints for the uniform address space (uniform_ok),
   for attribute-free types whose matrices have 16-byte columns (std140_mat_ok: not matCx2,
   not f16), std140 places every member and array element at the WGSL offset.  Sizes of
   nested structures may differ (std140 rounds them up to 16); placements do not. *)
Theorem std140_eq_wgsl : forall t,
  wf t = true -> no_attrs t = true -> uniform_ok t = true -> std140_mat_ok t = true ->
  erase_sizes (glsl_layout true t) = erase_sizes (spec_layout t).
Proof. exact std140_eq_wgsl_lemma. Qed.
Print Assumptions std140_eq_wgsl.

(* ---- MSL ---- *)

(* partial: needs, besides the lowerer's hypotheses, that every vec3 member is followed by no
   gap or by at least one scalar of room (msl_tight; refuted without it below).  The C++
   layout of the emitted definitions places every member and element where the IR (= WGSL)
   layout puts it, sizeof of every structure is its Span and sizeof of every array element
   is the array stride. *)
Theorem msl_offsets_eq_ir_partial : forall t,
  wf t = true -> plain_attrs t = true -> align_inert t = true -> fits t = true -> msl_tight t = true ->
  erase_leaf (cxx_layout (msl_def t)) = erase_leaf (naga_layout t) /\
  erase_leaf (cxx_layout (msl_def t)) = erase_leaf (spec_layout t) /\
  snd (cxx_als (msl_def t)) = stride_of t.
Proof.
  intros t A B C D E. destruct (msl_offsets_eq_spec_lemma t A B C D E) as [H1 H2].
  rewrite (naga_layout_eq_inert t A B C D). auto.
Qed.
Print Assumptions msl_offsets_eq_ir_partial.

Theorem msl_offsets_refuted :
  exists t, wf t = true /\ plain_attrs t = true /\ inner_align_inert t = true /\ fits t = true /\
            erase_leaf (cxx_layout (msl_def t)) <> erase_leaf (spec_layout t).
Proof. exact MslProofs.msl_offsets_refuted. Qed.
Print Assumptions msl_offsets_refuted.

(* ---- non-vacuity ---- *)

Definition ex_inner : ty := TStruct [Mem None None (TVec 3 SF32); Mem None None (TScalar SF32)].
Definition ex_tree : ty :=
  TStruct [Mem None None (TScalar SF32);
           Mem (dec 16) (dec 32) (TVec 3 SF16);
           Mem None None (TMat 3 3 SF32);
           Mem None None (TArray ex_inner 3);
           Mem None (dec 20) (TAtomic SU32);
           Mem None None (TArray (TMat 4 2 SF32) 2);
           Mem (dec 64) None (TRArray (TVec 3 SF32))].

Example c07_example :
  wf ex_tree = true /\ plain_attrs ex_tree = true /\ inner_align_inert ex_tree = true /\ fits ex_tree = true /\
  member_offsets (match ex_tree with TStruct ms => ms | _ => [] end) = [0; 16; 48; 96; 144; 168; 256] /\
  naga_layout ex_tree = spec_layout ex_tree /\
  path_fits [6; 5; 2] ex_tree = true /\ hlsl_access_offset [6; 5; 2] ex_tree = Some (256 + 5 * 16 + 8) /\
  no_attrs ex_inner = true /\ glsl_layout false ex_inner = spec_layout ex_inner.
Proof. vm_compute. repeat split; reflexivity. Qed.

(* MSL: a packed vec3 (followed tightly by a scalar), an unpacked one, padding from @size,
   an array of structures *)
Definition ex_msl : ty :=
  TStruct [Mem None None (TScalar SF32);
           Mem None None (TVec 3 SF32); Mem None None (TScalar SU32);
           Mem None None (TVec 3 SF32); Mem None (dec 24) (TVec 2 SF32);
           Mem None None (TArray ex_inner 2);
           Mem (dec 8) (dec 40) (TMat 2 2 SF32);
           Mem None None (TVec 3 SF16)].
Example c07_example_msl :
  wf ex_msl = true /\ plain_attrs ex_msl = true /\ align_inert ex_msl = true /\ fits ex_msl = true /\
  msl_tight ex_msl = true /\
  member_offsets (match ex_msl with TStruct ms => ms | _ => [] end) = [0; 16; 28; 32; 48; 80; 112; 152] /\
  erase_leaf (cxx_layout (msl_def ex_msl)) = erase_leaf (spec_layout ex_msl).
Proof. vm_compute. repeat split; reflexivity. Qed.

(* a uniform block within the hypotheses of std140_eq_wgsl: nested structure, array of
   matrices, vec3 followed by a scalar *)
Definition ex_uniform : ty :=
  TStruct [Mem None None (TVec 4 SF32);
           Mem None None (TMat 4 4 SF32);
           Mem None None (TStruct [Mem None None (TVec 3 SF32); Mem None None (TScalar SF32)]);
           Mem None None (TArray (TMat 3 3 SF32) 2);
           Mem None None (TVec 2 SF32)].
Example c07_example_uniform :
  wf ex_uniform = true /\ no_attrs ex_uniform = true /\ uniform_ok ex_uniform = true /\
  std140_mat_ok ex_uniform = true /\
  member_offsets (match ex_uniform with TStruct ms => ms | _ => [] end) = [0; 16; 80; 96; 192] /\
  glsl_layout true ex_uniform = spec_layout ex_uniform.
Proof. vm_compute. repeat split; reflexivity. Qed.
