(* Property C15: generated code has no reachable undefined behaviour on hostile data.
   (1) Guard forms (restrict clamp, read-zero-skip-write, runtime-array length, strided workgroup
       zero-initialisation) keep every access inside the object for EVERY 32-bit index.
   (2) SPIR-V: the wrapped division/remainder helpers, negation and abs are total and WGSL-exact for ALL
       operands; the shift and float->int templates are refuted (recorded findings).
   The text back ends' helper lemmas (naga_div / naga_mod / naga_neg / naga_abs / naga_f2i32 ...) are in
   Props/C03.v, C04.v, C05.v and are re-checked by this property's check as well.
   Partial: statement-level absence of UB is validated per program by the trapping interpreters
   (spvrun / hlslrun / mslrun / glslrun report "UB: ..." as a failed execution), not proved. *)
From Coq Require Import List ZArith String Bool.
Import ListNotations.
Require Import Naga.Base.Bits32 Naga.Base.F32 Naga.IR.Values Naga.Guards.Guards
               Naga.Spv.Ops Naga.Spv.Catalogue Naga.Spv.CatalogueProofs.
Open Scope Z_scope.

(* ---- guards ---- *)
Theorem c15_restrict_in_bounds :
  forall i len, in32 i -> 0 < len -> 0 <= restrict_index i len < len.
Proof. exact restrict_in_bounds. Qed.
Print Assumptions c15_restrict_in_bounds.

Theorem c15_restrict_is_identity_in_bounds : forall i len, 0 <= i < len -> restrict_index i len = i.
Proof. exact restrict_identity. Qed.
Print Assumptions c15_restrict_is_identity_in_bounds.

Theorem c15_restrict_negative_index_clamped :
  forall i len, in32 i -> 0 < len -> len <= H32 -> sgn i < 0 -> restrict_index i len = len - 1.
Proof. exact restrict_negative_clamped. Qed.
Print Assumptions c15_restrict_negative_index_clamped.

Theorem c15_rzsw_read :
  forall (A : Type) (zero : A) a i,
    (0 <= i < Z.of_nat (List.length a) -> rzsw_read zero a i = nth (Z.to_nat i) a zero) /\
    (~ (0 <= i < Z.of_nat (List.length a)) -> rzsw_read zero a i = zero).
Proof. intros A zero a i. split; [apply rzsw_read_in | apply rzsw_read_out]. Qed.
Print Assumptions c15_rzsw_read.

Theorem c15_rzsw_write :
  forall (A : Type) (zero : A) (a : list A) i v,
    List.length (rzsw_write a i v) = List.length a /\
    (~ (0 <= i < Z.of_nat (List.length a)) -> rzsw_write a i v = a) /\
    (forall j, j <> Z.to_nat i -> nth j (rzsw_write a i v) zero = nth j a zero).
Proof.
  intros A zero a i v. split; [apply rzsw_write_length|]. split; [apply rzsw_write_out|].
  intros j Hj. apply rzsw_write_frame. exact Hj.
Qed.
Print Assumptions c15_rzsw_write.

Theorem c15_runtime_array_length :
  forall bytes offset stride,
    0 < stride -> 0 <= offset <= bytes ->
    (forall i, 0 <= i < runtime_len bytes offset stride -> offset + i * stride + stride <= bytes) /\
    bytes < offset + (runtime_len bytes offset stride + 1) * stride.
Proof.
  intros b o s Hs Ho. split; [intros i Hi; apply runtime_len_in_buffer; assumption | apply runtime_len_maximal; assumption].
Qed.
Print Assumptions c15_runtime_array_length.

Theorem c15_zero_init_covers_every_element_once :
  forall n len j, 0 < n -> 0 <= j < len ->
    (exists lid, 0 <= lid < n /\ cleared_by n lid len j) /\
    (forall l1 l2, cleared_by n l1 len j -> cleared_by n l2 len j -> l1 = l2).
Proof.
  intros n len j Hn Hj. split; [apply zero_init_covers; assumption | intros l1 l2; apply zero_init_disjoint].
Qed.
Print Assumptions c15_zero_init_covers_every_element_once.

(* ---- MSL: guard of a runtime-sized storage array (ReadZeroSkipWrite / Restrict), all sizes, offsets, strides ---- *)
Theorem c15_msl_runtime_array_guard_exact :
  forall bytes offset esize stride,
    0 < stride -> 0 < esize -> 0 <= offset -> offset + esize <= bytes ->
    (forall i, 0 <= i -> (i < msl_rt_count bytes offset esize stride <-> elem_in_buffer bytes offset esize stride i)) /\
    (bytes < M32 -> msl_rt_count_u32 bytes offset esize stride = msl_rt_count bytes offset esize stride) /\
    (esize <= stride -> (bytes - offset) mod stride = 0 -> msl_rt_count bytes offset esize stride = runtime_len bytes offset stride) /\
    (forall i, in32 i -> elem_in_buffer bytes offset esize stride (restrict_index i (msl_rt_count bytes offset esize stride))).
Proof.
  intros b o e s Hs He Ho Hb. split; [intros i Hi; apply msl_rt_guard_exact; assumption|].
  split; [intros Hlt; apply msl_rt_count_u32_exact; assumption|].
  split; [intros Hes Hm; apply msl_rt_count_whole_strides; try assumption; split; assumption|].
  intros i Hi. apply msl_rt_restrict_in_buffer; assumption.
Qed.
Print Assumptions c15_msl_runtime_array_guard_exact.

(* the same guard with the element size as the divisor admits an element outside the buffer (vec3 elements) *)
Theorem c15_msl_runtime_array_guard_esize_denominator_refuted :
  exists bytes offset esize stride i,
    0 < stride /\ 0 < esize <= stride /\ 0 <= offset /\ offset + esize <= bytes /\ (bytes - offset) mod stride = 0 /\ 0 <= i /\
    i < msl_rt_count_esize_denominator bytes offset esize stride /\ ~ elem_in_buffer bytes offset esize stride i.
Proof. exact msl_rt_guard_esize_denominator_refuted. Qed.
Print Assumptions c15_msl_runtime_array_guard_esize_denominator_refuted.

(* hypothesis of the guard lemma that cannot be dropped: the binding holds at least one element *)
Theorem c15_msl_runtime_array_guard_needs_min_binding_size :
  exists bytes offset esize stride i,
    0 < stride /\ 0 < esize <= stride /\ 0 <= offset /\ 0 <= bytes < offset + esize /\ in32 i /\
    i < msl_rt_count_u32 bytes offset esize stride /\ ~ elem_in_buffer bytes offset esize stride i.
Proof. exact msl_rt_guard_needs_min_binding_size. Qed.
Print Assumptions c15_msl_runtime_array_guard_needs_min_binding_size.

(* ---- which variables get the zero-initialisation: the walk over every sub-statement (continuing blocks included)
        and every callee finds every variable the entry point can use; the walk that skips continuing blocks does not ---- *)
Theorem c15_used_globals_walk_complete :
  forall funcs n s g, uses funcs n s g -> In g (collect funcs n s).
Proof. exact collect_complete. Qed.
Print Assumptions c15_used_globals_walk_complete.

Theorem c15_used_globals_walk_without_continuing_refuted :
  exists funcs n s g, uses funcs n s g /\ ~ In g (collect_no_continuing funcs n s).
Proof. exact collect_no_continuing_refuted. Qed.
Print Assumptions c15_used_globals_walk_without_continuing_refuted.

(* ---- SPIR-V hardened operators: total and exact on every operand ---- *)
Theorem c15_spv_wrapped_div_mod_total :
  (forall a b, in32 a -> in32 b -> teval [VI32 a; VI32 b] t_div_i32 = Done (VI32 (div_i32 a b)))
  /\ (forall a b, in32 a -> in32 b -> teval [VI32 a; VI32 b] t_mod_i32 = Done (VI32 (rem_i32 a b)))
  /\ (forall a b, in32 a -> in32 b -> teval [VU32 a; VU32 b] t_div_u32 = Done (VU32 (div_u32 a b)))
  /\ (forall a b, in32 a -> in32 b -> teval [VU32 a; VU32 b] t_mod_u32 = Done (VU32 (rem_u32 a b)))
  /\ (forall a, in32 a -> teval [VI32 a] t_neg_i32 = Done (VI32 (neg32 a)))
  /\ (forall a, in32 a -> teval [VI32 a] t_abs_i32 = Done (VI32 (abs_i32 a))).
Proof.
  exact (conj spv_div_i32_correct (conj spv_mod_i32_correct (conj spv_div_u32_correct (conj spv_mod_u32_correct
        (conj spv_neg_i32_correct spv_abs_i32_correct))))).
Qed.
Print Assumptions c15_spv_wrapped_div_mod_total.

(* ---- refuted on the pinned tree: SPIR-V leaves these undefined where WGSL defines a value ---- *)
Theorem c15_spv_shift_amount_unmasked_refuted :
  (exists a b, in32 a /\ in32 b /\ teval [VI32 a; VU32 b] t_shl_i32 <> Done (VI32 (shl32 a b)))
  /\ (exists a b, in32 a /\ in32 b /\ teval [VU32 a; VU32 b] t_shr_u32 <> Done (VU32 (shr_u32 a b))).
Proof. exact (conj spv_shl_i32_refuted spv_shr_u32_refuted). Qed.
Print Assumptions c15_spv_shift_amount_unmasked_refuted.

Theorem c15_spv_float_to_int_unclamped_refuted :
  (exists a, in32 a /\ teval [VF32 a] t_as_i32_f32 <> Done (VI32 (i32_of_f32 a)))
  /\ (exists a, in32 a /\ teval [VF32 a] t_as_u32_f32 <> Done (VU32 (u32_of_f32 a))).
Proof. exact (conj spv_as_i32_f32_refuted spv_as_u32_f32_refuted). Qed.
Print Assumptions c15_spv_float_to_int_unclamped_refuted.

(* non-vacuity: a hostile index against a 4-element object *)
Example c15_example :
  restrict_index 4294967295 4 = 3 /\ rzsw_read 0 [10; 20; 30; 40] 4294967295 = 0 /\
  rzsw_write [10; 20; 30; 40] 7 99 = [10; 20; 30; 40] /\ runtime_len 100 4 16 = 6.
Proof. vm_compute. repeat split; reflexivity. Qed.

(* non-vacuity of the MSL guard lemma: struct { n: u32, items: array<vec3<f32>> } bound to 64 bytes = 3 elements;
   and of the walk: advance() called from a continuing block uses global 7 *)
Example c15_example_msl_guard :
  msl_rt_count 64 16 12 16 = 3 /\ msl_rt_count_u32 64 16 12 16 = 3 /\ msl_rt_count_esize_denominator 64 16 12 16 = 4 /\
  restrict_index 4294967295 (msl_rt_count 64 16 12 16) = 2 /\
  collect (fun _ => CRef 7%nat) 1 (CLoop CSkip (CCall 0%nat)) = [7%nat].
Proof. vm_compute. repeat split; reflexivity. Qed.
