(* Property C04 (MSL output computes what the WGSL program means), operator level:
   every expression template and helper function naga's MSL backend emits for an IR operator,
   math builtin or conversion -- tied to the current /repo by the regenerated probe table --
   computes, under the strict MSL/C++14 semantics of Msl/Sem.v, the WGSL value of Base/Bits32.v /
   Base/F32.v for ALL 32-bit operands and never runs into undefined behaviour (C15).
   Entries where this is false are stated as [_refuted] (findings).
   Whole-program preservation is validated by differential execution (checks/c04.py), not proved.
   The theorems are grouped (one conjunction per operator family) so that Print Assumptions runs once per family. *)
From Coq Require Import List ZArith String Bool.
Import ListNotations.
Require Import Naga.Base.Bits32 Naga.Base.F32 Naga.IR.Values Naga.IR.Sem Naga.Msl.Syntax Naga.Msl.Ops Naga.Msl.Sem
               Naga.Msl.Catalogue Naga.Msl.CatalogueProofs Naga.Msl.FloatConv Naga.Msl.FloatConvProofs Naga.Msl.VectorProofs Naga.Msl.VectorProofs2 Naga.Msl.IrMeaning Naga.Msl.Agreement Naga.Msl.CatalogueTie Naga.Gen.MslOpTable.
Open Scope string_scope.
Open Scope Z_scope.

(* the tie: what naga emits now (operator x kind x shape, helper bodies included) is in the catalogue,
   and every catalogue entry has been regenerated *)
Theorem c04_gen_table_in_catalogue : forallb in_catalogue table = true /\ covers table = true.
Proof. exact (conj gen_table_in_catalogue gen_table_covers_catalogue). Qed.
Print Assumptions c04_gen_table_in_catalogue.

(* add_i32_correct, add_u32_correct, sub_i32_correct, sub_u32_correct, mul_i32_correct, mul_u32_correct, eq_i32_correct, ne_i32_correct, lt_i32_correct, le_i32_correct, gt_i32_correct, ge_i32_correct, eq_u32_correct, ne_u32_correct, lt_u32_correct, le_u32_correct, gt_u32_correct, ge_u32_correct, eq_f32_correct, ne_f32_correct, lt_f32_correct, le_f32_correct, gt_f32_correct, ge_f32_correct, eq_bool_correct, ne_bool_correct, and_i32_correct, or_i32_correct, xor_i32_correct, shl_i32_correct, shr_i32_correct, not_i32_correct, and_u32_correct, or_u32_correct, xor_u32_correct, shl_u32_correct, shr_u32_correct, not_u32_correct, and_bool_correct, or_bool_correct, lnot_bool_correct, select_i32_correct, select_u32_correct, select_f32_correct, select_bool_correct, abs_u32_correct, min_i32_correct, max_i32_correct, clamp_i32_correct, min_u32_correct, max_u32_correct, clamp_u32_correct, popcount_i32_correct, clz_i32_correct, ctz_i32_correct, reversebits_i32_correct, popcount_u32_correct, clz_u32_correct, ctz_u32_correct, reversebits_u32_correct, conv_i32_u32_correct, conv_i32_f32_correct, conv_i32_bool_correct, conv_u32_i32_correct, conv_u32_f32_correct, conv_u32_bool_correct, conv_f32_bool_correct, conv_bool_i32_correct, conv_bool_u32_correct, conv_bool_f32_correct, bitcast_i32_u32_correct, bitcast_i32_f32_correct, bitcast_u32_i32_correct, bitcast_u32_f32_correct, bitcast_f32_i32_correct, bitcast_f32_u32_correct, div_i32_correct, mod_i32_correct, div_u32_correct, mod_u32_correct, neg_i32_correct, abs_i32_correct, sign_i32_correct, firsttrailingbit_i32_correct, firsttrailingbit_u32_correct, firstleadingbit_i32_correct, firstleadingbit_u32_correct_except_allones, extractbits_u32_correct, extractbits_i32_correct, insertbits_u32_correct, insertbits_i32_correct *)
Theorem c04_integer_and_conversion_operators :
  (forall a b, in32 a -> in32 b -> run2 [] (t_wrap_i32 BAdd 1) (VI32 a) (VI32 b) = Done (VI32 (add32 a b))) /\
  (forall a b, in32 a -> in32 b -> run2 [] (t_bin BAdd) (VU32 a) (VU32 b) = Done (VU32 (add32 a b))) /\
  (forall a b, in32 a -> in32 b -> run2 [] (t_wrap_i32 BSub 1) (VI32 a) (VI32 b) = Done (VI32 (sub32 a b))) /\
  (forall a b, in32 a -> in32 b -> run2 [] (t_bin BSub) (VU32 a) (VU32 b) = Done (VU32 (sub32 a b))) /\
  (forall a b, in32 a -> in32 b -> run2 [] (t_wrap_i32 BMul 1) (VI32 a) (VI32 b) = Done (VI32 (mul32 a b))) /\
  (forall a b, in32 a -> in32 b -> run2 [] (t_bin BMul) (VU32 a) (VU32 b) = Done (VU32 (mul32 a b))) /\
  (forall a b, in32 a -> in32 b -> run2 [] (t_bin BEq) (VI32 a) (VI32 b) = Done (VBool (a =? b))) /\
  (forall a b, in32 a -> in32 b -> run2 [] (t_bin BNe) (VI32 a) (VI32 b) = Done (VBool (negb (a =? b)))) /\
  (forall a b, in32 a -> in32 b -> run2 [] (t_bin BLt) (VI32 a) (VI32 b) = Done (VBool (lt_i32 a b))) /\
  (forall a b, in32 a -> in32 b -> run2 [] (t_bin BLe) (VI32 a) (VI32 b) = Done (VBool (le_i32 a b))) /\
  (forall a b, in32 a -> in32 b -> run2 [] (t_bin BGt) (VI32 a) (VI32 b) = Done (VBool (lt_i32 b a))) /\
  (forall a b, in32 a -> in32 b -> run2 [] (t_bin BGe) (VI32 a) (VI32 b) = Done (VBool (le_i32 b a))) /\
  (forall a b, in32 a -> in32 b -> run2 [] (t_bin BEq) (VU32 a) (VU32 b) = Done (VBool (a =? b))) /\
  (forall a b, in32 a -> in32 b -> run2 [] (t_bin BNe) (VU32 a) (VU32 b) = Done (VBool (negb (a =? b)))) /\
  (forall a b, in32 a -> in32 b -> run2 [] (t_bin BLt) (VU32 a) (VU32 b) = Done (VBool (lt_u32 a b))) /\
  (forall a b, in32 a -> in32 b -> run2 [] (t_bin BLe) (VU32 a) (VU32 b) = Done (VBool (le_u32 a b))) /\
  (forall a b, in32 a -> in32 b -> run2 [] (t_bin BGt) (VU32 a) (VU32 b) = Done (VBool (lt_u32 b a))) /\
  (forall a b, in32 a -> in32 b -> run2 [] (t_bin BGe) (VU32 a) (VU32 b) = Done (VBool (le_u32 b a))) /\
  (forall a b, in32 a -> in32 b -> run2 [] (t_bin BEq) (VF32 a) (VF32 b) = Done (VBool (feq a b))) /\
  (forall a b, in32 a -> in32 b -> run2 [] (t_bin BNe) (VF32 a) (VF32 b) = Done (VBool (fne a b))) /\
  (forall a b, in32 a -> in32 b -> run2 [] (t_bin BLt) (VF32 a) (VF32 b) = Done (VBool (flt a b))) /\
  (forall a b, in32 a -> in32 b -> run2 [] (t_bin BLe) (VF32 a) (VF32 b) = Done (VBool (fle a b))) /\
  (forall a b, in32 a -> in32 b -> run2 [] (t_bin BGt) (VF32 a) (VF32 b) = Done (VBool (fgt a b))) /\
  (forall a b, in32 a -> in32 b -> run2 [] (t_bin BGe) (VF32 a) (VF32 b) = Done (VBool (fge a b))) /\
  (forall a b, run2 [] (t_bin BEq) (VBool a) (VBool b) = Done (VBool (Bool.eqb a b))) /\
  (forall a b, run2 [] (t_bin BNe) (VBool a) (VBool b) = Done (VBool (negb (Bool.eqb a b)))) /\
  (forall a b, in32 a -> in32 b -> run2 [] (t_bin BAnd) (VI32 a) (VI32 b) = Done (VI32 (and32 a b))) /\
  (forall a b, in32 a -> in32 b -> run2 [] (t_bin BOr) (VI32 a) (VI32 b) = Done (VI32 (or32 a b))) /\
  (forall a b, in32 a -> in32 b -> run2 [] (t_bin BXor) (VI32 a) (VI32 b) = Done (VI32 (xor32 a b))) /\
  (forall a b, in32 a -> in32 b -> run2 [] (t_bin BShl) (VI32 a) (VU32 b) = Done (VI32 (shl32 a b))) /\
  (forall a b, in32 a -> in32 b -> run2 [] (t_bin BShr) (VI32 a) (VU32 b) = Done (VI32 (shr_i32 a b))) /\
  (forall a, in32 a -> run1 [] (EUn UBitNot va) (VI32 a) = Done (VI32 (not32 a))) /\
  (forall a b, in32 a -> in32 b -> run2 [] (t_bin BAnd) (VU32 a) (VU32 b) = Done (VU32 (and32 a b))) /\
  (forall a b, in32 a -> in32 b -> run2 [] (t_bin BOr) (VU32 a) (VU32 b) = Done (VU32 (or32 a b))) /\
  (forall a b, in32 a -> in32 b -> run2 [] (t_bin BXor) (VU32 a) (VU32 b) = Done (VU32 (xor32 a b))) /\
  (forall a b, in32 a -> in32 b -> run2 [] (t_bin BShl) (VU32 a) (VU32 b) = Done (VU32 (shl32 a b))) /\
  (forall a b, in32 a -> in32 b -> run2 [] (t_bin BShr) (VU32 a) (VU32 b) = Done (VU32 (shr_u32 a b))) /\
  (forall a, in32 a -> run1 [] (EUn UBitNot va) (VU32 a) = Done (VU32 (not32 a))) /\
  (forall a b, run2 [] (t_bin BAnd) (VBool a) (VBool b) = Done (VBool (andb a b))) /\
  (forall a b, run2 [] (t_bin BOr) (VBool a) (VBool b) = Done (VBool (orb a b))) /\
  (forall a, run1 [] (EUn UNot va) (VBool a) = Done (VBool (negb a))) /\
  (forall a b c, run3 [] t_ternary (VI32 a) (VI32 b) (VBool c) = Done (if c then VI32 b else VI32 a)) /\
  (forall a b c, run3 [] t_ternary (VU32 a) (VU32 b) (VBool c) = Done (if c then VU32 b else VU32 a)) /\
  (forall a b c, run3 [] t_ternary (VF32 a) (VF32 b) (VBool c) = Done (if c then VF32 b else VF32 a)) /\
  (forall a b c, run3 [] t_ternary (VBool a) (VBool b) (VBool c) = Done (if c then VBool b else VBool a)) /\
  (forall a, in32 a -> run1 [] (t_call1 "metal::abs") (VU32 a) = Done (VU32 a)) /\
  (forall a b, in32 a -> in32 b -> run2 [] (t_call2 "metal::min") (VI32 a) (VI32 b) = Done (VI32 (min_i32 a b))) /\
  (forall a b, in32 a -> in32 b -> run2 [] (t_call2 "metal::max") (VI32 a) (VI32 b) = Done (VI32 (max_i32 a b))) /\
  (forall a b c, in32 a -> in32 b -> in32 c -> run3 [] (t_call3 "metal::clamp") (VI32 a) (VI32 b) (VI32 c) = Done (VI32 (clamp_i32 a b c))) /\
  (forall a b, in32 a -> in32 b -> run2 [] (t_call2 "metal::min") (VU32 a) (VU32 b) = Done (VU32 (min_u32 a b))) /\
  (forall a b, in32 a -> in32 b -> run2 [] (t_call2 "metal::max") (VU32 a) (VU32 b) = Done (VU32 (max_u32 a b))) /\
  (forall a b c, in32 a -> in32 b -> in32 c -> run3 [] (t_call3 "metal::clamp") (VU32 a) (VU32 b) (VU32 c) = Done (VU32 (clamp_u32 a b c))) /\
  (forall a, in32 a -> run1 [] (t_call1 "metal::popcount") (VI32 a) = Done (VI32 (count_one_bits a))) /\
  (forall a, in32 a -> run1 [] (t_call1 "metal::clz") (VI32 a) = Done (VI32 (count_leading_zeros a))) /\
  (forall a, in32 a -> run1 [] (t_call1 "metal::ctz") (VI32 a) = Done (VI32 (count_trailing_zeros a))) /\
  (forall a, in32 a -> run1 [] (t_call1 "metal::reverse_bits") (VI32 a) = Done (VI32 (reverse_bits a))) /\
  (forall a, in32 a -> run1 [] (t_call1 "metal::popcount") (VU32 a) = Done (VU32 (count_one_bits a))) /\
  (forall a, in32 a -> run1 [] (t_call1 "metal::clz") (VU32 a) = Done (VU32 (count_leading_zeros a))) /\
  (forall a, in32 a -> run1 [] (t_call1 "metal::ctz") (VU32 a) = Done (VU32 (count_trailing_zeros a))) /\
  (forall a, in32 a -> run1 [] (t_call1 "metal::reverse_bits") (VU32 a) = Done (VU32 (reverse_bits a))) /\
  (forall a, in32 a -> run1 [] (ECast (tyv 1 SUint) va) (VI32 a) = Done (VU32 a)) /\
  (forall a, in32 a -> run1 [] (ECast (tyv 1 SFloat) va) (VI32 a) = Done (VF32 (f32_of_i32 a))) /\
  (forall a, in32 a -> run1 [] (ECast (tyv 1 SBool) va) (VI32 a) = Done (VBool (bool_of_32 a))) /\
  (forall a, in32 a -> run1 [] (ECast (tyv 1 SInt) va) (VU32 a) = Done (VI32 a)) /\
  (forall a, in32 a -> run1 [] (ECast (tyv 1 SFloat) va) (VU32 a) = Done (VF32 (f32_of_u32 a))) /\
  (forall a, in32 a -> run1 [] (ECast (tyv 1 SBool) va) (VU32 a) = Done (VBool (bool_of_32 a))) /\
  (forall a, in32 a -> run1 [] (ECast (tyv 1 SBool) va) (VF32 a) = Done (VBool (negb (feq a 0)))) /\
  (forall a, run1 [] (ECast (tyv 1 SInt) va) (VBool a) = Done (VI32 (u32_of_bool a))) /\
  (forall a, run1 [] (ECast (tyv 1 SUint) va) (VBool a) = Done (VU32 (u32_of_bool a))) /\
  (forall a, run1 [] (ECast (tyv 1 SFloat) va) (VBool a) = Done (VF32 (if a then 1065353216 else 0))) /\
  (forall a, in32 a -> run1 [] (EAsType (tyv 1 SUint) va) (VI32 a) = Done (VU32 a)) /\
  (forall a, in32 a -> run1 [] (EAsType (tyv 1 SFloat) va) (VI32 a) = Done (VF32 a)) /\
  (forall a, in32 a -> run1 [] (EAsType (tyv 1 SInt) va) (VU32 a) = Done (VI32 a)) /\
  (forall a, in32 a -> run1 [] (EAsType (tyv 1 SFloat) va) (VU32 a) = Done (VF32 a)) /\
  (forall a, in32 a -> run1 [] (EAsType (tyv 1 SInt) va) (VF32 a) = Done (VI32 a)) /\
  (forall a, in32 a -> run1 [] (EAsType (tyv 1 SUint) va) (VF32 a) = Done (VU32 a)) /\
  (forall a b, in32 a -> in32 b -> run2 [h_div_i32 1] (t_call2 "naga_div") (VI32 a) (VI32 b) = Done (VI32 (div_i32 a b))) /\
  (forall a b, in32 a -> in32 b -> run2 [h_mod_i32 1] (t_call2 "naga_mod") (VI32 a) (VI32 b) = Done (VI32 (rem_i32 a b))) /\
  (forall a b, in32 a -> in32 b -> run2 [h_div_u32 1] (t_call2 "naga_div") (VU32 a) (VU32 b) = Done (VU32 (div_u32 a b))) /\
  (forall a b, in32 a -> in32 b -> run2 [h_mod_u32 1] (t_call2 "naga_mod") (VU32 a) (VU32 b) = Done (VU32 (rem_u32 a b))) /\
  (forall a, in32 a -> run1 [h_neg_i32 1] (t_call1 "naga_neg") (VI32 a) = Done (VI32 (neg32 a))) /\
  (forall a, in32 a -> run1 [h_abs_i32 1] (t_call1 "naga_abs") (VI32 a) = Done (VI32 (abs_i32 a))) /\
  (forall a, in32 a -> run1 [] (t_sign_i32 1) (VI32 a) = Done (VI32 (sign_i32 a))) /\
  (forall a, in32 a -> run1 [] t_ftb (VI32 a) = Done (VI32 (first_trailing_bit a))) /\
  (forall a, in32 a -> run1 [] t_ftb (VU32 a) = Done (VU32 (first_trailing_bit a))) /\
  (forall a, in32 a -> run1 [] (t_flb_i32 1) (VI32 a) = Done (VI32 (first_leading_bit_i32 a))) /\
  (forall a, in32 a -> a <> 4294967295 -> run1 [] (t_flb_u32 1) (VU32 a) = Done (VU32 (first_leading_bit_u32 a))) /\
  (forall a b c, in32 a -> in32 b -> in32 c -> run3 [] t_extract (VU32 a) (VU32 b) (VU32 c) = Done (VU32 (extract_bits_u32 a b c))) /\
  (forall a b c, in32 a -> in32 b -> in32 c -> run3 [] t_extract (VI32 a) (VU32 b) (VU32 c) = Done (VI32 (extract_bits_i32 a b c))) /\
  (forall a b c d, in32 a -> in32 b -> in32 c -> in32 d -> run_tmpl [] t_insert (VU32 a) (VU32 b) (VU32 c) (VU32 d) = Done (VU32 (insert_bits a b c d))) /\
  (forall a b c d, in32 a -> in32 b -> in32 c -> in32 d -> run_tmpl [] t_insert (VI32 a) (VI32 b) (VU32 c) (VU32 d) = Done (VI32 (insert_bits a b c d))).
Proof. exact (conj msl_add_i32_correct (conj msl_add_u32_correct (conj msl_sub_i32_correct (conj msl_sub_u32_correct (conj msl_mul_i32_correct (conj msl_mul_u32_correct (conj msl_eq_i32_correct (conj msl_ne_i32_correct (conj msl_lt_i32_correct (conj msl_le_i32_correct (conj msl_gt_i32_correct (conj msl_ge_i32_correct (conj msl_eq_u32_correct (conj msl_ne_u32_correct (conj msl_lt_u32_correct (conj msl_le_u32_correct (conj msl_gt_u32_correct (conj msl_ge_u32_correct (conj msl_eq_f32_correct (conj msl_ne_f32_correct (conj msl_lt_f32_correct (conj msl_le_f32_correct (conj msl_gt_f32_correct (conj msl_ge_f32_correct (conj msl_eq_bool_correct (conj msl_ne_bool_correct (conj msl_and_i32_correct (conj msl_or_i32_correct (conj msl_xor_i32_correct (conj msl_shl_i32_correct (conj msl_shr_i32_correct (conj msl_not_i32_correct (conj msl_and_u32_correct (conj msl_or_u32_correct (conj msl_xor_u32_correct (conj msl_shl_u32_correct (conj msl_shr_u32_correct (conj msl_not_u32_correct (conj msl_and_bool_correct (conj msl_or_bool_correct (conj msl_lnot_bool_correct (conj msl_select_i32_correct (conj msl_select_u32_correct (conj msl_select_f32_correct (conj msl_select_bool_correct (conj msl_abs_u32_correct (conj msl_min_i32_correct (conj msl_max_i32_correct (conj msl_clamp_i32_correct (conj msl_min_u32_correct (conj msl_max_u32_correct (conj msl_clamp_u32_correct (conj msl_popcount_i32_correct (conj msl_clz_i32_correct (conj msl_ctz_i32_correct (conj msl_reversebits_i32_correct (conj msl_popcount_u32_correct (conj msl_clz_u32_correct (conj msl_ctz_u32_correct (conj msl_reversebits_u32_correct (conj msl_conv_i32_u32_correct (conj msl_conv_i32_f32_correct (conj msl_conv_i32_bool_correct (conj msl_conv_u32_i32_correct (conj msl_conv_u32_f32_correct (conj msl_conv_u32_bool_correct (conj msl_conv_f32_bool_correct (conj msl_conv_bool_i32_correct (conj msl_conv_bool_u32_correct (conj msl_conv_bool_f32_correct (conj msl_bitcast_i32_u32_correct (conj msl_bitcast_i32_f32_correct (conj msl_bitcast_u32_i32_correct (conj msl_bitcast_u32_f32_correct (conj msl_bitcast_f32_i32_correct (conj msl_bitcast_f32_u32_correct (conj msl_div_i32_correct (conj msl_mod_i32_correct (conj msl_div_u32_correct (conj msl_mod_u32_correct (conj msl_neg_i32_correct (conj msl_abs_i32_correct (conj msl_sign_i32_correct (conj msl_firsttrailingbit_i32_correct (conj msl_firsttrailingbit_u32_correct (conj msl_firstleadingbit_i32_correct (conj msl_firstleadingbit_u32_correct_except_allones (conj msl_extractbits_u32_correct (conj msl_extractbits_i32_correct (conj msl_insertbits_u32_correct msl_insertbits_i32_correct)))))))))))))))))))))))))))))))))))))))))))))))))))))))))))))))))))))))))))))))))))))))))). Qed.
Print Assumptions c04_integer_and_conversion_operators.

(* add_f32_correct, sub_f32_correct, mul_f32_correct, div_f32_correct, neg_f32_correct, abs_f32_correct, min_f32_correct, max_f32_correct, clamp_f32_correct, floor_f32_correct, ceil_f32_correct, trunc_f32_correct, sqrt_f32_correct, saturate_f32_correct, fma_f32_correct, sign_f32_correct_nonnan, dot_u32_2_correct, dot_u32_3_correct, dot_u32_4_correct, dot_f32_correct, any_bool_correct, all_bool_correct *)
Theorem c04_float_and_vector_operations :
  (forall a b, in32 a -> in32 b -> run2 [] (t_bin BAdd) (VF32 a) (VF32 b) = Done (VF32 (fadd a b))) /\
  (forall a b, in32 a -> in32 b -> run2 [] (t_bin BSub) (VF32 a) (VF32 b) = Done (VF32 (fsub a b))) /\
  (forall a b, in32 a -> in32 b -> run2 [] (t_bin BMul) (VF32 a) (VF32 b) = Done (VF32 (fmul a b))) /\
  (forall a b, in32 a -> in32 b -> run2 [] (t_bin BDiv) (VF32 a) (VF32 b) = Done (VF32 (fdiv a b))) /\
  (forall a, in32 a -> run1 [] (EUn UNeg va) (VF32 a) = Done (VF32 (fneg a))) /\
  (forall a, in32 a -> run1 [] (t_call1 "metal::abs") (VF32 a) = Done (VF32 (fabs a))) /\
  (forall a b, in32 a -> in32 b -> run2 [] (t_call2 "metal::min") (VF32 a) (VF32 b) = Done (VF32 (fmin a b))) /\
  (forall a b, in32 a -> in32 b -> run2 [] (t_call2 "metal::max") (VF32 a) (VF32 b) = Done (VF32 (fmax a b))) /\
  (forall a b c, in32 a -> in32 b -> in32 c -> run3 [] (t_call3 "metal::clamp") (VF32 a) (VF32 b) (VF32 c) = Done (VF32 (fmin (fmax a b) c))) /\
  (forall a, in32 a -> run1 [] (t_call1 "metal::floor") (VF32 a) = Done (VF32 (ffloor a))) /\
  (forall a, in32 a -> run1 [] (t_call1 "metal::ceil") (VF32 a) = Done (VF32 (fceil a))) /\
  (forall a, in32 a -> run1 [] (t_call1 "metal::trunc") (VF32 a) = Done (VF32 (ftrunc a))) /\
  (forall a, in32 a -> run1 [] (t_call1 "metal::sqrt") (VF32 a) = Done (VF32 (fsqrt a))) /\
  (forall a, in32 a -> run1 [] (t_call1 "metal::saturate") (VF32 a) = Done (VF32 (fmin (fmax a 0) 1065353216))) /\
  (forall a b c, in32 a -> in32 b -> in32 c -> run3 [] (t_call3 "metal::fma") (VF32 a) (VF32 b) (VF32 c) = Done (VF32 (ffma a b c))) /\
  (forall a, in32 a -> is_nan_bits a = false -> run1 [] (t_call1 "metal::sign") (VF32 a) = Done (VF32 (if is_nan_bits a then a else if flt 0 a then 1065353216 else if flt a 0 then 3212836864 else a))) /\
  (forall a1 a2 b1 b2, in32 a1 -> in32 a2 -> in32 b1 -> in32 b2 -> run2 [h_dot SUint 2] (t_call2 "naga_dot_uint2") (VVec [VU32 a1; VU32 a2]) (VVec [VU32 b1; VU32 b2]) = dot_vals [VU32 a1; VU32 a2] [VU32 b1; VU32 b2]) /\
  (forall a1 a2 a3 b1 b2 b3, in32 a1 -> in32 a2 -> in32 a3 -> in32 b1 -> in32 b2 -> in32 b3 -> run2 [h_dot SUint 3] (t_call2 "naga_dot_uint3") (VVec [VU32 a1; VU32 a2; VU32 a3]) (VVec [VU32 b1; VU32 b2; VU32 b3]) = dot_vals [VU32 a1; VU32 a2; VU32 a3] [VU32 b1; VU32 b2; VU32 b3]) /\
  (forall a1 a2 a3 a4 b1 b2 b3 b4, in32 a1 -> in32 a2 -> in32 a3 -> in32 a4 -> in32 b1 -> in32 b2 -> in32 b3 -> in32 b4 -> run2 [h_dot SUint 4] (t_call2 "naga_dot_uint4") (VVec [VU32 a1; VU32 a2; VU32 a3; VU32 a4]) (VVec [VU32 b1; VU32 b2; VU32 b3; VU32 b4]) = dot_vals [VU32 a1; VU32 a2; VU32 a3; VU32 a4] [VU32 b1; VU32 b2; VU32 b3; VU32 b4]) /\
  (forall la lb, run2 [] (t_call2 "metal::dot") (VVec la) (VVec lb) = dot_vals la lb) /\
  (forall l, run1 [] (t_call1 "metal::any") (VVec (map VBool l)) = Done (VBool (existsb (fun b => b) l))) /\
  (forall l, run1 [] (t_call1 "metal::all") (VVec (map VBool l)) = Done (VBool (forallb (fun b => b) l))).
Proof. exact (conj msl_add_f32_correct (conj msl_sub_f32_correct (conj msl_mul_f32_correct (conj msl_div_f32_correct (conj msl_neg_f32_correct (conj msl_abs_f32_correct (conj msl_min_f32_correct (conj msl_max_f32_correct (conj msl_clamp_f32_correct (conj msl_floor_f32_correct (conj msl_ceil_f32_correct (conj msl_trunc_f32_correct (conj msl_sqrt_f32_correct (conj msl_saturate_f32_correct (conj msl_fma_f32_correct (conj msl_sign_f32_correct_nonnan (conj msl_dot_u32_2_correct (conj msl_dot_u32_3_correct (conj msl_dot_u32_4_correct (conj msl_dot_f32_correct (conj msl_any_bool_correct msl_all_bool_correct))))))))))))))))))))). Qed.
Print Assumptions c04_float_and_vector_operations.

(* firstleadingbit_u32_refuted, round_f32_refuted, conv_f32_i32_refuted, conv_f32_u32_refuted, dot_i32_refuted *)
Theorem c04_refuted_entries :
  (exists a, in32 a /\ run1 [] (t_flb_u32 1) (VU32 a) <> Done (VU32 (first_leading_bit_u32 a))) /\
  (exists a, in32 a /\ run1 [] (t_call1 "metal::round") (VF32 a) <> Done (VF32 (fround a))) /\
  (exists a, in32 a /\ run1 [h_f2i32 1] (t_call1 "naga_f2i32") (VF32 a) <> Done (VI32 (i32_of_f32 a))) /\
  (exists a, in32 a /\ run1 [h_f2u32 1] (t_call1 "naga_f2u32") (VF32 a) <> Done (VU32 (u32_of_f32 a))) /\
  (exists a1 a2 b1 b2, in32 a1 /\ in32 a2 /\ in32 b1 /\ in32 b2 /\ run2 [h_dot SInt 2] (t_call2 "naga_dot_int2") (VVec [VI32 a1; VI32 a2]) (VVec [VI32 b1; VI32 b2]) = Fail "UB: signed overflow" /\ dot_vals [VI32 a1; VI32 a2] [VI32 b1; VI32 b2] = Done (VI32 (add32 (mul32 a1 b1) (mul32 a2 b2)))).
Proof. exact (conj msl_firstleadingbit_u32_refuted (conj msl_round_f32_refuted (conj msl_conv_f32_i32_refuted (conj msl_conv_f32_u32_refuted msl_dot_i32_refuted)))). Qed.
Print Assumptions c04_refuted_entries.

(* float -> integer conversion helpers, from their bodies: total on every input (no undefined behaviour: C15) and equal
   to the WGSL value below the saturation bound; at and above it see c04_refuted_entries *)
Theorem c04_float_to_int_helpers :
  (forall a, exists v, in32 v /\ run1 [h_f2i32 1] (t_call1 "naga_f2i32") (VF32 a) = Done (VI32 v)) /\
  (forall a, exists v, in32 v /\ run1 [h_f2u32 1] (t_call1 "naga_f2u32") (VF32 a) = Done (VU32 v)) /\
  (forall a, is_nan_bits a = false -> flt F_HI a = false ->
     run1 [h_f2i32 1] (t_call1 "naga_f2i32") (VF32 a) = Done (VI32 (i32_of_f32 a))) /\
  (forall a, flt F_UHI a = false ->
     run1 [h_f2u32 1] (t_call1 "naga_f2u32") (VF32 a) = Done (VU32 (u32_of_f32 a))).
Proof.
  exact (conj msl_conv_f32_i32_total (conj msl_conv_f32_u32_total
        (conj msl_conv_f32_i32_correct_below_2p31 msl_conv_f32_u32_correct_below_2p32))).
Qed.
Print Assumptions c04_float_to_int_helpers.

(* vector shapes of the arithmetic that C++ leaves undefined on overflow / division by zero: component-wise WGSL value,
   never undefined behaviour (the remaining 243 vector lemmas are in Msl/VectorProofs.v) *)
Theorem c04_vector_hardened_operators :
  (forall a1 a2 b1 b2, run2 [] (t_wrap_i32 BAdd 2) (VVec [VI32 a1; VI32 a2]) (VVec [VI32 b1; VI32 b2]) = Done (VVec [VI32 (add32 a1 b1); VI32 (add32 a2 b2)])) /\
  (forall a1 a2 b1 b2, run2 [] (t_bin BAdd) (VVec [VU32 a1; VU32 a2]) (VVec [VU32 b1; VU32 b2]) = Done (VVec [VU32 (add32 a1 b1); VU32 (add32 a2 b2)])) /\
  (forall a1 a2 b1 b2, run2 [] (t_wrap_i32 BSub 2) (VVec [VI32 a1; VI32 a2]) (VVec [VI32 b1; VI32 b2]) = Done (VVec [VI32 (sub32 a1 b1); VI32 (sub32 a2 b2)])) /\
  (forall a1 a2 b1 b2, run2 [] (t_bin BSub) (VVec [VU32 a1; VU32 a2]) (VVec [VU32 b1; VU32 b2]) = Done (VVec [VU32 (sub32 a1 b1); VU32 (sub32 a2 b2)])) /\
  (forall a1 a2 b1 b2, run2 [] (t_wrap_i32 BMul 2) (VVec [VI32 a1; VI32 a2]) (VVec [VI32 b1; VI32 b2]) = Done (VVec [VI32 (mul32 a1 b1); VI32 (mul32 a2 b2)])) /\
  (forall a1 a2 b1 b2, run2 [] (t_bin BMul) (VVec [VU32 a1; VU32 a2]) (VVec [VU32 b1; VU32 b2]) = Done (VVec [VU32 (mul32 a1 b1); VU32 (mul32 a2 b2)])) /\
  (forall a1 a2, run1 [] (t_call1 "metal::abs") (VVec [VU32 a1; VU32 a2]) = Done (VVec [VU32 (a1); VU32 (a2)])) /\
  (forall a1 a2 a3 b1 b2 b3, run2 [] (t_wrap_i32 BAdd 3) (VVec [VI32 a1; VI32 a2; VI32 a3]) (VVec [VI32 b1; VI32 b2; VI32 b3]) = Done (VVec [VI32 (add32 a1 b1); VI32 (add32 a2 b2); VI32 (add32 a3 b3)])) /\
  (forall a1 a2 a3 b1 b2 b3, run2 [] (t_bin BAdd) (VVec [VU32 a1; VU32 a2; VU32 a3]) (VVec [VU32 b1; VU32 b2; VU32 b3]) = Done (VVec [VU32 (add32 a1 b1); VU32 (add32 a2 b2); VU32 (add32 a3 b3)])) /\
  (forall a1 a2 a3 b1 b2 b3, run2 [] (t_wrap_i32 BSub 3) (VVec [VI32 a1; VI32 a2; VI32 a3]) (VVec [VI32 b1; VI32 b2; VI32 b3]) = Done (VVec [VI32 (sub32 a1 b1); VI32 (sub32 a2 b2); VI32 (sub32 a3 b3)])) /\
  (forall a1 a2 a3 b1 b2 b3, run2 [] (t_bin BSub) (VVec [VU32 a1; VU32 a2; VU32 a3]) (VVec [VU32 b1; VU32 b2; VU32 b3]) = Done (VVec [VU32 (sub32 a1 b1); VU32 (sub32 a2 b2); VU32 (sub32 a3 b3)])) /\
  (forall a1 a2 a3 b1 b2 b3, run2 [] (t_wrap_i32 BMul 3) (VVec [VI32 a1; VI32 a2; VI32 a3]) (VVec [VI32 b1; VI32 b2; VI32 b3]) = Done (VVec [VI32 (mul32 a1 b1); VI32 (mul32 a2 b2); VI32 (mul32 a3 b3)])) /\
  (forall a1 a2 a3 b1 b2 b3, run2 [] (t_bin BMul) (VVec [VU32 a1; VU32 a2; VU32 a3]) (VVec [VU32 b1; VU32 b2; VU32 b3]) = Done (VVec [VU32 (mul32 a1 b1); VU32 (mul32 a2 b2); VU32 (mul32 a3 b3)])) /\
  (forall a1 a2 a3, run1 [] (t_call1 "metal::abs") (VVec [VU32 a1; VU32 a2; VU32 a3]) = Done (VVec [VU32 (a1); VU32 (a2); VU32 (a3)])) /\
  (forall a1 a2 a3 a4 b1 b2 b3 b4, run2 [] (t_wrap_i32 BAdd 4) (VVec [VI32 a1; VI32 a2; VI32 a3; VI32 a4]) (VVec [VI32 b1; VI32 b2; VI32 b3; VI32 b4]) = Done (VVec [VI32 (add32 a1 b1); VI32 (add32 a2 b2); VI32 (add32 a3 b3); VI32 (add32 a4 b4)])) /\
  (forall a1 a2 a3 a4 b1 b2 b3 b4, run2 [] (t_bin BAdd) (VVec [VU32 a1; VU32 a2; VU32 a3; VU32 a4]) (VVec [VU32 b1; VU32 b2; VU32 b3; VU32 b4]) = Done (VVec [VU32 (add32 a1 b1); VU32 (add32 a2 b2); VU32 (add32 a3 b3); VU32 (add32 a4 b4)])) /\
  (forall a1 a2 a3 a4 b1 b2 b3 b4, run2 [] (t_wrap_i32 BSub 4) (VVec [VI32 a1; VI32 a2; VI32 a3; VI32 a4]) (VVec [VI32 b1; VI32 b2; VI32 b3; VI32 b4]) = Done (VVec [VI32 (sub32 a1 b1); VI32 (sub32 a2 b2); VI32 (sub32 a3 b3); VI32 (sub32 a4 b4)])) /\
  (forall a1 a2 a3 a4 b1 b2 b3 b4, run2 [] (t_bin BSub) (VVec [VU32 a1; VU32 a2; VU32 a3; VU32 a4]) (VVec [VU32 b1; VU32 b2; VU32 b3; VU32 b4]) = Done (VVec [VU32 (sub32 a1 b1); VU32 (sub32 a2 b2); VU32 (sub32 a3 b3); VU32 (sub32 a4 b4)])) /\
  (forall a1 a2 a3 a4 b1 b2 b3 b4, run2 [] (t_wrap_i32 BMul 4) (VVec [VI32 a1; VI32 a2; VI32 a3; VI32 a4]) (VVec [VI32 b1; VI32 b2; VI32 b3; VI32 b4]) = Done (VVec [VI32 (mul32 a1 b1); VI32 (mul32 a2 b2); VI32 (mul32 a3 b3); VI32 (mul32 a4 b4)])) /\
  (forall a1 a2 a3 a4 b1 b2 b3 b4, run2 [] (t_bin BMul) (VVec [VU32 a1; VU32 a2; VU32 a3; VU32 a4]) (VVec [VU32 b1; VU32 b2; VU32 b3; VU32 b4]) = Done (VVec [VU32 (mul32 a1 b1); VU32 (mul32 a2 b2); VU32 (mul32 a3 b3); VU32 (mul32 a4 b4)])) /\
  (forall a1 a2 a3 a4, run1 [] (t_call1 "metal::abs") (VVec [VU32 a1; VU32 a2; VU32 a3; VU32 a4]) = Done (VVec [VU32 (a1); VU32 (a2); VU32 (a3); VU32 (a4)])) /\
  (forall a1 a2 b1 b2, in32 a1 -> in32 a2 -> in32 b1 -> in32 b2 -> run2 [h_div_i32 2] (t_call2 "naga_div") (VVec [VI32 a1; VI32 a2]) (VVec [VI32 b1; VI32 b2]) = Done (VVec [VI32 (div_i32 a1 b1); VI32 (div_i32 a2 b2)])) /\
  (forall a1 a2 b1 b2, in32 a1 -> in32 a2 -> in32 b1 -> in32 b2 -> run2 [h_mod_i32 2] (t_call2 "naga_mod") (VVec [VI32 a1; VI32 a2]) (VVec [VI32 b1; VI32 b2]) = Done (VVec [VI32 (rem_i32 a1 b1); VI32 (rem_i32 a2 b2)])) /\
  (forall a1 a2 b1 b2, in32 a1 -> in32 a2 -> in32 b1 -> in32 b2 -> run2 [h_div_u32 2] (t_call2 "naga_div") (VVec [VU32 a1; VU32 a2]) (VVec [VU32 b1; VU32 b2]) = Done (VVec [VU32 (div_u32 a1 b1); VU32 (div_u32 a2 b2)])) /\
  (forall a1 a2 b1 b2, in32 a1 -> in32 a2 -> in32 b1 -> in32 b2 -> run2 [h_mod_u32 2] (t_call2 "naga_mod") (VVec [VU32 a1; VU32 a2]) (VVec [VU32 b1; VU32 b2]) = Done (VVec [VU32 (rem_u32 a1 b1); VU32 (rem_u32 a2 b2)])) /\
  (forall a1 a2, in32 a1 -> in32 a2 -> run1 [h_neg_i32 2] (t_call1 "naga_neg") (VVec [VI32 a1; VI32 a2]) = Done (VVec [VI32 (neg32 a1); VI32 (neg32 a2)])) /\
  (forall a1 a2, in32 a1 -> in32 a2 -> run1 [h_abs_i32 2] (t_call1 "naga_abs") (VVec [VI32 a1; VI32 a2]) = Done (VVec [VI32 (abs_i32 a1); VI32 (abs_i32 a2)])) /\
  (forall a1 a2, in32 a1 -> in32 a2 -> run1 [] (t_sign_i32 2) (VVec [VI32 a1; VI32 a2]) = Done (VVec [VI32 (sign_i32 a1); VI32 (sign_i32 a2)])) /\
  (forall a1 a2 a3 b1 b2 b3, in32 a1 -> in32 a2 -> in32 a3 -> in32 b1 -> in32 b2 -> in32 b3 -> run2 [h_div_i32 3] (t_call2 "naga_div") (VVec [VI32 a1; VI32 a2; VI32 a3]) (VVec [VI32 b1; VI32 b2; VI32 b3]) = Done (VVec [VI32 (div_i32 a1 b1); VI32 (div_i32 a2 b2); VI32 (div_i32 a3 b3)])) /\
  (forall a1 a2 a3 b1 b2 b3, in32 a1 -> in32 a2 -> in32 a3 -> in32 b1 -> in32 b2 -> in32 b3 -> run2 [h_mod_i32 3] (t_call2 "naga_mod") (VVec [VI32 a1; VI32 a2; VI32 a3]) (VVec [VI32 b1; VI32 b2; VI32 b3]) = Done (VVec [VI32 (rem_i32 a1 b1); VI32 (rem_i32 a2 b2); VI32 (rem_i32 a3 b3)])) /\
  (forall a1 a2 a3 b1 b2 b3, in32 a1 -> in32 a2 -> in32 a3 -> in32 b1 -> in32 b2 -> in32 b3 -> run2 [h_div_u32 3] (t_call2 "naga_div") (VVec [VU32 a1; VU32 a2; VU32 a3]) (VVec [VU32 b1; VU32 b2; VU32 b3]) = Done (VVec [VU32 (div_u32 a1 b1); VU32 (div_u32 a2 b2); VU32 (div_u32 a3 b3)])) /\
  (forall a1 a2 a3 b1 b2 b3, in32 a1 -> in32 a2 -> in32 a3 -> in32 b1 -> in32 b2 -> in32 b3 -> run2 [h_mod_u32 3] (t_call2 "naga_mod") (VVec [VU32 a1; VU32 a2; VU32 a3]) (VVec [VU32 b1; VU32 b2; VU32 b3]) = Done (VVec [VU32 (rem_u32 a1 b1); VU32 (rem_u32 a2 b2); VU32 (rem_u32 a3 b3)])) /\
  (forall a1 a2 a3, in32 a1 -> in32 a2 -> in32 a3 -> run1 [h_neg_i32 3] (t_call1 "naga_neg") (VVec [VI32 a1; VI32 a2; VI32 a3]) = Done (VVec [VI32 (neg32 a1); VI32 (neg32 a2); VI32 (neg32 a3)])) /\
  (forall a1 a2 a3, in32 a1 -> in32 a2 -> in32 a3 -> run1 [h_abs_i32 3] (t_call1 "naga_abs") (VVec [VI32 a1; VI32 a2; VI32 a3]) = Done (VVec [VI32 (abs_i32 a1); VI32 (abs_i32 a2); VI32 (abs_i32 a3)])) /\
  (forall a1 a2 a3, in32 a1 -> in32 a2 -> in32 a3 -> run1 [] (t_sign_i32 3) (VVec [VI32 a1; VI32 a2; VI32 a3]) = Done (VVec [VI32 (sign_i32 a1); VI32 (sign_i32 a2); VI32 (sign_i32 a3)])) /\
  (forall a1 a2 a3 a4 b1 b2 b3 b4, in32 a1 -> in32 a2 -> in32 a3 -> in32 a4 -> in32 b1 -> in32 b2 -> in32 b3 -> in32 b4 -> run2 [h_div_i32 4] (t_call2 "naga_div") (VVec [VI32 a1; VI32 a2; VI32 a3; VI32 a4]) (VVec [VI32 b1; VI32 b2; VI32 b3; VI32 b4]) = Done (VVec [VI32 (div_i32 a1 b1); VI32 (div_i32 a2 b2); VI32 (div_i32 a3 b3); VI32 (div_i32 a4 b4)])) /\
  (forall a1 a2 a3 a4 b1 b2 b3 b4, in32 a1 -> in32 a2 -> in32 a3 -> in32 a4 -> in32 b1 -> in32 b2 -> in32 b3 -> in32 b4 -> run2 [h_mod_i32 4] (t_call2 "naga_mod") (VVec [VI32 a1; VI32 a2; VI32 a3; VI32 a4]) (VVec [VI32 b1; VI32 b2; VI32 b3; VI32 b4]) = Done (VVec [VI32 (rem_i32 a1 b1); VI32 (rem_i32 a2 b2); VI32 (rem_i32 a3 b3); VI32 (rem_i32 a4 b4)])) /\
  (forall a1 a2 a3 a4 b1 b2 b3 b4, in32 a1 -> in32 a2 -> in32 a3 -> in32 a4 -> in32 b1 -> in32 b2 -> in32 b3 -> in32 b4 -> run2 [h_div_u32 4] (t_call2 "naga_div") (VVec [VU32 a1; VU32 a2; VU32 a3; VU32 a4]) (VVec [VU32 b1; VU32 b2; VU32 b3; VU32 b4]) = Done (VVec [VU32 (div_u32 a1 b1); VU32 (div_u32 a2 b2); VU32 (div_u32 a3 b3); VU32 (div_u32 a4 b4)])) /\
  (forall a1 a2 a3 a4 b1 b2 b3 b4, in32 a1 -> in32 a2 -> in32 a3 -> in32 a4 -> in32 b1 -> in32 b2 -> in32 b3 -> in32 b4 -> run2 [h_mod_u32 4] (t_call2 "naga_mod") (VVec [VU32 a1; VU32 a2; VU32 a3; VU32 a4]) (VVec [VU32 b1; VU32 b2; VU32 b3; VU32 b4]) = Done (VVec [VU32 (rem_u32 a1 b1); VU32 (rem_u32 a2 b2); VU32 (rem_u32 a3 b3); VU32 (rem_u32 a4 b4)])) /\
  (forall a1 a2 a3 a4, in32 a1 -> in32 a2 -> in32 a3 -> in32 a4 -> run1 [h_neg_i32 4] (t_call1 "naga_neg") (VVec [VI32 a1; VI32 a2; VI32 a3; VI32 a4]) = Done (VVec [VI32 (neg32 a1); VI32 (neg32 a2); VI32 (neg32 a3); VI32 (neg32 a4)])) /\
  (forall a1 a2 a3 a4, in32 a1 -> in32 a2 -> in32 a3 -> in32 a4 -> run1 [h_abs_i32 4] (t_call1 "naga_abs") (VVec [VI32 a1; VI32 a2; VI32 a3; VI32 a4]) = Done (VVec [VI32 (abs_i32 a1); VI32 (abs_i32 a2); VI32 (abs_i32 a3); VI32 (abs_i32 a4)])) /\
  (forall a1 a2 a3 a4, in32 a1 -> in32 a2 -> in32 a3 -> in32 a4 -> run1 [] (t_sign_i32 4) (VVec [VI32 a1; VI32 a2; VI32 a3; VI32 a4]) = Done (VVec [VI32 (sign_i32 a1); VI32 (sign_i32 a2); VI32 (sign_i32 a3); VI32 (sign_i32 a4)])).
Proof. exact (conj msl_add_i32_v2 (conj msl_add_u32_v2 (conj msl_sub_i32_v2 (conj msl_sub_u32_v2 (conj msl_mul_i32_v2 (conj msl_mul_u32_v2 (conj msl_abs_u32_v2 (conj msl_add_i32_v3 (conj msl_add_u32_v3 (conj msl_sub_i32_v3 (conj msl_sub_u32_v3 (conj msl_mul_i32_v3 (conj msl_mul_u32_v3 (conj msl_abs_u32_v3 (conj msl_add_i32_v4 (conj msl_add_u32_v4 (conj msl_sub_i32_v4 (conj msl_sub_u32_v4 (conj msl_mul_i32_v4 (conj msl_mul_u32_v4 (conj msl_abs_u32_v4 (conj msl_div_i32_v2 (conj msl_mod_i32_v2 (conj msl_div_u32_v2 (conj msl_mod_u32_v2 (conj msl_neg_i32_v2 (conj msl_abs_i32_v2 (conj msl_sign_i32_v2 (conj msl_div_i32_v3 (conj msl_mod_i32_v3 (conj msl_div_u32_v3 (conj msl_mod_u32_v3 (conj msl_neg_i32_v3 (conj msl_abs_i32_v3 (conj msl_sign_i32_v3 (conj msl_div_i32_v4 (conj msl_mod_i32_v4 (conj msl_div_u32_v4 (conj msl_mod_u32_v4 (conj msl_neg_i32_v4 (conj msl_abs_i32_v4 msl_sign_i32_v4))))))))))))))))))))))))))))))))))))))))). Qed.
Print Assumptions c04_vector_hardened_operators.

(* operator-level agreement of the emitted MSL template (Msl/Sem.v) with the IR expression it was generated from
   (IR/Sem.v: eval_binary / eval_unary / eval_select / eval_math / eval_as), all 32-bit operands *)
Theorem c04_msl_template_agrees_with_ir :
  (forall a b, in32 a -> in32 b -> run2 [] (t_wrap_i32 BAdd 1) (VI32 a) (VI32 b) = eval_binary Naga.IR.Syntax.BAdd (VI32 a) (VI32 b)) /\
  (forall a b, in32 a -> in32 b -> run2 [] (t_bin BAdd) (VU32 a) (VU32 b) = eval_binary Naga.IR.Syntax.BAdd (VU32 a) (VU32 b)) /\
  (forall a b, in32 a -> in32 b -> run2 [] (t_wrap_i32 BSub 1) (VI32 a) (VI32 b) = eval_binary Naga.IR.Syntax.BSub (VI32 a) (VI32 b)) /\
  (forall a b, in32 a -> in32 b -> run2 [] (t_bin BSub) (VU32 a) (VU32 b) = eval_binary Naga.IR.Syntax.BSub (VU32 a) (VU32 b)) /\
  (forall a b, in32 a -> in32 b -> run2 [] (t_wrap_i32 BMul 1) (VI32 a) (VI32 b) = eval_binary Naga.IR.Syntax.BMul (VI32 a) (VI32 b)) /\
  (forall a b, in32 a -> in32 b -> run2 [] (t_bin BMul) (VU32 a) (VU32 b) = eval_binary Naga.IR.Syntax.BMul (VU32 a) (VU32 b)) /\
  (forall a b, in32 a -> in32 b -> run2 [] (t_bin BAdd) (VF32 a) (VF32 b) = eval_binary Naga.IR.Syntax.BAdd (VF32 a) (VF32 b)) /\
  (forall a b, in32 a -> in32 b -> run2 [] (t_bin BSub) (VF32 a) (VF32 b) = eval_binary Naga.IR.Syntax.BSub (VF32 a) (VF32 b)) /\
  (forall a b, in32 a -> in32 b -> run2 [] (t_bin BMul) (VF32 a) (VF32 b) = eval_binary Naga.IR.Syntax.BMul (VF32 a) (VF32 b)) /\
  (forall a b, in32 a -> in32 b -> run2 [] (t_bin BDiv) (VF32 a) (VF32 b) = eval_binary Naga.IR.Syntax.BDiv (VF32 a) (VF32 b)) /\
  (forall a b, in32 a -> in32 b -> run2 [] (t_bin BEq) (VI32 a) (VI32 b) = eval_binary Naga.IR.Syntax.BEq (VI32 a) (VI32 b)) /\
  (forall a b, in32 a -> in32 b -> run2 [] (t_bin BNe) (VI32 a) (VI32 b) = eval_binary Naga.IR.Syntax.BNe (VI32 a) (VI32 b)) /\
  (forall a b, in32 a -> in32 b -> run2 [] (t_bin BLt) (VI32 a) (VI32 b) = eval_binary Naga.IR.Syntax.BLt (VI32 a) (VI32 b)) /\
  (forall a b, in32 a -> in32 b -> run2 [] (t_bin BLe) (VI32 a) (VI32 b) = eval_binary Naga.IR.Syntax.BLe (VI32 a) (VI32 b)) /\
  (forall a b, in32 a -> in32 b -> run2 [] (t_bin BGt) (VI32 a) (VI32 b) = eval_binary Naga.IR.Syntax.BGt (VI32 a) (VI32 b)) /\
  (forall a b, in32 a -> in32 b -> run2 [] (t_bin BGe) (VI32 a) (VI32 b) = eval_binary Naga.IR.Syntax.BGe (VI32 a) (VI32 b)) /\
  (forall a b, in32 a -> in32 b -> run2 [] (t_bin BEq) (VU32 a) (VU32 b) = eval_binary Naga.IR.Syntax.BEq (VU32 a) (VU32 b)) /\
  (forall a b, in32 a -> in32 b -> run2 [] (t_bin BNe) (VU32 a) (VU32 b) = eval_binary Naga.IR.Syntax.BNe (VU32 a) (VU32 b)) /\
  (forall a b, in32 a -> in32 b -> run2 [] (t_bin BLt) (VU32 a) (VU32 b) = eval_binary Naga.IR.Syntax.BLt (VU32 a) (VU32 b)) /\
  (forall a b, in32 a -> in32 b -> run2 [] (t_bin BLe) (VU32 a) (VU32 b) = eval_binary Naga.IR.Syntax.BLe (VU32 a) (VU32 b)) /\
  (forall a b, in32 a -> in32 b -> run2 [] (t_bin BGt) (VU32 a) (VU32 b) = eval_binary Naga.IR.Syntax.BGt (VU32 a) (VU32 b)) /\
  (forall a b, in32 a -> in32 b -> run2 [] (t_bin BGe) (VU32 a) (VU32 b) = eval_binary Naga.IR.Syntax.BGe (VU32 a) (VU32 b)) /\
  (forall a b, in32 a -> in32 b -> run2 [] (t_bin BEq) (VF32 a) (VF32 b) = eval_binary Naga.IR.Syntax.BEq (VF32 a) (VF32 b)) /\
  (forall a b, in32 a -> in32 b -> run2 [] (t_bin BNe) (VF32 a) (VF32 b) = eval_binary Naga.IR.Syntax.BNe (VF32 a) (VF32 b)) /\
  (forall a b, in32 a -> in32 b -> run2 [] (t_bin BLt) (VF32 a) (VF32 b) = eval_binary Naga.IR.Syntax.BLt (VF32 a) (VF32 b)) /\
  (forall a b, in32 a -> in32 b -> run2 [] (t_bin BLe) (VF32 a) (VF32 b) = eval_binary Naga.IR.Syntax.BLe (VF32 a) (VF32 b)) /\
  (forall a b, in32 a -> in32 b -> run2 [] (t_bin BGt) (VF32 a) (VF32 b) = eval_binary Naga.IR.Syntax.BGt (VF32 a) (VF32 b)) /\
  (forall a b, in32 a -> in32 b -> run2 [] (t_bin BGe) (VF32 a) (VF32 b) = eval_binary Naga.IR.Syntax.BGe (VF32 a) (VF32 b)) /\
  (forall a b, run2 [] (t_bin BEq) (VBool a) (VBool b) = eval_binary Naga.IR.Syntax.BEq (VBool a) (VBool b)) /\
  (forall a b, run2 [] (t_bin BNe) (VBool a) (VBool b) = eval_binary Naga.IR.Syntax.BNe (VBool a) (VBool b)) /\
  (forall a b, in32 a -> in32 b -> run2 [] (t_bin BAnd) (VI32 a) (VI32 b) = eval_binary Naga.IR.Syntax.BAnd (VI32 a) (VI32 b)) /\
  (forall a b, in32 a -> in32 b -> run2 [] (t_bin BOr) (VI32 a) (VI32 b) = eval_binary Naga.IR.Syntax.BOr (VI32 a) (VI32 b)) /\
  (forall a b, in32 a -> in32 b -> run2 [] (t_bin BXor) (VI32 a) (VI32 b) = eval_binary Naga.IR.Syntax.BXor (VI32 a) (VI32 b)) /\
  (forall a b, in32 a -> in32 b -> run2 [] (t_bin BShl) (VI32 a) (VU32 b) = eval_binary Naga.IR.Syntax.BShl (VI32 a) (VU32 b)) /\
  (forall a b, in32 a -> in32 b -> run2 [] (t_bin BShr) (VI32 a) (VU32 b) = eval_binary Naga.IR.Syntax.BShr (VI32 a) (VU32 b)) /\
  (forall a, in32 a -> run1 [] (EUn UBitNot va) (VI32 a) = eval_unary Naga.IR.Syntax.UBitwiseNot (VI32 a)) /\
  (forall a b, in32 a -> in32 b -> run2 [] (t_bin BAnd) (VU32 a) (VU32 b) = eval_binary Naga.IR.Syntax.BAnd (VU32 a) (VU32 b)) /\
  (forall a b, in32 a -> in32 b -> run2 [] (t_bin BOr) (VU32 a) (VU32 b) = eval_binary Naga.IR.Syntax.BOr (VU32 a) (VU32 b)) /\
  (forall a b, in32 a -> in32 b -> run2 [] (t_bin BXor) (VU32 a) (VU32 b) = eval_binary Naga.IR.Syntax.BXor (VU32 a) (VU32 b)) /\
  (forall a b, in32 a -> in32 b -> run2 [] (t_bin BShl) (VU32 a) (VU32 b) = eval_binary Naga.IR.Syntax.BShl (VU32 a) (VU32 b)) /\
  (forall a b, in32 a -> in32 b -> run2 [] (t_bin BShr) (VU32 a) (VU32 b) = eval_binary Naga.IR.Syntax.BShr (VU32 a) (VU32 b)) /\
  (forall a, in32 a -> run1 [] (EUn UBitNot va) (VU32 a) = eval_unary Naga.IR.Syntax.UBitwiseNot (VU32 a)) /\
  (forall a b, run2 [] (t_bin BAnd) (VBool a) (VBool b) = eval_binary Naga.IR.Syntax.BAnd (VBool a) (VBool b)) /\
  (forall a b, run2 [] (t_bin BOr) (VBool a) (VBool b) = eval_binary Naga.IR.Syntax.BOr (VBool a) (VBool b)) /\
  (forall a, run1 [] (EUn UNot va) (VBool a) = eval_unary Naga.IR.Syntax.ULogicalNot (VBool a)) /\
  (forall a, in32 a -> run1 [] (EUn UNeg va) (VF32 a) = eval_unary Naga.IR.Syntax.UNegate (VF32 a)) /\
  (forall a b c, run3 [] t_ternary (VI32 a) (VI32 b) (VBool c) = eval_select (VBool c) (VI32 b) (VI32 a)) /\
  (forall a b c, run3 [] t_ternary (VU32 a) (VU32 b) (VBool c) = eval_select (VBool c) (VU32 b) (VU32 a)) /\
  (forall a b c, run3 [] t_ternary (VF32 a) (VF32 b) (VBool c) = eval_select (VBool c) (VF32 b) (VF32 a)) /\
  (forall a b c, run3 [] t_ternary (VBool a) (VBool b) (VBool c) = eval_select (VBool c) (VBool b) (VBool a)) /\
  (forall a, in32 a -> run1 [] (t_call1 "metal::abs") (VU32 a) = eval_math "MathAbs" [VU32 a]) /\
  (forall a, in32 a -> run1 [] (t_call1 "metal::abs") (VF32 a) = eval_math "MathAbs" [VF32 a]) /\
  (forall a b, in32 a -> in32 b -> run2 [] (t_call2 "metal::min") (VI32 a) (VI32 b) = eval_math "MathMin" [VI32 a; VI32 b]) /\
  (forall a b, in32 a -> in32 b -> run2 [] (t_call2 "metal::max") (VI32 a) (VI32 b) = eval_math "MathMax" [VI32 a; VI32 b]) /\
  (forall a b c, in32 a -> in32 b -> in32 c -> run3 [] (t_call3 "metal::clamp") (VI32 a) (VI32 b) (VI32 c) = eval_math "MathClamp" [VI32 a; VI32 b; VI32 c]) /\
  (forall a b, in32 a -> in32 b -> run2 [] (t_call2 "metal::min") (VU32 a) (VU32 b) = eval_math "MathMin" [VU32 a; VU32 b]) /\
  (forall a b, in32 a -> in32 b -> run2 [] (t_call2 "metal::max") (VU32 a) (VU32 b) = eval_math "MathMax" [VU32 a; VU32 b]) /\
  (forall a b c, in32 a -> in32 b -> in32 c -> run3 [] (t_call3 "metal::clamp") (VU32 a) (VU32 b) (VU32 c) = eval_math "MathClamp" [VU32 a; VU32 b; VU32 c]) /\
  (forall a b, in32 a -> in32 b -> run2 [] (t_call2 "metal::min") (VF32 a) (VF32 b) = eval_math "MathMin" [VF32 a; VF32 b]) /\
  (forall a b, in32 a -> in32 b -> run2 [] (t_call2 "metal::max") (VF32 a) (VF32 b) = eval_math "MathMax" [VF32 a; VF32 b]) /\
  (forall a b c, in32 a -> in32 b -> in32 c -> run3 [] (t_call3 "metal::clamp") (VF32 a) (VF32 b) (VF32 c) = eval_math "MathClamp" [VF32 a; VF32 b; VF32 c]) /\
  (forall a, in32 a -> run1 [] (t_call1 "metal::popcount") (VI32 a) = eval_math "MathCountOneBits" [VI32 a]) /\
  (forall a, in32 a -> run1 [] (t_call1 "metal::clz") (VI32 a) = eval_math "MathCountLeadingZeros" [VI32 a]) /\
  (forall a, in32 a -> run1 [] (t_call1 "metal::ctz") (VI32 a) = eval_math "MathCountTrailingZeros" [VI32 a]) /\
  (forall a, in32 a -> run1 [] (t_call1 "metal::reverse_bits") (VI32 a) = eval_math "MathReverseBits" [VI32 a]) /\
  (forall a, in32 a -> run1 [] (t_call1 "metal::popcount") (VU32 a) = eval_math "MathCountOneBits" [VU32 a]) /\
  (forall a, in32 a -> run1 [] (t_call1 "metal::clz") (VU32 a) = eval_math "MathCountLeadingZeros" [VU32 a]) /\
  (forall a, in32 a -> run1 [] (t_call1 "metal::ctz") (VU32 a) = eval_math "MathCountTrailingZeros" [VU32 a]) /\
  (forall a, in32 a -> run1 [] (t_call1 "metal::reverse_bits") (VU32 a) = eval_math "MathReverseBits" [VU32 a]) /\
  (forall a, in32 a -> run1 [] (t_call1 "metal::floor") (VF32 a) = eval_math "MathFloor" [VF32 a]) /\
  (forall a, in32 a -> run1 [] (t_call1 "metal::ceil") (VF32 a) = eval_math "MathCeil" [VF32 a]) /\
  (forall a, in32 a -> run1 [] (t_call1 "metal::trunc") (VF32 a) = eval_math "MathTrunc" [VF32 a]) /\
  (forall a, in32 a -> run1 [] (t_call1 "metal::sqrt") (VF32 a) = eval_math "MathSqrt" [VF32 a]) /\
  (forall a, in32 a -> run1 [] (t_call1 "metal::saturate") (VF32 a) = eval_math "MathSaturate" [VF32 a]) /\
  (forall a b c, in32 a -> in32 b -> in32 c -> run3 [] (t_call3 "metal::fma") (VF32 a) (VF32 b) (VF32 c) = eval_math "MathFma" [VF32 a; VF32 b; VF32 c]) /\
  (forall a, in32 a -> run1 [] (ECast (tyv 1 SUint) va) (VI32 a) = eval_as Naga.IR.Syntax.Uint (Some 4) (VI32 a)) /\
  (forall a, in32 a -> run1 [] (ECast (tyv 1 SFloat) va) (VI32 a) = eval_as Naga.IR.Syntax.Float (Some 4) (VI32 a)) /\
  (forall a, in32 a -> run1 [] (ECast (tyv 1 SBool) va) (VI32 a) = eval_as Naga.IR.Syntax.SBool (Some 1) (VI32 a)) /\
  (forall a, in32 a -> run1 [] (ECast (tyv 1 SInt) va) (VU32 a) = eval_as Naga.IR.Syntax.Sint (Some 4) (VU32 a)) /\
  (forall a, in32 a -> run1 [] (ECast (tyv 1 SFloat) va) (VU32 a) = eval_as Naga.IR.Syntax.Float (Some 4) (VU32 a)) /\
  (forall a, in32 a -> run1 [] (ECast (tyv 1 SBool) va) (VU32 a) = eval_as Naga.IR.Syntax.SBool (Some 1) (VU32 a)) /\
  (forall a, in32 a -> run1 [] (ECast (tyv 1 SBool) va) (VF32 a) = eval_as Naga.IR.Syntax.SBool (Some 1) (VF32 a)) /\
  (forall a, run1 [] (ECast (tyv 1 SInt) va) (VBool a) = eval_as Naga.IR.Syntax.Sint (Some 4) (VBool a)) /\
  (forall a, run1 [] (ECast (tyv 1 SUint) va) (VBool a) = eval_as Naga.IR.Syntax.Uint (Some 4) (VBool a)) /\
  (forall a, run1 [] (ECast (tyv 1 SFloat) va) (VBool a) = eval_as Naga.IR.Syntax.Float (Some 4) (VBool a)) /\
  (forall a, in32 a -> run1 [] (EAsType (tyv 1 SUint) va) (VI32 a) = eval_as Naga.IR.Syntax.Uint None (VI32 a)) /\
  (forall a, in32 a -> run1 [] (EAsType (tyv 1 SFloat) va) (VI32 a) = eval_as Naga.IR.Syntax.Float None (VI32 a)) /\
  (forall a, in32 a -> run1 [] (EAsType (tyv 1 SInt) va) (VU32 a) = eval_as Naga.IR.Syntax.Sint None (VU32 a)) /\
  (forall a, in32 a -> run1 [] (EAsType (tyv 1 SFloat) va) (VU32 a) = eval_as Naga.IR.Syntax.Float None (VU32 a)) /\
  (forall a, in32 a -> run1 [] (EAsType (tyv 1 SInt) va) (VF32 a) = eval_as Naga.IR.Syntax.Sint None (VF32 a)) /\
  (forall a, in32 a -> run1 [] (EAsType (tyv 1 SUint) va) (VF32 a) = eval_as Naga.IR.Syntax.Uint None (VF32 a)) /\
  (forall a b, in32 a -> in32 b -> run2 [h_div_i32 1] (t_call2 "naga_div") (VI32 a) (VI32 b) = eval_binary Naga.IR.Syntax.BDiv (VI32 a) (VI32 b)) /\
  (forall a b, in32 a -> in32 b -> run2 [h_mod_i32 1] (t_call2 "naga_mod") (VI32 a) (VI32 b) = eval_binary Naga.IR.Syntax.BMod (VI32 a) (VI32 b)) /\
  (forall a b, in32 a -> in32 b -> run2 [h_div_u32 1] (t_call2 "naga_div") (VU32 a) (VU32 b) = eval_binary Naga.IR.Syntax.BDiv (VU32 a) (VU32 b)) /\
  (forall a b, in32 a -> in32 b -> run2 [h_mod_u32 1] (t_call2 "naga_mod") (VU32 a) (VU32 b) = eval_binary Naga.IR.Syntax.BMod (VU32 a) (VU32 b)) /\
  (forall a, in32 a -> run1 [h_neg_i32 1] (t_call1 "naga_neg") (VI32 a) = eval_unary Naga.IR.Syntax.UNegate (VI32 a)) /\
  (forall a, in32 a -> run1 [h_abs_i32 1] (t_call1 "naga_abs") (VI32 a) = eval_math "MathAbs" [VI32 a]) /\
  (forall a, in32 a -> run1 [] (t_sign_i32 1) (VI32 a) = eval_math "MathSign" [VI32 a]) /\
  (forall a, in32 a -> run1 [] t_ftb (VI32 a) = eval_math "MathFirstTrailingBit" [VI32 a]) /\
  (forall a, in32 a -> run1 [] t_ftb (VU32 a) = eval_math "MathFirstTrailingBit" [VU32 a]) /\
  (forall a, in32 a -> run1 [] (t_flb_i32 1) (VI32 a) = eval_math "MathFirstLeadingBit" [VI32 a]) /\
  (forall a b c, in32 a -> in32 b -> in32 c -> run3 [] t_extract (VU32 a) (VU32 b) (VU32 c) = eval_math "MathExtractBits" [VU32 a; VU32 b; VU32 c]) /\
  (forall a b c, in32 a -> in32 b -> in32 c -> run3 [] t_extract (VI32 a) (VU32 b) (VU32 c) = eval_math "MathExtractBits" [VI32 a; VU32 b; VU32 c]) /\
  (forall a b c d, in32 a -> in32 b -> in32 c -> in32 d -> run_tmpl [] t_insert (VU32 a) (VU32 b) (VU32 c) (VU32 d) = eval_math "MathInsertBits" [VU32 a; VU32 b; VU32 c; VU32 d]) /\
  (forall a b c d, in32 a -> in32 b -> in32 c -> in32 d -> run_tmpl [] t_insert (VI32 a) (VI32 b) (VU32 c) (VU32 d) = eval_math "MathInsertBits" [VI32 a; VI32 b; VU32 c; VU32 d]).
Proof. exact (conj agree_add_i32 (conj agree_add_u32 (conj agree_sub_i32 (conj agree_sub_u32 (conj agree_mul_i32 (conj agree_mul_u32 (conj agree_add_f32 (conj agree_sub_f32 (conj agree_mul_f32 (conj agree_div_f32 (conj agree_eq_i32 (conj agree_ne_i32 (conj agree_lt_i32 (conj agree_le_i32 (conj agree_gt_i32 (conj agree_ge_i32 (conj agree_eq_u32 (conj agree_ne_u32 (conj agree_lt_u32 (conj agree_le_u32 (conj agree_gt_u32 (conj agree_ge_u32 (conj agree_eq_f32 (conj agree_ne_f32 (conj agree_lt_f32 (conj agree_le_f32 (conj agree_gt_f32 (conj agree_ge_f32 (conj agree_eq_bool (conj agree_ne_bool (conj agree_and_i32 (conj agree_or_i32 (conj agree_xor_i32 (conj agree_shl_i32 (conj agree_shr_i32 (conj agree_not_i32 (conj agree_and_u32 (conj agree_or_u32 (conj agree_xor_u32 (conj agree_shl_u32 (conj agree_shr_u32 (conj agree_not_u32 (conj agree_and_bool (conj agree_or_bool (conj agree_lnot_bool (conj agree_neg_f32 (conj agree_select_i32 (conj agree_select_u32 (conj agree_select_f32 (conj agree_select_bool (conj agree_abs_u32 (conj agree_abs_f32 (conj agree_min_i32 (conj agree_max_i32 (conj agree_clamp_i32 (conj agree_min_u32 (conj agree_max_u32 (conj agree_clamp_u32 (conj agree_min_f32 (conj agree_max_f32 (conj agree_clamp_f32 (conj agree_popcount_i32 (conj agree_clz_i32 (conj agree_ctz_i32 (conj agree_reversebits_i32 (conj agree_popcount_u32 (conj agree_clz_u32 (conj agree_ctz_u32 (conj agree_reversebits_u32 (conj agree_floor_f32 (conj agree_ceil_f32 (conj agree_trunc_f32 (conj agree_sqrt_f32 (conj agree_saturate_f32 (conj agree_fma_f32 (conj agree_conv_i32_u32 (conj agree_conv_i32_f32 (conj agree_conv_i32_bool (conj agree_conv_u32_i32 (conj agree_conv_u32_f32 (conj agree_conv_u32_bool (conj agree_conv_f32_bool (conj agree_conv_bool_i32 (conj agree_conv_bool_u32 (conj agree_conv_bool_f32 (conj agree_bitcast_i32_u32 (conj agree_bitcast_i32_f32 (conj agree_bitcast_u32_i32 (conj agree_bitcast_u32_f32 (conj agree_bitcast_f32_i32 (conj agree_bitcast_f32_u32 (conj agree_div_i32 (conj agree_mod_i32 (conj agree_div_u32 (conj agree_mod_u32 (conj agree_neg_i32 (conj agree_abs_i32 (conj agree_sign_i32 (conj agree_firsttrailingbit_i32 (conj agree_firsttrailingbit_u32 (conj agree_firstleadingbit_i32 (conj agree_extractbits_u32 (conj agree_extractbits_i32 (conj agree_insertbits_u32 agree_insertbits_i32)))))))))))))))))))))))))))))))))))))))))))))))))))))))))))))))))))))))))))))))))))))))))))))))))))))))). Qed.
Print Assumptions c04_msl_template_agrees_with_ir.

(* vector shapes of the bit-field / bit-scan builtins and of the float->int helpers *)
Theorem c04_vector_bit_builtins_and_float_to_int :
  (forall a1 a2 b c, in32 b -> in32 c -> run3 [] t_extract (VVec [VI32 a1; VI32 a2]) (VU32 b) (VU32 c) = Done (VVec [VI32 (extract_bits_i32 a1 b c); VI32 (extract_bits_i32 a2 b c)])) /\
  (forall a1 a2 b1 b2 c d, in32 c -> in32 d -> run_tmpl [] t_insert (VVec [VI32 a1; VI32 a2]) (VVec [VI32 b1; VI32 b2]) (VU32 c) (VU32 d) = Done (VVec [VI32 (insert_bits a1 b1 c d); VI32 (insert_bits a2 b2 c d)])) /\
  (forall a1 a2 b c, in32 b -> in32 c -> run3 [] t_extract (VVec [VU32 a1; VU32 a2]) (VU32 b) (VU32 c) = Done (VVec [VU32 (extract_bits_u32 a1 b c); VU32 (extract_bits_u32 a2 b c)])) /\
  (forall a1 a2 b1 b2 c d, in32 c -> in32 d -> run_tmpl [] t_insert (VVec [VU32 a1; VU32 a2]) (VVec [VU32 b1; VU32 b2]) (VU32 c) (VU32 d) = Done (VVec [VU32 (insert_bits a1 b1 c d); VU32 (insert_bits a2 b2 c d)])) /\
  (forall a1 a2, in32 a1 -> in32 a2 -> run1 [] t_ftb (VVec [VU32 a1; VU32 a2]) = Done (VVec [VU32 (first_trailing_bit a1); VU32 (first_trailing_bit a2)])) /\
  (forall a1 a2, is_nan_bits a1 = false -> flt F_HI a1 = false -> is_nan_bits a2 = false -> flt F_HI a2 = false -> run1 [h_f2i32 2] (t_call1 "naga_f2i32") (VVec [VF32 a1; VF32 a2]) = Done (VVec [VI32 (i32_of_f32 a1); VI32 (i32_of_f32 a2)])) /\
  (forall a1 a2, flt F_UHI a1 = false -> flt F_UHI a2 = false -> run1 [h_f2u32 2] (t_call1 "naga_f2u32") (VVec [VF32 a1; VF32 a2]) = Done (VVec [VU32 (u32_of_f32 a1); VU32 (u32_of_f32 a2)])) /\
  (forall a1 a2 a3 b c, in32 b -> in32 c -> run3 [] t_extract (VVec [VI32 a1; VI32 a2; VI32 a3]) (VU32 b) (VU32 c) = Done (VVec [VI32 (extract_bits_i32 a1 b c); VI32 (extract_bits_i32 a2 b c); VI32 (extract_bits_i32 a3 b c)])) /\
  (forall a1 a2 a3 b1 b2 b3 c d, in32 c -> in32 d -> run_tmpl [] t_insert (VVec [VI32 a1; VI32 a2; VI32 a3]) (VVec [VI32 b1; VI32 b2; VI32 b3]) (VU32 c) (VU32 d) = Done (VVec [VI32 (insert_bits a1 b1 c d); VI32 (insert_bits a2 b2 c d); VI32 (insert_bits a3 b3 c d)])) /\
  (forall a1 a2 a3 b c, in32 b -> in32 c -> run3 [] t_extract (VVec [VU32 a1; VU32 a2; VU32 a3]) (VU32 b) (VU32 c) = Done (VVec [VU32 (extract_bits_u32 a1 b c); VU32 (extract_bits_u32 a2 b c); VU32 (extract_bits_u32 a3 b c)])) /\
  (forall a1 a2 a3 b1 b2 b3 c d, in32 c -> in32 d -> run_tmpl [] t_insert (VVec [VU32 a1; VU32 a2; VU32 a3]) (VVec [VU32 b1; VU32 b2; VU32 b3]) (VU32 c) (VU32 d) = Done (VVec [VU32 (insert_bits a1 b1 c d); VU32 (insert_bits a2 b2 c d); VU32 (insert_bits a3 b3 c d)])) /\
  (forall a1 a2 a3, in32 a1 -> in32 a2 -> in32 a3 -> run1 [] t_ftb (VVec [VU32 a1; VU32 a2; VU32 a3]) = Done (VVec [VU32 (first_trailing_bit a1); VU32 (first_trailing_bit a2); VU32 (first_trailing_bit a3)])) /\
  (forall a1 a2 a3, is_nan_bits a1 = false -> flt F_HI a1 = false -> is_nan_bits a2 = false -> flt F_HI a2 = false -> is_nan_bits a3 = false -> flt F_HI a3 = false -> run1 [h_f2i32 3] (t_call1 "naga_f2i32") (VVec [VF32 a1; VF32 a2; VF32 a3]) = Done (VVec [VI32 (i32_of_f32 a1); VI32 (i32_of_f32 a2); VI32 (i32_of_f32 a3)])) /\
  (forall a1 a2 a3, flt F_UHI a1 = false -> flt F_UHI a2 = false -> flt F_UHI a3 = false -> run1 [h_f2u32 3] (t_call1 "naga_f2u32") (VVec [VF32 a1; VF32 a2; VF32 a3]) = Done (VVec [VU32 (u32_of_f32 a1); VU32 (u32_of_f32 a2); VU32 (u32_of_f32 a3)])) /\
  (forall a1 a2 a3 a4 b c, in32 b -> in32 c -> run3 [] t_extract (VVec [VI32 a1; VI32 a2; VI32 a3; VI32 a4]) (VU32 b) (VU32 c) = Done (VVec [VI32 (extract_bits_i32 a1 b c); VI32 (extract_bits_i32 a2 b c); VI32 (extract_bits_i32 a3 b c); VI32 (extract_bits_i32 a4 b c)])) /\
  (forall a1 a2 a3 a4 b1 b2 b3 b4 c d, in32 c -> in32 d -> run_tmpl [] t_insert (VVec [VI32 a1; VI32 a2; VI32 a3; VI32 a4]) (VVec [VI32 b1; VI32 b2; VI32 b3; VI32 b4]) (VU32 c) (VU32 d) = Done (VVec [VI32 (insert_bits a1 b1 c d); VI32 (insert_bits a2 b2 c d); VI32 (insert_bits a3 b3 c d); VI32 (insert_bits a4 b4 c d)])) /\
  (forall a1 a2 a3 a4 b c, in32 b -> in32 c -> run3 [] t_extract (VVec [VU32 a1; VU32 a2; VU32 a3; VU32 a4]) (VU32 b) (VU32 c) = Done (VVec [VU32 (extract_bits_u32 a1 b c); VU32 (extract_bits_u32 a2 b c); VU32 (extract_bits_u32 a3 b c); VU32 (extract_bits_u32 a4 b c)])) /\
  (forall a1 a2 a3 a4 b1 b2 b3 b4 c d, in32 c -> in32 d -> run_tmpl [] t_insert (VVec [VU32 a1; VU32 a2; VU32 a3; VU32 a4]) (VVec [VU32 b1; VU32 b2; VU32 b3; VU32 b4]) (VU32 c) (VU32 d) = Done (VVec [VU32 (insert_bits a1 b1 c d); VU32 (insert_bits a2 b2 c d); VU32 (insert_bits a3 b3 c d); VU32 (insert_bits a4 b4 c d)])) /\
  (forall a1 a2 a3 a4, in32 a1 -> in32 a2 -> in32 a3 -> in32 a4 -> run1 [] t_ftb (VVec [VU32 a1; VU32 a2; VU32 a3; VU32 a4]) = Done (VVec [VU32 (first_trailing_bit a1); VU32 (first_trailing_bit a2); VU32 (first_trailing_bit a3); VU32 (first_trailing_bit a4)])) /\
  (forall a1 a2 a3 a4, is_nan_bits a1 = false -> flt F_HI a1 = false -> is_nan_bits a2 = false -> flt F_HI a2 = false -> is_nan_bits a3 = false -> flt F_HI a3 = false -> is_nan_bits a4 = false -> flt F_HI a4 = false -> run1 [h_f2i32 4] (t_call1 "naga_f2i32") (VVec [VF32 a1; VF32 a2; VF32 a3; VF32 a4]) = Done (VVec [VI32 (i32_of_f32 a1); VI32 (i32_of_f32 a2); VI32 (i32_of_f32 a3); VI32 (i32_of_f32 a4)])) /\
  (forall a1 a2 a3 a4, flt F_UHI a1 = false -> flt F_UHI a2 = false -> flt F_UHI a3 = false -> flt F_UHI a4 = false -> run1 [h_f2u32 4] (t_call1 "naga_f2u32") (VVec [VF32 a1; VF32 a2; VF32 a3; VF32 a4]) = Done (VVec [VU32 (u32_of_f32 a1); VU32 (u32_of_f32 a2); VU32 (u32_of_f32 a3); VU32 (u32_of_f32 a4)])) /\
  (forall a1 a2, in32 a1 -> in32 a2 -> run1 [] t_ftb (VVec [VI32 a1; VI32 a2]) = Done (VVec [VI32 (first_trailing_bit a1); VI32 (first_trailing_bit a2)])) /\
  (forall a1 a2, in32 a1 -> in32 a2 -> run1 [] (t_flb_i32 2) (VVec [VI32 a1; VI32 a2]) = Done (VVec [VI32 (first_leading_bit_i32 a1); VI32 (first_leading_bit_i32 a2)])) /\
  (forall a1 a2, in32 a1 -> a1 <> 4294967295 -> in32 a2 -> a2 <> 4294967295 -> run1 [] (t_flb_u32 2) (VVec [VU32 a1; VU32 a2]) = Done (VVec [VU32 (first_leading_bit_u32 a1); VU32 (first_leading_bit_u32 a2)])) /\
  (forall a1 a2 a3, in32 a1 -> in32 a2 -> in32 a3 -> run1 [] t_ftb (VVec [VI32 a1; VI32 a2; VI32 a3]) = Done (VVec [VI32 (first_trailing_bit a1); VI32 (first_trailing_bit a2); VI32 (first_trailing_bit a3)])) /\
  (forall a1 a2 a3, in32 a1 -> in32 a2 -> in32 a3 -> run1 [] (t_flb_i32 3) (VVec [VI32 a1; VI32 a2; VI32 a3]) = Done (VVec [VI32 (first_leading_bit_i32 a1); VI32 (first_leading_bit_i32 a2); VI32 (first_leading_bit_i32 a3)])) /\
  (forall a1 a2 a3, in32 a1 -> a1 <> 4294967295 -> in32 a2 -> a2 <> 4294967295 -> in32 a3 -> a3 <> 4294967295 -> run1 [] (t_flb_u32 3) (VVec [VU32 a1; VU32 a2; VU32 a3]) = Done (VVec [VU32 (first_leading_bit_u32 a1); VU32 (first_leading_bit_u32 a2); VU32 (first_leading_bit_u32 a3)])) /\
  (forall a1 a2 a3 a4, in32 a1 -> in32 a2 -> in32 a3 -> in32 a4 -> run1 [] t_ftb (VVec [VI32 a1; VI32 a2; VI32 a3; VI32 a4]) = Done (VVec [VI32 (first_trailing_bit a1); VI32 (first_trailing_bit a2); VI32 (first_trailing_bit a3); VI32 (first_trailing_bit a4)])) /\
  (forall a1 a2 a3 a4, in32 a1 -> in32 a2 -> in32 a3 -> in32 a4 -> run1 [] (t_flb_i32 4) (VVec [VI32 a1; VI32 a2; VI32 a3; VI32 a4]) = Done (VVec [VI32 (first_leading_bit_i32 a1); VI32 (first_leading_bit_i32 a2); VI32 (first_leading_bit_i32 a3); VI32 (first_leading_bit_i32 a4)])) /\
  (forall a1 a2 a3 a4, in32 a1 -> a1 <> 4294967295 -> in32 a2 -> a2 <> 4294967295 -> in32 a3 -> a3 <> 4294967295 -> in32 a4 -> a4 <> 4294967295 -> run1 [] (t_flb_u32 4) (VVec [VU32 a1; VU32 a2; VU32 a3; VU32 a4]) = Done (VVec [VU32 (first_leading_bit_u32 a1); VU32 (first_leading_bit_u32 a2); VU32 (first_leading_bit_u32 a3); VU32 (first_leading_bit_u32 a4)])).
Proof. exact (conj msl_extractbits_i32_v2 (conj msl_insertbits_i32_v2 (conj msl_extractbits_u32_v2 (conj msl_insertbits_u32_v2 (conj msl_firsttrailingbit_u32_v2 (conj msl_conv_f32_i32_v2_correct_below_2p31 (conj msl_conv_f32_u32_v2_correct_below_2p32 (conj msl_extractbits_i32_v3 (conj msl_insertbits_i32_v3 (conj msl_extractbits_u32_v3 (conj msl_insertbits_u32_v3 (conj msl_firsttrailingbit_u32_v3 (conj msl_conv_f32_i32_v3_correct_below_2p31 (conj msl_conv_f32_u32_v3_correct_below_2p32 (conj msl_extractbits_i32_v4 (conj msl_insertbits_i32_v4 (conj msl_extractbits_u32_v4 (conj msl_insertbits_u32_v4 (conj msl_firsttrailingbit_u32_v4 (conj msl_conv_f32_i32_v4_correct_below_2p31 (conj msl_conv_f32_u32_v4_correct_below_2p32 (conj msl_firsttrailingbit_i32_v2 (conj msl_firstleadingbit_i32_v2 (conj msl_firstleadingbit_u32_v2_correct_except_allones (conj msl_firsttrailingbit_i32_v3 (conj msl_firstleadingbit_i32_v3 (conj msl_firstleadingbit_u32_v3_correct_except_allones (conj msl_firsttrailingbit_i32_v4 (conj msl_firstleadingbit_i32_v4 msl_firstleadingbit_u32_v4_correct_except_allones))))))))))))))))))))))))))))). Qed.
Print Assumptions c04_vector_bit_builtins_and_float_to_int.

(* non-vacuity: concrete instances at the boundaries; the un-wrapped forms really are undefined in the strict semantics *)
Example c04_example_add_wraps :
  run2 [] (t_wrap_i32 BAdd 1) (VI32 2147483647) (VI32 1) = Done (VI32 2147483648)
  /\ run2 [] (t_bin BAdd) (VI32 2147483647) (VI32 1) = Fail "UB: signed overflow".
Proof. split; vm_compute; reflexivity. Qed.
Example c04_example_div_guards :
  run2 [h_div_i32 1] (t_call2 "naga_div") (VI32 2147483648) (VI32 4294967295) = Done (VI32 2147483648)
  /\ run2 [h_div_i32 1] (t_call2 "naga_div") (VI32 7) (VI32 0) = Done (VI32 7)
  /\ run2 [] (t_bin BDiv) (VI32 2147483648) (VI32 4294967295) = Fail "UB: signed overflow"
  /\ run2 [] (t_bin BDiv) (VI32 7) (VI32 0) = Fail "UB: division by zero".
Proof. repeat split; vm_compute; reflexivity. Qed.
Example c04_example_table_nonempty : (400 <? Z.of_nat (List.length table)) = true.
Proof. vm_compute. reflexivity. Qed.


(* ==== statement level: the control-flow ENCODINGS (coq/Target/*.v) =========================================
   Theorems for ALL bodies / continuing blocks / conditions / states / fuels about the fixed ways in which naga
   encodes structured control flow, over the generic structured language of Target/Structured.v whose semantics IS
   the IR reference interpreter (c04_ir_interpreter_is_generic: exact equality with IR/Sem.v) and whose rules are
   those of the target interpreters (Target/GlslInstance.v).  Tied to /repo on every run by the recogniser
   Target/Shapes.v (tool cfshape) over every emitted text: a loop or switch outside the proved shapes is reported. *)
Require Import Naga.Target.Structured Naga.Target.LoopInit Naga.Target.LoopBound Naga.Target.ContinueForward
        Naga.Target.SwitchForms Naga.Target.Desugar Naga.Target.IrInstance Naga.Target.GlslInstance Naga.Target.Examples.

(* IR/Sem.v's interpreter is the generic interpreter on the translation IrInstance.tr: exact equality, all fuels *)
Theorem c04_ir_interpreter_is_generic : forall (m : Naga.IR.Syntax.module) (f : Naga.IR.Syntax.func) (n : nat),
  (forall b fr mem, conv (Naga.IR.Sem.exec_block n m f b fr mem) = run_block n (tr_b m f b) (fr, mem)) /\
  (forall s fr mem, conv (Naga.IR.Sem.exec_stmt n m f s fr mem) = run_stmt n (tr m f s) (fr, mem)) /\
  (forall cs fr mem, conv (Naga.IR.Sem.exec_cases n m f cs fr mem) = run_cases n (tr_c m f cs) (fr, mem)) /\
  (forall body cont brk fr mem,
     conv (Naga.IR.Sem.exec_loop n m f body cont brk fr mem) =
     run_loop n (tr_b m f body) (tr_b m f cont)
              (match brk with Some h => Some (bool_of m f "break if: not a bool" h) | None => None end) (fr, mem)).
Proof. exact ir_is_generic. Qed.
Print Assumptions c04_ir_interpreter_is_generic.

(* and the translated statements satisfy the monotonicity hypothesis of every encoding theorem *)
Theorem c04_ir_translation_monotone : forall m f b, mono_b (tr_b m f b).
Proof. exact tr_b_mono. Qed.
Print Assumptions c04_ir_translation_monotone.

(* bool loop_init = true; while(true) { if (!loop_init) { continuing; if (break_if) break; } loop_init = false; body }
   computes exactly what Loop{body; continuing; break_if} computes; the flag variable L is fresh (explicit
   hypotheses) and ends up false; both directions *)
Theorem c04_loop_init_encoding_equiv :
  forall (state R : Type) (L : lens state bool) (body cont : list (Structured.stmt state R)) (bi : option (cond state)),
  mono_b body -> mono_b cont -> indep_b L body -> indep_b L cont ->
  (forall c : cond state, bi = Some c -> indep_fn L c) ->
  may_brk_b cont = false -> may_cont_b cont = false ->
  forall (st : state) (o : Structured.outcome R) (X : state),
  evals_b (loop_init_enc L body cont bi) st (o, X) <->
  (exists s' : state, X = lset L false s' /\ evals_s (Loop body cont bi) st (o, s')).
Proof. exact loop_init_encoding_equiv. Qed.
Print Assumptions c04_loop_init_encoding_equiv.

Example c04_loop_init_nonvacuous :
  mono_b ex_body /\ mono_b ex_cont /\ indep_b flagL ex_body /\ indep_b flagL ex_cont /\
  (forall c, ex_bi = Some c -> indep_fn flagL c) /\ may_brk_b ex_cont = false /\ may_cont_b ex_cont = false /\
  run_stmt 40 ex_loop ex_start = Done (Structured.ONormal, mkx 5 6 true (7, 7)%Z) /\
  run_block 40 (loop_init_enc flagL ex_body ex_cont ex_bi) ex_start = Done (Structured.ONormal, mkx 5 6 false (7, 7)%Z).
Proof.
  exact (conj ex_mono_body (conj ex_mono_cont (conj ex_indep_flag_body (conj ex_indep_flag_cont (conj ex_indep_flag_bi
        (conj eq_refl (conj eq_refl (conj ex_ir_run ex_loop_init_run)))))))).
Qed.

(* the uint2 loop_bound counter (check for zero, 64-bit decrement with 32-bit wrapping arithmetic) is transparent
   for a loop that terminates within k < 2^64 iterations; C = the counter variable, fresh for the loop body X *)
Theorem c04_loop_bound_transparent :
  forall (state R : Type) (C : lens state (Z * Z)) (X : list (Structured.stmt state R)),
  mono_b X -> indep_b C X ->
  forall (k : nat) (st : state) (o : Structured.outcome R) (s' : state),
  (Z.of_nat k < 2 ^ 64)%Z -> iter_ev X k st (o, s') ->
  exists p' : Z * Z, evals_b (bounded_enc C X) st (o, lset C p' s').
Proof. exact loop_bound_forward. Qed.
Print Assumptions c04_loop_bound_transparent.

(* conversely: a run of the bounded form with fuel n < 2^64 (hence fewer than 2^64 iterations) is a run of the loop *)
Theorem c04_loop_bound_transparent_converse :
  forall (state R : Type) (C : lens state (Z * Z)) (X : list (Structured.stmt state R)),
  mono_b X -> indep_b C X ->
  forall (n : nat) (st : state) (r : Structured.outcome R * state),
  (Z.of_nat n < 2 ^ 64)%Z -> run_block n (bounded_enc C X) st = Done r ->
  exists (o : Structured.outcome R) (s' : state) (p' : Z * Z), r = (o, lset C p' s') /\ evals_s (WhileTrue X) st (o, s').
Proof. exact loop_bound_converse. Qed.
Print Assumptions c04_loop_bound_transparent_converse.

Example c04_loop_bound_nonvacuous :
  mono_b ex_plain_body /\ indep_b ctrL ex_plain_body /\
  exists p, run_block 40 (bounded_enc ctrL ex_plain_body) ex_start = Done (Structured.ONormal, lset ctrL p (mkx 5 6 true (7, 7)%Z)).
Proof. exact (conj ex_mono_plain (conj ex_indep_ctr_plain ex_bounded_run)). Qed.

(* inserted `break;` after every non-fall-through case that does not end in a terminator: forward direction *)
Theorem c04_switch_case_breaks_partial :
  forall (state R : Type) (n : nat) (sel : state -> result (option nat))
         (cs : list (list (Structured.stmt state R) * bool)) (st : state) (r : Structured.outcome R * state),
  mono_c cs -> run_stmt n (Switch sel cs) st = Done r -> evals_s (Switch sel (enc_cases cs)) st r.
Proof. exact case_breaks_forward. Qed.
Print Assumptions c04_switch_case_breaks_partial.


(* ==== two-direction forms of the encoding theorems above (coq/Target/ContinueForwardConv.v, SwitchFormsConv.v):
   the CONVERSE of every `_partial` statement is proved too - a terminating run of the emitted form comes from a
   terminating run of the IR form with the related result - so the emitted form terminates with a result exactly
   when the IR form does (it cannot terminate where the source diverges or fails).  Same side conditions. *)
Require Import Naga.Target.ContinueForwardConv Naga.Target.SwitchFormsConv Naga.Target.ExamplesConv.

(* inserted `break;` after every non-fall-through case that does not end in a terminator: emitted switch <-> IR switch,
   same result *)
Theorem c04_switch_case_breaks :
  forall (state R : Type) (sel : state -> result (option nat))
         (cs : list (list (Structured.stmt state R) * bool)) (st : state) (r : Structured.outcome R * state),
  mono_c cs -> (evals_s (Switch sel (enc_cases cs)) st r <-> evals_s (Switch sel cs) st r).
Proof. exact case_breaks_iff. Qed.
Print Assumptions c04_switch_case_breaks.

Example c04_switch_case_breaks_nonvacuous :
  mono_c ex_cases /\
  enc_cases ex_cases = ((Structured.Continue :: nil, true) :: (a_store :: Structured.Break :: nil, true) :: nil)%list /\
  run_stmt 10 (Switch ex_sel ex_cases) (mkx 2 5 true (0, 0)%Z) = Done (Structured.ONormal, mkx 2 7 true (0, 0)%Z) /\
  run_stmt 10 (Switch ex_sel (enc_cases ex_cases)) (mkx 2 5 true (0, 0)%Z) = Done (Structured.ONormal, mkx 2 7 true (0, 0)%Z).
Proof. exact (conj ex_mono_cases (conj ex_enc_cases (conj ex_case_breaks_ir_run ex_case_breaks_enc_run))). Qed.
