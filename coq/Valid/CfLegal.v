(* C08: WGSL's placement rules for break / continue / return, as a specification
   over IR statement trees (independent of ir/validate.go).

   WGSL (W3C, "Behavior analysis" and the statements' own sections):
   * `break` must be inside a loop body or a switch clause; it must not be used to
     leave a continuing block (the only way out of a loop from its continuing
     block is the trailing `break if`, which the IR keeps in the loop's BreakIf
     field, not as a statement) -- but a loop or a switch nested inside the
     continuing block gives `break` a new legal target;
   * `continue` must be inside a loop body; it must not target the loop whose
     continuing block it is in (a loop nested in the continuing block is a new
     legal target; a switch is transparent for `continue`);
   * `return` must not appear in a continuing block at any nesting depth;
   * `discard` has behaviour {Next} in current WGSL and is not restricted by
     continuing blocks (the restriction existed only in 2021 drafts).
   A function body starts with no target at all; functions are separate IR
   objects, so no target crosses a function boundary.

   Context: cb = a `break` target exists, cc = a `continue` target exists,
   ic = inside some continuing block (any depth). *)
From Coq Require Import List Bool.
Import ListNotations.
Require Import Naga.IR.Syntax.

(* executable form *)
Fixpoint cf_legalb (cb cc ic : bool) (s : stmt) {struct s} : bool :=
  let blk := fix blk (cb cc ic : bool) (b : list stmt) {struct b} : bool :=
      match b with [] => true | x :: b' => cf_legalb cb cc ic x && blk cb cc ic b' end in
  match s with
  | SBlock b => blk cb cc ic b
  | SIf _ a r => blk cb cc ic a && blk cb cc ic r
  | SSwitch _ cases =>
    (fix cs (l : list (switch_value * list stmt * bool)) {struct l} : bool :=
       match l with [] => true | (_, b, _) :: l' => blk true cc ic b && cs l' end) cases
  | SLoop b c _ => blk true true ic b && blk false false true c
  | SBreak => cb
  | SContinue => cc
  | SReturn _ => negb ic
  | _ => true
  end.

Fixpoint cf_blockb (cb cc ic : bool) (b : list stmt) {struct b} : bool :=
  match b with [] => true | x :: b' => cf_legalb cb cc ic x && cf_blockb cb cc ic b' end.

Fixpoint cf_casesb (cc ic : bool) (l : list (switch_value * list stmt * bool)) {struct l} : bool :=
  match l with [] => true | (_, b, _) :: l' => cf_blockb true cc ic b && cf_casesb cc ic l' end.

(* a function body: no break target, no continue target, not in a continuing block *)
Definition cf_legal_bodyb (b : list stmt) : bool := cf_blockb false false false b.

(* relational form (the readable specification) *)
Definition cf_plain (s : stmt) : Prop :=
  match s with
  | SBlock _ | SIf _ _ _ | SSwitch _ _ | SLoop _ _ _ | SBreak | SContinue | SReturn _ => False
  | _ => True
  end.

Inductive cf_stmt : bool -> bool -> bool -> stmt -> Prop :=
| cf_plain_stmt cb cc ic s : cf_plain s -> cf_stmt cb cc ic s        (* emit, store, call, atomic, barrier, discard, ... *)
| cf_break cc ic : cf_stmt true cc ic SBreak
| cf_continue cb ic : cf_stmt cb true ic SContinue
| cf_return cb cc v : cf_stmt cb cc false (SReturn v)
| cf_blockstmt cb cc ic b : cf_block cb cc ic b -> cf_stmt cb cc ic (SBlock b)
| cf_if cb cc ic c a r : cf_block cb cc ic a -> cf_block cb cc ic r -> cf_stmt cb cc ic (SIf c a r)
| cf_switch cb cc ic sel cases : cf_cases cc ic cases -> cf_stmt cb cc ic (SSwitch sel cases)
| cf_loop cb cc ic b c bi :
    cf_block true true ic b ->            (* body: both targets, continuing-ness inherited *)
    cf_block false false true c ->        (* continuing: no target, and it is a continuing block *)
    cf_stmt cb cc ic (SLoop b c bi)
with cf_block : bool -> bool -> bool -> list stmt -> Prop :=
| cf_nil cb cc ic : cf_block cb cc ic []
| cf_cons cb cc ic s b : cf_stmt cb cc ic s -> cf_block cb cc ic b -> cf_block cb cc ic (s :: b)
with cf_cases : bool -> bool -> list (switch_value * list stmt * bool) -> Prop :=
| cf_cnil cc ic : cf_cases cc ic []
| cf_ccons cc ic v b ft l : cf_block true cc ic b -> cf_cases cc ic l -> cf_cases cc ic ((v, b, ft) :: l).

Definition cf_legal (body : list stmt) : Prop := cf_block false false false body.

(* ---- the two side conditions under which ir/validate.go agrees with WGSL ---- *)

(* H1: every `break` is (transitively) inside some loop of the same function.
   [inl] = inside a loop (body or continuing). *)
Fixpoint breaks_in_loopb (inl : bool) (s : stmt) {struct s} : bool :=
  let blk := fix blk (inl : bool) (b : list stmt) {struct b} : bool :=
      match b with [] => true | x :: b' => breaks_in_loopb inl x && blk inl b' end in
  match s with
  | SBlock b => blk inl b
  | SIf _ a r => blk inl a && blk inl r
  | SSwitch _ cases =>
    (fix cs (l : list (switch_value * list stmt * bool)) {struct l} : bool :=
       match l with [] => true | (_, b, _) :: l' => blk inl b && cs l' end) cases
  | SLoop b c _ => blk true b && blk true c
  | SBreak => inl
  | _ => true
  end.
Fixpoint breaks_in_loop_blockb (inl : bool) (b : list stmt) {struct b} : bool :=
  match b with [] => true | x :: b' => breaks_in_loopb inl x && breaks_in_loop_blockb inl b' end.
Fixpoint breaks_in_loop_casesb (inl : bool) (l : list (switch_value * list stmt * bool)) {struct l} : bool :=
  match l with [] => true | (_, b, _) :: l' => breaks_in_loop_blockb inl b && breaks_in_loop_casesb inl l' end.

(* H2: no break / continue / discard anywhere inside a continuing block (i.e. no
   loop or switch with its own jumps nested in a continuing block, no discard there).
   [ic] = inside a continuing block. *)
Fixpoint continuing_flatb (ic : bool) (s : stmt) {struct s} : bool :=
  let blk := fix blk (ic : bool) (b : list stmt) {struct b} : bool :=
      match b with [] => true | x :: b' => continuing_flatb ic x && blk ic b' end in
  match s with
  | SBlock b => blk ic b
  | SIf _ a r => blk ic a && blk ic r
  | SSwitch _ cases =>
    (fix cs (l : list (switch_value * list stmt * bool)) {struct l} : bool :=
       match l with [] => true | (_, b, _) :: l' => blk ic b && cs l' end) cases
  | SLoop b c _ => blk ic b && blk true c
  | SBreak | SContinue | SKill => negb ic
  | _ => true
  end.
Fixpoint continuing_flat_blockb (ic : bool) (b : list stmt) {struct b} : bool :=
  match b with [] => true | x :: b' => continuing_flatb ic x && continuing_flat_blockb ic b' end.
Fixpoint continuing_flat_casesb (ic : bool) (l : list (switch_value * list stmt * bool)) {struct l} : bool :=
  match l with [] => true | (_, b, _) :: l' => continuing_flat_blockb ic b && continuing_flat_casesb ic l' end.

(* H3 (only for the suite-safe repair): no discard inside a continuing block, at any depth *)
Fixpoint no_discard_in_contb (ic : bool) (s : stmt) {struct s} : bool :=
  let blk := fix blk (ic : bool) (b : list stmt) {struct b} : bool :=
      match b with [] => true | x :: b' => no_discard_in_contb ic x && blk ic b' end in
  match s with
  | SBlock b => blk ic b
  | SIf _ a r => blk ic a && blk ic r
  | SSwitch _ cases =>
    (fix cs (l : list (switch_value * list stmt * bool)) {struct l} : bool :=
       match l with [] => true | (_, b, _) :: l' => blk ic b && cs l' end) cases
  | SLoop b c _ => blk ic b && blk true c
  | SKill => negb ic
  | _ => true
  end.
Fixpoint no_discard_in_cont_blockb (ic : bool) (b : list stmt) {struct b} : bool :=
  match b with [] => true | x :: b' => no_discard_in_contb ic x && no_discard_in_cont_blockb ic b' end.
Fixpoint no_discard_in_cont_casesb (ic : bool) (l : list (switch_value * list stmt * bool)) {struct l} : bool :=
  match l with [] => true | (_, b, _) :: l' => no_discard_in_cont_blockb ic b && no_discard_in_cont_casesb ic l' end.
Definition no_discard_in_continuing (body : list stmt) : Prop := no_discard_in_cont_blockb false body = true.

Definition breaks_in_loop (body : list stmt) : Prop := breaks_in_loop_blockb false body = true.
Definition continuing_flat (body : list stmt) : Prop := continuing_flat_blockb false body = true.
