(* C08: correctness of the call-graph closure (Reach.closure) against the
   inductive reachability relation, and the fuel (termination) argument. *)
From Coq Require Import List Arith Bool Lia.
Import ListNotations.
Require Import Naga.IR.Syntax Naga.Valid.Reach.

Lemma memb_In x l : memb x l = true <-> In x l.
Proof.
  unfold memb. rewrite existsb_exists. split.
  - intros (y & Hy & He). apply Nat.eqb_eq in He. now subst.
  - intros H. exists x. split; [assumption|apply Nat.eqb_refl].
Qed.

Lemma filter_nil {A} (p : A -> bool) l : filter p l = [] -> forall x, In x l -> p x = false.
Proof.
  induction l as [|a l IH]; intros H x Hx; [contradiction|].
  cbn in H. destruct (p a) eqn:Ha; [discriminate|]. destruct Hx as [<-|Hx]; auto.
Qed.

Lemma In_fresh m S g : In g (fresh m S) <-> (exists f, In f S /\ In g (callees_of_handle m f)) /\ ~ In g S.
Proof.
  unfold fresh. rewrite filter_In, nodup_In, in_flat_map, negb_true_iff.
  rewrite <- memb_In. destruct (memb g S); intuition congruence.
Qed.

Lemma callees_lt m f g : In g (callees m f) -> g < length (m_functions m).
Proof. unfold callees. rewrite filter_In. intros [_ H]. now apply Nat.ltb_lt. Qed.

Lemma callees_of_handle_lt m f g : In g (callees_of_handle m f) -> g < length (m_functions m).
Proof. unfold callees_of_handle. destruct (nth_error _ f); [apply callees_lt|contradiction]. Qed.

(* ---- soundness: everything in the result is reachable ---- *)
Lemma closure_sound m root : forall fuel S l,
  (forall f, In f S -> reach m root f) -> closure m fuel S = Some l -> forall f, In f l -> reach m root f.
Proof.
  induction fuel as [|k IH]; intros S l HS Hc; [discriminate|].
  cbn [closure] in Hc. destruct (fresh m S) as [|n new] eqn:Hf.
  - injection Hc as <-. exact HS.
  - refine (IH _ _ _ Hc).
    intros f Hin. apply in_app_or in Hin. destruct Hin as [Hin|Hin]; [|auto].
    rewrite <- Hf in Hin. apply In_fresh in Hin. destruct Hin as [(f0 & Hf0 & Hg) _].
    eapply reach_call; eauto.
Qed.

(* ---- the result contains the start set and is closed under callees ---- *)
Lemma closure_closed m : forall fuel S l,
  closure m fuel S = Some l ->
  incl S l /\ forall f g, In f l -> In g (callees_of_handle m f) -> In g l.
Proof.
  induction fuel as [|k IH]; intros S l Hc; [discriminate|].
  cbn [closure] in Hc. destruct (fresh m S) as [|n new] eqn:Hf.
  - injection Hc as <-. split; [apply incl_refl|].
    intros f g Hin Hg. destruct (in_dec Nat.eq_dec g S) as [|Hn]; [assumption|].
    assert (In g (fresh m S)) by (apply In_fresh; split; [eauto|assumption]).
    rewrite Hf in H. contradiction.
  - apply IH in Hc. destruct Hc as [Hi Hcl]. split; [|exact Hcl].
    intros x Hx. apply Hi. apply in_or_app. now right.
Qed.

Lemma reach_in_closed m root l :
  incl (callees m root) l -> (forall f g, In f l -> In g (callees_of_handle m f) -> In g l) ->
  forall f, reach m root f -> In f l.
Proof. intros Hr Hc f H. induction H; [auto|eauto]. Qed.

(* ---- fuel: number of functions + 1 always suffices ---- *)
Lemma nodup_app_intro {A} (a b : list A) :
  NoDup a -> NoDup b -> (forall x, In x a -> ~ In x b) -> NoDup (a ++ b).
Proof.
  induction a as [|x a IH]; intros Ha Hb Hd; [assumption|].
  inversion Ha; subst. cbn. constructor.
  - rewrite in_app_iff. intros [H|H]; [contradiction|]. apply (Hd x); [now left|assumption].
  - apply IH; auto. intros y Hy. apply Hd. now right.
Qed.

Lemma bounded_nodup_length n (S : list nat) : NoDup S -> (forall x, In x S -> x < n) -> length S <= n.
Proof.
  intros Hn Hb. rewrite <- (seq_length n 0). apply NoDup_incl_length; [assumption|].
  intros x Hx. apply in_seq. specialize (Hb x Hx). lia.
Qed.

Lemma closure_total m : forall fuel S,
  NoDup S -> (forall x, In x S -> x < length (m_functions m)) ->
  length (m_functions m) < fuel + length S -> closure m fuel S <> None.
Proof.
  induction fuel as [|k IH]; intros S Hn Hb Hl.
  - pose proof (bounded_nodup_length _ _ Hn Hb). lia.
  - cbn [closure]. destruct (fresh m S) as [|n new] eqn:Hf; [discriminate|].
    apply IH.
    + apply nodup_app_intro; [|assumption|].
      * rewrite <- Hf. unfold fresh. apply NoDup_filter, NoDup_nodup.
      * intros x Hx. rewrite <- Hf in Hx. apply In_fresh in Hx. tauto.
    + intros x Hx. apply in_app_or in Hx. destruct Hx as [Hx|Hx]; [|auto].
      rewrite <- Hf in Hx. apply In_fresh in Hx. destruct Hx as [(f & _ & Hg) _].
      eapply callees_of_handle_lt; eauto.
    + rewrite app_length. cbn [length]. lia.
Qed.

Theorem reached_opt_total m root : exists l, reached_opt m root = Some l.
Proof.
  unfold reached_opt.
  destruct (closure m (S (length (m_functions m))) (nodup Nat.eq_dec (callees m root))) eqn:H; [eauto|].
  exfalso. revert H. apply closure_total.
  - apply NoDup_nodup.
  - intros x Hx. apply nodup_In in Hx. eapply callees_lt; eauto.
  - lia.
Qed.

Theorem reached_correct m root f : In f (reached m root) <-> reach m root f.
Proof.
  unfold reached. destruct (reached_opt_total m root) as [l Hl]. rewrite Hl. unfold reached_opt in Hl.
  split.
  - apply (closure_sound m root _ _ _ ) with (2 := Hl).
    intros g Hg. apply nodup_In in Hg. now apply reach_root.
  - destruct (closure_closed _ _ _ _ Hl) as [Hi Hc]. apply reach_in_closed; [|exact Hc].
    intros g Hg. apply Hi. now apply nodup_In.
Qed.

Theorem used_globals_correct m root g : In g (used_globals m root) <-> uses m root g.
Proof.
  unfold used_globals, uses. rewrite nodup_In, in_app_iff, in_flat_map.
  split; (intros [H|(f & Hf & Hg)]; [now left|right; exists f]); split; try assumption; now apply reached_correct.
Qed.

Lemma used_globals_nodup m root : NoDup (used_globals m root).
Proof. apply NoDup_nodup. Qed.
