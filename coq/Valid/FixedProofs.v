(* C08: the REPAIRED validator (ValidatorModelFixed) is sound AND complete for
   WGSL's placement rules and for the per-entry-point binding rule. *)
From Coq Require Import List ZArith String Bool Arith Lia.
Import ListNotations.
Require Import Naga.IR.Syntax Naga.Valid.ValidatorModel Naga.Valid.ValidatorModelFixed Naga.Valid.CfLegal
        Naga.Valid.StmtInd Naga.Valid.CfProofs Naga.Valid.Reach Naga.Valid.BindingRule Naga.Valid.BindingProofs
        Naga.Valid.ModuleProofs.
Open Scope Z_scope.

(* ---- local fixpoints ---- *)
Lemma vblock_fx_loc E kc : forall b cb cc ic k,
  (fix vb (cb cc ic : bool) (k : Z) (b : list stmt) {struct b} : list verror :=
     match b with [] => [] | x :: b' => vstmt_fx E kc cb cc ic k x ++ vb cb cc ic (k + 1) b' end) cb cc ic k b
  = vblock_fx E kc cb cc ic k b.
Proof. induction b as [|x b IH]; intros; cbn [vblock_fx]; [reflexivity|]. now rewrite IH. Qed.

Lemma vfx_SBlock E kc cb cc ic i b : vstmt_fx E kc cb cc ic i (SBlock b) = vblock_fx E kc cb cc ic 0 b.
Proof. cbn [vstmt_fx]. apply vblock_fx_loc. Qed.
Lemma vfx_SIf E kc cb cc ic i c a r :
  vstmt_fx E kc cb cc ic i (SIf c a r) =
  bad_operands E (err_stmt (e_fname E) i) VStmtOperand [c] ++ vblock_fx E kc cb cc ic 0 a ++ vblock_fx E kc cb cc ic 0 r.
Proof. cbn [vstmt_fx]. now rewrite !vblock_fx_loc. Qed.
Lemma vfx_SLoop E kc cb cc ic i b c bi :
  vstmt_fx E kc cb cc ic i (SLoop b c bi) =
  vblock_fx E kc true true ic 0 b ++ vblock_fx E kc false false true 0 c
  ++ bad_operands E (err_stmt (e_fname E) i) VStmtOperand (opt_list bi).
Proof. cbn [vstmt_fx]. now rewrite !vblock_fx_loc. Qed.
Lemma vfx_SSwitch E kc cb cc ic i sel cases :
  vstmt_fx E kc cb cc ic i (SSwitch sel cases) =
  bad_operands E (err_stmt (e_fname E) i) VStmtOperand [sel] ++ vcases_fx E kc cc ic i false cases.
Proof.
  cbn [vstmt_fx]. f_equal. generalize false.
  induction cases as [|[[v b] ft] cs IH]; intro hd; cbn [vcases_fx]; [reflexivity|].
  now rewrite vblock_fx_loc, IH.
Qed.

(* ---- control flow: no error iff legal ---- *)
Ltac cfx_simp :=
  repeat (rewrite ?cf_app, ?app_nil_iff, ?cf_bad_operands by reflexivity;
          rewrite ?cf_when_stmt_non by reflexivity).

Lemma cfx_block E b :
  Forall (fun s => forall cb cc ic i, cf_errors (vstmt_fx E false cb cc ic i s) = [] <-> cf_legalb cb cc ic s = true) b ->
  forall cb cc ic k, cf_errors (vblock_fx E false cb cc ic k b) = [] <-> cf_blockb cb cc ic b = true.
Proof.
  induction 1 as [|x b Hx _ IH]; intros cb cc ic k; cbn [vblock_fx cf_blockb]; [tauto|].
  rewrite cf_app, app_nil_iff, Hx, IH, andb_true_iff. tauto.
Qed.

Lemma cfx_stmt E s : forall cb cc ic i, cf_errors (vstmt_fx E false cb cc ic i s) = [] <-> cf_legalb cb cc ic s = true.
Proof.
  induction s using stmt_ind'; intros cb cc ic i.
  - cbn [vstmt_fx cf_legalb]. cfx_simp. tauto.
  - rewrite vfx_SBlock, cf_legalb_SBlock. now apply cfx_block.
  - rewrite vfx_SIf, cf_legalb_SIf. cfx_simp. rewrite andb_true_iff.
    rewrite (cfx_block E a H), (cfx_block E r H0). tauto.
  - rewrite vfx_SSwitch, cf_legalb_SSwitch. cfx_simp.
    assert (HC : forall hd, cf_errors (vcases_fx E false cc ic i hd cases) = [] <-> cf_casesb cc ic cases = true).
    { induction H as [|[[v b] ft] cs Hb _ IH]; intro hd; cbn [vcases_fx cf_casesb].
      - cfx_simp. tauto.
      - cfx_simp. rewrite andb_true_iff. unfold case_body in Hb. cbn in Hb.
        rewrite (cfx_block E b Hb), IH. tauto. }
    rewrite HC. tauto.
  - rewrite vfx_SLoop, cf_legalb_SLoop. cfx_simp. rewrite andb_true_iff.
    rewrite (cfx_block E b H), (cfx_block E c H0). tauto.
  - cbn [vstmt_fx cf_legalb]. destruct ic; rewrite cf_when_stmt_cf by reflexivity; rewrite negb_false_iff; tauto.
  - cbn [vstmt_fx cf_legalb]. destruct ic; rewrite cf_when_stmt_cf by reflexivity; rewrite negb_false_iff; tauto.
  - cbn [vstmt_fx cf_legalb]. rewrite cf_app, app_nil_iff, cf_when_stmt_cf by reflexivity.
    rewrite cf_bad_operands by reflexivity. rewrite negb_true_iff. tauto.
  - cbn [vstmt_fx cf_legalb]. tauto.
  - cbn [vstmt_fx cf_legalb]. tauto.
  - cbn [vstmt_fx cf_legalb]. cfx_simp. tauto.
  - cbn [vstmt_fx cf_legalb]. cfx_simp. tauto.
  - cbn [vstmt_fx cf_legalb]. cfx_simp. tauto.
  - cbn [vstmt_fx cf_legalb]. destruct (other_stmt_checked t); cfx_simp; cbn; tauto.
Qed.

Lemma cfx_body E b : cf_errors (vblock_fx E false false false false 0 b) = [] <-> cf_legal b.
Proof.
  rewrite cf_legal_iff. apply cfx_block. apply Forall_forall. intros s _. apply cfx_stmt.
Qed.

Lemma cf_vfunction_fx m f : cf_errors (vfunction_fx false m f) = [] <-> cf_legal (f_body f).
Proof.
  unfold vfunction_fx. rewrite cf_app. destruct (quiet_head m f) as [-> _]. cbn [app]. apply cfx_body.
Qed.

Lemma cf_vfunctions_fx m : forall fs names,
  cf_errors (vfunctions_fx_from false m names fs) = [] <-> forall f, In f fs -> cf_legal (f_body f).
Proof.
  induction fs as [|f fs IH]; intros names; cbn [vfunctions_fx_from].
  - split; [intros _ ? []|reflexivity].
  - rewrite !cf_app, !app_nil_iff, cf_vfunction_fx, IH.
    assert (HW : forall b, cf_errors (when b (err_mod VFuncDupName)) = []) by (intros []; reflexivity).
    rewrite HW. split.
    + intros (_ & H1 & H2) g [<-|Hg]; auto.
    + intros H. split; [reflexivity|]. split; [apply H; now left|]. intros g Hg. apply H. now right.
Qed.

(* ---- quietness of the other parts ---- *)
Lemma quiet_vglobals_fx m : quiet (vglobals_fx m).
Proof.
  unfold vglobals_fx. generalize (@nil string).
  induction (m_globals m) as [|g gs IH]; intros names; cbn [vglobals_fx_from]; [apply quiet_nil|].
  unfold err_mod. quiet_tac; apply IH.
Qed.

Lemma cf_dup_walk : forall l seen, cf_errors (dup_walk seen l) = [].
Proof.
  induction l as [|p l IH]; intros seen; cbn [dup_walk]; [reflexivity|].
  rewrite cf_app, IH. destruct (pair_mem p seen); reflexivity.
Qed.

Lemma cf_ventries_fx m : cf_errors (ventries_fx m) = [].
Proof.
  unfold ventries_fx. generalize (@nil string).
  induction (m_entry_points m) as [|ep eps IH]; intros names; cbn [ventries_fx_from]; [reflexivity|].
  rewrite !cf_app, cf_dup_walk, IH.
  assert (W : forall b c, is_cf c = false -> cf_errors (when b (err_mod c)) = []) by (intros; now apply cf_when_non).
  rewrite !W by reflexivity. cbn [app]. rewrite app_nil_r.
  unfold ventry. destruct (ep_stage ep); try reflexivity.
  - destruct (f_result (ep_func ep)); [apply W|]; reflexivity.
  - apply W. reflexivity.
Qed.

(* the statement walk of the repaired validator reports no binding error *)
Definition bxquiet (l : list verror) : Prop := binding_errors_fx l = [].
Lemma bxq_app a b : bxquiet a -> bxquiet b -> bxquiet (a ++ b).
Proof. unfold bxquiet. intros A B. now rewrite bx_app, A, B. Qed.
Lemma bxq_when b c f s e : is_binding_fx c = false -> bxquiet (when b (mkverr c f s e)).
Proof. intros H. destruct b; unfold bxquiet; cbn; rewrite ?H; reflexivity. Qed.
Lemma bxq_ops E f i hs : bxquiet (bad_operands E (err_stmt f i) VStmtOperand hs).
Proof.
  unfold bad_operands. induction hs; cbn; [reflexivity|]. apply bxq_app; [|assumption]. now apply bxq_when.
Qed.
Ltac bxq_tac :=
  repeat first [ reflexivity | apply bxq_app | apply bxq_ops | (apply bxq_when; reflexivity) ].

Lemma bxq_block E kc b : Forall (fun s => forall cb cc ic i, bxquiet (vstmt_fx E kc cb cc ic i s)) b ->
  forall cb cc ic k, bxquiet (vblock_fx E kc cb cc ic k b).
Proof. induction 1; intros; cbn [vblock_fx]; [reflexivity|]. apply bxq_app; auto. Qed.

Lemma bxq_stmt E kc s : forall cb cc ic i, bxquiet (vstmt_fx E kc cb cc ic i s).
Proof.
  induction s using stmt_ind'; intros cb cc ic i.
  - cbn [vstmt_fx]. unfold err_stmt. bxq_tac.
  - rewrite vfx_SBlock. now apply bxq_block.
  - rewrite vfx_SIf. bxq_tac; now apply bxq_block.
  - rewrite vfx_SSwitch. apply bxq_app; [apply bxq_ops|]. generalize false.
    induction H as [|[[v b] ft] cs Hb _ IH]; intro hd; cbn [vcases_fx]; unfold err_stmt.
    + bxq_tac.
    + apply bxq_app; [bxq_tac|]. apply bxq_app; [|apply IH]. unfold case_body in Hb. cbn in Hb. now apply bxq_block.
  - rewrite vfx_SLoop. bxq_tac; now apply bxq_block.
  - cbn [vstmt_fx]. unfold err_stmt. destruct ic; bxq_tac.
  - cbn [vstmt_fx]. unfold err_stmt. destruct ic; bxq_tac.
  - cbn [vstmt_fx]. apply bxq_app; [unfold err_stmt; bxq_tac|apply bxq_ops].
  - cbn [vstmt_fx]. unfold err_stmt. destruct kc; bxq_tac.
  - reflexivity.
  - cbn [vstmt_fx]. apply bxq_ops.
  - cbn [vstmt_fx]. apply bxq_ops.
  - cbn [vstmt_fx]. apply bxq_app; [unfold err_stmt; bxq_tac|apply bxq_ops].
  - cbn [vstmt_fx]. destruct (other_stmt_checked t); [apply bxq_ops|reflexivity].
Qed.

Lemma bx_vfunctions_fx kc m : forall fs names, binding_errors_fx (vfunctions_fx_from kc m names fs) = [].
Proof.
  induction fs as [|f fs IH]; intros names; cbn [vfunctions_fx_from]; [reflexivity|].
  rewrite !bx_app, IH. unfold vfunction_fx. rewrite bx_app.
  destruct (quiet_head m f) as (_ & _ & ->).
  assert (B : binding_errors_fx (vblock_fx (env_of m f) kc false false false 0 (f_body f)) = []).
  { apply bxq_block. apply Forall_forall. intros s _. apply bxq_stmt. }
  rewrite B. destruct (_ && _); reflexivity.
Qed.

(* ---- bindings: one error per repeated pair ---- *)
Lemma bx_when_non b c : is_binding_fx c = false -> binding_errors_fx (when b (err_mod c)) = [].
Proof. intros H. destruct b; cbn; [now rewrite H|reflexivity]. Qed.

Lemma dup_walk_exact : forall l seen,
  binding_errors_fx (dup_walk seen l) = [] <-> NoDup l /\ forall p, In p l -> ~ In p seen.
Proof.
  induction l as [|p l IH]; intros seen; cbn [dup_walk].
  - split; [intros _; split; [constructor|intros ? []]|reflexivity].
  - rewrite bx_app, app_nil_iff2, IH.
    assert (HW : binding_errors_fx (when (pair_mem p seen) (err_mod VEpDupBinding)) = [] <-> ~ In p seen).
    { rewrite <- pair_mem_In. destruct (pair_mem p seen); cbn; split; congruence. }
    rewrite HW. split.
    + intros (Hp & Hn & Hd). split.
      * constructor; [|assumption]. intro Hin. apply (Hd p Hin). now left.
      * intros q [<-|Hq]; [assumption|]. intro Hs. apply (Hd q Hq). now right.
    + intros (Hn & Hd). inversion Hn; subst. split; [|split].
      * apply Hd. now left.
      * assumption.
      * intros q Hq [<-|Hs]; [contradiction|]. apply (Hd q); [now right|assumption].
Qed.

Lemma bx_ventry m ep : binding_errors_fx (ventry m ep) = [].
Proof.
  unfold ventry. destruct (ep_stage ep); try reflexivity.
  - destruct (f_result (ep_func ep)); [apply bx_when_non|]; reflexivity.
  - apply bx_when_non. reflexivity.
Qed.

Lemma bx_ventries_fx m : forall eps names,
  binding_errors_fx (ventries_fx_from m names eps) = [] <-> forall ep, In ep eps -> NoDup (ep_bindings m ep).
Proof.
  induction eps as [|ep eps IH]; intros names; cbn [ventries_fx_from].
  - split; [intros _ ? []|reflexivity].
  - rewrite !bx_app, !bx_when_non by reflexivity. cbn [app].
    rewrite bx_ventry. cbn [app]. rewrite app_nil_iff2, dup_walk_exact, IH. split.
    + intros ((Hn & _) & H) e [<-|He]; auto.
    + intros H. split; [split; [apply H; now left|intros ? _ []]|]. intros e He. apply H. now right.
Qed.

(* ---- the repaired ir.Validate as a whole ---- *)
Theorem fixed_cf_exact m :
  cf_errors (validate_model_fx m) = [] <-> forall f, In f (m_functions m) -> cf_legal (f_body f).
Proof.
  unfold validate_model_fx, validate_model_fxk. rewrite !cf_app.
  destruct (quiet_vtypes m) as [-> _], (quiet_vconstants m) as [-> _], (quiet_vglobals_fx m) as [-> _].
  rewrite cf_ventries_fx, app_nil_r. cbn [app]. apply cf_vfunctions_fx.
Qed.

Theorem fixed_bindings_exact kc m :
  binding_errors_fx (validate_model_fxk kc m) = [] <-> binding_rule_ok m.
Proof.
  unfold validate_model_fxk. rewrite !bx_app.
  destruct (quiet_vtypes m) as (_ & _ & ->), (quiet_vconstants m) as (_ & _ & ->), (quiet_vglobals_fx m) as (_ & _ & ->).
  unfold vfunctions_fx. rewrite bx_vfunctions_fx. cbn [app]. unfold ventries_fx, binding_rule_ok.
  apply bx_ventries_fx.
Qed.

(* ------------------------------------------------------------------ *)
(* the suite-safe repair (kc = true): discard inside a continuing block is still reported *)

Lemma nd_loc : forall b ic,
  (fix blk (ic : bool) (b : list stmt) {struct b} : bool :=
     match b with [] => true | x :: b' => no_discard_in_contb ic x && blk ic b' end) ic b = no_discard_in_cont_blockb ic b.
Proof. induction b as [|x b IH]; intros; cbn [no_discard_in_cont_blockb]; [reflexivity|]. now rewrite IH. Qed.
Lemma nd_SBlock ic b : no_discard_in_contb ic (SBlock b) = no_discard_in_cont_blockb ic b.
Proof. cbn [no_discard_in_contb]. apply nd_loc. Qed.
Lemma nd_SIf ic c a r : no_discard_in_contb ic (SIf c a r) = no_discard_in_cont_blockb ic a && no_discard_in_cont_blockb ic r.
Proof. cbn [no_discard_in_contb]. now rewrite !nd_loc. Qed.
Lemma nd_SLoop ic b c bi : no_discard_in_contb ic (SLoop b c bi) = no_discard_in_cont_blockb ic b && no_discard_in_cont_blockb true c.
Proof. cbn [no_discard_in_contb]. now rewrite !nd_loc. Qed.
Lemma nd_SSwitch ic sel cases : no_discard_in_contb ic (SSwitch sel cases) = no_discard_in_cont_casesb ic cases.
Proof.
  cbn [no_discard_in_contb]. induction cases as [|[[v b] ft] cs IH]; cbn [no_discard_in_cont_casesb]; [reflexivity|].
  now rewrite nd_loc, IH.
Qed.

Lemma cfx2_block E b :
  Forall (fun s => forall cb cc ic i, cf_errors (vstmt_fx E true cb cc ic i s) = [] <->
                                      cf_legalb cb cc ic s = true /\ no_discard_in_contb ic s = true) b ->
  forall cb cc ic k, cf_errors (vblock_fx E true cb cc ic k b) = [] <->
                     cf_blockb cb cc ic b = true /\ no_discard_in_cont_blockb ic b = true.
Proof.
  induction 1 as [|x b Hx _ IH]; intros cb cc ic k; cbn [vblock_fx cf_blockb no_discard_in_cont_blockb]; [tauto|].
  rewrite cf_app, app_nil_iff, Hx, IH, !andb_true_iff. tauto.
Qed.

Lemma cfx2_stmt E s : forall cb cc ic i,
  cf_errors (vstmt_fx E true cb cc ic i s) = [] <-> cf_legalb cb cc ic s = true /\ no_discard_in_contb ic s = true.
Proof.
  induction s using stmt_ind'; intros cb cc ic i.
  - cbn [vstmt_fx cf_legalb no_discard_in_contb]. cfx_simp. tauto.
  - rewrite vfx_SBlock, cf_legalb_SBlock, nd_SBlock. now apply cfx2_block.
  - rewrite vfx_SIf, cf_legalb_SIf, nd_SIf. cfx_simp. rewrite !andb_true_iff.
    rewrite (cfx2_block E a H), (cfx2_block E r H0). tauto.
  - rewrite vfx_SSwitch, cf_legalb_SSwitch, nd_SSwitch. cfx_simp.
    assert (HC : forall hd, cf_errors (vcases_fx E true cc ic i hd cases) = [] <->
                            cf_casesb cc ic cases = true /\ no_discard_in_cont_casesb ic cases = true).
    { induction H as [|[[v b] ft] cs Hb _ IH]; intro hd; cbn [vcases_fx cf_casesb no_discard_in_cont_casesb].
      - cfx_simp. tauto.
      - cfx_simp. rewrite !andb_true_iff. unfold case_body in Hb. cbn in Hb.
        rewrite (cfx2_block E b Hb), IH. tauto. }
    rewrite HC. tauto.
  - rewrite vfx_SLoop, cf_legalb_SLoop, nd_SLoop. cfx_simp. rewrite !andb_true_iff.
    rewrite (cfx2_block E b H), (cfx2_block E c H0). tauto.
  - cbn [vstmt_fx cf_legalb no_discard_in_contb]. destruct ic; rewrite cf_when_stmt_cf by reflexivity; rewrite negb_false_iff; tauto.
  - cbn [vstmt_fx cf_legalb no_discard_in_contb]. destruct ic; rewrite cf_when_stmt_cf by reflexivity; rewrite negb_false_iff; tauto.
  - cbn [vstmt_fx cf_legalb no_discard_in_contb]. rewrite cf_app, app_nil_iff, cf_when_stmt_cf by reflexivity.
    rewrite cf_bad_operands by reflexivity. rewrite negb_true_iff. tauto.
  - cbn [vstmt_fx cf_legalb no_discard_in_contb]. rewrite cf_when_stmt_cf by reflexivity. rewrite negb_true_iff. tauto.
  - cbn [vstmt_fx cf_legalb no_discard_in_contb]. tauto.
  - cbn [vstmt_fx cf_legalb no_discard_in_contb]. cfx_simp. tauto.
  - cbn [vstmt_fx cf_legalb no_discard_in_contb]. cfx_simp. tauto.
  - cbn [vstmt_fx cf_legalb no_discard_in_contb]. cfx_simp. tauto.
  - cbn [vstmt_fx cf_legalb no_discard_in_contb]. destruct (other_stmt_checked t); cfx_simp; cbn; tauto.
Qed.

Lemma cf_vfunction_fx2 m f :
  cf_errors (vfunction_fx true m f) = [] <-> cf_legal (f_body f) /\ no_discard_in_continuing (f_body f).
Proof.
  unfold vfunction_fx, no_discard_in_continuing. rewrite cf_app. destruct (quiet_head m f) as [-> _]. cbn [app].
  rewrite cf_legal_iff. apply cfx2_block. apply Forall_forall. intros s _. apply cfx2_stmt.
Qed.

Lemma cf_vfunctions_fx2 m : forall fs names,
  cf_errors (vfunctions_fx_from true m names fs) = [] <->
  forall f, In f fs -> cf_legal (f_body f) /\ no_discard_in_continuing (f_body f).
Proof.
  induction fs as [|f fs IH]; intros names; cbn [vfunctions_fx_from].
  - split; [intros _ ? []|reflexivity].
  - rewrite !cf_app, !app_nil_iff, cf_vfunction_fx2, IH.
    assert (HW : forall b, cf_errors (when b (err_mod VFuncDupName)) = []) by (intros []; reflexivity).
    rewrite HW. split.
    + intros (_ & H1 & H2) g [<-|Hg]; auto.
    + intros H. split; [reflexivity|]. split; [apply H; now left|]. intros g Hg. apply H. now right.
Qed.

Theorem fixed2_cf_exact m :
  cf_errors (validate_model_fx2 m) = [] <->
  forall f, In f (m_functions m) -> cf_legal (f_body f) /\ no_discard_in_continuing (f_body f).
Proof.
  unfold validate_model_fx2, validate_model_fxk. rewrite !cf_app.
  destruct (quiet_vtypes m) as [-> _], (quiet_vconstants m) as [-> _], (quiet_vglobals_fx m) as [-> _].
  rewrite cf_ventries_fx, app_nil_r. cbn [app]. apply cf_vfunctions_fx2.
Qed.
