(* Structural induction principle for IR statements (nested through lists of
   statements and lists of switch cases). *)
From Coq Require Import List.
Import ListNotations.
Require Import Naga.IR.Syntax.

Section StmtInd.
  Variable P : stmt -> Prop.
  Definition case_body (c : switch_value * list stmt * bool) : list stmt := snd (fst c).
  Hypothesis HEmit : forall a b, P (SEmit a b).
  Hypothesis HBlock : forall b, Forall P b -> P (SBlock b).
  Hypothesis HIf : forall c a r, Forall P a -> Forall P r -> P (SIf c a r).
  Hypothesis HSwitch : forall sel cases, Forall (fun c => Forall P (case_body c)) cases -> P (SSwitch sel cases).
  Hypothesis HLoop : forall b c bi, Forall P b -> Forall P c -> P (SLoop b c bi).
  Hypothesis HBreak : P SBreak.
  Hypothesis HContinue : P SContinue.
  Hypothesis HReturn : forall v, P (SReturn v).
  Hypothesis HKill : P SKill.
  Hypothesis HBarrier : forall f, P (SBarrier f).
  Hypothesis HStore : forall p v, P (SStore p v).
  Hypothesis HAtomic : forall p f c v r, P (SAtomic p f c v r).
  Hypothesis HCall : forall f a r, P (SCall f a r).
  Hypothesis HOther : forall t r, P (SOther t r).

  Fixpoint stmt_ind' (s : stmt) : P s :=
    let blk := fix blk (b : list stmt) : Forall P b :=
        match b with
        | [] => Forall_nil P
        | x :: b' => Forall_cons x (stmt_ind' x) (blk b')
        end in
    match s with
    | SEmit a b => HEmit a b
    | SBlock b => HBlock b (blk b)
    | SIf c a r => HIf c a r (blk a) (blk r)
    | SSwitch sel cases =>
      HSwitch sel cases
        ((fix cs (l : list (switch_value * list stmt * bool)) : Forall (fun c => Forall P (case_body c)) l :=
            match l with
            | [] => Forall_nil _
            | c :: l' => Forall_cons c (blk (case_body c)) (cs l')
            end) cases)
    | SLoop b c bi => HLoop b c bi (blk b) (blk c)
    | SBreak => HBreak
    | SContinue => HContinue
    | SReturn v => HReturn v
    | SKill => HKill
    | SBarrier f => HBarrier f
    | SStore p v => HStore p v
    | SAtomic p f c v r => HAtomic p f c v r
    | SCall f a r => HCall f a r
    | SOther t r => HOther t r
    end.
End StmtInd.
