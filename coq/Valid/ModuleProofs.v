(* C08: lifting the per-function and per-global-list results to the whole of
   ir.Validate (ValidatorModel.validate_model): which rule classes each part of
   the validator can report. *)
From Coq Require Import List ZArith String Bool Arith Lia.
Import ListNotations.
Require Import Naga.IR.Syntax Naga.Valid.ValidatorModel Naga.Valid.ValidatorModelFixed Naga.Valid.CfLegal Naga.Valid.StmtInd Naga.Valid.CfProofs
        Naga.Valid.Reach Naga.Valid.BindingRule Naga.Valid.BindingProofs.
Open Scope Z_scope.

(* an error list reports nothing of the control-flow classes / of the binding class *)
Definition quiet (l : list verror) : Prop :=
  cf_errors l = [] /\ binding_errors l = [] /\ binding_errors_fx l = [].
Definition cfquiet (l : list verror) : Prop := binding_errors l = [].   (* may report cf errors, not binding errors *)

Lemma bx_app a b : binding_errors_fx (a ++ b) = binding_errors_fx a ++ binding_errors_fx b.
Proof. apply filter_app. Qed.
Lemma quiet_nil : quiet []. Proof. repeat split; reflexivity. Qed.
Lemma quiet_app a b : quiet a -> quiet b -> quiet (a ++ b).
Proof.
  intros (A1 & A2 & A3) (B1 & B2 & B3). repeat split; [rewrite cf_app|rewrite b_app|rewrite bx_app];
    now rewrite ?A1, ?A2, ?A3, ?B1, ?B2, ?B3.
Qed.
Lemma quiet_when b c f s e :
  is_cf c = false -> is_binding c = false -> is_binding_fx c = false -> quiet (when b (mkverr c f s e)).
Proof. intros H1 H2 H3. destruct b; repeat split; cbn; rewrite ?H1, ?H2, ?H3; reflexivity. Qed.
Lemma quiet_flat_map {A} (f : A -> list verror) l : (forall x, quiet (f x)) -> quiet (flat_map f l).
Proof. intros H. induction l; cbn; [apply quiet_nil|apply quiet_app; auto]. Qed.

Ltac quiet_tac :=
  repeat first
    [ apply quiet_nil
    | apply quiet_app
    | (apply quiet_when; reflexivity)
    | (apply quiet_flat_map; intro)
    | match goal with |- quiet (match ?x with _ => _ end) => destruct x end
    | match goal with |- quiet (if ?x then _ else _) => destruct x end ].

Lemma quiet_vmembers nt h : forall ms seen, quiet (vmembers nt h seen ms).
Proof. induction ms; intros; cbn [vmembers]; unfold err_mod; quiet_tac. apply IHms. Qed.

Lemma quiet_vtypes m : quiet (vtypes m).
Proof.
  unfold vtypes. generalize O. generalize (List.length (m_types m)). intros nt.
  induction (m_types m) as [|t ts IH]; intros h; cbn [vtypes_from]; [apply quiet_nil|].
  apply quiet_app; [|apply IH]. unfold vtype, err_mod.
  destruct (ty_inner t); quiet_tac. apply quiet_vmembers.
Qed.

Lemma quiet_vconstants m : quiet (vconstants m).
Proof. unfold vconstants, err_mod. quiet_tac. Qed.

Lemma quiet_vexpr E h e : quiet (vexpr E h e).
Proof. unfold vexpr, bad_operands, err_expr. destruct e; quiet_tac. Qed.

Lemma quiet_vexprs E : forall es h, quiet (vexprs_from E h es).
Proof. induction es; intros; cbn [vexprs_from]; [apply quiet_nil|apply quiet_app; [apply quiet_vexpr|apply IHes]]. Qed.

Lemma quiet_ventries m : quiet (ventries m).
Proof.
  unfold ventries. generalize (@nil string).
  induction (m_entry_points m) as [|ep eps IH]; intros names; cbn [ventries_from]; [apply quiet_nil|].
  unfold ventry, err_mod. quiet_tac; apply IH.
Qed.

(* the statement walk reports no binding error *)
Lemma bq_app a b : cfquiet a -> cfquiet b -> cfquiet (a ++ b).
Proof. unfold cfquiet. intros A B. now rewrite b_app, A, B. Qed.
Lemma bq_when b c f s e : is_binding c = false -> cfquiet (when b (mkverr c f s e)).
Proof. intros H. destruct b; unfold cfquiet; cbn; rewrite ?H; reflexivity. Qed.
Lemma bq_ops E f i hs : cfquiet (bad_operands E (err_stmt f i) VStmtOperand hs).
Proof.
  unfold bad_operands. induction hs; cbn; [reflexivity|]. apply bq_app; [|assumption]. now apply bq_when.
Qed.

Ltac bq_tac :=
  repeat first
    [ reflexivity
    | apply bq_app
    | apply bq_ops
    | (apply bq_when; reflexivity) ].

Lemma bq_block E b : Forall (fun s => forall d ic i, cfquiet (vstmt E d ic i s)) b ->
  forall d ic k, cfquiet (vblock E d ic k b).
Proof.
  induction 1; intros; cbn [vblock]; [reflexivity|]. apply bq_app; auto.
Qed.

Lemma bq_stmt E s : forall d ic i, cfquiet (vstmt E d ic i s).
Proof.
  induction s using stmt_ind'; intros d ic i.
  - cbn [vstmt]. unfold err_stmt. bq_tac.
  - rewrite vstmt_SBlock. now apply bq_block.
  - rewrite vstmt_SIf. bq_tac; now apply bq_block.
  - rewrite vstmt_SSwitch. apply bq_app; [apply bq_ops|]. generalize false.
    induction H as [|[[v b] ft] cs Hb _ IH]; intro hd; cbn [vcases]; unfold err_stmt.
    + bq_tac.
    + apply bq_app; [bq_tac|]. apply bq_app; [|apply IH]. unfold case_body in Hb. cbn in Hb. now apply bq_block.
  - rewrite vstmt_SLoop. bq_tac; now apply bq_block.
  - cbn [vstmt]. unfold err_stmt. bq_tac.
  - cbn [vstmt]. unfold err_stmt. bq_tac.
  - cbn [vstmt]. apply bq_app; [unfold err_stmt; bq_tac|apply bq_ops].
  - cbn [vstmt]. unfold err_stmt. bq_tac.
  - reflexivity.
  - cbn [vstmt]. apply bq_ops.
  - cbn [vstmt]. apply bq_ops.
  - cbn [vstmt]. apply bq_app; [unfold err_stmt; bq_tac|apply bq_ops].
  - cbn [vstmt]. destruct (other_stmt_checked t); [apply bq_ops|reflexivity].
Qed.

Lemma bq_body E b d ic k : cfquiet (vblock E d ic k b).
Proof. apply bq_block. apply Forall_forall. intros s _. apply bq_stmt. Qed.

Lemma vfunction_split m f : vfunction m f = vfunction_head m f ++ vblock (env_of m f) O false 0 (f_body f).
Proof. unfold vfunction, vfunction_head. now rewrite <- !app_assoc. Qed.

Lemma quiet_head m f : quiet (vfunction_head m f).
Proof. unfold vfunction_head, err_fn. quiet_tac. apply quiet_vexprs. Qed.

Lemma cf_vfunction m f : cf_errors (vfunction m f) = body_cf_errors (env_of m f) (f_body f).
Proof. rewrite vfunction_split, cf_app. destruct (quiet_head m f) as [-> _]. reflexivity. Qed.

Lemma b_vfunction m f : binding_errors (vfunction m f) = [].
Proof.
  rewrite vfunction_split, b_app. destruct (quiet_head m f) as (_ & -> & _). cbn. apply bq_body.
Qed.

Lemma cf_vfunctions m : forall fs names,
  cf_errors (vfunctions_from m names fs) = [] <-> forall f, In f fs -> body_cf_errors (env_of m f) (f_body f) = [].
Proof.
  induction fs as [|f fs IH]; intros names; cbn [vfunctions_from].
  - split; [intros _ ? []|reflexivity].
  - rewrite !cf_app, !app_nil_iff, cf_vfunction, IH.
    assert (HW : forall b, cf_errors (when b (err_mod VFuncDupName)) = []) by (intros []; reflexivity).
    rewrite HW. split.
    + intros (_ & H1 & H2) g [<-|Hg]; auto.
    + intros H. split; [reflexivity|]. split; [apply H; now left|]. intros g Hg. apply H. now right.
Qed.

Lemma b_vfunctions m : forall fs names, binding_errors (vfunctions_from m names fs) = [].
Proof.
  induction fs as [|f fs IH]; intros names; cbn [vfunctions_from]; [reflexivity|].
  rewrite !b_app, b_vfunction, IH. destruct (_ && _); reflexivity.
Qed.

Lemma cf_vglobals m : cf_errors (vglobals m) = [].
Proof.
  unfold vglobals. generalize (@nil string) (@nil (Z * Z)).
  induction (m_globals m) as [|g gs IH]; intros names seen; cbn [vglobals_from]; [reflexivity|].
  assert (W : forall b c, is_cf c = false -> cf_errors (when b (err_mod c)) = []) by (intros; now apply cf_when_non).
  rewrite !cf_app, IH, !W by reflexivity.
  destruct (g_binding g), (g_init g); rewrite ?W by reflexivity; reflexivity.
Qed.

(* ---- ir.Validate as a whole ---- *)
Theorem validate_cf_errors m :
  cf_errors (validate_model m) = [] <->
  forall f, In f (m_functions m) -> body_cf_errors (env_of m f) (f_body f) = [].
Proof.
  unfold validate_model. rewrite !cf_app.
  destruct (quiet_vtypes m) as [-> _], (quiet_vconstants m) as [-> _], (quiet_ventries m) as [-> _].
  rewrite cf_vglobals, app_nil_r. cbn [app]. apply cf_vfunctions.
Qed.

Theorem validate_binding_errors m :
  binding_errors (validate_model m) = [] <-> NoDup (module_bindings m).
Proof.
  unfold validate_model. rewrite !b_app.
  destruct (quiet_vtypes m) as (_ & -> & _), (quiet_vconstants m) as (_ & -> & _), (quiet_ventries m) as (_ & -> & _).
  unfold vfunctions. rewrite b_vfunctions, !app_nil_r. cbn [app].
  unfold vglobals, module_bindings. rewrite vglobals_binding_exact. split; [tauto|]. intros H. split; [assumption|]. auto.
Qed.
