(* C08: WGSL's resource-binding rule, as a specification over IR modules.

   WGSL (W3C, "Resource interface" / "Entry point declaration"): two different
   resource variables in the resource interface OF ONE SHADER (= the variables
   statically used by one entry point, transitively through calls) must not have
   the same (group, binding) pair.  Variables used by different entry points, or
   by none, may share a pair. *)
From Coq Require Import List ZArith Bool.
Import ListNotations.
Require Import Naga.IR.Syntax Naga.Valid.Reach.
Open Scope Z_scope.

(* (group, binding) of the global with handle g: at most one element *)
Definition binding_of (m : module) (g : nat) : list (Z * Z) :=
  match nth_error (m_globals m) g with Some gv => opt_list (g_binding gv) | None => [] end.

Definition bindings_of (m : module) (gs : list nat) : list (Z * Z) := flat_map (binding_of m) gs.

(* the resource interface of an entry point, as (group, binding) pairs *)
Definition ep_bindings (m : module) (ep : entry_point) : list (Z * Z) :=
  bindings_of m (used_globals m (ep_func ep)).

Definition binding_rule_ok (m : module) : Prop :=
  forall ep, In ep (m_entry_points m) -> NoDup (ep_bindings m ep).

(* executable form *)
Definition pair_eqb (a b : Z * Z) : bool := (fst a =? fst b) && (snd a =? snd b).
Fixpoint nodup_pairsb (l : list (Z * Z)) : bool :=
  match l with [] => true | p :: l' => negb (existsb (pair_eqb p) l') && nodup_pairsb l' end.
Definition binding_rule_okb (m : module) : bool :=
  forallb (fun ep => nodup_pairsb (ep_bindings m ep)) (m_entry_points m).

(* all pairs declared in the module, in declaration order (what ir/validate.go looks at) *)
Definition module_bindings (m : module) : list (Z * Z) :=
  flat_map (fun gv => opt_list (g_binding gv)) (m_globals m).

(* side condition under which ir/validate.go agrees with WGSL: one entry point
   statically uses every resource variable of the module *)
Definition one_ep_uses_all (m : module) : Prop :=
  exists ep, In ep (m_entry_points m) /\
    forall g, binding_of m g <> [] -> In g (used_globals m (ep_func ep)).
