(* C08: static use through the call graph.  Which functions an entry point
   reaches (transitively through call statements) and which global variables it
   therefore statically uses.  Definitions only; correctness in ReachProofs.v.

   Specification: [reach m root f] -- inductively, f is called from root's body,
   or from the body of a reached function.  Calls to a handle outside
   module.Functions reach nothing.
   Algorithm: [closure] -- grow a duplicate-free set of function handles by the
   direct callees of its members until nothing new appears; fuel = number of
   functions + 1 always suffices (ReachProofs.closure_total). *)
From Coq Require Import List Arith Bool.
Import ListNotations.
Require Import Naga.IR.Syntax.

(* function handles of the call statements of a statement tree *)
Fixpoint stmt_calls (s : stmt) {struct s} : list nat :=
  let blk := fix blk (b : list stmt) {struct b} : list nat :=
      match b with [] => [] | x :: b' => stmt_calls x ++ blk b' end in
  match s with
  | SBlock b => blk b
  | SIf _ a r => blk a ++ blk r
  | SSwitch _ cases =>
    (fix cs (l : list (switch_value * list stmt * bool)) {struct l} : list nat :=
       match l with [] => [] | (_, b, _) :: l' => blk b ++ cs l' end) cases
  | SLoop b c _ => blk b ++ blk c
  | SCall f _ _ => [f]
  | _ => []
  end.
Fixpoint block_calls (b : list stmt) {struct b} : list nat :=
  match b with [] => [] | x :: b' => stmt_calls x ++ block_calls b' end.

(* direct callees of a function that exist in the module *)
Definition callees (m : module) (f : func) : list nat :=
  filter (fun g => Nat.ltb g (List.length (m_functions m))) (block_calls (f_body f)).

Definition callees_of_handle (m : module) (h : nat) : list nat :=
  match nth_error (m_functions m) h with Some fn => callees m fn | None => [] end.

(* ---- specification ---- *)
Inductive reach (m : module) (root : func) : nat -> Prop :=
| reach_root g : In g (callees m root) -> reach m root g
| reach_call f g : reach m root f -> In g (callees_of_handle m f) -> reach m root g.

(* ---- algorithm ---- *)
Definition memb (x : nat) (l : list nat) : bool := existsb (Nat.eqb x) l.

Definition fresh (m : module) (S : list nat) : list nat :=
  filter (fun g => negb (memb g S)) (nodup Nat.eq_dec (flat_map (callees_of_handle m) S)).

Fixpoint closure (m : module) (fuel : nat) (S : list nat) {struct fuel} : option (list nat) :=
  match fuel with
  | O => None
  | Datatypes.S k =>
    match fresh m S with
    | [] => Some S
    | new => closure m k (new ++ S)
    end
  end.

Definition reached_opt (m : module) (root : func) : option (list nat) :=
  closure m (Datatypes.S (List.length (m_functions m))) (nodup Nat.eq_dec (callees m root)).

(* total version: the None branch is unreachable (ReachProofs.reached_opt_total) *)
Definition reached (m : module) (root : func) : list nat :=
  match reached_opt m root with Some l => l | None => [] end.

(* ---- global variables ---- *)
Definition func_globals (f : func) : list nat :=
  flat_map (fun e => match e with EGlobalVariable g => [g] | _ => [] end) (f_exprs f).

Definition globals_of_handle (m : module) (h : nat) : list nat :=
  match nth_error (m_functions m) h with Some fn => func_globals fn | None => [] end.

(* specification: g is statically used by the function [root] *)
Definition uses (m : module) (root : func) (g : nat) : Prop :=
  In g (func_globals root) \/ exists f, reach m root f /\ In g (globals_of_handle m f).

(* algorithm: duplicate-free list of the global handles statically used *)
Definition used_globals (m : module) (root : func) : list nat :=
  nodup Nat.eq_dec (func_globals root ++ flat_map (globals_of_handle m) (reached m root)).
