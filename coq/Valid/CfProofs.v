(* C08: the control-flow rules of ir/validate.go (ValidatorModel.vstmt) against
   WGSL's placement rules (CfLegal): soundness, the exact characterisation of
   the validator's verdict, hence partial completeness and its refutation. *)
From Coq Require Import List ZArith String Bool Arith Lia Btauto.
Import ListNotations.
Require Import Naga.IR.Syntax Naga.Valid.ValidatorModel Naga.Valid.CfLegal Naga.Valid.StmtInd.
Open Scope Z_scope.

(* ------------------------------------------------------------------ *)
(* the local fixpoints of the nested definitions are the top-level ones *)

Lemma vstmt_SBlock E d ic i b : vstmt E d ic i (SBlock b) = vblock E d ic 0 b.
Proof.
  change (vstmt E d ic i (SBlock b)) with
    ((fix vb (d : nat) (c : bool) (k : Z) (b : list stmt) {struct b} : list verror :=
        match b with [] => [] | x :: b' => vstmt E d c k x ++ vb d c (k + 1) b' end) d ic 0 b).
  generalize 0. induction b as [|x b IH]; intro k; cbn [vblock]; [reflexivity|]. now rewrite IH.
Qed.

Lemma vblock_loc E : forall b d c k,
  (fix vb (d : nat) (c : bool) (k : Z) (b : list stmt) {struct b} : list verror :=
     match b with [] => [] | x :: b' => vstmt E d c k x ++ vb d c (k + 1) b' end) d c k b = vblock E d c k b.
Proof. induction b as [|x b IH]; intros d c k; cbn [vblock]; [reflexivity|]. now rewrite IH. Qed.

Lemma vstmt_SIf E d ic i c a r :
  vstmt E d ic i (SIf c a r) =
  bad_operands E (err_stmt (e_fname E) i) VStmtOperand [c] ++ vblock E d ic 0 a ++ vblock E d ic 0 r.
Proof. cbn [vstmt]. now rewrite !vblock_loc. Qed.

Lemma vstmt_SLoop E d ic i b c bi :
  vstmt E d ic i (SLoop b c bi) =
  vblock E (S d) ic 0 b ++ vblock E (S d) true 0 c ++ bad_operands E (err_stmt (e_fname E) i) VStmtOperand (opt_list bi).
Proof. cbn [vstmt]. now rewrite !vblock_loc. Qed.

Lemma vstmt_SSwitch E d ic i sel cases :
  vstmt E d ic i (SSwitch sel cases) =
  bad_operands E (err_stmt (e_fname E) i) VStmtOperand [sel] ++ vcases E d ic i false cases.
Proof.
  cbn [vstmt]. f_equal. generalize false.
  induction cases as [|[[v b] ft] cs IH]; intro hd; cbn [vcases]; [reflexivity|].
  now rewrite vblock_loc, IH.
Qed.

(* same for the specification-side booleans *)
Lemma cf_blockb_loc : forall b cb cc ic,
  (fix blk (cb cc ic : bool) (b : list stmt) {struct b} : bool :=
     match b with [] => true | x :: b' => cf_legalb cb cc ic x && blk cb cc ic b' end) cb cc ic b = cf_blockb cb cc ic b.
Proof. induction b as [|x b IH]; intros; cbn [cf_blockb]; [reflexivity|]. now rewrite IH. Qed.

Lemma cf_legalb_SBlock cb cc ic b : cf_legalb cb cc ic (SBlock b) = cf_blockb cb cc ic b.
Proof. cbn [cf_legalb]. apply cf_blockb_loc. Qed.
Lemma cf_legalb_SIf cb cc ic c a r : cf_legalb cb cc ic (SIf c a r) = cf_blockb cb cc ic a && cf_blockb cb cc ic r.
Proof. cbn [cf_legalb]. now rewrite !cf_blockb_loc. Qed.
Lemma cf_legalb_SLoop cb cc ic b c bi :
  cf_legalb cb cc ic (SLoop b c bi) = cf_blockb true true ic b && cf_blockb false false true c.
Proof. cbn [cf_legalb]. now rewrite !cf_blockb_loc. Qed.
Lemma cf_legalb_SSwitch cb cc ic sel cases : cf_legalb cb cc ic (SSwitch sel cases) = cf_casesb cc ic cases.
Proof.
  cbn [cf_legalb]. induction cases as [|[[v b] ft] cs IH]; cbn [cf_casesb]; [reflexivity|].
  now rewrite cf_blockb_loc, IH.
Qed.

Lemma h1_loc : forall b inl,
  (fix blk (inl : bool) (b : list stmt) {struct b} : bool :=
     match b with [] => true | x :: b' => breaks_in_loopb inl x && blk inl b' end) inl b = breaks_in_loop_blockb inl b.
Proof. induction b as [|x b IH]; intros; cbn [breaks_in_loop_blockb]; [reflexivity|]. now rewrite IH. Qed.
Lemma h1_SBlock inl b : breaks_in_loopb inl (SBlock b) = breaks_in_loop_blockb inl b.
Proof. cbn [breaks_in_loopb]. apply h1_loc. Qed.
Lemma h1_SIf inl c a r : breaks_in_loopb inl (SIf c a r) = breaks_in_loop_blockb inl a && breaks_in_loop_blockb inl r.
Proof. cbn [breaks_in_loopb]. now rewrite !h1_loc. Qed.
Lemma h1_SLoop inl b c bi : breaks_in_loopb inl (SLoop b c bi) = breaks_in_loop_blockb true b && breaks_in_loop_blockb true c.
Proof. cbn [breaks_in_loopb]. now rewrite !h1_loc. Qed.
Lemma h1_SSwitch inl sel cases : breaks_in_loopb inl (SSwitch sel cases) = breaks_in_loop_casesb inl cases.
Proof.
  cbn [breaks_in_loopb]. induction cases as [|[[v b] ft] cs IH]; cbn [breaks_in_loop_casesb]; [reflexivity|].
  now rewrite h1_loc, IH.
Qed.

Lemma h2_loc : forall b ic,
  (fix blk (ic : bool) (b : list stmt) {struct b} : bool :=
     match b with [] => true | x :: b' => continuing_flatb ic x && blk ic b' end) ic b = continuing_flat_blockb ic b.
Proof. induction b as [|x b IH]; intros; cbn [continuing_flat_blockb]; [reflexivity|]. now rewrite IH. Qed.
Lemma h2_SBlock ic b : continuing_flatb ic (SBlock b) = continuing_flat_blockb ic b.
Proof. cbn [continuing_flatb]. apply h2_loc. Qed.
Lemma h2_SIf ic c a r : continuing_flatb ic (SIf c a r) = continuing_flat_blockb ic a && continuing_flat_blockb ic r.
Proof. cbn [continuing_flatb]. now rewrite !h2_loc. Qed.
Lemma h2_SLoop ic b c bi : continuing_flatb ic (SLoop b c bi) = continuing_flat_blockb ic b && continuing_flat_blockb true c.
Proof. cbn [continuing_flatb]. now rewrite !h2_loc. Qed.
Lemma h2_SSwitch ic sel cases : continuing_flatb ic (SSwitch sel cases) = continuing_flat_casesb ic cases.
Proof.
  cbn [continuing_flatb]. induction cases as [|[[v b] ft] cs IH]; cbn [continuing_flat_casesb]; [reflexivity|].
  now rewrite h2_loc, IH.
Qed.

(* ------------------------------------------------------------------ *)
(* "the validator reports no control-flow error", as a boolean on the tree *)

Definition jump_ok (d : nat) (ic : bool) : bool := negb (Nat.eqb d 0) && negb ic.

Fixpoint cfm (d : nat) (ic : bool) (s : stmt) {struct s} : bool :=
  let blk := fix blk (d : nat) (ic : bool) (b : list stmt) {struct b} : bool :=
      match b with [] => true | x :: b' => cfm d ic x && blk d ic b' end in
  match s with
  | SBlock b => blk d ic b
  | SIf _ a r => blk d ic a && blk d ic r
  | SSwitch _ cases =>
    (fix cs (l : list (switch_value * list stmt * bool)) {struct l} : bool :=
       match l with [] => true | (_, b, _) :: l' => blk d ic b && cs l' end) cases
  | SLoop b c _ => blk (S d) ic b && blk (S d) true c
  | SBreak | SContinue => jump_ok d ic
  | SReturn _ | SKill => negb ic
  | _ => true
  end.
Fixpoint cfm_block (d : nat) (ic : bool) (b : list stmt) {struct b} : bool :=
  match b with [] => true | x :: b' => cfm d ic x && cfm_block d ic b' end.
Fixpoint cfm_cases (d : nat) (ic : bool) (l : list (switch_value * list stmt * bool)) {struct l} : bool :=
  match l with [] => true | (_, b, _) :: l' => cfm_block d ic b && cfm_cases d ic l' end.

Lemma cfm_loc : forall b d ic,
  (fix blk (d : nat) (ic : bool) (b : list stmt) {struct b} : bool :=
     match b with [] => true | x :: b' => cfm d ic x && blk d ic b' end) d ic b = cfm_block d ic b.
Proof. induction b as [|x b IH]; intros; cbn [cfm_block]; [reflexivity|]. now rewrite IH. Qed.
Lemma cfm_SBlock d ic b : cfm d ic (SBlock b) = cfm_block d ic b.
Proof. cbn [cfm]. apply cfm_loc. Qed.
Lemma cfm_SIf d ic c a r : cfm d ic (SIf c a r) = cfm_block d ic a && cfm_block d ic r.
Proof. cbn [cfm]. now rewrite !cfm_loc. Qed.
Lemma cfm_SLoop d ic b c bi : cfm d ic (SLoop b c bi) = cfm_block (S d) ic b && cfm_block (S d) true c.
Proof. cbn [cfm]. now rewrite !cfm_loc. Qed.
Lemma cfm_SSwitch d ic sel cases : cfm d ic (SSwitch sel cases) = cfm_cases d ic cases.
Proof.
  cbn [cfm]. induction cases as [|[[v b] ft] cs IH]; cbn [cfm_cases]; [reflexivity|].
  now rewrite cfm_loc, IH.
Qed.

(* ---- filtering the error list ---- *)
Lemma cf_app a b : cf_errors (a ++ b) = cf_errors a ++ cf_errors b.
Proof. apply filter_app. Qed.

Lemma cf_when_non b c f s e : is_cf c = false -> cf_errors (when b (mkverr c f s e)) = [].
Proof. intros H. destruct b; cbn; [now rewrite H|reflexivity]. Qed.

Lemma cf_when_cf b c f s e : is_cf c = true -> (cf_errors (when b (mkverr c f s e)) = [] <-> b = false).
Proof. intros H. destruct b; cbn; [rewrite H|]; split; congruence. Qed.

Lemma cf_when_stmt_non b c f i : is_cf c = false -> cf_errors (when b (err_stmt f i c)) = [].
Proof. apply cf_when_non. Qed.
Lemma cf_when_stmt_cf b c f i : is_cf c = true -> (cf_errors (when b (err_stmt f i c)) = [] <-> b = false).
Proof. apply cf_when_cf. Qed.

Lemma cf_bad_operands E f i c hs : is_cf c = false -> cf_errors (bad_operands E (err_stmt f i) c hs) = [].
Proof.
  intros H. unfold bad_operands. induction hs as [|h hs IH]; [reflexivity|].
  cbn [flat_map]. rewrite cf_app, IH, app_nil_r. now apply cf_when_non.
Qed.

Lemma app_nil_iff {A} (a b : list A) : a ++ b = [] <-> a = [] /\ b = [].
Proof. split; [apply app_eq_nil|intros [-> ->]; reflexivity]. Qed.

Ltac cf_simp :=
  repeat (rewrite ?cf_app, ?app_nil_iff, ?cf_bad_operands by reflexivity;
          rewrite ?cf_when_stmt_non by reflexivity).

Lemma cf_block_forall E b :
  Forall (fun s => forall d ic i, cf_errors (vstmt E d ic i s) = [] <-> cfm d ic s = true) b ->
  forall d ic k, cf_errors (vblock E d ic k b) = [] <-> cfm_block d ic b = true.
Proof.
  induction 1 as [|x b Hx _ IH]; intros d ic k; cbn [vblock cfm_block]; [tauto|].
  rewrite cf_app, app_nil_iff, Hx, IH, andb_true_iff. tauto.
Qed.

Lemma cf_stmt_model E s : forall d ic i, cf_errors (vstmt E d ic i s) = [] <-> cfm d ic s = true.
Proof.
  induction s using stmt_ind'; intros d ic i.
  - cbn [vstmt cfm]. cf_simp. tauto.
  - rewrite vstmt_SBlock, cfm_SBlock. now apply cf_block_forall.
  - rewrite vstmt_SIf, cfm_SIf. cf_simp. rewrite andb_true_iff.
    rewrite (cf_block_forall E a H), (cf_block_forall E r H0). tauto.
  - rewrite vstmt_SSwitch, cfm_SSwitch. cf_simp.
    assert (HC : forall hd, cf_errors (vcases E d ic i hd cases) = [] <-> cfm_cases d ic cases = true).
    { induction H as [|[[v b] ft] cs Hb _ IH]; intro hd; cbn [vcases cfm_cases].
      - cf_simp. tauto.
      - cf_simp. rewrite andb_true_iff. unfold case_body in Hb. cbn in Hb.
        rewrite (cf_block_forall E b Hb), IH. tauto. }
    rewrite HC. tauto.
  - rewrite vstmt_SLoop, cfm_SLoop. cf_simp. rewrite andb_true_iff.
    rewrite (cf_block_forall E b H), (cf_block_forall E c H0). tauto.
  - cbn [vstmt cfm]. unfold jump_ok. rewrite cf_app, app_nil_iff, !cf_when_stmt_cf by reflexivity.
    rewrite andb_true_iff, !negb_true_iff. tauto.
  - cbn [vstmt cfm]. unfold jump_ok. rewrite cf_app, app_nil_iff, !cf_when_stmt_cf by reflexivity.
    rewrite andb_true_iff, !negb_true_iff. tauto.
  - cbn [vstmt cfm]. rewrite cf_app, app_nil_iff, cf_when_stmt_cf by reflexivity.
    rewrite cf_bad_operands by reflexivity. rewrite negb_true_iff. tauto.
  - cbn [vstmt cfm]. rewrite cf_when_stmt_cf by reflexivity. rewrite negb_true_iff. tauto.
  - cbn [vstmt cfm]. tauto.
  - cbn [vstmt cfm]. cf_simp. tauto.
  - cbn [vstmt cfm]. cf_simp. tauto.
  - cbn [vstmt cfm]. cf_simp. tauto.
  - cbn [vstmt cfm]. destruct (other_stmt_checked t); cf_simp; cbn; tauto.
Qed.

Lemma cf_block_model E b d ic k : cf_errors (vblock E d ic k b) = [] <-> cfm_block d ic b = true.
Proof. apply cf_block_forall. apply Forall_forall. intros s _. apply cf_stmt_model. Qed.

(* ------------------------------------------------------------------ *)
(* the validator's context against the specification's context *)

Definition ctx_inv (d : nat) (ic cb cc inl : bool) : Prop :=
  inl = negb (Nat.eqb d 0) /\ (ic = true -> inl = true) /\ (ic = false -> cc = inl /\ (cc = true -> cb = true)).

Definition exact_stmt (s : stmt) : Prop :=
  forall d ic cb cc inl, ctx_inv d ic cb cc inl ->
  cfm d ic s = cf_legalb cb cc ic s && breaks_in_loopb inl s && continuing_flatb ic s.

Lemma exact_block b : Forall exact_stmt b ->
  forall d ic cb cc inl, ctx_inv d ic cb cc inl ->
  cfm_block d ic b = cf_blockb cb cc ic b && breaks_in_loop_blockb inl b && continuing_flat_blockb ic b.
Proof.
  induction 1 as [|x b Hx _ IH]; intros d ic cb cc inl HI;
    cbn [cfm_block cf_blockb breaks_in_loop_blockb continuing_flat_blockb]; [reflexivity|].
  rewrite (Hx _ _ _ _ _ HI), (IH _ _ _ _ _ HI). btauto.
Qed.

Lemma inv_loop_body d ic cb cc inl : ctx_inv d ic cb cc inl -> ctx_inv (S d) ic true true true.
Proof. unfold ctx_inv. cbn. intuition. Qed.
Lemma inv_loop_continuing d : ctx_inv (S d) true false false true.
Proof. unfold ctx_inv. cbn. intuition congruence. Qed.
Lemma inv_switch d ic cb cc inl : ctx_inv d ic cb cc inl -> ctx_inv d ic true cc inl.
Proof. unfold ctx_inv. intuition. Qed.

Lemma exact_all s : exact_stmt s.
Proof.
  induction s using stmt_ind'; intros d ic cb cc inl HI; try reflexivity.
  - rewrite cfm_SBlock, cf_legalb_SBlock, h1_SBlock, h2_SBlock. now apply exact_block.
  - rewrite cfm_SIf, cf_legalb_SIf, h1_SIf, h2_SIf.
    rewrite (exact_block a H _ _ _ _ _ HI), (exact_block r H0 _ _ _ _ _ HI). btauto.
  - rewrite cfm_SSwitch, cf_legalb_SSwitch, h1_SSwitch, h2_SSwitch.
    induction H as [|[[v b] ft] cs Hb _ IH];
      cbn [cfm_cases cf_casesb breaks_in_loop_casesb continuing_flat_casesb]; [reflexivity|].
    unfold case_body in Hb. cbn in Hb.
    rewrite (exact_block b Hb _ _ _ _ _ (inv_switch _ _ _ _ _ HI)), IH. btauto.
  - rewrite cfm_SLoop, cf_legalb_SLoop, h1_SLoop, h2_SLoop.
    rewrite (exact_block b H _ _ _ _ _ (inv_loop_body _ _ _ _ _ HI)).
    rewrite (exact_block c H0 _ _ _ _ _ (inv_loop_continuing d)). btauto.
  - (* break *) cbn [cfm cf_legalb breaks_in_loopb continuing_flatb]. unfold jump_ok.
    destruct HI as (Hl & Hc & Hn). rewrite <- Hl.
    destruct ic; [now rewrite !andb_false_r|].
    destruct (Hn eq_refl) as [Hcc Hcb]. subst cc. destruct inl; [rewrite (Hcb eq_refl)|]; destruct cb; reflexivity.
  - (* continue *) cbn [cfm cf_legalb breaks_in_loopb continuing_flatb]. unfold jump_ok.
    destruct HI as (Hl & Hc & Hn). rewrite <- Hl.
    destruct ic; [now rewrite !andb_false_r|].
    destruct (Hn eq_refl) as [Hcc _]. subst cc. destruct inl; reflexivity.
  - (* return *) cbn [cfm cf_legalb breaks_in_loopb continuing_flatb]. now rewrite !andb_true_r.
Qed.

Lemma exact_body b :
  cfm_block O false b = cf_legal_bodyb b && breaks_in_loop_blockb false b && continuing_flat_blockb false b.
Proof.
  apply exact_block. { apply Forall_forall. intros s _. apply exact_all. }
  unfold ctx_inv. cbn. intuition congruence.
Qed.

(* ------------------------------------------------------------------ *)
(* relational specification = executable specification *)

Scheme cf_stmt_mut := Induction for cf_stmt Sort Prop
  with cf_block_mut := Induction for cf_block Sort Prop
  with cf_cases_mut := Induction for cf_cases Sort Prop.
Combined Scheme cf_mutind from cf_stmt_mut, cf_block_mut, cf_cases_mut.

Lemma cf_rel_to_bool :
  (forall cb cc ic s, cf_stmt cb cc ic s -> cf_legalb cb cc ic s = true) /\
  (forall cb cc ic b, cf_block cb cc ic b -> cf_blockb cb cc ic b = true) /\
  (forall cc ic l, cf_cases cc ic l -> cf_casesb cc ic l = true).
Proof.
  apply cf_mutind; intros.
  - destruct s; cbn in c; try contradiction; reflexivity.
  - reflexivity.
  - reflexivity.
  - reflexivity.
  - now rewrite cf_legalb_SBlock.
  - rewrite cf_legalb_SIf, H, H0. reflexivity.
  - now rewrite cf_legalb_SSwitch.
  - rewrite cf_legalb_SLoop, H, H0. reflexivity.
  - reflexivity.
  - cbn [cf_blockb]. now rewrite H, H0.
  - reflexivity.
  - cbn [cf_casesb]. now rewrite H, H0.
Qed.

Lemma cf_bool_to_rel_block b :
  Forall (fun s => forall cb cc ic, cf_legalb cb cc ic s = true -> cf_stmt cb cc ic s) b ->
  forall cb cc ic, cf_blockb cb cc ic b = true -> cf_block cb cc ic b.
Proof.
  induction 1 as [|x b Hx _ IH]; intros cb cc ic; cbn [cf_blockb]; [constructor|].
  rewrite andb_true_iff. intros [H1 H2]. constructor; auto.
Qed.

Lemma cf_bool_to_rel s : forall cb cc ic, cf_legalb cb cc ic s = true -> cf_stmt cb cc ic s.
Proof.
  induction s using stmt_ind'; intros cb cc ic Hs; try (apply cf_plain_stmt; exact I).
  - rewrite cf_legalb_SBlock in Hs. apply cf_blockstmt. now apply cf_bool_to_rel_block.
  - rewrite cf_legalb_SIf, andb_true_iff in Hs. destruct Hs. apply cf_if; now apply cf_bool_to_rel_block.
  - rewrite cf_legalb_SSwitch in Hs. apply cf_switch.
    induction H as [|[[v b] ft] cs Hb _ IH]; [constructor|].
    cbn [cf_casesb] in Hs. rewrite andb_true_iff in Hs. destruct Hs as [H1 H2].
    unfold case_body in Hb. cbn in Hb. constructor; [now apply cf_bool_to_rel_block|auto].
  - rewrite cf_legalb_SLoop, andb_true_iff in Hs. destruct Hs. apply cf_loop; now apply cf_bool_to_rel_block.
  - cbn in Hs. subst. apply cf_break.
  - cbn in Hs. subst. apply cf_continue.
  - cbn in Hs. rewrite negb_true_iff in Hs. subst. apply cf_return.
Qed.

Theorem cf_legal_iff b : cf_legal b <-> cf_legal_bodyb b = true.
Proof.
  split.
  - apply cf_rel_to_bool.
  - apply cf_bool_to_rel_block. apply Forall_forall. intros s _. apply cf_bool_to_rel.
Qed.

(* ------------------------------------------------------------------ *)
(* main theorems, per function body: [E] is any function environment *)

Definition body_cf_errors (E : venv) (body : list stmt) : list verror :=
  cf_errors (vblock E O false 0 body).

Theorem cf_exact E body :
  body_cf_errors E body = [] <-> cf_legal body /\ breaks_in_loop body /\ continuing_flat body.
Proof.
  unfold body_cf_errors, breaks_in_loop, continuing_flat.
  rewrite cf_block_model, exact_body, !andb_true_iff, cf_legal_iff. tauto.
Qed.

Theorem cf_sound E body : body_cf_errors E body = [] -> cf_legal body.
Proof. intro H. now apply cf_exact in H. Qed.

Theorem cf_partial E body :
  cf_legal body -> breaks_in_loop body -> continuing_flat body -> body_cf_errors E body = [].
Proof. intros. apply cf_exact. tauto. Qed.

(* witnesses of incompleteness: legal under WGSL, rejected by the validator (for every environment) *)
Definition wit_switch_break : list stmt := [SSwitch O [(SVDefault, [SBreak], false)]].
Definition wit_loop_in_continuing : list stmt := [SLoop [] [SLoop [SBreak] [] None] (Some O)].
Definition wit_continue_in_continuing : list stmt := [SLoop [] [SLoop [SContinue] [] (Some O)] (Some O)].
Definition wit_switch_in_continuing : list stmt := [SLoop [] [SSwitch O [(SVDefault, [SBreak], false)]] (Some O)].
Definition wit_discard_in_continuing : list stmt := [SLoop [] [SKill] (Some O)].

Lemma wit_rejected body :
  cf_legal_bodyb body = true ->
  breaks_in_loop_blockb false body && continuing_flat_blockb false body = false ->
  cf_legal body /\ forall E, body_cf_errors E body <> [].
Proof.
  intros HL HN. split; [now apply cf_legal_iff|]. intros E HE. apply cf_exact in HE.
  destruct HE as (_ & H1 & H2). unfold breaks_in_loop, continuing_flat in *. rewrite H1, H2 in HN. discriminate.
Qed.

Theorem cf_complete_refuted : exists body, cf_legal body /\ forall E, body_cf_errors E body <> [].
Proof. exists wit_switch_break. apply wit_rejected; vm_compute; reflexivity. Qed.

Theorem cf_refuted_all_witnesses :
  Forall (fun body => cf_legal body /\ forall E, body_cf_errors E body <> [])
         [wit_switch_break; wit_loop_in_continuing; wit_continue_in_continuing; wit_switch_in_continuing;
          wit_discard_in_continuing].
Proof. repeat (apply Forall_cons; [apply wit_rejected; vm_compute; reflexivity|]). apply Forall_nil. Qed.
