(* C08: the validator as REPAIRED by the fix proposed for the findings of C08
   (checks/c08_proposed_fixes/validate.diff): transliteration of that version of
   ir/validate.go.  Differences from ValidatorModel.v (the pinned tree):
   * the context carries canBreak / canContinue / inContinuing: a switch clause
     sets canBreak; a loop body sets canBreak and canContinue; a continuing block
     clears both and sets inContinuing; restored afterwards;
   * break: one error when !canBreak ("in continuing block" when inContinuing,
     "outside of loop or switch" otherwise); continue alike;
   * kill: two variants of the repair, selected by [kc]:
       kc = false  (checks/c08_proposed_fixes/validate.diff): no check, as in WGSL;
       kc = true   (checks/c08_proposed_fixes/validate_suitesafe.diff): discard inside a
                   continuing block (any depth) is still reported, exactly as the pinned tree does;
   * validateGlobalVariables no longer looks at bindings; validateEntryPoints
     reports, per entry point, every resource variable statically used by it
     (through calls) whose (group,binding) pair was already seen among the
     variables used before it.  All such errors are equal records, and their
     number does not depend on the order of enumeration, so the model
     enumerates with Reach.used_globals.
   The check decides on every run which of the two transliterations the Go
   code in /repo matches (exactly one must, on every module of the run). *)
From Coq Require Import List ZArith String Bool.
Import ListNotations.
Require Import Naga.IR.Syntax Naga.Valid.ValidatorModel Naga.Valid.Reach Naga.Valid.BindingRule.
Open Scope Z_scope.

Fixpoint vstmt_fx (E : venv) (kc : bool) (cb cc ic : bool) (i : Z) (s : stmt) {struct s} : list verror :=
  let vblock := fix vblock (cb cc ic : bool) (k : Z) (b : list stmt) {struct b} : list verror :=
      match b with [] => [] | x :: b' => vstmt_fx E kc cb cc ic k x ++ vblock cb cc ic (k + 1) b' end in
  let mk := err_stmt (e_fname E) i in
  let ops := bad_operands E mk VStmtOperand in
  match s with
  | SEmit a b =>
    when (negb (Nat.ltb a (e_nexprs E))) (mk VEmitStart)
    ++ when (Nat.ltb (e_nexprs E) b) (mk VEmitEnd)
    ++ when (negb (Nat.ltb a b)) (mk VEmitEmpty)
  | SBlock b => vblock cb cc ic 0 b
  | SIf c a r => ops [c] ++ vblock cb cc ic 0 a ++ vblock cb cc ic 0 r
  | SSwitch sel cases =>
    ops [sel]
    ++ (fix vcases (has_default : bool) (cs : list (switch_value * list stmt * bool)) {struct cs} : list verror :=
          match cs with
          | [] => when (negb has_default) (mk VSwitchNoDefault)
          | (v, b, _) :: cs' =>
            when (is_default v && has_default) (mk VSwitchMultiDefault)
            ++ vblock true cc ic 0 b
            ++ vcases (is_default v || has_default) cs'
          end) false cases
  | SLoop b c bi => vblock true true ic 0 b ++ vblock false false true 0 c ++ ops (opt_list bi)
  | SBreak => when (negb cb) (mk (if ic then VBreakInContinuing else VBreakOutsideLoop))
  | SContinue => when (negb cc) (mk (if ic then VContinueInContinuing else VContinueOutsideLoop))
  | SReturn v => when ic (mk VReturnInContinuing) ++ ops (opt_list v)
  | SKill => if kc then when ic (mk VKillInContinuing) else []
  | SBarrier _ => []
  | SStore p v => ops [p; v]
  | SAtomic p _ _ v r => ops (p :: v :: opt_list r)
  | SCall f args r => when (negb (valid_h f (e_nfuncs E))) (mk VStmtFunction) ++ ops (args ++ opt_list r)
  | SOther t refs => if other_stmt_checked t then ops refs else []
  end.

Fixpoint vblock_fx (E : venv) (kc : bool) (cb cc ic : bool) (k : Z) (b : list stmt) {struct b} : list verror :=
  match b with [] => [] | x :: b' => vstmt_fx E kc cb cc ic k x ++ vblock_fx E kc cb cc ic (k + 1) b' end.

Fixpoint vcases_fx (E : venv) (kc : bool) (cc ic : bool) (i : Z) (has_default : bool)
         (cs : list (switch_value * list stmt * bool)) {struct cs} : list verror :=
  match cs with
  | [] => when (negb has_default) (err_stmt (e_fname E) i VSwitchNoDefault)
  | (v, b, _) :: cs' =>
    when (is_default v && has_default) (err_stmt (e_fname E) i VSwitchMultiDefault)
    ++ vblock_fx E kc true cc ic 0 b
    ++ vcases_fx E kc cc ic i (is_default v || has_default) cs'
  end.

Definition vfunction_fx (kc : bool) (m : module) (f : func) : list verror :=
  vfunction_head m f ++ vblock_fx (env_of m f) kc false false false 0 (f_body f).

Fixpoint vfunctions_fx_from (kc : bool) (m : module) (names : list string) (fs : list func) : list verror :=
  match fs with
  | [] => []
  | f :: fs' =>
    let named := negb (String.eqb (f_name f) EmptyString) in
    when (named && str_mem (f_name f) names) (err_mod VFuncDupName)
    ++ vfunction_fx kc m f
    ++ vfunctions_fx_from kc m (if named then f_name f :: names else names) fs'
  end.
Definition vfunctions_fx (kc : bool) (m : module) : list verror := vfunctions_fx_from kc m [] (m_functions m).

(* validateGlobalVariables without the binding map *)
Fixpoint vglobals_fx_from (ntypes nconsts : nat) (names : list string) (gs : list global_var) : list verror :=
  match gs with
  | [] => []
  | g :: gs' =>
    let named := negb (String.eqb (g_name g) EmptyString) in
    when (named && str_mem (g_name g) names) (err_mod VGlobalDupName)
    ++ when (negb (valid_h (g_type g) ntypes)) (err_mod VGlobalType)
    ++ match g_init g with
       | Some c => when (negb (valid_h c nconsts)) (err_mod VGlobalInit)
       | None => []
       end
    ++ vglobals_fx_from ntypes nconsts (if named then g_name g :: names else names) gs'
  end.
Definition vglobals_fx (m : module) : list verror :=
  vglobals_fx_from (List.length (m_types m)) (List.length (m_constants m)) [] (m_globals m).

(* one error per pair already seen *)
Fixpoint dup_walk (seen : list (Z * Z)) (l : list (Z * Z)) : list verror :=
  match l with
  | [] => []
  | p :: l' => when (pair_mem p seen) (err_mod VEpDupBinding) ++ dup_walk (p :: seen) l'
  end.

Fixpoint ventries_fx_from (m : module) (names : list string) (eps : list entry_point) : list verror :=
  match eps with
  | [] => []
  | ep :: eps' =>
    when (String.eqb (ep_name ep) EmptyString) (err_mod VEpEmptyName)
    ++ when (str_mem (ep_name ep) names) (err_mod VEpDupName)
    ++ dup_walk [] (ep_bindings m ep)
    ++ ventry m ep
    ++ ventries_fx_from m (ep_name ep :: names) eps'
  end.
Definition ventries_fx (m : module) : list verror := ventries_fx_from m [] (m_entry_points m).

Definition validate_model_fxk (kc : bool) (m : module) : list verror :=
  vtypes m ++ vconstants m ++ vglobals_fx m ++ vfunctions_fx kc m ++ ventries_fx m.

(* the two repairs *)
Definition validate_model_fx (m : module) : list verror := validate_model_fxk false m.    (* validate.diff *)
Definition validate_model_fx2 (m : module) : list verror := validate_model_fxk true m.    (* validate_suitesafe.diff *)

Definition is_binding_fx (c : vclass) : bool := match c with VEpDupBinding => true | _ => false end.
Definition binding_errors_fx (l : list verror) : list verror := filter (fun e => is_binding_fx (ve_class e)) l.
