(* C08: the binding-uniqueness rule of ir/validate.go (ValidatorModel.vglobals)
   against WGSL's per-entry-point rule (BindingRule). *)
From Coq Require Import List ZArith String Bool Arith Lia.
Import ListNotations.
Require Import Naga.IR.Syntax Naga.Valid.ValidatorModel Naga.Valid.Reach Naga.Valid.ReachProofs Naga.Valid.BindingRule.
Open Scope Z_scope.

(* ---- small list facts ---- *)
Lemma nodup_app_disjoint {A} (a b : list A) x : NoDup (a ++ b) -> In x a -> In x b -> False.
Proof.
  induction a as [|y a IH]; intros Hn Ha Hb; [contradiction|].
  cbn in Hn. inversion Hn; subst. destruct Ha as [->|Ha].
  - apply H1. apply in_or_app. now right.
  - now apply IH.
Qed.

Lemma nodup_app_r {A} (a b : list A) : NoDup (a ++ b) -> NoDup b.
Proof. induction a; cbn; [auto|]. intros H. inversion H; auto. Qed.

Lemma flat_map_map {A B C} (f : B -> list C) (g : A -> B) l : flat_map f (map g l) = flat_map (fun x => f (g x)) l.
Proof. induction l; cbn; [reflexivity|]. now rewrite IHl. Qed.

Lemma flat_map_nth {A B} (h : A -> list B) (G : list A) :
  flat_map h G = flat_map (fun i => match nth_error G i with Some x => h x | None => [] end) (seq 0 (List.length G)).
Proof.
  induction G as [|a G IH]; [reflexivity|].
  cbn [List.length seq flat_map nth_error]. f_equal. rewrite <- seq_shift, flat_map_map. exact IH.
Qed.

Section Disjoint.
  Context {A B : Type} (F : A -> list B).

  Lemma flat_map_disjoint L : NoDup (flat_map F L) ->
    forall a b y, In a L -> In b L -> a <> b -> In y (F a) -> In y (F b) -> False.
  Proof.
    induction L as [|x L IH]; intros Hn a b y Ha Hb Hab Hya Hyb; [contradiction|].
    cbn in Hn. destruct Ha as [->|Ha], Hb as [->|Hb].
    - congruence.
    - eapply nodup_app_disjoint; [exact Hn|exact Hya|]. apply in_flat_map. eauto.
    - eapply nodup_app_disjoint; [exact Hn|exact Hyb|]. apply in_flat_map. eauto.
    - apply nodup_app_r in Hn. eapply IH; eauto.
  Qed.

  Lemma flat_map_nodup_sub L L' :
    (forall x, NoDup (F x)) -> NoDup L' -> (forall x, In x L' -> F x <> [] -> In x L) ->
    NoDup (flat_map F L) -> NoDup (flat_map F L').
  Proof.
    intros HF Hn Hi HL. induction L' as [|x L' IH]; [constructor|].
    inversion Hn; subst. cbn. apply nodup_app_intro.
    - apply HF.
    - apply IH; [assumption|]. intros z Hz. apply Hi. now right.
    - intros y Hy Hy'. apply in_flat_map in Hy'. destruct Hy' as (z & Hz & Hyz).
      apply (flat_map_disjoint L HL x z y).
      + apply Hi; [now left|]. intro E. rewrite E in Hy. contradiction.
      + apply Hi; [now right|]. intro E. rewrite E in Hyz. contradiction.
      + intros ->. contradiction.
      + assumption.
      + assumption.
  Qed.
End Disjoint.

(* ---- executable specification = relational specification ---- *)
Lemma pair_eqb_eq a b : BindingRule.pair_eqb a b = true <-> a = b.
Proof.
  destruct a, b. unfold BindingRule.pair_eqb. cbn. rewrite andb_true_iff, !Z.eqb_eq. split; [intros []|intros [=]]; subst; auto.
Qed.

Lemma nodup_pairsb_spec l : nodup_pairsb l = true <-> NoDup l.
Proof.
  induction l as [|p l IH]; cbn; [split; [constructor|reflexivity]|].
  rewrite andb_true_iff, negb_true_iff, IH. split.
  - intros [Hn Hd]. constructor; [|assumption]. intros Hin.
    assert (existsb (BindingRule.pair_eqb p) l = true) by (apply existsb_exists; exists p; split; [assumption|now apply pair_eqb_eq]).
    congruence.
  - intros H. inversion H; subst. split; [|assumption].
    destruct (existsb _ l) eqn:E; [|reflexivity]. apply existsb_exists in E. destruct E as (q & Hq & He).
    apply pair_eqb_eq in He. subst. contradiction.
Qed.

Theorem binding_rule_okb_spec m : binding_rule_okb m = true <-> binding_rule_ok m.
Proof.
  unfold binding_rule_okb, binding_rule_ok. rewrite forallb_forall.
  split; intros H ep Hep; apply nodup_pairsb_spec; auto.
Qed.

(* ---- the module-wide list of pairs, indexed ---- *)
Lemma module_bindings_indexed m :
  module_bindings m = bindings_of m (seq 0 (List.length (m_globals m))).
Proof. unfold module_bindings, bindings_of, binding_of. apply flat_map_nth. Qed.

Lemma binding_of_nodup m g : NoDup (binding_of m g).
Proof.
  unfold binding_of. destruct (nth_error _ g) as [gv|]; [|constructor].
  destruct (g_binding gv); cbn; repeat constructor. intros [].
Qed.

Lemma binding_of_valid m g : binding_of m g <> [] -> In g (seq 0 (List.length (m_globals m))).
Proof.
  unfold binding_of. intros H. apply in_seq. split; [lia|]. cbn.
  apply nth_error_Some. intro E. rewrite E in H. congruence.
Qed.

(* module-wide uniqueness implies the per-entry-point rule *)
Theorem module_unique_implies_rule m : NoDup (module_bindings m) -> binding_rule_ok m.
Proof.
  rewrite module_bindings_indexed. intros H ep _. unfold ep_bindings, bindings_of.
  apply (flat_map_nodup_sub (binding_of m) (seq 0 (List.length (m_globals m)))).
  - apply binding_of_nodup.
  - apply used_globals_nodup.
  - intros x _. apply binding_of_valid.
  - exact H.
Qed.

(* the converse holds when one entry point statically uses every resource variable *)
Theorem rule_implies_module_unique m : binding_rule_ok m -> one_ep_uses_all m -> NoDup (module_bindings m).
Proof.
  intros Hok (ep & Hep & Hall). rewrite module_bindings_indexed. unfold bindings_of.
  apply (flat_map_nodup_sub (binding_of m) (used_globals m (ep_func ep))).
  - apply binding_of_nodup.
  - apply seq_NoDup.
  - intros x _. apply Hall.
  - apply Hok. exact Hep.
Qed.

(* ---- what validateGlobalVariables reports ---- *)
Lemma b_app a b : binding_errors (a ++ b) = binding_errors a ++ binding_errors b.
Proof. apply filter_app. Qed.

Lemma b_when_non b c : is_binding c = false -> binding_errors (when b (err_mod c)) = [].
Proof. intros H. destruct b; cbn; [now rewrite H|reflexivity]. Qed.

Lemma pair_mem_In p l : pair_mem p l = true <-> In p l.
Proof.
  unfold pair_mem. rewrite existsb_exists. split.
  - intros (q & Hq & He). destruct p, q. unfold ValidatorModel.pair_eqb in He. cbn in He.
    rewrite andb_true_iff, !Z.eqb_eq in He. destruct He; subst. assumption.
  - intros H. exists p. split; [assumption|]. destruct p. unfold ValidatorModel.pair_eqb. cbn. now rewrite !Z.eqb_refl.
Qed.

Lemma app_nil_iff2 {A} (a b : list A) : a ++ b = [] <-> a = [] /\ b = [].
Proof. split; [apply app_eq_nil|intros [-> ->]; reflexivity]. Qed.

Lemma vglobals_binding_exact nt nc : forall gs names seen,
  binding_errors (vglobals_from nt nc names seen gs) = [] <->
  NoDup (flat_map (fun gv => opt_list (g_binding gv)) gs) /\
  forall p, In p (flat_map (fun gv => opt_list (g_binding gv)) gs) -> ~ In p seen.
Proof.
  induction gs as [|g gs IH]; intros names seen.
  - cbn. split; [intros _; split; [constructor|intros ? []]|reflexivity].
  - cbn [vglobals_from flat_map]. rewrite !b_app, !b_when_non by reflexivity. cbn [app].
    assert (HI : binding_errors (match g_init g with
                                 | Some c => when (negb (valid_h c nc)) (err_mod VGlobalInit) | None => [] end) = []).
    { destruct (g_init g); [now apply b_when_non|reflexivity]. }
    rewrite HI. cbn [app].
    destruct (g_binding g) as [p|]; cbn [opt_list app].
    + rewrite app_nil_iff2, IH.
      assert (HW : binding_errors (when (pair_mem p seen) (err_mod VGlobalDupBinding)) = [] <-> ~ In p seen).
      { rewrite <- pair_mem_In. destruct (pair_mem p seen); cbn; split; congruence. }
      rewrite HW. split.
      * intros (Hp & Hn & Hd). split.
        -- constructor; [|assumption]. intro Hin. apply (Hd p Hin). now left.
        -- intros q [<-|Hq]; [assumption|]. intro Hs. apply (Hd q Hq). now right.
      * intros (Hn & Hd). inversion Hn; subst. split; [|split].
        -- apply Hd. now left.
        -- assumption.
        -- intros q Hq [<-|Hs]; [contradiction|]. apply (Hd q); [now right|assumption].
    + cbn. apply IH.
Qed.
