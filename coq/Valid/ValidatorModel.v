(* C08: Gallina transliteration of /repo/ir/validate.go (ir.Validate) over
   IR/Syntax.v.  Definitions only.  The model says what the Go code DOES, rule
   by rule and in the order the Go code appends its errors:

     validate_model m = validateTypes ++ validateConstants ++ validateGlobalVariables
                        ++ validateFunctions ++ validateEntryPoints

   An error is its rule class plus the location fields of ir.ValidationError
   (Function, Statement index in its own block, Expression handle); message
   texts are not modelled.

   Faithfulness notes (things the Go code does that one might not expect):
   * validateFunctions walks module.Functions only: the inline functions of the
     entry points (EntryPoint.Function) are never validated -- neither their
     expressions nor their bodies.
   * loopDepth is incremented by a loop (body and continuing), a switch leaves
     it unchanged; inContinuing is set by a continuing block and is NOT reset by
     a loop or switch nested inside it.
   * binding uniqueness is module-wide over GlobalVariables, entry points are
     not consulted.
   * kinds without a `case` in the Go type switches get no check.
   Deviations forced by IR/Syntax.v (invisible on lowered modules, whose handles
   are all valid): for the kinds kept generically (EOther/SOther) the model
   checks every handle Syntax.v retains (Go skips the handles nested in
   SampleLevel/ImageQuery payloads); ExprSubgroupOperationResult's type handle
   is dropped by Syntax.v; a nil Inner/Kind is not representable; a swizzle of
   size > 4 makes the Go loop index Pattern out of range (panic), the model
   checks the components present. *)
From Coq Require Import List ZArith String Bool.
Import ListNotations.
Require Import Naga.IR.Syntax.
Open Scope Z_scope.

Inductive vclass :=
(* validateType *)
| VScalarWidth | VVectorSize | VVectorWidth | VMatrixCols | VMatrixRows | VMatrixScalar
| VArrayBase | VArrayCircular | VMemberEmptyName | VMemberDupName | VMemberType | VMemberCircular | VPointerBase
(* validateConstants / validateGlobalVariables *)
| VConstType | VGlobalDupName | VGlobalType | VGlobalDupBinding | VGlobalInit
(* validateFunctions / validateFunction *)
| VFuncDupName | VArgType | VResultType | VLocalType | VLocalInit
(* validateExpression *)
| VExprOperand | VExprConstant | VExprType | VSplatSize | VSwizzleSize | VSwizzlePattern
| VExprArgIndex | VExprGlobal | VExprLocal | VExprFunction
(* validateStatement *)
| VEmitStart | VEmitEnd | VEmitEmpty | VStmtOperand | VStmtFunction | VSwitchMultiDefault | VSwitchNoDefault
| VBreakOutsideLoop | VBreakInContinuing | VContinueOutsideLoop | VContinueInContinuing
| VReturnInContinuing | VKillInContinuing
(* validateEntryPoints *)
| VEpEmptyName | VEpDupName | VEpVertexNoResult | VEpVertexNoPosition | VEpWorkgroupZero
(* only in the repaired validator (ValidatorModelFixed.v): duplicate (group,binding) within one entry point *)
| VEpDupBinding.

Record verror := mkverr {
  ve_class : vclass;
  ve_func : string;          (* ValidationError.Function, "" when absent *)
  ve_stmt : Z;               (* ValidationError.Statement, -1 when absent *)
  ve_expr : option nat }.    (* ValidationError.Expression *)

Definition err_mod (c : vclass) : verror := mkverr c EmptyString (-1) None.            (* addError *)
Definition err_fn (fn : string) (c : vclass) : verror := mkverr c fn (-1) None.       (* addErrorInFunction *)
Definition err_expr (fn : string) (h : nat) (c : vclass) : verror := mkverr c fn (-1) (Some h).
Definition err_stmt (fn : string) (i : Z) (c : vclass) : verror := mkverr c fn i None.

Definition when (b : bool) (e : verror) : list verror := if b then [e] else [].

Definition str_mem (s : string) (l : list string) : bool := existsb (String.eqb s) l.
Definition valid_h (h n : nat) : bool := Nat.ltb h n.                      (* int(handle) < len(...) *)
Definition width_ok (w : Z) : bool := (w =? 1) || (w =? 2) || (w =? 4) || (w =? 8).
Definition vecsize_ok (n : Z) : bool := (n =? 2) || (n =? 3) || (n =? 4).

(* ---- validateTypes ---- *)
Fixpoint vmembers (ntypes h : nat) (seen : list string) (ms : list struct_member) : list verror :=
  match ms with
  | [] => []
  | mb :: ms' =>
    when (String.eqb (m_name mb) EmptyString) (err_mod VMemberEmptyName)
    ++ when (str_mem (m_name mb) seen) (err_mod VMemberDupName)
    ++ when (negb (valid_h (m_type mb) ntypes)) (err_mod VMemberType)
    ++ when (Nat.eqb (m_type mb) h) (err_mod VMemberCircular)
    ++ vmembers ntypes h (m_name mb :: seen) ms'
  end.

Definition vtype (ntypes h : nat) (t : ty) : list verror :=
  match ty_inner t with
  | TScalar s => when (negb (width_ok (swidth s))) (err_mod VScalarWidth)
  | TVector n s =>
    when (negb (vecsize_ok n)) (err_mod VVectorSize) ++ when (negb (width_ok (swidth s))) (err_mod VVectorWidth)
  | TMatrix c r s =>
    when (negb (vecsize_ok c)) (err_mod VMatrixCols) ++ when (negb (vecsize_ok r)) (err_mod VMatrixRows)
    ++ when (match skind s with Float => false | _ => true end) (err_mod VMatrixScalar)
  | TArray b _ _ =>
    when (negb (valid_h b ntypes)) (err_mod VArrayBase) ++ when (Nat.eqb b h) (err_mod VArrayCircular)
  | TStruct ms _ => vmembers ntypes h [] ms
  | TPointer b _ => when (negb (valid_h b ntypes)) (err_mod VPointerBase)
  | TValuePointer _ _ _ | TAtomic _ | TBindingArray _ _ | TOther _ => []
  end.

Fixpoint vtypes_from (ntypes h : nat) (ts : list ty) : list verror :=
  match ts with [] => [] | t :: ts' => vtype ntypes h t ++ vtypes_from ntypes (S h) ts' end.
Definition vtypes (m : module) : list verror := vtypes_from (List.length (m_types m)) O (m_types m).

(* ---- validateConstants ---- *)
Definition vconstants (m : module) : list verror :=
  flat_map (fun c => when (negb (valid_h (c_type c) (List.length (m_types m)))) (err_mod VConstType)) (m_constants m).

(* ---- validateGlobalVariables ---- *)
Definition pair_eqb (a b : Z * Z) : bool := (fst a =? fst b) && (snd a =? snd b).
Definition pair_mem (p : Z * Z) (l : list (Z * Z)) : bool := existsb (pair_eqb p) l.

Fixpoint vglobals_from (ntypes nconsts : nat) (names : list string) (bindings : list (Z * Z))
         (gs : list global_var) : list verror :=
  match gs with
  | [] => []
  | g :: gs' =>
    let named := negb (String.eqb (g_name g) EmptyString) in
    when (named && str_mem (g_name g) names) (err_mod VGlobalDupName)
    ++ when (negb (valid_h (g_type g) ntypes)) (err_mod VGlobalType)
    ++ match g_binding g with
       | Some p => when (pair_mem p bindings) (err_mod VGlobalDupBinding)
       | None => []
       end
    ++ match g_init g with
       | Some c => when (negb (valid_h c nconsts)) (err_mod VGlobalInit)
       | None => []
       end
    ++ vglobals_from ntypes nconsts (if named then g_name g :: names else names)
                     (match g_binding g with Some p => p :: bindings | None => bindings end) gs'
  end.
Definition vglobals (m : module) : list verror :=
  vglobals_from (List.length (m_types m)) (List.length (m_constants m)) [] [] (m_globals m).

(* ---- validateFunction ---- *)
Record venv := mkvenv {
  e_fname : string; e_ntypes : nat; e_nconsts : nat; e_nglobals : nat; e_nfuncs : nat;
  e_nargs : nat; e_nlocals : nat; e_nexprs : nat }.

Definition bad_operands (E : venv) (mk : vclass -> verror) (c : vclass) (hs : list nat) : list verror :=
  flat_map (fun h => when (negb (valid_h h (e_nexprs E))) (mk c)) hs.

(* kinds kept generically that validateExpression has a case for *)
Definition other_expr_checked (t : string) : bool :=
  (String.eqb t "ExprImageSample" || String.eqb t "ExprImageLoad" || String.eqb t "ExprImageQuery"
   || String.eqb t "ExprDerivative" || String.eqb t "ExprRayQueryGetIntersection")%bool.

Definition vexpr (E : venv) (h : nat) (e : expr) : list verror :=
  let mk := err_expr (e_fname E) h in
  let ops := bad_operands E mk VExprOperand in
  match e with
  | ELiteral _ | EOverride _ | EAtomicResult _ _ => []
  | EConstant c => when (negb (valid_h c (e_nconsts E))) (mk VExprConstant)
  | EZeroValue t => when (negb (valid_h t (e_ntypes E))) (mk VExprType)
  | ECompose t cs => when (negb (valid_h t (e_ntypes E))) (mk VExprType) ++ ops cs
  | EAccess b i => ops [b; i]
  | EAccessIndex b _ => ops [b]
  | ESplat n v => when (negb (vecsize_ok n)) (mk VSplatSize) ++ ops [v]
  | ESwizzle n v pat =>
    when (negb (vecsize_ok n)) (mk VSwizzleSize) ++ ops [v]
    ++ flat_map (fun c => when (3 <? c) (mk VSwizzlePattern)) (firstn (Z.to_nat n) pat)
  | EFunctionArgument i => when (negb (valid_h i (e_nargs E))) (mk VExprArgIndex)
  | EGlobalVariable g => when (negb (valid_h g (e_nglobals E))) (mk VExprGlobal)
  | ELocalVariable l => when (negb (valid_h l (e_nlocals E))) (mk VExprLocal)
  | ELoad p => ops [p]
  | EUnary _ a => ops [a]
  | EBinary _ l r => ops [l; r]
  | ESelect c a r => ops [c; a; r]
  | ERelational _ a => ops [a]
  | EMath _ args => ops args
  | EAs a _ _ => ops [a]
  | ECallResult f => when (negb (valid_h f (e_nfuncs E))) (mk VExprFunction)
  | EArrayLength a => ops [a]
  | EOther t refs => if other_expr_checked t then ops refs else []
  end.

Fixpoint vexprs_from (E : venv) (h : nat) (es : list expr) : list verror :=
  match es with [] => [] | e :: es' => vexpr E h e ++ vexprs_from E (S h) es' end.

(* ---- validateStatement / validateBlock ---- *)
Definition other_stmt_checked (t : string) : bool :=
  (String.eqb t "StmtImageStore" || String.eqb t "StmtWorkGroupUniformLoad" || String.eqb t "StmtRayQuery")%bool.

Definition is_default (v : switch_value) : bool := match v with SVDefault => true | _ => false end.

(* [depth] = validationContext.loopDepth, [ic] = validationContext.inContinuing, [i] = index in its block *)
Fixpoint vstmt (E : venv) (depth : nat) (ic : bool) (i : Z) (s : stmt) {struct s} : list verror :=
  let vblock := fix vblock (d : nat) (c : bool) (k : Z) (b : list stmt) {struct b} : list verror :=
      match b with [] => [] | x :: b' => vstmt E d c k x ++ vblock d c (k + 1) b' end in
  let mk := err_stmt (e_fname E) i in
  let ops := bad_operands E mk VStmtOperand in
  match s with
  | SEmit a b =>
    when (negb (Nat.ltb a (e_nexprs E))) (mk VEmitStart)
    ++ when (Nat.ltb (e_nexprs E) b) (mk VEmitEnd)
    ++ when (negb (Nat.ltb a b)) (mk VEmitEmpty)
  | SBlock b => vblock depth ic 0 b
  | SIf c a r => ops [c] ++ vblock depth ic 0 a ++ vblock depth ic 0 r
  | SSwitch sel cases =>
    ops [sel]
    ++ (fix vcases (has_default : bool) (cs : list (switch_value * list stmt * bool)) {struct cs} : list verror :=
          match cs with
          | [] => when (negb has_default) (mk VSwitchNoDefault)
          | (v, b, _) :: cs' =>
            when (is_default v && has_default) (mk VSwitchMultiDefault)
            ++ vblock depth ic 0 b
            ++ vcases (is_default v || has_default) cs'
          end) false cases
  | SLoop b c bi =>
    vblock (S depth) ic 0 b ++ vblock (S depth) true 0 c ++ ops (opt_list bi)
  | SBreak =>
    when (Nat.eqb depth 0) (mk VBreakOutsideLoop) ++ when ic (mk VBreakInContinuing)
  | SContinue =>
    when (Nat.eqb depth 0) (mk VContinueOutsideLoop) ++ when ic (mk VContinueInContinuing)
  | SReturn v => when ic (mk VReturnInContinuing) ++ ops (opt_list v)
  | SKill => when ic (mk VKillInContinuing)
  | SBarrier _ => []
  | SStore p v => ops [p; v]
  | SAtomic p _ _ v r => ops (p :: v :: opt_list r)
  | SCall f args r => when (negb (valid_h f (e_nfuncs E))) (mk VStmtFunction) ++ ops (args ++ opt_list r)
  | SOther t refs => if other_stmt_checked t then ops refs else []
  end.

Fixpoint vblock (E : venv) (d : nat) (c : bool) (k : Z) (b : list stmt) {struct b} : list verror :=
  match b with [] => [] | x :: b' => vstmt E d c k x ++ vblock E d c (k + 1) b' end.

Fixpoint vcases (E : venv) (d : nat) (c : bool) (i : Z) (has_default : bool)
         (cs : list (switch_value * list stmt * bool)) {struct cs} : list verror :=
  match cs with
  | [] => when (negb has_default) (err_stmt (e_fname E) i VSwitchNoDefault)
  | (v, b, _) :: cs' =>
    when (is_default v && has_default) (err_stmt (e_fname E) i VSwitchMultiDefault)
    ++ vblock E d c 0 b
    ++ vcases E d c i (is_default v || has_default) cs'
  end.

Definition env_of (m : module) (f : func) : venv :=
  mkvenv (f_name f) (List.length (m_types m)) (List.length (m_constants m)) (List.length (m_globals m)) (List.length (m_functions m))
         (List.length (f_args f)) (List.length (f_locals f)) (List.length (f_exprs f)).

(* everything validateFunction checks before the body *)
Definition vfunction_head (m : module) (f : func) : list verror :=
  let E := env_of m f in
  flat_map (fun a => when (negb (valid_h (fa_type a) (e_ntypes E))) (err_fn (f_name f) VArgType)) (f_args f)
  ++ match f_result f with
     | Some r => when (negb (valid_h (fr_type r) (e_ntypes E))) (err_fn (f_name f) VResultType)
     | None => []
     end
  ++ flat_map (fun l => when (negb (valid_h (lv_type l) (e_ntypes E))) (err_fn (f_name f) VLocalType)
                        ++ match lv_init l with
                           | Some h => when (negb (valid_h h (e_nexprs E))) (err_fn (f_name f) VLocalInit)
                           | None => []
                           end) (f_locals f)
  ++ vexprs_from E O (f_exprs f).


Definition vfunction (m : module) (f : func) : list verror :=
  let E := env_of m f in
  flat_map (fun a => when (negb (valid_h (fa_type a) (e_ntypes E))) (err_fn (f_name f) VArgType)) (f_args f)
  ++ match f_result f with
     | Some r => when (negb (valid_h (fr_type r) (e_ntypes E))) (err_fn (f_name f) VResultType)
     | None => []
     end
  ++ flat_map (fun l => when (negb (valid_h (lv_type l) (e_ntypes E))) (err_fn (f_name f) VLocalType)
                        ++ match lv_init l with
                           | Some h => when (negb (valid_h h (e_nexprs E))) (err_fn (f_name f) VLocalInit)
                           | None => []
                           end) (f_locals f)
  ++ vexprs_from E O (f_exprs f)
  ++ vblock E O false 0 (f_body f).

Fixpoint vfunctions_from (m : module) (names : list string) (fs : list func) : list verror :=
  match fs with
  | [] => []
  | f :: fs' =>
    let named := negb (String.eqb (f_name f) EmptyString) in
    when (named && str_mem (f_name f) names) (err_mod VFuncDupName)
    ++ vfunction m f
    ++ vfunctions_from m (if named then f_name f :: names else names) fs'
  end.
Definition vfunctions (m : module) : list verror := vfunctions_from m [] (m_functions m).

(* ---- validateEntryPoints ---- *)
Definition is_position (b : binding) : bool :=
  match b with BBuiltin n _ => String.eqb n "BuiltinPosition" | _ => false end.

Definition struct_has_position (m : module) (t : nat) : bool :=
  match nth_error (m_types m) t with
  | Some ty =>
    match ty_inner ty with
    | TStruct ms _ => existsb (fun mb => match m_binding mb with Some b => is_position b | None => false end) ms
    | _ => false
    end
  | None => false
  end.

Definition has_position (m : module) (r : fn_result) : bool :=
  match fr_binding r with
  | Some b => is_position b || struct_has_position m (fr_type r)
  | None => struct_has_position m (fr_type r)
  end.

Definition ventry (m : module) (ep : entry_point) : list verror :=
  match ep_stage ep with
  | StVertex =>
    match f_result (ep_func ep) with
    | None => [err_mod VEpVertexNoResult]
    | Some r => when (negb (has_position m r)) (err_mod VEpVertexNoPosition)
    end
  | StCompute => when (existsb (fun w => w =? 0) (firstn 3 (ep_workgroup ep))) (err_mod VEpWorkgroupZero)
  | StFragment | StOther _ => []
  end.

Fixpoint ventries_from (m : module) (names : list string) (eps : list entry_point) : list verror :=
  match eps with
  | [] => []
  | ep :: eps' =>
    when (String.eqb (ep_name ep) EmptyString) (err_mod VEpEmptyName)
    ++ when (str_mem (ep_name ep) names) (err_mod VEpDupName)
    ++ ventry m ep
    ++ ventries_from m (ep_name ep :: names) eps'
  end.
Definition ventries (m : module) : list verror := ventries_from m [] (m_entry_points m).

(* ---- ir.Validate ---- *)
Definition validate_model (m : module) : list verror :=
  vtypes m ++ vconstants m ++ vglobals m ++ vfunctions m ++ ventries m.

(* ---- projections used by the theorems ---- *)
Definition is_cf (c : vclass) : bool :=
  match c with
  | VBreakOutsideLoop | VBreakInContinuing | VContinueOutsideLoop | VContinueInContinuing
  | VReturnInContinuing | VKillInContinuing => true
  | _ => false
  end.
Definition is_binding (c : vclass) : bool := match c with VGlobalDupBinding => true | _ => false end.

Definition cf_errors (l : list verror) : list verror := filter (fun e => is_cf (ve_class e)) l.
Definition binding_errors (l : list verror) : list verror := filter (fun e => is_binding (ve_class e)) l.
