(* f32 operators of the override evaluator against the specification: same real value,
   both finite (partial: the sign of a zero result is not compared). *)
From Coq Require Import ZArith Reals Bool.
From Flocq Require Import Core.Core IEEE754.BinarySingleNaN.
Require Import Naga.Base.Bits32 Naga.Overrides.F64 Naga.Overrides.Spec Naga.Overrides.Model Naga.Overrides.FloatProofs32.
Open Scope Z_scope.

(* the evaluator's result and WGSL's result are finite binary32 numbers with the same real value *)
Definition same_f32_value (m : value) (s : res value) : Prop :=
  exists fm fs, m = VF32 fm /\ s = Ok (VF32 fs) /\ is_finite fm = true /\ is_finite fs = true /\ B2R fm = B2R fs.

Lemma model_add_f32 a b : model_binop Add TF32 (VF32 a) (VF32 b) = VF32 (f32_of_f64 (f64_add (f64_of_f32 a) (f64_of_f32 b))).
Proof. reflexivity. Qed.
Lemma model_sub_f32 a b : model_binop Sub TF32 (VF32 a) (VF32 b) = VF32 (f32_of_f64 (f64_sub (f64_of_f32 a) (f64_of_f32 b))).
Proof. reflexivity. Qed.
Lemma model_mul_f32 a b : model_binop Mul TF32 (VF32 a) (VF32 b) = VF32 (f32_of_f64 (f64_mul (f64_of_f32 a) (f64_of_f32 b))).
Proof. reflexivity. Qed.

Lemma spec_f32 o (r : f32) a b : bin_f32 o a b = vf32 r -> is_finite r = true -> spec_binop o (VF32 a) (VF32 b) = Ok (VF32 r).
Proof.
  intros H F. unfold spec_binop, binop.
  destruct o; cbn [is_shift] in *; try (rewrite H; unfold vf32, f32_finite; rewrite F; reflexivity);
    cbn in H; unfold vf32 in H; try discriminate.
  all: destruct (f32_finite _); discriminate.
Qed.

Theorem sound_add_f32 (a b : f32) : is_finite a = true -> is_finite b = true ->
  (Rabs (R32 (B2R a + B2R b)) < bpow radix2 128)%R ->
  same_f32_value (model_binop Add TF32 (VF32 a) (VF32 b)) (spec_binop Add (VF32 a) (VF32 b)).
Proof.
  intros Fa Fb Hr. destruct (add_f32 a b Fa Fb Hr) as (Fm & Fs & V).
  exists (f32_of_f64 (f64_add (f64_of_f32 a) (f64_of_f32 b))), (f32_add a b).
  repeat split; try assumption.
  apply spec_f32; [reflexivity | exact Fs].
Qed.

Theorem sound_sub_f32 (a b : f32) : is_finite a = true -> is_finite b = true ->
  (Rabs (R32 (B2R a - B2R b)) < bpow radix2 128)%R ->
  same_f32_value (model_binop Sub TF32 (VF32 a) (VF32 b)) (spec_binop Sub (VF32 a) (VF32 b)).
Proof.
  intros Fa Fb Hr. destruct (sub_f32 a b Fa Fb Hr) as (Fm & Fs & V).
  exists (f32_of_f64 (f64_sub (f64_of_f32 a) (f64_of_f32 b))), (f32_sub a b).
  repeat split; try assumption.
  apply spec_f32; [reflexivity | exact Fs].
Qed.

Theorem sound_mul_f32 (a b : f32) : is_finite a = true -> is_finite b = true ->
  (Rabs (R32 (B2R a * B2R b)) < bpow radix2 128)%R ->
  same_f32_value (model_binop Mul TF32 (VF32 a) (VF32 b)) (spec_binop Mul (VF32 a) (VF32 b)).
Proof.
  intros Fa Fb Hr. destruct (mul_f32 a b Fa Fb Hr) as (Fm & Fs & V).
  exists (f32_of_f64 (f64_mul (f64_of_f32 a) (f64_of_f32 b))), (f32_mul a b).
  repeat split; try assumption.
  apply spec_f32; [reflexivity | exact Fs].
Qed.

(* division: the evaluator first tests the divisor against 0 *)
Theorem sound_div_f32 (a b : f32) : is_finite a = true -> is_finite b = true -> B2R b <> 0%R ->
  (Rabs (R32 (B2R a / B2R b)) < bpow radix2 128)%R ->
  same_f32_value (model_binop Div TF32 (VF32 a) (VF32 b)) (spec_binop Div (VF32 a) (VF32 b)).
Proof.
  intros Fa Fb Nb Hr. destruct (div_f32 a b Fa Fb Nb Hr) as (Fm & Fs & V).
  exists (f32_of_f64 (f64_div (f64_of_f32 a) (f64_of_f32 b))), (f32_div a b).
  repeat split; try assumption.
  - unfold model_binop. cbn [glit_of_value lit_to_float eval_binary_float make_override_literal value_of_glit].
    destruct (up_correct b Fb) as [Fb' Rb].
    assert (E : f64_eq (f64_of_f32 b) f64_zero = false).
    { unfold f64_eq. rewrite (Beqb_correct 53 1024 _ _ Fb' (eq_refl : is_finite f64_zero = true)).
      apply Req_bool_false. rewrite Rb. exact Nb. }
    rewrite E. reflexivity.
  - apply spec_f32; [reflexivity | exact Fs].
Qed.
