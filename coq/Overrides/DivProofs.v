(* integer division in the override evaluator: int32(float64(x) / float64(y)) is the WGSL
   truncating quotient for ALL operands with y <> 0 (and not INT_MIN / -1, which WGSL
   makes a pipeline-creation error in an override-expression) *)
From Coq Require Import ZArith Bool List Lia Reals.
From Flocq Require Import Core.Core IEEE754.BinarySingleNaN.
Require Import Naga.Base.Bits32 Naga.Overrides.F64 Naga.Overrides.Spec Naga.Overrides.Model
               Naga.Overrides.FloatProofs Naga.Overrides.FloatDiv Naga.Overrides.Proofs.
Open Scope Z_scope.

Theorem sound_div_u32 p q : in32 p -> in32 q -> q <> 0 ->
  spec_binop Div (VU32 p) (VU32 q) = Ok (model_binop Div TU32 (VU32 p) (VU32 q)).
Proof.
  intros Hp Hq Nq. unfold spec_binop, model_binop.
  cbn [binop is_shift bin_u32 bind concretize glit_of_value make_override_literal value_of_glit eval_binary_float].
  destruct (Z.eqb_spec q 0) as [E | _]; [contradiction |].
  rewrite (eq_holds _ _ _ _ (lit_u32_holds q Hq) zero_holds).
  destruct (Z.eqb_spec q 0) as [E | _]; [contradiction |].
  assert (Bp : Z.abs p < B32) by (unfold in32, M32, B32 in *; lia).
  assert (Bq : Z.abs q < B32) by (unfold in32, M32, B32 in *; lia).
  destruct (div_holds _ _ p q (lit_u32_holds p Hp) (lit_u32_holds q Hq) Nq Bp Bq) as [F T].
  unfold go_uint32, go_int64, f64_finite. rewrite F, T.
  rewrite Z.quot_div_nonneg by (unfold in32 in *; lia).
  assert (R : 0 <= p / q < M32).
  { unfold in32, M32 in *. split; [apply Z.div_pos; lia |]. apply Z.div_lt_upper_bound; nia. }
  destruct (Z.leb_spec (- two63) (p / q)); destruct (Z.ltb_spec (p / q) two63); unfold two63, M32 in *; try lia.
  cbn [andb]. unfold div_u32. destruct (Z.eqb_spec q 0) as [E | _]; [contradiction |].
  rewrite Z.mod_small by (unfold two32; lia). reflexivity.
Qed.

Lemma quot_range a b : - two31 <= a < two31 -> - two31 <= b < two31 -> b <> 0 ->
  ~ (a = - two31 /\ b = -1) -> - two31 <= Z.quot a b < two31.
Proof.
  intros Ha Hb Nb Nm.
  assert (Habs : Z.abs (Z.quot a b) <= Z.abs a).
  { rewrite <- Z.quot_abs by exact Nb.
    rewrite Z.quot_div_nonneg by lia.
    apply Z.div_le_upper_bound; [lia |]. nia. }
  destruct (Z.eq_dec a (- two31)) as [Ea | Na].
  - (* a = MIN: |b| >= 2 or b = 1 *)
    subst a. destruct (Z.eq_dec b 1) as [-> | N1].
    + rewrite Z.quot_1_r. unfold two31. lia.
    + assert (Hb2 : 2 <= Z.abs b) by lia.
      assert (Z.abs (Z.quot (- two31) b) <= two31 / 2).
      { rewrite <- Z.quot_abs by exact Nb. rewrite Z.quot_div_nonneg by lia.
        replace (Z.abs (- two31)) with two31 by (unfold two31; lia).
        apply Z.div_le_compat_l; unfold two31; lia. }
      unfold two31 in *. change (2147483648 / 2) with 1073741824 in *. lia.
  - unfold two31 in *. lia.
Qed.

Theorem sound_div_i32 p q : in32 p -> in32 q -> q <> 0 -> ~ (p = INT_MIN_BITS /\ q = ALL_ONES) ->
  spec_binop Div (VI32 p) (VI32 q) = Ok (model_binop Div TI32 (VI32 p) (VI32 q)).
Proof.
  intros Hp Hq Nq Nm. unfold spec_binop, model_binop.
  cbn [binop is_shift bin_i32 bind concretize glit_of_value make_override_literal value_of_glit eval_binary_float].
  assert (Eg : (q =? 0) || ((p =? INT_MIN_BITS) && (q =? ALL_ONES)) = false).
  { destruct (Z.eqb_spec q 0); [contradiction |]. cbn [orb].
    destruct (Z.eqb_spec p INT_MIN_BITS); destruct (Z.eqb_spec q ALL_ONES); cbn [andb]; try reflexivity.
    elim Nm. split; assumption. }
  rewrite Eg.
  assert (Sq : sgn q <> 0).
  { destruct (sgn_cases q) as [[_ E] | [H E]]; rewrite E; unfold in32, H32, M32 in *; lia. }
  rewrite (eq_holds _ _ _ _ (lit_i32_holds q Hq) zero_holds).
  destruct (Z.eqb_spec (sgn q) 0) as [E | _]; [contradiction |].
  pose proof (sgn_bound p Hp) as Bp. pose proof (sgn_bound q Hq) as Bq.
  assert (Ap : Z.abs (sgn p) < B32) by (unfold two31, B32 in *; lia).
  assert (Aq : Z.abs (sgn q) < B32) by (unfold two31, B32 in *; lia).
  destruct (div_holds _ _ (sgn p) (sgn q) (lit_i32_holds p Hp) (lit_i32_holds q Hq) Sq Ap Aq) as [F T].
  assert (Nm' : ~ (sgn p = - two31 /\ sgn q = -1)).
  { intros [E1 E2]. apply Nm. split.
    - exact (sgn_min p Hp E1).
    - destruct (sgn_cases q) as [[H E] | [H E]]; rewrite E in E2; unfold in32, ALL_ONES, H32, M32 in *; lia. }
  pose proof (quot_range _ _ Bp Bq Sq Nm') as R.
  unfold go_int32, f64_finite. rewrite F, T.
  destruct (Z.leb_spec (- two31) (Z.quot (sgn p) (sgn q))); destruct (Z.ltb_spec (Z.quot (sgn p) (sgn q)) two31); try lia.
  cbn [andb]. unfold div_i32.
  destruct (Z.eqb_spec q 0) as [E0 | _]; [contradiction |]. cbn [orb] in Eg. rewrite Eg. reflexivity.
Qed.
