(* Obligations tying Model.v to the Go sources: Gen/OverrideOps.v is regenerated from
   /repo on every run (gen.py + lib/c14gen.py + harness/cmd/goextract); each lemma below
   re-checks, by computation, that the source still has the shape the model assumes.
   A change of an operator, of a conversion, of the lookup order, of a cloned field or a
   new in-place write makes one of them fail. *)
From Coq Require Import ZArith Bool List String.
Require Import Naga.Base.Bits32 Naga.Overrides.F64 Naga.Overrides.Spec Naga.Overrides.Model.
Require Import Naga.Gen.OverrideOps.
Import ListNotations.
Open Scope string_scope.
Open Scope Z_scope.

Fixpoint lookup (k : string) (l : list (string * string)) : option string :=
  match l with
  | [] => None
  | (k', v) :: l' => if String.eqb k k' then Some v else lookup k l'
  end.
Definition pair_eqb (a b : string * string) : bool := String.eqb (fst a) (fst b) && String.eqb (snd a) (snd b).
Fixpoint list_eqb {A} (eqb : A -> A -> bool) (a b : list A) : bool :=
  match a, b with
  | [], [] => true
  | x :: a', y :: b' => eqb x y && list_eqb eqb a' b'
  | _, _ => false
  end.
Definition znum_eqb (a b : string * Z) : bool := String.eqb (fst a) (fst b) && (snd a =? snd b).

(* ---- operator numbering (the JSON interface and the harness dumps use the numbers) ---- *)
Definition bop_go_name (o : bop) : string :=
  match o with
  | Add => "BinaryAdd" | Sub => "BinarySubtract" | Mul => "BinaryMultiply" | Div => "BinaryDivide" | Mod => "BinaryModulo"
  | Eq => "BinaryEqual" | Ne => "BinaryNotEqual" | Lt => "BinaryLess" | Le => "BinaryLessEqual" | Gt => "BinaryGreater"
  | Ge => "BinaryGreaterEqual" | BAnd => "BinaryAnd" | BXor => "BinaryExclusiveOr" | BOr => "BinaryInclusiveOr"
  | LAnd => "BinaryLogicalAnd" | LOr => "BinaryLogicalOr" | Shl => "BinaryShiftLeft" | Shr => "BinaryShiftRight"
  end.
Definition all_bops : list bop := [Add; Sub; Mul; Div; Mod; Eq; Ne; Lt; Le; Gt; Ge; BAnd; BXor; BOr; LAnd; LOr; Shl; Shr].
Fixpoint number {A} (n : Z) (l : list A) : list (A * Z) :=
  match l with [] => [] | x :: l' => (x, n) :: number (n + 1) l' end.

Lemma gen_binary_operator_numbering :
  list_eqb znum_eqb binary_operator_consts (map (fun p => (bop_go_name (fst p), snd p)) (number 0 all_bops)) = true.
Proof. vm_compute. reflexivity. Qed.

Lemma gen_unary_operator_numbering :
  list_eqb znum_eqb unary_operator_consts [("UnaryNegate", 0); ("UnaryLogicalNot", 1); ("UnaryBitwiseNot", 2)] = true.
Proof. vm_compute. reflexivity. Qed.

(* ---- EvalBinaryFloat: the source expression of each case, run on a probe pair, must be
   what the model computes for that operator ---- *)
Definition six : f64 := f64_of_Z 6.
Definition three : f64 := f64_of_Z 3.
Definition src_binary (src : string) (l r : f64) : option f64 :=
  if String.eqb src "left + right" then Some (f64_add l r)
  else if String.eqb src "left - right" then Some (f64_sub l r)
  else if String.eqb src "left * right" then Some (f64_mul l r)
  else if String.eqb src "left / right" then Some (f64_div l r)
  else if String.eqb src "0" then Some f64_zero
  else None.
Definition case_src (o : bop) : string :=
  match lookup (bop_go_name o) eval_binary_float_cases with
  | Some s => s
  | None => match lookup "default" eval_binary_float_cases with Some s => s | None => "?" end
  end.
Definition bits_opt (o : option f64) : Z := match o with Some f => f64_bits f | None => -1 end.

Lemma gen_eval_binary_float_operators :
  forallb (fun o => bits_opt (src_binary (case_src o) six three) =? f64_bits (eval_binary_float o six three)) all_bops = true.
Proof. vm_compute. reflexivity. Qed.

(* the only guard is the division-by-zero one, returning 0 *)
Lemma gen_eval_binary_float_guards :
  list_eqb pair_eqb eval_binary_float_guards [("right == 0", "0")] = true.
Proof. vm_compute. reflexivity. Qed.
Lemma model_div_by_zero_is_zero : f64_bits (eval_binary_float Div six f64_zero) = 0.
Proof. vm_compute. reflexivity. Qed.

(* no case beyond the four arithmetic ones *)
Lemma gen_eval_binary_float_case_count : List.length eval_binary_float_cases = 5%nat.
Proof. vm_compute. reflexivity. Qed.

(* ---- EvalUnaryFloat ---- *)
Definition five : f64 := f64_of_Z 5.
Definition src_unary (src : string) (v : f64) : option f64 :=
  if String.eqb src "-val" then Some (f64_neg v)
  else if String.eqb src "0" then Some f64_zero                                  (* after `if val == 0 { return 1 }` *)
  else if String.eqb src "float64(^int64(val))" then Some (f64_of_Z (Z.lnot (go_int64 v)))
  else None.
Definition uop_go_name (o : uop) : string :=
  match o with UNeg => "UnaryNegate" | UNot => "UnaryLogicalNot" | UBitNot => "UnaryBitwiseNot" end.
Definition ucase_src (o : uop) : string :=
  match lookup (uop_go_name o) eval_unary_float_cases with Some s => s | None => "?" end.

Lemma gen_eval_unary_float_operators :
  forallb (fun o => bits_opt (src_unary (ucase_src o) five) =? f64_bits (eval_unary_float o five)) [UNeg; UNot; UBitNot] = true.
Proof. vm_compute. reflexivity. Qed.
Lemma gen_eval_unary_float_guards :
  list_eqb pair_eqb eval_unary_float_guards [("val == 0", "1")] = true.
Proof. vm_compute. reflexivity. Qed.
Lemma model_not_zero_is_one : f64_bits (eval_unary_float UNot f64_zero) = f64_bits f64_one.
Proof. vm_compute. reflexivity. Qed.

(* ---- makeOverrideLiteral / makeLiteralFromProto: conversion per scalar kind ---- *)
Definition probe : f64 := f64_of_Z 3000000000.     (* separates int32(), uint32() and the identity *)
Definition src_conv (src : string) (v : f64) : option glit :=
  if String.eqb src "Literal{Value: LiteralBool(val == 1.0)}" then Some (GBool (f64_eq v f64_one))
  else if String.eqb src "Literal{Value: LiteralI32(int32(val))}" then Some (GI32 (go_int32 v))
  else if String.eqb src "Literal{Value: LiteralU32(uint32(val))}" then Some (GU32 (go_uint32 v))
  else if String.eqb src "Literal{Value: LiteralF32(float32(val))}" then Some (GF32 (f32_of_f64 v))
  else None.
Definition glit_code (l : option glit) : Z :=
  match l with
  | Some (GBool b) => if b then 1 else 0
  | Some (GI32 z) => 10 + z
  | Some (GU32 z) => 10000000000 + z
  | Some (GF32 f) => 30000000000 + f32_bits f
  | None => -1
  end.
Definition kind_name (t : ty) : string :=
  match t with TBool => "ScalarBool" | TI32 => "ScalarSint" | TU32 => "ScalarUint" | TF32 => "ScalarFloat" end.
Definition proto_name (l : glit) : string :=
  match l with GBool _ => "LiteralBool" | GI32 _ => "LiteralI32" | GU32 _ => "LiteralU32" | GF32 _ => "LiteralF32" end.
Definition src_of (k : string) (tbl : list (string * string)) : string := match lookup k tbl with Some s => s | None => "?" end.

Lemma gen_make_override_literal :
  forallb (fun t => glit_code (src_conv (src_of (kind_name t) make_override_literal_cases) probe)
                    =? glit_code (Some (make_override_literal t probe))) [TBool; TI32; TU32; TF32] = true.
Proof. vm_compute. reflexivity. Qed.

Lemma gen_make_literal_from_proto :
  forallb (fun l => glit_code (src_conv (src_of (proto_name l) make_literal_from_proto_cases) probe)
                    =? glit_code (Some (make_from_proto l probe)))
          [GBool false; GI32 0; GU32 0; GF32 (f32_of_Z 0)] = true.
Proof. vm_compute. reflexivity. Qed.

(* LiteralToFloat: plain conversions; bool -> 1.0 / 0.0 *)
Lemma gen_literal_to_float :
  list_eqb pair_eqb literal_to_float_cases
    [("LiteralF32", "float64(val)"); ("LiteralF64", "float64(val)"); ("LiteralI32", "float64(val)");
     ("LiteralU32", "float64(val)"); ("LiteralBool", "1.0 | 0.0"); ("LiteralAbstractInt", "float64(val)");
     ("LiteralAbstractFloat", "float64(val)"); ("default", "0")] = true.
Proof. vm_compute. reflexivity. Qed.

(* ---- resolveOverrideValue: by id, then by name, then the default, else an error ---- *)
Lemma gen_resolve_order : list_eqb String.eqb resolve_order ["id"; "name"; "init"; "error"] = true.
Proof. vm_compute. reflexivity. Qed.

(* ---- msl evalBinaryOp ---- *)
Definition msl_src_binary (src : string) (l r : f64) : option f64 :=
  if String.eqb src "lf + rf" then Some (f64_add l r)
  else if String.eqb src "lf - rf" then Some (f64_sub l r)
  else if String.eqb src "lf * rf" then Some (f64_mul l r)
  else if String.eqb src "lf / rf" then Some (f64_div l r)
  else None.
Definition msl_case (o : bop) : option f64 :=
  match lookup ("ir." ++ bop_go_name o) msl_eval_binary_cases with
  | Some s => msl_src_binary s six three
  | None => None
  end.
Definition msl_model (o : bop) : option f64 :=
  match msl_eval_binary o (GF32 (f32_of_Z 6)) (GF32 (f32_of_Z 3)) with
  | Some (GF32 f) => Some (f64_of_f32 f)
  | _ => None
  end.
Lemma gen_msl_eval_binary_operators :
  forallb (fun o => bits_opt (msl_case o) =? bits_opt (msl_model o)) all_bops = true.
Proof. vm_compute. reflexivity. Qed.

(* ---- CloneModuleForOverrides / writes of ProcessOverrides ---- *)
Definition locs_of (s : string) : list loc :=
  if String.eqb s "overrides" then [LOverrides]
  else if String.eqb s "override-init" then [LOverrideInitPtr]
  else if String.eqb s "override-id" then [LOverrideIdPtr]
  else if String.eqb s "global-expressions" then [LGlobalExprs]
  else if String.eqb s "constants" then [LConstants]
  else if String.eqb s "functions" then [LFunctions]
  else if String.eqb s "entry-points" then [LFunctions]
  else if String.eqb s "element" then [LFunctions]
  else if String.eqb s "shallow-copy" then []
  else if String.eqb s "fn-expressions" then [LFnExprs]
  else if String.eqb s "fn-expression-types" then [LFnExprTypes]
  else if String.eqb s "fn-local-vars" then [LFnLocalVars]
  else if String.eqb s "fn-local-init" then [LFnLocalInitPtr]
  else if String.eqb s "fn-named-expressions" then [LFnNamedExprs]
  else if String.eqb s "fn-body" then [LFnBodyTop]
  else if String.eqb s "block-element" then [LFnBodyTop; LNestedBlocks]   (* remapBlockHandles recurses into nested blocks *)
  else if String.eqb s "nested-block" then [LNestedBlocks]
  else if String.eqb s "statement-pointer" then [LStmtPtrs]
  else if String.eqb s "call-arguments" then [LCallArgs]
  else if String.eqb s "expression-pointer" then [LExprPtrs]
  else [LTypes; LGlobalVars].     (* unknown class: makes every comparison below fail *)

Definition subset (a b : list loc) : bool := forallb (fun l => mem_loc l b) a.
Definition same_set (a b : list loc) : bool := subset a b && subset b a.

Lemma gen_clone_module : same_set (flat_map locs_of clone_module) module_cloned = true.
Proof. vm_compute. reflexivity. Qed.
Lemma gen_clone_functions : same_set (flat_map locs_of clone_functions) (LFunctions :: fn_cloned) = true.
Proof. vm_compute. reflexivity. Qed.
Lemma gen_clone_entry_points : same_set (flat_map locs_of clone_entry_points) (LFunctions :: fn_cloned) = true.
Proof. vm_compute. reflexivity. Qed.
Lemma gen_process_written : same_set (flat_map locs_of process_written) written = true.
Proof. vm_compute. reflexivity. Qed.
Lemma gen_no_unclassified_assignment : List.length unclassified_assignments = 0%nat.
Proof. vm_compute. reflexivity. Qed.
