(* f32 overrides: the evaluator computes float32(float64(a) op float64(b)).  For a single
   + - * / on binary32 operands this double rounding is innocuous (binary64 has more than
   2*24+1 digits; Flocq Prop.Double_rounding): the result has the same real value as the
   correctly rounded binary32 operation, whenever that one is finite.
   Stated on real values and finiteness: the sign of a zero result is not covered
   (hence `_partial` in Props/C14.v). *)
From Coq Require Import ZArith Reals Lia Lra Bool.
From Flocq Require Import Core.Core IEEE754.BinarySingleNaN Double_rounding.
Require Import Naga.Overrides.F64.
Open Scope Z_scope.

Local Instance i_prec24 : Prec_gt_0 24 := prec24.
Local Instance i_prec53 : Prec_gt_0 53 := prec53.

Local Notation fexp64 := (SpecFloat.fexp 53 1024).
Local Notation fexp32 := (SpecFloat.fexp 24 128).
Definition R64 (x : R) : R := round radix2 fexp64 (round_mode mode_NE) x.
Definition R32 (x : R) : R := round radix2 fexp32 (round_mode mode_NE) x.

Lemma flt32_in_64 x : FLT_format radix2 (-149) 24 x -> generic_format radix2 fexp64 x.
Proof.
  intros [f Hx Hm He].
  change fexp64 with (FLT_exp (-1074) 53).
  apply generic_format_FLT. exists f.
  - exact Hx.
  - apply Z.lt_trans with (1 := Hm). reflexivity.
  - lia.
Qed.

Lemma b2r32_format64 (a : f32) : generic_format radix2 fexp64 (B2R a).
Proof. apply flt32_in_64. exact (FLT_format_B2R 24 128 prec24 a). Qed.

Lemma b2r32_lt (a : f32) : (Rabs (B2R a) < bpow radix2 128)%R.
Proof. exact (abs_B2R_lt_emax 24 128 a). Qed.

(* float64(x) of a float32 is exact *)
Lemma up_correct (a : f32) : is_finite a = true ->
  is_finite (f64_of_f32 a) = true /\ B2R (f64_of_f32 a) = B2R a.
Proof.
  intros Fa. destruct a as [s | s | | s m e Hb]; try discriminate.
  - split; reflexivity.
  - unfold f64_of_f32.
    pose proof (binary_normalize_correct 53 1024 prec53 emax53 mode_NE (cond_Zopp s (Zpos m)) e s) as H.
    cbv zeta in H.
    change (F2R (Float radix2 (cond_Zopp s (Zpos m)) e)) with (B2R (B754_finite s m e Hb : f32)) in H.
    set (a := (B754_finite s m e Hb : f32)) in *.
    rewrite (round_generic radix2 fexp64 (round_mode mode_NE) (B2R a) (b2r32_format64 a)) in H.
    rewrite Rlt_bool_true in H.
    + destruct H as (H1 & H2 & _). split; assumption.
    + apply Rlt_trans with (1 := b2r32_lt a). apply bpow_lt. lia.
Qed.

(* float32(x) of a finite float64 rounds to nearest even; finite when the rounded value is in range *)
Lemma down_correct (x : f64) : is_finite x = true -> (Rabs (R32 (B2R x)) < bpow radix2 128)%R ->
  is_finite (f32_of_f64 x) = true /\ B2R (f32_of_f64 x) = R32 (B2R x).
Proof.
  intros Fx Hr. destruct x as [s | s | | s m e Hb]; try discriminate.
  - split; [reflexivity |]. unfold R32. cbn [B2R f32_of_f64]. rewrite round_0; [reflexivity | apply valid_rnd_N].
  - unfold f32_of_f64.
    pose proof (binary_normalize_correct 24 128 prec24 emax24 mode_NE (cond_Zopp s (Zpos m)) e s) as H.
    cbv zeta in H.
    change (F2R (Float radix2 (cond_Zopp s (Zpos m)) e)) with (B2R (B754_finite s m e Hb : f64)) in H.
    fold (R32 (B2R (B754_finite s m e Hb : f64))) in H.
    rewrite (Rlt_bool_true _ _ Hr) in H.
    destruct H as (H1 & H2 & _). split; assumption.
Qed.

Lemma pow129_format : generic_format radix2 fexp64 (bpow radix2 129).
Proof.
  change fexp64 with (FLT_exp (-1074) 53). apply generic_format_FLT_bpow.
  - reflexivity.
  - lia.
Qed.

(* double rounding: binary64 then binary32 = binary32 *)
Lemma dr_plus (a b : f32) : R32 (R64 (B2R a + B2R b)) = R32 (B2R a + B2R b).
Proof.
  unfold R32, R64. cbn [round_mode].
  change fexp64 with (FLT_exp (-1074) 53). change fexp32 with (FLT_exp (-149) 24).
  apply (round_round_plus_FLT radix2 (-149) 24 (-1074) 53).
  - lia.
  - lia.
  - exact (FLT_format_B2R 24 128 prec24 a).
  - exact (FLT_format_B2R 24 128 prec24 b).
Qed.

Lemma dr_minus (a b : f32) : R32 (R64 (B2R a - B2R b)) = R32 (B2R a - B2R b).
Proof.
  unfold R32, R64. cbn [round_mode].
  change fexp64 with (FLT_exp (-1074) 53). change fexp32 with (FLT_exp (-149) 24).
  apply (round_round_minus_FLT radix2 (-149) 24 (-1074) 53).
  - lia.
  - lia.
  - exact (FLT_format_B2R 24 128 prec24 a).
  - exact (FLT_format_B2R 24 128 prec24 b).
Qed.

Lemma dr_mult (a b : f32) : R32 (R64 (B2R a * B2R b)) = R32 (B2R a * B2R b).
Proof.
  unfold R32, R64. cbn [round_mode].
  change fexp64 with (FLT_exp (-1074) 53). change fexp32 with (FLT_exp (-149) 24).
  apply (round_round_mult_FLT radix2 ZnearestE (-149) 24 (-1074) 53).
  - lia.
  - lia.
  - exact (FLT_format_B2R 24 128 prec24 a).
  - exact (FLT_format_B2R 24 128 prec24 b).
Qed.

Lemma dr_div (a b : f32) : B2R b <> 0%R -> R32 (R64 (B2R a / B2R b)) = R32 (B2R a / B2R b).
Proof.
  intros Hb. unfold R32, R64. cbn [round_mode].
  change fexp64 with (FLT_exp (-1074) 53). change fexp32 with (FLT_exp (-149) 24).
  apply (round_round_div_FLT radix2 (-149) 24 (-1074) 53).
  - exists 1. reflexivity.
  - lia.
  - lia.
  - exact Hb.
  - exact (FLT_format_B2R 24 128 prec24 a).
  - exact (FLT_format_B2R 24 128 prec24 b).
Qed.

(* no overflow in binary64 for sums / differences / products of binary32 numbers *)
Lemma r64_small x : (Rabs x <= bpow radix2 129)%R -> (Rabs (R64 x) < bpow radix2 1024)%R.
Proof.
  intros H. apply Rle_lt_trans with (bpow radix2 129).
  - unfold R64. apply abs_round_le_generic.
    + apply FLT_exp_valid. reflexivity.
    + apply valid_rnd_N.
    + exact pow129_format.
    + exact H.
  - apply bpow_lt. lia.
Qed.

Lemma sum_small (a b : f32) : (Rabs (B2R a + B2R b) <= bpow radix2 129)%R.
Proof.
  apply Rle_trans with (1 := Rabs_triang _ _).
  pose proof (b2r32_lt a). pose proof (b2r32_lt b).
  replace (bpow radix2 129) with (bpow radix2 128 + bpow radix2 128)%R.
  - lra.
  - change (bpow radix2 129) with (bpow radix2 (128 + 1)). rewrite bpow_plus. simpl. lra.
Qed.

Lemma diff_small (a b : f32) : (Rabs (B2R a - B2R b) <= bpow radix2 129)%R.
Proof.
  unfold Rminus. apply Rle_trans with (1 := Rabs_triang _ _). rewrite Rabs_Ropp.
  pose proof (b2r32_lt a). pose proof (b2r32_lt b).
  replace (bpow radix2 129) with (bpow radix2 128 + bpow radix2 128)%R.
  - lra.
  - change (bpow radix2 129) with (bpow radix2 (128 + 1)). rewrite bpow_plus. simpl. lra.
Qed.

Theorem add_f32 (a b : f32) : is_finite a = true -> is_finite b = true ->
  (Rabs (R32 (B2R a + B2R b)) < bpow radix2 128)%R ->
  let m := f32_of_f64 (f64_add (f64_of_f32 a) (f64_of_f32 b)) in
  is_finite m = true /\ is_finite (f32_add a b) = true /\ B2R m = B2R (f32_add a b).
Proof.
  intros Fa Fb Hr m.
  destruct (up_correct a Fa) as [Fa' Ra]. destruct (up_correct b Fb) as [Fb' Rb].
  pose proof (Bplus_correct 53 1024 prec53 emax53 mode_NE _ _ Fa' Fb') as H64.
  rewrite Ra, Rb in H64. fold (R64 (B2R a + B2R b)) in H64.
  rewrite (Rlt_bool_true _ _ (r64_small _ (sum_small a b))) in H64. destruct H64 as (V64 & F64 & _).
  assert (Hr' : (Rabs (R32 (B2R (f64_add (f64_of_f32 a) (f64_of_f32 b)))) < bpow radix2 128)%R).
  { unfold f64_add. rewrite V64, dr_plus. exact Hr. }
  destruct (down_correct _ F64 Hr') as [Fm Vm].
  pose proof (Bplus_correct 24 128 prec24 emax24 mode_NE a b Fa Fb) as H32.
  fold (R32 (B2R a + B2R b)) in H32. rewrite (Rlt_bool_true _ _ Hr) in H32. destruct H32 as (V32 & F32 & _).
  repeat split.
  - exact Fm.
  - exact F32.
  - unfold m, f64_add. rewrite Vm, V64, dr_plus. symmetry. exact V32.
Qed.

Theorem sub_f32 (a b : f32) : is_finite a = true -> is_finite b = true ->
  (Rabs (R32 (B2R a - B2R b)) < bpow radix2 128)%R ->
  let m := f32_of_f64 (f64_sub (f64_of_f32 a) (f64_of_f32 b)) in
  is_finite m = true /\ is_finite (f32_sub a b) = true /\ B2R m = B2R (f32_sub a b).
Proof.
  intros Fa Fb Hr m.
  destruct (up_correct a Fa) as [Fa' Ra]. destruct (up_correct b Fb) as [Fb' Rb].
  pose proof (Bminus_correct 53 1024 prec53 emax53 mode_NE _ _ Fa' Fb') as H64.
  rewrite Ra, Rb in H64. fold (R64 (B2R a - B2R b)) in H64.
  rewrite (Rlt_bool_true _ _ (r64_small _ (diff_small a b))) in H64. destruct H64 as (V64 & F64 & _).
  assert (Hr' : (Rabs (R32 (B2R (f64_sub (f64_of_f32 a) (f64_of_f32 b)))) < bpow radix2 128)%R).
  { unfold f64_sub. rewrite V64, dr_minus. exact Hr. }
  destruct (down_correct _ F64 Hr') as [Fm Vm].
  pose proof (Bminus_correct 24 128 prec24 emax24 mode_NE a b Fa Fb) as H32.
  fold (R32 (B2R a - B2R b)) in H32. rewrite (Rlt_bool_true _ _ Hr) in H32. destruct H32 as (V32 & F32 & _).
  repeat split.
  - exact Fm.
  - exact F32.
  - unfold m, f64_sub. rewrite Vm, V64, dr_minus. symmetry. exact V32.
Qed.

Lemma prod_small (a b : f32) : (Rabs (B2R a * B2R b) <= bpow radix2 256)%R.
Proof.
  rewrite Rabs_mult. pose proof (b2r32_lt a). pose proof (b2r32_lt b).
  change (bpow radix2 256) with (bpow radix2 (128 + 128)). rewrite bpow_plus.
  apply Rmult_le_compat; try apply Rabs_pos; lra.
Qed.

Lemma pow256_format : generic_format radix2 fexp64 (bpow radix2 256).
Proof.
  change fexp64 with (FLT_exp (-1074) 53). apply generic_format_FLT_bpow.
  - reflexivity.
  - lia.
Qed.

Lemma r64_small_prod x : (Rabs x <= bpow radix2 256)%R -> (Rabs (R64 x) < bpow radix2 1024)%R.
Proof.
  intros H. apply Rle_lt_trans with (bpow radix2 256).
  - unfold R64. apply abs_round_le_generic.
    + apply FLT_exp_valid. reflexivity.
    + apply valid_rnd_N.
    + exact pow256_format.
    + exact H.
  - apply bpow_lt. lia.
Qed.

Theorem mul_f32 (a b : f32) : is_finite a = true -> is_finite b = true ->
  (Rabs (R32 (B2R a * B2R b)) < bpow radix2 128)%R ->
  let m := f32_of_f64 (f64_mul (f64_of_f32 a) (f64_of_f32 b)) in
  is_finite m = true /\ is_finite (f32_mul a b) = true /\ B2R m = B2R (f32_mul a b).
Proof.
  intros Fa Fb Hr m.
  destruct (up_correct a Fa) as [Fa' Ra]. destruct (up_correct b Fb) as [Fb' Rb].
  pose proof (Bmult_correct 53 1024 prec53 emax53 mode_NE (f64_of_f32 a) (f64_of_f32 b)) as H64.
  rewrite Ra, Rb in H64. fold (R64 (B2R a * B2R b)) in H64.
  rewrite (Rlt_bool_true _ _ (r64_small_prod _ (prod_small a b))) in H64. destruct H64 as (V64 & F64 & _).
  rewrite Fa', Fb' in F64. cbn [andb] in F64.
  assert (Hr' : (Rabs (R32 (B2R (f64_mul (f64_of_f32 a) (f64_of_f32 b)))) < bpow radix2 128)%R).
  { unfold f64_mul. rewrite V64, dr_mult. exact Hr. }
  destruct (down_correct _ F64 Hr') as [Fm Vm].
  pose proof (Bmult_correct 24 128 prec24 emax24 mode_NE a b) as H32.
  fold (R32 (B2R a * B2R b)) in H32. rewrite (Rlt_bool_true _ _ Hr) in H32. destruct H32 as (V32 & F32 & _).
  rewrite Fa, Fb in F32. cbn [andb] in F32.
  repeat split.
  - exact Fm.
  - exact F32.
  - unfold m, f64_mul. rewrite Vm, V64, dr_mult. symmetry. exact V32.
Qed.

(* ---- division ---- *)
Lemma pow277_format : generic_format radix2 fexp64 (bpow radix2 277).
Proof.
  change fexp64 with (FLT_exp (-1074) 53). apply generic_format_FLT_bpow.
  - reflexivity.
  - lia.
Qed.

Lemma quot_small (a b : f32) : is_finite b = true -> B2R b <> 0%R -> (Rabs (B2R a / B2R b) <= bpow radix2 277)%R.
Proof.
  intros Fb Nb.
  assert (Sb : is_finite_strict b = true).
  { destruct b; try discriminate; try reflexivity. elim Nb. reflexivity. }
  pose proof (abs_B2R_ge_emin 24 128 b Sb) as Hlo.
  change (SpecFloat.emin 24 128) with (-149) in Hlo.
  pose proof (b2r32_lt a) as Ha.
  unfold Rdiv. rewrite Rabs_mult, Rabs_inv.
  change (bpow radix2 277) with (bpow radix2 (128 + 149)). rewrite bpow_plus.
  assert (Hpos : (0 < bpow radix2 (-149))%R) by apply bpow_gt_0.
  assert (Hinv : (/ Rabs (B2R b) <= bpow radix2 149)%R).
  { change 149 with (- (-149)). rewrite bpow_opp. apply Rinv_le; assumption. }
  apply Rmult_le_compat; try apply Rabs_pos.
  - left. apply Rinv_0_lt_compat. lra.
  - lra.
  - exact Hinv.
Qed.

Lemma r64_small_quot x : (Rabs x <= bpow radix2 277)%R -> (Rabs (R64 x) < bpow radix2 1024)%R.
Proof.
  intros H. apply Rle_lt_trans with (bpow radix2 277).
  - unfold R64. apply abs_round_le_generic.
    + apply FLT_exp_valid. reflexivity.
    + apply valid_rnd_N.
    + exact pow277_format.
    + exact H.
  - apply bpow_lt. lia.
Qed.

Theorem div_f32 (a b : f32) : is_finite a = true -> is_finite b = true -> B2R b <> 0%R ->
  (Rabs (R32 (B2R a / B2R b)) < bpow radix2 128)%R ->
  let m := f32_of_f64 (f64_div (f64_of_f32 a) (f64_of_f32 b)) in
  is_finite m = true /\ is_finite (f32_div a b) = true /\ B2R m = B2R (f32_div a b).
Proof.
  intros Fa Fb Nb Hr m.
  destruct (up_correct a Fa) as [Fa' Ra]. destruct (up_correct b Fb) as [Fb' Rb].
  assert (Nb' : B2R (f64_of_f32 b) <> 0%R) by (rewrite Rb; exact Nb).
  pose proof (Bdiv_correct 53 1024 prec53 emax53 mode_NE (f64_of_f32 a) (f64_of_f32 b) Nb') as H64.
  rewrite Ra, Rb in H64. fold (R64 (B2R a / B2R b)) in H64.
  rewrite (Rlt_bool_true _ _ (r64_small_quot _ (quot_small a b Fb Nb))) in H64. destruct H64 as (V64 & F64 & _).
  rewrite Fa' in F64.
  assert (Hr' : (Rabs (R32 (B2R (f64_div (f64_of_f32 a) (f64_of_f32 b)))) < bpow radix2 128)%R).
  { unfold f64_div. rewrite V64, (dr_div a b Nb). exact Hr. }
  destruct (down_correct _ F64 Hr') as [Fm Vm].
  pose proof (Bdiv_correct 24 128 prec24 emax24 mode_NE a b Nb) as H32.
  fold (R32 (B2R a / B2R b)) in H32. rewrite (Rlt_bool_true _ _ Hr) in H32. destruct H32 as (V32 & F32 & _).
  rewrite Fa in F32.
  repeat split.
  - exact Fm.
  - exact F32.
  - unfold m, f64_div. rewrite Vm, V64, (dr_div a b Nb). symmetry. exact V32.
Qed.
