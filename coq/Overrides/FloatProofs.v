(* Facts about binary64 as used by the override evaluator (Flocq 4):
   every integer of magnitude < 2^53 is a binary64; + - * of such integers are exact while
   the result stays below 2^53; truncation returns the integer.  Hence the Go expression
   int32(float64(x) op float64(y)) computes x op y on integers whenever the mathematical
   result fits the target type. *)
From Coq Require Import ZArith Reals Lia Lra Bool.
From Flocq Require Import Core.Core IEEE754.BinarySingleNaN.
Require Import Naga.Overrides.F64.
Open Scope Z_scope.

Definition P53 : Z := 9007199254740992.   (* 2^53 *)

(* a float64 that holds exactly the integer z *)
Definition holds (a : f64) (z : Z) : Prop := is_finite a = true /\ B2R a = IZR z.

Local Notation fexp64 := (SpecFloat.fexp 53 1024).

Lemma int_format64 z : Z.abs z < P53 -> generic_format radix2 fexp64 (IZR z).
Proof.
  intros Hz.
  change (SpecFloat.fexp 53 1024) with (FLT_exp (-1074) 53).
  apply generic_format_FLT.
  exists (Float radix2 z 0).
  - unfold F2R. simpl. rewrite Rmult_1_r. reflexivity.
  - simpl. exact Hz.
  - simpl. lia.
Qed.

Lemma round_int64 z : Z.abs z < P53 -> round radix2 fexp64 (round_mode mode_NE) (IZR z) = IZR z.
Proof.
  intros Hz. apply round_generic.
  - apply valid_rnd_N.
  - apply int_format64. exact Hz.
Qed.

Lemma int_lt_emax z : Z.abs z < P53 -> (Rabs (IZR z) < bpow radix2 1024)%R.
Proof.
  intros Hz. rewrite <- abs_IZR.
  apply Rlt_trans with (IZR P53).
  - apply IZR_lt. exact Hz.
  - change (IZR P53) with (bpow radix2 53). apply bpow_lt. lia.
Qed.

Lemma f64_of_Z_holds z : Z.abs z < P53 -> holds (f64_of_Z z) z.
Proof.
  intros Hz. unfold holds, f64_of_Z.
  pose proof (binary_normalize_correct 53 1024 prec53 emax53 mode_NE z 0 false) as H.
  cbv zeta in H.
  replace (F2R (Float radix2 z 0)) with (IZR z) in H by (unfold F2R; simpl; ring).
  rewrite (round_int64 z Hz) in H.
  rewrite (Rlt_bool_true _ _ (int_lt_emax z Hz)) in H.
  destruct H as (H1 & H2 & _). split; assumption.
Qed.

Lemma add_holds a b x y : holds a x -> holds b y -> Z.abs (x + y) < P53 -> holds (f64_add a b) (x + y).
Proof.
  intros [Fa Ra] [Fb Rb] Hz. unfold holds, f64_add.
  pose proof (Bplus_correct 53 1024 prec53 emax53 mode_NE a b Fa Fb) as H.
  rewrite Ra, Rb, <- plus_IZR in H.
  rewrite (round_int64 _ Hz) in H.
  rewrite (Rlt_bool_true _ _ (int_lt_emax _ Hz)) in H.
  destruct H as (H1 & H2 & _). split; assumption.
Qed.

Lemma sub_holds a b x y : holds a x -> holds b y -> Z.abs (x - y) < P53 -> holds (f64_sub a b) (x - y).
Proof.
  intros [Fa Ra] [Fb Rb] Hz. unfold holds, f64_sub.
  pose proof (Bminus_correct 53 1024 prec53 emax53 mode_NE a b Fa Fb) as H.
  rewrite Ra, Rb, <- minus_IZR in H.
  rewrite (round_int64 _ Hz) in H.
  rewrite (Rlt_bool_true _ _ (int_lt_emax _ Hz)) in H.
  destruct H as (H1 & H2 & _). split; assumption.
Qed.

Lemma mul_holds a b x y : holds a x -> holds b y -> Z.abs (x * y) < P53 -> holds (f64_mul a b) (x * y).
Proof.
  intros [Fa Ra] [Fb Rb] Hz. unfold holds, f64_mul.
  pose proof (Bmult_correct 53 1024 prec53 emax53 mode_NE a b) as H.
  rewrite Ra, Rb, <- mult_IZR in H.
  rewrite (round_int64 _ Hz) in H.
  rewrite (Rlt_bool_true _ _ (int_lt_emax _ Hz)) in H.
  destruct H as (H1 & H2 & _). rewrite Fa, Fb in H2. split; assumption.
Qed.

Lemma neg_holds a x : holds a x -> holds (f64_neg a) (- x).
Proof.
  intros [Fa Ra]. unfold holds, f64_neg. split.
  - rewrite is_finite_Bopp. exact Fa.
  - rewrite B2R_Bopp, Ra, opp_IZR. reflexivity.
Qed.

Lemma trunc_holds a z : holds a z -> f64_trunc a = z.
Proof.
  intros [_ Ra]. unfold f64_trunc. apply eq_IZR.
  rewrite (Btrunc_correct 53 1024 emax53), Ra.
  apply round_generic.
  - apply valid_rnd_ZR.
  - apply generic_format_FIX. exists (Float radix2 z 0).
    + unfold F2R. simpl. ring.
    + reflexivity.
Qed.

Lemma finite_holds a z : holds a z -> f64_finite a = true.
Proof. intros [Fa _]. exact Fa. Qed.

(* equality test against an integer constant *)
Lemma eq_holds a b x y : holds a x -> holds b y -> f64_eq a b = (x =? y).
Proof.
  intros [Fa Ra] [Fb Rb]. unfold f64_eq.
  rewrite (Beqb_correct _ _ a b Fa Fb), Ra, Rb.
  destruct (Z.eqb_spec x y) as [E | N].
  - subst. apply Req_bool_true. reflexivity.
  - apply Req_bool_false. intros H. apply N. apply eq_IZR. exact H.
Qed.

Lemma zero_holds : holds f64_zero 0.
Proof. split; reflexivity. Qed.

Lemma one_holds : holds f64_one 1.
Proof. apply (f64_of_Z_holds 1). reflexivity. Qed.

(* ---- the Go conversions on integer-valued floats ---- *)
Lemma go_int32_holds a z : holds a z -> - two31 <= z < two31 -> go_int32 a = z mod two32.
Proof.
  intros H R. unfold go_int32. rewrite (finite_holds a z H), (trunc_holds a z H).
  destruct (Z.leb_spec (- two31) z); destruct (Z.ltb_spec z two31); try lia. reflexivity.
Qed.

Lemma go_int32_out a z : holds a z -> ~ (- two31 <= z < two31) -> go_int32 a = two31.
Proof.
  intros H R. unfold go_int32. rewrite (finite_holds a z H), (trunc_holds a z H).
  destruct (Z.leb_spec (- two31) z); destruct (Z.ltb_spec z two31); try lia; reflexivity.
Qed.

Lemma go_int64_holds a z : holds a z -> - two63 <= z < two63 -> go_int64 a = z.
Proof.
  intros H R. unfold go_int64. rewrite (finite_holds a z H), (trunc_holds a z H).
  destruct (Z.leb_spec (- two63) z); destruct (Z.ltb_spec z two63); try lia. reflexivity.
Qed.

Lemma go_uint32_holds a z : holds a z -> - two63 <= z < two63 -> go_uint32 a = z mod two32.
Proof. intros H R. unfold go_uint32. rewrite (go_int64_holds a z H R). reflexivity. Qed.
