(* Integer division through binary64: for |x|, |y| < 2^32, y <> 0, truncating the
   correctly rounded quotient float64(x)/float64(y) gives the truncated integer quotient
   (rounding can never reach the next integer: x/y is at least 1/|y| below it, and a
   binary64 strictly between lies in that gap). *)
From Coq Require Import ZArith Reals Lia Lra Bool.
From Flocq Require Import Core.Core IEEE754.BinarySingleNaN.
Require Import Naga.Overrides.F64 Naga.Overrides.FloatProofs.
Open Scope Z_scope.

Local Notation fexp64 := (SpecFloat.fexp 53 1024).
Definition R64 (x : R) : R := round radix2 fexp64 (round_mode mode_NE) x.
Definition B32 : Z := 4294967296.

Local Instance fexp64_valid : Valid_exp fexp64.
Proof. change fexp64 with (FLT_exp (-1074) 53). apply FLT_exp_valid. reflexivity. Qed.

(* dyadic numbers n / 2^k with |n| < 2^53 are binary64 *)
Lemma dyadic_format64 n e : Z.abs n < P53 -> -1074 <= e ->
  generic_format radix2 fexp64 (IZR n * bpow radix2 e).
Proof.
  intros Hn Hk. change fexp64 with (FLT_exp (-1074) 53).
  apply generic_format_FLT. exists (Float radix2 n e).
  - reflexivity.
  - exact Hn.
  - simpl. lia.
Qed.

Lemma R64_int z : Z.abs z < P53 -> R64 (IZR z) = IZR z.
Proof. intros H. exact (round_int64 z H). Qed.

(* the gap argument: r in [q, q+1 - 1/y] rounds into [q, q+1) *)
Lemma quotient_round_nonneg x y : 0 <= x < B32 -> 0 < y < B32 ->
  Ztrunc (R64 (IZR x / IZR y)) = x / y.
Proof.
  intros Hx Hy. set (q := x / y).
  assert (Hq : 0 <= q < B32).
  { unfold q, B32 in *. split; [apply Z.div_pos; lia |].
    apply Z.div_lt_upper_bound; nia. }
  assert (Hdiv : y * q <= x <= y * q + y - 1).
  { unfold q. pose proof (Z.mul_div_le x y ltac:(lia)). pose proof (Z.mod_pos_bound x y ltac:(lia)).
    pose proof (Z.div_mod x y ltac:(lia)). lia. }
  assert (Hy0 : (0 < IZR y)%R) by (apply IZR_lt; lia).
  set (r := (IZR x / IZR y)%R).
  assert (Hlo : (IZR q <= r)%R).
  { unfold r. apply Rmult_le_reg_r with (IZR y); [exact Hy0 |].
    unfold Rdiv. rewrite Rmult_assoc, Rinv_l by lra. rewrite Rmult_1_r, <- mult_IZR. apply IZR_le. lia. }
  assert (Hhi : (r <= IZR (q + 1) - / IZR y)%R).
  { unfold r. apply Rmult_le_reg_r with (IZR y); [exact Hy0 |].
    unfold Rdiv. rewrite Rmult_assoc, Rinv_l by lra. rewrite Rmult_1_r.
    rewrite Rmult_minus_distr_r, Rinv_l by lra. rewrite <- mult_IZR, <- minus_IZR. apply IZR_le. lia. }
  (* a binary64 t with r <= t < q+1 *)
  assert (Ht : exists t, generic_format radix2 fexp64 t /\ (r <= t)%R /\ (t < IZR (q + 1))%R).
  { destruct (Z_le_gt_dec y 2097152) as [Hs | Hl].
    - (* y <= 2^21: t = q+1 - 2^-21 *)
      exists (IZR ((q + 1) * 2097152 - 1) * bpow radix2 (- 21))%R. split; [| split].
      + apply dyadic_format64; [| lia]. unfold P53, B32 in *. lia.
      + apply Rle_trans with (1 := Hhi).
        rewrite minus_IZR, mult_IZR. simpl (bpow radix2 (-21)).
        assert (/ IZR y >= / 2097152)%R.
        { apply Rle_ge. apply Rinv_le; [exact Hy0 | apply IZR_le; lia]. }
        lra.
      + rewrite minus_IZR, mult_IZR. simpl (bpow radix2 (-21)). lra.
    - (* y > 2^21: q < 2^11, t = q+1 - 2^-32 *)
      assert (Hq' : q < 2048).
      { unfold q. apply Z.div_lt_upper_bound; unfold B32 in *; lia. }
      exists (IZR ((q + 1) * 4294967296 - 1) * bpow radix2 (- 32))%R. split; [| split].
      + apply dyadic_format64; [| lia]. unfold P53. lia.
      + apply Rle_trans with (1 := Hhi).
        rewrite minus_IZR, mult_IZR. simpl (bpow radix2 (-32)).
        assert (/ IZR y >= / 4294967296)%R.
        { apply Rle_ge. apply Rinv_le; [exact Hy0 | apply IZR_le; unfold B32 in *; lia]. }
        lra.
      + rewrite minus_IZR, mult_IZR. simpl (bpow radix2 (-32)). lra. }
  destruct Ht as (t & Ft & Hrt & Htq).
  assert (L : (IZR q <= R64 r)%R).
  { rewrite <- (R64_int q) by (unfold P53, B32 in *; lia). unfold R64. apply round_le; [exact fexp64_valid | apply valid_rnd_N | exact Hlo]. }
  assert (U : (R64 r < IZR (q + 1))%R).
  { apply Rle_lt_trans with t; [| exact Htq].
    rewrite <- (round_generic radix2 fexp64 (round_mode mode_NE) t Ft). unfold R64.
    apply round_le; [exact fexp64_valid | apply valid_rnd_N | exact Hrt]. }
  rewrite Ztrunc_floor.
  - apply Zfloor_imp. split; assumption.
  - apply Rle_trans with (2 := L). apply IZR_le. lia.
Qed.

Lemma R64_opp v : R64 (- v) = (- R64 v)%R.
Proof. unfold R64. cbn [round_mode]. apply round_NE_opp. Qed.

Lemma quotient_round x y : Z.abs x < B32 -> Z.abs y < B32 -> y <> 0 ->
  Ztrunc (R64 (IZR x / IZR y)) = Z.quot x y.
Proof.
  intros Hx Hy Ny.
  destruct (Z_le_gt_dec 0 x) as [Px | Nx]; destruct (Z_lt_le_dec 0 y) as [Py | Ny'].
  - rewrite Z.quot_div_nonneg by lia. apply quotient_round_nonneg; unfold B32 in *; lia.
  - assert (Hy' : 0 < - y) by lia.
    replace (IZR x / IZR y)%R with (- (IZR x / IZR (- y)))%R.
    + rewrite R64_opp, Ztrunc_opp, (quotient_round_nonneg x (- y)) by (unfold B32 in *; lia).
      rewrite <- Z.quot_div_nonneg by lia. rewrite Z.quot_opp_r by lia. lia.
    + rewrite opp_IZR. field. apply IZR_neq. exact Ny.
  - assert (Hx' : 0 <= - x) by lia.
    replace (IZR x / IZR y)%R with (- (IZR (- x) / IZR y))%R.
    + rewrite R64_opp, Ztrunc_opp, (quotient_round_nonneg (- x) y) by (unfold B32 in *; lia).
      rewrite <- Z.quot_div_nonneg by lia. rewrite Z.quot_opp_l by lia. lia.
    + rewrite opp_IZR. field. apply IZR_neq. exact Ny.
  - assert (Hx' : 0 <= - x) by lia. assert (Hy' : 0 < - y) by lia.
    replace (IZR x / IZR y)%R with (IZR (- x) / IZR (- y))%R.
    + rewrite (quotient_round_nonneg (- x) (- y)) by (unfold B32 in *; lia).
      rewrite <- Z.quot_div_nonneg by lia. rewrite Z.quot_opp_l, Z.quot_opp_r by lia. lia.
    + rewrite !opp_IZR. field. apply IZR_neq. exact Ny.
Qed.

Lemma round_FIX0_trunc v : round radix2 (FIX_exp 0) Ztrunc v = IZR (Ztrunc v).
Proof.
  unfold round, scaled_mantissa, cexp, F2R, FIX_exp. simpl. rewrite !Rmult_1_r. reflexivity.
Qed.

Lemma pow32_format : generic_format radix2 fexp64 (bpow radix2 32).
Proof.
  change fexp64 with (FLT_exp (-1074) 53). apply generic_format_FLT_bpow.
  - reflexivity.
  - lia.
Qed.

(* float64(x) / float64(y), truncated = truncated integer quotient *)
Lemma div_holds a b x y : holds a x -> holds b y -> y <> 0 -> Z.abs x < B32 -> Z.abs y < B32 ->
  is_finite (f64_div a b) = true /\ f64_trunc (f64_div a b) = Z.quot x y.
Proof.
  intros [Fa Ra] [Fb Rb] Ny Hx Hy.
  assert (Nb : B2R b <> 0%R) by (rewrite Rb; apply IZR_neq; exact Ny).
  pose proof (Bdiv_correct 53 1024 prec53 emax53 mode_NE a b Nb) as H.
  rewrite Ra, Rb in H. fold (R64 (IZR x / IZR y)) in H.
  assert (Hsmall : (Rabs (R64 (IZR x / IZR y)) < bpow radix2 1024)%R).
  { apply Rle_lt_trans with (bpow radix2 32).
    - unfold R64. apply abs_round_le_generic.
      + exact fexp64_valid.
      + apply valid_rnd_N.
      + exact pow32_format.
      + unfold Rdiv. rewrite Rabs_mult, Rabs_inv, <- !abs_IZR.
        assert (1 <= IZR (Z.abs y))%R by (apply IZR_le; lia).
        assert (0 <= IZR (Z.abs x) <= bpow radix2 32)%R.
        { split; [apply IZR_le; lia |]. change (bpow radix2 32) with (IZR B32). apply IZR_le. lia. }
        assert (0 < / IZR (Z.abs y) <= 1)%R.
        { split; [apply Rinv_0_lt_compat; lra |]. rewrite <- Rinv_1. apply Rinv_le; lra. }
        replace (bpow radix2 32) with (bpow radix2 32 * 1)%R by ring.
        apply Rmult_le_compat; lra.
    - apply bpow_lt. lia. }
  rewrite (Rlt_bool_true _ _ Hsmall) in H. destruct H as (V & F & _).
  split.
  - unfold f64_div. rewrite F. exact Fa.
  - unfold f64_trunc, f64_div. apply eq_IZR.
    rewrite (Btrunc_correct 53 1024 emax53), V, round_FIX0_trunc. f_equal.
    apply quotient_round; assumption.
Qed.
