(* C14 specification side: WGSL `override` declarations, pipeline-constant value
   maps, and [subst_overrides] = the value WGSL/WebGPU give every override.

   Sources transcribed:
   * WGSL "Override Declarations", "override-expressions", "Arithmetic / Comparison /
     Bit / Logical Expressions", "Overload resolution / automatic conversions of
     abstract numeric types" (an abstract operand is converted to the concrete type of
     the other operand; a purely abstract expression is evaluated as AbstractInt
     (64-bit integer) / AbstractFloat (binary64) and converted at the use).
     Concrete i32/u32 arithmetic is modulo 2^32 (Base/Bits32.v); division or remainder
     by zero, a shift by >= the bit width or a shift-left that loses bits, and an
     overflowing / non-finite floating-point result in an override-expression are
     pipeline-creation errors ([EDiag]).
   * WebGPU "GPUProgrammableStage.constants" + WebIDL: the supplied double is
     converted to the override's type: bool = (v != 0); i32 / u32 = [EnforceRange]
     integer conversion (truncate toward zero, error if outside the type's range or
     not finite); f32 = `float` conversion (round to nearest even, error if the result
     is not finite).  Missing value and no default: error.
     A NaN entry is a value like any other (WebIDL: boolean(NaN) = false; NaN is not
     convertible to i32/u32/f32).  naga's doc comments on ir.PipelineConstants and
     glsl.Options say "NaN means not set, use default" but its code, its tests
     (TestProcessOverrides_ResolveByID), the corpus (overrides.toml: `0 = nan`) and Rust
     naga all take NaN as the value; the specification follows WebGPU.
   * lookup by decimal @id first, then by name (naga's documented keying).
   f32 division: WGSL allows 2.5 ULP; the spec takes the correctly rounded result. *)
From Coq Require Import ZArith Bool List String Ascii.
From Flocq Require Import IEEE754.BinarySingleNaN.
Require Import Naga.Base.Bits32 Naga.Overrides.F64.
Import ListNotations.
Open Scope Z_scope.

(* ------------------------------------------------------------------ syntax *)
Inductive ty := TBool | TI32 | TU32 | TF32.
Inductive isfx := SNone | SI | SU.
Inductive fsfx := FNone | FF.
(* LFloat carries the binary64 nearest to the decimal text (bit pattern) *)
Inductive lit := LBool (b : bool) | LInt (v : Z) (s : isfx) | LFloat (bits : Z) (s : fsfx).
Inductive uop := UNeg | UNot | UBitNot.
(* same order as ir.BinaryOperator *)
Inductive bop := Add | Sub | Mul | Div | Mod | Eq | Ne | Lt | Le | Gt | Ge
               | BAnd | BXor | BOr | LAnd | LOr | Shl | Shr.
Inductive expr :=
| ELit (l : lit)
| ERef (i : nat)                    (* an earlier override, by index *)
| EConst (t : ty) (l : lit)         (* a module-scope `const K : t = l;` referenced by name *)
| EUn (o : uop) (e : expr)
| EBin (o : bop) (a b : expr).

Record decl := mkDecl { d_name : string; d_id : option Z; d_ty : option ty; d_init : option expr }.

(* value map: key (decimal id or name) -> binary64 bit pattern *)
Definition vmap := list (string * Z).

Definition ty_eqb (a b : ty) : bool :=
  match a, b with TBool, TBool | TI32, TI32 | TU32, TU32 | TF32, TF32 => true | _, _ => false end.

(* ------------------------------------------------------------------ values *)
Inductive value := VBool (b : bool) | VI32 (z : Z) | VU32 (z : Z) | VF32 (f : f32).
(* dynamically typed intermediate: abstract or concrete *)
Inductive aval := AInt (z : Z) | AFloat (f : f64) | AV (v : value).

Inductive err :=
| EMissing        (* no value and no default *)
| EConv           (* supplied value not convertible to the override's type *)
| EDiag           (* WGSL requires a pipeline-creation error (x/0, shift, overflow of abstract/f32) *)
| EType           (* ill-typed program: outside the property (generator bug) *)
| EUnsupported.   (* construct the spec does not define here (f32 %, ...) *)
Inductive res (A : Type) := Ok (a : A) | Err (e : err).
Arguments Ok {A}. Arguments Err {A}.
Definition bind {A B} (r : res A) (f : A -> res B) : res B := match r with Ok a => f a | Err e => Err e end.
Notation "'do' x <- r ; k" := (bind r (fun x => k)) (at level 200, x name, r at level 100, k at level 200).

Definition type_of (v : value) : ty :=
  match v with VBool _ => TBool | VI32 _ => TI32 | VU32 _ => TU32 | VF32 _ => TF32 end.

Definition I64MIN : Z := - 9223372036854775808.
Definition I64MAX : Z := 9223372036854775807.
Definition in_i64 (z : Z) : bool := (I64MIN <=? z) && (z <=? I64MAX).
Definition aint (z : Z) : res aval := if in_i64 z then Ok (AInt z) else Err EDiag.
Definition afloat (f : f64) : res aval := if f64_finite f then Ok (AFloat f) else Err EDiag.
Definition vf32 (f : f32) : res aval := if f32_finite f then Ok (AV (VF32 f)) else Err EDiag.

(* ------------------------------------------------------------------ conversions *)
(* abstract / concrete value to a concrete type (automatic conversion; feasible ones only) *)
Definition to_ty (t : ty) (a : aval) : res value :=
  match a, t with
  | AInt z, TI32 => if (- H32 <=? z) && (z <? H32) then Ok (VI32 (wrap z)) else Err EDiag
  | AInt z, TU32 => if (0 <=? z) && (z <? M32) then Ok (VU32 z) else Err EDiag
  | AInt z, TF32 => Ok (VF32 (f32_of_Z z))
  | AFloat f, TF32 => let r := f32_of_f64 f in if f32_finite r then Ok (VF32 r) else Err EDiag
  | AV v, _ => if ty_eqb (type_of v) t then Ok v else Err EType
  | _, _ => Err EType
  end.

Definition lit_val (l : lit) : res aval :=
  match l with
  | LBool b => Ok (AV (VBool b))
  | LInt v SNone => aint v
  | LInt v SI => if (0 <=? v) && (v <? H32) then Ok (AV (VI32 v)) else Err EDiag
  | LInt v SU => if (0 <=? v) && (v <? M32) then Ok (AV (VU32 v)) else Err EDiag
  | LFloat b FNone => afloat (f64_of_bits b)
  | LFloat b FF => do v <- to_ty TF32 (AFloat (f64_of_bits b)); Ok (AV v)
  end.

(* ------------------------------------------------------------------ operators *)
Definition cmp_of (o : bop) (c : option comparison) : bool :=
  match o, c with
  | Eq, Some Datatypes.Eq => true | Eq, _ => false
  | Ne, Some Datatypes.Eq => false | Ne, _ => true          (* NaN != x is true; NaN cannot occur here *)
  | Lt, Some Datatypes.Lt => true | Lt, _ => false
  | Le, Some Datatypes.Lt => true | Le, Some Datatypes.Eq => true | Le, _ => false
  | Gt, Some Datatypes.Gt => true | Gt, _ => false
  | Ge, Some Datatypes.Gt => true | Ge, Some Datatypes.Eq => true | Ge, _ => false
  | _, _ => false
  end.
Definition is_cmp (o : bop) : bool := match o with Eq | Ne | Lt | Le | Gt | Ge => true | _ => false end.
Definition is_arith (o : bop) : bool := match o with Add | Sub | Mul | Div | Mod => true | _ => false end.
Definition is_bit (o : bop) : bool := match o with BAnd | BXor | BOr => true | _ => false end.
Definition is_shift (o : bop) : bool := match o with Shl | Shr => true | _ => false end.

Definition bin_aint (o : bop) (x y : Z) : res aval :=
  match o with
  | Add => aint (x + y) | Sub => aint (x - y) | Mul => aint (x * y)
  | Div => if y =? 0 then Err EDiag else aint (Z.quot x y)
  | Mod => if y =? 0 then Err EDiag else aint (Z.rem x y)
  | BAnd => aint (Z.land x y) | BOr => aint (Z.lor x y) | BXor => aint (Z.lxor x y)
  | Eq | Ne | Lt | Le | Gt | Ge => Ok (AV (VBool (cmp_of o (Some (Z.compare x y)))))
  | _ => Err EType
  end.
Definition bin_afloat (o : bop) (x y : f64) : res aval :=
  match o with
  | Add => afloat (f64_add x y) | Sub => afloat (f64_sub x y) | Mul => afloat (f64_mul x y)
  | Div => afloat (f64_div x y)
  | Mod => Err EUnsupported
  | Eq | Ne | Lt | Le | Gt | Ge => Ok (AV (VBool (cmp_of o (Bcompare x y))))
  | _ => Err EType
  end.
Definition bin_f32 (o : bop) (x y : f32) : res aval :=
  match o with
  | Add => vf32 (f32_add x y) | Sub => vf32 (f32_sub x y) | Mul => vf32 (f32_mul x y)
  | Div => vf32 (f32_div x y)
  | Mod => Err EUnsupported
  | Eq | Ne | Lt | Le | Gt | Ge => Ok (AV (VBool (cmp_of o (Bcompare x y))))
  | _ => Err EType
  end.
Definition bin_i32 (o : bop) (x y : Z) : res aval :=
  match o with
  | Add => Ok (AV (VI32 (add32 x y))) | Sub => Ok (AV (VI32 (sub32 x y))) | Mul => Ok (AV (VI32 (mul32 x y)))
  | Div => if (y =? 0) || ((x =? INT_MIN_BITS) && (y =? ALL_ONES)) then Err EDiag else Ok (AV (VI32 (div_i32 x y)))
  | Mod => if (y =? 0) || ((x =? INT_MIN_BITS) && (y =? ALL_ONES)) then Err EDiag else Ok (AV (VI32 (rem_i32 x y)))
  | BAnd => Ok (AV (VI32 (and32 x y))) | BOr => Ok (AV (VI32 (or32 x y))) | BXor => Ok (AV (VI32 (xor32 x y)))
  | Eq => Ok (AV (VBool (x =? y))) | Ne => Ok (AV (VBool (negb (x =? y))))
  | Lt => Ok (AV (VBool (lt_i32 x y))) | Le => Ok (AV (VBool (le_i32 x y)))
  | Gt => Ok (AV (VBool (lt_i32 y x))) | Ge => Ok (AV (VBool (le_i32 y x)))
  | _ => Err EType
  end.
Definition bin_u32 (o : bop) (x y : Z) : res aval :=
  match o with
  | Add => Ok (AV (VU32 (add32 x y))) | Sub => Ok (AV (VU32 (sub32 x y))) | Mul => Ok (AV (VU32 (mul32 x y)))
  | Div => if y =? 0 then Err EDiag else Ok (AV (VU32 (div_u32 x y)))
  | Mod => if y =? 0 then Err EDiag else Ok (AV (VU32 (rem_u32 x y)))
  | BAnd => Ok (AV (VU32 (and32 x y))) | BOr => Ok (AV (VU32 (or32 x y))) | BXor => Ok (AV (VU32 (xor32 x y)))
  | Eq => Ok (AV (VBool (x =? y))) | Ne => Ok (AV (VBool (negb (x =? y))))
  | Lt => Ok (AV (VBool (lt_u32 x y))) | Le => Ok (AV (VBool (le_u32 x y)))
  | Gt => Ok (AV (VBool (lt_u32 y x))) | Ge => Ok (AV (VBool (le_u32 y x)))
  | _ => Err EType
  end.
Definition bin_bool (o : bop) (x y : bool) : res aval :=
  match o with
  | LAnd | BAnd => Ok (AV (VBool (x && y))) | LOr | BOr => Ok (AV (VBool (x || y)))
  | BXor => Ok (AV (VBool (xorb x y)))
  | Eq => Ok (AV (VBool (Bool.eqb x y))) | Ne => Ok (AV (VBool (negb (Bool.eqb x y))))
  | _ => Err EType
  end.

(* shifts: e1 of an integer kind, e2 converted to u32; override-expression rules *)
Definition shift_amount (b : aval) : res Z :=
  match b with
  | AInt z => if (0 <=? z) && (z <? M32) then Ok z else Err EDiag
  | AV (VU32 z) => Ok z
  | _ => Err EType
  end.
Definition shift (o : bop) (a : aval) (n : Z) : res aval :=
  match a with
  | AInt x =>
      if 64 <=? n then Err EDiag
      else match o with Shl => aint (x * 2 ^ n) | _ => aint (Z.shiftr x n) end
  | AV (VI32 x) =>
      if 32 <=? n then Err EDiag
      else match o with
           | Shl => let r := sgn x * 2 ^ n in
                    if (- H32 <=? r) && (r <? H32) then Ok (AV (VI32 (shl32 x n))) else Err EDiag
           | _ => Ok (AV (VI32 (shr_i32 x n)))
           end
  | AV (VU32 x) =>
      if 32 <=? n then Err EDiag
      else match o with
           | Shl => if x * 2 ^ n <? M32 then Ok (AV (VU32 (shl32 x n))) else Err EDiag
           | _ => Ok (AV (VU32 (shr_u32 x n)))
           end
  | _ => Err EType
  end.

(* operand unification: an abstract operand takes the other operand's concrete type *)
Definition binop (o : bop) (a b : aval) : res aval :=
  if is_shift o then (do n <- shift_amount b; shift o a n)
  else match a, b with
  | AInt x, AInt y => bin_aint o x y
  | AInt x, AFloat y => bin_afloat o (f64_of_Z x) y
  | AFloat x, AInt y => bin_afloat o x (f64_of_Z y)
  | AFloat x, AFloat y => bin_afloat o x y
  | AV (VBool x), AV (VBool y) => bin_bool o x y
  | AV (VI32 x), AV (VI32 y) => bin_i32 o x y
  | AV (VU32 x), AV (VU32 y) => bin_u32 o x y
  | AV (VF32 x), AV (VF32 y) => bin_f32 o x y
  | AV (VI32 x), (AInt _ as y) => do y' <- to_ty TI32 y; match y' with VI32 y'' => bin_i32 o x y'' | _ => Err EType end
  | (AInt _ as x), AV (VI32 y) => do x' <- to_ty TI32 x; match x' with VI32 x'' => bin_i32 o x'' y | _ => Err EType end
  | AV (VU32 x), (AInt _ as y) => do y' <- to_ty TU32 y; match y' with VU32 y'' => bin_u32 o x y'' | _ => Err EType end
  | (AInt _ as x), AV (VU32 y) => do x' <- to_ty TU32 x; match x' with VU32 x'' => bin_u32 o x'' y | _ => Err EType end
  | AV (VF32 x), ((AInt _ | AFloat _) as y) => do y' <- to_ty TF32 y; match y' with VF32 y'' => bin_f32 o x y'' | _ => Err EType end
  | ((AInt _ | AFloat _) as x), AV (VF32 y) => do x' <- to_ty TF32 x; match x' with VF32 x'' => bin_f32 o x'' y | _ => Err EType end
  | _, _ => Err EType
  end.

Definition unop (o : uop) (a : aval) : res aval :=
  match o, a with
  | UNeg, AInt x => aint (- x)
  | UNeg, AFloat x => Ok (AFloat (f64_neg x))
  | UNeg, AV (VI32 x) => Ok (AV (VI32 (neg32 x)))
  | UNeg, AV (VF32 x) => Ok (AV (VF32 (f32_neg x)))
  | UNot, AV (VBool b) => Ok (AV (VBool (negb b)))
  | UBitNot, AInt x => aint (Z.lnot x)
  | UBitNot, AV (VI32 x) => Ok (AV (VI32 (not32 x)))
  | UBitNot, AV (VU32 x) => Ok (AV (VU32 (not32 x)))
  | _, _ => Err EType
  end.

(* [env]: the values of the earlier overrides *)
Fixpoint eval (env : list value) (e : expr) : res aval :=
  match e with
  | ELit l => lit_val l
  | ERef i => match nth_error env i with Some v => Ok (AV v) | None => Err EType end
  | EConst t l => do a <- lit_val l; do v <- to_ty t a; Ok (AV v)
  | EUn o a => do x <- eval env a; unop o x
  | EBin o a b => do x <- eval env a; do y <- eval env b; binop o x y
  end.

(* the type of a declaration without a type annotation: the concretisation of its initialiser *)
Definition concretize (a : aval) : res value :=
  match a with
  | AInt _ => to_ty TI32 a
  | AFloat _ => to_ty TF32 a
  | AV v => Ok v
  end.

Definition eval_default (env : list value) (t : option ty) (e : expr) : res value :=
  do a <- eval env e;
  match t with Some t' => to_ty t' a | None => concretize a end.

(* ------------------------------------------------------------------ supplied values *)
Definition conv_value (t : ty) (f : f64) : res value :=
  match t with
  | TBool => Ok (VBool (negb (f64_eq f f64_zero) && negb (f64_is_nan f)))
  | TI32 => if f64_finite f then
              let z := f64_trunc f in
              if (- H32 <=? z) && (z <? H32) then Ok (VI32 (wrap z)) else Err EConv
            else Err EConv
  | TU32 => if f64_finite f then
              let z := f64_trunc f in
              if (0 <=? z) && (z <? M32) then Ok (VU32 z) else Err EConv
            else Err EConv
  | TF32 => if f64_finite f then
              let r := f32_of_f64 f in if f32_finite r then Ok (VF32 r) else Err EConv
            else Err EConv
  end.

(* decimal rendering of an @id (0 .. 65535), as fmt.Sprintf("%d") / WebGPU print it *)
Definition digit (z : Z) : ascii := ascii_of_nat (48 + Z.to_nat z).
Fixpoint dec_aux (fuel : nat) (z : Z) (acc : string) : string :=
  match fuel with
  | O => acc
  | S f => let acc' := String (digit (z mod 10)) acc in
           if z / 10 =? 0 then acc' else dec_aux f (z / 10) acc'
  end.
Definition dec_string (z : Z) : string := dec_aux 20 z EmptyString.

Fixpoint assoc_s (k : string) (m : vmap) : option Z :=
  match m with
  | [] => None
  | (k', v) :: m' => if String.eqb k k' then Some v else assoc_s k m'
  end.

(* by decimal @id first, then by name *)
Definition lookup_key (m : vmap) (d : decl) : option Z :=
  match match d_id d with Some i => assoc_s (dec_string i) m | None => None end with
  | Some v => Some v
  | None => assoc_s (d_name d) m
  end.

Definition supplied (m : vmap) (d : decl) : option f64 :=
  match lookup_key m d with
  | Some b => Some (f64_of_bits b)
  | None => None
  end.

(* the declared type (explicit, else the type of the initialiser) *)
Definition spec_one (env : list value) (m : vmap) (d : decl) : res value :=
  match supplied m d with
  | Some f =>
      match d_ty d with
      | Some t => conv_value t f
      | None => match d_init d with
                | Some e => do v <- eval_default env None e; conv_value (type_of v) f
                | None => Err EType
                end
      end
  | None =>
      match d_init d with
      | Some e => eval_default env (d_ty d) e
      | None => Err EMissing
      end
  end.

(* each override in declaration (= dependency) order; the first error aborts *)
Fixpoint subst_from (env : list value) (m : vmap) (ds : list decl) : res (list value) :=
  match ds with
  | [] => Ok env
  | d :: ds' => do v <- spec_one env m d; subst_from (env ++ [v]) m ds'
  end.
Definition subst_overrides (ds : list decl) (m : vmap) : res (list value) := subst_from [] m ds.

(* an expression elsewhere in the program (global initialiser of declared type [t],
   workgroup-size argument, function body) under the substituted overrides *)
Definition subst_expr (vals : list value) (t : option ty) (e : expr) : res value := eval_default vals t e.
