(* C14 implementation model: a transliteration of what /repo does with `override`
   declarations.  Definitions only.

   wgsl/internal/lower/lower.go
     lowerOverride, inferOverrideType        -> [lower_ty]
     buildOverrideInitExpr + buildOverrideGlobalExpr -> [lower_init]
     (global `var<private>` initialisers depending on overrides use the same two
      functions; @workgroup_size arguments go through evalConstU32Expr, which knows
      literals and `const`s only: an override argument leaves the default 1 -> [lower_wg])
   ir/process_overrides.go
     resolveOverrideValue                    -> [resolve_one]
     evaluateGlobalExprAsFloat               -> [eval_g]
     LiteralToFloat                          -> [lit_to_float]
     EvalBinaryFloat / EvalUnaryFloat        -> [eval_binary_float] / [eval_unary_float]
     makeOverrideLiteral                     -> [make_override_literal]
     ProcessOverrides phases 1,2             -> [process]
     evaluateGlobalInitializers              -> [process_global]
     rebuildFunctionExpressions/tryConstEval/arenaExprAsFloat/makeLiteralFromProto -> [fold_f]
   msl/internal/codegen/pipeline_constants.go
     applyPipelineConstants phase 1, evalGlobalExpression, evalBinaryOp,
     scalarValueToLiteral, convertLiteralToType, literalToFloat64 -> [msl_*]
   CloneModuleForOverrides / writes of ProcessOverrides -> ownership model at the end. *)
From Coq Require Import ZArith Bool List String.
From Flocq Require Import IEEE754.BinarySingleNaN.
Require Import Naga.Base.Bits32 Naga.Overrides.F64 Naga.Overrides.Spec.
Import ListNotations.
Open Scope Z_scope.

(* ------------------------------------------------------------------ IR side *)
(* the literal kinds that occur in lowered override code *)
Inductive glit := GBool (b : bool) | GI32 (z : Z) | GU32 (z : Z) | GF32 (f : f32).
Inductive gexpr :=
| GLit (l : glit)
| GOvr (i : nat)
| GUn (o : uop) (e : gexpr)
| GBin (o : bop) (a b : gexpr).

(* ------------------------------------------------------------------ lowering *)
(* buildOverrideInitExpr: integer literals are parsed with ParseInt and, unless they
   carry the `u` suffix, stored as float64 and later emitted as LiteralF32(float32(v));
   float literals go through ParseFloat(text) - which fails on a suffixed literal
   ("1.5f"), making the whole initialiser unrepresentable (nil); identifiers other than
   overrides (module constants) are unrepresentable; so are calls/conversions. *)
Fixpoint lower_init (e : expr) : option gexpr :=
  match e with
  | ELit (LBool b) => Some (GLit (GBool b))
  | ELit (LInt v SU) => Some (GLit (GU32 (v mod two32)))
  | ELit (LInt v _) => Some (GLit (GF32 (f32_of_f64 (f64_of_Z v))))
  | ELit (LFloat b FNone) => Some (GLit (GF32 (f32_of_f64 (f64_of_bits b))))
  | ELit (LFloat b FF) => None
  | ERef i => Some (GOvr i)
  | EConst _ _ => None
  | EUn o a => match lower_init a with Some a' => Some (GUn o a') | None => None end
  | EBin o a b => match lower_init a, lower_init b with
                  | Some a', Some b' => Some (GBin o a' b')
                  | _, _ => None
                  end
  end.

(* inferOverrideType (declaration without a type).  The parser produces bool literals
   with kind TokenBoolLiteral, which the switch (TokenTrue/TokenFalse) does not list:
   they fall to the f32 default, like every non-literal, non-identifier initialiser. *)
Definition lower_ty (tys : list ty) (d : decl) : ty :=
  match d_ty d with
  | Some t => t
  | None =>
      match d_init d with
      | Some (ELit (LFloat _ _)) => TF32
      | Some (ELit (LInt _ SU)) => TU32
      | Some (ELit (LInt _ _)) => TI32
      | Some (ERef i) => nth i tys TF32
      | Some (EConst t _) => t
      | _ => TF32
      end
  end.

Record gdecl := mkG { g_name : string; g_id : option Z; g_ty : ty; g_init : option gexpr }.

Fixpoint lower_from (tys : list ty) (ds : list decl) : list gdecl :=
  match ds with
  | [] => []
  | d :: ds' =>
      let t := lower_ty tys d in
      mkG (d_name d) (d_id d) t (match d_init d with Some e => lower_init e | None => None end)
      :: lower_from (tys ++ [t]) ds'
  end.
Definition lower (ds : list decl) : list gdecl := lower_from [] ds.

(* ------------------------------------------------------------------ ProcessOverrides *)
Definition lit_to_float (l : glit) : f64 :=
  match l with
  | GF32 f => f64_of_f32 f
  | GI32 z => f64_of_Z (sgn z)
  | GU32 z => f64_of_Z z
  | GBool true => f64_one
  | GBool false => f64_zero
  end.

(* EvalBinaryFloat: + - * /, division by zero gives 0, every other operator gives 0.
   The set of implemented operators is tied to the Go source by Gen/OverrideOps.v. *)
Definition eval_binary_float (o : bop) (l r : f64) : f64 :=
  match o with
  | Add => f64_add l r
  | Sub => f64_sub l r
  | Mul => f64_mul l r
  | Div => if f64_eq r f64_zero then f64_zero else f64_div l r
  | _ => f64_zero
  end.

Definition eval_unary_float (o : uop) (v : f64) : f64 :=
  match o with
  | UNeg => f64_neg v
  | UNot => if f64_eq v f64_zero then f64_one else f64_zero
  | UBitNot => f64_of_Z (Z.lnot (go_int64 v))
  end.

(* evaluateGlobalExprAsFloat; [resolved] = the values of the overrides processed so far
   (the Go slice is pre-sized with zeros: a reference to a later override reads 0.0) *)
Fixpoint eval_g (resolved : list f64) (e : gexpr) : f64 :=
  match e with
  | GLit l => lit_to_float l
  | GOvr k => nth k resolved f64_zero
  | GBin o a b => eval_binary_float o (eval_g resolved a) (eval_g resolved b)
  | GUn o a => eval_unary_float o (eval_g resolved a)
  end.

(* resolveOverrideValue: by id, then by name (any value, NaN included, is taken),
   then the default initialiser, else error *)
Definition find_value (m : vmap) (d : gdecl) : option Z :=
  match match g_id d with Some i => assoc_s (dec_string i) m | None => None end with
  | Some v => Some v
  | None => if String.eqb (g_name d) "" then None else assoc_s (g_name d) m
  end.

Definition resolve_one (m : vmap) (resolved : list f64) (d : gdecl) : option f64 :=
  match find_value m d with
  | Some b => Some (f64_of_bits b)
  | None => match g_init d with
            | Some e => Some (eval_g resolved e)
            | None => None
            end
  end.

Fixpoint resolve_from (m : vmap) (resolved : list f64) (ds : list gdecl) : option (list f64) :=
  match ds with
  | [] => Some resolved
  | d :: ds' => match resolve_one m resolved d with
                | Some v => resolve_from m (resolved ++ [v]) ds'
                | None => None
                end
  end.
Definition resolve_all (m : vmap) (ds : list gdecl) : option (list f64) := resolve_from m [] ds.

Definition make_override_literal (t : ty) (v : f64) : glit :=
  match t with
  | TBool => GBool (f64_eq v f64_one)
  | TI32 => GI32 (go_int32 v)
  | TU32 => GU32 (go_uint32 v)
  | TF32 => GF32 (f32_of_f64 v)
  end.

(* phases 1+2: the literal every override becomes; None = error returned *)
Definition process (ds : list gdecl) (m : vmap) : option (list glit) :=
  match resolve_all m ds with
  | Some vs => Some (map (fun p => make_override_literal (g_ty (fst p)) (snd p)) (combine ds vs))
  | None => None
  end.

(* evaluateGlobalInitializers: initialiser tree of a global variable of scalar type t.
   It runs after phase 3 replaced every ExprOverride of the global arena by an
   ExprConstant whose Init is the new literal: an override reference now evaluates to
   LiteralToFloat of the CONVERTED literal, not to the raw float64 of phase 1. *)
Definition process_global (lits : list glit) (t : ty) (e : gexpr) : glit :=
  make_override_literal t (eval_g (map lit_to_float lits) e).

(* @workgroup_size(e): evalConstU32Expr knows literals, `const`s and + - * / on them;
   an override is not a constant: the argument keeps the default 1.  ProcessOverrides
   never touches EntryPoint.Workgroup.  [wg_const] : the value of an expression built
   from literals only. *)
Fixpoint wg_const (e : expr) : option Z :=
  match e with
  | ELit (LInt v SNone) => if v <? two32 then Some v else None     (* ParseUint(text, 10, 32) *)
  | ELit (LInt v _) => None                                         (* suffix: not parsed *)
  | EBin Add a b => match wg_const a, wg_const b with Some x, Some y => Some ((x + y) mod two32) | _, _ => None end
  | EBin Sub a b => match wg_const a, wg_const b with Some x, Some y => Some ((x - y) mod two32) | _, _ => None end
  | EBin Mul a b => match wg_const a, wg_const b with Some x, Some y => Some ((x * y) mod two32) | _, _ => None end
  | EBin Div a b => match wg_const a, wg_const b with
                    | Some x, Some y => if y =? 0 then None else Some (x / y)
                    | _, _ => None end
  | _ => None
  end.
Definition lower_wg (e : expr) : Z := match wg_const e with Some v => v | None => 1 end.

(* ------------------------------------------------------------------ one operator in isolation *)
(* the subject of the per-operator theorems: the evaluator's operator applied to
   exactly converted operands, the result made into a literal of type t *)
Definition glit_of_value (v : value) : glit :=
  match v with VBool b => GBool b | VI32 z => GI32 z | VU32 z => GU32 z | VF32 f => GF32 f end.
Definition value_of_glit (l : glit) : value :=
  match l with GBool b => VBool b | GI32 z => VI32 z | GU32 z => VU32 z | GF32 f => VF32 f end.
Definition model_binop (o : bop) (t : ty) (a b : value) : value :=
  value_of_glit (make_override_literal t
    (eval_binary_float o (lit_to_float (glit_of_value a)) (lit_to_float (glit_of_value b)))).
Definition model_unop (o : uop) (t : ty) (a : value) : value :=
  value_of_glit (make_override_literal t (eval_unary_float o (lit_to_float (glit_of_value a)))).
(* WGSL: the same operator on the same typed operands *)
Definition spec_binop (o : bop) (a b : value) : res value := do r <- binop o (AV a) (AV b); concretize r.
Definition spec_unop (o : uop) (a : value) : res value := do r <- unop o (AV a); concretize r.
(* result type of an operator whose operands have type t *)
Definition result_ty (o : bop) (t : ty) : ty :=
  match o with Eq | Ne | Lt | Le | Gt | Ge | LAnd | LOr => TBool | _ => t end.

(* ------------------------------------------------------------------ function bodies *)
(* rebuildFunctionExpressions: ExprOverride -> ExprConstant (of the new literal);
   Binary / Unary whose operands are literals or such constants are replaced by a
   literal of the LEFT operand's literal kind (makeLiteralFromProto). *)
Inductive fexpr :=
| FLit (l : glit)
| FOvr (i : nat)                 (* before processing *)
| FConst (i : nat) (l : glit)    (* after: constant created for override i, its literal *)
| FUn (o : uop) (e : fexpr)
| FBin (o : bop) (a b : fexpr)
| FOther.                        (* anything else: never folded *)

Definition make_from_proto (proto : glit) (v : f64) : glit :=
  match proto with
  | GBool _ => GBool (f64_eq v f64_one)
  | GI32 _ => GI32 (go_int32 v)
  | GU32 _ => GU32 (go_uint32 v)
  | GF32 _ => GF32 (f32_of_f64 v)
  end.

Definition as_lit (e : fexpr) : option glit :=
  match e with FLit l => Some l | FConst _ l => Some l | _ => None end.

Fixpoint fold_f (lits : list glit) (e : fexpr) : fexpr :=
  match e with
  | FLit l => FLit l
  | FOvr i => match nth_error lits i with Some l => FConst i l | None => FOvr i end
  | FConst i l => FConst i l
  | FOther => FOther
  | FBin o a b =>
      let a' := fold_f lits a in
      let b' := fold_f lits b in
      match as_lit a', as_lit b' with
      | Some la, Some lb => FLit (make_from_proto la (eval_binary_float o (lit_to_float la) (lit_to_float lb)))
      | _, _ => FBin o a' b'
      end
  | FUn o a =>
      let a' := fold_f lits a in
      match as_lit a' with
      | Some la =>
          match o with
          | UNeg => FLit (make_from_proto la (f64_neg (lit_to_float la)))
          | UNot => match la with
                    | GBool b => FLit (GBool (negb b))
                    | _ => FLit (make_from_proto la (eval_unary_float UNot (lit_to_float la)))
                    end
          | UBitNot => FUn o a'
          end
      | None => FUn o a'
      end
  end.

(* ------------------------------------------------------------------ MSL PipelineConstants *)
Definition msl_lit_to_float (l : glit) : option f64 :=
  match l with
  | GF32 f => Some (f64_of_f32 f)
  | GI32 z => Some (f64_of_Z (sgn z))
  | GU32 z => Some (f64_of_Z z)
  | GBool _ => None
  end.

(* scalarValueToLiteral *)
Definition msl_scalar_value_to_literal (t : ty) (v : f64) : option glit :=
  match t with
  | TBool => Some (GBool (negb (f64_eq v f64_zero) && negb (f64_is_nan v)))
  | TI32 => if f64_finite v then
              let z := f64_trunc v in
              if (- two31 <=? z) && (z <=? two31 - 1) then Some (GI32 (z mod two32)) else None
            else None
  | TU32 => if f64_finite v then
              let z := f64_trunc v in
              if (0 <=? z) && (z <=? two32 - 1) then Some (GU32 z) else None
            else None
  | TF32 => Some (GF32 (f32_of_f64 v))
  end.

(* evalBinaryOp: only + - * /; x/0 and any other operator: not evaluated; the result
   takes the LEFT operand's literal kind *)
Definition msl_eval_binary (o : bop) (l r : glit) : option glit :=
  match msl_lit_to_float l, msl_lit_to_float r with
  | Some lf, Some rf =>
      let res := match o with
                 | Add => Some (f64_add lf rf)
                 | Sub => Some (f64_sub lf rf)
                 | Mul => Some (f64_mul lf rf)
                 | Div => if f64_eq rf f64_zero then None else Some (f64_div lf rf)
                 | _ => None
                 end in
      match res with
      | Some x => Some (match l with
                        | GF32 _ => GF32 (f32_of_f64 x)
                        | GI32 _ => GI32 (go_int32 x)
                        | GU32 _ => GU32 (go_uint32 x)
                        | GBool _ => GF32 (f32_of_f64 x)
                        end)
      | None => None
      end
  | _, _ => None
  end.

(* evalGlobalExpression: Literal, Override (if resolved), Binary; Unary is not handled *)
Fixpoint msl_eval_g (vals : list (option glit)) (e : gexpr) : option glit :=
  match e with
  | GLit l => Some l
  | GOvr k => nth k vals None
  | GBin o a b => match msl_eval_g vals a, msl_eval_g vals b with
                  | Some x, Some y => msl_eval_binary o x y
                  | _, _ => None
                  end
  | GUn _ _ => None
  end.

(* phase 1 of applyPipelineConstants for one override: the literal it resolves to, or
   None (left as it was: the writer then emits its initialiser expression, or T{}) *)
Definition msl_find_value (m : vmap) (d : gdecl) : option Z :=
  match match g_id d with Some i => assoc_s (dec_string i) m | None => None end with
  | Some v => Some v
  | None => assoc_s (g_name d) m
  end.

Definition msl_resolve_one (m : vmap) (vals : list (option glit)) (d : gdecl) : option glit :=
  match msl_find_value m d with
  | Some b => msl_scalar_value_to_literal (g_ty d) (f64_of_bits b)
  | None =>
      match g_init d with
      | Some e =>
          match msl_eval_g vals e with
          | Some l =>
              (* convertLiteralToType, guarded by `scalar.Kind != 0`: ir.ScalarSint IS 0, so
                 the default of an i32 override is never converted; when the conversion
                 fails the unconverted literal is kept *)
              if ty_eqb (g_ty d) TI32 then Some l else
              match msl_lit_to_float l with
              | Some f => match msl_scalar_value_to_literal (g_ty d) f with
                          | Some l' => Some l'
                          | None => Some l
                          end
              | None => Some l
              end
          | None => None
          end
      | None => None
      end
  end.

Fixpoint msl_resolve_from (m : vmap) (vals : list (option glit)) (ds : list gdecl) : list (option glit) :=
  match ds with
  | [] => vals
  | d :: ds' => msl_resolve_from m (vals ++ [msl_resolve_one m vals d]) ds'
  end.
Definition msl_resolve (ds : list gdecl) (m : vmap) : list (option glit) := msl_resolve_from m [] ds.

(* ------------------------------------------------------------------ clone / write ownership *)
(* Locations of a module reachable from the caller's *ir.Module, by class.  Go slices
   and pointers alias: a location class is safe to write through the clone only if
   CloneModuleForOverrides gave the clone its own copy of it. *)
Inductive loc :=
| LOverrides            (* Module.Overrides elements *)
| LOverrideInitPtr      (* *Override.Init *)
| LOverrideIdPtr        (* *Override.ID *)
| LGlobalExprs          (* Module.GlobalExpressions elements *)
| LConstants            (* Module.Constants elements *)
| LGlobalVars           (* Module.GlobalVariables elements *)
| LTypes
| LFunctions            (* Module.Functions / EntryPoints elements (Function structs) *)
| LFnExprs              (* Function.Expressions elements *)
| LFnExprTypes
| LFnLocalVars
| LFnLocalInitPtr       (* *LocalVariable.Init *)
| LFnNamedExprs         (* the NamedExpressions map *)
| LFnBodyTop            (* elements of Function.Body *)
| LNestedBlocks         (* elements of blocks nested in statements (if/switch/loop/block) *)
| LStmtPtrs             (* pointees of *ExpressionHandle fields of statements (Return.Value, Call.Result, ...) *)
| LCallArgs             (* elements of StmtCall.Arguments *)
| LExprPtrs.            (* pointees of *ExpressionHandle fields of EXPRESSIONS (ExprImageSample.ArrayIndex/Offset/DepthRef,
                           ExprImageLoad.ArrayIndex/Sample/Level, ImageQuerySize.Level): the arena is copied by value,
                           the pointees stay shared; overrideRemapExprHandles' remapPtr writes through them *)

Definition loc_eqb (a b : loc) : bool :=
  match a, b with
  | LOverrides, LOverrides | LOverrideInitPtr, LOverrideInitPtr | LOverrideIdPtr, LOverrideIdPtr | LGlobalExprs, LGlobalExprs
  | LConstants, LConstants | LGlobalVars, LGlobalVars | LTypes, LTypes | LFunctions, LFunctions
  | LFnExprs, LFnExprs | LFnExprTypes, LFnExprTypes | LFnLocalVars, LFnLocalVars
  | LFnLocalInitPtr, LFnLocalInitPtr | LFnNamedExprs, LFnNamedExprs | LFnBodyTop, LFnBodyTop
  | LNestedBlocks, LNestedBlocks | LStmtPtrs, LStmtPtrs | LCallArgs, LCallArgs | LExprPtrs, LExprPtrs => true
  | _, _ => false
  end.

(* what CloneModuleForOverrides copies (process_overrides.go:13-118) *)
Definition module_cloned : list loc :=
  [LOverrides; LOverrideInitPtr; LOverrideIdPtr; LGlobalExprs; LConstants; LFunctions].
(* per function, for Module.Functions and for Module.EntryPoints alike *)
Definition fn_cloned : list loc :=
  [LFnExprs; LFnExprTypes; LFnLocalVars; LFnLocalInitPtr; LFnNamedExprs; LFnBodyTop].
Definition cloned : list loc := module_cloned ++ fn_cloned.

(* what ProcessOverrides and its helpers write in place *)
Definition written : list loc :=
  [LGlobalExprs; LConstants; LFnExprs; LFnExprTypes; LFnLocalInitPtr; LFnNamedExprs;
   LFnBodyTop; LNestedBlocks; LStmtPtrs; LCallArgs; LExprPtrs].

Definition mem_loc (l : loc) (ls : list loc) : bool := existsb (loc_eqb l) ls.
(* the locations of the caller's module that a run on the clone can change *)
Definition leaked : list loc := filter (fun l => negb (mem_loc l cloned)) written.
