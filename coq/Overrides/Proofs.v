(* C14 theorems about the implementation model (Model.v) against the specification
   (Spec.v).  Universal statements; the refutations are concrete witnesses evaluated by
   vm_compute (each witness, replayed on naga through harness/cmd/ovrdrive by checks/c14.py,
   is a finding). *)
From Coq Require Import ZArith Bool List String Lia Reals.
From Flocq Require Import Core.Core IEEE754.BinarySingleNaN.
Require Import Naga.Base.Bits32 Naga.Overrides.F64 Naga.Overrides.Spec Naga.Overrides.Model
               Naga.Overrides.FloatProofs.
Import ListNotations.
Open Scope Z_scope.

(* ------------------------------------------------------------------ comparison of results *)
Definition value_eqb (a b : value) : bool :=
  match a, b with
  | VBool x, VBool y => Bool.eqb x y
  | VI32 x, VI32 y => x =? y
  | VU32 x, VU32 y => x =? y
  | VF32 x, VF32 y => f32_bits x =? f32_bits y
  | _, _ => false
  end.
(* the evaluator's result [m] is what WGSL prescribes ([s] is a value, and the same one) *)
Definition agrees (m : value) (s : res value) : bool :=
  match s with Ok v => value_eqb m v | Err _ => false end.
Definition is_ok {A} (r : res A) : bool := match r with Ok _ => true | Err _ => false end.

(* ------------------------------------------------------------------ integer literals as floats *)
Lemma sgn_bound p : in32 p -> - two31 <= sgn p < two31.
Proof. intros H. pose proof (sgn_range p H). unfold H32, two31 in *. lia. Qed.

Lemma lit_i32_holds p : in32 p -> holds (lit_to_float (GI32 p)) (sgn p).
Proof.
  intros H. apply f64_of_Z_holds. pose proof (sgn_bound p H). unfold two31, P53 in *. lia.
Qed.

Lemma lit_u32_holds p : in32 p -> holds (lit_to_float (GU32 p)) p.
Proof. intros H. apply f64_of_Z_holds. unfold in32, M32, P53 in *. lia. Qed.

Lemma lit_bool_holds b : holds (lit_to_float (GBool b)) (if b then 1 else 0).
Proof. destruct b; [apply one_holds | apply zero_holds]. Qed.

Lemma sgn_mod p : in32 p -> sgn p mod two32 = p.
Proof. intros H. exact (wrap_sgn p H). Qed.

Ltac Zify.zify_post_hook ::= Z.to_euclidean_division_equations.

Lemma mod_add_sgn p q : in32 p -> in32 q -> (sgn p + sgn q) mod two32 = add32 p q.
Proof.
  intros Hp Hq. unfold add32, wrap, sgn, in32, M32, H32, two32 in *.
  destruct (Z.ltb_spec p 2147483648); destruct (Z.ltb_spec q 2147483648); lia.
Qed.
Lemma mod_sub_sgn p q : in32 p -> in32 q -> (sgn p - sgn q) mod two32 = sub32 p q.
Proof.
  intros Hp Hq. unfold sub32, wrap, sgn, in32, M32, H32, two32 in *.
  destruct (Z.ltb_spec p 2147483648); destruct (Z.ltb_spec q 2147483648); lia.
Qed.
Lemma mod_mul_sgn p q : in32 p -> in32 q -> (sgn p * sgn q) mod two32 = mul32 p q.
Proof.
  intros Hp Hq. unfold mul32, wrap, M32, two32.
  rewrite <- (sgn_mod p Hp) at 2. rewrite <- (sgn_mod q Hq) at 2. unfold two32.
  rewrite <- Z.mul_mod by lia. reflexivity.
Qed.

(* ------------------------------------------------------------------ + - * on i32 *)
(* all operands; hypothesis: the mathematical result fits i32 (no signed overflow) *)
Theorem sound_add_i32 p q : in32 p -> in32 q -> - H32 <= sgn p + sgn q < H32 ->
  spec_binop Add (VI32 p) (VI32 q) = Ok (model_binop Add TI32 (VI32 p) (VI32 q)).
Proof.
  intros Hp Hq R. unfold spec_binop, model_binop. cbn [binop is_shift bin_i32 bind concretize glit_of_value
    make_override_literal value_of_glit eval_binary_float].
  assert (Hh : holds (f64_add (lit_to_float (GI32 p)) (lit_to_float (GI32 q))) (sgn p + sgn q)).
  { apply add_holds; [apply lit_i32_holds | apply lit_i32_holds |]; try assumption. unfold H32, P53 in *. lia. }
  rewrite (go_int32_holds _ _ Hh) by (unfold H32, two31 in *; lia).
  rewrite (mod_add_sgn p q Hp Hq). reflexivity.
Qed.

Theorem sound_sub_i32 p q : in32 p -> in32 q -> - H32 <= sgn p - sgn q < H32 ->
  spec_binop Sub (VI32 p) (VI32 q) = Ok (model_binop Sub TI32 (VI32 p) (VI32 q)).
Proof.
  intros Hp Hq R. unfold spec_binop, model_binop. cbn [binop is_shift bin_i32 bind concretize glit_of_value
    make_override_literal value_of_glit eval_binary_float].
  assert (Hh : holds (f64_sub (lit_to_float (GI32 p)) (lit_to_float (GI32 q))) (sgn p - sgn q)).
  { apply sub_holds; [apply lit_i32_holds | apply lit_i32_holds |]; try assumption. unfold H32, P53 in *. lia. }
  rewrite (go_int32_holds _ _ Hh) by (unfold H32, two31 in *; lia).
  rewrite (mod_sub_sgn p q Hp Hq). reflexivity.
Qed.

Theorem sound_mul_i32 p q : in32 p -> in32 q -> - H32 <= sgn p * sgn q < H32 ->
  spec_binop Mul (VI32 p) (VI32 q) = Ok (model_binop Mul TI32 (VI32 p) (VI32 q)).
Proof.
  intros Hp Hq R. unfold spec_binop, model_binop. cbn [binop is_shift bin_i32 bind concretize glit_of_value
    make_override_literal value_of_glit eval_binary_float].
  assert (Hh : holds (f64_mul (lit_to_float (GI32 p)) (lit_to_float (GI32 q))) (sgn p * sgn q)).
  { apply mul_holds; [apply lit_i32_holds | apply lit_i32_holds |]; try assumption. unfold H32, P53 in *. lia. }
  rewrite (go_int32_holds _ _ Hh) by (unfold H32, two31 in *; lia).
  rewrite (mod_mul_sgn p q Hp Hq). reflexivity.
Qed.

(* unary minus on i32: ALL operands (-(INT_MIN) hits the out-of-range conversion, whose
   amd64 result 0x80000000 happens to be the wrapped value) *)
Lemma sgn_cases p : (p < H32 /\ sgn p = p) \/ (H32 <= p /\ sgn p = p - M32).
Proof. unfold sgn. destruct (Z.ltb_spec p H32); [left | right]; split; auto. Qed.

Lemma sgn_min p : in32 p -> sgn p = - two31 -> p = two31.
Proof.
  intros Hp E. destruct (sgn_cases p) as [[H1 H2] | [H1 H2]]; rewrite H2 in E; clear H2;
    unfold in32 in Hp; unfold H32, M32, two31 in *; lia.
Qed.

Lemma neg32_min : neg32 two31 = two31.
Proof. vm_compute. reflexivity. Qed.

Lemma neg32_wrap p : in32 p -> (- sgn p) mod two32 = neg32 p.
Proof.
  intros Hp. unfold neg32, wrap, two32.
  destruct (sgn_cases p) as [[H1 H2] | [H1 H2]]; rewrite H2; clear H2.
  - reflexivity.
  - unfold M32. replace (- (p - 4294967296)) with (- p + 1 * 4294967296) by ring.
    rewrite Z_mod_plus_full. reflexivity.
Qed.

Theorem sound_neg_i32 p : in32 p ->
  spec_unop UNeg (VI32 p) = Ok (model_unop UNeg TI32 (VI32 p)).
Proof.
  intros Hp. unfold spec_unop, model_unop. cbn [unop bind concretize glit_of_value make_override_literal
    value_of_glit eval_unary_float].
  pose proof (neg_holds _ _ (lit_i32_holds p Hp)) as Hh.
  pose proof (sgn_bound p Hp) as B.
  destruct (Z.eq_dec (sgn p) (- two31)) as [E | N].
  - rewrite (go_int32_out _ _ Hh) by (rewrite E; unfold two31; lia).
    rewrite (sgn_min p Hp E). rewrite neg32_min. reflexivity.
  - rewrite (go_int32_holds _ _ Hh) by (unfold two31 in *; lia).
    rewrite (neg32_wrap p Hp). reflexivity.
Qed.

(* ------------------------------------------------------------------ + - * on u32 *)
(* + and - : ALL operands (the conversion goes through int64 and keeps the low 32 bits) *)
Theorem sound_add_u32 p q : in32 p -> in32 q ->
  spec_binop Add (VU32 p) (VU32 q) = Ok (model_binop Add TU32 (VU32 p) (VU32 q)).
Proof.
  intros Hp Hq. unfold spec_binop, model_binop. cbn [binop is_shift bin_u32 bind concretize glit_of_value
    make_override_literal value_of_glit eval_binary_float].
  assert (Hh : holds (f64_add (lit_to_float (GU32 p)) (lit_to_float (GU32 q))) (p + q)).
  { apply add_holds; [apply lit_u32_holds | apply lit_u32_holds |]; try assumption. unfold in32, M32, P53 in *. lia. }
  rewrite (go_uint32_holds _ _ Hh) by (unfold in32, M32, two63 in *; lia).
  reflexivity.
Qed.

Theorem sound_sub_u32 p q : in32 p -> in32 q ->
  spec_binop Sub (VU32 p) (VU32 q) = Ok (model_binop Sub TU32 (VU32 p) (VU32 q)).
Proof.
  intros Hp Hq. unfold spec_binop, model_binop. cbn [binop is_shift bin_u32 bind concretize glit_of_value
    make_override_literal value_of_glit eval_binary_float].
  assert (Hh : holds (f64_sub (lit_to_float (GU32 p)) (lit_to_float (GU32 q))) (p - q)).
  { apply sub_holds; [apply lit_u32_holds | apply lit_u32_holds |]; try assumption. unfold in32, M32, P53 in *. lia. }
  rewrite (go_uint32_holds _ _ Hh) by (unfold in32, M32, two63 in *; lia).
  reflexivity.
Qed.

(* * : while the exact product is below 2^53 (it wraps correctly even when it exceeds 2^32) *)
Theorem sound_mul_u32 p q : in32 p -> in32 q -> p * q < P53 ->
  spec_binop Mul (VU32 p) (VU32 q) = Ok (model_binop Mul TU32 (VU32 p) (VU32 q)).
Proof.
  intros Hp Hq R. unfold spec_binop, model_binop. cbn [binop is_shift bin_u32 bind concretize glit_of_value
    make_override_literal value_of_glit eval_binary_float].
  assert (Hh : holds (f64_mul (lit_to_float (GU32 p)) (lit_to_float (GU32 q))) (p * q)).
  { apply mul_holds; [apply lit_u32_holds | apply lit_u32_holds |]; try assumption. unfold in32, M32, P53 in *. nia. }
  rewrite (go_uint32_holds _ _ Hh) by (unfold in32, M32, two63, P53 in *; nia).
  reflexivity.
Qed.

(* ------------------------------------------------------------------ ~ and ! *)
Lemma lnot_sgn p : in32 p -> Z.lnot (sgn p) mod two32 = not32 p.
Proof.
  intros Hp. destruct (sgn_cases p) as [[H1 H2] | [H1 H2]]; rewrite H2; clear H2;
    unfold not32, ALL_ONES, Z.lnot, Z.pred, two32, in32, H32, M32 in *.
  - replace (- p + -1) with (4294967296 - 1 - p + (-1) * 4294967296) by ring.
    rewrite Z_mod_plus_full. rewrite Z.mod_small by lia. reflexivity.
  - replace (- (p - 4294967296) + -1) with (4294967296 - 1 - p) by ring. rewrite Z.mod_small by lia. reflexivity.
Qed.

Theorem sound_bitnot_i32 p : in32 p ->
  spec_unop UBitNot (VI32 p) = Ok (model_unop UBitNot TI32 (VI32 p)).
Proof.
  intros Hp. unfold spec_unop, model_unop. cbn [unop bind concretize glit_of_value make_override_literal
    value_of_glit eval_unary_float].
  pose proof (sgn_bound p Hp) as B.
  rewrite (go_int64_holds _ _ (lit_i32_holds p Hp)) by (unfold two31, two63 in *; lia).
  assert (Hh : holds (f64_of_Z (Z.lnot (sgn p))) (Z.lnot (sgn p))).
  { apply f64_of_Z_holds. unfold Z.lnot, Z.pred, two31, P53 in *. lia. }
  rewrite (go_int32_holds _ _ Hh) by (unfold Z.lnot, Z.pred, two31 in *; lia).
  rewrite (lnot_sgn p Hp). reflexivity.
Qed.

Lemma lnot_u32 p : in32 p -> Z.lnot p mod two32 = not32 p.
Proof.
  intros Hp. unfold not32, ALL_ONES, Z.lnot, Z.pred, two32, in32, M32 in *.
  replace (- p + -1) with (4294967296 - 1 - p + (-1) * 4294967296) by ring.
  rewrite Z_mod_plus_full. rewrite Z.mod_small by lia. reflexivity.
Qed.

Theorem sound_bitnot_u32 p : in32 p ->
  spec_unop UBitNot (VU32 p) = Ok (model_unop UBitNot TU32 (VU32 p)).
Proof.
  intros Hp. unfold spec_unop, model_unop. cbn [unop bind concretize glit_of_value make_override_literal
    value_of_glit eval_unary_float].
  rewrite (go_int64_holds _ _ (lit_u32_holds p Hp)) by (unfold in32, M32, two63 in *; lia).
  assert (Hh : holds (f64_of_Z (Z.lnot p)) (Z.lnot p)).
  { apply f64_of_Z_holds. unfold Z.lnot, Z.pred, in32, M32, P53 in *. lia. }
  rewrite (go_uint32_holds _ _ Hh) by (unfold Z.lnot, Z.pred, in32, M32, two63 in *; lia).
  rewrite (lnot_u32 p Hp). reflexivity.
Qed.

Theorem sound_not_bool b :
  spec_unop UNot (VBool b) = Ok (model_unop UNot TBool (VBool b)).
Proof.
  unfold spec_unop, model_unop. cbn [unop bind concretize glit_of_value make_override_literal
    value_of_glit eval_unary_float].
  rewrite (eq_holds _ _ _ _ (lit_bool_holds b) zero_holds).
  destruct b; cbn [Z.eqb negb].
  - rewrite (eq_holds _ _ _ _ zero_holds one_holds). reflexivity.
  - rewrite (eq_holds _ _ _ _ one_holds one_holds). reflexivity.
Qed.

(* ------------------------------------------------------------------ refutations *)
(* every operator x operand type the evaluator does not implement, with a witness on
   which WGSL defines a value and the evaluator produces a different one *)
Definition V (t : ty) (z : Z) : value :=
  match t with TBool => VBool (negb (z =? 0)) | TI32 => VI32 (wrap z) | TU32 => VU32 (wrap z) | TF32 => VF32 (f32_of_Z z) end.

Definition refutation_witnesses : list (bop * value * value) :=
  [ (Mod, V TI32 7, V TI32 4); (Mod, V TU32 7, V TU32 4);
    (Eq, V TI32 7, V TI32 7); (Eq, V TU32 7, V TU32 7); (Eq, V TF32 7, V TF32 7); (Eq, V TBool 1, V TBool 1);
    (Ne, V TI32 7, V TI32 4); (Ne, V TU32 7, V TU32 4); (Ne, V TF32 7, V TF32 4); (Ne, V TBool 1, V TBool 0);
    (Lt, V TI32 3, V TI32 7); (Lt, V TU32 3, V TU32 7); (Lt, V TF32 3, V TF32 7);
    (Le, V TI32 3, V TI32 7); (Le, V TU32 3, V TU32 7); (Le, V TF32 3, V TF32 7);
    (Gt, V TI32 7, V TI32 3); (Gt, V TU32 7, V TU32 3); (Gt, V TF32 7, V TF32 3);
    (Ge, V TI32 7, V TI32 3); (Ge, V TU32 7, V TU32 3); (Ge, V TF32 7, V TF32 3);
    (BAnd, V TI32 7, V TI32 5); (BAnd, V TU32 7, V TU32 5); (BAnd, V TBool 1, V TBool 1);
    (BXor, V TI32 7, V TI32 5); (BXor, V TU32 7, V TU32 5);
    (BOr, V TI32 7, V TI32 5); (BOr, V TU32 7, V TU32 5); (BOr, V TBool 1, V TBool 0);
    (LAnd, V TBool 1, V TBool 1); (LOr, V TBool 1, V TBool 0);
    (Shl, V TI32 1, V TU32 3); (Shl, V TU32 1, V TU32 3);
    (Shr, V TI32 64, V TU32 3); (Shr, V TU32 64, V TU32 3) ].

Definition refutes (w : bop * value * value) : bool :=
  let '(o, a, b) := w in
  is_ok (spec_binop o a b) && negb (agrees (model_binop o (result_ty o (type_of a)) a b) (spec_binop o a b)).

Lemma refutation_witnesses_ok : forallb refutes refutation_witnesses = true.
Proof. vm_compute. reflexivity. Qed.

(* the operators EvalBinaryFloat implements *)
Definition implemented (o : bop) : bool := match o with Add | Sub | Mul | Div => true | _ => false end.
(* operand types on which WGSL defines the operator (left operand for shifts) *)
Definition applicable (o : bop) (t : ty) : bool :=
  match o, t with
  | (Add | Sub | Mul | Div), (TI32 | TU32 | TF32) => true
  | Mod, (TI32 | TU32) => true
  | (Lt | Le | Gt | Ge), (TI32 | TU32 | TF32) => true
  | (Eq | Ne), _ => true
  | (BAnd | BOr), (TI32 | TU32 | TBool) => true
  | BXor, (TI32 | TU32) => true
  | (LAnd | LOr), TBool => true
  | (Shl | Shr), (TI32 | TU32) => true
  | _, _ => false
  end.
Definition all_bops : list bop := [Add; Sub; Mul; Div; Mod; Eq; Ne; Lt; Le; Gt; Ge; BAnd; BXor; BOr; LAnd; LOr; Shl; Shr].
Definition all_tys : list ty := [TBool; TI32; TU32; TF32].
Definition bop_eqb (a b : bop) : bool :=
  match a, b with
  | Add, Add | Sub, Sub | Mul, Mul | Div, Div | Mod, Mod | Eq, Eq | Ne, Ne | Lt, Lt | Le, Le | Gt, Gt | Ge, Ge
  | BAnd, BAnd | BXor, BXor | BOr, BOr | LAnd, LAnd | LOr, LOr | Shl, Shl | Shr, Shr => true
  | _, _ => false
  end.
Definition has_witness (o : bop) (t : ty) : bool :=
  existsb (fun w => let '(o', a, _) := w in bop_eqb o o' && ty_eqb (type_of a) t) refutation_witnesses.

(* completeness of the table: every applicable (unimplemented operator, type) is refuted *)
Lemma every_unimplemented_operator_refuted :
  forallb (fun o => implemented o || forallb (fun t => negb (applicable o t) || has_witness o t) all_tys) all_bops = true.
Proof. vm_compute. reflexivity. Qed.

Theorem unimplemented_refuted : forall o t, implemented o = false -> applicable o t = true ->
  exists a b, type_of a = t /\ is_ok (spec_binop o a b) = true /\
              agrees (model_binop o (result_ty o t) a b) (spec_binop o a b) = false.
Proof.
  intros o t Hi Ha.
  assert (Hw : has_witness o t = true).
  { pose proof every_unimplemented_operator_refuted as H. rewrite forallb_forall in H.
    assert (Hin : In o all_bops) by (destruct o; cbn; tauto).
    specialize (H o Hin). rewrite Hi in H. cbn [orb] in H. rewrite forallb_forall in H.
    assert (Hint : In t all_tys) by (destruct t; cbn; tauto).
    specialize (H t Hint). rewrite Ha in H. exact H. }
  unfold has_witness in Hw. apply existsb_exists in Hw. destruct Hw as [[[o' a] b] [Hin Hw]].
  apply andb_true_iff in Hw. destruct Hw as [Ho Ht].
  assert (o = o') by (destruct o, o'; try discriminate; reflexivity). subst o'.
  assert (type_of a = t) by (destruct (type_of a), t; try discriminate; reflexivity).
  pose proof refutation_witnesses_ok as R. rewrite forallb_forall in R. specialize (R _ Hin).
  unfold refutes in R. apply andb_true_iff in R. destruct R as [R1 R2].
  exists a, b. subst t. repeat split; try assumption.
  apply negb_true_iff in R2. exact R2.
Qed.

(* named instances (DESIGN section 10: a = 7: a % 4 -> 0, a > 3 -> false, 1u << 3u -> 0) *)
Theorem mod_i32_refuted : exists p q, in32 p /\ in32 q /\
  spec_binop Mod (VI32 p) (VI32 q) = Ok (VI32 3) /\ model_binop Mod TI32 (VI32 p) (VI32 q) = VI32 0.
Proof. exists 7, 4. repeat split; try (unfold in32, M32; lia); vm_compute; reflexivity. Qed.
Theorem gt_i32_refuted : exists p q, in32 p /\ in32 q /\
  spec_binop Gt (VI32 p) (VI32 q) = Ok (VBool true) /\ model_binop Gt TBool (VI32 p) (VI32 q) = VBool false.
Proof. exists 7, 3. repeat split; try (unfold in32, M32; lia); vm_compute; reflexivity. Qed.
Theorem shl_u32_refuted : exists p q, in32 p /\ in32 q /\
  spec_binop Shl (VU32 p) (VU32 q) = Ok (VU32 8) /\ model_binop Shl TU32 (VU32 p) (VU32 q) = VU32 0.
Proof. exists 1, 3. repeat split; try (unfold in32, M32; lia); vm_compute; reflexivity. Qed.

(* signed overflow: WGSL wraps, the evaluator saturates to INT_MIN *)
Theorem add_i32_overflow_refuted : exists p q, in32 p /\ in32 q /\
  spec_binop Add (VI32 p) (VI32 q) = Ok (VI32 2147483649) /\ model_binop Add TI32 (VI32 p) (VI32 q) = VI32 2147483648.
Proof. exists 2147483647, 2. repeat split; try (unfold in32, M32; lia); vm_compute; reflexivity. Qed.
(* u32 product beyond 2^53: low bits lost *)
Theorem mul_u32_large_refuted : exists p q, in32 p /\ in32 q /\
  agrees (model_binop Mul TU32 (VU32 p) (VU32 q)) (spec_binop Mul (VU32 p) (VU32 q)) = false.
Proof. exists 4107723037, 16777215. repeat split; try (unfold in32, M32; lia). Qed.
(* division by zero: WGSL requires a pipeline-creation error, the evaluator yields 0 *)
Theorem div_by_zero_not_reported : exists p, in32 p /\
  spec_binop Div (VI32 p) (VI32 0) = Err EDiag /\ model_binop Div TI32 (VI32 p) (VI32 0) = VI32 0.
Proof. exists 7. repeat split; try (unfold in32, M32; lia); vm_compute; reflexivity. Qed.

(* ------------------------------------------------------------------ lookup order *)
Theorem lookup_id_before_name : forall m d i vi,
  g_id d = Some i -> assoc_s (dec_string i) m = Some vi ->
  forall resolved, resolve_one m resolved d = Some (f64_of_bits vi).
Proof.
  intros m d i vi Hid Hm resolved. unfold resolve_one, find_value. rewrite Hid, Hm. reflexivity.
Qed.

Theorem lookup_name_when_id_absent : forall m d vn,
  (match g_id d with Some i => assoc_s (dec_string i) m | None => None end) = None ->
  g_name d <> EmptyString -> assoc_s (g_name d) m = Some vn ->
  forall resolved, resolve_one m resolved d = Some (f64_of_bits vn).
Proof.
  intros m d vn Hid Hne Hm resolved. unfold resolve_one, find_value. rewrite Hid.
  destruct (String.eqb_spec (g_name d) ""); [contradiction|]. rewrite Hm. reflexivity.
Qed.

(* the specification uses the same order *)
Theorem spec_lookup_id_before_name : forall m d i vi,
  d_id d = Some i -> assoc_s (dec_string i) m = Some vi -> lookup_key m d = Some vi.
Proof. intros m d i vi Hid Hm. unfold lookup_key. rewrite Hid, Hm. reflexivity. Qed.

(* ------------------------------------------------------------------ missing value *)
Lemma resolve_from_none : forall m ds pre d,
  In d ds -> find_value m d = None -> g_init d = None -> resolve_from m pre ds = None.
Proof.
  intros m ds. induction ds as [| d0 ds IH]; intros pre d Hin Hf Hi.
  - destruct Hin.
  - cbn [resolve_from]. destruct Hin as [-> | Hin].
    + unfold resolve_one. rewrite Hf, Hi. reflexivity.
    + destruct (resolve_one m pre d0); [| reflexivity]. apply (IH _ d Hin Hf Hi).
Qed.

Theorem override_missing_is_error : forall ds m d,
  In d ds -> find_value m d = None -> g_init d = None -> process ds m = None.
Proof.
  intros ds m d Hin Hf Hi. unfold process, resolve_all. rewrite (resolve_from_none m ds [] d Hin Hf Hi). reflexivity.
Qed.

(* and only then *)
Lemma resolve_from_some : forall m ds pre,
  (forall d, In d ds -> find_value m d <> None \/ g_init d <> None) -> resolve_from m pre ds <> None.
Proof.
  intros m ds. induction ds as [| d0 ds IH]; intros pre H.
  - cbn. discriminate.
  - cbn [resolve_from]. destruct (H d0 (or_introl eq_refl)) as [Hf | Hi].
    + unfold resolve_one. destruct (find_value m d0); [| contradiction]. apply IH. intros d Hd. apply H. right. exact Hd.
    + unfold resolve_one. destruct (find_value m d0).
      * apply IH. intros d Hd. apply H. right. exact Hd.
      * destruct (g_init d0); [| contradiction]. apply IH. intros d Hd. apply H. right. exact Hd.
Qed.

Theorem process_total : forall ds m,
  (forall d, In d ds -> find_value m d <> None \/ g_init d <> None) -> process ds m <> None.
Proof.
  intros ds m H. unfold process, resolve_all. pose proof (resolve_from_some m ds [] H) as R.
  destruct (resolve_from m [] ds); [discriminate | contradiction].
Qed.

(* ------------------------------------------------------------------ derived overrides *)
(* resolution is a left-to-right pass: override i gets its supplied value, else its default
   evaluated over the values of overrides 0..i-1 *)
Lemma resolve_from_char : forall m ds pre vs,
  resolve_from m pre ds = Some vs ->
  exists rest, vs = (pre ++ rest)%list /\ List.length rest = List.length ds /\
    forall i d, nth_error ds i = Some d ->
      resolve_one m (firstn (List.length pre + i) vs) d = nth_error rest i.
Proof.
  intros m ds. induction ds as [| d0 ds IH]; intros pre vs H.
  - cbn in H. inversion H; subst. exists []. rewrite app_nil_r. repeat split; try reflexivity.
    intros i d Hn. destruct i; discriminate.
  - cbn [resolve_from] in H. destruct (resolve_one m pre d0) as [v |] eqn:E; [| discriminate].
    destruct (IH _ _ H) as [rest [Hvs [Hlen Hall]]].
    exists (v :: rest). rewrite <- app_assoc in Hvs. cbn [app] in Hvs. repeat split.
    + exact Hvs.
    + cbn. rewrite Hlen. reflexivity.
    + intros i d Hn. destruct i as [| i].
      * cbn in Hn. inversion Hn; subst d. rewrite Nat.add_0_r, Hvs.
        rewrite firstn_app, Nat.sub_diag, firstn_all. cbn [firstn]. rewrite app_nil_r. exact E.
      * cbn [nth_error] in Hn |- *. specialize (Hall i d Hn).
        rewrite app_length in Hall. cbn [length] in Hall.
        replace (List.length pre + S i)%nat with (List.length pre + 1 + i)%nat by lia. exact Hall.
Qed.

Theorem derived_overrides_topological : forall m ds vs,
  resolve_all m ds = Some vs ->
  List.length vs = List.length ds /\
  forall i d, nth_error ds i = Some d -> nth_error vs i = resolve_one m (firstn i vs) d.
Proof.
  intros m ds vs H. destruct (resolve_from_char m ds [] vs H) as [rest [Hvs [Hlen Hall]]].
  cbn [app] in Hvs. subst rest. split; [exact Hlen |].
  intros i d Hn. symmetry. exact (Hall i d Hn).
Qed.

(* an override whose default is another override gets that override's resolved value *)
Corollary derived_ref_gets_value : forall m ds vs i d k,
  resolve_all m ds = Some vs -> nth_error ds i = Some d ->
  find_value m d = None -> g_init d = Some (GOvr k) -> (k < i)%nat ->
  nth_error vs i = Some (nth k vs f64_zero).
Proof.
  intros m ds vs i d k H Hn Hf Hi Hk.
  destruct (derived_overrides_topological m ds vs H) as [Hlen Hall].
  rewrite (Hall i d Hn). unfold resolve_one. rewrite Hf, Hi. cbn [eval_g]. f_equal.
  assert (Hi' : (i < List.length vs)%nat).
  { rewrite Hlen. apply nth_error_Some. rewrite Hn. discriminate. }
  rewrite <- (firstn_skipn i vs) at 2.
  rewrite app_nth1; [reflexivity |]. rewrite firstn_length. lia.
Qed.

(* ... but it is the RAW supplied float64, not the value converted to the referenced
   override's type: a = 3.7 supplied for `override a: i32`, `override b: i32 = a * 2` *)
Definition ex_decls : list decl :=
  [ mkDecl "a" None (Some TI32) (Some (ELit (LInt 1 SNone)));
    mkDecl "b" None (Some TI32) (Some (EBin Mul (ERef 0) (ELit (LInt 2 SNone)))) ].
Definition bits_3_7 : Z := 4615739258092021350.
Theorem derived_sees_unconverted_value_refuted :
  subst_overrides ex_decls [("a"%string, bits_3_7)] = Ok [VI32 3; VI32 6] /\
  process (lower ex_decls) [("a"%string, bits_3_7)] = Some [GI32 3; GI32 7].
Proof. split; vm_compute; reflexivity. Qed.

(* NaN is a value: false for a bool override (the evaluator agrees) and not convertible to a
   numeric type (the evaluator converts it: INT_MIN on amd64) *)
Definition nan_bits : Z := 9221120237041090560.
Theorem nan_for_bool_is_false :
  subst_overrides [mkDecl "a" None (Some TBool) (Some (ELit (LBool true)))] [("a"%string, nan_bits)] = Ok [VBool false] /\
  process (lower [mkDecl "a" None (Some TBool) (Some (ELit (LBool true)))]) [("a"%string, nan_bits)] = Some [GBool false].
Proof. split; vm_compute; reflexivity. Qed.
Theorem nan_taken_as_value_refuted :
  subst_overrides [mkDecl "a" None (Some TI32) (Some (ELit (LInt 7 SNone)))] [("a"%string, nan_bits)] = Err EConv /\
  process (lower [mkDecl "a" None (Some TI32) (Some (ELit (LInt 7 SNone)))]) [("a"%string, nan_bits)] = Some [GI32 2147483648].
Proof. split; vm_compute; reflexivity. Qed.

(* out-of-range / non-integral supplied values are converted silently instead of rejected *)
Theorem out_of_range_value_not_rejected_refuted :
  subst_overrides [mkDecl "a" None (Some TU32) None] [("a"%string, 13830554455654793216)] = Err EConv /\   (* -1.0 *)
  process (lower [mkDecl "a" None (Some TU32) None]) [("a"%string, 13830554455654793216)] = Some [GU32 4294967295].
Proof. split; vm_compute; reflexivity. Qed.

(* lowering: initialisers that reference a module constant or use a suffixed float literal
   lose their default (the override then demands a pipeline value) *)
Theorem const_ref_default_dropped_refuted :
  let d := mkDecl "a" None (Some TI32) (Some (EConst TI32 (LInt 4 SNone))) in
  subst_overrides [d] [] = Ok [VI32 4] /\ process (lower [d]) [] = None.
Proof. split; vm_compute; reflexivity. Qed.

(* lowering: integer literals travel as float32 *)
Theorem int_literal_above_2p24_refuted :
  let d := mkDecl "a" None (Some TI32) (Some (ELit (LInt 16777217 SNone))) in
  subst_overrides [d] [] = Ok [VI32 16777217] /\ process (lower [d]) [] = Some [GI32 16777216].
Proof. split; vm_compute; reflexivity. Qed.

(* @workgroup_size(override) keeps the default 1 *)
Theorem workgroup_size_override_ignored_refuted :
  subst_expr [VU32 64] None (ERef 0) = Ok (VU32 64) /\ lower_wg (ERef 0) = 1.
Proof. split; vm_compute; reflexivity. Qed.

(* MSL PipelineConstants: a missing value without default is not an error (there is no
   error outcome at all), and an out-of-range value silently keeps the default *)
Theorem msl_resolution_never_fails : forall ds m, List.length (msl_resolve ds m) = List.length ds.
Proof.
  intros ds m. unfold msl_resolve.
  assert (G : forall ds vals, List.length (msl_resolve_from m vals ds) = (List.length vals + List.length ds)%nat).
  { induction ds0 as [| d ds0 IH]; intros vals; cbn [msl_resolve_from List.length].
    - lia.
    - rewrite IH, app_length. cbn. lia. }
  rewrite G. reflexivity.
Qed.
Theorem msl_missing_not_error_refuted :
  subst_overrides [mkDecl "a" None (Some TI32) None] [] = Err EMissing /\
  msl_resolve (lower [mkDecl "a" None (Some TI32) None]) [] = [None].
Proof. split; vm_compute; reflexivity. Qed.

(* ------------------------------------------------------------------ the caller's module *)
(* Abstract store: one cell per location class.  The clone owns a private copy of the
   classes CloneModuleForOverrides copies and aliases the caller's cell for the others;
   ProcessOverrides writes the classes in [written] through the clone. *)
Definition store := loc -> nat.
Definition after_process (s w : store) : store :=
  fun l => if mem_loc l written && negb (mem_loc l cloned) then w l else s l.

Lemma leaked_spec : forall l, mem_loc l leaked = mem_loc l written && negb (mem_loc l cloned).
Proof. intros l. destruct l; vm_compute; reflexivity. Qed.

Theorem process_preserves_original_partial : forall s w l,
  mem_loc l leaked = false -> after_process s w l = s l.
Proof. intros s w l H. unfold after_process. rewrite <- leaked_spec, H. reflexivity. Qed.

Theorem leaked_locations : leaked = [LNestedBlocks; LStmtPtrs; LCallArgs; LExprPtrs].
Proof. vm_compute. reflexivity. Qed.

Theorem process_preserves_original_refuted : exists s w l, after_process s w l <> s l.
Proof.
  exists (fun _ => 0%nat), (fun _ => 1%nat), LNestedBlocks. vm_compute. discriminate.
Qed.
