(* IEEE-754 binary64 / binary32 (Flocq 4, single NaN) and the Go conversions the
   override evaluator of naga relies on.  Definitions only (executable; used by the
   spec, by the implementation model, by extraction).

   Go float64 arithmetic (+ - * /, ==, unary -) is IEEE-754 binary64 round-to-
   nearest-even on every Go port; conversions float64 -> float32, int32/uint32/
   int64 -> float64 and float32 -> float64 are correctly rounded / exact.
   float64 -> integer conversion truncates toward zero when the result is
   representable; otherwise the Go specification leaves the value implementation
   defined.  [go_int32], [go_int64], [go_uint32] below model what the gc compiler
   emits on amd64 (CVTTSD2SL / CVTTSD2SQ "integer indefinite" = the minimum integer;
   uint32 conversion = low 32 bits of the int64 conversion).  The check compares these
   functions with the running Go toolchain on every run (ovrdrive goconv). *)
From Coq Require Import ZArith Bool List.
From Flocq Require Import Core.Zaux IEEE754.BinarySingleNaN IEEE754.Bits.
From Flocq Require IEEE754.Binary.
Import ListNotations.
Open Scope Z_scope.

Definition f64 := binary_float 53 1024.
Definition f32 := binary_float 24 128.

Lemma prec53 : FLX.Prec_gt_0 53.  Proof. reflexivity. Qed.
Lemma emax53 : Prec_lt_emax 53 1024.  Proof. reflexivity. Qed.
Lemma prec24 : FLX.Prec_gt_0 24.  Proof. reflexivity. Qed.
Lemma emax24 : Prec_lt_emax 24 128.  Proof. reflexivity. Qed.

(* ---- bit patterns ---- *)
Definition f64_of_bits (x : Z) : f64 := Binary.B2BSN 53 1024 (b64_of_bits x).
Definition f32_of_bits (x : Z) : f32 := Binary.B2BSN 24 128 (b32_of_bits x).
Definition f64_bits (f : f64) : Z := bits_of_b64 (Binary.BSN2B 53 1024 default_nan_pl64 f).
Definition f32_bits (f : f32) : Z := bits_of_b32 (Binary.BSN2B 24 128 default_nan_pl32 f).

(* ---- binary64 operations (Go float64) ---- *)
Definition f64_zero : f64 := B754_zero false.
Definition f64_add : f64 -> f64 -> f64 := @Bplus 53 1024 prec53 emax53 mode_NE.
Definition f64_sub : f64 -> f64 -> f64 := @Bminus 53 1024 prec53 emax53 mode_NE.
Definition f64_mul : f64 -> f64 -> f64 := @Bmult 53 1024 prec53 emax53 mode_NE.
Definition f64_div : f64 -> f64 -> f64 := @Bdiv 53 1024 prec53 emax53 mode_NE.
Definition f64_neg : f64 -> f64 := Bopp.
Definition f64_of_Z (z : Z) : f64 := @binary_normalize 53 1024 prec53 emax53 mode_NE z 0 false.
Definition f64_one : f64 := f64_of_Z 1.
Definition f64_eq (a b : f64) : bool := Beqb a b.        (* Go ==: false on NaN, +0 == -0 *)
Definition f64_is_nan (a : f64) : bool := is_nan a.
Definition f64_is_inf (a : f64) : bool := match a with B754_infinity _ => true | _ => false end.
Definition f64_trunc (a : f64) : Z := Btrunc a.          (* 0 for NaN / inf *)
Definition f64_finite (a : f64) : bool := is_finite a.

(* ---- binary32 operations (WGSL f32) ---- *)
Definition f32_add : f32 -> f32 -> f32 := @Bplus 24 128 prec24 emax24 mode_NE.
Definition f32_sub : f32 -> f32 -> f32 := @Bminus 24 128 prec24 emax24 mode_NE.
Definition f32_mul : f32 -> f32 -> f32 := @Bmult 24 128 prec24 emax24 mode_NE.
Definition f32_div : f32 -> f32 -> f32 := @Bdiv 24 128 prec24 emax24 mode_NE.
Definition f32_neg : f32 -> f32 := Bopp.
Definition f32_of_Z (z : Z) : f32 := @binary_normalize 24 128 prec24 emax24 mode_NE z 0 false.
Definition f32_finite (a : f32) : bool := is_finite a.
Definition f32_trunc (a : f32) : Z := Btrunc a.

(* ---- conversions between the two formats ---- *)
Definition f32_of_f64 (a : f64) : f32 :=           (* Go float32(x): round to nearest even *)
  match a with
  | B754_zero s => B754_zero s
  | B754_infinity s => B754_infinity s
  | B754_nan => B754_nan
  | B754_finite s m e _ => @binary_normalize 24 128 prec24 emax24 mode_NE (cond_Zopp s (Zpos m)) e s
  end.
Definition f64_of_f32 (a : f32) : f64 :=           (* Go float64(x): exact *)
  match a with
  | B754_zero s => B754_zero s
  | B754_infinity s => B754_infinity s
  | B754_nan => B754_nan
  | B754_finite s m e _ => @binary_normalize 53 1024 prec53 emax53 mode_NE (cond_Zopp s (Zpos m)) e s
  end.

(* ---- Go float64 -> integer conversions (gc, amd64) ---- *)
Definition two31 : Z := 2147483648.
Definition two32 : Z := 4294967296.
Definition two63 : Z := 9223372036854775808.
Definition two64 : Z := 18446744073709551616.

(* result as a signed mathematical integer *)
Definition go_int64 (a : f64) : Z :=
  if f64_finite a then
    let z := f64_trunc a in
    if (- two63 <=? z) && (z <? two63) then z else - two63
  else - two63.
(* result as a 32-bit pattern in [0, 2^32) *)
Definition go_int32 (a : f64) : Z :=
  if f64_finite a then
    let z := f64_trunc a in
    if (- two31 <=? z) && (z <? two31) then z mod two32 else two31
  else two31.
Definition go_uint32 (a : f64) : Z := (go_int64 a) mod two32.
