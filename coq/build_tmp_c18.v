(* C18: model of dxil/internal/bitcode/writer.go (LLVM 3.7 bitstream writer),
   an abstract encoder of block/record trees, and a reader for the format.
   Definitions only.

   Three layers:
   1. the WRITER MACHINE: state and operations transcribed from writer.go
      (data bytes, 64-bit accumulator `buf`, `bufBits`, abbreviation width,
      block stack with size offsets, length back-patch in ExitBlock);
   2. the ABSTRACT ENCODER: bit lists for VBR values, records and nested
      blocks (the block length is written directly);
   3. the READER: position-tracking decoder of the same format (magic,
      abbreviation ids, ENTER_SUBBLOCK/END_BLOCK, alignment, block lengths,
      UNABBREV_RECORD); abbreviation ids >= 4 and DEFINE_ABBREV are rejected
      because the writer defines no abbreviations (serialize.go uses
      EmitRecord only). *)
From Coq Require Import List ZArith Bool Lia.
Import ListNotations.
Require Import Naga.Dxil.BitsModel.
Open Scope Z_scope.

(* ------------------------------------------------------------------ *)
(* 1. Writer machine (writer.go)                                       *)

Definition two32 := 4294967296.
Definition two64 := 18446744073709551616.

Record wstate := mkW {
  wdata : list Z;            (* data []byte *)
  wbuf : Z;                  (* buf uint64 *)
  wbits : Z;                 (* bufBits uint *)
  waw : Z;                   (* abbrevWidth uint *)
  wblocks : list (Z * Z)     (* blocks: (outer abbrevWidth, sizeOffset), innermost first *)
}.

Definition new_writer (aw : Z) : wstate := mkW [] 0 0 aw [].

(* Go shifts: x << s and x >> s on a 64-bit unsigned, s an arbitrary uint *)
Definition shl64 (x s : Z) : Z := if s <? 64 then (x * 2 ^ s) mod two64 else 0.
Definition shr64 (x s : Z) : Z := if s <? 64 then x / 2 ^ s else 0.
Definition shl32 (x s : Z) : Z := if s <? 32 then (x * 2 ^ s) mod two32 else 0.

(* flushDword *)
Definition flush_dword (s : wstate) : wstate :=
  mkW (wdata s ++ le32 (wbuf s mod two32)) (wbuf s / two32) (wbits s - 32) (waw s) (wblocks s).

(* WriteBits(data uint32, width uint) *)
Definition write_bits (s : wstate) (d w : Z) : wstate :=
  let s1 := mkW (wdata s) (Z.lor (wbuf s) (shl64 d (wbits s))) (wbits s + w) (waw s) (wblocks s) in
  if wbits s1 >=? 32 then flush_dword s1 else s1.

(* WriteFixed(value uint64, width uint); width-32 is computed on uint (wraps) *)
Definition write_fixed (s : wstate) (v w : Z) : wstate :=
  if w =? 0 then s
  else if v >? 4294967295
       then write_bits (write_bits s (v mod two32) w) ((v / two32) mod two32) ((w - 32) mod two64)
       else write_bits s (v mod two32) w.

(* WriteVBR(value uint64, width uint): tag := uint32(1) << (width-1); mask := tag-1;
   the loop runs while value > mask.  Go does not terminate for width = 1 and
   value > 0: the model returns None when the fuel (65 iterations) runs out. *)
Definition vbr_sh (w : Z) : Z := (w - 1) mod two64.
Definition vbr_tag (w : Z) : Z := shl32 1 (vbr_sh w).
Definition vbr_mask (w : Z) : Z := (vbr_tag w - 1) mod two32.

Fixpoint write_vbr_go (fuel : nat) (s : wstate) (v w : Z) : option wstate :=
  if v >? vbr_mask w then
    match fuel with
    | O => None
    | S f => write_vbr_go f (write_bits s (Z.lor (Z.land v (vbr_mask w)) (vbr_tag w)) w) (shr64 v (vbr_sh w)) w
    end
  else Some (write_bits s (v mod two32) w).

Definition write_vbr (s : wstate) (v w : Z) : option wstate := write_vbr_go 65 s v w.

(* EncodeSignedVBR(value int64) uint64 *)
Definition encode_signed_vbr (v : Z) : Z :=
  if v >=? 0 then (v * 2) mod two64 else Z.lor (((- v) mod two64 * 2) mod two64) 1.

(* EncodeChar6; None = panic *)
Definition encode_char6 (c : Z) : option Z :=
  if (97 <=? c) && (c <=? 122) then Some (c - 97)
  else if (65 <=? c) && (c <=? 90) then Some (26 + (c - 65))
  else if (48 <=? c) && (c <=? 57) then Some (52 + (c - 48))
  else if c =? 46 then Some 62
  else if c =? 95 then Some 63
  else None.

Definition is_char6 (c : Z) : bool :=
  ((97 <=? c) && (c <=? 122)) || ((65 <=? c) && (c <=? 90)) || ((48 <=? c) && (c <=? 57)) || (c =? 46) || (c =? 95).

(* Align32 *)
Definition align32 (s : wstate) : wstate :=
  if wbits s >? 0 then flush_dword (mkW (wdata s) (wbuf s) 32 (waw s) (wblocks s)) else s.

Definition emit_abbrev_id (s : wstate) (id : Z) : wstate := write_bits s id (waw s).

Definition bind {A B} (o : option A) (f : A -> option B) : option B :=
  match o with Some x => f x | None => None end.

(* EnterBlock(blockID, abbrevLen) *)
Definition enter_block (s : wstate) (id nw : Z) : option wstate :=
  bind (write_vbr (emit_abbrev_id s 1) id 8) (fun s1 =>
  bind (write_vbr s1 nw 4) (fun s2 =>
  let s3 := align32 s2 in
  Some (mkW (wdata s3 ++ [0; 0; 0; 0]) (wbuf s3) (wbits s3) nw
            ((waw s3, Z.of_nat (length (wdata s3))) :: wblocks s3)))).

(* binary.LittleEndian.PutUint32(data[off:], v) *)
Definition patch32 (data : list Z) (off : Z) (v : Z) : list Z :=
  firstn (Z.to_nat off) data ++ le32 v ++ skipn (Z.to_nat off + 4) data.

(* ExitBlock; None = index-out-of-range panic on an empty block stack *)
Definition exit_block (s : wstate) : option wstate :=
  let s1 := align32 (emit_abbrev_id s 0) in
  match wblocks s1 with
  | [] => None
  | (oaw, off) :: rest =>
    let body_start := off + 4 in
    let body_size := Z.of_nat (length (wdata s1)) - body_start in
    let word_size := Z.quot body_size 4 in
    Some (mkW (patch32 (wdata s1) off (word_size mod two32)) (wbuf s1) (wbits s1) oaw rest)
  end.

Fixpoint write_vbrs (s : wstate) (vs : list Z) (w : Z) : option wstate :=
  match vs with
  | [] => Some s
  | v :: vs' => bind (write_vbr s v w) (fun s' => write_vbrs s' vs' w)
  end.

(* EmitRecord(code, values) *)
Definition emit_record (s : wstate) (code : Z) (vals : list Z) : option wstate :=
  bind (write_vbr (emit_abbrev_id s 3) code 6) (fun s1 =>
  bind (write_vbr s1 (Z.of_nat (length vals)) 6) (fun s2 =>
  write_vbrs s2 vals 6)).

(* Bytes() *)
Definition writer_bytes (s : wstate) : list Z := wdata (if wbits s >? 0 then align32 s else s).

Inductive wop :=
| OBits (d w : Z)
| OFixed (v w : Z)
| OVbr (v w : Z)
| OChar6 (c : Z)
| OAlign
| OEnter (id nw : Z)
| OExit
| ORecord (code : Z) (vals : list Z)
| OBlob (code : Z) (vals : list Z) (blob : list Z).

Definition run_op (s : wstate) (o : wop) : option wstate :=
  match o with
  | OBits d w => Some (write_bits s d w)
  | OFixed v w => Some (write_fixed s v w)
  | OVbr v w => write_vbr s v w
  | OChar6 c => bind (encode_char6 c) (fun e => Some (write_bits s e 6))
  | OAlign => Some (align32 s)
  | OEnter id nw => enter_block s id nw
  | OExit => exit_block s
  | ORecord code vals => emit_record s code vals
  | OBlob code vals blob => emit_record s code (vals ++ blob)
  end.

Fixpoint run_ops (s : wstate) (ops : list wop) : option wstate :=
  match ops with
  | [] => Some s
  | o :: ops' => bind (run_op s o) (fun s' => run_ops s' ops')
  end.

(* run with Len() observed after every op (what the Go hook reports) *)
Fixpoint run_ops_lens (s : wstate) (ops : list wop) (acc : list Z) : option (wstate * list Z) :=
  match ops with
  | [] => Some (s, rev acc)
  | o :: ops' => bind (run_op s o) (fun s' => run_ops_lens s' ops' (Z.of_nat (length (wdata s')) :: acc))
  end.

(* ------------------------------------------------------------------ *)
(* 2. Abstract encoder                                                 *)

(* VBR(w) of v >= 0: chunks of w-1 data bits, high bit = continuation *)
Fixpoint enc_vbr_fuel (fuel : nat) (w : nat) (v : Z) : list bool :=
  let m := 2 ^ Z.of_nat (w - 1) in
  match fuel with
  | O => bits_of w v
  | S f => if v <? m then bits_of w v
           else bits_of w (v mod m + m) ++ enc_vbr_fuel f w (v / m)
  end.

Definition enc_vbr (w : nat) (v : Z) : list bool := enc_vbr_fuel (S (Z.to_nat (Z.log2 v))) w v.

(* a bitstream tree: records and nested blocks *)
Inductive item :=
| Rec (code : Z) (ops : list Z)
| Blk (id : Z) (aw : nat) (body : list item).

Definition enc_ops (ops : list Z) : list bool := flat_map (enc_vbr 6) ops.

Definition enc_record (w : nat) (code : Z) (ops : list Z) : list bool :=
  bits_of w 3 ++ enc_vbr 6 code ++ enc_vbr 6 (Z.of_nat (length ops)) ++ enc_ops ops.

Definition blk_header (w : nat) (id : Z) (nw : nat) : list bool :=
  bits_of w 1 ++ enc_vbr 8 id ++ enc_vbr 4 (Z.of_nat nw).

(* encoding of an item that starts at absolute bit position pos *)
Fixpoint enc_item (w : nat) (pos : Z) (it : item) : list bool :=
  match it with
  | Rec code ops => enc_record w code ops
  | Blk id nw body =>
    let hdr := blk_header w id nw in
    let p1 := pos + Z.of_nat (length hdr) in
    let pad1 := zeros (padlen p1) in
    let p2 := p1 + Z.of_nat (padlen p1) + 32 in
    let inner :=
      (fix enc_list (p : Z) (l : list item) : list bool :=
         match l with
         | [] => []
         | x :: l' => let e := enc_item nw p x in e ++ enc_list (p + Z.of_nat (length e)) l'
         end) p2 body ++ bits_of nw 0 in
    let pad2 := zeros (padlen (p2 + Z.of_nat (length inner))) in
    hdr ++ pad1 ++ bits_of 32 ((Z.of_nat (length (inner ++ pad2)) / 32) mod two32) ++ inner ++ pad2
  end.

Fixpoint enc_items (w : nat) (pos : Z) (l : list item) : list bool :=
  match l with
  | [] => []
  | x :: l' => let e := enc_item w pos x in e ++ enc_items w (pos + Z.of_nat (length e)) l'
  end.

Definition magic_bits : list bool := bits_of 8 66 ++ bits_of 8 67 ++ bits_of 8 192 ++ bits_of 8 222.

(* the whole stream: 'B' 'C' 0xC0 0xDE, then items at abbreviation width 2 *)
Definition enc_stream (l : list item) : list bool := magic_bits ++ enc_items 2 32 l.

