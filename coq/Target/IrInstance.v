(* The generic structured semantics is not a toy: the reference interpreter of the naga IR (IR/Sem.v: exec_block,
   exec_stmt, exec_cases, exec_loop) IS the generic interpreter of Target/Structured.v on the translation [tr] of
   the IR statements - exact equality of results, for every module, function, statement, frame, memory and fuel
   (theorem [ir_is_generic]).  State = (frame, memory); returned values = RRet v | RKill; the leaf statements (Emit,
   Store, Atomic, Call, Barrier, not-modelled kinds) are the primitives - a Call consumes fuel, which is why the
   primitives of the generic language are fuel-aware.  Consequently every encoding theorem of Target/*.v applies to
   the IR control-flow statements as IR/Sem.v executes them (corollary [ir_loop_is_generic_loop] and the like are
   instances by unfolding). *)
From Coq Require Import List ZArith String Bool Lia.
Import ListNotations.
Require Import Naga.IR.Syntax Naga.IR.Values Naga.IR.Sem Naga.IR.SemProps.
Require Import Naga.Target.Structured.
Open Scope string_scope.
Open Scope list_scope.

Inductive ir_ret := RRet (v : option value) | RKill.

Definition istate := (frame * list value)%type.
Notation gstmt := (Structured.stmt istate ir_ret).
Notation istmt := Syntax.stmt.

Definition conv_o (o : Sem.outcome) : Structured.outcome ir_ret :=
  match o with
  | Sem.ONormal => Structured.ONormal
  | Sem.OBreak => Structured.OBreak
  | Sem.OContinue => Structured.OContinue
  | Sem.OReturn v => Structured.OReturn (RRet v)
  | Sem.OKill => Structured.OReturn RKill
  end.

Definition conv (r : result (Sem.outcome * frame * list value)) : result (Structured.outcome ir_ret * istate) :=
  match r with
  | Done (o, fr, mem) => Done (conv_o o, (fr, mem))
  | OutOfFuel => OutOfFuel
  | Fail msg => Fail msg
  end.

Section Instance.
Variable m : module.
Variable f : func.

Definition bool_of (msg : string) (h : nat) : cond istate :=
  fun st => cv <~ operand m f (fst st) (snd st) h ;;
            match cv with VBool b => Done b | _ => Fail msg end.

Definition sel_of (sel : nat) (cases : list (switch_value * list istmt * bool)) : istate -> result (option nat) :=
  fun st => sv <~ operand m f (fst st) (snd st) sel ;;
            Done (match find_case cases sv 0 with Some i => Some i | None => find_default cases 0 end).

(* a leaf statement as a primitive: whatever IR/Sem.v does for it *)
Definition leaf (s : istmt) : prim istate :=
  fun k st => r <~ exec_stmt (S k) m f s (fst st) (snd st) ;; Done (snd (fst r), snd r).

Fixpoint tr (s : istmt) : gstmt :=
  match s with
  | SBlock b => Block (map tr b)
  | SIf c a r => If (bool_of "if: condition is not a bool" c) (map tr a) (map tr r)
  | SSwitch sel cases =>
    Switch (sel_of sel cases) (map (fun c : switch_value * list istmt * bool => (map tr (snd (fst c)), snd c)) cases)
  | SLoop body cont brk =>
    Loop (map tr body) (map tr cont)
         (match brk with Some h => Some (bool_of "break if: not a bool" h) | None => None end)
  | SBreak => Break
  | SContinue => Continue
  | SReturn None => Return (fun _ => Done (RRet None))
  | SReturn (Some h) => Return (fun st => v <~ operand m f (fst st) (snd st) h ;; Done (RRet (Some v)))
  | SKill => Return (fun _ => Done RKill)
  | s => Prim (leaf s)
  end.
Definition tr_b (b : list istmt) : list gstmt := map tr b.
Definition tr_c (cs : list (switch_value * list istmt * bool)) : list (list gstmt * bool) :=
  map (fun c : switch_value * list istmt * bool => (tr_b (snd (fst c)), snd c)) cs.

Definition is_leaf (s : istmt) : bool :=
  match s with
  | SEmit _ _ | SBarrier _ | SStore _ _ | SAtomic _ _ _ _ _ | SCall _ _ _ | SOther _ _ => true
  | _ => false
  end.

Ltac inv_binds H :=
  repeat match type of H with
         | rbind _ _ = Done _ => let x := fresh "x" in let Hx := fresh "Hx" in
                                 apply rbind_done in H; destruct H as (x & Hx & H)
         | match ?e with _ => _ end = Done _ => destruct e; try discriminate
         | (let '(_, _) := ?e in _) = Done _ => destruct e
         end.

(* a leaf statement always completes normally *)
Lemma leaf_normal k s fr mem o fr' mem' :
  is_leaf s = true -> exec_stmt (S k) m f s fr mem = Done (o, fr', mem') -> o = Sem.ONormal.
Proof.
  intros Hl H. destruct s; try discriminate; cbn [exec_stmt] in H; inv_binds H; try congruence.
Qed.

Lemma leaf_conv k s fr mem :
  is_leaf s = true ->
  conv (exec_stmt (S k) m f s fr mem) = (st' <~ leaf s k (fr, mem) ;; Done (Structured.ONormal, st')).
Proof.
  intros Hl. unfold leaf. cbn [fst snd].
  destruct (exec_stmt (S k) m f s fr mem) as [[[o fr'] mem']| |msg] eqn:E; cbn [conv conv_o rbind fst snd]; try reflexivity.
  rewrite (leaf_normal _ _ _ _ _ _ _ Hl E). reflexivity.
Qed.

Lemma conv_loop_step (rb rc ag : frame -> list value -> result (Sem.outcome * frame * list value))
      rb' rc' ag' (brk : option nat) fr mem :
  (forall fr mem, conv (rb fr mem) = rb' (fr, mem)) ->
  (forall fr mem, conv (rc fr mem) = rc' (fr, mem)) ->
  (forall fr mem, conv (ag fr mem) = ag' (fr, mem)) ->
  conv (r <~ rb fr mem ;;
        let '(o, fr1, mem1) := r in
        match o with
        | Sem.OBreak => Done (Sem.ONormal, fr1, mem1)
        | Sem.OReturn _ | Sem.OKill => Done (o, fr1, mem1)
        | Sem.ONormal | Sem.OContinue =>
          r2 <~ rc fr1 mem1 ;;
          let '(o2, fr2, mem2) := r2 in
          match o2 with
          | Sem.ONormal =>
            match brk with
            | None => ag fr2 mem2
            | Some h =>
              bv <~ operand m f fr2 mem2 h ;;
              match bv with
              | VBool true => Done (Sem.ONormal, fr2, mem2)
              | VBool false => ag fr2 mem2
              | _ => Fail "break if: not a bool"
              end
            end
          | Sem.OReturn _ | Sem.OKill => Done (o2, fr2, mem2)
          | _ => Fail "break/continue escaping a continuing block"
          end
        end) =
  loop_step rb' rc' (match brk with Some h => Some (bool_of "break if: not a bool" h) | None => None end) ag' (fr, mem).
Proof.
  intros Hb Hc Ha. unfold loop_step. rewrite <- Hb.
  destruct (rb fr mem) as [[[o fr1] mem1]| |msg]; cbn [conv conv_o rbind fst snd]; try reflexivity.
  assert (Hgo :
    conv (r2 <~ rc fr1 mem1 ;;
          let '(o2, fr2, mem2) := r2 in
          match o2 with
          | Sem.ONormal =>
            match brk with
            | None => ag fr2 mem2
            | Some h =>
              bv <~ operand m f fr2 mem2 h ;;
              match bv with
              | VBool true => Done (Sem.ONormal, fr2, mem2)
              | VBool false => ag fr2 mem2
              | _ => Fail "break if: not a bool"
              end
            end
          | Sem.OReturn _ | Sem.OKill => Done (o2, fr2, mem2)
          | _ => Fail "break/continue escaping a continuing block"
          end) =
    (r2 <~ rc' (fr1, mem1) ;;
     match fst r2 with
     | Structured.ONormal =>
       match (match brk with Some h => Some (bool_of "break if: not a bool" h) | None => None end) with
       | None => ag' (snd r2)
       | Some c => b <~ c (snd r2) ;; if b : bool then Done (Structured.ONormal, snd r2) else ag' (snd r2)
       end
     | Structured.OReturn _ => Done r2
     | _ => Fail "break/continue escaping a continuing block"
     end)).
  { rewrite <- Hc. destruct (rc fr1 mem1) as [[[o2 fr2] mem2]| |msg]; cbn [conv conv_o rbind fst snd]; try reflexivity.
    destruct o2; cbn [conv conv_o rbind fst snd]; try reflexivity.
    destruct brk as [h|]; [|apply Ha].
    unfold bool_of. cbn [fst snd].
    destruct (operand m f fr2 mem2 h) as [bv| |msg]; cbn [conv conv_o rbind fst snd]; try reflexivity.
    destruct bv as [bb| | | | | | | |]; cbn [conv conv_o rbind fst snd]; try reflexivity. destruct bb; [reflexivity|apply Ha]. }
  destruct o; cbn [conv conv_o rbind fst snd]; try reflexivity; exact Hgo.
Qed.

Definition inst_at (n : nat) : Prop :=
  (forall b fr mem, conv (exec_block n m f b fr mem) = run_block n (tr_b b) (fr, mem)) /\
  (forall s fr mem, conv (exec_stmt n m f s fr mem) = run_stmt n (tr s) (fr, mem)) /\
  (forall cs fr mem, conv (exec_cases n m f cs fr mem) = run_cases n (tr_c cs) (fr, mem)) /\
  (forall body cont brk fr mem,
     conv (exec_loop n m f body cont brk fr mem) =
     run_loop n (tr_b body) (tr_b cont)
              (match brk with Some h => Some (bool_of "break if: not a bool" h) | None => None end) (fr, mem)).

Lemma tr_c_skipn i cs : skipn i (tr_c cs) = tr_c (skipn i cs).
Proof. apply skipn_map. Qed.

Theorem ir_is_generic : forall n, inst_at n.
Proof.
  induction n as [|n (IHb & IHs & IHc & IHl)]; [repeat split; intros; reflexivity|].
  repeat split.
  - (* blocks *)
    intros b fr mem. cbn [exec_block]. destruct b as [|s rest]; [reflexivity|].
    change (tr_b (s :: rest)) with (tr s :: tr_b rest). rewrite run_block_S_cons. unfold seq_step.
    rewrite <- IHs. destruct (exec_stmt n m f s fr mem) as [[[o fr'] mem']| |msg]; cbn [conv conv_o rbind fst snd]; try reflexivity.
    destruct o; cbn [conv conv_o rbind fst snd]; try reflexivity. apply IHb.
  - (* statements *)
    intros s fr mem.
    destruct s as [a b|blk|c acc rej|sel cases|body cont brk| | |rv| |fl|p v|p fn cmp v res|fn args res|t refs];
      try (apply leaf_conv; reflexivity).
    + (* Block *) cbn [exec_stmt tr]. rewrite run_stmt_S_block. apply IHb.
    + (* If *) cbn [exec_stmt tr]. rewrite run_stmt_S_if. unfold if_step, bool_of. cbn [fst snd].
      destruct (operand m f fr mem c) as [cv| |msg]; cbn [conv conv_o rbind fst snd]; try reflexivity.
      destruct cv as [bb| | | | | | | |]; cbn [conv conv_o rbind fst snd]; try reflexivity. destruct bb; apply IHb.
    + (* Switch *) cbn [exec_stmt tr].
      rewrite run_stmt_S_switch. fold (tr_c cases).
      unfold switch_step, sel_of. cbn [fst snd].
      destruct (operand m f fr mem sel) as [sv| |msg]; cbn [conv conv_o rbind fst snd]; try reflexivity.
      destruct (match find_case cases sv 0 with Some i => Some i | None => find_default cases 0 end) as [i|];
        [|reflexivity].
      rewrite tr_c_skipn, <- IHc.
      destruct (exec_cases n m f (skipn i cases) fr mem) as [[[o fr'] mem']| |msg]; cbn [conv conv_o rbind fst snd]; try reflexivity.
      destruct o; reflexivity.
    + (* Loop *) cbn [exec_stmt tr]. rewrite run_stmt_S_loop. apply IHl.
    + (* Break *) reflexivity.
    + (* Continue *) reflexivity.
    + (* Return *) destruct rv as [h|]; [|reflexivity]. cbn [exec_stmt tr].
      rewrite run_stmt_S_return. cbn [fst snd].
      destruct (operand m f fr mem h); reflexivity.
    + (* Kill *) reflexivity.
  - (* case lists *)
    intros cs fr mem. cbn [exec_cases]. destruct cs as [|[[sv body] ft] rest]; [reflexivity|].
    change (tr_c ((sv, body, ft) :: rest)) with ((tr_b body, ft) :: tr_c rest).
    rewrite run_cases_S_cons.
    unfold case_step. rewrite <- IHb.
    destruct (exec_block n m f body fr mem) as [[[o fr'] mem']| |msg]; cbn [conv conv_o rbind fst snd]; try reflexivity.
    destruct o; cbn [conv conv_o rbind fst snd]; try reflexivity. destruct ft; [apply IHc|reflexivity].
  - (* loops *)
    intros body cont brk fr mem. cbn [exec_loop]. rewrite run_loop_S.
    apply conv_loop_step; intros; [apply IHb|apply IHb|apply IHl].
Qed.

(* the rules of IR/Sem.v as instances of the generic combinators *)
Corollary ir_loop_is_generic_loop n body cont brk fr mem :
  conv (exec_stmt n m f (SLoop body cont brk) fr mem) =
  run_stmt n (Loop (tr_b body) (tr_b cont)
                   (match brk with Some h => Some (bool_of "break if: not a bool" h) | None => None end)) (fr, mem).
Proof. destruct (ir_is_generic n) as (_ & H & _). exact (H (SLoop body cont brk) fr mem). Qed.

Corollary ir_if_is_generic_if n c acc rej fr mem :
  conv (exec_stmt n m f (SIf c acc rej) fr mem) =
  run_stmt n (If (bool_of "if: condition is not a bool" c) (tr_b acc) (tr_b rej)) (fr, mem).
Proof. destruct (ir_is_generic n) as (_ & H & _). exact (H (SIf c acc rej) fr mem). Qed.

Corollary ir_switch_is_generic_switch n sel cases fr mem :
  conv (exec_stmt n m f (SSwitch sel cases) fr mem) =
  run_stmt n (Switch (sel_of sel cases) (tr_c cases)) (fr, mem).
Proof. destruct (ir_is_generic n) as (_ & H & _). exact (H (SSwitch sel cases) fr mem). Qed.

(* the primitives of a translated statement are fuel-monotone (IR/SemProps.mono_all), so the encoding theorems'
   monotonicity hypothesis holds for every translated IR block *)
Lemma leaf_mono s : mono_prim (leaf s).
Proof.
  intros n n' st Hle. unfold leaf. apply Structured.le_res_bind; [|intros x; apply Structured.le_res_refl].
  destruct (SemProps.mono_all (S n) (S n') ltac:(lia)) as (_ & Hs & _).
  intros x Hx. exact (Hs m f s (fst st) (snd st) x Hx).
Qed.

Lemma tr_mono : forall s, mono_s (tr s).
Proof.
  fix IH 1. intros s.
  assert (Hb : forall b, mono_b (map tr b)).
  { induction b as [|x r IHb]; [exact I|]. split; [apply IH|exact IHb]. }
  destruct s as [a b|blk|c acc rej|sel cases|body cont brk| | |rv| |fl|p v|p fn cmp v res|fn args res|t refs];
    try (apply leaf_mono); cbn [tr].
  - apply Hb.
  - cbn. split; [exact I|]. split; apply Hb.
  - cbn. split; [exact I|]. induction cases as [|[[sv body] ft] r IHc]; [exact I|]. split; [apply Hb|exact IHc].
  - cbn. split; [apply Hb|]. split; [apply Hb|]. destruct brk; exact I.
  - exact I.
  - exact I.
  - destruct rv; exact I.
  - exact I.
Qed.

Lemma tr_b_mono b : mono_b (tr_b b).
Proof. induction b as [|x r IH]; [exact I|]. split; [apply tr_mono|exact IH]. Qed.

End Instance.
