(* Recogniser of the control-flow ENCODINGS in what naga actually emitted (tie V of the statement-level theorems of
   Target/*.v to /repo; run by checks/c03.py, c04.py, c05.py on every emitted text through the extracted tool
   `cfshape`, Extract/CfShapeExtract.v).

   Input: the CONTROL SKELETON of one emitted function body: the reader's AST (lib/glslread.py, hlslread.py,
   mslread.py) with every expression reduced to the identifiers it mentions, produced by lib/cfskel.py (trusted,
   tag renaming only).  Output: a list of events; an event "bad:..." means: this loop / switch / artefact
   variable is NOT in one of the shapes for which a theorem exists, i.e. the theorems no longer cover naga's output.

   Shapes accepted (and the theorem that covers each), L = the lens of the named artefact variable:
     loop_init      bool x = true; while(true) { if (!x) { G } x = false; B }       x in no other place
                    = LoopInit.loop_init_enc L B G' bi with G = G' ++ break_if bi     (loop_init_encoding_equiv)
     loop_bound     uint2 c = (2^32-1, 2^32-1); [bool x = true;] while(true) { if (all(c == 0)) { break; }
                    c -= uint2(c.y == 0u, 1u); ... }                                c in no other place
                    = LoopBound.bounded_enc C ...                                     (loop_bound_transparent)
     continue_forward   bool y = false; <switch | do{}while(false)> S; if (y) { continue; }
                    inside S: `y = true; break;` in place of continue, after a nested switch/do-while that
                    sets y: `if (y) { break; }`; y in no other place
                    = ContinueForward.fwd_enc                                          (continue_forward_equiv)
     continue_forward_unused   bool y = false; S   with no use of y (HLSL declares the flag for every switch
                    directly inside a loop)                                            (frame lemma: dead assignment)
     plain_loop     while(true) { B } = WhileTrue B = Loop B [] None                  (definition)
     do_once        do { B } while(false) = DoOnce B, no `continue` directly inside    (SwitchForms.single_body_switch_equiv)
     switch         switch with inserted breaks                                        (SwitchForms.case_breaks_equiv)
   Artefact variables are recognised by the name stems the writers use (namer.call): loop_init, loop_bound,
   should_continue.  Every occurrence of such a name outside its shape is an event "bad:<stem>:stray". *)
From Coq Require Import List ZArith String Bool Ascii.
Import ListNotations.
Require Import Naga.Base.Json.
Open Scope string_scope.
Open Scope list_scope.

Inductive kcond :=
| CNot (x : string)            (* !x *)
| CVar (x : string)            (* x *)
| CZero (x : string)           (* all(x == uint2(0u, 0u)) *)
| COther (ns : list string).

Inductive sk :=
| KDeclB (x : string) (v : option bool)        (* bool x = true|false; (None: other or no initialiser) *)
| KDeclC (x : string) (ok : bool)              (* uint2 / uvec2 x = all-ones (ok) *)
| KSetB (x : string) (v : bool)                (* x = true|false; *)
| KDec (x : string)                            (* x -= uint2(x.y == 0u, 1u); *)
| KLoop (body : list sk)                       (* while(true) *)
| KOnce (body : list sk)                       (* do { } while(false); *)
| KOLoop (kind : string) (ns : list string) (body : list sk)    (* any other loop *)
| KIf (c : kcond) (a b : list sk)
| KSwitch (ns : list string) (cases : list (list sk))
| KBreak
| KContinue
| KReturn (ns : list string)
| KBlock (b : list sk)
| KOther (ns : list string).

(* ---- decoding the skeleton JSON of lib/cfskel.py ---- *)
Definition strs (j : json) : option (list string) :=
  match j with JArr l => map_opt as_str l | _ => None end.

Definition dec_cond (j : json) : option kcond :=
  match j with
  | JArr [JStr "not"; JStr x] => Some (CNot x)
  | JArr [JStr "var"; JStr x] => Some (CVar x)
  | JArr [JStr "zero"; JStr x] => Some (CZero x)
  | JArr [JStr "other"; ns] => match strs ns with Some l => Some (COther l) | None => None end
  | _ => None
  end.

Fixpoint dec_sk (fuel : nat) (j : json) {struct fuel} : option sk :=
  match fuel with
  | O => None
  | S f =>
    let blk (b : json) : option (list sk) := match b with JArr l => map_opt (dec_sk f) l | _ => None end in
    match j with
    | JArr [JStr "declb"; JStr x; JBool v] => Some (KDeclB x (Some v))
    | JArr [JStr "declb"; JStr x; JNull] => Some (KDeclB x None)
    | JArr [JStr "declc"; JStr x; JBool ok] => Some (KDeclC x ok)
    | JArr [JStr "setb"; JStr x; JBool v] => Some (KSetB x v)
    | JArr [JStr "dec"; JStr x] => Some (KDec x)
    | JArr [JStr "loop"; b] => match blk b with Some l => Some (KLoop l) | None => None end
    | JArr [JStr "once"; b] => match blk b with Some l => Some (KOnce l) | None => None end
    | JArr [JStr "oloop"; JStr k; ns; b] =>
      match strs ns, blk b with Some n, Some l => Some (KOLoop k n l) | _, _ => None end
    | JArr [JStr "if"; c; a; b] =>
      match dec_cond c, blk a, blk b with Some c', Some a', Some b' => Some (KIf c' a' b') | _, _, _ => None end
    | JArr [JStr "switch"; ns; JArr cs] =>
      match strs ns, map_opt blk cs with Some n, Some l => Some (KSwitch n l) | _, _ => None end
    | JArr [JStr "break"] => Some KBreak
    | JArr [JStr "continue"] => Some KContinue
    | JArr [JStr "return"; ns] => match strs ns with Some n => Some (KReturn n) | None => None end
    | JArr [JStr "block"; b] => match blk b with Some l => Some (KBlock l) | None => None end
    | JArr [JStr "other"; ns] => match strs ns with Some n => Some (KOther n) | None => None end
    | _ => None
    end
  end.

(* ---- names ---- *)
Definition cond_names (c : kcond) : list string :=
  match c with CNot x | CVar x | CZero x => [x] | COther ns => ns end.

Fixpoint mentions (s : sk) : list string :=
  match s with
  | KDeclB x _ | KDeclC x _ | KSetB x _ | KDec x => [x]
  | KLoop b | KOnce b | KBlock b => flat_map mentions b
  | KOLoop _ ns b => ns ++ flat_map mentions b
  | KIf c a b => cond_names c ++ flat_map mentions a ++ flat_map mentions b
  | KSwitch ns cs => ns ++ flat_map (flat_map mentions) cs
  | KReturn ns | KOther ns => ns
  | KBreak | KContinue => []
  end.
Definition mentions_b (b : list sk) : list string := flat_map mentions b.

Fixpoint sk_size (s : sk) : nat :=
  match s with
  | KLoop b | KOnce b | KBlock b | KOLoop _ _ b => S (fold_right (fun x a => sk_size x + a) 0 b)
  | KIf _ a b => S (fold_right (fun x a => sk_size x + a) 0 a + fold_right (fun x a => sk_size x + a) 0 b)
  | KSwitch _ cs => S (fold_right (fun c a => S (fold_right (fun x a => sk_size x + a) 0 c) + a) 0 cs)
  | _ => 1
  end%nat.
Definition size_b (b : list sk) : nat := fold_right (fun x a => sk_size x + a)%nat 0%nat b.

Definition cat3 (a b c : string) : string := String.append a (String.append b c).
Definition mem (x : string) (l : list string) : bool := existsb (String.eqb x) l.

Definition is_gate (x : string) : bool := String.prefix "loop_init" x.
Definition is_ctr (x : string) : bool := String.prefix "loop_bound" x.
Definition is_fwd (x : string) : bool := String.prefix "should_continue" x.
Definition stem (x : string) : option string :=
  if is_gate x then Some "loop_init" else if is_ctr x then Some "loop_bound"
  else if is_fwd x then Some "should_continue" else None.

(* events for artefact names mentioned where no shape allows them *)
Definition stray (ns : list string) : list string :=
  flat_map (fun x => match stem x with Some s => [cat3 "bad:" s ":stray"] | None => [] end) ns.

(* the artefact variable must not occur in the listed remainder *)
Definition fresh (what x : string) (where_ : list string) : list string :=
  if mem x where_ then [cat3 "bad:" what ":variable-touched"] else [].

(* ---- views of the loop-body prefixes ---- *)
Definition as_bounded (b : list sk) : option (string * list sk) :=
  match b with
  | KIf (CZero c) [KBreak] [] :: KDec c' :: r => if String.eqb c c' then Some (c, r) else None
  | _ => None
  end.
Definition as_gated (b : list sk) : option (string * list sk * list sk) :=
  match b with
  | KIf (CNot x) g [] :: KSetB x' false :: r => if String.eqb x x' then Some (x, g, r) else None
  | _ => None
  end.

Record ctx := mkctx {
  c_fwd : option string;       (* inside a switch / do-while whose continues are forwarded through this flag *)
  c_once : bool                (* directly inside do { } while(false): a `continue` would be captured *)
}.
Definition loop_ctx : ctx := mkctx None false.

Definition is_container (s : sk) : bool := match s with KSwitch _ _ | KOnce _ => true | _ => false end.

Fixpoint check (fuel : nat) (cx : ctx) (b : list sk) {struct fuel} : list string :=
  match fuel with
  | O => match b with [] => [] | _ => ["bad:recogniser:fuel"] end
  | S f =>
    let container (cx' : ctx) (s : sk) : list string :=
      match s with
      | KSwitch ns cs => stray ns ++ flat_map (check f cx') cs
      | KOnce body => check f (mkctx (c_fwd cx') true) body
      | _ => []
      end in
    match b with
    | [] => []
    (* loop_bound [+ loop_init] *)
    | KDeclC c ok :: KDeclB x (Some true) :: KLoop lb :: rest =>
      match as_bounded lb with
      | Some (c', lb') =>
        match as_gated lb' with
        | Some (x', g, body) =>
          if String.eqb c c' && String.eqb x x' && is_gate x && is_ctr c then
            (if ok then ["loop_bound"] else ["bad:loop_bound:initial-value"]) ++ ["loop_init"] ++
            fresh "loop_bound" c (mentions_b g ++ mentions_b body ++ mentions_b rest) ++
            fresh "loop_init" x (mentions_b g ++ mentions_b body ++ mentions_b rest) ++
            check f loop_ctx g ++ check f loop_ctx body ++ check f cx rest
          else ["bad:loop_bound:shape"] ++ check f cx rest
        | None => ["bad:loop_init:shape"] ++ check f cx rest
        end
      | None => ["bad:loop_bound:shape"] ++ check f cx rest
      end
    | KDeclC c ok :: KLoop lb :: rest =>
      match as_bounded lb with
      | Some (c', body) =>
        if String.eqb c c' && is_ctr c then
          (if ok then ["loop_bound"] else ["bad:loop_bound:initial-value"]) ++ ["plain_loop"] ++
          fresh "loop_bound" c (mentions_b body ++ mentions_b rest) ++
          check f loop_ctx body ++ check f cx rest
        else ["bad:loop_bound:shape"] ++ check f cx rest
      | None => ["bad:loop_bound:shape"] ++ check f cx rest
      end
    | KDeclC c _ :: rest => ["bad:loop_bound:shape"] ++ check f cx rest
    (* loop_init *)
    | KDeclB x (Some true) :: KLoop lb :: rest =>
      if is_gate x then
        match as_gated lb with
        | Some (x', g, body) =>
          if String.eqb x x' then
            ["loop_init"] ++ fresh "loop_init" x (mentions_b g ++ mentions_b body ++ mentions_b rest) ++
            check f loop_ctx g ++ check f loop_ctx body ++ check f cx rest
          else ["bad:loop_init:shape"] ++ check f cx rest
        | None => ["bad:loop_init:shape"] ++ check f cx rest
        end
      else check f cx (KLoop lb :: rest)
    (* continue forwarding *)
    | KDeclB y (Some false) :: s :: rest =>
      if is_fwd y then
        if is_container s then
          match rest with
          | KIf (CVar y') [KContinue] [] :: rest' =>
            if String.eqb y y' then
              ["continue_forward"] ++ fresh "should_continue" y (mentions_b rest') ++
              container (mkctx (Some y) false) s ++ check f cx rest'
            else ["bad:should_continue:shape"] ++ check f cx rest
          | _ =>
            ["continue_forward_unused"] ++ fresh "should_continue" y (mentions s ++ mentions_b rest) ++
            container (mkctx None false) s ++ check f cx rest
          end
        else ["bad:should_continue:shape"] ++ check f cx (s :: rest)
      else check f cx (s :: rest)
    | KDeclB x _ :: rest =>
      match stem x with Some st => [cat3 "bad:" st ":shape"] | None => [] end ++ check f cx rest
    (* a forwarded continue: y = true; break; *)
    | KSetB y true :: KBreak :: rest =>
      match c_fwd cx with
      | Some y' => if String.eqb y y' then ["continue_forwarded"] else stray [y]
      | None => stray [y]
      end ++ check f cx rest
    | KSetB x _ :: rest => stray [x] ++ check f cx rest
    | KDec x :: rest => ["bad:loop_bound:stray"] ++ check f cx rest
    (* nested switch / do-while inside a forwarding container *)
    | KSwitch ns cs :: rest =>
      match c_fwd cx with
      | Some y =>
        match rest with
        | KIf (CVar y') [KBreak] [] :: rest' =>
          if String.eqb y y' then
            ["continue_forward_nested"] ++ container cx (KSwitch ns cs) ++ check f cx rest'
          else ["switch"] ++ container cx (KSwitch ns cs) ++ check f cx rest
        | _ =>
          (if mem y (mentions (KSwitch ns cs)) then ["bad:should_continue:nested-not-propagated"] else []) ++
          ["switch"] ++ container cx (KSwitch ns cs) ++ check f cx rest
        end
      | None => ["switch"] ++ container cx (KSwitch ns cs) ++ check f cx rest
      end
    | KOnce body :: rest =>
      match c_fwd cx with
      | Some y =>
        match rest with
        | KIf (CVar y') [KBreak] [] :: rest' =>
          if String.eqb y y' then
            ["continue_forward_nested"] ++ container cx (KOnce body) ++ check f cx rest'
          else ["do_once"] ++ container cx (KOnce body) ++ check f cx rest
        | _ =>
          (if mem y (mentions_b body) then ["bad:should_continue:nested-not-propagated"] else []) ++
          ["do_once"] ++ container cx (KOnce body) ++ check f cx rest
        end
      | None => ["do_once"] ++ container (mkctx None false) (KOnce body) ++ check f cx rest
      end
    | KLoop body :: rest => ["plain_loop"] ++ check f loop_ctx body ++ check f cx rest
    | KOLoop kind ns body :: rest =>
      [String.append "other_loop:" kind] ++ stray ns ++ check f loop_ctx body ++ check f cx rest
    | KIf c a b' :: rest => stray (cond_names c) ++ check f cx a ++ check f cx b' ++ check f cx rest
    | KContinue :: rest => (if c_once cx then ["bad:do_once:continue-captured"] else []) ++ check f cx rest
    | KBreak :: rest => check f cx rest
    | KReturn ns :: rest => stray ns ++ check f cx rest
    | KBlock b' :: rest => check f cx b' ++ check f cx rest
    | KOther ns :: rest => stray ns ++ check f cx rest
    end
  end.

Definition check_body (b : list sk) : list string := check (S (2 * size_b b + List.length b)) (mkctx None false) b.

(* the tool: {"body": [skeleton statements]} -> {"ok": bool, "events": [...]} ;  ok = no "bad:" event *)
Definition is_bad (e : string) : bool := String.prefix "bad:" e.

Fixpoint json_depth (fuel : nat) (j : json) : nat :=
  match fuel with
  | O => O
  | S f => match j with
           | JArr l => S (fold_right (fun x a => Nat.max (json_depth f x) a) O l)
           | _ => 1%nat
           end
  end.

Definition entry (j : json) : json :=
  match field "body" j with
  | Some (JArr l) =>
    match map_opt (dec_sk 4096) l with
    | Some b =>
      let ev := check_body b in
      JObj [("ok", JBool (negb (existsb is_bad ev))); ("events", jstrs ev)]
    | None => JObj [("ok", JBool false); ("events", jstrs ["bad:recogniser:decode"])]
    end
  | _ => JObj [("ok", JBool false); ("events", jstrs ["bad:recogniser:input"])]
  end.

(* ---- sanity: the shapes on concrete skeletons (what the three writers print) ---- *)
Example ex_loop_init :
  check_body [KDeclB "loop_init" (Some true);
              KLoop [KIf (CNot "loop_init") [KOther ["i"]; KIf (COther ["i"]) [KBreak] []] [];
                     KSetB "loop_init" false; KOther ["acc"; "i"]; KIf (COther ["acc"]) [KContinue] []]]
  = ["loop_init"].
Proof. vm_compute. reflexivity. Qed.

(* mutant: the gate emitted after the flag is cleared *)
Example ex_gate_after_clear :
  existsb is_bad (check_body [KDeclB "loop_init" (Some true);
              KLoop [KSetB "loop_init" false; KIf (CNot "loop_init") [KOther ["i"]] []; KOther ["acc"]]]) = true.
Proof. vm_compute. reflexivity. Qed.

(* mutant: the flag cleared inside the gate *)
Example ex_clear_inside_gate :
  existsb is_bad (check_body [KDeclB "loop_init" (Some true);
              KLoop [KIf (CNot "loop_init") [KOther ["i"]; KSetB "loop_init" false] []; KOther ["acc"]]]) = true.
Proof. vm_compute. reflexivity. Qed.

Example ex_bounded_gated :
  check_body [KDeclC "loop_bound" true; KDeclB "loop_init" (Some true);
              KLoop [KIf (CZero "loop_bound") [KBreak] []; KDec "loop_bound";
                     KIf (CNot "loop_init") [KOther ["i"]] []; KSetB "loop_init" false; KOther ["acc"]]]
  = ["loop_bound"; "loop_init"].
Proof. vm_compute. reflexivity. Qed.

(* mutant: counter decremented twice *)
Example ex_double_decrement :
  existsb is_bad (check_body [KDeclC "loop_bound" true;
              KLoop [KIf (CZero "loop_bound") [KBreak] []; KDec "loop_bound"; KDec "loop_bound"; KOther ["acc"]]]) = true.
Proof. vm_compute. reflexivity. Qed.

Example ex_continue_forward :
  check_body [KLoop [KDeclB "should_continue" (Some false);
                     KSwitch ["k"] [[KSetB "should_continue" true; KBreak]; [KOther ["acc"]; KBreak]];
                     KIf (CVar "should_continue") [KContinue] []; KOther ["acc"]]]
  = ["plain_loop"; "continue_forward"; "continue_forwarded"].
Proof. vm_compute. reflexivity. Qed.

(* the recorded GLSL finding: a regular switch inside a do-while switch forwards with a break that only leaves the
   inner switch *)
Example ex_nested_not_propagated :
  existsb is_bad (check_body [KLoop [KDeclB "should_continue" (Some false);
                     KOnce [KSwitch ["k"] [[KSetB "should_continue" true; KBreak]; [KBreak]]; KOther ["acc"]];
                     KIf (CVar "should_continue") [KContinue] []]]) = true.
Proof. vm_compute. reflexivity. Qed.
