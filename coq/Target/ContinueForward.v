(* Continue forwarding of the HLSL and GLSL back ends (hlsl|glsl internal/codegen/continue_forward.go, and
   writeSwitchStatement / writeSwitchAsDoWhile / writeContinueStatement): inside a loop, a switch S (HLSL: every
   switch; GLSL: a single-body switch written as do { } while(false)) is emitted as

       bool should_continue = false;
       S'                                  S' = S with every `continue` that belongs to the enclosing loop replaced by
       if (should_continue) { continue; }       should_continue = true; break;
                                           and, after every switch nested in S that contains such a continue,
                                                if (should_continue) { break; }

   Model: [fwd_s] / [fwd_b] / [fwd_c] (the transformation of statements / blocks / case lists), containers
   [fwd_switch] and [fwd_once].  Theorems (FORWARD direction, all case lists / bodies / states / fuels): whenever the
   IR switch terminates, the emitted form terminates with the same outcome - in particular Continue where the IR
   says Continue - and a state that differs at most in the flag (left false unless the outcome is Continue).
   Side conditions: the flag is fresh (independence from the lens F), primitives fuel-monotone.
   Not proved here (remaining): the converse (termination of the emitted form implies termination of the IR form);
   it follows the same induction on the fuel of the emitted form. *)
From Coq Require Import List Bool Lia PeanoNat.
Import ListNotations.
Require Import Naga.IR.Values Naga.Target.Structured.
Open Scope list_scope.
Open Scope nat_scope.

Section Forward.
Variables state R : Type.
Variable F : lens state bool.
Notation stmt := (stmt state R).
Notation block := (list stmt).
Notation case := (block * bool)%type.

Definition flag_set : cond state := test F (fun b => b).
Definition fwd_continue : block := [set_to F true; Break].
Definition propagate : stmt := If flag_set [Break] [].

Fixpoint fwd_s (s : stmt) : block :=
  match s with
  | Continue => fwd_continue
  | Block b => [Block (flat_map fwd_s b)]
  | If c a b => [If c (flat_map fwd_s a) (flat_map fwd_s b)]
  | Switch sel cs =>
    let cs' := map (fun c : case => (flat_map fwd_s (fst c), snd c)) cs in
    if may_cont_c cs then [Switch sel cs'; propagate] else [Switch sel cs']
  | s => [s]
  end.
Definition fwd_b (b : block) : block := flat_map fwd_s b.
Definition fwd_c (cs : list case) : list case := map (fun c : case => (fwd_b (fst c), snd c)) cs.

(* the two containers *)
Definition fwd_switch (sel : state -> result (option nat)) (cs : list case) : block :=
  [set_to F false; Switch sel (fwd_c cs); If flag_set [Continue] []].
Definition fwd_once (body : block) : block :=
  [set_to F false; DoOnce (fwd_b body); If flag_set [Continue] []].

(* ---- monotonicity is preserved ---- *)
Lemma mono_flat (b : block) : Forall (fun s => mono_s s -> mono_b (fwd_s s)) b -> mono_b b -> mono_b (fwd_b b).
Proof.
  induction 1 as [|x r Hx _ IH]; intros Hm; [exact I|].
  destruct Hm as [Hmx Hmr]. unfold fwd_b. cbn [flat_map]. apply all_b_app. split; [apply Hx; exact Hmx|apply IH; exact Hmr].
Qed.

Lemma mono_fwd_s : forall s, mono_s s -> mono_b (fwd_s s).
Proof.
  apply (@stmt_induction state R (fun s => mono_s s -> mono_b (fwd_s s))); intros; cbn [fwd_s]; try (split; [assumption|exact I]).
  - (* Block *) split; [|exact I]. apply (mono_flat _ H). exact H0.
  - (* If *) destruct H1 as (Hc & Ha & Hb). split; [|exact I]. cbn. split; [exact I|].
    split; [apply (mono_flat _ H); exact Ha|apply (mono_flat _ H0); exact Hb].
  - (* Switch *)
    destruct H0 as (_ & Hcs).
    assert (M : mono_c (map (fun c : case => (flat_map fwd_s (fst c), snd c)) cs)).
    { clear - H Hcs. induction H as [|c r Hc _ IH]; [exact I|].
      destruct Hcs as [Hb Hr]. split; [apply (mono_flat _ Hc); exact Hb|apply IH; exact Hr]. }
    destruct (may_cont_c cs).
    + split; [cbn; split; [exact I|exact M]|]. split; [cbn; tauto|exact I].
    + split; [cbn; split; [exact I|exact M]|exact I].
  - (* Continue *) unfold fwd_continue. split; [apply mono_assign|]. split; exact I.
Qed.

Lemma mono_fwd_b b : mono_b b -> mono_b (fwd_b b).
Proof.
  intros H. apply mono_flat; [|exact H]. apply Forall_forall. intros s _. apply mono_fwd_s.
Qed.

Lemma mono_fwd_c cs : mono_c cs -> mono_c (fwd_c cs).
Proof.
  induction cs as [|c r IH]; intros H; [exact I|]. destruct H as [Hb Hr].
  split; [apply mono_fwd_b; exact Hb|apply IH; exact Hr].
Qed.

Lemma fwd_c_skipn i cs : skipn i (fwd_c cs) = fwd_c (skipn i cs).
Proof. unfold fwd_c. apply skipn_map. Qed.

(* ---- an independent statement keeps the flag ---- *)
Lemma keeps_flag_b n (b : block) st o s : indep_b F b -> run_block n b st = Done (o, s) -> lget F s = lget F st.
Proof.
  intros Hi H. pose proof (frame_b F (lget F st) Hi H) as H2. rewrite l_set_get in H2.
  rewrite H in H2. injection H2 as E. rewrite E at 1. apply l_get_set.
Qed.
Lemma keeps_flag_s n (x : stmt) st o s : indep_s F x -> run_stmt n x st = Done (o, s) -> lget F s = lget F st.
Proof.
  intros Hi H. pose proof (frame_s F (lget F st) Hi H) as H2. rewrite l_set_get in H2.
  rewrite H in H2. injection H2 as E. rewrite E at 1. apply l_get_set.
Qed.
Lemma keeps_flag_c n (cs : list case) st o s : indep_c F cs -> run_cases n cs st = Done (o, s) -> lget F s = lget F st.
Proof.
  intros Hi H. pose proof (frame_c F (lget F st) Hi H) as H2. rewrite l_set_get in H2.
  rewrite H in H2. injection H2 as E. rewrite E at 1. apply l_get_set.
Qed.

(* ---- the simulation ---- *)
(* IR result (o, s) vs. result of the transformed code: a Continue has become "flag set + Break" *)
Definition rel (r r' : outcome R * state) : Prop :=
  (fst r = OContinue /\ r' = (OBreak, lset F true (snd r))) \/ (fst r <> OContinue /\ r' = r).

Lemma flag_clear_skip s1 : lget F s1 = false -> evals_b [propagate] s1 (ONormal, s1).
Proof.
  intros H. apply ev_single. apply ev_if_false; [|apply ev_nil]. unfold flag_set, test. rewrite H. reflexivity.
Qed.

Definition sim_at (n : nat) : Prop :=
  (forall b st o s, mono_b b -> indep_b F b -> lget F st = false -> run_block n b st = Done (o, s) ->
     exists r', evals_b (fwd_b b) st r' /\ rel (o, s) r') /\
  (forall x st o s, mono_s x -> indep_s F x -> lget F st = false -> run_stmt n x st = Done (o, s) ->
     exists r', evals_b (fwd_s x) st r' /\ rel (o, s) r') /\
  (forall cs st o s, mono_c cs -> indep_c F cs -> lget F st = false -> run_cases n cs st = Done (o, s) ->
     exists r', evals_c (fwd_c cs) st r' /\ rel (o, s) r').

Lemma rel_same o s : o <> OContinue -> rel (o, s) (o, s).
Proof. intros H. right. auto. Qed.

Lemma sim_all : forall n, sim_at n.
Proof.
  induction n as [|n (IHb & IHs & IHc)]; [repeat split; intros; discriminate|].
  repeat split.
  - (* blocks *)
    intros b st o s Mb Ib Hf H. destruct b as [|x rest].
    + cbn in H. injection H as <- <-. exists (ONormal, st). split; [apply ev_nil|apply rel_same; discriminate].
    + destruct Mb as [Mx Mr]. destruct Ib as [Ix Ir].
      apply run_block_cons_inv in H. destruct H as (k & o1 & s1 & Ek & Hx & Hrest). injection Ek as <-.
      destruct (IHs x st o1 s1 Mx Ix Hf Hx) as (r1 & E1 & R1).
      change (fwd_b (x :: rest)) with (fwd_s x ++ fwd_b rest).
      destruct Hrest as [[-> Hrest]|[Ho Er]].
      * destruct R1 as [[Hc _]|[_ ->]]; [discriminate|].
        assert (Hf1 : lget F s1 = false) by (rewrite (keeps_flag_s _ _ _ _ _ Ix Hx); exact Hf).
        destruct (IHb rest s1 o s Mr Ir Hf1 Hrest) as (r' & E' & R').
        exists r'. split; [|exact R'].
        eapply ev_app_normal; [apply mono_fwd_s; exact Mx|apply mono_fwd_b; exact Mr|exact E1|exact E'].
      * injection Er as -> ->. exists r1. split; [|exact R1].
        destruct r1 as [o1' s1']. apply ev_app_abrupt; [apply mono_fwd_s; exact Mx|apply mono_fwd_b; exact Mr| |exact E1].
        destruct R1 as [[_ E]|[_ E]]; injection E as -> _; [discriminate|exact Ho].
  - (* statements *)
    intros x st o s Mx Ix Hf H.
    destruct x as [p|b|c a b|sel cs|body cont bi|c body upd|body| | |rv].
    + (* Prim *) exists (o, s). split; [apply ev_single; exists (S n); exact H|].
      apply rel_same. apply run_prim_inv in H. destruct H as (? & ? & _ & _ & E). injection E as -> _. discriminate.
    + (* Block *) cbn [run_stmt] in H. destruct (IHb b st o s Mx Ix Hf H) as (r' & E' & R').
      exists r'. split; [|exact R']. cbn [fwd_s]. apply ev_single. apply ev_block. exact E'.
    + (* If *) destruct Mx as (_ & Ma & Mb). destruct Ix as (Ic & Ia & Ib).
      apply run_if_inv in H. destruct H as (k & bb & Ek & Hc & Hbr). injection Ek as <-.
      cbn [fwd_s]. destruct bb.
      * destruct (IHb a st o s Ma Ia Hf Hbr) as (r' & E' & R'). exists r'. split; [|exact R'].
        apply ev_single. apply ev_if_true; [exact Hc|exact E'].
      * destruct (IHb b st o s Mb Ib Hf Hbr) as (r' & E' & R'). exists r'. split; [|exact R'].
        apply ev_single. apply ev_if_false; [exact Hc|exact E'].
    + (* Switch *) destruct Mx as (_ & Mcs). destruct Ix as (Isel & Ics).
      apply run_switch_inv in H. destruct H as (k & i & Ek & Hsel & H). injection Ek as <-.
      cbn [fwd_s]. change (map (fun c : case => (flat_map fwd_s (fst c), snd c)) cs) with (fwd_c cs).
      assert (Msw : mono_s (Switch sel (fwd_c cs))) by (cbn; split; [exact I|apply mono_fwd_c; exact Mcs]).
      assert (Mpr : mono_b [propagate]) by (split; [cbn; tauto|exact I]).
      destruct i as [i|].
      * destruct H as ([o1 s1] & Hc & ->).
        assert (Mk : mono_c (skipn i cs)) by (apply all_c_skipn; exact Mcs).
        assert (Ik : indep_c F (skipn i cs)) by (apply all_c_skipn; exact Ics).
        destruct (IHc (skipn i cs) st o1 s1 Mk Ik Hf Hc) as (r1 & E1 & R1).
        rewrite <- fwd_c_skipn in E1.
        assert (Hf1 : lget F s1 = false) by (rewrite (keeps_flag_c _ _ _ _ _ Ik Hc); exact Hf).
        pose proof (ev_switch_some sel (fwd_c cs) Hsel E1) as Esw.
        destruct R1 as [[Eo ->]|[No ->]]; cbn [fst snd] in *.
        -- (* a continue inside: forwarded *)
           subst o1. unfold unbreak in Esw. cbn [fst snd] in Esw.
           assert (Hmc : may_cont_c cs = true).
           { destruct (may_cont_c cs) eqn:E; [reflexivity|]. exfalso.
             apply (no_continue_c (may_cont_c_skipn i cs E) Hc). reflexivity. }
           rewrite Hmc. exists (OBreak, lset F true s1). split; [|left; auto].
           eapply ev_cons_normal; [exact Msw|exact Mpr|exact Esw|].
           apply ev_single. apply ev_if_true; [unfold flag_set, test; rewrite l_get_set; reflexivity|].
           apply ev_cons_abrupt; [discriminate|apply ev_break].
        -- exists (unbreak (o1, s1)). split; [|apply rel_same; destruct o1; cbn; congruence].
           destruct (may_cont_c cs); [|apply ev_single; exact Esw].
           destruct o1; unfold unbreak in *; cbn [fst snd] in *.
           ++ eapply ev_cons_normal; [exact Msw|exact Mpr|exact Esw|apply flag_clear_skip; exact Hf1].
           ++ eapply ev_cons_normal; [exact Msw|exact Mpr|exact Esw|apply flag_clear_skip; exact Hf1].
           ++ congruence.
           ++ apply ev_cons_abrupt; [discriminate|exact Esw].
      * injection H as -> ->. exists (ONormal, st). split; [|apply rel_same; discriminate].
        pose proof (ev_switch_none sel (fwd_c cs) Hsel) as Esw.
        destruct (may_cont_c cs); [|apply ev_single; exact Esw].
        eapply ev_cons_normal; [exact Msw|exact Mpr|exact Esw|apply flag_clear_skip; exact Hf].
    + (* Loop *) exists (o, s). split; [apply ev_single; exists (S n); exact H|].
      apply rel_same. cbn [run_stmt] in H. apply run_loop_final in H. destruct H as [->|[v ->]]; discriminate.
    + (* While *) exists (o, s). split; [apply ev_single; exists (S n); exact H|].
      apply rel_same. cbn [run_stmt] in H. apply run_while_final in H. destruct H as [->|[v ->]]; discriminate.
    + (* DoOnce *) exists (o, s). split; [apply ev_single; exists (S n); exact H|].
      apply rel_same. cbn [run_stmt] in H. unfold doonce_step in H. apply rbind_done in H.
      destruct H as ([o1 s1] & _ & H). injection H as <- _. destruct o1; discriminate.
    + (* Break *) exists (o, s). split; [apply ev_single; exists (S n); exact H|].
      apply rel_same. cbn in H. injection H as <- _. discriminate.
    + (* Continue *) cbn in H. injection H as <- <-. exists (OBreak, lset F true st). split; [|left; auto].
      cbn [fwd_s]. unfold fwd_continue.
      eapply ev_cons_normal; [apply mono_assign|split; exact I|apply ev_assign|].
      apply ev_single. apply ev_break.
    + (* Return *) exists (o, s). split; [apply ev_single; exists (S n); exact H|].
      apply rel_same. cbn in H. apply rbind_done in H. destruct H as (? & _ & H). injection H as <- _. discriminate.
  - (* case lists *)
    intros cs st o s Mcs Ics Hf H. destruct cs as [|[body ft] rest].
    + cbn in H. injection H as <- <-. exists (ONormal, st). split; [apply ev_cases_nil|apply rel_same; discriminate].
    + destruct Mcs as [Mb Mr]. destruct Ics as [Ib Ir]. cbn [fst] in Mb, Ib.
      cbn [run_cases] in H. unfold case_step in H. apply rbind_done in H. destruct H as ([o1 s1] & Hb & H).
      cbn [fst snd] in H.
      destruct (IHb body st o1 s1 Mb Ib Hf Hb) as (r1 & E1 & R1).
      change (fwd_c ((body, ft) :: rest)) with ((fwd_b body, ft) :: fwd_c rest).
      destruct o1.
      * destruct R1 as [[Hc _]|[_ ->]]; [discriminate|]. destruct ft.
        -- assert (Hf1 : lget F s1 = false) by (rewrite (keeps_flag_b _ _ _ _ _ Ib Hb); exact Hf).
           destruct (IHc rest s1 o s Mr Ir Hf1 H) as (r' & E' & R'). exists r'. split; [|exact R'].
           apply ev_cases_fall with (s1 := s1); [apply mono_fwd_b; exact Mb|apply mono_fwd_c; exact Mr|exact E1|exact E'].
        -- injection H as <- <-. exists (ONormal, s1). split; [|apply rel_same; discriminate].
           apply ev_cases_stop; [exact E1|right; reflexivity].
      * injection H as <- <-. destruct R1 as [[Hc _]|[_ ->]]; [discriminate|].
        exists (OBreak, s1). split; [|apply rel_same; discriminate]. apply ev_cases_stop; [exact E1|left; discriminate].
      * injection H as <- <-. destruct R1 as [[_ ->]|[Hc _]]; [|cbn in Hc; congruence].
        exists (OBreak, lset F true s1). split; [|left; auto]. apply ev_cases_stop; [exact E1|left; discriminate].
      * injection H as <- <-. destruct R1 as [[Hc _]|[_ ->]]; [discriminate|].
        exists (OReturn r, s1). split; [|apply rel_same; discriminate]. apply ev_cases_stop; [exact E1|left; discriminate].
Qed.


Definition is_cont (o : outcome R) : bool := match o with OContinue => true | _ => false end.

Lemma tail_if_continue s1 : lget F s1 = false -> evals_b ([If flag_set [Continue] []] : block) s1 (ONormal, s1).
Proof.
  intros H. apply ev_single. apply ev_if_false; [|apply ev_nil]. unfold flag_set, test. rewrite H. reflexivity.
Qed.

(* T1: a switch inside a loop, HLSL form *)
Theorem continue_forward_switch n sel (cs : list case) st o s :
  mono_c cs -> indep_c F cs -> indep_fn F sel ->
  run_stmt n (Switch sel cs) st = Done (o, s) ->
  evals_b (fwd_switch sel cs) st (o, lset F (is_cont o) s).
Proof.
  intros Mcs Ics Isel H.
  assert (Msw : mono_s (Switch sel (fwd_c cs))) by (cbn; split; [exact I|apply mono_fwd_c; exact Mcs]).
  assert (Mtl : mono_b ([If flag_set [Continue] []] : block)) by (split; [cbn; tauto|exact I]).
  assert (Mrest : mono_b [Switch sel (fwd_c cs); If flag_set [Continue] []]) by (split; [exact Msw|exact Mtl]).
  unfold fwd_switch. eapply ev_cons_normal; [apply mono_assign|exact Mrest|apply ev_assign|]. cbn beta.
  apply run_switch_inv in H. destruct H as (k & i & -> & Hsel & H).
  assert (Hsel' : sel (lset F false st) = Done i) by (rewrite (Isel false st); exact Hsel).
  destruct i as [i|].
  - destruct H as ([o1 s1] & Hc & E). unfold unbreak in E. cbn [fst snd] in E. injection E as -> ->.
    assert (Mk : mono_c (skipn i cs)) by (apply all_c_skipn; exact Mcs).
    assert (Ik : indep_c F (skipn i cs)) by (apply all_c_skipn; exact Ics).
    pose proof (frame_c F false Ik Hc) as Hc'.
    destruct (sim_all k) as (_ & _ & Sc).
    destruct (Sc (skipn i cs) (lset F false st) o1 (lset F false s1) Mk Ik (l_get_set F false st) Hc') as (r1 & E1 & R1).
    rewrite <- fwd_c_skipn in E1.
    pose proof (ev_switch_some sel (fwd_c cs) Hsel' E1) as Esw.
    destruct R1 as [[Eo ->]|[No ->]]; cbn [fst snd] in *; unfold unbreak in Esw; cbn [fst snd] in Esw.
    + subst o1. cbn [is_cont]. rewrite l_set_set in Esw.
      eapply ev_cons_normal; [exact Msw|exact Mtl|exact Esw|].
      apply ev_single. apply ev_if_true; [unfold flag_set, test; rewrite l_get_set; reflexivity|].
      apply ev_cons_abrupt; [discriminate|apply ev_continue].
    + destruct o1; cbn [is_cont] in *.
      * eapply ev_cons_normal; [exact Msw|exact Mtl|exact Esw|apply tail_if_continue; apply l_get_set].
      * eapply ev_cons_normal; [exact Msw|exact Mtl|exact Esw|apply tail_if_continue; apply l_get_set].
      * congruence.
      * apply ev_cons_abrupt; [discriminate|exact Esw].
  - injection H as -> ->. cbn [is_cont].
    eapply ev_cons_normal; [exact Msw|exact Mtl|apply (ev_switch_none sel (fwd_c cs) Hsel')|].
    apply tail_if_continue. apply l_get_set.
Qed.

(* T2: a single-body switch inside a loop, written as do { } while(false) (GLSL and HLSL): the IR meaning of such a
   switch is "the body, a Break ends the switch" (SwitchForms.single_body_switch) *)
Definition unbreak_o (o : outcome R) : outcome R := match o with OBreak => ONormal | o => o end.

Theorem continue_forward_once n (body : block) st o1 s :
  mono_b body -> indep_b F body ->
  run_block n body st = Done (o1, s) ->
  evals_b (fwd_once body) st (unbreak_o o1, lset F (is_cont o1) s).
Proof.
  intros Mb Ib H.
  assert (Mdo : mono_s (DoOnce (fwd_b body))) by (cbn; apply mono_fwd_b; exact Mb).
  assert (Mtl : mono_b ([If flag_set [Continue] []] : block)) by (split; [cbn; tauto|exact I]).
  assert (Mrest : mono_b [DoOnce (fwd_b body); If flag_set [Continue] []]) by (split; [exact Mdo|exact Mtl]).
  unfold fwd_once. eapply ev_cons_normal; [apply mono_assign|exact Mrest|apply ev_assign|]. cbn beta.
  pose proof (frame_b F false Ib H) as H'.
  destruct (sim_all n) as (Sb & _ & _).
  destruct (Sb body (lset F false st) o1 (lset F false s) Mb Ib (l_get_set F false st) H') as (r1 & E1 & R1).
  destruct R1 as [[Eo ->]|[No ->]]; cbn [fst snd] in *.
  - subst o1. cbn [is_cont unbreak_o]. rewrite l_set_set in E1.
    pose proof (ev_doonce E1) as Edo. cbn [demote] in Edo.
    eapply ev_cons_normal; [exact Mdo|exact Mtl|exact Edo|].
    apply ev_single. apply ev_if_true; [unfold flag_set, test; rewrite l_get_set; reflexivity|].
    apply ev_cons_abrupt; [discriminate|apply ev_continue].
  - pose proof (ev_doonce E1) as Edo.
    destruct o1; cbn [is_cont unbreak_o demote] in *.
    + eapply ev_cons_normal; [exact Mdo|exact Mtl|exact Edo|apply tail_if_continue; apply l_get_set].
    + eapply ev_cons_normal; [exact Mdo|exact Mtl|exact Edo|apply tail_if_continue; apply l_get_set].
    + congruence.
    + apply ev_cons_abrupt; [discriminate|exact Edo].
Qed.

End Forward.

Arguments fwd_switch {state R} F sel cs.
Arguments fwd_once {state R} F body.
Arguments fwd_b {state R} F b.
Arguments fwd_c {state R} F cs.
Arguments is_cont {R} o.
Arguments unbreak_o {R} o.
