(* Desugarings of the WGSL lowerer (wgsl/internal/lower/lower.go lowerFor / lowerWhile / lowerLogicalShortCircuit):
   (1) while (c) body  and  for (init; c; upd) body   become
         [init;] Loop { body = [ if c {} else { break } ; Block body ] ; continuing = upd ; break_if = none }
       [While c body upd] is the direct (C / WGSL) meaning of the loop: test c, run body, run upd, repeat.
       Theorems with an EXACT fuel relation, all c / body / upd / states / fuels:
         while_desugar_forward :  run n (While ..) = Done r -> run (4 + n) (lowered) = Done r
         while_desugar_converse:  run n (lowered)  = Done r -> run n (While ..)     = Done r
   (2) a && b (b possibly with statements sb, e.g. a call)  becomes
         if a { sb ; t = b } else { t = false }          a || b:   if !a { sb ; t = b } else { t = true }
       with a fresh bool local t; the value is then read from t.  [short_circuit_and/or]: the emitted statement
       terminates normally in state X iff X = (t := v) s' where (v, s') is the short-circuit value and state. *)
From Coq Require Import List Bool Lia PeanoNat.
Import ListNotations.
Require Import Naga.IR.Values Naga.Target.Structured.
Open Scope list_scope.
Open Scope nat_scope.

Section WhileDesugar.
Variables state R : Type.
Notation stmt := (stmt state R).
Notation block := (list stmt).
Variable c : cond state.
Variables body upd : block.
Hypothesis Mb : mono_b body.
Hypothesis Mu : mono_b upd.

Definition guard : stmt := If c [] [Break].
Definition lowered_body : block := [guard; Block body].
Definition lowered : stmt := Loop lowered_body upd None.

Lemma lowered_body_true k st r :
  c st = Done true -> run_block k body st = Done r -> run_block (4 + k) lowered_body st = Done r.
Proof.
  intros Hc Hb. change (4 + k) with (S (S (S (S k)))). unfold lowered_body, guard.
  rewrite run_block_S_cons, run_stmt_S_if. unfold if_step, seq_step. rewrite Hc. cbn [rbind].
  rewrite run_block_S_nil. cbn [rbind fst snd].
  rewrite run_block_S_cons, run_stmt_S_block. unfold seq_step.
  assert (Hle : k <= S k) by lia.
  rewrite (run_block_mono Mb Hle Hb). cbn [rbind].
  destruct r as [o s1]. destruct o; reflexivity.
Qed.

Lemma lowered_body_false k st :
  c st = Done false -> run_block (4 + k) lowered_body st = Done (OBreak, st).
Proof.
  intros Hc. change (4 + k) with (S (S (S (S k)))). unfold lowered_body, guard.
  rewrite run_block_S_cons, run_stmt_S_if. unfold if_step, seq_step. rewrite Hc. cbn [rbind].
  rewrite run_block_S_cons, run_stmt_S_break. reflexivity.
Qed.

Lemma lowered_body_inv k st r :
  run_block k lowered_body st = Done r ->
  exists b, c st = Done b /\ ((b = false /\ r = (OBreak, st)) \/ (b = true /\ run_block k body st = Done r)).
Proof.
  intros H. unfold lowered_body in H.
  apply run_block_cons_inv in H. destruct H as (k1 & og & sg & -> & Hg & Hrest).
  apply run_if_inv in Hg. destruct Hg as (k2 & b & -> & Hc & Hbr). exists b. split; [exact Hc|].
  destruct b.
  - right. split; [reflexivity|]. apply run_block_nil_inv in Hbr. injection Hbr as -> ->.
    destruct Hrest as [[_ Hrest]|[Hx _]]; [|congruence].
    apply run_block_cons_inv in Hrest. destruct Hrest as (k3 & ob & sb & Ek & Hblk & Hend). injection Ek as ->.
    destruct k3 as [|k4]; [discriminate|]. rewrite run_stmt_S_block in Hblk.
    assert (Hr : r = (ob, sb)).
    { destruct Hend as [[-> Hend]|[_ Hend]]; [|exact Hend]. apply run_block_nil_inv in Hend. exact Hend. }
    subst r. refine (run_block_mono Mb _ Hblk). lia.
  - left. split; [reflexivity|].
    apply run_block_cons_inv in Hbr. destruct Hbr as (k3 & o3 & s3 & -> & Hbk & Hb3).
    destruct k3; [discriminate|]. rewrite run_stmt_S_break in Hbk. injection Hbk as <- <-.
    destruct Hb3 as [[Hx _]|[_ Hb3]]; [discriminate|]. injection Hb3 as -> ->.
    destruct Hrest as [[Hx _]|[_ Hrest]]; [discriminate|]. exact Hrest.
Qed.

Theorem while_desugar_forward_loop : forall n st r,
  run_while n c body upd st = Done r -> run_loop (4 + n) lowered_body upd None st = Done r.
Proof.
  induction n as [|k IH]; intros st r H; [discriminate|].
  rewrite run_while_S in H. unfold while_step in H. apply rbind_done in H. destruct H as (b & Hc & H).
  replace (4 + S k) with (S (4 + k)) by lia. rewrite run_loop_S. apply loop_step_spec.
  destruct b.
  - apply loop_step_spec in H.
    destruct H as [s1 Hb|v s1 Hb|o s1 v s2 Hb Hg Hu|o s1 s2 c0 Hb Hg Hu Hbi Hcb|o s1 s2 r Hb Hg Hu Hbi Ha].
    + apply LS_break. apply lowered_body_true; assumption.
    + apply LS_ret. apply lowered_body_true; assumption.
    + eapply LS_cret; [apply lowered_body_true; eassumption|exact Hg|]. refine (run_block_mono Mu _ Hu). lia.
    + discriminate.
    + eapply LS_again; [apply lowered_body_true; eassumption|exact Hg| |exact I|apply IH; exact Ha].
      refine (run_block_mono Mu _ Hu). lia.
  - injection H as <-. apply LS_break. apply lowered_body_false. exact Hc.
Qed.

Theorem while_desugar_converse_loop : forall n st r,
  run_loop n lowered_body upd None st = Done r -> run_while n c body upd st = Done r.
Proof.
  induction n as [|k IH]; intros st r H; [discriminate|].
  rewrite run_loop_S in H. apply loop_step_spec in H. rewrite run_while_S. unfold while_step.
  destruct H as [s1 Hb|v s1 Hb|o s1 v s2 Hb Hg Hu|o s1 s2 c0 Hb Hg Hu Hbi Hcb|o s1 s2 r Hb Hg Hu Hbi Ha];
    destruct (lowered_body_inv _ _ _ Hb) as (b & Hc & [[-> E]|[-> Hbody]]); rewrite Hc; cbn [rbind].
  - injection E as ->. reflexivity.
  - apply loop_step_spec. apply LS_break. exact Hbody.
  - discriminate.
  - apply loop_step_spec. apply LS_ret. exact Hbody.
  - injection E as -> _. destruct Hg; discriminate.
  - apply loop_step_spec. eapply LS_cret; eauto.
  - discriminate.
  - discriminate.
  - injection E as -> _. destruct Hg; discriminate.
  - apply loop_step_spec. eapply LS_again; eauto.
Qed.

Theorem while_desugar_forward n st r :
  run_stmt n (While c body upd) st = Done r -> run_stmt (4 + n) lowered st = Done r.
Proof.
  destruct n as [|k]; [discriminate|]. intros H. change (run_while k c body upd st = Done r) in H.
  replace (4 + S k) with (S (4 + k)) by lia. exact (while_desugar_forward_loop _ _ _ H).
Qed.

Theorem while_desugar_converse n st r :
  run_stmt n lowered st = Done r -> run_stmt n (While c body upd) st = Done r.
Proof.
  destruct n as [|k]; [discriminate|]. intros H. change (run_loop k lowered_body upd None st = Done r) in H.
  exact (while_desugar_converse_loop _ _ _ H).
Qed.

(* for (init; c; upd) body: the initialiser statements run first, in the enclosing block *)
Theorem for_desugar_equiv (init : block) st r :
  mono_b init ->
  (evals_b (init ++ [While c body upd]) st r <-> evals_b (init ++ [lowered]) st r).
Proof.
  intros Mi.
  assert (Mw : mono_b [While c body upd]) by (split; [cbn; tauto|exact I]).
  assert (Ml : mono_b [lowered]).
  { split; [|exact I]. cbn. split; [|split; [exact Mu|exact I]]. split; [cbn; tauto|]. split; [exact Mb|exact I]. }
  assert (Hsingle : forall s1 s2 : stmt, mono_b [s1] -> mono_b [s2] ->
            (forall n st r, run_stmt n s1 st = Done r -> exists m, run_stmt m s2 st = Done r) ->
            forall r, evals_b (init ++ [s1]) st r -> evals_b (init ++ [s2]) st r).
  { intros s1 s2 M1 M2 Hs r0 [n H]. apply run_block_app_inv in H; [|exact M1].
    destruct H as [(sm & Hi & Hl)|[Hne Hi]].
    - apply run_block_cons_inv in Hl. destruct Hl as (k & o & s' & -> & Hx & Hend).
      assert (Hr : r0 = (o, s')).
      { destruct Hend as [[-> Hend]|[_ Hend]]; [|exact Hend]. apply run_block_nil_inv in Hend. exact Hend. }
      subst r0. destruct (Hs _ _ _ Hx) as (m & Hm).
      eapply ev_app_normal; [exact Mi|exact M2|exists (S k); exact Hi|]. apply ev_single. exists m; exact Hm.
    - destruct r0 as [o s']. apply ev_app_abrupt; [exact Mi|exact M2|exact Hne|exists n; exact Hi]. }
  split.
  - apply Hsingle; [exact Mw|exact Ml|]. intros n s0 r0 H. exists (4 + n). apply while_desugar_forward; exact H.
  - apply Hsingle; [exact Ml|exact Mw|]. intros n s0 r0 H. exists n. apply while_desugar_converse; exact H.
Qed.

End WhileDesugar.

Section ShortCircuit.
Variables state R : Type.
Notation stmt := (stmt state R).
Notation block := (list stmt).
Variable T : lens state bool.            (* the fresh bool local *)
Variables a b : cond state.
Variable sb : block.                      (* statements that compute b's operands (Emit ranges, calls) *)
Hypothesis Msb : mono_b sb.

Definition store_cond (e : cond state) : stmt :=
  Prim (fun _ st => v <~ e st ;; Done (lset T v st)).
Definition notc (e : cond state) : cond state := fun st => v <~ e st ;; Done (negb v).

Definition and_enc : stmt := If a (sb ++ [store_cond b]) [set_to T false].
Definition or_enc : stmt := If (notc a) (sb ++ [store_cond b]) [set_to T true].

(* short-circuit value and state: the right operand (and its statements) only when the left does not decide *)
Definition sc_spec (decided : bool) (st : state) (v : bool) (s' : state) : Prop :=
  (a st = Done decided /\ v = decided /\ s' = st) \/
  (a st = Done (negb decided) /\ evals_b sb st (ONormal, s') /\ b s' = Done v).

Lemma mono_store e : mono_s (store_cond e).
Proof. intros n n' st _. apply le_res_refl. Qed.

Lemma rhs_forward st v s' :
  evals_b sb st (ONormal, s') -> b s' = Done v -> evals_b (sb ++ [store_cond b]) st (ONormal, lset T v s').
Proof.
  intros Hs Hb. eapply ev_app_normal; [exact Msb|split; [apply mono_store|exact I]|exact Hs|].
  apply ev_single. apply ev_prim with (k := 0). rewrite Hb. reflexivity.
Qed.

Lemma rhs_converse n st X :
  run_block n (sb ++ [store_cond b]) st = Done (ONormal, X) ->
  exists v s', evals_b sb st (ONormal, s') /\ b s' = Done v /\ X = lset T v s'.
Proof.
  intros H. apply run_block_app_inv in H; [|split; [apply mono_store|exact I]].
  destruct H as [(s1 & Hs & Hl)|[Hne _]]; [|cbn in Hne; congruence].
  apply run_block_cons_inv in Hl. destruct Hl as (k & o & s2 & -> & Hp & Hend).
  apply run_prim_inv in Hp. destruct Hp as (k1 & s3 & -> & Hp & E). injection E as -> ->.
  apply rbind_done in Hp. destruct Hp as (v & Hb & Hp). injection Hp as <-.
  destruct Hend as [[_ Hend]|[Hx _]]; [|congruence]. apply run_block_nil_inv in Hend. injection Hend as ->.
  exists v, s1. split; [exists (S (S k1)); exact Hs|auto].
Qed.

Theorem short_circuit_and st X :
  evals_s and_enc st (ONormal, X) <-> exists v s', sc_spec false st v s' /\ X = lset T v s'.
Proof.
  split.
  - intros [n H]. apply run_if_inv in H. destruct H as (k & bb & -> & Ha & H). destruct bb.
    + destruct (rhs_converse _ _ _ H) as (v & s' & Hs & Hb & ->). exists v, s'. split; [right; auto|reflexivity].
    + apply run_block_cons_inv in H. destruct H as (k1 & o & s1 & -> & Hset & Hend).
      destruct k1; [discriminate|]. unfold set_to in Hset. rewrite run_assign in Hset. injection Hset as <- <-.
      destruct Hend as [[_ Hend]|[Hx _]]; [|congruence]. apply run_block_nil_inv in Hend. injection Hend as ->.
      exists false, st. split; [left; auto|reflexivity].
  - intros (v & s' & [(Ha & -> & ->)|(Ha & Hs & Hb)] & ->).
    + apply ev_if_false; [exact Ha|]. apply ev_single. apply ev_assign.
    + apply ev_if_true; [exact Ha|]. apply rhs_forward; assumption.
Qed.

Theorem short_circuit_or st X :
  evals_s or_enc st (ONormal, X) <-> exists v s', sc_spec true st v s' /\ X = lset T v s'.
Proof.
  split.
  - intros [n H]. apply run_if_inv in H. destruct H as (k & bb & -> & Ha & H).
    unfold notc in Ha. apply rbind_done in Ha. destruct Ha as (av & Ha & E). injection E as <-.
    destruct av; cbn [negb] in H.
    + apply run_block_cons_inv in H. destruct H as (k1 & o & s1 & -> & Hset & Hend).
      destruct k1; [discriminate|]. unfold set_to in Hset. rewrite run_assign in Hset. injection Hset as <- <-.
      destruct Hend as [[_ Hend]|[Hx _]]; [|congruence]. apply run_block_nil_inv in Hend. injection Hend as ->.
      exists true, st. split; [left; auto|reflexivity].
    + destruct (rhs_converse _ _ _ H) as (v & s' & Hs & Hb & ->). exists v, s'. split; [right; auto|reflexivity].
  - intros (v & s' & [(Ha & -> & ->)|(Ha & Hs & Hb)] & ->).
    + apply ev_if_false; [unfold notc; rewrite Ha; reflexivity|]. apply ev_single. apply ev_assign.
    + apply ev_if_true; [unfold notc; rewrite Ha; reflexivity|]. apply rhs_forward; assumption.
Qed.

End ShortCircuit.

Arguments lowered {state R} c body upd.
Arguments and_enc {state R} T a b sb.
Arguments or_enc {state R} T a b sb.
Arguments sc_spec {state R} a b sb decided st v s'.
