(* The loop-bounding counter of the HLSL and MSL back ends (ForceLoopBounding; hlsl/msl internal/codegen/statements.go
   writeLoopStatement / writeLoop) and of the SPIR-V back end:

       uint2 loop_bound = uint2(4294967295u, 4294967295u);
       while(true) {
           if (all(loop_bound == uint2(0u, 0u))) { break; }
           loop_bound -= uint2(loop_bound.y == 0u, 1u);
           X                                            (X = the loop_init gate ... body, or just the body)
       }

   (x, y) is a 64-bit down counter x * 2^32 + y starting at 2^64 - 1, decremented once per iteration.
   Theorem: for every X that does not touch the counter, every state and every number k of iterations: if
   while(true) { X } terminates in k < 2^64 iterations, the bounded loop terminates in k iterations with the same
   outcome and a state that differs at most in the counter; and conversely.  The counter arithmetic is the
   wrapping 32-bit arithmetic of Base/Bits32.v (sub32), exactly what the emitted text computes. *)
From Coq Require Import List Bool ZArith Lia PeanoNat.
Import ListNotations.
Require Import Naga.Base.Bits32 Naga.IR.Values Naga.Target.Structured.
Open Scope list_scope.

Section LoopBound.
Variables state R : Type.
Variable C : lens state (Z * Z).
Notation stmt := (stmt state R).
Notation block := (list stmt).
Variable X : block.

Open Scope Z_scope.
Definition ctr_is_zero (p : Z * Z) : bool := (fst p =? 0) && (snd p =? 0).
Definition ctr_dec (p : Z * Z) : Z * Z := (sub32 (fst p) (if snd p =? 0 then 1 else 0), sub32 (snd p) 1).
Definition ctr_value (p : Z * Z) : Z := fst p * M32 + snd p.
Definition ctr_wf (p : Z * Z) : Prop := in32 (fst p) /\ in32 (snd p).
Definition ctr_start : Z * Z := (ALL_ONES, ALL_ONES).

Lemma ctr_start_wf : ctr_wf ctr_start.
Proof. unfold ctr_wf, ctr_start, in32, ALL_ONES, M32; cbn [fst snd]. lia. Qed.
Lemma ctr_start_value : ctr_value ctr_start = 2 ^ 64 - 1.
Proof. reflexivity. Qed.

Lemma ctr_zero_iff p : ctr_wf p -> (ctr_is_zero p = true <-> ctr_value p = 0).
Proof.
  destruct p as [x y]. unfold ctr_wf, ctr_is_zero, ctr_value, in32, M32; cbn [fst snd]. intros [Hx Hy].
  rewrite andb_true_iff, !Z.eqb_eq. split; [intros [-> ->]; reflexivity|]. intros H. split; nia.
Qed.

Lemma ctr_dec_spec p : ctr_wf p -> 0 < ctr_value p -> ctr_wf (ctr_dec p) /\ ctr_value (ctr_dec p) = ctr_value p - 1.
Proof.
  destruct p as [x y]. unfold ctr_wf, ctr_dec, ctr_value, in32, sub32, wrap; cbn [fst snd]. intros [Hx Hy] Hpos.
  destruct (Z.eqb_spec y 0) as [->|Hy0].
  - assert (Hx1 : 1 <= x) by (unfold M32 in *; nia).
    rewrite (Z.mod_small (x - 1) M32) by (unfold M32 in *; lia).
    replace ((0 - 1) mod M32) with (M32 - 1) by reflexivity.
    unfold M32 in *. lia.
  - rewrite (Z.mod_small (x - 0) M32) by (unfold M32 in *; lia).
    rewrite (Z.mod_small (y - 1) M32) by (unfold M32 in *; lia).
    unfold M32 in *. lia.
Qed.
Close Scope Z_scope.
Open Scope nat_scope.

Definition ctr_check : stmt := If (test C ctr_is_zero) [Break] [].
Definition ctr_step : stmt := assign C (fun st => ctr_dec (lget C st)).
Definition bounded_body : block := ctr_check :: ctr_step :: X.
(* what naga writes in front of / at the top of a loop under ForceLoopBounding *)
Definition bounded_enc : block := [set_to C ctr_start; WhileTrue bounded_body].

Hypothesis MX : mono_b X.
Hypothesis IX : indep_b C X.

Lemma mono_bounded_body : mono_b bounded_body.
Proof. split; [cbn; tauto|]. split; [apply mono_assign|exact MX]. Qed.

(* ---- while(true) { B } terminates in exactly k iterations ---- *)
Inductive iter_ev (B : block) : nat -> state -> outcome R * state -> Prop :=
| IT_break st s1 : evals_b B st (OBreak, s1) -> iter_ev B 1 st (ONormal, s1)
| IT_ret st v s1 : evals_b B st (OReturn v, s1) -> iter_ev B 1 st (OReturn v, s1)
| IT_again st o s1 k r : evals_b B st (o, s1) -> goes_on o -> iter_ev B k s1 r -> iter_ev B (S k) st r.

Lemma iter_ev_loop B k st r : mono_b B -> iter_ev B k st r -> evals_l B [] None st r.
Proof.
  intros MB H. induction H as [st s1 H|st v s1 H|st o s1 k r H Hg _ IH].
  - apply ev_whiletrue_break; exact H.
  - apply ev_whiletrue_ret; exact H.
  - eapply ev_whiletrue_again; eauto.
Qed.

(* the fuel bounds the number of iterations *)
Lemma loop_iter_ev B : forall n st r, run_loop n B [] None st = Done r -> exists k, k <= n /\ iter_ev B k st r.
Proof.
  induction n as [|n IH]; intros st r H; [discriminate|].
  apply run_whiletrue_inv in H. destruct H as (k & o & s1 & E & Hb & Hr). injection E as <-.
  destruct Hr as [[-> ->]|[(v & -> & ->)|[Hg Hl]]].
  - exists 1. split; [lia|]. apply IT_break. exists n; exact Hb.
  - exists 1. split; [lia|]. apply IT_ret. exists n; exact Hb.
  - destruct (IH s1 r Hl) as (k & Hk & Hi). exists (S k). split; [lia|].
    eapply IT_again; [exists n; exact Hb|exact Hg|exact Hi].
Qed.

(* ---- one iteration of the bounded loop while the counter is not zero ---- *)
Lemma bounded_iteration p st o s1 :
  ctr_wf p -> (0 < ctr_value p)%Z -> evals_b X st (o, s1) ->
  evals_b bounded_body (lset C p st) (o, lset C (ctr_dec p) s1).
Proof.
  intros Hwf Hpos HX.
  assert (Hz : ctr_is_zero p = false).
  { destruct (ctr_is_zero p) eqn:E; [|reflexivity]. apply ctr_zero_iff in E; [lia|exact Hwf]. }
  eapply ev_cons_normal; [cbn; tauto|split; [apply mono_assign|exact MX]| |].
  - apply ev_if_false; [|apply ev_nil]. unfold test. rewrite l_get_set, Hz. reflexivity.
  - eapply ev_cons_normal; [apply mono_assign|exact MX|apply ev_assign|].
    cbn. rewrite l_get_set, l_set_set. apply frame_ev_b; assumption.
Qed.

Lemma bounded_iteration_inv p st r :
  ctr_wf p -> (0 < ctr_value p)%Z -> evals_b bounded_body (lset C p st) r ->
  exists o s1, r = (o, lset C (ctr_dec p) s1) /\ evals_b X st (o, s1).
Proof.
  intros Hwf Hpos [n H].
  assert (Hz : ctr_is_zero p = false).
  { destruct (ctr_is_zero p) eqn:E; [|reflexivity]. apply ctr_zero_iff in E; [lia|exact Hwf]. }
  unfold bounded_body in H. apply run_block_cons_inv in H. destruct H as (k & oc & sc & -> & Hchk & Hrest).
  apply run_if_inv in Hchk. destruct Hchk as (k1 & bb & -> & Htest & Hbr).
  unfold test in Htest. rewrite l_get_set, Hz in Htest. injection Htest as <-.
  apply run_block_nil_inv in Hbr. injection Hbr as -> ->.
  destruct Hrest as [[_ Hrest]|[Hx _]]; [|congruence].
  apply run_block_cons_inv in Hrest. destruct Hrest as (k2 & od & sd & Ek & Hdec & Hrest).
  destruct k2 as [|k3]; [discriminate|]. unfold ctr_step in Hdec. rewrite run_assign in Hdec.
  injection Hdec as <- <-. rewrite l_get_set, l_set_set in Hrest.
  destruct Hrest as [[_ Hrest]|[Hx _]]; [|congruence].
  destruct r as [o s1']. destruct (frame_b_inv C IX Hrest) as (s1 & HX & ->).
  exists o, s1. split; [reflexivity|]. exists (S k3); exact HX.
Qed.

(* ---- transparency, forward ---- *)
Lemma bounded_forward k st o s' :
  iter_ev X k st (o, s') ->
  forall p, ctr_wf p -> (Z.of_nat k <= ctr_value p)%Z ->
  exists p', iter_ev bounded_body k (lset C p st) (o, lset C p' s').
Proof.
  intros H. remember (o, s') as r eqn:Er. revert o s' Er.
  induction H as [st s1 H|st v s1 H|st o1 s1 k r H Hg Hi IH]; intros o s' Er p Hwf Hk.
  - injection Er as <- <-. exists (ctr_dec p). apply IT_break. apply bounded_iteration; [exact Hwf|lia|exact H].
  - injection Er as <- <-. exists (ctr_dec p). apply IT_ret. apply bounded_iteration; [exact Hwf|lia|exact H].
  - destruct (ctr_dec_spec p Hwf ltac:(lia)) as [Hwf' Hv'].
    destruct (IH o s' Er (ctr_dec p) Hwf' ltac:(lia)) as (p' & Hi').
    exists p'. eapply IT_again; [apply bounded_iteration; [exact Hwf|lia|exact H]|exact Hg|exact Hi'].
Qed.

(* ---- transparency, converse ---- *)
Lemma bounded_converse k X0 r :
  iter_ev bounded_body k X0 r ->
  forall p st, X0 = lset C p st -> ctr_wf p -> (Z.of_nat k <= ctr_value p)%Z ->
  exists o s' p', r = (o, lset C p' s') /\ iter_ev X k st (o, s').
Proof.
  intros H.
  induction H as [X0 s1 H|X0 v s1 H|X0 o1 s1 k r H Hg Hi IH]; intros p st -> Hwf Hk;
    assert (Hpos : (0 < ctr_value p)%Z) by lia.
  - destruct (bounded_iteration_inv p st _ Hwf Hpos H) as (o & s & E & HX). injection E as <- ->.
    exists ONormal, s, (ctr_dec p). split; [reflexivity|]. apply IT_break; exact HX.
  - destruct (bounded_iteration_inv p st _ Hwf Hpos H) as (o & s & E & HX). injection E as <- ->.
    exists (OReturn v), s, (ctr_dec p). split; [reflexivity|]. apply IT_ret; exact HX.
  - destruct (bounded_iteration_inv p st _ Hwf Hpos H) as (o & s & E & HX). injection E as <- ->.
    destruct (ctr_dec_spec p Hwf Hpos) as [Hwf' Hv'].
    assert (Hk' : (Z.of_nat k <= ctr_value (ctr_dec p))%Z) by lia.
    destruct (IH (ctr_dec p) s eq_refl Hwf' Hk') as (o' & s' & p' & -> & Hi').
    exists o', s', p'. split; [reflexivity|]. eapply IT_again; eauto.
Qed.

(* ---- the emitted form, with the counter's declaration ---- *)
Theorem loop_bound_forward k st o s' :
  (Z.of_nat k < 2 ^ 64)%Z -> iter_ev X k st (o, s') ->
  exists p', evals_b bounded_enc st (o, lset C p' s').
Proof.
  intros Hk H.
  assert (Hv : (Z.of_nat k <= ctr_value ctr_start)%Z) by (rewrite ctr_start_value; lia).
  destruct (bounded_forward _ _ _ _ H ctr_start ctr_start_wf Hv) as (p' & Hi).
  exists p'. eapply ev_cons_normal; [apply mono_assign| |apply ev_assign|].
  - split; [|exact I]. cbn. split; [exact mono_bounded_body|split; exact I].
  - cbn. apply ev_single. apply ev_loop. apply (iter_ev_loop _ k); [exact mono_bounded_body|exact Hi].
Qed.

Theorem loop_bound_converse n st r :
  (Z.of_nat n < 2 ^ 64)%Z -> run_block n bounded_enc st = Done r ->
  exists o s' p', r = (o, lset C p' s') /\ evals_s (WhileTrue X) st (o, s').
Proof.
  intros Hn H. unfold bounded_enc in H.
  apply run_block_cons_inv in H. destruct H as (k & o0 & X0 & -> & Hset & Hrest).
  destruct k as [|k]; [discriminate|]. unfold set_to in Hset. rewrite run_assign in Hset. injection Hset as <- <-.
  destruct Hrest as [[_ Hrest]|[Hx _]]; [|congruence].
  apply run_block_cons_inv in Hrest. destruct Hrest as (k1 & ol & Xl & Ek & Hloop & Hend).
  injection Ek as ->.
  assert (Hr : r = (ol, Xl)).
  { destruct Hend as [[-> Hend]|[_ Hend]]; [|exact Hend]. apply run_block_nil_inv in Hend. exact Hend. }
  subst r. destruct k1 as [|k2]; [discriminate|].
  change (run_loop k2 bounded_body [] None (lset C ctr_start st) = Done (ol, Xl)) in Hloop.
  destruct (loop_iter_ev _ _ _ _ Hloop) as (j & Hj & Hi).
  assert (Hv : (Z.of_nat j <= ctr_value ctr_start)%Z) by (rewrite ctr_start_value; lia).
  destruct (bounded_converse _ _ _ Hi ctr_start st eq_refl ctr_start_wf Hv) as (o & s' & p' & E & Hs).
  exists o, s', p'. split; [exact E|]. apply ev_loop. apply (iter_ev_loop _ j); [exact MX|exact Hs].
Qed.

(* fuel form of the forward direction: a run of while(true) { X } with fuel n makes at most n iterations *)
Corollary loop_bound_transparent n st o s' :
  (Z.of_nat n < 2 ^ 64)%Z -> run_stmt n (WhileTrue X) st = Done (o, s') ->
  exists p', evals_b bounded_enc st (o, lset C p' s').
Proof.
  intros Hn H. destruct n as [|n]; [discriminate|].
  change (run_loop n X [] None st = Done (o, s')) in H.
  destruct (loop_iter_ev _ _ _ _ H) as (k & Hk & Hi).
  apply loop_bound_forward with (k := k); [lia|exact Hi].
Qed.

End LoopBound.

Arguments bounded_enc {state R} C X.
Arguments bounded_body {state R} C X.
Arguments iter_ev {state R} B _ _ _.
