(* The control-flow rules of the GLSL target interpreter (Glsl/Sem.v, the interpreter that executes naga's emitted
   GLSL in checks/c05.py) are the step combinators of Target/Structured.v: by unfolding, for every program, body,
   state and fuel
       while(true) body          = loop_step   (scoped body) (no continuing) None (the loop again)
       do body while(false)      = doonce_step (scoped body)
       if (c) a else b           = if_step     (condition c) (scoped a) (scoped b)
       case list of a switch     = case_step   (statements) fall-through (rest)
       statement list            = seq_step    (statement) (rest)
   where "scoped" is Glsl/Sem.v's exec_scoped (push a scope, run, pop it: declarations are an action on the state).
   So the theorems about Loop / WhileTrue / DoOnce / Switch / If of the generic language are statements about what
   glslrun executes.  (For the IR interpreter the whole interpreter is an instance: Target/IrInstance.v.) *)
From Coq Require Import List ZArith String Bool.
Import ListNotations.
Require Import Naga.IR.Values Naga.Glsl.Syntax Naga.Glsl.Ops Naga.Glsl.Sem.
Require Import Naga.Target.Structured.
Open Scope string_scope.
Open Scope list_scope.

Definition gret := option tv.

Definition gconv_o (o : Sem.outcome) : Structured.outcome gret :=
  match o with
  | Sem.ONormal => Structured.ONormal
  | Sem.OBreak => Structured.OBreak
  | Sem.OContinue => Structured.OContinue
  | Sem.OReturn v => Structured.OReturn v
  end.

Definition gconv (r : result (Sem.outcome * state)) : result (Structured.outcome gret * state) :=
  match r with
  | Done (o, st) => Done (gconv_o o, st)
  | OutOfFuel => OutOfFuel
  | Fail msg => Fail msg
  end.

Section Rules.
Variable P : prog.

(* unfolding equations of Glsl/Sem.v (by computation) *)
Lemma exec_stmts_S fu s rest st :
  exec_stmts P (S fu) (s :: rest) st =
  (r <~ exec_stmt P fu s st ;; let '(o, st') := r in
   match o with Sem.ONormal => exec_stmts P fu rest st' | _ => Done (o, st') end).
Proof. reflexivity. Qed.
Lemma exec_while_S fu c body st :
  exec_while P (S fu) c body st =
  (rc <~ eval_expr P st c ;;
   match snd rc with
   | VBool false => Done (Sem.ONormal, st)
   | VBool true =>
     r <~ exec_scoped P fu body st ;; let '(o, st') := r in
     match o with
     | Sem.OBreak => Done (Sem.ONormal, st')
     | Sem.OReturn _ => Done (o, st')
     | Sem.ONormal | Sem.OContinue => exec_while P fu c body st'
     end
   | _ => Ops.TYPE "while: condition must be a scalar bool"
   end).
Proof. reflexivity. Qed.
Lemma exec_dowhile_S fu body c st :
  exec_dowhile P (S fu) body c st =
  (r <~ exec_scoped P fu body st ;; let '(o, st') := r in
   match o with
   | Sem.OBreak => Done (Sem.ONormal, st')
   | Sem.OReturn _ => Done (o, st')
   | Sem.ONormal | Sem.OContinue =>
     rc <~ eval_expr P st' c ;;
     match snd rc with
     | VBool false => Done (Sem.ONormal, st')
     | VBool true => exec_dowhile P fu body c st'
     | _ => Ops.TYPE "do-while: condition must be a scalar bool"
     end
   end).
Proof. reflexivity. Qed.
Lemma exec_if_S fu c a b st :
  exec_stmt P (S fu) (SIf c a b) st =
  (rc <~ eval_expr P st c ;;
   match snd rc with
   | VBool true => exec_scoped P fu a st
   | VBool false => exec_scoped P fu b st
   | _ => Ops.TYPE "if: condition must be a scalar bool"
   end).
Proof. reflexivity. Qed.
Lemma exec_cases_S fu labels body rest st :
  exec_cases P (S fu) ((labels, body) :: rest) st =
  (r <~ exec_stmts P fu body st ;; let '(o, st') := r in
   match o with Sem.ONormal => exec_cases P fu rest st' | _ => Done (o, st') end).
Proof. reflexivity. Qed.

Definition gcond (c : expr) : cond state :=
  fun st => rc <~ eval_expr P st c ;;
            match snd rc with VBool b => Done b | _ => Ops.TYPE "if: condition must be a scalar bool" end.

Theorem glsl_stmts_is_seq_step fu s rest st :
  gconv (exec_stmts P (S fu) (s :: rest) st) =
  seq_step (gconv (exec_stmt P fu s st)) (fun s' => gconv (exec_stmts P fu rest s')).
Proof.
  rewrite exec_stmts_S. unfold seq_step.
  destruct (exec_stmt P fu s st) as [[o st']| |msg]; cbn [rbind gconv fst snd gconv_o]; try reflexivity.
  destruct o; reflexivity.
Qed.

Theorem glsl_while_true_is_loop_step fu body st :
  gconv (exec_while P (S fu) (EBool true) body st) =
  loop_step (fun s => gconv (exec_scoped P fu body s)) (fun s => Done (Structured.ONormal, s)) None
            (fun s => gconv (exec_while P fu (EBool true) body s)) st.
Proof.
  rewrite exec_while_S. cbn [eval_expr rbind snd]. unfold loop_step.
  destruct (exec_scoped P fu body st) as [[o st']| |msg]; cbn [rbind gconv fst snd gconv_o]; try reflexivity.
  destruct o; reflexivity.
Qed.

Theorem glsl_dowhile_false_is_doonce_step fu body st :
  gconv (exec_dowhile P (S fu) body (EBool false) st) =
  doonce_step (fun s => gconv (exec_scoped P fu body s)) st.
Proof.
  rewrite exec_dowhile_S. unfold doonce_step.
  destruct (exec_scoped P fu body st) as [[o st']| |msg]; cbn [rbind gconv fst snd gconv_o]; try reflexivity.
  destruct o; reflexivity.
Qed.

Theorem glsl_if_is_if_step fu c a b st :
  gconv (exec_stmt P (S fu) (SIf c a b) st) =
  if_step (gcond c) (fun s => gconv (exec_scoped P fu a s)) (fun s => gconv (exec_scoped P fu b s)) st.
Proof.
  rewrite exec_if_S. unfold if_step, gcond.
  destruct (eval_expr P st c) as [[t v]| |msg]; cbn [rbind gconv fst snd]; try reflexivity.
  destruct v as [bb| | | | | | | |]; try reflexivity. destruct bb; reflexivity.
Qed.

Theorem glsl_cases_is_case_step fu labels body rest st :
  gconv (exec_cases P (S fu) ((labels, body) :: rest) st) =
  case_step (fun s => gconv (exec_stmts P fu body s)) true (fun s => gconv (exec_cases P fu rest s)) st.
Proof.
  rewrite exec_cases_S. unfold case_step.
  destruct (exec_stmts P fu body st) as [[o st']| |msg]; cbn [rbind gconv fst snd gconv_o]; try reflexivity.
  destruct o; reflexivity.
Qed.

End Rules.
