(* Continue forwarding (Target/ContinueForward.v), the CONVERSE direction: every terminating run of the emitted
   form

       should_continue = false;  S'  ;  if (should_continue) { continue; }

   (S' = the switch, or the do { } while(false) body, with every loop `continue` replaced by
   `should_continue = true; break;` and `if (should_continue) { break; }` after nested switches) comes from a
   terminating run of the IR form with the related result.  Hence the emitted form cannot terminate (with any result)
   where the IR form diverges, runs out of fuel for every fuel, or fails.  Together with the forward theorems of
   ContinueForward.v this gives the two-direction statements [continue_forward_switch_iff] and
   [continue_forward_once_iff], for all case lists / bodies / states, under the same side conditions (the flag is
   fresh: independence from the lens F; primitives fuel-monotone).

   Proof: backward simulation [conv_all] by strong induction on the fuel of the EMITTED form (statement part first,
   then blocks by induction on the block using the statement part at the same fuel, then case lists). No axioms. *)
From Coq Require Import List Bool Lia PeanoNat Wf_nat.
Import ListNotations.
Require Import Naga.IR.Values Naga.Target.Structured Naga.Target.ContinueForward.
Open Scope list_scope.
Open Scope nat_scope.

Section Conv.
Variables state R : Type.
Variable F : lens state bool.
Notation stmt := (stmt state R).
Notation block := (list stmt).
Notation case := (block * bool)%type.
Notation fs := (fwd_s state R F).
Notation fb := (fwd_b F).
Notation fc := (fwd_c F).
Notation rel := (ContinueForward.rel state R F).
Notation fset := (flag_set state F).

(* ---- small inversions ---- *)
Lemma run_single_inv n (x : stmt) st r : run_block n [x] st = Done r -> exists k, k < n /\ run_stmt k x st = Done r.
Proof.
  intros H. apply run_block_cons_inv in H. destruct H as (k & o & s1 & -> & Hx & [[-> Hr]|[_ ->]]).
  - apply run_block_nil_inv in Hr. subst r. exists k. split; [lia|exact Hx].
  - exists k. split; [lia|exact Hx].
Qed.

Lemma no_continue_s n (x : stmt) st o s : may_cont x = false -> run_stmt n x st = Done (o, s) -> o <> OContinue.
Proof. apply (@no_continue_all state R n). Qed.

Lemma run_set_cons n v (rest : block) st r :
  run_block n (set_to F v :: rest) st = Done r -> exists k, n = S k /\ run_block k rest (lset F v st) = Done r.
Proof.
  intros H. apply run_block_cons_inv in H. destruct H as (k & o & s1 & -> & Hs & Hrest).
  unfold set_to, assign, Act in Hs. apply run_prim_inv in Hs. destruct Hs as (k2 & s2 & -> & Hp & E).
  cbn in Hp. injection Hp as <-. injection E as -> ->.
  destruct Hrest as [[_ Hr]|[Hx _]]; [|congruence]. exists (S k2). split; [reflexivity|exact Hr].
Qed.

Lemma run_flag_if k (x : stmt) (ox : outcome R) s r :
  (forall k s r, run_stmt k x s = Done r -> r = (ox, s)) ->
  run_block k [If fset [x] []] s = Done r ->
  (lget F s = true /\ r = (ox, s)) \/ (lget F s = false /\ r = (ONormal, s)).
Proof.
  intros Hx H. apply run_single_inv in H. destruct H as (k1 & _ & H).
  apply run_if_inv in H. destruct H as (k2 & bb & -> & Hc & H).
  unfold flag_set, test in Hc. injection Hc as <-. cbn beta in H.
  destruct (lget F s) eqn:E.
  - left. split; [reflexivity|]. apply run_single_inv in H. destruct H as (k3 & _ & H). exact (Hx _ _ _ H).
  - right. split; [reflexivity|]. apply run_block_nil_inv in H. exact H.
Qed.

Lemma run_break_inv k s (r : outcome R * state) : run_stmt k Break s = Done r -> r = (OBreak, s).
Proof. destruct k; [discriminate|]. cbn. congruence. Qed.
Lemma run_continue_inv k s (r : outcome R * state) : run_stmt k Continue s = Done r -> r = (OContinue, s).
Proof. destruct k; [discriminate|]. cbn. congruence. Qed.

Lemma run_propagate k s r :
  run_block k [propagate state R F] s = Done r ->
  (lget F s = true /\ r = (OBreak, s)) \/ (lget F s = false /\ r = (ONormal, s)).
Proof. unfold propagate. apply run_flag_if. apply run_break_inv. Qed.

Lemma run_tail_continue k s r :
  run_block k ([If fset [Continue] []] : block) s = Done r ->
  (lget F s = true /\ r = (OContinue, s)) \/ (lget F s = false /\ r = (ONormal, s)).
Proof. apply run_flag_if. apply run_continue_inv. Qed.

Lemma run_fwd_continue n st r : run_block n (fwd_continue state R F) st = Done r -> r = (OBreak, lset F true st).
Proof.
  unfold fwd_continue. intros H. apply run_set_cons in H. destruct H as (k & -> & H).
  apply run_single_inv in H. destruct H as (k1 & _ & H). apply run_break_inv in H. exact H.
Qed.

(* ---- the backward simulation ---- *)
Definition conv_at (n : nat) : Prop :=
  (forall b st r', mono_b b -> indep_b F b -> lget F st = false -> run_block n (fb b) st = Done r' ->
     exists o s, evals_b b st (o, s) /\ rel (o, s) r') /\
  (forall x st r', mono_s x -> indep_s F x -> lget F st = false -> run_block n (fs x) st = Done r' ->
     exists o s, evals_s x st (o, s) /\ rel (o, s) r') /\
  (forall cs st r', mono_c cs -> indep_c F cs -> lget F st = false -> run_cases n (fc cs) st = Done r' ->
     exists o s, evals_c cs st (o, s) /\ rel (o, s) r').

(* a forwarded switch (without the trailing propagate): what a terminating run tells about the IR switch *)
Lemma conv_switch n sel (cs : list case) st :
  (forall m, m < n -> conv_at m) ->
  mono_c cs -> indep_c F cs -> lget F st = false ->
  forall k r1, k < n -> run_stmt k (Switch sel (fc cs)) st = Done r1 ->
  exists o s, evals_s (Switch sel cs) st (o, s) /\
    ((o = OContinue /\ may_cont_c cs = true /\ r1 = (ONormal, lset F true s)) \/
     (o <> OContinue /\ r1 = (o, s) /\ lget F s = false)).
Proof.
  intros IH Mcs Ics Hf k r1 Hk Hs.
  apply run_switch_inv in Hs. destruct Hs as (k2 & i & -> & Hsel & Hs).
  destruct i as [j|].
  - destruct Hs as (rc & Hc & ->). rewrite fwd_c_skipn in Hc.
    destruct (IH k2 ltac:(lia)) as (_ & _ & IHc).
    assert (Mk : mono_c (skipn j cs)) by (apply all_c_skipn; exact Mcs).
    assert (Ik : indep_c F (skipn j cs)) by (apply all_c_skipn; exact Ics).
    destruct (IHc (skipn j cs) st rc Mk Ik Hf Hc) as (o1 & s1 & E1 & R1).
    pose proof (ev_switch_some sel cs Hsel E1) as Esw. unfold unbreak in Esw; cbn [fst snd] in Esw.
    destruct E1 as [m E1].
    destruct R1 as [[Eo ->]|[No ->]]; cbn [fst snd] in *.
    + subst o1. exists OContinue, s1. split; [exact Esw|]. left. split; [reflexivity|]. split; [|reflexivity].
      destruct (may_cont_c cs) eqn:E; [reflexivity|]. exfalso.
      apply (no_continue_c (may_cont_c_skipn j cs E) E1). reflexivity.
    + assert (Hf1 : lget F s1 = false) by (rewrite (@keeps_flag_c _ _ F _ _ _ _ _ Ik E1); exact Hf).
      exists (fst (unbreak (o1, s1))), s1. split; [exact Esw|]. right.
      split; [destruct o1; cbn; congruence|]. split; [reflexivity|exact Hf1].
  - subst r1. exists ONormal, st. split; [apply (ev_switch_none sel cs Hsel)|]. right.
    split; [discriminate|]. split; [reflexivity|exact Hf].
Qed.

Lemma conv_stmt n : (forall m, m < n -> conv_at m) ->
  forall x st r', mono_s x -> indep_s F x -> lget F st = false -> run_block n (fs x) st = Done r' ->
     exists o s, evals_s x st (o, s) /\ rel (o, s) r'.
Proof.
  intros IH x st r' Mx Ix Hf H.
  assert (Hsame : may_cont x = false -> fs x = [x] -> exists o s, evals_s x st (o, s) /\ rel (o, s) r').
  { intros Hmc Hfs. rewrite Hfs in H. apply run_single_inv in H. destruct H as (k & _ & H). destruct r' as [o s].
    exists o, s. split; [exists k; exact H|]. apply rel_same. exact (no_continue_s _ _ _ _ _ Hmc H). }
  destruct x as [p|b|c a b|sel cs|body cont bi|c body upd|body| | |rv]; try (apply Hsame; reflexivity); clear Hsame.
  - (* Block *)
    cbn [fwd_s] in H. apply run_single_inv in H. destruct H as (k & Hk & H).
    destruct k as [|k]; [discriminate|]. rewrite run_stmt_S_block in H.
    destruct (IH k ltac:(lia)) as (IHb & _ & _).
    destruct (IHb b st r' Mx Ix Hf H) as (o & s & E & Rr). exists o, s. split; [apply ev_block; exact E|exact Rr].
  - (* If *)
    destruct Mx as (_ & Ma & Mb). destruct Ix as (Ic & Ia & Ib).
    cbn [fwd_s] in H. apply run_single_inv in H. destruct H as (k & Hk & H).
    apply run_if_inv in H. destruct H as (k2 & bb & -> & Hc & H).
    destruct (IH k2 ltac:(lia)) as (IHb & _ & _).
    destruct bb.
    + destruct (IHb a st r' Ma Ia Hf H) as (o & s & E & Rr). exists o, s. split; [apply ev_if_true; assumption|exact Rr].
    + destruct (IHb b st r' Mb Ib Hf H) as (o & s & E & Rr). exists o, s. split; [apply ev_if_false; assumption|exact Rr].
  - (* Switch *)
    destruct Mx as (_ & Mcs). destruct Ix as (Isel & Ics).
    pose proof (@conv_switch n sel cs st IH Mcs Ics Hf) as Hsw.
    cbn [fwd_s] in H. change (map (fun c : case => (flat_map fs (fst c), snd c)) cs) with (fc cs) in H.
    revert H. destruct (may_cont_c cs) eqn:Emc; intros H.
    + apply run_block_cons_inv in H. destruct H as (k & o' & s' & -> & Hs & Hrest).
      destruct (Hsw k (o', s') ltac:(lia) Hs) as (o & s & E & [(-> & _ & Er)|(No & Er & Hfs)]).
      * injection Er as -> ->. destruct Hrest as [[_ Hp]|[Hx _]]; [|congruence].
        apply run_propagate in Hp. destruct Hp as [[_ ->]|[Hp _]]; [|rewrite l_get_set in Hp; discriminate].
        exists OContinue, s. split; [exact E|]. left. auto.
      * injection Er as -> ->. destruct Hrest as [[-> Hp]|[Hx ->]].
        -- apply run_propagate in Hp. destruct Hp as [[Hp _]|[_ ->]]; [congruence|].
           exists ONormal, s. split; [exact E|]. apply rel_same. discriminate.
        -- exists o, s. split; [exact E|]. apply rel_same; exact No.
    + apply run_single_inv in H. destruct H as (k & Hk & Hs).
      destruct (Hsw k r' Hk Hs) as (o & s & E & [(_ & Hm & _)|(No & -> & _)]); [congruence|].
      exists o, s. split; [exact E|apply rel_same; exact No].
  - (* Continue *)
    cbn [fwd_s] in H. apply run_fwd_continue in H. subst r'.
    exists OContinue, st. split; [apply ev_continue|left; auto].
Qed.

Lemma conv_block n : (forall m, m < n -> conv_at m) ->
  forall b st r', mono_b b -> indep_b F b -> lget F st = false -> run_block n (fb b) st = Done r' ->
     exists o s, evals_b b st (o, s) /\ rel (o, s) r'.
Proof.
  intros IH. pose proof (@conv_stmt n IH) as Ss.
  induction b as [|x rest IHr]; intros st r' Mb Ib Hf H.
  - apply run_block_nil_inv in H. subst r'. exists ONormal, st. split; [apply ev_nil|apply rel_same; discriminate].
  - destruct Mb as [Mx Mr]. destruct Ib as [Ix Ir].
    change (fb (x :: rest)) with (fs x ++ fb rest) in H.
    apply run_block_app_inv in H; [|apply mono_fwd_b; exact Mr].
    destruct H as [(s1 & H1 & H2)|[Hn H1]].
    + destruct (Ss x st _ Mx Ix Hf H1) as (o & s & E & Rr).
      destruct Rr as [[_ Er]|[_ Er]]; [discriminate|]. injection Er as <- <-.
      assert (Hf1 : lget F s1 = false).
      { destruct E as [m E]. rewrite (@keeps_flag_s _ _ F _ _ _ _ _ Ix E). exact Hf. }
      destruct (IHr s1 r' Mr Ir Hf1 H2) as (o2 & s2 & E2 & R2).
      exists o2, s2. split; [|exact R2]. eapply ev_cons_normal; [exact Mx|exact Mr|exact E|exact E2].
    + destruct (Ss x st r' Mx Ix Hf H1) as (o & s & E & Rr).
      exists o, s. split; [|exact Rr]. apply ev_cons_abrupt; [|exact E].
      destruct Rr as [[Eo _]|[_ Er]]; cbn [fst] in *.
      * rewrite Eo; discriminate.
      * subst r'. exact Hn.
Qed.

Lemma conv_cases n : (forall m, m < n -> conv_at m) ->
  forall cs st r', mono_c cs -> indep_c F cs -> lget F st = false -> run_cases n (fc cs) st = Done r' ->
     exists o s, evals_c cs st (o, s) /\ rel (o, s) r'.
Proof.
  intros IH cs st r' Mcs Ics Hf H. destruct cs as [|[body ft] rest].
  - destruct n; [discriminate|]. cbn in H. injection H as <-.
    exists ONormal, st. split; [apply ev_cases_nil|apply rel_same; discriminate].
  - destruct Mcs as [Mb Mr]. destruct Ics as [Ib Ir]. cbn [fst] in Mb, Ib.
    change (fc ((body, ft) :: rest)) with ((fb body, ft) :: fc rest) in H.
    apply run_cases_cons_inv in H. destruct H as (k & o' & s' & -> & Hb & Hrest).
    destruct (IH k ltac:(lia)) as (IHb & _ & IHc).
    destruct (IHb body st (o', s') Mb Ib Hf Hb) as (o & s & E & Rr).
    destruct Hrest as [(-> & -> & Hr)|[Hstop ->]].
    + destruct Rr as [[_ Er]|[_ Er]]; [discriminate|]. injection Er as <- <-.
      assert (Hf1 : lget F s' = false).
      { destruct E as [m E]. rewrite (@keeps_flag_b _ _ F _ _ _ _ _ Ib E). exact Hf. }
      destruct (IHc rest s' r' Mr Ir Hf1 Hr) as (o2 & s2 & E2 & R2).
      exists o2, s2. split; [|exact R2]. apply ev_cases_fall with (s1 := s'); assumption.
    + exists o, s. split; [|exact Rr]. apply ev_cases_stop; [exact E|].
      destruct Rr as [[Eo _]|[_ Er]]; cbn [fst] in *.
      * left. rewrite Eo. discriminate.
      * injection Er as <- <-. exact Hstop.
Qed.

Lemma conv_all : forall n, conv_at n.
Proof.
  induction n as [n IH] using lt_wf_ind.
  split; [exact (@conv_block n IH)|]. split; [exact (@conv_stmt n IH)|exact (@conv_cases n IH)].
Qed.

(* ---- T1 converse: a switch inside a loop, HLSL form ---- *)
Theorem continue_forward_switch_conv n sel (cs : list case) st r' :
  mono_c cs -> indep_c F cs -> indep_fn F sel ->
  run_block n (fwd_switch F sel cs) st = Done r' ->
  exists o s, evals_s (Switch sel cs) st (o, s) /\ r' = (o, lset F (is_cont o) s).
Proof.
  intros Mcs Ics Isel H. unfold fwd_switch in H.
  apply run_set_cons in H. destruct H as (k & -> & H).
  apply run_block_cons_inv in H. destruct H as (k1 & o' & s' & -> & Hs & Hrest).
  apply run_switch_inv in Hs. destruct Hs as (k2 & i & -> & Hsel & Hs).
  rewrite (Isel false st) in Hsel.
  destruct i as [j|].
  - destruct Hs as (rc & Hc & Eu). rewrite fwd_c_skipn in Hc.
    assert (Mk : mono_c (skipn j cs)) by (apply all_c_skipn; exact Mcs).
    assert (Ik : indep_c F (skipn j cs)) by (apply all_c_skipn; exact Ics).
    destruct (conv_all k2) as (_ & _ & Sc).
    destruct (Sc (skipn j cs) (lset F false st) rc Mk Ik (l_get_set F false st) Hc) as (o1 & s1 & [m E1] & R1).
    apply (frame_c_inv F Ik) in E1. destruct E1 as (s1' & E1 & ->).
    pose proof (ev_switch_some sel cs Hsel (ex_intro _ m E1)) as Esw. unfold unbreak in Esw; cbn [fst snd] in Esw.
    destruct R1 as [[Eo ->]|[No ->]]; cbn [fst snd] in *.
    + subst o1. unfold unbreak in Eu; cbn [fst snd] in Eu. injection Eu as -> ->. rewrite l_set_set in Hrest.
      destruct Hrest as [[_ Ht]|[Hx _]]; [|congruence].
      apply run_tail_continue in Ht. destruct Ht as [[_ ->]|[Ht _]]; [|rewrite l_get_set in Ht; discriminate].
      exists OContinue, s1'. split; [exact Esw|reflexivity].
    + destruct o1; unfold unbreak in Eu; cbn [fst snd] in Eu; injection Eu as -> ->; cbn [is_cont].
      * destruct Hrest as [[_ Ht]|[Hx _]]; [|congruence].
        apply run_tail_continue in Ht. destruct Ht as [[Ht _]|[_ ->]]; [rewrite l_get_set in Ht; discriminate|].
        exists ONormal, s1'. split; [exact Esw|reflexivity].
      * destruct Hrest as [[_ Ht]|[Hx _]]; [|congruence].
        apply run_tail_continue in Ht. destruct Ht as [[Ht _]|[_ ->]]; [rewrite l_get_set in Ht; discriminate|].
        exists ONormal, s1'. split; [exact Esw|reflexivity].
      * congruence.
      * destruct Hrest as [[Hx _]|[_ ->]]; [discriminate|].
        exists (OReturn r), s1'. split; [exact Esw|reflexivity].
  - injection Hs as -> ->.
    destruct Hrest as [[_ Ht]|[Hx _]]; [|congruence].
    apply run_tail_continue in Ht. destruct Ht as [[Ht _]|[_ ->]]; [rewrite l_get_set in Ht; discriminate|].
    exists ONormal, st. split; [apply (ev_switch_none sel cs Hsel)|reflexivity].
Qed.

(* ---- T2 converse: the do { } while(false) form ---- *)
Theorem continue_forward_once_conv n (body : block) st r' :
  mono_b body -> indep_b F body ->
  run_block n (fwd_once F body) st = Done r' ->
  exists o1 s, evals_b body st (o1, s) /\ r' = (unbreak_o o1, lset F (is_cont o1) s).
Proof.
  intros Mb Ib H. unfold fwd_once in H.
  apply run_set_cons in H. destruct H as (k & -> & H).
  apply run_block_cons_inv in H. destruct H as (k1 & o' & s' & -> & Hs & Hrest).
  apply run_doonce_inv in Hs. destruct Hs as (k2 & ob & sb & -> & Hb & Eu).
  destruct (conv_all k2) as (Sb & _ & _).
  destruct (Sb body (lset F false st) (ob, sb) Mb Ib (l_get_set F false st) Hb) as (o1 & s1 & [m E1] & R1).
  apply (frame_b_inv F Ib) in E1. destruct E1 as (s1' & E1 & ->).
  destruct R1 as [[Eo Er]|[No Er]]; cbn [fst snd] in *.
  - subst o1. injection Er as -> ->. cbn [demote] in Eu. injection Eu as -> ->. rewrite l_set_set in Hrest.
    destruct Hrest as [[_ Ht]|[Hx _]]; [|congruence].
    apply run_tail_continue in Ht. destruct Ht as [[_ ->]|[Ht _]]; [|rewrite l_get_set in Ht; discriminate].
    exists OContinue, s1'. split; [exists m; exact E1|reflexivity].
  - injection Er as -> ->.
    destruct o1; cbn [demote] in Eu; injection Eu as -> ->; cbn [is_cont unbreak_o].
    + destruct Hrest as [[_ Ht]|[Hx _]]; [|congruence].
      apply run_tail_continue in Ht. destruct Ht as [[Ht _]|[_ ->]]; [rewrite l_get_set in Ht; discriminate|].
      exists ONormal, s1'. split; [exists m; exact E1|reflexivity].
    + destruct Hrest as [[_ Ht]|[Hx _]]; [|congruence].
      apply run_tail_continue in Ht. destruct Ht as [[Ht _]|[_ ->]]; [rewrite l_get_set in Ht; discriminate|].
      exists OBreak, s1'. split; [exists m; exact E1|reflexivity].
    + congruence.
    + destruct Hrest as [[Hx _]|[_ ->]]; [discriminate|].
      exists (OReturn r), s1'. split; [exists m; exact E1|reflexivity].
Qed.

(* ---- two-direction statements ---- *)
Theorem continue_forward_switch_iff sel (cs : list case) st r' :
  mono_c cs -> indep_c F cs -> indep_fn F sel ->
  (evals_b (fwd_switch F sel cs) st r' <->
   exists o s, evals_s (Switch sel cs) st (o, s) /\ r' = (o, lset F (is_cont o) s)).
Proof.
  intros Mcs Ics Isel. split.
  - intros [n H]. eapply continue_forward_switch_conv; eassumption.
  - intros (o & s & [n H] & ->). eapply continue_forward_switch; eassumption.
Qed.

Theorem continue_forward_once_iff (body : block) st r' :
  mono_b body -> indep_b F body ->
  (evals_b (fwd_once F body) st r' <->
   exists o1 s, evals_b body st (o1, s) /\ r' = (unbreak_o o1, lset F (is_cont o1) s)).
Proof.
  intros Mb Ib. split.
  - intros [n H]. eapply continue_forward_once_conv; eassumption.
  - intros (o & s & [n H] & ->). eapply continue_forward_once; eassumption.
Qed.

(* the emitted form diverges / fails exactly when the IR form does *)
Corollary continue_forward_switch_no_spurious_termination sel (cs : list case) st :
  mono_c cs -> indep_c F cs -> indep_fn F sel ->
  (forall r, ~ evals_s (Switch sel cs) st r) -> forall r', ~ evals_b (fwd_switch F sel cs) st r'.
Proof.
  intros Mcs Ics Isel Hno r' H. apply (continue_forward_switch_iff sel cs st r' Mcs Ics Isel) in H.
  destruct H as (o & s & E & _). exact (Hno _ E).
Qed.

End Conv.
