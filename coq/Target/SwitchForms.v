(* Switch forms of the text back ends (hlsl|msl|glsl internal/codegen/statements.go the writeSwitch functions):
   (1) inserted breaks: the IR case (body, fall_through = false) is written `case v: { body break; }` unless the body
       already ends in a terminator (blockEndsWithTerminator: break / continue / return / kill); target cases always
       fall through.  [enc_case], theorem [case_breaks_forward]: the emitted switch computes what the IR switch does.
   (2) single-body switches (all cases but the last are empty fall-through labels; GLSL and HLSL write them as
       do { body } while(false)): [single_body_switch] gives the IR meaning "run the last body, a Break ends the
       switch", [single_body_once]: without a Continue escaping the body this is exactly DoOnce body; with continues
       ContinueForward.continue_forward_once applies.
   Forward direction (IR terminates => emitted form terminates with the same result), for all bodies / states / fuels. *)
From Coq Require Import List Bool Lia PeanoNat.
Import ListNotations.
Require Import Naga.IR.Values Naga.Target.Structured.
Open Scope list_scope.
Open Scope nat_scope.

Section SwitchForms.
Variables state R : Type.
Notation stmt := (stmt state R).
Notation block := (list stmt).
Notation case := (block * bool)%type.

(* ---- (1) inserted breaks ---- *)
Definition is_terminator (s : stmt) : bool :=
  match s with Break | Continue | Return _ => true | _ => false end.
Definition ends_with_terminator (b : block) : bool :=
  match rev b with s :: _ => is_terminator s | [] => false end.

Definition enc_case (c : case) : case :=
  if snd c then (fst c, true)
  else if ends_with_terminator (fst c) then (fst c, true) else (fst c ++ [Break], true).
Definition enc_cases (cs : list case) : list case := map enc_case cs.

Lemma terminator_not_normal s n st o s1 : is_terminator s = true -> run_stmt n s st = Done (o, s1) -> o <> ONormal.
Proof.
  destruct s; try discriminate; intros _ H; destruct n; try discriminate; cbn in H.
  - injection H as <- _. discriminate.
  - injection H as <- _. discriminate.
  - apply rbind_done in H. destruct H as (? & _ & H). injection H as <- _. discriminate.
Qed.

Lemma ends_terminator_not_normal (b : block) : forall n st o s1,
  ends_with_terminator b = true -> run_block n b st = Done (o, s1) -> o <> ONormal.
Proof.
  induction b as [|x rest IH]; intros n st o s1 He H; [discriminate|].
  apply run_block_cons_inv in H. destruct H as (k & o1 & s2 & -> & Hx & [[-> Hr]|[Ho E]]).
  - destruct rest as [|y rest'].
    + exfalso. unfold ends_with_terminator in He. cbn in He. exact (terminator_not_normal _ _ _ _ _ He Hx eq_refl).
    + apply (IH k s2 o s1); [|exact Hr].
      unfold ends_with_terminator in *. cbn [rev] in *.
      destruct (rev rest' ++ [y]) eqn:E; [destruct (rev rest'); discriminate|]. cbn in He |- *. exact He.
  - injection E as -> _. exact Ho.
Qed.

Lemma mono_enc_cases (cs : list case) : mono_c cs -> mono_c (enc_cases cs).
Proof.
  induction cs as [|[b ft] r IH]; intros H; [exact I|]. destruct H as [Hb Hr]. cbn [fst] in Hb.
  split; [|apply IH; exact Hr]. unfold enc_case. cbn [fst snd].
  destruct ft; [exact Hb|]. destruct (ends_with_terminator b); [exact Hb|].
  cbn [fst]. apply all_b_app. split; [exact Hb|split; exact I].
Qed.

Lemma enc_cases_skipn i cs : skipn i (enc_cases cs) = enc_cases (skipn i cs).
Proof. apply skipn_map. Qed.

(* the case lists agree up to "stopped at the end of a case" = "left by the inserted break" *)
Definition crel (r r' : outcome R * state) : Prop := r' = r \/ (fst r = ONormal /\ r' = (OBreak, snd r)).

Lemma cases_forward : forall n (cs : list case) st r,
  mono_c cs -> run_cases n cs st = Done r -> exists r', evals_c (enc_cases cs) st r' /\ crel r r'.
Proof.
  induction n as [|n IH]; intros cs st r Mcs H; [discriminate|].
  destruct cs as [|[body ft] rest].
  - cbn in H. injection H as <-. exists (ONormal, st). split; [apply ev_cases_nil|left; reflexivity].
  - destruct Mcs as [Mb Mr]. cbn [fst] in Mb.
    apply run_cases_cons_inv in H. destruct H as (k & o & s1 & Ek & Hb & Hrest). injection Ek as <-.
    change (enc_cases ((body, ft) :: rest)) with (enc_case (body, ft) :: enc_cases rest).
    unfold enc_case. cbn [fst snd].
    destruct Hrest as [(-> & -> & Hr)|[Hstop ->]].
    + destruct (IH rest s1 r Mr Hr) as (r' & E' & C'). exists r'. split; [|exact C'].
      apply ev_cases_fall with (s1 := s1); [exact Mb|apply mono_enc_cases; exact Mr|exists n; exact Hb|exact E'].
    + destruct ft.
      * destruct Hstop as [Ho|Hx]; [|discriminate]. exists (o, s1). split; [|left; reflexivity].
        apply ev_cases_stop; [exists n; exact Hb|left; exact Ho].
      * destruct (ends_with_terminator body) eqn:Et.
        -- exists (o, s1). split; [|left; reflexivity].
           apply ev_cases_stop; [exists n; exact Hb|left]. exact (ends_terminator_not_normal _ _ _ _ _ Et Hb).
        -- destruct o.
           ++ exists (OBreak, s1). split; [|right; auto].
              apply ev_cases_stop; [|left; discriminate].
              eapply ev_app_normal; [exact Mb|split; exact I|exists n; exact Hb|].
              apply ev_single. apply ev_break.
           ++ exists (OBreak, s1). split; [|left; reflexivity].
              apply ev_cases_stop; [|left; discriminate].
              apply ev_app_abrupt; [exact Mb|split; exact I|discriminate|exists n; exact Hb].
           ++ exists (OContinue, s1). split; [|left; reflexivity].
              apply ev_cases_stop; [|left; discriminate].
              apply ev_app_abrupt; [exact Mb|split; exact I|discriminate|exists n; exact Hb].
           ++ exists (OReturn r, s1). split; [|left; reflexivity].
              apply ev_cases_stop; [|left; discriminate].
              apply ev_app_abrupt; [exact Mb|split; exact I|discriminate|exists n; exact Hb].
Qed.

Theorem case_breaks_forward n sel (cs : list case) st r :
  mono_c cs -> run_stmt n (Switch sel cs) st = Done r -> evals_s (Switch sel (enc_cases cs)) st r.
Proof.
  intros Mcs H. apply run_switch_inv in H. destruct H as (k & i & -> & Hsel & H).
  destruct i as [i|].
  - destruct H as (r1 & Hc & ->).
    assert (Mk : mono_c (skipn i cs)) by (apply all_c_skipn; exact Mcs).
    destruct (cases_forward _ _ _ _ Mk Hc) as (r' & E' & C').
    rewrite <- enc_cases_skipn in E'.
    pose proof (ev_switch_some sel (enc_cases cs) Hsel E') as Esw.
    destruct C' as [->|[Hn ->]]; [exact Esw|].
    destruct r1 as [o1 s1]. cbn [fst snd] in *. subst o1. exact Esw.
  - subst r. apply (ev_switch_none sel (enc_cases cs) Hsel).
Qed.

(* ---- (2) single-body switches ---- *)
Definition empty_labels (pre : list case) : Prop := Forall (fun c : case => c = ([], true)) pre.

Lemma run_cases_empty_labels (pre : list case) : forall n (rest : list case) st r,
  empty_labels pre -> run_cases n (pre ++ rest) st = Done r -> exists k, k <= n /\ run_cases k rest st = Done r.
Proof.
  induction pre as [|c pre IH]; intros n rest st r Hp H; [exists n; auto|].
  inversion Hp as [|? ? Hc Hp']; subst. cbn [app] in H.
  apply run_cases_cons_inv in H. destruct H as (k & o & s1 & -> & Hb & Hrest).
  apply run_block_nil_inv in Hb. injection Hb as -> ->.
  destruct Hrest as [(_ & _ & Hr)|[[Hx|Hx] _]]; try congruence.
  destruct (IH k rest st r Hp' Hr) as (k' & Hk & Hr'). exists k'. split; [lia|exact Hr'].
Qed.

(* the IR meaning of a single-body switch whose selector always selects a case: the last body, Break ends it *)
Theorem single_body_switch n sel (pre : list case) body ft st r :
  empty_labels pre ->
  (forall i, sel st = Done i -> exists j, i = Some j /\ j <= List.length pre) ->
  run_stmt n (Switch sel (pre ++ [(body, ft)])) st = Done r ->
  exists o s1, evals_b body st (o, s1) /\ r = unbreak (o, s1).
Proof.
  intros Hp Hsel H. apply run_switch_inv in H. destruct H as (k & i & -> & Hs & H).
  destruct (Hsel i Hs) as (j & -> & Hj). destruct H as (r1 & Hc & ->).
  assert (Hsk : skipn j (pre ++ [(body, ft)]) = skipn j pre ++ [(body, ft)]).
  { rewrite skipn_app. replace (j - List.length pre) with 0 by lia. reflexivity. }
  rewrite Hsk in Hc.
  assert (Hp' : empty_labels (skipn j pre)).
  { unfold empty_labels in *. rewrite Forall_forall in *. intros c Hin. apply Hp.
    rewrite <- (firstn_skipn j pre). apply in_or_app. right. exact Hin. }
  destruct (run_cases_empty_labels _ _ _ _ _ Hp' Hc) as (k' & _ & Hc').
  apply run_cases_cons_inv in Hc'. destruct Hc' as (k2 & o & s1 & -> & Hb & Hrest).
  exists o, s1. split; [exists k2; exact Hb|].
  destruct Hrest as [(-> & _ & Hr)|[_ ->]]; [|reflexivity].
  destruct k2; [discriminate|]. cbn in Hr. injection Hr as <-. reflexivity.
Qed.

(* without an escaping Continue the do { } while(false) form is exactly that meaning *)
Theorem single_body_once n sel (pre : list case) body ft st r :
  empty_labels pre ->
  (forall i, sel st = Done i -> exists j, i = Some j /\ j <= List.length pre) ->
  may_cont_b body = false ->
  run_stmt n (Switch sel (pre ++ [(body, ft)])) st = Done r ->
  evals_s (DoOnce body) st r.
Proof.
  intros Hp Hsel Hnc H. destruct (single_body_switch _ _ _ _ _ _ _ Hp Hsel H) as (o & s1 & [m Hb] & ->).
  pose proof (ev_doonce (ex_intro _ m Hb)) as E.
  assert (Ho : o <> OContinue) by exact (no_continue_b Hnc Hb).
  unfold unbreak. cbn [fst snd]. destruct o; cbn [demote] in E; try exact E. congruence.
Qed.

End SwitchForms.

Arguments enc_cases {state R} cs.
Arguments empty_labels {state R} pre.
