(* One small generic STRUCTURED statement language with a fuel-indexed semantics, parametric in the
   primitive actions and conditions (C01, C03, C04, C05: statement-level theorems about the control-flow
   ENCODINGS that the lowerer and the back ends use; see Target/LoopInit.v, LoopBound.v,
   ContinueForward.v, SwitchForms.v, Desugar.v).

   * state, R (type of returned values) are parameters; primitives are functions of the state:
       Prim p      p : nat -> state -> result state      (fuel-aware, so that a CALL of the IR is a primitive;
                                                          [Act a] with a : state -> option state is the
                                                          fuel-unaware special case, None = failure)
       conditions  state -> result bool                  ([ocond c] for c : state -> option bool)
   * outcomes Normal / Break / Continue / Return r.
   * statements: Block, If, Switch (cases with a fall-through flag), Loop (body, continuing, break_if: the
     IR form), While (c, body, update: the C/WGSL for/while form), DoOnce (do { } while(false)), Break,
     Continue, Return.  [WhileTrue b] = while(true) { b } is Loop b [] None.
   * The fuel discipline (fuel = depth of the evaluation tree, one unit per block element, nesting and loop
     iteration) and every rule are those of IR/Sem.v: the rules are written as STEP COMBINATORS
     (seq_step, if_step, switch_step, case_step, loop_step, while_step, doonce_step), and
     Target/IrInstance.v proves that IR/Sem.v's interpreter IS this semantics (exact equality, all fuels),
     Target/GlslInstance.v that the rules of Glsl/Sem.v are the same combinators.

   Meta-theory here: fuel monotonicity, big-step introduction rules for "evaluates to" (exists fuel),
   lenses (a variable of the state) with independence of a statement from a lens and the frame lemma,
   syntactic over-approximation of escaping break / continue.  No axioms. *)
From Coq Require Import List ZArith String Bool Lia PeanoNat.
Import ListNotations.
Require Import Naga.IR.Values.
Open Scope string_scope.
Open Scope list_scope.
Open Scope nat_scope.

Set Implicit Arguments.

Section Lang.
Variables state R : Type.

Inductive outcome := ONormal | OBreak | OContinue | OReturn (r : R).

Definition cond := state -> result bool.
Definition prim := nat -> state -> result state.

Inductive stmt :=
| Prim (p : prim)
| Block (b : list stmt)
| If (c : cond) (a b : list stmt)
| Switch (sel : state -> result (option nat)) (cases : list (list stmt * bool))   (* body, fall-through *)
| Loop (body cont : list stmt) (bi : option cond)
| While (c : cond) (body upd : list stmt)
| DoOnce (body : list stmt)
| Break
| Continue
| Return (rv : state -> result R).

Definition block := list stmt.
Definition case := (block * bool)%type.

Definition Act (a : state -> option state) : stmt :=
  Prim (fun _ st => match a st with Some s => Done s | None => Fail "act" end).
Definition ocond (c : state -> option bool) : cond :=
  fun st => match c st with Some b => Done b | None => Fail "cond" end.
Definition WhileTrue (b : block) : stmt := Loop b [] None.

(* ---- step combinators: one rule each, parametric in the runners of the sub-parts ---- *)
Definition rs := result (outcome * state).

Definition seq_step (first : rs) (rest : state -> rs) : rs :=
  r <~ first ;; match fst r with ONormal => rest (snd r) | _ => Done r end.

Definition if_step (c : cond) (ra rb : state -> rs) (st : state) : rs :=
  b <~ c st ;; if b : bool then ra st else rb st.

Definition unbreak (r : outcome * state) : outcome * state :=
  (match fst r with OBreak => ONormal | o => o end, snd r).

Definition switch_step (sel : state -> result (option nat)) (from : nat -> state -> rs) (st : state) : rs :=
  i <~ sel st ;;
  match i with
  | None => Done (ONormal, st)
  | Some i => r <~ from i st ;; Done (unbreak r)
  end.

Definition case_step (rbody : state -> rs) (ft : bool) (rrest : state -> rs) (st : state) : rs :=
  r <~ rbody st ;;
  match fst r with
  | ONormal => if ft then rrest (snd r) else Done r
  | _ => Done r
  end.

Definition loop_step (rbody rcont : state -> rs) (bi : option cond) (again : state -> rs) (st : state) : rs :=
  r <~ rbody st ;;
  match fst r with
  | OBreak => Done (ONormal, snd r)
  | OReturn _ => Done r
  | ONormal | OContinue =>
    r2 <~ rcont (snd r) ;;
    match fst r2 with
    | ONormal =>
      match bi with
      | None => again (snd r2)
      | Some c => b <~ c (snd r2) ;; if b : bool then Done (ONormal, snd r2) else again (snd r2)
      end
    | OReturn _ => Done r2
    | _ => Fail "break/continue escaping a continuing block"
    end
  end.

Definition while_step (c : cond) (rbody rupd : state -> rs) (again : state -> rs) (st : state) : rs :=
  b <~ c st ;; if b : bool then loop_step rbody rupd None again st else Done (ONormal, st).

Definition demote (o : outcome) : outcome := match o with OBreak | OContinue => ONormal | o => o end.
Definition doonce_step (rbody : state -> rs) (st : state) : rs :=
  r <~ rbody st ;; Done (demote (fst r), snd r).

(* ---- the interpreter ---- *)
Fixpoint run_block (n : nat) (b : block) (st : state) {struct n} : rs :=
  match n with
  | O => OutOfFuel
  | S k =>
    match b with
    | [] => Done (ONormal, st)
    | s :: rest => seq_step (run_stmt k s st) (run_block k rest)
    end
  end
with run_stmt (n : nat) (s : stmt) (st : state) {struct n} : rs :=
  match n with
  | O => OutOfFuel
  | S k =>
    match s with
    | Prim p => st' <~ p k st ;; Done (ONormal, st')
    | Block b => run_block k b st
    | If c a b => if_step c (run_block k a) (run_block k b) st
    | Switch sel cases => switch_step sel (fun i => run_cases k (skipn i cases)) st
    | Loop body cont bi => run_loop k body cont bi st
    | While c body upd => run_while k c body upd st
    | DoOnce body => doonce_step (run_block k body) st
    | Break => Done (OBreak, st)
    | Continue => Done (OContinue, st)
    | Return rv => r <~ rv st ;; Done (OReturn r, st)
    end
  end
with run_cases (n : nat) (cs : list case) (st : state) {struct n} : rs :=
  match n with
  | O => OutOfFuel
  | S k =>
    match cs with
    | [] => Done (ONormal, st)
    | (body, ft) :: rest => case_step (run_block k body) ft (run_cases k rest) st
    end
  end
with run_loop (n : nat) (body cont : block) (bi : option cond) (st : state) {struct n} : rs :=
  match n with
  | O => OutOfFuel
  | S k => loop_step (run_block k body) (run_block k cont) bi (run_loop k body cont bi) st
  end
with run_while (n : nat) (c : cond) (body upd : block) (st : state) {struct n} : rs :=
  match n with
  | O => OutOfFuel
  | S k => while_step c (run_block k body) (run_block k upd) (run_while k c body upd) st
  end.

(* unfolding equations (cbn on the mutual fixpoint is unusable) *)
Lemma run_block_S_cons k s rest st : run_block (S k) (s :: rest) st = seq_step (run_stmt k s st) (run_block k rest).
Proof. reflexivity. Qed.
Lemma run_block_S_nil k st : run_block (S k) [] st = Done (ONormal, st).
Proof. reflexivity. Qed.
Lemma run_stmt_S_if k c a b st : run_stmt (S k) (If c a b) st = if_step c (run_block k a) (run_block k b) st.
Proof. reflexivity. Qed.
Lemma run_stmt_S_block k b st : run_stmt (S k) (Block b) st = run_block k b st.
Proof. reflexivity. Qed.
Lemma run_stmt_S_break k st : run_stmt (S k) Break st = Done (OBreak, st).
Proof. reflexivity. Qed.
Lemma run_stmt_S_continue k st : run_stmt (S k) Continue st = Done (OContinue, st).
Proof. reflexivity. Qed.
Lemma run_stmt_S_loop k body cont bi st : run_stmt (S k) (Loop body cont bi) st = run_loop k body cont bi st.
Proof. reflexivity. Qed.
Lemma run_stmt_S_while k c body upd st : run_stmt (S k) (While c body upd) st = run_while k c body upd st.
Proof. reflexivity. Qed.
Lemma run_stmt_S_switch k sel cs st :
  run_stmt (S k) (Switch sel cs) st = switch_step sel (fun i => run_cases k (skipn i cs)) st.
Proof. reflexivity. Qed.
Lemma run_stmt_S_return k rv st : run_stmt (S k) (Return rv) st = (r <~ rv st ;; Done (OReturn r, st)).
Proof. reflexivity. Qed.
Lemma run_stmt_S_prim k p st : run_stmt (S k) (Prim p) st = (st' <~ p k st ;; Done (ONormal, st')).
Proof. reflexivity. Qed.
Lemma run_stmt_S_doonce k body st : run_stmt (S k) (DoOnce body) st = doonce_step (run_block k body) st.
Proof. reflexivity. Qed.
Lemma run_cases_S_cons k body ft rest st :
  run_cases (S k) ((body, ft) :: rest) st = case_step (run_block k body) ft (run_cases k rest) st.
Proof. reflexivity. Qed.
Lemma run_cases_S_nil k st : run_cases (S k) [] st = Done (ONormal, st).
Proof. reflexivity. Qed.
Lemma run_loop_S k body cont bi st :
  run_loop (S k) body cont bi st = loop_step (run_block k body) (run_block k cont) bi (run_loop k body cont bi) st.
Proof. reflexivity. Qed.
Lemma run_while_S k c body upd st :
  run_while (S k) c body upd st = while_step c (run_block k body) (run_block k upd) (run_while k c body upd) st.
Proof. reflexivity. Qed.

(* ---- predicates over all primitives / conditions of a statement ---- *)
Definition all_list {A} (P : A -> Prop) : list A -> Prop :=
  fix go l := match l with [] => True | x :: r => P x /\ go r end.

Section AllPrims.
Variable Pp : prim -> Prop.
Variable Pc : cond -> Prop.
Variable Ps : (state -> result (option nat)) -> Prop.
Variable Pr : (state -> result R) -> Prop.

Fixpoint all_s (s : stmt) : Prop :=
  match s with
  | Prim p => Pp p
  | Block b => all_list all_s b
  | If c a b => Pc c /\ all_list all_s a /\ all_list all_s b
  | Switch sel cases => Ps sel /\ all_list (fun c : case => all_list all_s (fst c)) cases
  | Loop body cont bi => all_list all_s body /\ all_list all_s cont /\ match bi with Some c => Pc c | None => True end
  | While c body upd => Pc c /\ all_list all_s body /\ all_list all_s upd
  | DoOnce body => all_list all_s body
  | Break | Continue => True
  | Return rv => Pr rv
  end.
Definition all_b (b : block) : Prop := all_list all_s b.
Definition all_c (cs : list case) : Prop := all_list (fun c : case => all_b (fst c)) cs.

Lemma all_b_app b1 b2 : all_b (b1 ++ b2) <-> all_b b1 /\ all_b b2.
Proof. unfold all_b. induction b1 as [|x r IH]; cbn; tauto. Qed.

Lemma all_c_skipn i cs : all_c cs -> all_c (skipn i cs).
Proof.
  revert cs; induction i as [|i IH]; intros cs H; [exact H|].
  destruct cs as [|c r]; [exact H|]. cbn. apply IH. exact (proj2 H).
Qed.
End AllPrims.

(* ---- structural induction on statements (the generated principle ignores the nested lists) ---- *)
Section StmtInd.
Variable P : stmt -> Prop.
Hypothesis HPrim : forall p, P (Prim p).
Hypothesis HBlock : forall b, Forall P b -> P (Block b).
Hypothesis HIf : forall c a b, Forall P a -> Forall P b -> P (If c a b).
Hypothesis HSwitch : forall sel cs, Forall (fun c : case => Forall P (fst c)) cs -> P (Switch sel cs).
Hypothesis HLoop : forall body cont bi, Forall P body -> Forall P cont -> P (Loop body cont bi).
Hypothesis HWhile : forall c body upd, Forall P body -> Forall P upd -> P (While c body upd).
Hypothesis HDoOnce : forall body, Forall P body -> P (DoOnce body).
Hypothesis HBreak : P Break.
Hypothesis HContinue : P Continue.
Hypothesis HReturn : forall rv, P (Return rv).

Fixpoint stmt_induction (s : stmt) : P s :=
  let blk := fix go (l : list stmt) : Forall P l :=
    match l with [] => Forall_nil P | x :: r => Forall_cons x (stmt_induction x) (go r) end in
  match s with
  | Prim p => HPrim p
  | Block b => HBlock (blk b)
  | If c a b => HIf c (blk a) (blk b)
  | Switch sel cs =>
    HSwitch sel ((fix goc (l : list case) : Forall (fun c : case => Forall P (fst c)) l :=
                    match l with
                    | [] => Forall_nil _
                    | c :: r => Forall_cons c (blk (fst c)) (goc r)
                    end) cs)
  | Loop body cont bi => HLoop bi (blk body) (blk cont)
  | While c body upd => HWhile c (blk body) (blk upd)
  | DoOnce body => HDoOnce (blk body)
  | Break => HBreak
  | Continue => HContinue
  | Return rv => HReturn rv
  end.
End StmtInd.

Lemma all_list_Forall {A} (P : A -> Prop) l : all_list P l <-> Forall P l.
Proof.
  induction l as [|x r IH]; cbn.
  - split; auto.
  - rewrite IH. split; [intros [H1 H2]; constructor; assumption|intros H; inversion H; auto].
Qed.

(* ---- fuel monotonicity ---- *)
Definition le_res {A} (a b : result A) : Prop := forall x, a = Done x -> b = Done x.

Lemma le_res_refl {A} (a : result A) : le_res a a.
Proof. intros x H; exact H. Qed.
Lemma le_res_bind {A B} (a a' : result A) (k k' : A -> result B) :
  le_res a a' -> (forall x, le_res (k x) (k' x)) -> le_res (rbind a k) (rbind a' k').
Proof.
  intros Ha Hk y H. destruct a as [x| |msg]; cbn in H; try discriminate.
  rewrite (Ha x eq_refl). cbn. apply Hk. exact H.
Qed.
Lemma le_res_oof {A} (b : result A) : le_res OutOfFuel b.
Proof. intros x H; discriminate. Qed.
Lemma le_res_fail {A} msg (b : result A) : le_res (Fail msg) b.
Proof. intros x H; discriminate. Qed.

Definition mono_prim (p : prim) : Prop := forall n n' st, n <= n' -> le_res (p n st) (p n' st).
Definition mono_s : stmt -> Prop := all_s mono_prim (fun _ => True) (fun _ => True) (fun _ => True).
Definition mono_b : block -> Prop := all_b mono_prim (fun _ => True) (fun _ => True) (fun _ => True).
Definition mono_c : list case -> Prop := all_c mono_prim (fun _ => True) (fun _ => True) (fun _ => True).

Lemma mono_Act a : mono_s (Act a).
Proof. intros n n' st _. apply le_res_refl. Qed.

Lemma loop_step_le rb rb' rc rc' bi ag ag' st :
  (forall s, le_res (rb s) (rb' s)) -> (forall s, le_res (rc s) (rc' s)) -> (forall s, le_res (ag s) (ag' s)) ->
  le_res (loop_step rb rc bi ag st) (loop_step rb' rc' bi ag' st).
Proof.
  intros Hb Hc Ha. unfold loop_step.
  apply le_res_bind; [apply Hb|]. intros [o s1]; cbn [fst snd].
  destruct o; try apply le_res_refl.
  - apply le_res_bind; [apply Hc|]. intros [o2 s2]; cbn [fst snd].
    destruct o2; try apply le_res_refl.
    destruct bi as [c|]; [|apply Ha].
    apply le_res_bind; [apply le_res_refl|]. intros b. destruct b; [apply le_res_refl|apply Ha].
  - apply le_res_bind; [apply Hc|]. intros [o2 s2]; cbn [fst snd].
    destruct o2; try apply le_res_refl.
    destruct bi as [c|]; [|apply Ha].
    apply le_res_bind; [apply le_res_refl|]. intros b. destruct b; [apply le_res_refl|apply Ha].
Qed.

Definition mono_at (n : nat) : Prop :=
  forall n', n <= n' ->
  (forall b st, mono_b b -> le_res (run_block n b st) (run_block n' b st)) /\
  (forall s st, mono_s s -> le_res (run_stmt n s st) (run_stmt n' s st)) /\
  (forall cs st, mono_c cs -> le_res (run_cases n cs st) (run_cases n' cs st)) /\
  (forall b c bi st, mono_b b -> mono_b c -> le_res (run_loop n b c bi st) (run_loop n' b c bi st)) /\
  (forall c b u st, mono_b b -> mono_b u -> le_res (run_while n c b u st) (run_while n' c b u st)).

Lemma mono_all : forall n, mono_at n.
Proof.
  unfold mono_at. induction n as [|n IH]; intros n' Hle.
  - repeat split; intros; cbn; apply le_res_oof.
  - destruct n' as [|n']; [lia|].
    specialize (IH n' ltac:(lia)). destruct IH as (IHb & IHs & IHc & IHl & IHw).
    repeat split.
    + intros b st Hm. cbn [run_block]. destruct b as [|s rest]; [apply le_res_refl|].
      destruct Hm as [Hs Hr]. unfold seq_step.
      apply le_res_bind; [apply IHs; exact Hs|]. intros [o s1]; cbn [fst snd].
      destruct o; try apply le_res_refl. apply IHb; exact Hr.
    + intros s st Hm. cbn [run_stmt]. destruct s as [p|b|c a b|sel cases|body cont bi|c body upd|body| | |rv].
      * apply le_res_bind; [apply Hm; lia|]. intros x; apply le_res_refl.
      * apply IHb; exact Hm.
      * destruct Hm as (_ & Ha & Hb). unfold if_step.
        apply le_res_bind; [apply le_res_refl|]. intros b0. destruct b0; apply IHb; assumption.
      * destruct Hm as (_ & Hc). unfold switch_step.
        apply le_res_bind; [apply le_res_refl|]. intros [i|]; [|apply le_res_refl].
        apply le_res_bind; [|intros x; apply le_res_refl].
        apply IHc. apply all_c_skipn. exact Hc.
      * destruct Hm as (Hb & Hc & _). apply IHl; assumption.
      * destruct Hm as (_ & Hb & Hu). apply IHw; assumption.
      * unfold doonce_step. apply le_res_bind; [apply IHb; exact Hm|]. intros x; apply le_res_refl.
      * apply le_res_refl.
      * apply le_res_refl.
      * apply le_res_refl.
    + intros cs st Hm. cbn [run_cases]. destruct cs as [|[body ft] rest]; [apply le_res_refl|].
      destruct Hm as [Hb Hr]. unfold case_step.
      apply le_res_bind; [apply IHb; exact Hb|]. intros [o s1]; cbn [fst snd].
      destruct o; try apply le_res_refl. destruct ft; [apply IHc; exact Hr|apply le_res_refl].
    + intros b c bi st Hb Hc. cbn [run_loop].
      apply loop_step_le; intros; [apply IHb|apply IHb|apply IHl]; assumption.
    + intros c b u st Hb Hu. cbn [run_while]. unfold while_step.
      apply le_res_bind; [apply le_res_refl|]. intros b0. destruct b0; [|apply le_res_refl].
      apply loop_step_le; intros; [apply IHb|apply IHb|apply IHw]; assumption.
Qed.

Lemma run_block_mono n n' b st r : mono_b b -> n <= n' -> run_block n b st = Done r -> run_block n' b st = Done r.
Proof. intros Hm Hle. destruct (@mono_all n n' Hle) as (H & _). exact (H b st Hm r). Qed.
Lemma run_stmt_mono n n' s st r : mono_s s -> n <= n' -> run_stmt n s st = Done r -> run_stmt n' s st = Done r.
Proof. intros Hm Hle. destruct (@mono_all n n' Hle) as (_ & H & _). exact (H s st Hm r). Qed.
Lemma run_cases_mono n n' cs st r : mono_c cs -> n <= n' -> run_cases n cs st = Done r -> run_cases n' cs st = Done r.
Proof. intros Hm Hle. destruct (@mono_all n n' Hle) as (_ & _ & H & _). exact (H cs st Hm r). Qed.
Lemma run_loop_mono n n' b c bi st r :
  mono_b b -> mono_b c -> n <= n' -> run_loop n b c bi st = Done r -> run_loop n' b c bi st = Done r.
Proof. intros Hb Hc Hle. destruct (@mono_all n n' Hle) as (_ & _ & _ & H & _). exact (H b c bi st Hb Hc r). Qed.
Lemma run_while_mono n n' c b u st r :
  mono_b b -> mono_b u -> n <= n' -> run_while n c b u st = Done r -> run_while n' c b u st = Done r.
Proof. intros Hb Hu Hle. destruct (@mono_all n n' Hle) as (_ & _ & _ & _ & H). exact (H c b u st Hb Hu r). Qed.

Arguments run_block_mono [n n' b st r] _ _ _.
Arguments run_stmt_mono [n n' s st r] _ _ _.
Arguments run_cases_mono [n n' cs st r] _ _ _.
Arguments run_loop_mono [n n' b c bi st r] _ _ _ _.
Arguments run_while_mono [n n' c b u st r] _ _ _ _.

(* ---- "evaluates to": exists fuel ---- *)
Definition evals_b (b : block) (st : state) (r : outcome * state) : Prop := exists n, run_block n b st = Done r.
Definition evals_s (s : stmt) (st : state) (r : outcome * state) : Prop := exists n, run_stmt n s st = Done r.
Definition evals_c (cs : list case) (st : state) (r : outcome * state) : Prop := exists n, run_cases n cs st = Done r.

(* determinism: the result does not depend on the fuel *)
Lemma evals_b_det b st r1 r2 : mono_b b -> evals_b b st r1 -> evals_b b st r2 -> r1 = r2.
Proof.
  intros Hm [n1 H1] [n2 H2]. destruct (Nat.le_ge_cases n1 n2) as [H|H].
  - rewrite (run_block_mono Hm H H1) in H2. congruence.
  - rewrite (run_block_mono Hm H H2) in H1. congruence.
Qed.
Lemma evals_s_det s st r1 r2 : mono_s s -> evals_s s st r1 -> evals_s s st r2 -> r1 = r2.
Proof.
  intros Hm [n1 H1] [n2 H2]. destruct (Nat.le_ge_cases n1 n2) as [H|H].
  - rewrite (run_stmt_mono Hm H H1) in H2. congruence.
  - rewrite (run_stmt_mono Hm H H2) in H1. congruence.
Qed.

(* inversion of the result of a bind *)
Lemma rbind_done {A B} (a : result A) (k : A -> result B) y : rbind a k = Done y -> exists x, a = Done x /\ k x = Done y.
Proof. destruct a as [x| |m]; cbn; intros H; try discriminate. exists x; auto. Qed.

(* -- introduction rules -- *)
Lemma ev_nil st : evals_b [] st (ONormal, st).
Proof. exists 1. reflexivity. Qed.

Lemma ev_cons_normal s rest st st1 r :
  mono_s s -> mono_b rest ->
  evals_s s st (ONormal, st1) -> evals_b rest st1 r -> evals_b (s :: rest) st r.
Proof.
  intros Ms Mr [n1 H1] [n2 H2]. exists (S (Nat.max n1 n2)). cbn [run_block]. unfold seq_step.
  rewrite (run_stmt_mono Ms (Nat.le_max_l n1 n2) H1). cbn.
  exact (run_block_mono Mr (Nat.le_max_r n1 n2) H2).
Qed.

Lemma ev_cons_abrupt s rest st o st1 :
  o <> ONormal -> evals_s s st (o, st1) -> evals_b (s :: rest) st (o, st1).
Proof.
  intros Ho [n1 H1]. exists (S n1). cbn [run_block]. unfold seq_step. rewrite H1. cbn.
  destruct o; congruence.
Qed.

Lemma ev_single s st r : evals_s s st r -> evals_b [s] st r.
Proof.
  intros [n H]. exists (S n). cbn [run_block]. unfold seq_step. rewrite H. cbn.
  destruct r as [o s1]; destruct o; cbn; try reflexivity. destruct n; [discriminate|reflexivity].
Qed.

Lemma ev_app_normal b1 b2 st st1 r :
  mono_b b1 -> mono_b b2 ->
  evals_b b1 st (ONormal, st1) -> evals_b b2 st1 r -> evals_b (b1 ++ b2) st r.
Proof.
  intros M1 M2 [n1 H1] E2. revert n1 st H1 M1.
  induction b1 as [|s b1 IH]; intros n1 st H1 M1.
  - destruct n1; [discriminate|]. cbn in H1. injection H1 as <-. exact E2.
  - destruct n1; [discriminate|]. cbn [run_block] in H1. unfold seq_step in H1.
    apply rbind_done in H1. destruct H1 as ([o s1] & Hs & Hk). cbn [fst snd] in Hk.
    destruct M1 as [Ms Mb]. cbn [app].
    destruct o; try (injection Hk as Hk _; discriminate).
    apply ev_cons_normal with (st1 := s1); auto.
    + apply all_b_app. split; assumption.
    + exists n1; exact Hs.
    + apply IH with (n1 := n1); assumption.
Qed.

Lemma ev_app_abrupt b1 b2 st o st1 :
  mono_b b1 -> mono_b b2 -> o <> ONormal -> evals_b b1 st (o, st1) -> evals_b (b1 ++ b2) st (o, st1).
Proof.
  intros M1 M2 Ho [n1 H1]. revert n1 st H1 M1.
  induction b1 as [|s b1 IH]; intros n1 st H1 M1.
  - destruct n1; [discriminate|]. cbn in H1. injection H1 as <- _. congruence.
  - destruct n1; [discriminate|]. cbn [run_block] in H1. unfold seq_step in H1.
    apply rbind_done in H1. destruct H1 as ([o' s1] & Hs & Hk). cbn [fst snd] in Hk.
    destruct M1 as [Ms Mb]. cbn [app].
    destruct o'.
    + apply ev_cons_normal with (st1 := s1); auto.
      * apply all_b_app. split; assumption.
      * exists n1; exact Hs.
      * apply IH with (n1 := n1); assumption.
    + injection Hk as <- <-. apply ev_cons_abrupt; [discriminate|]. exists n1; exact Hs.
    + injection Hk as <- <-. apply ev_cons_abrupt; [discriminate|]. exists n1; exact Hs.
    + injection Hk as <- <-. apply ev_cons_abrupt; [discriminate|]. exists n1; exact Hs.
Qed.


(* ---- the loop rule as a relation (for inversion and introduction) ---- *)
Definition goes_on (o : outcome) : Prop := o = ONormal \/ o = OContinue.
Definition bi_false (bi : option cond) (s : state) : Prop :=
  match bi with None => True | Some c => c s = Done false end.

Inductive loop_spec (rb rc : state -> rs) (bi : option cond) (ag : state -> rs) (st : state) : outcome * state -> Prop :=
| LS_break s1 : rb st = Done (OBreak, s1) -> loop_spec rb rc bi ag st (ONormal, s1)
| LS_ret v s1 : rb st = Done (OReturn v, s1) -> loop_spec rb rc bi ag st (OReturn v, s1)
| LS_cret o s1 v s2 : rb st = Done (o, s1) -> goes_on o -> rc s1 = Done (OReturn v, s2) ->
    loop_spec rb rc bi ag st (OReturn v, s2)
| LS_exit o s1 s2 c : rb st = Done (o, s1) -> goes_on o -> rc s1 = Done (ONormal, s2) ->
    bi = Some c -> c s2 = Done true -> loop_spec rb rc bi ag st (ONormal, s2)
| LS_again o s1 s2 r : rb st = Done (o, s1) -> goes_on o -> rc s1 = Done (ONormal, s2) ->
    bi_false bi s2 -> ag s2 = Done r -> loop_spec rb rc bi ag st r.

Lemma loop_step_spec rb rc bi ag st r : loop_step rb rc bi ag st = Done r <-> loop_spec rb rc bi ag st r.
Proof.
  split.
  - unfold loop_step. intros H. apply rbind_done in H. destruct H as ([o s1] & Hb & H). cbn [fst snd] in H.
    assert (Hgo : goes_on o ->
      (r2 <~ rc s1 ;; match fst r2 with
        | ONormal => match bi with None => ag (snd r2)
                     | Some c => b <~ c (snd r2) ;; if b : bool then Done (ONormal, snd r2) else ag (snd r2) end
        | OReturn _ => Done r2
        | _ => Fail "break/continue escaping a continuing block" end) = Done r -> loop_spec rb rc bi ag st r).
    { intros Hg H2. apply rbind_done in H2. destruct H2 as ([o2 s2] & Hc & H2). cbn [fst snd] in H2.
      destruct o2; try discriminate.
      - destruct bi as [c|].
        + apply rbind_done in H2. destruct H2 as (b & Hcb & H2). destruct b.
          * injection H2 as <-. eapply LS_exit; eauto.
          * eapply LS_again; eauto.
        + eapply LS_again; eauto. exact I.
      - injection H2 as <-. eapply LS_cret; eauto. }
    destruct o.
    + apply Hgo; [left; reflexivity|exact H].
    + injection H as <-. apply LS_break; exact Hb.
    + apply Hgo; [right; reflexivity|exact H].
    + injection H as <-. apply LS_ret; exact Hb.
  - intros H. unfold loop_step. destruct H as [s1 Hb|v s1 Hb|o s1 v s2 Hb Hg Hc|o s1 s2 c Hb Hg Hc Hbi Hcb|o s1 s2 r Hb Hg Hc Hbi Ha];
      rewrite Hb; cbn; try reflexivity.
    + destruct Hg as [-> | ->]; rewrite Hc; reflexivity.
    + destruct Hg as [-> | ->]; rewrite Hc; cbn; rewrite Hbi, Hcb; reflexivity.
    + destruct Hg as [-> | ->]; rewrite Hc; cbn; (destruct bi as [c|]; [cbn in Hbi; rewrite Hbi; cbn|]; exact Ha).
Qed.

(* a loop / while never yields Break or Continue *)
Definition final (o : outcome) : Prop := o = ONormal \/ exists v, o = OReturn v.

Lemma loop_spec_final rb rc bi ag st o s :
  (forall s0 o' s', ag s0 = Done (o', s') -> final o') -> loop_spec rb rc bi ag st (o, s) -> final o.
Proof.
  intros Hag H. inversion H; subst; try (left; reflexivity); try (right; eexists; reflexivity).
  eapply Hag; eauto.
Qed.

Lemma run_loop_final n b c bi st o s : run_loop n b c bi st = Done (o, s) -> final o.
Proof.
  revert st o s. induction n as [|n IH]; intros st o s H; [discriminate|].
  cbn [run_loop] in H. apply loop_step_spec in H. eapply loop_spec_final; [|exact H]. exact IH.
Qed.

Lemma run_while_final n c b u st o s : run_while n c b u st = Done (o, s) -> final o.
Proof.
  revert st o s. induction n as [|n IH]; intros st o s H; [discriminate|].
  cbn [run_while] in H. unfold while_step in H. apply rbind_done in H. destruct H as (b0 & _ & H).
  destruct b0.
  - apply loop_step_spec in H. eapply loop_spec_final; [|exact H]. exact IH.
  - injection H as <- _. left; reflexivity.
Qed.

(* -- more introduction rules -- *)
Lemma ev_prim p k st st' : p k st = Done st' -> evals_s (Prim p) st (ONormal, st').
Proof. intros H. exists (S k). cbn. rewrite H. reflexivity. Qed.
Lemma ev_act a st st' : a st = Some st' -> evals_s (Act a) st (ONormal, st').
Proof. intros H. apply ev_prim with (k := 0). rewrite H. reflexivity. Qed.
Lemma ev_block b st r : evals_b b st r -> evals_s (Block b) st r.
Proof. intros [n H]. exists (S n). exact H. Qed.
Lemma ev_if_true c a b st r : c st = Done true -> evals_b a st r -> evals_s (If c a b) st r.
Proof. intros Hc [n H]. exists (S n). cbn. unfold if_step. rewrite Hc. exact H. Qed.
Lemma ev_if_false c a b st r : c st = Done false -> evals_b b st r -> evals_s (If c a b) st r.
Proof. intros Hc [n H]. exists (S n). cbn. unfold if_step. rewrite Hc. exact H. Qed.
Lemma ev_break st : evals_s Break st (OBreak, st).
Proof. exists 1. reflexivity. Qed.
Lemma ev_continue st : evals_s Continue st (OContinue, st).
Proof. exists 1. reflexivity. Qed.
Lemma ev_return rv st v : rv st = Done v -> evals_s (Return rv) st (OReturn v, st).
Proof. intros H. exists 1. cbn. rewrite H. reflexivity. Qed.

Lemma ev_doonce body st o s1 : evals_b body st (o, s1) -> evals_s (DoOnce body) st (demote o, s1).
Proof. intros [n H]. exists (S n). cbn. unfold doonce_step. rewrite H. reflexivity. Qed.

Lemma ev_switch_none sel cs st : sel st = Done None -> evals_s (Switch sel cs) st (ONormal, st).
Proof. intros H. exists 1. cbn. unfold switch_step. rewrite H. reflexivity. Qed.
Lemma ev_switch_some sel cs st i r :
  sel st = Done (Some i) -> evals_c (skipn i cs) st r -> evals_s (Switch sel cs) st (unbreak r).
Proof.
  intros Hs [n H]. exists (S n). cbn [run_stmt]. unfold switch_step. rewrite Hs. cbn [rbind].
  unfold case, block in *. rewrite H. reflexivity.
Qed.

Lemma ev_cases_nil st : evals_c [] st (ONormal, st).
Proof. exists 1. reflexivity. Qed.
Lemma ev_cases_stop body ft rest st o s1 :
  evals_b body st (o, s1) -> o <> ONormal \/ ft = false -> evals_c ((body, ft) :: rest) st (o, s1).
Proof.
  intros [n H] Hx. exists (S n). cbn. unfold case_step. rewrite H. cbn.
  destruct o; try reflexivity. destruct Hx as [Hx| ->]; [congruence|reflexivity].
Qed.
Lemma ev_cases_fall body rest st s1 r :
  mono_b body -> mono_c rest ->
  evals_b body st (ONormal, s1) -> evals_c rest s1 r -> evals_c ((body, true) :: rest) st r.
Proof.
  intros Mb Mr [n1 H1] [n2 H2]. exists (S (Nat.max n1 n2)). cbn. unfold case_step.
  rewrite (run_block_mono Mb (Nat.le_max_l n1 n2) H1). cbn.
  exact (run_cases_mono Mr (Nat.le_max_r n1 n2) H2).
Qed.

Definition evals_l (body cont : block) (bi : option cond) (st : state) (r : outcome * state) : Prop :=
  exists n, run_loop n body cont bi st = Done r.

Lemma ev_loop body cont bi st r : evals_l body cont bi st r <-> evals_s (Loop body cont bi) st r.
Proof.
  split; intros [n H].
  - exists (S n). exact H.
  - destruct n; [discriminate|]. exists n. exact H.
Qed.

(* the loop rule on "evaluates to" *)
Inductive loop_ev (body cont : block) (bi : option cond) (st : state) : outcome * state -> Prop :=
| LE_break s1 : evals_b body st (OBreak, s1) -> loop_ev body cont bi st (ONormal, s1)
| LE_ret v s1 : evals_b body st (OReturn v, s1) -> loop_ev body cont bi st (OReturn v, s1)
| LE_cret o s1 v s2 : evals_b body st (o, s1) -> goes_on o -> evals_b cont s1 (OReturn v, s2) ->
    loop_ev body cont bi st (OReturn v, s2)
| LE_exit o s1 s2 c : evals_b body st (o, s1) -> goes_on o -> evals_b cont s1 (ONormal, s2) ->
    bi = Some c -> c s2 = Done true -> loop_ev body cont bi st (ONormal, s2)
| LE_again o s1 s2 r : evals_b body st (o, s1) -> goes_on o -> evals_b cont s1 (ONormal, s2) ->
    bi_false bi s2 -> evals_l body cont bi s2 r -> loop_ev body cont bi st r.

Lemma ev_loop_intro body cont bi st r :
  mono_b body -> mono_b cont -> loop_ev body cont bi st r -> evals_l body cont bi st r.
Proof.
  intros Mb Mc H.
  destruct H as [s1 [n1 Hb]|v s1 [n1 Hb]|o s1 v s2 [n1 Hb] Hg [n2 Hc]|o s1 s2 c [n1 Hb] Hg [n2 Hc] Hbi Hcb
                |o s1 s2 r [n1 Hb] Hg [n2 Hc] Hbi [n3 Ha]].
  - exists (S n1). cbn. apply loop_step_spec. apply LS_break. exact Hb.
  - exists (S n1). cbn. apply loop_step_spec. apply LS_ret. exact Hb.
  - exists (S (Nat.max n1 n2)). cbn. apply loop_step_spec. eapply LS_cret; [|exact Hg|].
    + exact (run_block_mono Mb (Nat.le_max_l n1 n2) Hb).
    + exact (run_block_mono Mc (Nat.le_max_r n1 n2) Hc).
  - exists (S (Nat.max n1 n2)). cbn. apply loop_step_spec. eapply LS_exit; [|exact Hg| |exact Hbi|exact Hcb].
    + exact (run_block_mono Mb (Nat.le_max_l n1 n2) Hb).
    + exact (run_block_mono Mc (Nat.le_max_r n1 n2) Hc).
  - exists (S (Nat.max n1 (Nat.max n2 n3))). cbn. apply loop_step_spec. eapply LS_again; [|exact Hg| |exact Hbi|].
    + refine (run_block_mono Mb _ Hb); lia.
    + refine (run_block_mono Mc _ Hc); lia.
    + refine (run_loop_mono Mb Mc _ Ha); lia.
Qed.

Lemma ev_loop_inv body cont bi st r : evals_l body cont bi st r -> loop_ev body cont bi st r.
Proof.
  intros [n H]. destruct n; [discriminate|]. cbn in H. apply loop_step_spec in H.
  inversion H; subst.
  - apply LE_break. eexists; eauto.
  - apply LE_ret. eexists; eauto.
  - eapply LE_cret; eauto; eexists; eauto.
  - eapply LE_exit; eauto; eexists; eauto.
  - eapply LE_again; eauto; eexists; eauto.
Qed.

(* ---- fuel-form inversion of a block ---- *)
Lemma run_block_cons_inv n s rest st r :
  run_block n (s :: rest) st = Done r ->
  exists k o s1, n = S k /\ run_stmt k s st = Done (o, s1) /\
    ((o = ONormal /\ run_block k rest s1 = Done r) \/ (o <> ONormal /\ r = (o, s1))).
Proof.
  destruct n as [|k]; [discriminate|]. cbn [run_block]. unfold seq_step. intros H.
  apply rbind_done in H. destruct H as ([o s1] & Hs & H). cbn [fst snd] in H.
  exists k, o, s1. split; [reflexivity|]. split; [exact Hs|].
  destruct o; [left; auto| | |]; right; (split; [discriminate|congruence]).
Qed.

Lemma run_block_nil_inv n st r : run_block n [] st = Done r -> r = (ONormal, st).
Proof. destruct n; [discriminate|]. cbn. congruence. Qed.

Lemma run_block_app_inv b1 : forall n b2 st r,
  mono_b b2 ->
  run_block n (b1 ++ b2) st = Done r ->
  (exists s1, run_block n b1 st = Done (ONormal, s1) /\ run_block n b2 s1 = Done r) \/
  (fst r <> ONormal /\ run_block n b1 st = Done r).
Proof.
  induction b1 as [|s b1 IH]; intros n b2 st r M2 H.
  - left. exists st. split; [|exact H]. destruct n; [discriminate|reflexivity].
  - cbn [app] in H. apply run_block_cons_inv in H. destruct H as (k & o & s1 & -> & Hs & [[-> H]|[Ho ->]]).
    + destruct (IH k b2 s1 r M2 H) as [(s2 & H1 & H2)|[Hn H1]].
      * left. exists s2. split.
        -- cbn [run_block]. unfold seq_step. rewrite Hs. exact H1.
        -- refine (run_block_mono M2 _ H2); lia.
      * right. split; [exact Hn|]. cbn [run_block]. unfold seq_step. rewrite Hs. exact H1.
    + right. split; [exact Ho|]. cbn [run_block]. unfold seq_step. rewrite Hs. cbn.
      destruct o; congruence.
Qed.

(* fuel-form inversion of while(true) { B } = Loop B [] None, of If, of a primitive *)
Lemma run_whiletrue_inv n B X r :
  run_loop n B [] None X = Done r ->
  exists k o s1, n = S k /\ run_block k B X = Done (o, s1) /\
    ((o = OBreak /\ r = (ONormal, s1)) \/ (exists v, o = OReturn v /\ r = (o, s1)) \/
     (goes_on o /\ run_loop k B [] None s1 = Done r)).
Proof.
  destruct n as [|k]; [discriminate|]. cbn [run_loop]. intros H. apply loop_step_spec in H.
  destruct H as [s1 Hb|v s1 Hb|o s1 v s2 Hb Hg Hc|o s1 s2 c Hb Hg Hc Hbi Hcb|o s1 s2 r Hb Hg Hc Hbi Ha].
  - exists k, OBreak, s1. auto.
  - exists k, (OReturn v), s1. split; [reflexivity|]. split; [assumption|]. right; left. eauto.
  - apply run_block_nil_inv in Hc. discriminate.
  - discriminate.
  - apply run_block_nil_inv in Hc. injection Hc as <-.
    exists k, o, s2. split; [reflexivity|]. split; [assumption|]. right; right. auto.
Qed.

Lemma run_if_inv n c a b X r :
  run_stmt n (If c a b) X = Done r ->
  exists k bb, n = S k /\ c X = Done bb /\ (if bb : bool then run_block k a X else run_block k b X) = Done r.
Proof.
  destruct n as [|k]; [discriminate|]. cbn [run_stmt]. unfold if_step. intros H.
  apply rbind_done in H. destruct H as (bb & Hc & H). exists k, bb. auto.
Qed.

Lemma run_prim_inv n p X r :
  run_stmt n (Prim p) X = Done r -> exists k s1, n = S k /\ p k X = Done s1 /\ r = (ONormal, s1).
Proof.
  destruct n as [|k]; [discriminate|]. cbn [run_stmt]. intros H.
  apply rbind_done in H. destruct H as (s1 & Hp & H). exists k, s1. split; [reflexivity|]. split; [exact Hp|congruence].
Qed.

Lemma run_switch_inv n sel cs X r :
  run_stmt n (Switch sel cs) X = Done r ->
  exists k i, n = S k /\ sel X = Done i /\
    match i with
    | None => r = (ONormal, X)
    | Some j => exists r1, run_cases k (skipn j cs) X = Done r1 /\ r = unbreak r1
    end.
Proof.
  destruct n as [|k]; [discriminate|]. cbn [run_stmt]. unfold switch_step. intros H.
  apply rbind_done in H. destruct H as (i & Hs & H). exists k, i. split; [reflexivity|]. split; [exact Hs|].
  destruct i as [j|]; [|congruence].
  apply rbind_done in H. destruct H as (r1 & H1 & H). exists r1. split; [exact H1|congruence].
Qed.

Lemma run_doonce_inv n body X r :
  run_stmt n (DoOnce body) X = Done r ->
  exists k o s1, n = S k /\ run_block k body X = Done (o, s1) /\ r = (demote o, s1).
Proof.
  destruct n as [|k]; [discriminate|]. cbn [run_stmt]. unfold doonce_step. intros H.
  apply rbind_done in H. destruct H as ([o s1] & H1 & H). cbn [fst snd] in H.
  exists k, o, s1. split; [reflexivity|]. split; [exact H1|congruence].
Qed.

Lemma run_cases_cons_inv n body ft rest X r :
  run_cases n ((body, ft) :: rest) X = Done r ->
  exists k o s1, n = S k /\ run_block k body X = Done (o, s1) /\
    ((o = ONormal /\ ft = true /\ run_cases k rest s1 = Done r) \/
     ((o <> ONormal \/ ft = false) /\ r = (o, s1))).
Proof.
  destruct n as [|k]; [discriminate|]. cbn [run_cases]. unfold case_step. intros H.
  apply rbind_done in H. destruct H as ([o s1] & H1 & H). cbn [fst snd] in H.
  exists k, o, s1. split; [reflexivity|]. split; [exact H1|].
  destruct o; try (right; split; [left; discriminate|congruence]).
  destruct ft; [left; auto|right; split; [right; reflexivity|congruence]].
Qed.

Lemma ev_whiletrue_break B X s1 : evals_b B X (OBreak, s1) -> evals_l B [] None X (ONormal, s1).
Proof. intros [n H]. exists (S n). cbn. apply loop_step_spec. apply LS_break. exact H. Qed.
Lemma ev_whiletrue_ret B X v s1 : evals_b B X (OReturn v, s1) -> evals_l B [] None X (OReturn v, s1).
Proof. intros [n H]. exists (S n). cbn. apply loop_step_spec. apply LS_ret. exact H. Qed.
Lemma ev_whiletrue_again B X o s1 r :
  mono_b B -> evals_b B X (o, s1) -> goes_on o -> evals_l B [] None s1 r -> evals_l B [] None X r.
Proof.
  intros MB HB Hg Hl. apply ev_loop_intro; [exact MB|exact I|].
  eapply LE_again; [exact HB|exact Hg|apply ev_nil|exact I|exact Hl].
Qed.

(* ---- escaping break / continue: syntactic over-approximation ---- *)
Fixpoint may_brk (s : stmt) : bool :=
  match s with
  | Break => true
  | Block b => existsb may_brk b
  | If _ a b => existsb may_brk a || existsb may_brk b
  | _ => false
  end.
Fixpoint may_cont (s : stmt) : bool :=
  match s with
  | Continue => true
  | Block b => existsb may_cont b
  | If _ a b => existsb may_cont a || existsb may_cont b
  | Switch _ cs => existsb (fun c : case => existsb may_cont (fst c)) cs
  | _ => false
  end.
Definition may_brk_b (b : block) : bool := existsb may_brk b.
Definition may_cont_b (b : block) : bool := existsb may_cont b.
Definition may_cont_c (cs : list case) : bool := existsb (fun c : case => may_cont_b (fst c)) cs.

Lemma may_cont_c_skipn i cs : may_cont_c cs = false -> may_cont_c (skipn i cs) = false.
Proof.
  revert cs; induction i as [|i IH]; intros cs H; [exact H|].
  destruct cs as [|c r]; [exact H|]. cbn. apply IH. cbn in H. apply orb_false_iff in H. exact (proj2 H).
Qed.

Lemma no_break_all : forall n,
  (forall b st o s, may_brk_b b = false -> run_block n b st = Done (o, s) -> o <> OBreak) /\
  (forall x st o s, may_brk x = false -> run_stmt n x st = Done (o, s) -> o <> OBreak).
Proof.
  induction n as [|n [IHb IHs]]; [split; intros; discriminate|].
  split.
  - intros b st o s Hm H. destruct b as [|x rest].
    + cbn in H. injection H as <- _. discriminate.
    + cbn in Hm. apply orb_false_iff in Hm. destruct Hm as [Hx Hr].
      apply run_block_cons_inv in H. destruct H as (k & o1 & s1 & Hk & Hs & [[-> H]|[Ho H]]).
      * injection Hk as <-. eapply IHb; eauto.
      * injection Hk as <-. injection H as -> ->. eapply IHs; eauto.
  - intros x st o s Hm H. destruct x as [p|b|c a b|sel cases|body cont bi|c body upd|body| | |rv]; cbn [run_stmt] in H.
    + apply rbind_done in H. destruct H as (? & _ & H). injection H as <- _. discriminate.
    + eapply IHb; eauto.
    + cbn in Hm. apply orb_false_iff in Hm. destruct Hm as [Ha Hb].
      unfold if_step in H. apply rbind_done in H. destruct H as (b0 & _ & H).
      destruct b0; [exact (IHb a st o s Ha H)|exact (IHb b st o s Hb H)].
    + unfold switch_step in H. apply rbind_done in H. destruct H as (i & _ & H).
      destruct i as [i|]; [|injection H as <- _; discriminate].
      apply rbind_done in H. destruct H as ([o1 s1] & _ & H). unfold unbreak in H. cbn in H.
      injection H as <- _. destruct o1; discriminate.
    + apply run_loop_final in H. destruct H as [->|[v ->]]; discriminate.
    + apply run_while_final in H. destruct H as [->|[v ->]]; discriminate.
    + unfold doonce_step in H. apply rbind_done in H. destruct H as ([o1 s1] & _ & H). cbn in H.
      injection H as <- _. destruct o1; discriminate.
    + discriminate.
    + injection H as <- _. discriminate.
    + apply rbind_done in H. destruct H as (? & _ & H). injection H as <- _. discriminate.
Qed.

Lemma no_continue_all : forall n,
  (forall b st o s, may_cont_b b = false -> run_block n b st = Done (o, s) -> o <> OContinue) /\
  (forall x st o s, may_cont x = false -> run_stmt n x st = Done (o, s) -> o <> OContinue) /\
  (forall cs st o s, may_cont_c cs = false -> run_cases n cs st = Done (o, s) -> o <> OContinue).
Proof.
  induction n as [|n (IHb & IHs & IHc)]; [repeat split; intros; discriminate|].
  repeat split.
  - intros b st o s Hm H. destruct b as [|x rest].
    + cbn in H. injection H as <- _. discriminate.
    + cbn in Hm. apply orb_false_iff in Hm. destruct Hm as [Hx Hr].
      apply run_block_cons_inv in H. destruct H as (k & o1 & s1 & Hk & Hs & [[-> H]|[Ho H]]).
      * injection Hk as <-. eapply IHb; eauto.
      * injection Hk as <-. injection H as -> ->. eapply IHs; eauto.
  - intros x st o s Hm H. destruct x as [p|b|c a b|sel cases|body cont bi|c body upd|body| | |rv]; cbn [run_stmt] in H.
    + apply rbind_done in H. destruct H as (? & _ & H). injection H as <- _. discriminate.
    + eapply IHb; eauto.
    + cbn in Hm. apply orb_false_iff in Hm. destruct Hm as [Ha Hb].
      unfold if_step in H. apply rbind_done in H. destruct H as (b0 & _ & H).
      destruct b0; [exact (IHb a st o s Ha H)|exact (IHb b st o s Hb H)].
    + unfold switch_step in H. apply rbind_done in H. destruct H as (i & _ & H).
      destruct i as [i|]; [|injection H as <- _; discriminate].
      apply rbind_done in H. destruct H as ([o1 s1] & H1 & H). unfold unbreak in H. cbn in H.
      injection H as <- _. intros E.
      assert (o1 = OContinue) by (destruct o1; congruence). subst o1.
      eapply IHc; [|exact H1|reflexivity]. apply may_cont_c_skipn. exact Hm.
    + apply run_loop_final in H. destruct H as [->|[v ->]]; discriminate.
    + apply run_while_final in H. destruct H as [->|[v ->]]; discriminate.
    + unfold doonce_step in H. apply rbind_done in H. destruct H as ([o1 s1] & _ & H). cbn in H.
      injection H as <- _. destruct o1; discriminate.
    + injection H as <- _. discriminate.
    + discriminate.
    + apply rbind_done in H. destruct H as (? & _ & H). injection H as <- _. discriminate.
  - intros cs st o s Hm H. destruct cs as [|[body ft] rest].
    + cbn in H. injection H as <- _. discriminate.
    + cbn in Hm. apply orb_false_iff in Hm. destruct Hm as [Hx Hr].
      cbn [run_cases] in H. unfold case_step in H. apply rbind_done in H. destruct H as ([o1 s1] & H1 & H).
      cbn [fst snd] in H.
      assert (Hb : o1 <> OContinue) by (eapply IHb; eauto).
      destruct o1; try (injection H as <- _; congruence).
      destruct ft; [eapply IHc; eauto|injection H as <- _; discriminate].
Qed.

Lemma no_break_b n b st o s : may_brk_b b = false -> run_block n b st = Done (o, s) -> o <> OBreak.
Proof. apply (no_break_all n). Qed.
Lemma no_continue_b n b st o s : may_cont_b b = false -> run_block n b st = Done (o, s) -> o <> OContinue.
Proof. apply (no_continue_all n). Qed.
Lemma no_continue_c n cs st o s : may_cont_c cs = false -> run_cases n cs st = Done (o, s) -> o <> OContinue.
Proof. apply (no_continue_all n). Qed.

(* ---- lenses: one variable of the state ---- *)
Record lens (V : Type) := mklens {
  lget : state -> V;
  lset : V -> state -> state;
  l_get_set : forall v s, lget (lset v s) = v;
  l_set_get : forall s, lset (lget s) s = s;
  l_set_set : forall v w s, lset v (lset w s) = lset v s }.

(* equal on all variables except the one of the lens *)
Definition eqmod {V} (L : lens V) (s s' : state) : Prop := exists v, s' = lset L v s.

Lemma eqmod_refl {V} (L : lens V) s : eqmod L s s.
Proof. exists (lget L s). symmetry; apply l_set_get. Qed.
Lemma eqmod_sym {V} (L : lens V) s s' : eqmod L s s' -> eqmod L s' s.
Proof. intros [v ->]. exists (lget L s). rewrite l_set_set. symmetry; apply l_set_get. Qed.
Lemma eqmod_trans {V} (L : lens V) s1 s2 s3 : eqmod L s1 s2 -> eqmod L s2 s3 -> eqmod L s1 s3.
Proof. intros [v ->] [w ->]. exists w. apply l_set_set. Qed.

Definition rfmap {A B} (f : A -> B) (r : result A) : result B :=
  match r with Done x => Done (f x) | OutOfFuel => OutOfFuel | Fail m => Fail m end.
Definition on_state (f : state -> state) (r : outcome * state) : outcome * state := (fst r, f (snd r)).

Section Indep.
Variable V : Type.
Variable L : lens V.

(* the statement neither reads nor writes the variable: its primitives commute with assignments to it *)
Definition indep_prim (p : prim) : Prop := forall k v st, p k (lset L v st) = rfmap (lset L v) (p k st).
Definition indep_fn {A} (c : state -> result A) : Prop := forall v st, c (lset L v st) = c st.
Definition indep_s : stmt -> Prop := all_s indep_prim indep_fn indep_fn indep_fn.
Definition indep_b : block -> Prop := all_b indep_prim indep_fn indep_fn indep_fn.
Definition indep_c : list case -> Prop := all_c indep_prim indep_fn indep_fn indep_fn.

Lemma loop_step_frame (f : state -> state) rb rb' rc rc' (bi : option cond) ag ag' st :
  (forall s, rb' (f s) = rfmap (on_state f) (rb s)) ->
  (forall s, rc' (f s) = rfmap (on_state f) (rc s)) ->
  (forall s, ag' (f s) = rfmap (on_state f) (ag s)) ->
  (forall c s, bi = Some c -> c (f s) = c s) ->
  loop_step rb' rc' bi ag' (f st) = rfmap (on_state f) (loop_step rb rc bi ag st).
Proof.
  intros Hb Hc Ha Hbi. unfold loop_step. rewrite Hb.
  destruct (rb st) as [[o s1]| |m]; cbn; try reflexivity.
  assert (Hgo :
    (r2 <~ rc' (f s1) ;; match fst r2 with
      | ONormal => match bi with None => ag' (snd r2)
                   | Some c => b <~ c (snd r2) ;; if b : bool then Done (ONormal, snd r2) else ag' (snd r2) end
      | OReturn _ => Done r2
      | _ => Fail "break/continue escaping a continuing block" end) =
    rfmap (on_state f)
    (r2 <~ rc s1 ;; match fst r2 with
      | ONormal => match bi with None => ag (snd r2)
                   | Some c => b <~ c (snd r2) ;; if b : bool then Done (ONormal, snd r2) else ag (snd r2) end
      | OReturn _ => Done r2
      | _ => Fail "break/continue escaping a continuing block" end)).
  { rewrite Hc. destruct (rc s1) as [[o2 s2]| |m]; cbn; try reflexivity.
    destruct o2; cbn; try reflexivity.
    destruct bi as [c|]; [|apply Ha].
    rewrite (Hbi c s2 eq_refl). destruct (c s2) as [b| |m]; cbn; try reflexivity.
    destruct b; [reflexivity|apply Ha]. }
  destruct o; try reflexivity; exact Hgo.
Qed.

Definition frame_at (n : nat) : Prop :=
  (forall b st v, indep_b b -> run_block n b (lset L v st) = rfmap (on_state (lset L v)) (run_block n b st)) /\
  (forall s st v, indep_s s -> run_stmt n s (lset L v st) = rfmap (on_state (lset L v)) (run_stmt n s st)) /\
  (forall cs st v, indep_c cs -> run_cases n cs (lset L v st) = rfmap (on_state (lset L v)) (run_cases n cs st)) /\
  (forall b c bi st v, indep_b b -> indep_b c -> (forall c0, bi = Some c0 -> indep_fn c0) ->
     run_loop n b c bi (lset L v st) = rfmap (on_state (lset L v)) (run_loop n b c bi st)) /\
  (forall c b u st v, indep_fn c -> indep_b b -> indep_b u ->
     run_while n c b u (lset L v st) = rfmap (on_state (lset L v)) (run_while n c b u st)).

Lemma frame_all : forall n, frame_at n.
Proof.
  induction n as [|n (IHb & IHs & IHc & IHl & IHw)]; [repeat split; intros; reflexivity|].
  repeat split.
  - intros b st v Hi. cbn [run_block]. destruct b as [|s rest]; [reflexivity|].
    destruct Hi as [Hs Hr]. unfold seq_step. rewrite (IHs s st v Hs).
    destruct (run_stmt n s st) as [[o s1]| |m]; cbn; try reflexivity.
    destruct o; try reflexivity. apply IHb; exact Hr.
  - intros s st v Hi. cbn [run_stmt].
    destruct s as [p|b|c a b|sel cases|body cont bi|c body upd|body| | |rv].
    + rewrite (Hi n v st). destruct (p n st); reflexivity.
    + apply IHb; exact Hi.
    + destruct Hi as (Hc & Ha & Hb). unfold if_step. rewrite (Hc v st).
      destruct (c st) as [b0| |m]; cbn; try reflexivity. destruct b0; apply IHb; assumption.
    + destruct Hi as (Hsel & Hc). unfold switch_step. rewrite (Hsel v st).
      destruct (sel st) as [i| |m]; cbn; try reflexivity. destruct i as [i|]; [|reflexivity].
      rewrite (IHc (skipn i cases) st v (all_c_skipn _ _ _ _ i cases Hc)).
      destruct (run_cases n (skipn i cases) st) as [[o s1]| |m]; reflexivity.
    + destruct Hi as (Hb & Hc & Hbi). apply IHl; try assumption. intros c0 ->. exact Hbi.
    + destruct Hi as (Hc & Hb & Hu). apply IHw; assumption.
    + unfold doonce_step. rewrite (IHb body st v Hi).
      destruct (run_block n body st) as [[o s1]| |m]; reflexivity.
    + reflexivity.
    + reflexivity.
    + rewrite (Hi v st). destruct (rv st); reflexivity.
  - intros cs st v Hi. cbn [run_cases]. destruct cs as [|[body ft] rest]; [reflexivity|].
    destruct Hi as [Hb Hr]. unfold case_step. cbn [fst] in Hb. rewrite (IHb body st v Hb).
    destruct (run_block n body st) as [[o s1]| |m]; cbn; try reflexivity.
    destruct o; try reflexivity. destruct ft; [apply IHc; exact Hr|reflexivity].
  - intros b c bi st v Hb Hc Hbi. cbn [run_loop].
    apply loop_step_frame; intros.
    + apply IHb; exact Hb.
    + apply IHb; exact Hc.
    + apply IHl; assumption.
    + apply (Hbi c0 H).
  - intros c b u st v Hc Hb Hu. cbn [run_while]. unfold while_step. rewrite (Hc v st).
    destruct (c st) as [b0| |m]; cbn; try reflexivity. destruct b0; [|reflexivity].
    apply loop_step_frame; intros.
    + apply IHb; exact Hb.
    + apply IHb; exact Hu.
    + apply IHw; assumption.
    + discriminate.
Qed.

(* the frame lemma: running an independent block commutes with an assignment to the variable *)
Lemma frame_b n b st v o s1 :
  indep_b b -> run_block n b st = Done (o, s1) -> run_block n b (lset L v st) = Done (o, lset L v s1).
Proof. intros Hi H. destruct (frame_all n) as (F & _). rewrite (F b st v Hi), H. reflexivity. Qed.
Lemma frame_s n s st v o s1 :
  indep_s s -> run_stmt n s st = Done (o, s1) -> run_stmt n s (lset L v st) = Done (o, lset L v s1).
Proof. intros Hi H. destruct (frame_all n) as (_ & F & _). rewrite (F s st v Hi), H. reflexivity. Qed.
Lemma frame_c n cs st v o s1 :
  indep_c cs -> run_cases n cs st = Done (o, s1) -> run_cases n cs (lset L v st) = Done (o, lset L v s1).
Proof. intros Hi H. destruct (frame_all n) as (_ & _ & F & _). rewrite (F cs st v Hi), H. reflexivity. Qed.

(* and conversely: a run from [lset v st] is the image of a run from [st] *)
Lemma frame_b_inv n b st v o s1' :
  indep_b b -> run_block n b (lset L v st) = Done (o, s1') ->
  exists s1, run_block n b st = Done (o, s1) /\ s1' = lset L v s1.
Proof.
  intros Hi H. destruct (frame_all n) as (F & _). rewrite (F b st v Hi) in H.
  destruct (run_block n b st) as [[o' s1]| |m]; cbn in H; try discriminate.
  injection H as <- <-. exists s1; auto.
Qed.
Lemma frame_c_inv n cs st v o s1' :
  indep_c cs -> run_cases n cs (lset L v st) = Done (o, s1') ->
  exists s1, run_cases n cs st = Done (o, s1) /\ s1' = lset L v s1.
Proof.
  intros Hi H. destruct (frame_all n) as (_ & _ & F & _). rewrite (F cs st v Hi) in H.
  destruct (run_cases n cs st) as [[o' s1]| |m]; cbn in H; try discriminate.
  injection H as <- <-. exists s1; auto.
Qed.

Lemma frame_ev_b b st v o s1 : indep_b b -> evals_b b st (o, s1) -> evals_b b (lset L v st) (o, lset L v s1).
Proof. intros Hi [n H]. exists n. apply frame_b; assumption. Qed.
Lemma frame_ev_b_inv b st v o s1' :
  indep_b b -> evals_b b (lset L v st) (o, s1') -> exists s1, evals_b b st (o, s1) /\ s1' = lset L v s1.
Proof. intros Hi [n H]. destruct (@frame_b_inv n b st v o s1' Hi H) as (s1 & H1 & E). exists s1. split; [exists n; exact H1|exact E]. Qed.

(* assignments to the variable, and tests of it *)
Definition assign (f : state -> V) : stmt := Act (fun st => Some (lset L (f st) st)).
Definition set_to (v : V) : stmt := assign (fun _ => v).
Definition test (f : V -> bool) : cond := fun st => Done (f (lget L st)).

Lemma mono_assign f : mono_s (assign f).
Proof. apply mono_Act. Qed.
Lemma ev_assign f st : evals_s (assign f) st (ONormal, lset L (f st) st).
Proof. apply ev_act. reflexivity. Qed.
Lemma run_assign k f st : run_stmt (S k) (assign f) st = Done (ONormal, lset L (f st) st).
Proof. reflexivity. Qed.
End Indep.

End Lang.

Arguments ONormal {R}. Arguments OBreak {R}. Arguments OContinue {R}. Arguments OReturn {R} r.
Arguments Prim {state R} p. Arguments Block {state R} b. Arguments If {state R} c a b.
Arguments Switch {state R} sel cases. Arguments Loop {state R} body cont bi. Arguments While {state R} c body upd.
Arguments DoOnce {state R} body. Arguments Break {state R}. Arguments Continue {state R}. Arguments Return {state R} rv.
Arguments Act {state R} a. Arguments WhileTrue {state R} b.
Arguments assign {state R V} L f. Arguments set_to {state R V} L v. Arguments test {state V} L f.
Arguments run_block_mono [state R n n' b st r] _ _ _.
Arguments run_stmt_mono [state R n n' s st r] _ _ _.
Arguments run_cases_mono [state R n n' cs st r] _ _ _.
Arguments run_loop_mono [state R n n' b c bi st r] _ _ _ _.
Arguments run_while_mono [state R n n' c b u st r] _ _ _ _.
Arguments frame_b [state R V] L [n b st] v [o s1] _ _.
Arguments frame_s [state R V] L [n s st] v [o s1] _ _.
Arguments frame_c [state R V] L [n cs st] v [o s1] _ _.
Arguments frame_b_inv [state R V] L [n b st v o s1'] _ _.
Arguments frame_c_inv [state R V] L [n cs st v o s1'] _ _.
Arguments no_break_b [state R n b st o s] _ _ _.
Arguments no_continue_b [state R n b st o s] _ _ _.
Arguments no_continue_c [state R n cs st o s] _ _ _.
Arguments ev_switch_some [state R] sel cs [st i r] _ _.
Arguments ev_switch_none [state R] sel cs [st] _.
Arguments may_cont_c_skipn [state R] i cs _.
