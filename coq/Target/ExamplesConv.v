(* Non-vacuity of the two-direction encoding theorems of ContinueForwardConv.v / SwitchFormsConv.v, on the concrete
   state and statements of Target/Examples.v: a single-body switch (one empty fall-through label, then a body with a
   `continue` on one path and a store on the other), its do { } while(false) / should_continue form, and the case
   breaks inserted into the two-case switch of Examples.v.  Every side condition is proved and both forms are run. *)
From Coq Require Import List ZArith Bool Lia PeanoNat.
Import ListNotations.
Require Import Naga.IR.Values Naga.Target.Structured Naga.Target.ContinueForward Naga.Target.SwitchForms
        Naga.Target.ContinueForwardConv Naga.Target.SwitchFormsConv Naga.Target.Examples.
Open Scope list_scope.
Open Scope nat_scope.

Definition ex_pre : list (list xstmt * bool) := [([], true)].
Definition ex_plain_single : list xstmt := [a_store; Break; a_incr].

Lemma ex_empty_labels : empty_labels ex_pre.
Proof. repeat constructor. Qed.
Lemma ex_selects : forall st, selects ex_sel ex_pre st.
Proof. intros st. unfold selects, ex_sel. eexists. split; [reflexivity|]. cbn. destruct (Nat.odd (x_i st)); lia. Qed.
Lemma ex_indep_wbody : indep_b flagL ex_wbody.
Proof. cbn. repeat split; try exact I; intros; reflexivity. Qed.
Lemma ex_plain_single_no_continue : may_cont_b ex_plain_single = false.
Proof. reflexivity. Qed.

(* single-body switch with a continue: odd i -> Continue (flag left set), even i -> the store (flag left false) *)
Lemma ex_single_switch_continue_run :
  run_stmt 10 (Switch ex_sel (ex_pre ++ [(ex_wbody, false)])) (mkx 1 0 false (0, 0)%Z)
  = Done (OContinue, mkx 1 0 false (0, 0)%Z).
Proof. vm_compute. reflexivity. Qed.
Lemma ex_fwd_once_continue_run :
  run_block 12 (fwd_once flagL ex_wbody) (mkx 1 0 true (0, 0)%Z) = Done (OContinue, mkx 1 0 true (0, 0)%Z).
Proof. vm_compute. reflexivity. Qed.
Lemma ex_single_switch_store_run :
  run_stmt 10 (Switch ex_sel (ex_pre ++ [(ex_wbody, false)])) (mkx 2 5 true (0, 0)%Z)
  = Done (ONormal, mkx 2 7 true (0, 0)%Z).
Proof. vm_compute. reflexivity. Qed.
Lemma ex_fwd_once_store_run :
  run_block 12 (fwd_once flagL ex_wbody) (mkx 2 5 true (0, 0)%Z) = Done (ONormal, mkx 2 7 false (0, 0)%Z).
Proof. vm_compute. reflexivity. Qed.

(* single-body switch without continue = DoOnce: the Break ends the switch, a_incr is not reached *)
Lemma ex_single_switch_plain_run :
  run_stmt 10 (Switch ex_sel (ex_pre ++ [(ex_plain_single, false)])) (mkx 2 5 true (0, 0)%Z)
  = Done (ONormal, mkx 2 7 true (0, 0)%Z).
Proof. vm_compute. reflexivity. Qed.
Lemma ex_do_once_plain_run :
  run_stmt 10 (DoOnce ex_plain_single) (mkx 2 5 true (0, 0)%Z) = Done (ONormal, mkx 2 7 true (0, 0)%Z).
Proof. vm_compute. reflexivity. Qed.

(* inserted case breaks: ex_cases = [([Continue], false); ([a_store], false)]: the first case ends in a terminator
   (nothing inserted), the second gets a Break; without it the emitted (always falling through) cases would differ *)
Lemma ex_enc_cases : enc_cases ex_cases = [([Continue], true); ([a_store; Break], true)].
Proof. reflexivity. Qed.
Lemma ex_case_breaks_ir_run :
  run_stmt 10 (Switch ex_sel ex_cases) (mkx 2 5 true (0, 0)%Z) = Done (ONormal, mkx 2 7 true (0, 0)%Z).
Proof. vm_compute. reflexivity. Qed.
Lemma ex_case_breaks_enc_run :
  run_stmt 10 (Switch ex_sel (enc_cases ex_cases)) (mkx 2 5 true (0, 0)%Z) = Done (ONormal, mkx 2 7 true (0, 0)%Z).
Proof. vm_compute. reflexivity. Qed.
