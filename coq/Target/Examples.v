(* Non-vacuity of the encoding theorems: one concrete loop with a `continue` on one path and a store on another,
   over a concrete state with a flag and a counter variable; every side condition of the theorems is proved for it
   and both forms are run.

     state = (i, acc, flag, ctr);    loop {  if (i >= 5) { break; }
                                             if (i is odd) { continue; }          // skips the store
                                             acc = acc + i;                        // the store
                                             continuing { i = i + 1; break if (acc > 100); } }              *)
From Coq Require Import List ZArith Bool Lia PeanoNat.
Import ListNotations.
Require Import Naga.IR.Values Naga.Target.Structured Naga.Target.LoopInit Naga.Target.LoopBound
        Naga.Target.ContinueForward Naga.Target.SwitchForms Naga.Target.Desugar.
Open Scope list_scope.
Open Scope nat_scope.

Record xstate := mkx { x_i : nat; x_acc : nat; x_flag : bool; x_ctr : (Z * Z)%type }.

Definition flagL : lens xstate bool.
Proof.
  refine (@mklens xstate bool x_flag (fun v s => mkx (x_i s) (x_acc s) v (x_ctr s)) _ _ _).
  - reflexivity.
  - intros [i a f c]; reflexivity.
  - reflexivity.
Defined.

Definition ctrL : lens xstate (Z * Z).
Proof.
  refine (@mklens xstate (Z * Z) x_ctr (fun v s => mkx (x_i s) (x_acc s) (x_flag s) v) _ _ _).
  - reflexivity.
  - intros [i a f c]; reflexivity.
  - reflexivity.
Defined.

Notation xstmt := (Structured.stmt xstate unit).

Definition c_ge5 : cond xstate := fun s => Done (5 <=? x_i s).
Definition c_odd : cond xstate := fun s => Done (Nat.odd (x_i s)).
Definition c_big : cond xstate := fun s => Done (100 <? x_acc s).
Definition a_store : xstmt := Act (fun s => Some (mkx (x_i s) (x_acc s + x_i s) (x_flag s) (x_ctr s))).
Definition a_incr : xstmt := Act (fun s => Some (mkx (S (x_i s)) (x_acc s) (x_flag s) (x_ctr s))).

Definition ex_body : list xstmt := [If c_ge5 [Break] []; If c_odd [Continue] []; a_store].
Definition ex_cont : list xstmt := [a_incr].
Definition ex_bi : option (cond xstate) := Some c_big.
Definition ex_loop : xstmt := Loop ex_body ex_cont ex_bi.
Definition ex_start : xstate := mkx 0 0 true (7, 7)%Z.

Lemma ex_mono_body : mono_b ex_body.
Proof. cbn. repeat split; try exact I; intros ? ? ? _; apply le_res_refl. Qed.
Lemma ex_mono_cont : mono_b ex_cont.
Proof. cbn. repeat split; try exact I; intros ? ? ? _; apply le_res_refl. Qed.

Lemma ex_indep_flag_body : indep_b flagL ex_body.
Proof. cbn. repeat split; try exact I; intros; reflexivity. Qed.
Lemma ex_indep_flag_cont : indep_b flagL ex_cont.
Proof. cbn. repeat split; try exact I; intros; reflexivity. Qed.
Lemma ex_indep_flag_bi : forall c, ex_bi = Some c -> indep_fn flagL c.
Proof. intros c E. injection E as <-. intros v s. reflexivity. Qed.
Lemma ex_indep_ctr_body : indep_b ctrL ex_body.
Proof. cbn. repeat split; try exact I; intros; reflexivity. Qed.

(* the IR form and the loop_init form compute the same: i = 5, acc = 0 + 2 + 4 = 6 *)
Lemma ex_ir_run : run_stmt 40 ex_loop ex_start = Done (ONormal, mkx 5 6 true (7, 7)%Z).
Proof. vm_compute. reflexivity. Qed.
Lemma ex_loop_init_run :
  run_block 40 (loop_init_enc flagL ex_body ex_cont ex_bi) ex_start = Done (ONormal, mkx 5 6 false (7, 7)%Z).
Proof. vm_compute. reflexivity. Qed.

(* a while(true) loop whose body is the gate-free part, for the counter *)
Definition ex_plain_body : list xstmt := [If c_ge5 [Break] []; a_incr; If c_odd [Continue] []; a_store].
Lemma ex_mono_plain : mono_b ex_plain_body.
Proof. cbn. repeat split; try exact I; intros ? ? ? _; apply le_res_refl. Qed.
Lemma ex_indep_ctr_plain : indep_b ctrL ex_plain_body.
Proof. cbn. repeat split; try exact I; intros; reflexivity. Qed.
Lemma ex_bounded_run :
  exists p, run_block 40 (bounded_enc ctrL ex_plain_body) ex_start = Done (ONormal, lset ctrL p (mkx 5 6 true (7, 7)%Z)).
Proof. eexists. vm_compute. reflexivity. Qed.

(* a switch inside the loop with a continue in one case and a store in another *)
Definition ex_sel : xstate -> result (option nat) := fun s => Done (Some (if Nat.odd (x_i s) then 0 else 1)).
Definition ex_cases : list (list xstmt * bool) := [([Continue], false); ([a_store], false)].
Lemma ex_mono_cases : mono_c ex_cases.
Proof. cbn. repeat split; try exact I; intros ? ? ? _; apply le_res_refl. Qed.
Lemma ex_indep_cases : indep_c flagL ex_cases.
Proof. cbn. repeat split; try exact I; intros; reflexivity. Qed.
Lemma ex_indep_sel : indep_fn flagL ex_sel.
Proof. intros v s. reflexivity. Qed.
Lemma ex_switch_continue_run :
  run_stmt 10 (Switch ex_sel ex_cases) (mkx 1 0 false (0, 0)%Z) = Done (OContinue, mkx 1 0 false (0, 0)%Z).
Proof. vm_compute. reflexivity. Qed.
Lemma ex_fwd_switch_run :
  run_block 12 (fwd_switch flagL ex_sel ex_cases) (mkx 1 0 false (0, 0)%Z) = Done (OContinue, mkx 1 0 true (0, 0)%Z).
Proof. vm_compute. reflexivity. Qed.

(* while (i < 5) { if odd continue; store } with update i++ *)
Definition c_lt5 : cond xstate := fun s => Done (x_i s <? 5).
Definition ex_wbody : list xstmt := [If c_odd [Continue] []; a_store].
Lemma ex_mono_wbody : mono_b ex_wbody.
Proof. cbn. repeat split; try exact I; intros ? ? ? _; apply le_res_refl. Qed.
Lemma ex_while_run : run_stmt 40 (While c_lt5 ex_wbody ex_cont) ex_start = Done (ONormal, mkx 5 6 true (7, 7)%Z).
Proof. vm_compute. reflexivity. Qed.
Lemma ex_lowered_run : run_stmt 44 (lowered c_lt5 ex_wbody ex_cont) ex_start = Done (ONormal, mkx 5 6 true (7, 7)%Z).
Proof. vm_compute. reflexivity. Qed.
