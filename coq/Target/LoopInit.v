(* The loop_init encoding of the text back ends (hlsl/msl/glsl internal/codegen/statements.go, writeLoop /
   writeLoopStatement): the IR loop  Loop{ body; continuing; break_if }  is written as

       bool loop_init = true;
       while(true) {
           if (!loop_init) { continuing; if (break_if) { break; } }
           loop_init = false;
           body
       }

   Theorem (both directions, all bodies / continuing blocks / break_if conditions / states / fuels): the
   encoded form computes exactly what the IR form computes; the final states agree on every variable and the
   flag ends up false.  Side conditions, all explicit: the flag is FRESH (body, continuing and break_if are
   independent of the lens L = the flag variable); primitives are fuel-monotone; for the converse the
   continuing block has no escaping break/continue (the IR validator's rule; IR/Sem.v makes it a failure). *)
From Coq Require Import List Bool Lia PeanoNat Wf_nat.
Import ListNotations.
Require Import Naga.IR.Values Naga.Target.Structured.
Open Scope list_scope.
Open Scope nat_scope.

Section LoopInit.
Variables state R : Type.
Variable L : lens state bool.
Notation stmt := (stmt state R).
Notation block := (list stmt).
Variables body cont : block.
Variable bi : option (cond state).

Definition break_if : block := match bi with Some c => [If c [Break] []] | None => [] end.
Definition gate : stmt := If (test L negb) (cont ++ break_if) [].
Definition clear : stmt := set_to L false.
Definition li_body : block := gate :: clear :: body.
(* what naga writes for Loop body cont bi when cont <> [] or bi <> None *)
Definition loop_init_enc : block := [set_to L true; WhileTrue li_body].

Hypothesis Mb : mono_b body.
Hypothesis Mc : mono_b cont.
Hypothesis Ib : indep_b L body.
Hypothesis Ic : indep_b L cont.
Hypothesis Ibi : forall c, bi = Some c -> indep_fn L c.

Lemma mono_break_if : mono_b break_if.
Proof. unfold break_if. destruct bi; cbn; tauto. Qed.
Lemma mono_gate : mono_s gate.
Proof.
  cbn. split; [exact I|]. split; [|exact I].
  apply all_b_app. split; [exact Mc|exact mono_break_if].
Qed.
Lemma mono_clear : mono_s clear.
Proof. apply mono_assign. Qed.
Lemma mono_li_body : mono_b li_body.
Proof. split; [exact mono_gate|]. split; [exact mono_clear|exact Mb]. Qed.
Lemma mono_loop_init_enc : mono_b loop_init_enc.
Proof. split; [apply mono_assign|]. split; [|exact I]. cbn. split; [exact mono_li_body|]. split; exact I. Qed.

(* ---- forward: IR form => encoded form ---- *)

(* the rest of an iteration of the encoded loop after the gate, followed by the encoded loop *)
Inductive mid (X : state) : outcome R * state -> Prop :=
| M_break s1 : evals_b (clear :: body) X (OBreak, s1) -> mid X (ONormal, s1)
| M_ret v s1 : evals_b (clear :: body) X (OReturn v, s1) -> mid X (OReturn v, s1)
| M_again o s1 r : evals_b (clear :: body) X (o, s1) -> goes_on o -> evals_l li_body [] None s1 r -> mid X r.

Lemma mid_loop X0 X r : evals_s gate X0 (ONormal, X) -> mid X r -> evals_l li_body [] None X0 r.
Proof.
  intros Hg Hm. assert (Mr : mono_b (clear :: body)) by (split; [exact mono_clear|exact Mb]).
  destruct Hm as [s1 H|v s1 H|o s1 r H Hgo Hl].
  - apply ev_whiletrue_break. eapply ev_cons_normal; eauto using mono_gate.
  - apply ev_whiletrue_ret. eapply ev_cons_normal; eauto using mono_gate.
  - eapply ev_whiletrue_again; [exact mono_li_body| |exact Hgo|exact Hl].
    eapply ev_cons_normal; eauto using mono_gate.
Qed.

Lemma clear_body_ev st v o s1 :
  evals_b body st (o, s1) -> evals_b (clear :: body) (lset L v st) (o, lset L false s1).
Proof.
  intros H. eapply ev_cons_normal; [exact mono_clear|exact Mb|apply ev_assign|].
  cbn. rewrite l_set_set. apply frame_ev_b; assumption.
Qed.

Lemma gate_skipped st : evals_s gate (lset L true st) (ONormal, lset L true st).
Proof. apply ev_if_false; [|apply ev_nil]. unfold test. rewrite l_get_set. reflexivity. Qed.

Lemma break_if_false s2 : bi_false bi s2 -> evals_b break_if s2 (ONormal, s2).
Proof.
  unfold break_if, bi_false. destruct bi as [c|]; intros H; [|apply ev_nil].
  eapply ev_cons_normal; [cbn; tauto|exact I| |apply ev_nil].
  apply ev_if_false; [exact H|apply ev_nil].
Qed.

Lemma break_if_true c s2 : bi = Some c -> c s2 = Done true -> evals_b break_if s2 (OBreak, s2).
Proof.
  unfold break_if. intros -> H. apply ev_cons_abrupt; [discriminate|].
  apply ev_if_true; [exact H|]. apply ev_cons_abrupt; [discriminate|apply ev_break].
Qed.

Lemma bi_false_frame v s2 : bi_false bi s2 -> bi_false bi (lset L v s2).
Proof. unfold bi_false. destruct bi as [c|] eqn:E; [|auto]. intros H. rewrite (Ibi c eq_refl). exact H. Qed.

Lemma gate_fires s1 r :
  evals_b (cont ++ break_if) (lset L false s1) r -> evals_s gate (lset L false s1) r.
Proof. intros H. apply ev_if_true; [|exact H]. unfold test. rewrite l_get_set. reflexivity. Qed.

Lemma forward_mid : forall n st o s',
  run_loop n body cont bi st = Done (o, s') -> forall v, mid (lset L v st) (o, lset L false s').
Proof.
  induction n as [|n IH]; intros st o s' H v; [discriminate|].
  cbn [run_loop] in H. apply loop_step_spec in H.
  remember (o, s') as r eqn:Er.
  destruct H as [s1 Hb|w s1 Hb|o1 s1 w s2 Hb Hg Hc|o1 s1 s2 c Hb Hg Hc Hbi Hcb|o1 s1 s2 r Hb Hg Hc Hbi Ha].
  - injection Er as <- <-. apply M_break. apply clear_body_ev. exists n; exact Hb.
  - injection Er as <- <-. apply M_ret. apply clear_body_ev. exists n; exact Hb.
  - injection Er as <- <-. eapply M_again; [apply clear_body_ev; exists n; exact Hb|exact Hg|].
    apply ev_whiletrue_ret. apply ev_cons_abrupt; [discriminate|]. apply gate_fires.
    apply ev_app_abrupt; [exact Mc|exact mono_break_if|discriminate|].
    apply frame_ev_b; [exact Ic|exists n; exact Hc].
  - injection Er as <- <-. eapply M_again; [apply clear_body_ev; exists n; exact Hb|exact Hg|].
    apply ev_whiletrue_break. apply ev_cons_abrupt; [discriminate|]. apply gate_fires.
    eapply ev_app_normal; [exact Mc|exact mono_break_if|apply frame_ev_b; [exact Ic|exists n; exact Hc]|].
    eapply break_if_true; [exact Hbi|]. rewrite (Ibi c Hbi). exact Hcb.
  - subst r. eapply M_again; [apply clear_body_ev; exists n; exact Hb|exact Hg|].
    apply mid_loop with (X := lset L false s2).
    + apply gate_fires.
      eapply ev_app_normal; [exact Mc|exact mono_break_if|apply frame_ev_b; [exact Ic|exists n; exact Hc]|].
      apply break_if_false. apply bi_false_frame. exact Hbi.
    + apply (IH s2 o s' Ha false).
Qed.

Theorem loop_init_forward n st o s' :
  run_stmt n (Loop body cont bi) st = Done (o, s') ->
  evals_b loop_init_enc st (o, lset L false s').
Proof.
  intros H. destruct n as [|n]; [discriminate|].
  change (run_loop n body cont bi st = Done (o, s')) in H.
  pose proof (forward_mid _ _ _ _ H true) as Hm.
  eapply ev_cons_normal; [apply mono_assign|split; [|exact I]; cbn; split; [exact mono_li_body|split; exact I]|apply ev_assign|].
  cbn. apply ev_single. apply ev_loop. eapply mid_loop; [apply gate_skipped|exact Hm].
Qed.

Lemma break_if_cases :
  (bi = None /\ break_if = []) \/ (exists c, bi = Some c /\ break_if = [If c [Break] []]).
Proof. unfold break_if. destruct bi as [c|]; [right; exists c; auto|left; auto]. Qed.

(* ---- converse: encoded form => IR form ---- *)
Hypothesis NBc : may_brk_b cont = false.
Hypothesis NCc : may_cont_b cont = false.

(* the IR loop after its body went through: continuing, break_if, the loop again *)
Inductive pend (s1 : state) : outcome R * state -> Prop :=
| P_cret v s2 : evals_b cont s1 (OReturn v, s2) -> pend s1 (OReturn v, s2)
| P_exit s2 c : evals_b cont s1 (ONormal, s2) -> bi = Some c -> c s2 = Done true -> pend s1 (ONormal, s2)
| P_again s2 r : evals_b cont s1 (ONormal, s2) -> bi_false bi s2 -> evals_l body cont bi s2 r -> pend s1 r.

Lemma pend_loop st o s1 r : evals_b body st (o, s1) -> goes_on o -> pend s1 r -> evals_l body cont bi st r.
Proof.
  intros Hb Hg Hp. apply ev_loop_intro; [exact Mb|exact Mc|].
  destruct Hp as [v s2 Hc|s2 c Hc Hbi Hcb|s2 r Hc Hbi Hl].
  - eapply LE_cret; eauto.
  - eapply LE_exit; eauto.
  - eapply LE_again; eauto.
Qed.

(* the rest of an iteration after the gate: clear; body; then the encoded loop with less fuel *)
Lemma after_gate k :
  (forall s1 r, run_loop k li_body [] None (lset L false s1) = Done r ->
     exists o s', r = (o, lset L false s') /\ pend s1 (o, s')) ->
  forall st v o1 X1 r,
  run_block k (clear :: body) (lset L v st) = Done (o1, X1) ->
  ((o1 = OBreak /\ r = (ONormal, X1)) \/ (exists w, o1 = OReturn w /\ r = (o1, X1)) \/
   (goes_on o1 /\ run_loop k li_body [] None X1 = Done r)) ->
  exists o s', r = (o, lset L false s') /\ evals_l body cont bi st (o, s').
Proof.
  intros IH st v o1 X1 r H Hr.
  apply run_block_cons_inv in H. destruct H as (k1 & oc & sc & -> & Hcl & Hrest).
  unfold clear, set_to in Hcl. destruct k1 as [|k2]; [discriminate|]. rewrite run_assign in Hcl.
  injection Hcl as <- <-. destruct Hrest as [[_ Hbody]|[Hx _]]; [|congruence].
  rewrite l_set_set in Hbody.
  destruct (frame_b_inv L Ib Hbody) as (s1 & Hb & ->).
  assert (Eb : evals_b body st (o1, s1)) by (exists (S k2); exact Hb).
  destruct Hr as [[-> ->]|[(w & -> & ->)|[Hg Hl]]].
  - exists ONormal, s1. split; [reflexivity|]. apply ev_loop_intro; [exact Mb|exact Mc|]. apply LE_break. exact Eb.
  - exists (OReturn w), s1. split; [reflexivity|]. apply ev_loop_intro; [exact Mb|exact Mc|]. apply LE_ret. exact Eb.
  - destruct (IH s1 r Hl) as (o & s' & -> & Hp). exists o, s'. split; [reflexivity|].
    eapply pend_loop; eauto.
Qed.

Lemma converse_pend : forall n s1 r,
  run_loop n li_body [] None (lset L false s1) = Done r ->
  exists o s', r = (o, lset L false s') /\ pend s1 (o, s').
Proof.
  induction n as [n IHn] using lt_wf_ind. intros s1 r H.
  apply run_whiletrue_inv in H. destruct H as (k & ob & Xb & -> & Hblk & Hr).
  assert (IHk : forall s r, run_loop k li_body [] None (lset L false s) = Done r ->
                 exists o s', r = (o, lset L false s') /\ pend s (o, s')).
  { intros s r0 H0. apply (IHn k); [lia|exact H0]. }
  unfold li_body in Hblk. apply run_block_cons_inv in Hblk.
  destruct Hblk as (k1 & og & Xg & -> & Hgate & Hrest).
  apply run_if_inv in Hgate. destruct Hgate as (k2 & bb & -> & Htest & Hgb).
  unfold test in Htest. rewrite l_get_set in Htest. injection Htest as <-. cbn [negb] in Hgb.
  apply run_block_app_inv in Hgb; [|exact mono_break_if].
  destruct Hgb as [(X2 & Hc & Hbif)|[Hne Hc]].
  - (* continuing went through *)
    destruct (frame_b_inv L Ic Hc) as (s2 & Hc' & ->).
    assert (Ec : evals_b cont s1 (ONormal, s2)) by (exists k2; exact Hc').
    destruct break_if_cases as [[Ebi Eb]|(c & Ebi & Eb)]; rewrite Eb in Hbif.
    + apply run_block_nil_inv in Hbif. injection Hbif as -> ->.
      destruct Hrest as [[_ Hrest]|[Hx _]]; [|congruence].
      assert (Hrest' : run_block (S (S k2)) (clear :: body) (lset L false s2) = Done (ob, Xb)).
      { refine (run_block_mono _ _ Hrest); [split; [exact mono_clear|exact Mb]|lia]. }
      destruct (after_gate _ IHk _ _ _ _ _ Hrest' Hr) as (o & s' & -> & Hl).
      exists o, s'. split; [reflexivity|]. eapply P_again; [exact Ec| |exact Hl].
      unfold bi_false. rewrite Ebi. exact I.
    + apply run_block_cons_inv in Hbif. destruct Hbif as (k3 & oi & si & -> & Hif & Hafter).
      apply run_if_inv in Hif. destruct Hif as (k4 & cb & -> & Hcv & Hbr).
      rewrite (Ibi c Ebi) in Hcv. destruct cb.
      * (* break_if holds: the gate breaks *)
        apply run_block_cons_inv in Hbr. destruct Hbr as (k5 & o5 & s5 & -> & Hbk & Hb5).
        destruct k5; [discriminate|]. cbn in Hbk. injection Hbk as <- <-.
        destruct Hb5 as [[Hx _]|[_ Hb5]]; [discriminate|]. injection Hb5 as -> ->.
        destruct Hafter as [[Hx _]|[_ Hafter]]; [discriminate|]. injection Hafter as -> ->.
        destruct Hrest as [[Hx _]|[_ Hrest]]; [discriminate|]. injection Hrest as -> ->.
        destruct Hr as [[_ ->]|[(w & Hx & _)|[[Hx|Hx] _]]]; try discriminate.
        exists ONormal, s2. split; [reflexivity|]. eapply P_exit; eauto.
      * apply run_block_nil_inv in Hbr. injection Hbr as -> ->.
        destruct Hafter as [[_ Hafter]|[Hx _]]; [|congruence].
        apply run_block_nil_inv in Hafter. injection Hafter as -> ->.
        destruct Hrest as [[_ Hrest]|[Hx _]]; [|congruence].
        assert (Hrest' : run_block (S (S (S (S k4)))) (clear :: body) (lset L false s2) = Done (ob, Xb)).
        { refine (run_block_mono _ _ Hrest); [split; [exact mono_clear|exact Mb]|lia]. }
        destruct (after_gate _ IHk _ _ _ _ _ Hrest' Hr) as (o & s' & -> & Hl).
        exists o, s'. split; [reflexivity|]. eapply P_again; [exact Ec| |exact Hl].
        unfold bi_false. rewrite Ebi. exact Hcv.
  - (* continuing ended abruptly: only a return is possible *)
    destruct og as [| | |w]; cbn in Hne; try congruence.
    + exfalso. destruct (frame_b_inv L Ic Hc) as (s2 & Hc' & _). exact (no_break_b NBc Hc' eq_refl).
    + exfalso. destruct (frame_b_inv L Ic Hc) as (s2 & Hc' & _). exact (no_continue_b NCc Hc' eq_refl).
    + destruct (frame_b_inv L Ic Hc) as (s2 & Hc' & ->).
      destruct Hrest as [[Hx _]|[_ Hrest]]; [discriminate|]. injection Hrest as -> ->.
      destruct Hr as [[Hx _]|[(w' & Hw & ->)|[[Hx|Hx] _]]]; try discriminate.
      exists (OReturn w), s2. split; [reflexivity|]. apply P_cret. exists k2; exact Hc'.
Qed.

Theorem loop_init_converse n st r :
  run_block n loop_init_enc st = Done r ->
  exists o s', r = (o, lset L false s') /\ evals_s (Loop body cont bi) st (o, s').
Proof.
  intros H. unfold loop_init_enc in H.
  apply run_block_cons_inv in H. destruct H as (k & o0 & X0 & -> & Hset & Hrest).
  destruct k as [|k]; [discriminate|]. unfold set_to in Hset. rewrite run_assign in Hset. injection Hset as <- <-.
  destruct Hrest as [[_ Hrest]|[Hx _]]; [|congruence].
  apply run_block_cons_inv in Hrest. destruct Hrest as (k1 & ol & Xl & Ek & Hloop & Hend).
  injection Ek as ->.
  assert (Hr : r = (ol, Xl)).
  { destruct Hend as [[-> Hend]|[_ Hend]]; [|exact Hend]. apply run_block_nil_inv in Hend. exact Hend. }
  subst r. destruct k1 as [|k2]; [discriminate|]. unfold WhileTrue in Hloop. cbn [run_stmt] in Hloop.
  (* first iteration: the gate is skipped *)
  apply run_whiletrue_inv in Hloop. destruct Hloop as (k3 & ob & Xb & -> & Hblk & Hr).
  unfold li_body in Hblk. apply run_block_cons_inv in Hblk.
  destruct Hblk as (k4 & og & Xg & -> & Hgate & Hrest).
  apply run_if_inv in Hgate. destruct Hgate as (k5 & bb & -> & Htest & Hgb).
  unfold test in Htest. rewrite l_get_set in Htest. injection Htest as <-. cbn [negb] in Hgb.
  apply run_block_nil_inv in Hgb. injection Hgb as -> ->.
  destruct Hrest as [[_ Hrest]|[Hx _]]; [|congruence].
  assert (Hrest' : run_block (S (S k5)) (clear :: body) (lset L true st) = Done (ob, Xb)).
  { refine (run_block_mono _ _ Hrest); [split; [exact mono_clear|exact Mb]|lia]. }
  destruct (after_gate _ (converse_pend (S (S k5))) _ _ _ _ _ Hrest' Hr) as (o & s' & E & Hl).
  exists o, s'. split; [exact E|]. apply ev_loop. exact Hl.
Qed.

(* both directions in one statement: the encoded text terminates with outcome o in state X iff the IR loop
   terminates with outcome o in a state that differs from X at most in the flag (which is false in X) *)
Theorem loop_init_encoding_equiv st o X :
  evals_b loop_init_enc st (o, X) <->
  exists s', X = lset L false s' /\ evals_s (Loop body cont bi) st (o, s').
Proof.
  split.
  - intros [n H]. destruct (loop_init_converse _ _ _ H) as (o2 & s2 & E & Hl).
    injection E as -> ->. exists s2. auto.
  - intros (s' & -> & [n H]). exact (loop_init_forward _ _ _ _ H).
Qed.

End LoopInit.

Arguments loop_init_enc {state R} L body cont bi.
Arguments li_body {state R} L body cont bi.
