(* Switch forms of the text back ends (Target/SwitchForms.v), the CONVERSE direction and the two-direction statements:
   (1) inserted case breaks: every terminating run of the emitted switch (all cases fall through, `break;` appended
       to the IR non-fall-through cases that do not end in a terminator) is a run of the IR switch with the SAME result
       [case_breaks_backward], hence [case_breaks_iff];
   (2) single-body switch (empty fall-through labels, then one body): the IR switch evaluates to r exactly when the
       body evaluates to some (o, s) with r = unbreak (o, s) [single_body_switch_iff]; without an escaping Continue
       this is exactly do { body } while(false) [single_body_once_iff]; with continues, the should_continue form
       [continue_forward_single_body_iff] (uses ContinueForwardConv).
   For the converse of (2) the selector must evaluate to a label of the switch at the given state
   (exists j, sel st = Done (Some j) /\ j <= length pre): the do-while form does not evaluate the selector at all, so
   without it the IR form may fail where the emitted form terminates.  All case lists / bodies / states / fuels.
   No axioms. *)
From Coq Require Import List Bool Lia PeanoNat.
Import ListNotations.
Require Import Naga.IR.Values Naga.Target.Structured Naga.Target.SwitchForms
        Naga.Target.ContinueForward Naga.Target.ContinueForwardConv.
Open Scope list_scope.
Open Scope nat_scope.

Section SwitchFormsConv.
Variables state R : Type.
Notation stmt := (stmt state R).
Notation block := (list stmt).
Notation case := (block * bool)%type.
Notation crel := (SwitchForms.crel state R).

(* ---- (1) inserted breaks ---- *)
Lemma run_break_block k (s2 : state) (r : outcome R * state) :
  run_block k ([Break] : block) s2 = Done r -> r = (OBreak, s2).
Proof.
  intros H2. apply run_block_cons_inv in H2. destruct H2 as (k2 & o2 & s3 & -> & Hbk & Hr2).
  destruct k2; [discriminate|]. cbn in Hbk. injection Hbk as <- <-.
  destruct Hr2 as [[Hx _]|[_ E]]; [discriminate|exact E].
Qed.

Lemma cases_backward : forall n (cs : list case) st r',
  mono_c cs -> run_cases n (enc_cases cs) st = Done r' -> exists r, evals_c cs st r /\ crel r r'.
Proof.
  induction n as [|n IH]; intros cs st r' Mcs H; [discriminate|].
  destruct cs as [|[body ft] rest].
  - cbn in H. injection H as <-. exists (ONormal, st). split; [apply ev_cases_nil|left; reflexivity].
  - destruct Mcs as [Mb Mr]. cbn [fst] in Mb.
    change (enc_cases ((body, ft) :: rest)) with (@enc_case state R (body, ft) :: enc_cases rest) in H.
    destruct ft; unfold enc_case in H; cbn [fst snd] in H.
    + apply run_cases_cons_inv in H. destruct H as (k & o & s1 & Ek & Hb & Hrest). injection Ek as <-.
      destruct Hrest as [(-> & _ & Hr)|[Hstop ->]].
      * destruct (IH rest s1 r' Mr Hr) as (r & E & C). exists r. split; [|exact C].
        apply ev_cases_fall with (s1 := s1); [exact Mb|exact Mr|exists n; exact Hb|exact E].
      * destruct Hstop as [Ho|Hx]; [|discriminate]. exists (o, s1). split; [|left; reflexivity].
        apply ev_cases_stop; [exists n; exact Hb|left; exact Ho].
    + revert H. destruct (ends_with_terminator state R body) eqn:Et; intros H.
      * apply run_cases_cons_inv in H. destruct H as (k & o & s1 & Ek & Hb & Hrest). injection Ek as <-.
        assert (Ho : o <> ONormal) by (eapply ends_terminator_not_normal; eassumption).
        destruct Hrest as [(Hx & _ & _)|[_ ->]]; [congruence|].
        exists (o, s1). split; [|left; reflexivity]. apply ev_cases_stop; [exists n; exact Hb|right; reflexivity].
      * apply run_cases_cons_inv in H. destruct H as (k & o & s1 & Ek & Hb & Hrest). injection Ek as <-.
        apply run_block_app_inv in Hb; [|split; exact I].
        destruct Hb as [(s2 & H1 & H2)|[Hn H1]].
        -- (* the body ends normally, then the inserted break *)
           apply run_break_block in H2. injection H2 as -> ->.
           destruct Hrest as [(Hx & _)|[_ ->]]; [discriminate|].
           exists (ONormal, s2). split; [|right; split; reflexivity].
           apply ev_cases_stop; [exists n; exact H1|right; reflexivity].
        -- cbn [fst] in Hn. destruct Hrest as [(Hx & _)|[_ ->]]; [congruence|].
           exists (o, s1). split; [|left; reflexivity]. apply ev_cases_stop; [exists n; exact H1|right; reflexivity].
Qed.

Theorem case_breaks_backward n sel (cs : list case) st r :
  mono_c cs -> run_stmt n (Switch sel (enc_cases cs)) st = Done r -> evals_s (Switch sel cs) st r.
Proof.
  intros Mcs H. apply run_switch_inv in H. destruct H as (k & i & -> & Hsel & H).
  destruct i as [i|].
  - destruct H as (r1' & Hc & ->). rewrite enc_cases_skipn in Hc.
    assert (Mk : mono_c (skipn i cs)) by (apply all_c_skipn; exact Mcs).
    destruct (cases_backward _ _ _ _ Mk Hc) as (r1 & E & C).
    pose proof (ev_switch_some sel cs Hsel E) as Esw.
    destruct C as [->|[Hn ->]]; [exact Esw|].
    destruct r1 as [o1 s1]. cbn [fst snd] in *. subst o1. exact Esw.
  - subst r. apply (ev_switch_none sel cs Hsel).
Qed.

Theorem case_breaks_iff sel (cs : list case) st r :
  mono_c cs -> (evals_s (Switch sel (enc_cases cs)) st r <-> evals_s (Switch sel cs) st r).
Proof.
  intros Mcs. split; intros [n H].
  - eapply case_breaks_backward; eassumption.
  - eapply case_breaks_forward; eassumption.
Qed.

(* ---- (2) single-body switches ---- *)
Lemma run_cases_labels_intro (pre : list case) : forall k (rest : list case) st r,
  empty_labels pre -> run_cases k rest st = Done r -> run_cases (List.length pre + k) (pre ++ rest) st = Done r.
Proof.
  induction pre as [|c pre IH]; intros k rest st r Hp H; [exact H|].
  inversion Hp as [|? ? Hc Hp']; subst. cbn [app List.length Nat.add].
  rewrite run_cases_S_cons. unfold case_step.
  assert (Hnil : run_block (List.length pre + k) ([] : block) st = Done (ONormal, st)).
  { destruct k; [discriminate|]. replace (List.length pre + S k) with (S (List.length pre + k)) by lia. reflexivity. }
  rewrite Hnil. cbn [rbind fst snd]. apply IH; assumption.
Qed.

Lemma run_cases_last k (body : block) ft st o s1 :
  run_block k body st = Done (o, s1) -> run_cases (S k) [(body, ft)] st = Done (o, s1).
Proof.
  intros H. rewrite run_cases_S_cons. unfold case_step. rewrite H. cbn [rbind fst snd].
  destruct o; try reflexivity. destruct ft; [|reflexivity].
  destruct k; [discriminate|]. reflexivity.
Qed.

Definition selects (sel : state -> result (option nat)) (pre : list case) (st : state) : Prop :=
  exists j, sel st = Done (Some j) /\ j <= List.length pre.

Lemma selects_forward sel pre st :
  selects sel pre st -> forall i, sel st = Done i -> exists j, i = Some j /\ j <= List.length pre.
Proof. intros (j & Hs & Hj) i Hi. rewrite Hs in Hi. injection Hi as <-. exists j; auto. Qed.

Theorem single_body_switch_conv sel (pre : list case) body ft st o s1 :
  empty_labels pre -> selects sel pre st ->
  evals_b body st (o, s1) -> evals_s (Switch sel (pre ++ [(body, ft)])) st (unbreak (o, s1)).
Proof.
  intros Hp (j & Hsel & Hj) [k Hb].
  assert (Hsk : skipn j (pre ++ [(body, ft)]) = skipn j pre ++ [(body, ft)]).
  { rewrite skipn_app. replace (j - List.length pre) with 0 by lia. reflexivity. }
  assert (Hp' : empty_labels (skipn j pre)).
  { unfold empty_labels in *. rewrite Forall_forall in *. intros c Hin. apply Hp.
    rewrite <- (firstn_skipn j pre). apply in_or_app. right. exact Hin. }
  pose proof (run_cases_labels_intro _ _ _ _ _ Hp' (run_cases_last _ _ ft _ _ _ Hb)) as Hc.
  pose proof (eq_ind_r (fun l => run_cases _ l st = Done (o, s1)) Hc Hsk) as Hc'. cbv beta in Hc'.
  exact (ev_switch_some sel (pre ++ [(body, ft)]) Hsel (ex_intro _ _ Hc')).
Qed.

Theorem single_body_switch_iff sel (pre : list case) body ft st r :
  empty_labels pre -> selects sel pre st ->
  (evals_s (Switch sel (pre ++ [(body, ft)])) st r <-> exists o s1, evals_b body st (o, s1) /\ r = unbreak (o, s1)).
Proof.
  intros Hp Hs. split.
  - intros [n H]. eapply single_body_switch; [exact Hp|exact (selects_forward _ _ _ Hs)|exact H].
  - intros (o & s1 & E & ->). apply single_body_switch_conv; assumption.
Qed.

Theorem single_body_once_conv n sel (pre : list case) body ft st r :
  empty_labels pre -> selects sel pre st -> may_cont_b body = false ->
  run_stmt n (DoOnce body) st = Done r -> evals_s (Switch sel (pre ++ [(body, ft)])) st r.
Proof.
  intros Hp Hs Hnc H. apply run_doonce_inv in H. destruct H as (k & o & s1 & -> & Hb & ->).
  assert (Ho : o <> OContinue) by exact (no_continue_b Hnc Hb).
  pose proof (single_body_switch_conv sel _ _ ft _ _ _ Hp Hs (ex_intro _ k Hb)) as Esw.
  unfold unbreak in Esw. cbn [fst snd] in Esw.
  destruct o; cbn [demote]; try exact Esw. congruence.
Qed.

Theorem single_body_once_iff sel (pre : list case) body ft st r :
  empty_labels pre -> selects sel pre st -> may_cont_b body = false ->
  (evals_s (Switch sel (pre ++ [(body, ft)])) st r <-> evals_s (DoOnce body) st r).
Proof.
  intros Hp Hs Hnc. split; intros [n H].
  - eapply single_body_once; [exact Hp|exact (selects_forward _ _ _ Hs)|exact Hnc|exact H].
  - eapply single_body_once_conv; eassumption.
Qed.

(* single-body switch inside a loop whose body may `continue`: the should_continue / do-while form, both directions *)
Theorem continue_forward_single_body_iff (F : lens state bool) sel (pre : list case) body ft st r' :
  empty_labels pre -> selects sel pre st -> mono_b body -> indep_b F body ->
  (evals_b (fwd_once F body) st r' <->
   exists o s, evals_s (Switch sel (pre ++ [(body, ft)])) st (o, s) /\ r' = (o, lset F (is_cont o) s)).
Proof.
  intros Hp Hs Mb Ib. rewrite (@continue_forward_once_iff state R F body st r' Mb Ib). split.
  - intros (o1 & s & E & ->). exists (unbreak_o o1), s. split.
    + pose proof (single_body_switch_conv sel _ _ ft _ _ _ Hp Hs E) as Esw. destruct o1; exact Esw.
    + destruct o1; reflexivity.
  - intros (o & s & E & ->). apply (single_body_switch_iff sel _ body ft _ (o, s) Hp Hs) in E.
    destruct E as (o1 & s1 & E & Eu). unfold unbreak in Eu. cbn [fst snd] in Eu. injection Eu as -> ->.
    exists o1, s1. split; [exact E|]. destruct o1; reflexivity.
Qed.

End SwitchFormsConv.

Arguments selects {state R} sel pre st.
