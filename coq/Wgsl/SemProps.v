(* Meta-theory of the WGSL-core reference semantics: more fuel never changes a
   result, so the meaning of a program on an input does not depend on the fuel. *)
From Coq Require Import List ZArith String Bool Lia.
Import ListNotations.
Require Import Naga.IR.Values Naga.IR.SemProps Naga.Wgsl.Sem.

Section Mono.
Variable P : wprog.
Variable genv : env.

Notation eval_ := (eval P genv).
Notation eval_ref_ := (eval_ref P genv).
Notation eval_list_ := (eval_list P genv).
Notation exec_ := (exec P genv).
Notation exec1_ := (exec1 P genv).
Notation select_case_ := (select_case P genv).
Notation match_sels_ := (match_sels P genv).
Notation exec_loop_ := (exec_loop P genv).
Notation call_ := (call P genv).

Definition wmono_at (n : nat) : Prop :=
  forall n', (n <= n')%nat ->
  (forall e mem x, le_res (eval_ n e mem x) (eval_ n' e mem x)) /\
  (forall e mem x, le_res (eval_ref_ n e mem x) (eval_ref_ n' e mem x)) /\
  (forall e mem xs, le_res (eval_list_ n e mem xs) (eval_list_ n' e mem xs)) /\
  (forall e mem b, le_res (exec_ n e mem b) (exec_ n' e mem b)) /\
  (forall e mem s, le_res (exec1_ n e mem s) (exec1_ n' e mem s)) /\
  (forall e mem v cs all, le_res (select_case_ n e mem v cs all) (select_case_ n' e mem v cs all)) /\
  (forall e mem v sels, le_res (match_sels_ n e mem v sels) (match_sels_ n' e mem v sels)) /\
  (forall e mem b c brk, le_res (exec_loop_ n e mem b c brk) (exec_loop_ n' e mem b c brk)) /\
  (forall fn args mem, le_res (call_ n fn args mem) (call_ n' fn args mem)).

Ltac triv := first [apply le_res_refl | apply le_res_outoffuel | apply le_res_fail].

(* congruence: binds are monotone component-wise; leaves are reflexive or an induction hypothesis *)
Ltac step H :=
  match goal with
  | |- le_res (rbind _ _) (rbind _ _) => apply le_res_bind; [|intros ?]
  | |- le_res (let '(_, _) := ?x in _) (let '(_, _) := ?x in _) => destruct x
  | |- le_res (match ?x with _ => _ end) (match ?x with _ => _ end) => destruct x
  | |- le_res (if ?x then _ else _) (if ?x then _ else _) => destruct x
  | |- _ => first [triv | solve [apply H]]
  end.

Lemma wmono_all : forall n, wmono_at n.
Proof.
  unfold wmono_at. induction n as [|n IH]; intros n' Hle.
  - repeat split; intros; cbn; apply le_res_outoffuel.
  - destruct n' as [|n']; [lia|].
    specialize (IH n' ltac:(lia)).
    destruct IH as (He & Hr & Hl & Hx & H1 & Hsc & Hms & Hlp & Hc).
    Local Ltac go He Hr Hl Hx H1 Hsc Hms Hlp Hc :=
      repeat first [ step He | step Hr | step Hl | step Hx | step H1 | step Hsc | step Hms | step Hlp | step Hc ].
    repeat split; intros.
    + cbn [eval]. go He Hr Hl Hx H1 Hsc Hms Hlp Hc.
    + cbn [eval_ref]. go He Hr Hl Hx H1 Hsc Hms Hlp Hc.
    + cbn [eval_list]. go He Hr Hl Hx H1 Hsc Hms Hlp Hc.
    + cbn [exec]. go He Hr Hl Hx H1 Hsc Hms Hlp Hc.
    + cbn [exec1]. go He Hr Hl Hx H1 Hsc Hms Hlp Hc.
    + cbn [select_case]. go He Hr Hl Hx H1 Hsc Hms Hlp Hc.
    + cbn [match_sels]. go He Hr Hl Hx H1 Hsc Hms Hlp Hc.
    + cbn [exec_loop]. go He Hr Hl Hx H1 Hsc Hms Hlp Hc.
    + cbn [call]. go He Hr Hl Hx H1 Hsc Hms Hlp Hc.
Qed.

End Mono.

Theorem wgsl_run_fuel_monotone fuel fuel' P globals args r :
  (fuel <= fuel')%nat ->
  wgsl_run fuel P globals args = Done r -> wgsl_run fuel' P globals args = Done r.
Proof.
  intros Hle.
  assert (H : le_res (wgsl_run fuel P globals args) (wgsl_run fuel' P globals args)).
  { unfold wgsl_run.
    apply le_res_bind; [apply le_res_refl|]. intros ge0.
    apply le_res_bind; [apply le_res_refl|]. intros [ge mem0].
    apply le_res_bind; [|intros [[fl e1] mem1]; apply le_res_refl].
    destruct (wmono_all P ge fuel fuel' Hle) as (_ & _ & _ & Hx & _). apply Hx. }
  exact (H r).
Qed.

Corollary wgsl_run_deterministic f1 f2 P globals args r1 r2 :
  wgsl_run f1 P globals args = Done r1 -> wgsl_run f2 P globals args = Done r2 -> r1 = r2.
Proof.
  intros H1 H2.
  destruct (Nat.le_ge_cases f1 f2) as [H|H].
  - rewrite (wgsl_run_fuel_monotone _ _ _ _ _ _ H H1) in H2. congruence.
  - rewrite (wgsl_run_fuel_monotone _ _ _ _ _ _ H H2) in H1. congruence.
Qed.
