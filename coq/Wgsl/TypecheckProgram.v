(* Type soundness of Wgsl/Typecheck.v, part 6: whole programs (module constants, module variables,
   functions, entry point) and the theorems used by Props/C08.v. *)
From Coq Require Import List ZArith String Bool Lia.
Import ListNotations.
Require Import Naga.Base.Bits32 Naga.IR.Syntax Naga.IR.Values Naga.IR.Sem Naga.Wgsl.Sem Naga.Wgsl.Typecheck.
Require Import Naga.Wgsl.TypecheckBase Naga.Wgsl.TypecheckOps Naga.Wgsl.TypecheckBuiltins Naga.Wgsl.TypecheckMem
               Naga.Wgsl.TypecheckUnfold Naga.Wgsl.SemUnfold Naga.Wgsl.TypecheckProofs.
Open Scope string_scope.
Open Scope list_scope.

(* ================================================================================================ *)
(* Whole programs                                                                                   *)
(* ================================================================================================ *)

Lemma check_inv p :
  wgsl_check p = None ->
  structs_wf (wp_structs p) = true /\
  exists D1 D,
    check_consts (wp_structs p) (wp_consts p) [] = (None, D1) /\
    check_globals (wp_structs p) (wp_globals p) D1 = (None, D) /\
    check_funcs (wp_structs p) (prog_sigs p) D [] (wp_funcs p) = None /\
    check_entry (wp_structs p) (prog_sigs p) D (wp_entry p) = None.
Proof.
  unfold wgsl_check. intros H.
  destruct (check_structs _ _ _); [discriminate|].
  destruct (structs_wf (wp_structs p)) eqn:Hss; [|discriminate]. cbn [negb] in H.
  destruct (check_consts _ _ _) as [[e1|] D1] eqn:E1; [discriminate|].
  destruct (check_globals _ _ _) as [[e2|] D] eqn:E2; [discriminate|].
  destruct (check_funcs _ _ _ _ _) eqn:E3; [discriminate|].
  split; [reflexivity|]. exists D1, D. auto.
Qed.

Lemma check_func_ok ss PHI D f u : check_func ss PHI D f = TOk u -> func_ok (mkwprog ss [] [] [] f) PHI D f.
Proof.
  unfold check_func, func_ok. intros H. tinv.
  match goal with Ht : tyb _ _ _ _ _ _ _ = TOk (?s, ?B) |- _ => exists CHECK_FUEL, s, B; split; [exact Ht|] end.
  intros Hr. destruct (wf_ret f); [|congruence].
  match goal with Hn : negb _ = true |- _ => apply negb_true_iff in Hn; exact Hn end.
Qed.

Lemma check_funcs_all ss PHI D : forall fs seen,
  check_funcs ss PHI D seen fs = None -> forall f, In f fs -> exists u, check_func ss PHI D f = TOk u.
Proof.
  induction fs as [|f0 fs IH]; intros seen H f Hin; [destruct Hin|].
  cbn [check_funcs] in H.
  destruct (in_tenv (wf_name f0) D || match flookup (wf_name f0) seen with Some _ => true | None => false end); [discriminate|].
  destruct (check_func ss PHI D f0) as [u|] eqn:E; [|discriminate].
  destruct (check_func ss seen D f0); [|discriminate].
  destruct Hin as [<-|Hin]; [eauto|]. eapply IH; eauto.
Qed.

Lemma flookup_find fs : forall fn sig,
  flookup fn (map func_sig fs) = Some sig ->
  exists fd, find_func fn fs = Some fd /\ In fd fs /\ sig = (map snd (wf_params fd), wf_ret fd).
Proof.
  induction fs as [|f fs IH]; intros fn sig H; cbn in *; [discriminate|].
  destruct (String.eqb (wf_name f) fn).
  - inversion H; subst. exists f. auto.
  - destruct (IH fn sig H) as (fd & E & Hin & Hs). exists fd. auto.
Qed.

Lemma prog_funcs_ok p D :
  check_funcs (wp_structs p) (prog_sigs p) D [] (wp_funcs p) = None ->
  forall fn ps ret, flookup fn (prog_sigs p) = Some (ps, ret) ->
  exists fd, find_func fn (wp_funcs p) = Some fd /\ ps = map snd (wf_params fd) /\ ret = wf_ret fd /\
             func_ok p (prog_sigs p) D fd.
Proof.
  intros H fn ps ret Hf. destruct (flookup_find _ _ _ Hf) as (fd & E & Hin & Hs). inversion Hs; subst.
  exists fd. repeat split; auto.
  destruct (check_funcs_all _ _ _ _ _ H fd Hin) as (u & Hu). exact (check_func_ok _ _ _ _ _ Hu).
Qed.

Lemma no_funcs p fn ps ret : flookup fn [] = Some (ps, ret) ->
  exists fd, find_func fn (wp_funcs p) = Some fd /\ ps = map snd (wf_params fd) /\ ret = wf_ret fd /\ func_ok p [] [] fd.
Proof. discriminate. Qed.

(* unfolding equations (rewriting with them keeps the kernel from unfolding the interpreters at Qed) *)
Lemma eval_consts_cons P n x cs ge :
  eval_consts P ((n, x) :: cs) ge =
  (r <~ eval P ge 64 [] [] x ;; let '(v, _) := r in eval_consts P cs (ge ++ [(n, BVal v)])).
Proof. reflexivity. Qed.

Lemma check_consts_cons ss n x rest D :
  check_consts ss ((n, x) :: rest) D =
  (if in_tenv n D then (Some (RRedeclaration, String.append "const " n), D)
   else if negb (const_expr 64 x) then (Some (RConstExpr, String.append "const " n), D)
   else match tyv ss [] D 200 [] x with
        | TErr r => (Some (r, String.append "const " n), D)
        | TOk t =>
          if negb (constructible ss t) then (Some (RLetType, String.append "const " n), D)
          else check_consts ss rest (D ++ [(n, TVal t)])
        end).
Proof. reflexivity. Qed.

Lemma init_wglobals_cons P ge g gs' given mem :
  init_wglobals P ge (g :: gs') given mem =
  (v <~ match given with
        | Some v :: _ => Done v
        | _ => match wg_init g with
               | Some x => r <~ eval P ge 64 [] mem x ;; Done (fst r)
               | None => wzero 16 (wp_structs P) (wg_ty g)
               end
        end ;;
   init_wglobals P (ge ++ [(wg_name g, BRef (List.length mem))]) gs' (tl given) (mem ++ [v])).
Proof. reflexivity. Qed.

Definition global_init_check (ss : list (string * list wty)) (D : tenv) (g : wglobal) : option rule :=
  match wg_init g with
  | None => None
  | Some x =>
    if negb (String.eqb (wg_space g) "private") then Some RGlobalInit
    else if negb (const_expr 64 x) then Some RConstExpr
    else match tyv ss [] D 200 [] x with
         | TErr r => Some r
         | TOk t => if wty_eqb t (wg_ty g) then None else Some RGlobalInit
         end
  end.

Lemma check_globals_cons ss g rest D :
  check_globals ss (g :: rest) D =
  (let n := wg_name g in
   if in_tenv n D then (Some (RRedeclaration, String.append "var " n), D)
   else match space_ok ss (wg_space g) (wg_ty g) with
        | None => (Some (RGlobalType, String.append "var " n), D)
        | Some rw =>
          match global_init_check ss D g with
          | Some r => (Some (r, String.append "var " n), D)
          | None => check_globals ss rest (D ++ [(n, TRef (wg_ty g) rw)])
          end
        end).
Proof. reflexivity. Qed.

Lemma check_consts_cons_inv ss n x rest D D' :
  check_consts ss ((n, x) :: rest) D = (None, D') ->
  exists t, tyv ss [] D 200 [] x = TOk t /\ constructible ss t = true /\
            check_consts ss rest (D ++ [(n, TVal t)]) = (None, D').
Proof.
  rewrite check_consts_cons. destruct (in_tenv n D); [discriminate|].
  destruct (const_expr 64 x); [|discriminate]. cbn [negb].
  destruct (tyv ss [] D 200 [] x) as [t|] eqn:Et; [|discriminate].
  destruct (constructible ss t) eqn:Ec; [|discriminate]. cbn [negb]. eauto.
Qed.

Lemma global_init_check_inv ss D g :
  global_init_check ss D g = None ->
  match wg_init g with
  | None => True
  | Some x => tyv ss [] D 200 [] x = TOk (wg_ty g)
  end.
Proof.
  unfold global_init_check. destruct (wg_init g) as [x|]; [|auto].
  destruct (negb (String.eqb (wg_space g) "private")); [discriminate|].
  destruct (const_expr 64 x); [|discriminate]. cbn [negb].
  destruct (tyv ss [] D 200 [] x) as [t|] eqn:Et; [|discriminate].
  destruct (wty_eqb t (wg_ty g)) eqn:Eq; [|discriminate]. apply wty_eqb_eq in Eq. subst t. reflexivity.
Qed.

Lemma check_globals_cons_inv ss g rest D D' :
  check_globals ss (g :: rest) D = (None, D') ->
  exists rw, space_ok ss (wg_space g) (wg_ty g) = Some rw /\ global_init_check ss D g = None /\
             check_globals ss rest (D ++ [(wg_name g, TRef (wg_ty g) rw)]) = (None, D').
Proof.
  rewrite check_globals_cons. cbv zeta. destruct (in_tenv (wg_name g) D); [discriminate|].
  destruct (space_ok ss (wg_space g) (wg_ty g)) as [rw|]; [|discriminate].
  destruct (global_init_check ss D g); [discriminate|]. eauto.
Qed.

Section Whole.
Variable p : wprog.
Notation ss := (wp_structs p).
Hypothesis Hss : structs_wf ss = true.

Lemma no_funcs_D D fn ps ret : flookup fn [] = Some (ps, ret) ->
  exists fd, find_func fn (wp_funcs p) = Some fd /\ ps = map snd (wf_params fd) /\ ret = wf_ret fd /\ func_ok p [] D fd.
Proof. discriminate. Qed.

(* a const-expression / initialiser evaluated at module scope: empty local environment *)
Lemma module_expr_ok ge D sg mem x t :
  tyv ss [] D 200 [] x = TOk t -> constructible ss t = true ->
  env_ok ss sg D ge -> mem_ok ss sg mem ->
  rok (fun r => vty ss (fst r) t) (eval p ge 64 [] mem x).
Proof.
  intros Ht Hc Hg Hm.
  destruct (sound p ge [] D Hss (no_funcs_D D) 64) as (IHE & _).
  eapply rok_weaken; [eapply (sound_value p ge [] D 64 IHE 200 [] x t sg [] mem Ht)|].
  - split; [apply env_ok_nil|split; assumption].
  - intros [v m1] (sg1 & _ & _ & Hv). cbn [fst snd] in *. eapply bty_vty; eauto. apply ty_wf_not_ptr with (ss := ss). exact Hc.
Qed.

Lemma consts_sound : forall cs D ge D',
  check_consts ss cs D = (None, D') -> env_ok ss [] D ge ->
  rok (fun ge' => env_ok ss [] D' ge') (eval_consts p cs ge).
Proof.
  induction cs as [|[n x] cs IH]; intros D ge D' H Hg.
  - cbn in H. inversion H; subst. exact Hg.
  - apply check_consts_cons_inv in H. destruct H as (t & Et & Ec & H).
    rewrite eval_consts_cons.
    eapply rok_bind; [eapply (module_expr_ok ge D [] [] x t Et Ec Hg); constructor|].
    intros [v m1] Hv. cbn [fst] in Hv. eapply IH; [exact H|].
    apply env_ok_app; [exact Hg|]. apply env_ok_cons; [apply env_ok_nil|]. cbn. apply vty_bty. exact Hv.
Qed.

Definition given_ok (g : wglobal) (o : option value) : Prop :=
  match o with Some v => vty ss v (wg_ty g) | None => ty_wf ss (wg_ty g) = true end.

Lemma space_ok_not_ptr sp t rw : space_ok ss sp t = Some rw -> is_ptr t = false.
Proof.
  unfold space_ok. intros H. destruct t; try reflexivity. exfalso.
  cbn in H. repeat match type of H with (if ?c then _ else _) = _ => destruct c end; discriminate.
Qed.

Lemma space_ok_constructible_or_buffer sp t rw : space_ok ss sp t = Some rw -> is_ptr t = false.
Proof. apply space_ok_not_ptr. Qed.

Lemma globals_sound : forall gs given D ge sg mem D',
  check_globals ss gs D = (None, D') -> Forall2 given_ok gs given ->
  env_ok ss sg D ge -> mem_ok ss sg mem ->
  rok (fun r => env_ok ss (sg ++ map wg_ty gs) D' (fst r) /\ mem_ok ss (sg ++ map wg_ty gs) (snd r))
      (init_wglobals p ge gs given mem).
Proof.
  induction gs as [|g gs IH]; intros given D ge sg mem D' H Hgiven Hg Hm.
  - cbn in H. inversion H; subst. cbn. rewrite app_nil_r. auto.
  - apply check_globals_cons_inv in H. destruct H as (rw & Esp & Einit & H).
    apply global_init_check_inv in Einit.
    inversion Hgiven as [|g0 o gs0 given' Ho Hrest]; subst.
    rewrite init_wglobals_cons.
    eapply rok_bind.
    + (* the initial contents: given by the host, the initialiser, or the zero value *)
      instantiate (1 := fun v => vty ss v (wg_ty g)).
      destruct o as [v|]; cbn in Ho; [exact Ho|].
      destruct (wg_init g) as [x|].
      * eapply rok_bind; [eapply (module_expr_ok ge D sg mem x (wg_ty g) Einit Ho Hg Hm)|]. intros r Hr. exact Hr.
      * apply wzero_ok; auto.
    + intros v Hvv. cbn [tl].
      eapply rok_weaken; [eapply (IH given' _ _ (sg ++ [wg_ty g]) (mem ++ [v])); [exact H|exact Hrest| |]|].
      * apply env_ok_app; [eapply env_ok_ext; [apply ext_snoc|exact Hg]|].
        apply env_ok_cons; [apply env_ok_nil|]. cbn. rewrite (mem_ok_length ss sg mem Hm). apply nth_snoc.
      * apply mem_ok_snoc; auto.
      * intros r Hr. cbn [map]. rewrite <- app_assoc in Hr. exact Hr.
Qed.

Definition inputs_ok (gl : list (option value)) (args : list value) : Prop :=
  Forall2 given_ok (wp_globals p) gl /\ Forall2 (vty ss) args (map snd (wf_params (wp_entry p))).

Lemma Forall2_firstn {A B} (R : A -> B -> Prop) l1 l2 l2' :
  Forall2 R l1 (l2 ++ l2') -> Forall2 R (firstn (List.length l2) l1) l2.
Proof.
  revert l1. induction l2 as [|y l2 IH]; intros l1 H; cbn; [constructor|].
  inversion H; subst. constructor; auto.
Qed.

Theorem wgsl_check_sound_aux gl args fuel :
  wgsl_check p = None -> inputs_ok gl args ->
  rok (fun gs => Forall2 (vty ss) gs (map wg_ty (wp_globals p))) (wgsl_run fuel p gl args).
Proof.
  intros Hc (Hgl & Hargs).
  destruct (check_inv p Hc) as (_ & D1 & D & E1 & E2 & E3 & E4).
  unfold wgsl_run.
  eapply rok_bind; [eapply consts_sound; [exact E1|apply env_ok_nil]|]. intros ge0 Hge0.
  eapply rok_bind; [eapply (globals_sound _ _ _ _ [] []); [exact E2|exact Hgl|exact Hge0|constructor]|].
  intros [ge mem0] [Hge Hmem0]. cbn [fst snd app] in *.
  unfold check_entry in E4.
  destruct (in_tenv _ D || _); [discriminate|]. destruct (wf_ret (wp_entry p)) eqn:Eret; [discriminate|].
  destruct (negb _); [discriminate|].
  destruct (check_func ss (prog_sigs p) D (wp_entry p)) as [u|] eqn:Ecf; [|discriminate].
  pose proof (check_func_ok _ _ _ _ _ Ecf) as (cf & [g1 cur1] & B & Hty & _).
  destruct (sound p ge (prog_sigs p) D Hss (prog_funcs_ok p D E3) fuel) as (_ & _ & _ & _ & _ & IHB & _).
  assert (Hargs' : Forall2 (bty ss (map wg_ty (wp_globals p))) args (map snd (wf_params (wp_entry p)))).
  { clear - Hargs. induction Hargs; constructor; auto. apply vty_bty. assumption. }
  eapply rok_bind.
  - eapply IHB; [exact Hty|]. split; [apply env_ok_params; exact Hargs'|split; assumption].
  - intros [[fl e1] mem1] (sg1 & (sg' & ->) & Hm1 & _). cbn [fst snd] in *. cbn.
    rewrite <- (map_length wg_ty). eapply Forall2_firstn. exact Hm1.
Qed.

End Whole.

(* ---- the statements used by Props/C08.v ---- *)

(* Type soundness for whole programs: an accepted program, run on well-typed inputs with any fuel,
   finishes with well-typed contents of its module variables, runs out of fuel, or stops with a
   defined dynamic error ([benign]: index out of bounds / negative index / the unmodelled f32 %);
   it never fails with a type, shape, scoping or arity error. *)
Theorem wgsl_check_sound p gl args fuel :
  wgsl_check p = None -> inputs_ok p gl args ->
  match wgsl_run fuel p gl args with
  | Done gs => Forall2 (vty (wp_structs p)) gs (map wg_ty (wp_globals p))
  | OutOfFuel => True
  | Fail m => benign m = true
  end.
Proof.
  intros Hc Hi. destruct (check_inv p Hc) as (Hss & _).
  exact (wgsl_check_sound_aux p Hss gl args fuel Hc Hi).
Qed.

(* Progress + preservation for expressions, in any function context of an accepted program. *)
Theorem expr_progress_preservation p genv cf g x t r sg e mem fuel :
  wgsl_check p = None ->
  tyx (wp_structs p) (prog_sigs p) (prog_delta p) cf g x = TOk (t, r) ->
  wt p genv (prog_delta p) sg g e mem ->
  match eval p genv fuel e mem x with
  | Done (v, mem') => exists sg', ext sg sg' /\ mem_ok (wp_structs p) sg' mem' /\ bty (wp_structs p) sg' v t
  | OutOfFuel => True
  | Fail m => benign m = true
  end.
Proof.
  intros Hc Ht Hw. destruct (check_inv p Hc) as (Hss & D1 & D & E1 & E2 & E3 & E4).
  assert (ED : prog_delta p = D) by (unfold prog_delta; rewrite E1; cbn [snd]; rewrite E2; reflexivity).
  rewrite ED in *.
  destruct (sound p genv (prog_sigs p) D Hss (prog_funcs_ok p D E3) fuel) as (IHE & _).
  specialize (IHE cf g x t r sg e mem Ht Hw).
  destruct (eval p genv fuel e mem x) as [[v m']| |m]; cbn in IHE; auto.
Qed.
