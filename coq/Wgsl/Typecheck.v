(* WGSL-core: a total, executable TYPE CHECKER over the abstract syntax of
   Wgsl/Sem.v (the ASTs lib/wgslgen.py produces).  [wgsl_check p = None] is the
   formal reading of "p is a valid WGSL program" for the constructs the AST
   carries (DESIGN 3.3 / deviation D3).  Each rejection names the WGSL rule
   that is broken (type [rule]).  Definitions only; the soundness theorem
   w.r.t. the reference semantics is in Wgsl/TypecheckProofs.v.

   The checker is fuel-indexed like the semantics (mutual recursion through
   lists of statements / arguments / switch clauses); running out of checker
   fuel is a rejection (RNesting), never an acceptance.  It is deliberately
   conservative where the AST drops information (see the comments at RForm). *)
From Coq Require Import List ZArith String Bool.
Import ListNotations.
Require Import Naga.IR.Values Naga.IR.Sem Naga.Wgsl.Sem.
Open Scope string_scope.
Open Scope list_scope.

Inductive rule :=
| RNesting                    (* checker fuel exhausted (program too deep): rejected, not a WGSL rule *)
| RUnknownIdent               (* use of an identifier that is not in scope (declared-before-use at function scope) *)
| RUnknownFunction            (* call of an undeclared function *)
| RUnknownStruct              (* a type names an undeclared structure *)
| RUnknownOperator            (* operator spelling that WGSL does not have *)
| RUnknownBuiltin             (* builtin function outside the modelled set *)
| RLiteralRange               (* literal outside the range of its type / non-finite f32 *)
| ROperandTypes               (* unary/binary operator applied to operand types it is not defined for *)
| RBuiltinArity               (* builtin called with the wrong number of arguments *)
| RBuiltinArgTypes            (* builtin called with argument types matching no overload *)
| RCallArity                  (* user function called with the wrong number of arguments *)
| RCallArgTypes               (* user function called with arguments of the wrong types *)
| RCallNoResult               (* function without a return type used as an expression *)
| RRecursion                  (* call of a function not declared earlier in the module order (cycle or forward call) *)
| RConstructorArgs            (* value constructor with arguments matching no overload *)
| RConversionOperand          (* scalar conversion T(e) applied to a non-scalar *)
| RBitcastOperand             (* bitcast of / to a non-numeric type *)
| RIndexBase                  (* indexing something that is not a vector, matrix or array *)
| RIndexType                  (* index expression that is not i32 or u32 *)
| RMemberBase                 (* member access on a non-structure *)
| RMemberIndex                (* the structure has no such member *)
| RSwizzleBase                (* swizzle of a non-vector *)
| RSwizzleComponent           (* swizzle component beyond the vector width, or more than 4 / no components *)
| RAddrOfNonRef               (* & applied to something that is not a reference *)
| RAddrOfVectorComponent      (* & applied to a component of a vector *)
| RDerefNonPointer            (* * applied to something that is not a pointer *)
| RArrayLengthOperand         (* arrayLength of something that is not a pointer to a runtime-sized array *)
| RLoadType                   (* load rule applied to a reference whose store type is not loadable (runtime-sized array) *)
| RAssignToNonRef             (* assignment / increment whose left side is not a reference (let, parameter, const, value) *)
| RAssignReadOnly             (* assignment through a read-only reference (storage read, uniform) *)
| RAssignTypes                (* assignment whose sides have different types / non-storable type *)
| RIncrDecrType               (* ++ / -- on something that is not an integer scalar reference *)
| RLetType                    (* let of a type that is neither constructible nor a pointer *)
| RVarType                    (* var of a type that is not constructible *)
| RVarInitType                (* initialiser type differs from the declared type *)
| RRedeclaration              (* a name declared twice in one scope / at module scope *)
| RConditionNotBool           (* if / while / for / break-if condition that is not bool *)
| RSwitchSelectorType         (* switch selector that is not i32 or u32 *)
| RSwitchCaseType             (* case selector of another type than the switch selector *)
| RSwitchCaseNotConst         (* case selector that is not a literal or a module constant *)
| RSwitchDefault              (* not exactly one default clause *)
| RSwitchDuplicate            (* a case selector value occurs twice *)
| RBreakOutsideLoop           (* break outside loop and switch *)
| RContinueOutsideLoop        (* continue outside a loop *)
| RBreakInContinuing          (* break (other than break-if) leaving a continuing block *)
| RContinueInContinuing       (* continue inside a continuing block *)
| RReturnInContinuing         (* return inside a continuing block *)
| RReturnType                 (* return value missing / present / of the wrong type *)
| RMissingReturn              (* a function with a return type whose end is reachable ("all paths return") *)
| RForm                       (* for-loop initialiser / update that is not a simple statement *)
| RStructMember               (* structure member type not allowed (not fixed-footprint, later structure, bad sizes) *)
| RConstExpr                  (* module constant / private initialiser that is not a const-expression *)
| RGlobalType                 (* module variable whose type is not allowed in its address space *)
| RGlobalInit                 (* initialiser on a variable outside private, or of the wrong type *)
| RParamType                  (* parameter / return type that is not allowed *)
| REntryPoint.                (* entry-point interface: return type / parameters / name clash *)

Definition rule_name (r : rule) : string :=
  match r with
  | RNesting => "Nesting" | RUnknownIdent => "UnknownIdent" | RUnknownFunction => "UnknownFunction"
  | RUnknownStruct => "UnknownStruct" | RUnknownOperator => "UnknownOperator" | RUnknownBuiltin => "UnknownBuiltin"
  | RLiteralRange => "LiteralRange" | ROperandTypes => "OperandTypes" | RBuiltinArity => "BuiltinArity"
  | RBuiltinArgTypes => "BuiltinArgTypes" | RCallArity => "CallArity" | RCallArgTypes => "CallArgTypes"
  | RCallNoResult => "CallNoResult" | RRecursion => "Recursion" | RConstructorArgs => "ConstructorArgs"
  | RConversionOperand => "ConversionOperand" | RBitcastOperand => "BitcastOperand" | RIndexBase => "IndexBase"
  | RIndexType => "IndexType" | RMemberBase => "MemberBase" | RMemberIndex => "MemberIndex"
  | RSwizzleBase => "SwizzleBase" | RSwizzleComponent => "SwizzleComponent" | RAddrOfNonRef => "AddrOfNonRef"
  | RAddrOfVectorComponent => "AddrOfVectorComponent" | RDerefNonPointer => "DerefNonPointer"
  | RArrayLengthOperand => "ArrayLengthOperand" | RLoadType => "LoadType" | RAssignToNonRef => "AssignToNonRef"
  | RAssignReadOnly => "AssignReadOnly" | RAssignTypes => "AssignTypes" | RIncrDecrType => "IncrDecrType"
  | RLetType => "LetType" | RVarType => "VarType" | RVarInitType => "VarInitType" | RRedeclaration => "Redeclaration"
  | RConditionNotBool => "ConditionNotBool" | RSwitchSelectorType => "SwitchSelectorType"
  | RSwitchCaseType => "SwitchCaseType" | RSwitchCaseNotConst => "SwitchCaseNotConst" | RSwitchDefault => "SwitchDefault"
  | RSwitchDuplicate => "SwitchDuplicate" | RBreakOutsideLoop => "BreakOutsideLoop"
  | RContinueOutsideLoop => "ContinueOutsideLoop" | RBreakInContinuing => "BreakInContinuing"
  | RContinueInContinuing => "ContinueInContinuing" | RReturnInContinuing => "ReturnInContinuing"
  | RReturnType => "ReturnType" | RMissingReturn => "MissingReturn" | RForm => "Form" | RStructMember => "StructMember"
  | RConstExpr => "ConstExpr" | RGlobalType => "GlobalType" | RGlobalInit => "GlobalInit" | RParamType => "ParamType"
  | REntryPoint => "EntryPoint"
  end.

(* ---- the checker's result monad ---- *)
Inductive tres (A : Type) := TOk (a : A) | TErr (r : rule).
Arguments TOk {A} a.
Arguments TErr {A} r.

Definition tbind {A B} (r : tres A) (f : A -> tres B) : tres B :=
  match r with TOk a => f a | TErr e => TErr e end.
Notation "x <-- e1 ;; e2" := (tbind e1 (fun x => e2)) (at level 61, e1 at next level, right associativity).
Notation "' p <-- e1 ;; e2" := (tbind e1 (fun p => e2)) (at level 61, p pattern, e1 at next level, right associativity).

Definition guard (b : bool) (r : rule) : tres unit := if b then TOk tt else TErr r.
Definition of_opt {A} (r : rule) (o : option A) : tres A := match o with Some a => TOk a | None => TErr r end.

(* ---- types ---- *)
Definition wscalar_eqb (a b : wscalar) : bool :=
  match a, b with WI32, WI32 | WU32, WU32 | WF32, WF32 | WBool, WBool => true | _, _ => false end.

Definition optnat_eqb (a b : option nat) : bool :=
  match a, b with None, None => true | Some x, Some y => Nat.eqb x y | _, _ => false end.

Fixpoint wty_eqb (a b : wty) : bool :=
  match a, b with
  | TyS s, TyS s' => wscalar_eqb s s'
  | TyVec n s, TyVec n' s' => Nat.eqb n n' && wscalar_eqb s s'
  | TyMat c r, TyMat c' r' => Nat.eqb c c' && Nat.eqb r r'
  | TyArr n e, TyArr n' e' => optnat_eqb n n' && wty_eqb e e'
  | TyStruct x, TyStruct y => String.eqb x y
  | TyPtr e, TyPtr e' => wty_eqb e e'
  | _, _ => false
  end.

Fixpoint wtys_eqb (a b : list wty) : bool :=
  match a, b with
  | [], [] => true
  | x :: a', y :: b' => wty_eqb x y && wtys_eqb a' b'
  | _, _ => false
  end.

Definition is_numeric (s : wscalar) : bool := match s with WBool => false | _ => true end.
Definition is_int (s : wscalar) : bool := match s with WI32 | WU32 => true | _ => false end.
Definition is_f32 (s : wscalar) : bool := match s with WF32 => true | _ => false end.
Definition is_signed (s : wscalar) : bool := match s with WI32 | WF32 => true | _ => false end.
Definition is_bool (s : wscalar) : bool := match s with WBool => true | _ => false end.

Definition dim_ok (n : nat) : bool := Nat.leb 2 n && Nat.leb n 4.

(* scalar-or-vector view of a type: (None, s) = scalar s, (Some n, s) = vecN<s> *)
Definition sv_of (t : wty) : option (option nat * wscalar) :=
  match t with TyS s => Some (None, s) | TyVec n s => Some (Some n, s) | _ => None end.
Definition sv_ty (n : option nat) (s : wscalar) : wty :=
  match n with None => TyS s | Some k => TyVec k s end.

Definition join_n (a b : option nat) : option (option nat) :=
  match a, b with
  | None, None => Some None
  | Some n, None | None, Some n => Some (Some n)
  | Some n, Some m => if Nat.eqb n m then Some (Some n) else None
  end.

(* [ty_wf ss t]: every structure named in t is declared in ss, vector and matrix
   sizes are 2..4, no pointer and no runtime-sized array below the top *)
Fixpoint ty_wf (ss : list (string * list wty)) (t : wty) : bool :=
  match t with
  | TyS _ => true
  | TyVec n _ => dim_ok n
  | TyMat c r => dim_ok c && dim_ok r
  | TyArr (Some n) e => Nat.leb 1 n && ty_wf ss e
  | TyArr None _ => false
  | TyStruct name => match find_struct name ss with Some _ => true | None => false end
  | TyPtr _ => false
  end.

(* constructible = has a zero value / can be stored, loaded, passed and returned by value *)
Definition constructible := ty_wf.

(* store type of a storage buffer: constructible, or a runtime-sized array of constructible elements *)
Definition buffer_ty (ss : list (string * list wty)) (t : wty) : bool :=
  match t with TyArr None e => ty_wf ss e | _ => ty_wf ss t end.

Definition is_ptr (t : wty) : bool := match t with TyPtr _ => true | _ => false end.

(* type of a let / parameter: constructible, or a pointer to a buffer type *)
Definition value_ty (ss : list (string * list wty)) (t : wty) : bool :=
  match t with TyPtr e => buffer_ty ss e | _ => ty_wf ss t end.

Definition structs_wf (ss : list (string * list wty)) : bool :=
  forallb (fun d => forallb (ty_wf ss) (snd d)) ss.

(* host-shareable: no bool anywhere *)
Fixpoint host_ty (fuel : nat) (ss : list (string * list wty)) (t : wty) : bool :=
  match fuel with
  | O => false
  | S f =>
    match t with
    | TyS s | TyVec _ s => negb (is_bool s)
    | TyMat _ _ => true
    | TyArr _ e => host_ty f ss e
    | TyStruct name => match find_struct name ss with Some ms => forallb (host_ty f ss) ms | None => false end
    | TyPtr _ => false
    end
  end.

(* ---- literals ---- *)
Definition lit_ok (s : wscalar) (b : Z) : bool :=
  match s with
  | WBool => Z.eqb b 0 || Z.eqb b 1
  | WF32 => Z.leb 0 b && Z.ltb b 4294967296 && negb (Z.eqb (Z.land (Z.shiftr b 23) 255) 255)
  | _ => Z.leb 0 b && Z.ltb b 4294967296
  end.

(* ---- operators ---- *)
Inductive bop := KAddSub (o : arith) | KMul | KDivRem (o : arith) | KBit (o : bitop) | KShl | KShr | KCmp (c : cmp).

(* same spelling table, in the same order, as Sem.wbinop *)
Definition parse_bop (op : string) : option bop :=
  if String.eqb op "+" then Some (KAddSub OAdd)
  else if String.eqb op "-" then Some (KAddSub OSub)
  else if String.eqb op "*" then Some KMul
  else if String.eqb op "/" then Some (KDivRem ODiv)
  else if String.eqb op "%" then Some (KDivRem ORem)
  else if String.eqb op "&" then Some (KBit OAnd)
  else if String.eqb op "|" then Some (KBit OOr)
  else if String.eqb op "^" then Some (KBit OXor)
  else if String.eqb op "<<" then Some KShl
  else if String.eqb op ">>" then Some KShr
  else if String.eqb op "==" then Some (KCmp CEq)
  else if String.eqb op "!=" then Some (KCmp CNe)
  else if String.eqb op "<" then Some (KCmp CLt)
  else if String.eqb op "<=" then Some (KCmp CLe)
  else if String.eqb op ">" then Some (KCmp CGt)
  else if String.eqb op ">=" then Some (KCmp CGe)
  else None.

Definition eval_bop (k : bop) (a b : value) : result value :=
  match k with
  | KAddSub o => addsub_value o a b
  | KMul => mul_value a b
  | KDivRem o => lift2 (arith_scalar o) a b
  | KBit o => lift2 (bit_scalar o) a b
  | KShl => lift2 shl_scalar a b
  | KShr => lift2 shr_scalar a b
  | KCmp c => lift2 (cmp_scalar c) a b
  end.

(* component-wise numeric operator with scalar broadcast: T op T, vecN<T> op T, T op vecN<T> *)
Definition num_bcast (ta tb : wty) : option wty :=
  match sv_of ta, sv_of tb with
  | Some (na, sa), Some (nb, sb) =>
    if wscalar_eqb sa sb && is_numeric sa then
      match join_n na nb with Some n => Some (sv_ty n sa) | None => None end
    else None
  | _, _ => None
  end.

Definition bop_ty (k : bop) (ta tb : wty) : option wty :=
  match k with
  | KAddSub _ =>
    match ta, tb with
    | TyMat c r, TyMat c' r' => if Nat.eqb c c' && Nat.eqb r r' then Some ta else None
    | _, _ => num_bcast ta tb
    end
  | KMul =>
    match ta, tb with
    | TyMat c r, TyMat c2 r2 => if Nat.eqb c r2 && dim_ok c && dim_ok r && dim_ok c2 then Some (TyMat c2 r) else None
    | TyMat c r, TyVec n s => if Nat.eqb n c && is_f32 s && dim_ok c && dim_ok r then Some (TyVec r WF32) else None
    | TyVec n s, TyMat c r => if Nat.eqb n r && is_f32 s && dim_ok c && dim_ok r then Some (TyVec c WF32) else None
    | TyMat c r, TyS s => if is_f32 s then Some ta else None
    | TyS s, TyMat c r => if is_f32 s then Some tb else None
    | _, _ => num_bcast ta tb
    end
  | KDivRem _ => num_bcast ta tb
  | KBit o =>
    match sv_of ta with
    | Some (n, s) =>
      if wty_eqb ta tb && (is_int s || (is_bool s && match o with OXor => false | _ => true end)) then Some ta else None
    | None => None
    end
  | KShl | KShr =>
    match sv_of ta, sv_of tb with
    | Some (na, sa), Some (nb, sb) =>
      if is_int sa && wscalar_eqb sb WU32 && optnat_eqb na nb then Some ta else None
    | _, _ => None
    end
  | KCmp c =>
    match sv_of ta with
    | Some (n, s) =>
      if wty_eqb ta tb && (is_numeric s || match c with CEq | CNe => true | _ => false end) then Some (sv_ty n WBool) else None
    | None => None
    end
  end.

Definition binop_ty (op : string) (ta tb : wty) : tres wty :=
  match parse_bop op with
  | None => TErr RUnknownOperator
  | Some k => of_opt ROperandTypes (bop_ty k ta tb)
  end.

Definition unop_ty (op : string) (ta : wty) : tres wty :=
  match sv_of ta with
  | None => if String.eqb op "-" || String.eqb op "!" || String.eqb op "~" then TErr ROperandTypes else TErr RUnknownOperator
  | Some (n, s) =>
    if String.eqb op "-" then _ <-- guard (is_signed s) ROperandTypes ;; TOk ta
    else if String.eqb op "!" then _ <-- guard (is_bool s) ROperandTypes ;; TOk ta
    else if String.eqb op "~" then _ <-- guard (is_int s) ROperandTypes ;; TOk ta
    else TErr RUnknownOperator
  end.

(* ---- builtins ---- *)
Inductive bsig :=
| SigSelect | SigAnyAll
| Sig1 (dom : wscalar -> bool)              (* T -> T, T scalar or vector of a kind in dom *)
| Sig2 (dom : wscalar -> bool)              (* (T, T) -> T *)
| Sig3 (dom : wscalar -> bool)              (* (T, T, T) -> T *)
| SigDot | SigExtract | SigInsert.

Definition builtin_sig (f : string) : option bsig :=
  if String.eqb f "select" then Some SigSelect
  else if String.eqb f "any" then Some SigAnyAll
  else if String.eqb f "all" then Some SigAnyAll
  else if String.eqb f "abs" then Some (Sig1 is_numeric)
  else if String.eqb f "min" then Some (Sig2 is_numeric)
  else if String.eqb f "max" then Some (Sig2 is_numeric)
  else if String.eqb f "clamp" then Some (Sig3 is_numeric)
  else if String.eqb f "sign" then Some (Sig1 is_signed)
  else if String.eqb f "floor" then Some (Sig1 is_f32)
  else if String.eqb f "ceil" then Some (Sig1 is_f32)
  else if String.eqb f "trunc" then Some (Sig1 is_f32)
  else if String.eqb f "round" then Some (Sig1 is_f32)
  else if String.eqb f "sqrt" then Some (Sig1 is_f32)
  else if String.eqb f "fma" then Some (Sig3 is_f32)
  else if String.eqb f "saturate" then Some (Sig1 is_f32)
  else if String.eqb f "dot" then Some SigDot
  else if String.eqb f "countOneBits" then Some (Sig1 is_int)
  else if String.eqb f "countLeadingZeros" then Some (Sig1 is_int)
  else if String.eqb f "countTrailingZeros" then Some (Sig1 is_int)
  else if String.eqb f "reverseBits" then Some (Sig1 is_int)
  else if String.eqb f "firstLeadingBit" then Some (Sig1 is_int)
  else if String.eqb f "firstTrailingBit" then Some (Sig1 is_int)
  else if String.eqb f "extractBits" then Some SigExtract
  else if String.eqb f "insertBits" then Some SigInsert
  else None.

Definition sv_dom (dom : wscalar -> bool) (t : wty) : bool :=
  match sv_of t with Some (_, s) => dom s | None => false end.

Definition sig_ty (g : bsig) (ts : list wty) : tres wty :=
  match g with
  | SigSelect =>
    match ts with
    | [tf; tt2; tc] =>
      match sv_of tf, sv_of tc with
      | Some (n, s), Some (nc, sc) =>
        _ <-- guard (wty_eqb tf tt2 && is_bool sc && match nc with None => true | Some _ => optnat_eqb n nc end) RBuiltinArgTypes ;; TOk tf
      | _, _ => TErr RBuiltinArgTypes
      end
    | _ => TErr RBuiltinArity
    end
  | SigAnyAll =>
    match ts with
    | [t] => _ <-- guard (sv_dom is_bool t) RBuiltinArgTypes ;; TOk (TyS WBool)
    | _ => TErr RBuiltinArity
    end
  | Sig1 dom =>
    match ts with
    | [t] => _ <-- guard (sv_dom dom t) RBuiltinArgTypes ;; TOk t
    | _ => TErr RBuiltinArity
    end
  | Sig2 dom =>
    match ts with
    | [t; t2] => _ <-- guard (sv_dom dom t && wty_eqb t t2) RBuiltinArgTypes ;; TOk t
    | _ => TErr RBuiltinArity
    end
  | Sig3 dom =>
    match ts with
    | [t; t2; t3] => _ <-- guard (sv_dom dom t && wty_eqb t t2 && wty_eqb t t3) RBuiltinArgTypes ;; TOk t
    | _ => TErr RBuiltinArity
    end
  | SigDot =>
    match ts with
    | [TyVec n s; t2] => _ <-- guard (is_numeric s && dim_ok n && wty_eqb (TyVec n s) t2) RBuiltinArgTypes ;; TOk (TyS s)
    | [_; _] => TErr RBuiltinArgTypes
    | _ => TErr RBuiltinArity
    end
  | SigExtract =>
    match ts with
    | [t; to; tc] => _ <-- guard (sv_dom is_int t && wty_eqb to (TyS WU32) && wty_eqb tc (TyS WU32)) RBuiltinArgTypes ;; TOk t
    | _ => TErr RBuiltinArity
    end
  | SigInsert =>
    match ts with
    | [t; t2; to; tc] =>
      _ <-- guard (sv_dom is_int t && wty_eqb t t2 && wty_eqb to (TyS WU32) && wty_eqb tc (TyS WU32)) RBuiltinArgTypes ;; TOk t
    | _ => TErr RBuiltinArity
    end
  end.

Definition builtin_ty (f : string) (ts : list wty) : tres wty :=
  match builtin_sig f with
  | None => TErr RUnknownBuiltin
  | Some g => sig_ty g ts
  end.

(* ---- constructors ---- *)
Definition sv_size (t : wty) : nat := match t with TyVec n _ => n | _ => 1 end.

Definition cons_ty (ss : list (string * list wty)) (t : wty) (ts : list wty) : bool :=
  match ts with
  | [] => constructible ss t
  | _ =>
    match t with
    | TyS s => match ts with [TyS _] => true | _ => false end
    | TyVec n s =>
      dim_ok n &&
      match ts with
      | [TyS s'] => wscalar_eqb s s'
      | [TyVec m _] => Nat.eqb m n
      | _ => forallb (fun a => match sv_of a with Some (_, s') => wscalar_eqb s s' | None => false end) ts
             && Nat.eqb (fold_right (fun a acc => sv_size a + acc)%nat O ts) n
      end
    | TyMat c r =>
      (* column form only; the c*r-scalar form is valid WGSL but outside this checker *)
      dim_ok c && dim_ok r && Nat.eqb (List.length ts) c && forallb (wty_eqb (TyVec r WF32)) ts
    | TyArr (Some n) e => constructible ss t && Nat.eqb (List.length ts) n && forallb (wty_eqb e) ts
    | TyStruct name => match find_struct name ss with Some ms => wtys_eqb ts ms | None => false end
    | _ => false
    end
  end.

(* ---- typing contexts ---- *)
Inductive tbinding := TVal (t : wty) | TRef (t : wty) (rw : bool).
Definition tenv := list (string * tbinding).

Fixpoint tlookup (n : string) (g : tenv) : option tbinding :=
  match g with [] => None | (k, b) :: g' => if String.eqb k n then Some b else tlookup n g' end.

Definition fsig := (list wty * option wty)%type.
Fixpoint flookup (n : string) (p : list (string * fsig)) : option fsig :=
  match p with [] => None | (k, s) :: p' => if String.eqb k n then Some s else flookup n p' end.

Definition elem_ty (t : wty) : option wty :=
  match t with
  | TyVec _ s => Some (TyS s)
  | TyMat _ r => Some (TyVec r WF32)
  | TyArr _ e => Some e
  | _ => None
  end.

Definition is_index_ty (t : wty) : bool := match t with TyS WI32 | TyS WU32 => true | _ => false end.

Section Check.
Variable ss : list (string * list wty).       (* structures *)
Variable PHI : list (string * fsig).          (* callable functions *)
Variable DELTA : tenv.                        (* module scope: constants (TVal) and variables (TRef) *)

Definition tlookup_all (n : string) (g : tenv) : option tbinding :=
  match tlookup n g with Some b => Some b | None => tlookup n DELTA end.

(* [tyx] : type of an expression and whether it is a reference expression (memory view);
   [tyv] : its type as a value (the load rule applied); [tyvs] : argument lists *)
Fixpoint tyx (cf : nat) (g : tenv) (x : wexpr) {struct cf} : tres (wty * bool) :=
  match cf with
  | O => TErr RNesting
  | S c =>
    match x with
    | WLit s b => _ <-- guard (lit_ok s b) RLiteralRange ;; TOk (TyS s, false)
    | WVar n =>
      match tlookup_all n g with
      | Some (TVal t) => TOk (t, false)
      | Some (TRef t _) => TOk (t, true)
      | None => TErr RUnknownIdent
      end
    | WUn op a => ta <-- tyv c g a ;; _ <-- guard (negb (is_ptr ta)) ROperandTypes ;; t <-- unop_ty op ta ;; TOk (t, false)
    | WBin op a b =>
      ta <-- tyv c g a ;; tb <-- tyv c g b ;;
      _ <-- guard (negb (is_ptr ta) && negb (is_ptr tb)) ROperandTypes ;;
      if String.eqb op "&&" || String.eqb op "||" then
        _ <-- guard (wty_eqb ta (TyS WBool) && wty_eqb tb (TyS WBool)) ROperandTypes ;; TOk (TyS WBool, false)
      else t <-- binop_ty op ta tb ;; TOk (t, false)
    | WCall fn args =>
      ts <-- tyvs c g args ;;
      match flookup fn PHI with
      | None => TErr RUnknownFunction
      | Some (ps, ret) =>
        _ <-- guard (Nat.eqb (List.length ts) (List.length ps)) RCallArity ;;
        _ <-- guard (wtys_eqb ts ps) RCallArgTypes ;;
        match ret with Some t => TOk (t, false) | None => TErr RCallNoResult end
      end
    | WBuiltin fn args =>
      ts <-- tyvs c g args ;; _ <-- guard (forallb (fun t => negb (is_ptr t)) ts) RBuiltinArgTypes ;;
      t <-- builtin_ty fn ts ;; TOk (t, false)
    | WCons t args =>
      ts <-- tyvs c g args ;; _ <-- guard (forallb (fun t => negb (is_ptr t)) ts) RConstructorArgs ;;
      _ <-- guard (cons_ty ss t ts) RConstructorArgs ;; TOk (t, false)
    | WIdx a i =>
      '(ta, r) <-- tyx c g a ;; ti <-- tyv c g i ;;
      _ <-- guard (is_index_ty ti) RIndexType ;;
      te <-- of_opt RIndexBase (elem_ty ta) ;; TOk (te, r)
    | WMem a m =>
      '(ta, r) <-- tyx c g a ;;
      match ta with
      | TyStruct name =>
        ms <-- of_opt RUnknownStruct (find_struct name ss) ;;
        tm <-- of_opt RMemberIndex (nth_error ms m) ;; TOk (tm, r)
      | _ => TErr RMemberBase
      end
    | WSwz a p =>
      '(ta, r) <-- tyx c g a ;;
      match ta with
      | TyVec n s =>
        _ <-- guard (forallb (fun k => Nat.ltb k n) p) RSwizzleComponent ;;
        match p with
        | [_] => TOk (TyS s, r)
        | _ => _ <-- guard (dim_ok (List.length p)) RSwizzleComponent ;; TOk (TyVec (List.length p) s, false)
        end
      | _ => TErr RSwizzleBase
      end
    | WConv t a =>
      ta <-- tyv c g a ;;
      match ta with TyS _ => TOk (TyS t, false) | _ => TErr RConversionOperand end
    | WBitcast t a =>
      ta <-- tyv c g a ;;
      match sv_of ta with
      | Some (n, s) => _ <-- guard (is_numeric s && is_numeric t) RBitcastOperand ;; TOk (sv_ty n t, false)
      | None => TErr RBitcastOperand
      end
    | WAddr a =>
      '(ta, r) <-- tyx c g a ;;
      _ <-- guard r RAddrOfNonRef ;;
      _ <-- guard (match a with
             | WSwz _ _ => false
             | WIdx b _ => match tyx c g b with TOk (TyVec _ _, _) => false | _ => true end
             | _ => true
             end) RAddrOfVectorComponent ;;
      TOk (TyPtr ta, false)
    | WDeref a =>
      ta <-- tyv c g a ;;
      match ta with TyPtr t => TOk (t, true) | _ => TErr RDerefNonPointer end
    | WArrayLen a =>
      ta <-- tyv c g a ;;
      match ta with TyPtr (TyArr None _) => TOk (TyS WU32, false) | _ => TErr RArrayLengthOperand end
    end
  end
with tyv (cf : nat) (g : tenv) (x : wexpr) {struct cf} : tres wty :=
  match cf with
  | O => TErr RNesting
  | S c =>
    '(t, r) <-- tyx c g x ;;
    _ <-- guard (negb r || value_ty ss t) RLoadType ;; TOk t
  end
with tyvs (cf : nat) (g : tenv) (xs : list wexpr) {struct cf} : tres (list wty) :=
  match cf with
  | O => TErr RNesting
  | S c =>
    match xs with
    | [] => TOk []
    | x :: r => t <-- tyv c g x ;; ts <-- tyvs c g r ;; TOk (t :: ts)
    end
  end.

(* is the reference expression writable?  (root variable declared read_write; through a pointer: function space) *)
Fixpoint lvalue_rw (g : tenv) (x : wexpr) : bool :=
  match x with
  | WVar n => match tlookup_all n g with Some (TRef _ rw) => rw | _ => false end
  | WIdx a _ | WMem a _ | WSwz a _ => lvalue_rw g a
  | WDeref _ => true
  | _ => false
  end.

(* ---- statements ---- *)
Record sflags := mkF { f_brk : bool; f_cont : bool; f_ret : bool; f_incont : bool; f_rty : option wty }.

(* behaviours of the WGSL behaviour analysis *)
Record beh := mkB { b_next : bool; b_brk : bool; b_cont : bool; b_ret : bool }.
Definition bNext := mkB true false false false.
Definition bNone := mkB false false false false.
Definition b_or (a b : beh) : beh :=
  mkB (b_next a || b_next b) (b_brk a || b_brk b) (b_cont a || b_cont b) (b_ret a || b_ret b).
Definition b_seq (a b : beh) : beh :=
  if b_next a then mkB (b_next b) (b_brk a || b_brk b) (b_cont a || b_cont b) (b_ret a || b_ret b) else a.
Definition b_switch (a : beh) : beh := mkB (b_next a || b_brk a) false (b_cont a) (b_ret a).
Definition b_loop (u : beh) (break_if : bool) : beh := mkB (b_brk u || break_if) false false (b_ret u).

Definition scope := (tenv * list string)%type.     (* bindings in scope, names declared in the current block *)

Definition declare (n : string) (b : tbinding) (st : scope) : tres scope :=
  let '(g, cur) := st in
  if existsb (String.eqb n) cur then TErr RRedeclaration else TOk ((n, b) :: g, n :: cur).

Definition flags_loop (F : sflags) : sflags := mkF true true (f_ret F) false (f_rty F).
Definition flags_cont (F : sflags) : sflags := mkF false false false true (f_rty F).
Definition flags_switch (F : sflags) : sflags := mkF true (f_cont F) (f_ret F) (f_incont F) (f_rty F).

Definition is_default (s : option wexpr) : bool := match s with None => true | Some _ => false end.
Definition count_defaults (cases : list (list (option wexpr) * list wstmt)) : nat :=
  List.length (filter is_default (flat_map fst cases)).

Definition sel_value (s : option wexpr) : list Z := match s with Some (WLit _ b) => [b] | _ => [] end.
Fixpoint z_nodup (l : list Z) : bool :=
  match l with [] => true | x :: r => negb (existsb (Z.eqb x) r) && z_nodup r end.

Definition simple_stmt (s : wstmt) : bool :=
  match s with
  | WLet _ _ | WVarDecl _ _ _ | WAssign _ _ | WCompound _ _ _ | WIncr _ | WDecr _ | WCallStmt _ _ => true
  | _ => false
  end.

Definition check_call (cf : nat) (g : tenv) (fn : string) (args : list wexpr) : tres (option wty) :=
  ts <-- tyvs cf g args ;;
  match flookup fn PHI with
  | None => TErr RUnknownFunction
  | Some (ps, ret) =>
    _ <-- guard (Nat.eqb (List.length ts) (List.length ps)) RCallArity ;;
    _ <-- guard (wtys_eqb ts ps) RCallArgTypes ;; TOk ret
  end.

(* left side of an assignment: a writable reference; result: its store type *)
Definition check_lhs (cf : nat) (g : tenv) (l : wexpr) : tres wty :=
  '(tl, r) <-- tyx cf g l ;;
  _ <-- guard r RAssignToNonRef ;;
  _ <-- guard (lvalue_rw g l) RAssignReadOnly ;;
  _ <-- guard (constructible ss tl) RAssignTypes ;; TOk tl.

Fixpoint tys (cf : nat) (F : sflags) (st : scope) (s : wstmt) {struct cf} : tres (scope * beh) :=
  match cf with
  | O => TErr RNesting
  | S c =>
    let g := fst st in
    match s with
    | WLet n x =>
      t <-- tyv c g x ;; _ <-- guard (value_ty ss t) RLetType ;;
      st' <-- declare n (TVal t) st ;; TOk (st', bNext)
    | WVarDecl n t x =>
      _ <-- guard (constructible ss t) RVarType ;;
      _ <-- match x with
      | Some x' => te <-- tyv c g x' ;; guard (wty_eqb t te) RVarInitType
      | None => TOk tt
      end ;;
      st' <-- declare n (TRef t true) st ;; TOk (st', bNext)
    | WAssign l x =>
      tl <-- check_lhs c g l ;; te <-- tyv c g x ;;
      _ <-- guard (wty_eqb tl te) RAssignTypes ;; TOk (st, bNext)
    | WCompound op l x =>
      tl <-- check_lhs c g l ;; te <-- tyv c g x ;;
      _ <-- guard (negb (is_ptr te)) ROperandTypes ;;
      t <-- binop_ty op tl te ;;
      _ <-- guard (wty_eqb t tl) RAssignTypes ;; TOk (st, bNext)
    | WIncr l | WDecr l =>
      tl <-- check_lhs c g l ;;
      _ <-- guard (is_index_ty tl) RIncrDecrType ;; TOk (st, bNext)
    | WIf cnd th el =>
      tc <-- tyv c g cnd ;; _ <-- guard (wty_eqb tc (TyS WBool)) RConditionNotBool ;;
      '(_, B1) <-- tyb c F (g, []) th ;;
      '(_, B2) <-- tyb c F (g, []) el ;;
      TOk (st, b_or B1 B2)
    | WSwitch x cases =>
      tx <-- tyv c g x ;;
      match tx with
      | TyS sk =>
        _ <-- guard (is_int sk) RSwitchSelectorType ;;
        _ <-- guard (Nat.eqb (count_defaults cases) 1) RSwitchDefault ;;
        _ <-- guard (z_nodup (flat_map sel_value (flat_map fst cases))) RSwitchDuplicate ;;
        B <-- tycases c (flags_switch F) g sk cases ;;
        TOk (st, b_switch B)
      | _ => TErr RSwitchSelectorType
      end
    | WLoop body cont brk => B <-- tyloop c F g body cont brk ;; TOk (st, B)
    | WFor init cnd upd body =>
      '(st1, Bi) <-- match init with
                     | Some i => _ <-- guard (simple_stmt i) RForm ;; tys c F (g, []) i
                     | None => TOk ((g, []), bNext)
                     end ;;
      _ <-- guard (negb (b_brk Bi || b_cont Bi || b_ret Bi)) RForm ;;
      _ <-- guard (match upd with Some u => simple_stmt u && negb (match u with WLet _ _ | WVarDecl _ _ _ => true | _ => false end)
                          | None => true end) RForm ;;
      B <-- tyloop c F (fst st1)
                   ((match cnd with Some c' => [WIf c' [] [WBreak]] | None => [] end) ++ [WBlock body])
                   (match upd with Some u => [u] | None => [] end) None ;;
      TOk (st, B)
    | WWhile cnd body =>
      B <-- tyloop c F g ([WIf cnd [] [WBreak]] ++ [WBlock body]) [] None ;; TOk (st, B)
    | WBreak =>
      _ <-- guard (f_brk F) (if f_incont F then RBreakInContinuing else RBreakOutsideLoop) ;;
      TOk (st, mkB false true false false)
    | WContinue =>
      _ <-- guard (f_cont F) (if f_incont F then RContinueInContinuing else RContinueOutsideLoop) ;;
      TOk (st, mkB false false true false)
    | WReturn x =>
      _ <-- guard (f_ret F) RReturnInContinuing ;;
      match x, f_rty F with
      | None, None => TOk (st, mkB false false false true)
      | Some x', Some t =>
        te <-- tyv c g x' ;; _ <-- guard (wty_eqb t te) RReturnType ;; TOk (st, mkB false false false true)
      | _, _ => TErr RReturnType
      end
    | WCallStmt fn args => _ <-- check_call c g fn args ;; TOk (st, bNext)
    | WBlock body => '(_, B) <-- tyb c F (g, []) body ;; TOk (st, B)
    end
  end
with tyb (cf : nat) (F : sflags) (st : scope) (b : list wstmt) {struct cf} : tres (scope * beh) :=
  match cf with
  | O => TErr RNesting
  | S c =>
    match b with
    | [] => TOk (st, bNext)
    | s :: rest =>
      '(st1, B1) <-- tys c F st s ;;
      '(st2, B2) <-- tyb c F st1 rest ;;
      TOk (st2, b_seq B1 B2)
    end
  end
with tycases (cf : nat) (F : sflags) (g : tenv) (sk : wscalar)
             (cases : list (list (option wexpr) * list wstmt)) {struct cf} : tres beh :=
  match cf with
  | O => TErr RNesting
  | S c =>
    match cases with
    | [] => TOk bNone
    | (sels, body) :: rest =>
      _ <-- tysels c g sk sels ;;
      '(_, B1) <-- tyb c F (g, []) body ;;
      B2 <-- tycases c F g sk rest ;;
      TOk (b_or B1 B2)
    end
  end
with tysels (cf : nat) (g : tenv) (sk : wscalar) (sels : list (option wexpr)) {struct cf} : tres unit :=
  match cf with
  | O => TErr RNesting
  | S c =>
    match sels with
    | [] => TOk tt
    | None :: rest => tysels c g sk rest
    | Some x :: rest =>
      t <-- tyv c g x ;;
      _ <-- guard (wty_eqb t (TyS sk)) RSwitchCaseType ;;
      _ <-- guard (match x with
             | WLit _ _ => true
             | WVar n => match tlookup n g, tlookup n DELTA with None, Some (TVal _) => true | _, _ => false end
             | _ => false
             end) RSwitchCaseNotConst ;;
      tysels c g sk rest
    end
  end
with tyloop (cf : nat) (F : sflags) (g : tenv) (body cont : list wstmt) (brk : option wexpr) {struct cf} : tres beh :=
  match cf with
  | O => TErr RNesting
  | S c =>
    (* the continuing block runs in the scope of the body when control falls through and in the scope of
       the loop after `continue`: it must be well typed in both (WGSL: a continue must not bypass a
       declaration used in the continuing block; conservative form) *)
    '(stb, Bb) <-- tyb c (flags_loop F) (g, []) body ;;
    '(stc1, Bc1) <-- tyb c (flags_cont F) (fst stb, []) cont ;;
    '(stc2, Bc2) <-- tyb c (flags_cont F) (g, []) cont ;;
    _ <-- match brk with
    | None => TOk tt
    | Some x =>
      t1 <-- tyv c (fst stc1) x ;; t2 <-- tyv c (fst stc2) x ;;
      guard (wty_eqb t1 (TyS WBool) && wty_eqb t2 (TyS WBool)) RConditionNotBool
    end ;;
    TOk (b_loop (b_or Bb (b_or Bc1 Bc2)) (match brk with Some _ => true | None => false end))
  end.

End Check.

(* ---- whole programs ---- *)
Definition CHECK_FUEL : nat := 1000 * 1000.

Definition params_env (ps : list (string * wty)) : tenv := map (fun p => (fst p, TVal (snd p))) ps.

Fixpoint str_nodup (l : list string) : bool :=
  match l with [] => true | x :: r => negb (existsb (String.eqb x) r) && str_nodup r end.

Definition func_sig (f : wfunc) : string * fsig := (wf_name f, (map snd (wf_params f), wf_ret f)).

Definition check_func (ss : list (string * list wty)) (PHI : list (string * fsig)) (DELTA : tenv) (f : wfunc) : tres unit :=
  _ <-- guard (str_nodup (map fst (wf_params f))) RRedeclaration ;;
  _ <-- guard (forallb (fun p => value_ty ss (snd p)) (wf_params f)) RParamType ;;
  _ <-- guard (match wf_ret f with Some t => constructible ss t | None => true end) RParamType ;;
  '(_, B) <-- tyb ss PHI DELTA CHECK_FUEL (mkF false false true false (wf_ret f))
                  (params_env (wf_params f), map fst (wf_params f)) (wf_body f) ;;
  guard (match wf_ret f with Some _ => negb (b_next B) | None => true end) RMissingReturn.

(* syntactic const-expressions: literals, module constants, operators, builtins, constructors, conversions *)
Fixpoint const_expr (fuel : nat) (x : wexpr) : bool :=
  match fuel with
  | O => false
  | S f =>
    match x with
    | WLit _ _ | WVar _ => true         (* in the module-constant context only constants are in scope *)
    | WUn _ a | WConv _ a | WBitcast _ a | WMem a _ | WSwz a _ => const_expr f a
    | WBin _ a b | WIdx a b => const_expr f a && const_expr f b
    | WBuiltin _ args | WCons _ args => forallb (const_expr f) args
    | _ => false
    end
  end.

Fixpoint check_structs (all seen : list (string * list wty)) (todo : list (string * list wty)) : option (rule * string) :=
  match todo with
  | [] => None
  | (n, ms) :: rest =>
    if existsb (fun d => String.eqb (fst d) n) seen then Some (RRedeclaration, String.append "struct " (n))
    else if negb (Nat.leb 1 (List.length ms)) then Some (RStructMember, String.append "struct " (n))
    (* members name earlier structures only (no recursive structures); also well formed in the whole table *)
    else if negb (forallb (fun t => ty_wf seen t && ty_wf all t) ms) then Some (RStructMember, String.append "struct " (n))
    else check_structs all (seen ++ [(n, ms)]) rest
  end.

Definition in_tenv (n : string) (g : tenv) : bool := match tlookup n g with Some _ => true | None => false end.

(* module constants, in order; the context grows at the END like Sem.eval_consts's environment *)
Fixpoint check_consts (ss : list (string * list wty)) (cs : list (string * wexpr)) (D : tenv) : (option (rule * string) * tenv) :=
  match cs with
  | [] => (None, D)
  | (n, x) :: rest =>
    if in_tenv n D then (Some (RRedeclaration, String.append "const " (n)), D)
    else if negb (const_expr 64 x) then (Some (RConstExpr, String.append "const " (n)), D)
    else match tyv ss [] D 200 [] x with
         | TErr r => (Some (r, String.append "const " (n)), D)
         | TOk t =>
           if negb (constructible ss t) then (Some (RLetType, String.append "const " (n)), D)
           else check_consts ss rest (D ++ [(n, TVal t)])
         end
  end.

Definition space_ok (ss : list (string * list wty)) (sp : string) (t : wty) : option bool :=   (* Some rw *)
  if String.eqb sp "storage_rw" then (if buffer_ty ss t && host_ty 32 ss t then Some true else None)
  else if String.eqb sp "storage_r" then (if buffer_ty ss t && host_ty 32 ss t then Some false else None)
  else if String.eqb sp "uniform" then (if constructible ss t && host_ty 32 ss t then Some false else None)
  else if String.eqb sp "private" then (if constructible ss t then Some true else None)
  else if String.eqb sp "workgroup" then (if constructible ss t then Some true else None)
  else None.

Fixpoint check_globals (ss : list (string * list wty)) (gs : list wglobal) (D : tenv) : (option (rule * string) * tenv) :=
  match gs with
  | [] => (None, D)
  | g :: rest =>
    let n := wg_name g in
    if in_tenv n D then (Some (RRedeclaration, String.append "var " (n)), D)
    else match space_ok ss (wg_space g) (wg_ty g) with
         | None => (Some (RGlobalType, String.append "var " (n)), D)
         | Some rw =>
           match (match wg_init g with
                  | None => None
                  | Some x =>
                    if negb (String.eqb (wg_space g) "private") then Some RGlobalInit
                    else if negb (const_expr 64 x) then Some RConstExpr
                    else match tyv ss [] D 200 [] x with
                         | TErr r => Some r
                         | TOk t => if wty_eqb t (wg_ty g) then None else Some RGlobalInit
                         end
                  end) with
           | Some r => (Some (r, String.append "var " (n)), D)
           | None => check_globals ss rest (D ++ [(n, TRef (wg_ty g) rw)])
           end
         end
  end.

(* every function is checked twice: against the whole function table (what the soundness theorem
   uses: Sem.call resolves names in the whole table) and against the functions declared before it
   (no recursion, no forward calls in the module order of the AST) *)
Fixpoint check_funcs (ss : list (string * list wty)) (PHI : list (string * fsig)) (D : tenv)
                     (seen : list (string * fsig)) (fs : list wfunc) : option (rule * string) :=
  match fs with
  | [] => None
  | f :: rest =>
    let w := String.append "fn " (wf_name f) in
    if in_tenv (wf_name f) D || match flookup (wf_name f) seen with Some _ => true | None => false end
    then Some (RRedeclaration, w)
    else match check_func ss PHI D f with
         | TErr r => Some (r, w)
         | TOk _ =>
           match check_func ss seen D f with
           | TErr _ => Some (RRecursion, w)
           | TOk _ => check_funcs ss PHI D (seen ++ [func_sig f]) rest
           end
         end
  end.

Definition check_entry (ss : list (string * list wty)) (PHI : list (string * fsig)) (D : tenv) (f : wfunc) : option (rule * string) :=
  let w := String.append "entry " (wf_name f) in
  if in_tenv (wf_name f) D || match flookup (wf_name f) PHI with Some _ => true | None => false end
  then Some (RRedeclaration, w)
  else match wf_ret f with
       | Some _ => Some (REntryPoint, w)       (* compute entry points return nothing *)
       | None =>
         (* the only parameters the AST carries are builtin inputs of type vec3<u32> *)
         if negb (forallb (fun p => wty_eqb (snd p) (TyVec 3 WU32)) (wf_params f)) then Some (REntryPoint, w)
         else match check_func ss PHI D f with
              | TErr r => Some (r, w)
              | TOk _ => None
              end
       end.

Definition prog_sigs (p : wprog) : list (string * fsig) := map func_sig (wp_funcs p).

Definition wgsl_check (p : wprog) : option (rule * string) :=
  let ss := wp_structs p in
  match check_structs ss [] ss with
  | Some e => Some e
  | None =>
    if negb (structs_wf ss) then Some (RStructMember, "structs")
    else
    match check_consts ss (wp_consts p) [] with
    | (Some e, _) => Some e
    | (None, D1) =>
      match check_globals ss (wp_globals p) D1 with
      | (Some e, _) => Some e
      | (None, D) =>
        match check_funcs ss (prog_sigs p) D [] (wp_funcs p) with
        | Some e => Some e
        | None => check_entry ss (prog_sigs p) D (wp_entry p)
        end
      end
    end
  end.

(* the module-scope context of an accepted program (used by the theorems) *)
Definition prog_delta (p : wprog) : tenv :=
  snd (check_globals (wp_structs p) (wp_globals p) (snd (check_consts (wp_structs p) (wp_consts p) []))).
