(* Type soundness of Wgsl/Typecheck.v w.r.t. the reference semantics Wgsl/Sem.v, for ALL programs,
   inputs and fuel: an accepted expression / statement / function / program evaluates to a value of its
   type (in a well-typed memory), runs out of fuel, or stops with one of the listed dynamic errors
   ([benign]); never with a type, shape, scoping or arity failure. *)
From Coq Require Import List ZArith String Bool Lia.
Import ListNotations.
Require Import Naga.Base.Bits32 Naga.IR.Syntax Naga.IR.Values Naga.IR.Sem Naga.Wgsl.Sem Naga.Wgsl.Typecheck.
Require Import Naga.Wgsl.TypecheckBase Naga.Wgsl.TypecheckOps Naga.Wgsl.TypecheckBuiltins Naga.Wgsl.TypecheckMem Naga.Wgsl.TypecheckUnfold Naga.Wgsl.SemUnfold.
Open Scope string_scope.
Open Scope list_scope.

Section Sound.
Variable P : wprog.
Variable genv : env.
Variable PHI : list (string * fsig).
Variable D : tenv.

Notation ss := (wp_structs P).
Notation vty := (vty ss).
Notation bty := (bty ss).
Notation mem_ok := (mem_ok ss).
Notation env_ok := (env_ok ss).
Notation path_ty := (path_ty ss).
Notation tyx := (tyx ss PHI D).
Notation tyv := (tyv ss PHI D).
Notation tyvs := (tyvs ss PHI D).
Notation tys := (tys ss PHI D).
Notation tyb := (tyb ss PHI D).
Notation tycases := (tycases ss PHI D).
Notation tysels := (tysels ss PHI D).
Notation tyloop := (tyloop ss PHI D).
Notation eval := (eval P genv).
Notation eval_ref := (eval_ref P genv).
Notation eval_list := (eval_list P genv).
Notation exec := (exec P genv).
Notation exec1 := (exec1 P genv).
Notation select_case := (select_case P genv).
Notation match_sels := (match_sels P genv).
Notation exec_loop := (exec_loop P genv).
Notation call := (call P genv).

(* well-typed state: local environment, module environment, memory *)
Definition wt (sg : list wty) (g : tenv) (e : env) (mem : list value) : Prop :=
  env_ok sg g e /\ env_ok sg D genv /\ mem_ok sg mem.

Lemma wt_ext sg sg1 g e mem m1 : wt sg g e mem -> ext sg sg1 -> mem_ok sg1 m1 -> wt sg1 g e m1.
Proof. intros (H1 & H2 & _) He Hm. repeat split; auto; eapply env_ok_ext; eauto. Qed.

(* result of an evaluation that threads the memory: the store typing only grows *)
Definition RES {A} (sg : list wty) (Q : list wty -> A -> Prop) (r : A * list value) : Prop :=
  exists sg1, ext sg sg1 /\ mem_ok sg1 (snd r) /\ Q sg1 (fst r).

Lemma rok_RES_ext {A} sg sg1 (Q : list wty -> A -> Prop) r : ext sg sg1 -> rok (RES sg1 Q) r -> rok (RES sg Q) r.
Proof.
  intros He H. eapply rok_weaken; [exact H|]. intros a (sg2 & He2 & Hm & Hq).
  exists sg2. repeat split; auto. eapply ext_trans; eauto.
Qed.

Definition cellp (t : wty) (r : nat * list nat * list value) (sg1 : list wty) : Prop :=
  exists t0, nth_error sg1 (fst (fst r)) = Some t0 /\ path_ty t0 (snd (fst r)) = Some t.

Definition REF (sg : list wty) (t : wty) (r : nat * list nat * list value) : Prop :=
  exists sg1, ext sg sg1 /\ mem_ok sg1 (snd r) /\ cellp t r sg1.

(* ---- flows ---- *)
Definition ret_ok (sg : list wty) (rt : option wty) (rv : option value) : Prop :=
  match rt, rv with
  | Some t, Some v => bty sg v t
  | None, None => True
  | _, _ => False
  end.

Definition flow_ok (F : sflags) (B : beh) (sg : list wty) (fl : flow) : Prop :=
  match fl with
  | FNormal => b_next B = true
  | FBreak => b_brk B = true /\ f_brk F = true
  | FContinue => b_cont B = true /\ f_cont F = true
  | FReturn rv => b_ret B = true /\ f_ret F = true /\ ret_ok sg (f_rty F) rv
  end.

Definition SPOST (sg : list wty) (F : sflags) (B : beh) (g' : tenv) (r : flow * env * list value) : Prop :=
  exists sg1, ext sg sg1 /\ mem_ok sg1 (snd r) /\ flow_ok F B sg1 (fst (fst r)) /\
              (fst (fst r) = FNormal -> env_ok sg1 g' (snd (fst r))).

Definition beh_le (a b : beh) : Prop :=
  (b_next a = true -> b_next b = true) /\ (b_brk a = true -> b_brk b = true) /\
  (b_cont a = true -> b_cont b = true) /\ (b_ret a = true -> b_ret b = true).

Lemma ret_ok_ext sg sg1 rt rv : ext sg sg1 -> ret_ok sg rt rv -> ret_ok sg1 rt rv.
Proof. intros He. destruct rt, rv; cbn; auto. eapply bty_ext; eauto. Qed.

Lemma flow_ok_le F B B' sg fl : beh_le B B' -> flow_ok F B sg fl -> flow_ok F B' sg fl.
Proof.
  intros (H1 & H2 & H3 & H4). destruct fl; cbn; intuition.
Qed.

Lemma beh_le_refl a : beh_le a a.
Proof. repeat split; auto. Qed.
Lemma beh_le_or_l a b : beh_le a (b_or a b).
Proof. destruct a, b; repeat split; cbn; intros ->; reflexivity. Qed.
Lemma beh_le_or_r a b : beh_le b (b_or a b).
Proof. destruct a, b; repeat split; cbn; intros ->; apply orb_true_r. Qed.
Lemma beh_le_trans a b c : beh_le a b -> beh_le b c -> beh_le a c.
Proof. intros (A1 & A2 & A3 & A4) (B1 & B2 & B3 & B4). repeat split; auto. Qed.

(* ---- module functions: what the checker established for every callable function ---- *)
Definition func_ok (fd : wfunc) : Prop :=
  exists cf st B,
    tyb cf (mkF false false true false (wf_ret fd)) (params_env (wf_params fd), map fst (wf_params fd)) (wf_body fd) = TOk (st, B)
    /\ (wf_ret fd <> None -> b_next B = false).

Hypothesis Hss : structs_wf ss = true.
Hypothesis Hfuncs : forall fn ps ret, flookup fn PHI = Some (ps, ret) ->
  exists fd, find_func fn (wp_funcs P) = Some fd /\ ps = map snd (wf_params fd) /\ ret = wf_ret fd /\ func_ok fd.

(* ---- is_ref agrees with the checker ---- *)
Lemma is_ref_tyx sg e : forall cf g x t r,
  env_ok sg g e -> env_ok sg D genv -> tyx cf g x = TOk (t, r) -> is_ref genv e x = r.
Proof.
  induction cf as [|c IH]; intros g x t r He Hg H; [discriminate|].
  destruct x; autorewrite with tcu in H; cbn [is_ref]; tinv; try reflexivity.
  - (* var *)
    pose proof (He n) as H1. pose proof (Hg n) as H2. unfold tlookup_all in H.
    destruct (tlookup n g) as [[t1|t1 rw1]|], (lookup n e) as [[v|c0]|]; cbn in H1; try contradiction;
      try (inversion H; subst; reflexivity).
    destruct (tlookup n D) as [[t1|t1 rw1]|], (lookup n genv) as [[v|c0]|]; cbn in H2; try contradiction;
      try (inversion H; subst; reflexivity); discriminate.
  - (* bin *) destruct (String.eqb op "&&" || String.eqb op "||"); tinv; reflexivity.
  - (* call *) destruct (flookup f PHI) as [[ps ret]|]; [|discriminate]. tinv. destruct ret; [|discriminate]. tinv. reflexivity.
  - (* idx *) eapply IH; eauto.
  - (* mem *) destruct w; try discriminate. tinv. eapply IH; eauto.
  - (* swz *)
    destruct w; try discriminate. tinv.
    destruct p as [|k [|k2 p']]; tinv; try reflexivity. eapply IH; eauto.
  - (* conv *) destruct tv; try discriminate. tinv. reflexivity.
  - (* bitcast *) destruct (sv_of tv) as [[n s]|]; [|discriminate]. tinv. reflexivity.
  - (* deref *) destruct tv; try discriminate. tinv. reflexivity.
  - (* arraylen *) destruct tv; try discriminate. destruct tv; try discriminate. destruct n; try discriminate. tinv. reflexivity.
Qed.

(* ---- the statement proved by induction on the fuel of the semantics ---- *)
Definition sound_expr (n : nat) : Prop :=
  forall cf g x t r sg e mem,
    tyx cf g x = TOk (t, r) -> wt sg g e mem ->
    rok (RES sg (fun sg1 v => bty sg1 v t)) (eval n e mem x).

Definition sound_ref (n : nat) : Prop :=
  forall cf g x t sg e mem,
    tyx cf g x = TOk (t, true) -> wt sg g e mem ->
    rok (REF sg t) (eval_ref n e mem x).

Definition sound_list (n : nat) : Prop :=
  forall cf g xs ts sg e mem,
    tyvs cf g xs = TOk ts -> wt sg g e mem ->
    rok (RES sg (fun sg1 vs => Forall2 (bty sg1) vs ts)) (eval_list n e mem xs).

Definition call_post (sg : list wty) (ret : option wty) (r : option value * list value) : Prop :=
  exists sg1, ext sg sg1 /\ mem_ok sg1 (snd r) /\
    match ret, fst r with Some t, Some v => bty sg1 v t | Some _, None => False | None, _ => True end.

Definition sound_call (n : nat) : Prop :=
  forall fn ps ret args sg mem,
    flookup fn PHI = Some (ps, ret) -> Forall2 (bty sg) args ps -> env_ok sg D genv -> mem_ok sg mem ->
    rok (call_post sg ret) (call n fn args mem).

(* value form of sound_expr (the load rule applied by the checker's tyv) *)
Lemma sound_value n : sound_expr n -> forall cf g x t sg e mem,
  tyv cf g x = TOk t -> wt sg g e mem -> rok (RES sg (fun sg1 v => bty sg1 v t)) (eval n e mem x).
Proof.
  intros IH cf g x t sg e mem H Hw. destruct cf as [|c]; [discriminate|]. autorewrite with tcu in H. tinv.
  eapply IH; eauto.
Qed.

Lemma res_done {A} sg (Q : list wty -> A -> Prop) a m : mem_ok sg m -> Q sg a -> rok (RES sg Q) (Done (a, m)).
Proof. intros Hm Hq. cbn. exists sg. repeat split; auto. apply ext_refl. Qed.

Lemma Forall2_bty_vty sg vs ts :
  forallb (fun t => negb (is_ptr t)) ts = true -> Forall2 (bty sg) vs ts -> Forall2 vty vs ts.
Proof.
  intros H Hv. induction Hv as [|v t vs ts Hv Hvs IH]; cbn in H; [constructor|].
  apply andb_prop in H. destruct H as [H1 H2]. constructor; auto.
  eapply bty_vty; eauto. destruct (is_ptr t); [discriminate|reflexivity].
Qed.

Lemma Forall2_bty_ext sg sg1 vs ts : ext sg sg1 -> Forall2 (bty sg) vs ts -> Forall2 (bty sg1) vs ts.
Proof. intros He H. induction H; constructor; auto. eapply bty_ext; eauto. Qed.

Lemma sty_bool_inv v : sty v WBool -> exists b, v = VBool b.
Proof. intros H; inversion H; eauto. Qed.

Lemma negb_ptr t : negb (is_ptr t) = true -> is_ptr t = false.
Proof. destruct (is_ptr t); [discriminate|reflexivity]. Qed.

Lemma nth_lt {A} (l : list A) k : (k < List.length l)%nat -> exists x, nth_error l k = Some x.
Proof. intros H. destruct (nth_error l k) eqn:E; [eauto|]. apply nth_error_None in E. lia. Qed.

Lemma swizzle_ok s l p :
  Forall (fun x => sty x s) l -> forallb (fun k => Nat.ltb k (List.length l)) p = true ->
  rok (fun vs => List.length vs = List.length p /\ Forall (fun x => sty x s) vs) (rmap (fun k => nth_res "swizzle" l k) p).
Proof.
  intros Hl Hp. rewrite forallb_forall in Hp.
  eapply rok_weaken; [apply (rmap_ok (fun k => In k p) (fun x => sty x s)); [apply Forall_forall; auto|]|].
  - intros k Hk. apply Hp in Hk. apply Nat.ltb_lt in Hk. destruct (nth_lt l k Hk) as (x & E).
    unfold nth_res. rewrite E. cbn. exact (Forall_nth _ _ _ _ Hl E).
  - intros vs Hvs. exact Hvs.
Qed.

Lemma index_of_value_ok sg vi ti : is_index_ty ti = true -> bty sg vi ti -> rok (fun _ : nat => True) (index_of_value vi).
Proof.
  intros H Hv. destruct ti as [[| | |]| | | | |]; try discriminate; cbn in Hv; apply vty_s_inv in Hv; inversion Hv; subst; cbn [index_of_value].
  - destruct (z <? H32)%Z; cbn; auto.
  - cbn; auto.
Qed.

Lemma elem_not_ptr w t : elem_ty w = Some t -> is_ptr w = false.
Proof. destruct w; cbn; try discriminate; reflexivity. Qed.

Lemma elem_path w t : elem_ty w = Some t -> forall k, TypecheckMem.path_step ss w k = Some t.
Proof. destruct w; cbn; try discriminate; auto. Qed.

Ltac bv :=
  match goal with
  | H : TypecheckMem.bty _ ?sg ?v ?t |- TypecheckBase.vty _ ?v _ =>
    apply (bty_vty _ sg v t); [first [reflexivity | eassumption | eapply sv_not_ptr; eassumption]|exact H]
  end.

(* stepping through a sub-evaluation *)
Ltac step_expr IH Hty Hw v m sg1 :=
  let He := fresh "Hext" in let Hm := fresh "Hmem" in let Hv := fresh "Hval" in
  eapply rok_bind; [eapply IH; [exact Hty|exact Hw]|];
  intros [v m] (sg1 & He & Hm & Hv); cbn [fst snd] in He, Hm, Hv;
  apply (rok_RES_ext _ sg1 _ _ He).

Ltac npt := repeat match goal with H : negb (is_ptr _) = true |- _ => apply negb_ptr in H end.

(* find the checker fact about the sub-expression under evaluation and step through it *)
Ltac sv IHV Hw v m sg1 :=
  match goal with
  | |- rok _ (rbind (Sem.eval _ _ _ _ _ ?a) _) =>
    match goal with
    | Hty : Typecheck.tyv _ _ _ _ _ a = TOk _ |- _ => step_expr IHV Hty Hw v m sg1
    end
  end.
Ltac sx IHE Hw v m sg1 :=
  match goal with
  | |- rok _ (rbind (Sem.eval _ _ _ _ _ ?a) _) =>
    match goal with
    | Hty : Typecheck.tyx _ _ _ _ _ a = TOk _ |- _ => step_expr IHE Hty Hw v m sg1
    end
  end.

Lemma expr_step n : sound_expr n -> sound_ref n -> sound_list n -> sound_call n -> sound_expr (S n).
Proof.
  intros IHE IHR IHL IHC cf g x t r sg e mem H Hw.
  pose proof (sound_value n IHE) as IHV.
  destruct Hw as (He & Hg & Hm).
  assert (Hw : wt sg g e mem) by (repeat split; assumption).
  pose proof (is_ref_tyx sg e cf g x t r He Hg H) as Hr.
  cbn [Sem.eval]. rewrite Hr. destruct r.
  { (* a reference expression: evaluate the reference, then load *)
    eapply rok_bind; [eapply IHR; eauto|].
    intros [[c p] m1] (sg1 & Hext & Hm1 & (t0 & Hc & Hp)). cbn [fst snd] in *.
    eapply rok_bind; [eapply load_cell_ok; eauto|]. intros v Hv. cbn.
    exists sg1. repeat split; auto. apply vty_bty. exact Hv. }
  destruct cf as [|c]; [discriminate|].
  destruct x; autorewrite with tcu in H.
  - (* literal *)
    tinv. apply res_done; auto. cbn. constructor. destruct s; constructor.
  - (* identifier bound to a value *)
    pose proof (env_ok_all ss sg D genv g e n0 He Hg) as Hb.
    destruct (tlookup_all D n0 g) as [[t1|t1 rw1]|]; [| |discriminate]; inversion H; subst.
    destruct (lookup_all genv n0 e) as [[v|c0]|]; cbn in Hb; try contradiction.
    apply res_done; auto.
  - (* unary *)
    tinv. npt. sv IHV Hw va m1 sg1.
    eapply rok_bind; [eapply (wunop_ok ss); [eassumption|bv]|]. intros v' Hv'.
    apply res_done; auto. apply vty_bty. exact Hv'.
  - (* binary *)
    tinv. npt.
    destruct (String.eqb op "&&") eqn:Eand.
    { cbn [orb] in *. tinv. beq. subst.
      sv IHV Hw va m1 sg1.
      apply bty_vty in Hval; [|reflexivity]. apply vty_s_inv in Hval. destruct (sty_bool_inv _ Hval) as (bb & ->).
      destruct bb.
      - eapply IHV; [eassumption|eapply wt_ext; eauto].
      - apply res_done; auto. cbn. constructor. constructor. }
    destruct (String.eqb op "||") eqn:Eor.
    { cbn [orb] in *. tinv. beq. subst.
      sv IHV Hw va m1 sg1.
      apply bty_vty in Hval; [|reflexivity]. apply vty_s_inv in Hval. destruct (sty_bool_inv _ Hval) as (bb & ->).
      destruct bb.
      - apply res_done; auto. cbn. constructor. constructor.
      - eapply IHV; [eassumption|eapply wt_ext; eauto]. }
    cbn [orb] in *. tinv.
    sv IHV Hw va m1 sg1.
    assert (Hw1 : wt sg1 g e m1) by (eapply wt_ext; eauto).
    sv IHV Hw1 vb m2 sg2.
    eapply rok_bind; [eapply (wbinop_ok ss); [eassumption|bv|bv]|].
    intros v' Hv'. apply res_done; auto. apply vty_bty. exact Hv'.
  - (* call *)
    tinv. destruct (flookup f PHI) as [[ps ret]|] eqn:Ef; [|discriminate]. tinv.
    destruct ret as [tr|]; [|discriminate]. tinv. beq. subst.
    eapply rok_bind; [eapply IHL; eauto|]. intros [vs m1] (sg1 & Hext & Hm1 & Hvs). cbn [fst snd] in *.
    apply (rok_RES_ext _ sg1 _ _ Hext).
    eapply rok_bind; [eapply IHC; eauto; eapply env_ok_ext; eauto|].
    intros [rv m2] (sg2 & Hext2 & Hm2 & Hrv). cbn [fst snd] in *.
    destruct rv as [v|]; [|contradiction]. cbn. exists sg2. repeat split; auto.
  - (* builtin *)
    tinv. eapply rok_bind; [eapply IHL; eauto|]. intros [vs m1] (sg1 & Hext & Hm1 & Hvs). cbn [fst snd] in *.
    apply (rok_RES_ext _ sg1 _ _ Hext).
    eapply rok_bind; [eapply (wbuiltin_ok ss); [eassumption|eapply Forall2_bty_vty; eauto]|].
    intros v' Hv'. apply res_done; auto. apply vty_bty. exact Hv'.
  - (* constructor *)
    tinv. eapply rok_bind; [eapply IHL; eauto|]. intros [vs m1] (sg1 & Hext & Hm1 & Hvs). cbn [fst snd] in *.
    apply (rok_RES_ext _ sg1 _ _ Hext).
    eapply rok_bind; [eapply (wcons_ok ss); [exact Hss|eassumption|eapply Forall2_bty_vty; eauto]|].
    intros v' Hv'. apply res_done; auto. apply vty_bty. exact Hv'.
  - (* index into a value *)
    tinv. sx IHE Hw va m1 sg1.
    assert (Hw1 : wt sg1 g e m1) by (eapply wt_ext; eauto).
    sv IHV Hw1 vi m2 sg2.
    match goal with H : elem_ty ?w = Some _ |- _ => pose proof (elem_not_ptr _ _ H) as Hnp; pose proof (elem_path _ _ H) as Hpath end.
    eapply rok_bind; [eapply index_of_value_ok; eauto|]. intros k _.
    eapply rok_bind; [eapply (index_ok ss); [bv|apply Hpath]|].
    intros v' Hv'. apply res_done; auto. apply vty_bty. exact Hv'.
  - (* member of a value *)
    tinv. match goal with H : match ?w with TyS _ => _ | _ => _ end = TOk _ |- _ => destruct w; try discriminate H end. tinv.
    sx IHE Hw va m1 sg1.
    eapply rok_bind; [eapply (index_ok ss); [bv|]|].
    { unfold path_step. match goal with H : find_struct _ _ = Some _ |- _ => rewrite H end. eassumption. }
    intros v' Hv'. apply res_done; auto. apply vty_bty. exact Hv'.
  - (* swizzle of a value *)
    tinv. match goal with H : match ?w with TyS _ => _ | _ => _ end = TOk _ |- _ => destruct w; try discriminate H end. tinv.
    sx IHE Hw va m1 sg1.
    apply vty_vec_inv in Hval. destruct Hval as (l & -> & Hlen & Hl). cbn [vec_elems rbind]. subst.
    match goal with H : forallb _ p = true |- _ => rename H into Hp end.
    destruct p as [|k [|k2 p']].
    + tinv. cbn [rmap]. cbn. exists sg1. repeat split; auto; [apply ext_refl|]. constructor; auto.
    + tinv. cbn [forallb] in Hp. apply andb_prop in Hp. destruct Hp as [Hp _]. apply Nat.ltb_lt in Hp.
      destruct (nth_lt l k Hp) as (x0 & E). unfold nth_res. rewrite E. cbn [rbind].
      apply res_done; auto. cbn. constructor. exact (Forall_nth _ _ _ _ Hl E).
    + tinv. eapply rok_bind; [apply (swizzle_ok s l _ Hl Hp)|]. intros vs [Hn Hvs].
      apply res_done; auto. cbn. constructor; auto.
  - (* conversion *)
    tinv. match goal with H : match ?w with TyS _ => _ | _ => _ end = TOk _ |- _ => destruct w; try discriminate H end. tinv.
    sv IHV Hw va m1 sg1. apply vty_s_inv in Hval.
    rewrite (lift_mat_sv _ None _ va Hval).
    eapply rok_bind; [eapply (lift1_ok _ _ t0 None); [apply convert_sf|exact Hval]|].
    intros v' Hv'. apply res_done; auto. cbn. constructor. exact Hv'.
  - (* bitcast *)
    tinv. match goal with H : match sv_of ?w with Some _ => _ | None => _ end = TOk _ |- _ =>
                          destruct (sv_of w) as [[n0 s0]|] eqn:Es; [|discriminate H] end. tinv.
    sv IHV Hw va m1 sg1.
    assert (Hva : svty n0 s0 va).
    { eapply (vty_sv ss _ n0 s0 va Es). bv. }
    eapply rok_bind; [eapply (lift1_ok _ s0 t0 n0); [apply bitcast_sf; assumption|exact Hva]|].
    intros v' Hv'. apply res_done; auto. apply vty_bty. apply svty_vty. exact Hv'.
  - (* address-of *)
    tinv. subst.
    eapply rok_bind; [eapply IHR; eauto|].
    intros [[c0 p0] m1] (sg1 & Hext & Hm1 & (t0 & Hc & Hp)). cbn [fst snd] in *.
    cbn. exists sg1. repeat split; auto. exists c0, p0, t0. auto.
  - (* dereference: always a reference *)
    tinv. match goal with H : match ?w with TyS _ => _ | _ => _ end = TOk _ |- _ => destruct w; discriminate H end.
  - (* arrayLength *)
    tinv. match goal with H : match ?w with TyS _ => _ | _ => _ end = TOk _ |- _ => destruct w as [| | | |? |w']; try discriminate H end.
    match goal with H : match ?w with TyS _ => _ | _ => _ end = TOk _ |- _ => destruct w as [| | |[?|] ?| |]; try discriminate H end.
    tinv. sv IHV Hw va m1 sg1.
    destruct Hval as (c0 & p0 & t0 & -> & Hc & Hp).
    eapply rok_bind; [eapply load_cell_ok; eauto|]. intros v Hv.
    apply vty_arr_inv in Hv. destruct Hv as (l & -> & _ & _). cbn [elems rbind].
    apply res_done; auto. cbn. constructor. constructor.
Qed.

(* same, when the sibling interpreter is not syntactically folded *)
Ltac sv' IHV Hw v m sg1 :=
  let He := fresh "Hext" in let Hm := fresh "Hmem" in let Hv := fresh "Hval" in
  eapply rok_bind; [eapply IHV; [eassumption|exact Hw]|];
  intros [v m] (sg1 & He & Hm & Hv); cbn [fst snd] in He, Hm, Hv.

Lemma ref_done sg t c p m t0 :
  mem_ok sg m -> nth_error sg c = Some t0 -> path_ty t0 p = Some t -> rok (REF sg t) (Done (c, p, m)).
Proof. intros Hm Hc Hp. cbn. exists sg. repeat split; auto; [apply ext_refl|]. exists t0. auto. Qed.

Lemma rok_REF_ext sg sg1 t r : ext sg sg1 -> rok (REF sg1 t) r -> rok (REF sg t) r.
Proof.
  intros He H. eapply rok_weaken; [exact H|]. intros a (sg2 & He2 & Hm & Hq).
  exists sg2. repeat split; auto. eapply ext_trans; eauto.
Qed.

Ltac step_ref IHR Hw c p m sg1 :=
  match goal with
  | |- rok _ (rbind (Sem.eval_ref _ _ _ _ _ ?a) _) =>
    match goal with
    | Hty : Typecheck.tyx _ _ _ _ _ a = TOk (_, true) |- _ =>
      let He := fresh "Hext" in let Hm := fresh "Hmem" in let t0 := fresh "t0" in
      let Hc := fresh "Hcell" in let Hp := fresh "Hpath" in
      eapply rok_bind; [eapply IHR; [exact Hty|exact Hw]|];
      intros [[c p] m] (sg1 & He & Hm & (t0 & Hc & Hp)); cbn [fst snd] in He, Hm, Hc, Hp
    end
  end.

Lemma ref_step n : sound_expr n -> sound_ref n -> sound_ref (S n).
Proof.
  intros IHE IHR cf g x t sg e mem H Hw.
  pose proof (sound_value n IHE) as IHV.
  destruct cf as [|c]; [discriminate|].
  destruct x; autorewrite with tcu in H; cbn [Sem.eval_ref]; tinv.
  - (* variable *)
    destruct Hw as (He & Hg & Hm).
    pose proof (env_ok_all ss sg D genv g e n0 He Hg) as Hb.
    destruct (tlookup_all D n0 g) as [[t1|t1 rw1]|]; try discriminate; inversion H; subst.
    destruct (lookup_all genv n0 e) as [[v|c0]|]; cbn in Hb; try contradiction.
    eapply ref_done; eauto.
  - (* binary *) destruct (String.eqb op "&&" || String.eqb op "||"); tinv.
  - (* call *) destruct (flookup f PHI) as [[ps ret]|]; [|discriminate]. tinv. destruct ret; tinv.
  - (* index *)
    step_ref IHR Hw c0 p0 m1 sg1. apply (rok_REF_ext _ sg1 _ _ Hext).
    assert (Hw1 : wt sg1 g e m1) by (eapply wt_ext; eauto).
    eapply rok_bind; [eapply IHV; [eassumption|exact Hw1]|].
    intros [vi m2] (sg2 & Hext2 & Hm2 & Hvi). cbn [fst snd] in *. apply (rok_REF_ext _ sg2 _ _ Hext2).
    match goal with H : elem_ty ?w = Some _ |- _ => pose proof (elem_path _ _ H) as Hps end.
    eapply rok_bind; [eapply index_of_value_ok; eauto|]. intros k _.
    pose proof (ext_nth _ _ _ _ Hext2 Hcell) as Hcell2.
    eapply rok_bind; [eapply load_cell_ok; eauto|]. intros cur Hcur.
    eapply rok_bind; [eapply (index_ok ss); [exact Hcur|apply Hps]|]. intros _ _.
    eapply ref_done; eauto. rewrite (path_ty_app ss). rewrite Hpath. apply Hps.
  - (* member *)
    match goal with H : match ?w with TyS _ => _ | _ => _ end = TOk _ |- _ => destruct w; try discriminate H end. tinv.
    step_ref IHR Hw c0 p0 m1 sg1. apply (rok_REF_ext _ sg1 _ _ Hext).
    eapply ref_done; eauto. rewrite (path_ty_app ss). rewrite Hpath. unfold path_step.
    match goal with H : find_struct _ _ = Some _ |- _ => rewrite H end. assumption.
  - (* single-component swizzle *)
    match goal with H : match ?w with TyS _ => _ | _ => _ end = TOk _ |- _ => destruct w; try discriminate H end. tinv.
    destruct p as [|k [|k2 p']]; tinv.
    step_ref IHR Hw c0 p0 m1 sg1. apply (rok_REF_ext _ sg1 _ _ Hext).
    eapply ref_done; eauto. rewrite (path_ty_app ss). rewrite Hpath. reflexivity.
  - (* conversion *) match goal with H : match ?w with TyS _ => _ | _ => _ end = TOk _ |- _ => destruct w; discriminate H end.
  - (* bitcast *) match goal with H : match sv_of ?w with Some _ => _ | None => _ end = TOk _ |- _ => destruct (sv_of w) as [[? ?]|]; [|discriminate H] end. tinv.
  - (* dereference *)
    match goal with H : match ?w with TyS _ => _ | _ => _ end = TOk _ |- _ => destruct w; try discriminate H end. tinv.
    eapply rok_bind; [eapply IHV; [eassumption|exact Hw]|].
    intros [v m1] (sg1 & Hext & Hm1 & Hv). cbn [fst snd] in *.
    destruct Hv as (c0 & p0 & t0 & -> & Hc & Hp). cbn. exists sg1. repeat split; auto. exists t0. auto.
  - (* arrayLength *)
    match goal with H : match ?w with TyS _ => _ | _ => _ end = TOk _ |- _ => destruct w as [| | | |? |w']; try discriminate H end.
    match goal with H : match ?w with TyS _ => _ | _ => _ end = TOk _ |- _ => destruct w as [| | |[?|] ?| |]; try discriminate H end.
Qed.

Lemma list_step n : sound_expr n -> sound_list n -> sound_list (S n).
Proof.
  intros IHE IHL cf g xs ts sg e mem H Hw.
  pose proof (sound_value n IHE) as IHV.
  destruct cf as [|c]; [discriminate|].
  destruct xs as [|x xs]; autorewrite with tcu in H; cbn [Sem.eval_list]; tinv.
  - destruct Hw as (_ & _ & Hm). apply res_done; [assumption|constructor].
  - sv' IHV Hw v m1 sg1. apply (rok_RES_ext _ sg1 _ _ Hext).
    assert (Hw1 : wt sg1 g e m1) by (eapply wt_ext; eauto).
    eapply rok_bind; [eapply IHL; [eassumption|exact Hw1]|].
    intros [vs m2] (sg2 & Hext2 & Hm2 & Hvs). cbn [fst snd] in *.
    cbn. exists sg2. repeat split; auto. constructor; auto. eapply bty_ext; eauto.
Qed.

(* ---- statements ---- *)
Definition sound_stmt (n : nat) : Prop :=
  forall cf F g cur s g' cur' B sg e mem,
    tys cf F (g, cur) s = TOk ((g', cur'), B) -> wt sg g e mem ->
    rok (SPOST sg F B g') (exec1 n e mem s).

Definition sound_block (n : nat) : Prop :=
  forall cf F g cur b g' cur' B sg e mem,
    tyb cf F (g, cur) b = TOk ((g', cur'), B) -> wt sg g e mem ->
    rok (SPOST sg F B g') (exec n e mem b).

Definition sound_loop (n : nat) : Prop :=
  forall cf F g body cont brk B sg e mem,
    tyloop cf F g body cont brk = TOk B -> wt sg g e mem ->
    rok (SPOST sg F B g) (exec_loop n e mem body cont brk).

Definition sound_sels (n : nat) : Prop :=
  forall cf g sk sels sg e mem v,
    tysels cf g sk sels = TOk tt -> wt sg g e mem ->
    rok (RES sg (fun _ (_ : bool) => True)) (match_sels n e mem v sels).

Definition default_body (all : list (list (option wexpr) * list wstmt)) : list wstmt :=
  match find (fun c => existsb (fun s => match s with None => true | Some _ => false end) (fst c)) all with
  | Some c => snd c | None => [] end.

Definition sound_case (n : nat) : Prop :=
  forall cf F g sk cases all Bc sg e mem v,
    tycases cf F g sk cases = TOk Bc -> wt sg g e mem ->
    rok (RES sg (fun _ body => (exists sels, In (sels, body) cases) \/ body = default_body all))
        (select_case n e mem v cases all).

Lemma spost_done sg F B g' fl e m :
  mem_ok sg m -> flow_ok F B sg fl -> (fl = FNormal -> env_ok sg g' e) -> rok (SPOST sg F B g') (Done (fl, e, m)).
Proof. intros Hm Hf He. cbn. exists sg. repeat split; auto. apply ext_refl. Qed.

Lemma rok_SPOST_ext sg sg1 F B g' r : ext sg sg1 -> rok (SPOST sg1 F B g') r -> rok (SPOST sg F B g') r.
Proof.
  intros He H. eapply rok_weaken; [exact H|]. intros a (sg2 & He2 & Hm & Hq).
  exists sg2. repeat split; try apply Hq; auto. eapply ext_trans; eauto.
Qed.

Lemma flow_ok_ext F B sg sg1 fl : ext sg sg1 -> flow_ok F B sg fl -> flow_ok F B sg1 fl.
Proof. intros He. destruct fl; cbn; auto. intros (H1 & H2 & H3). repeat split; auto. eapply ret_ok_ext; eauto. Qed.

(* a nested block: its declarations go out of scope, its flow is passed on *)
Lemma scoped_ok sg F B B' g1 g e (r : result (flow * env * list value)) :
  beh_le B B' -> env_ok sg g e -> rok (SPOST sg F B g1) r ->
  rok (SPOST sg F B' g) (x <~ r ;; let '(fl, _, m1) := x in Done (fl, e, m1)).
Proof.
  intros Hle He Hr. eapply rok_bind; [exact Hr|].
  intros [[fl e1] m1] (sg1 & Hext & Hm & Hf & _). cbn [fst snd] in *. cbn.
  exists sg1. repeat split; auto.
  - eapply flow_ok_le; eauto.
  - intros _. eapply env_ok_ext; eauto.
Qed.

Lemma declare_ok n b g cur st' : declare n b (g, cur) = TOk st' -> st' = ((n, b) :: g, n :: cur).
Proof. unfold declare. destruct (existsb (String.eqb n) cur); [discriminate|]. intros H; inversion H; reflexivity. Qed.

Lemma b_seq_l B1 B2 : b_next B1 = false -> b_seq B1 B2 = B1.
Proof. unfold b_seq. intros ->. reflexivity. Qed.

Lemma flow_seq_first F B1 B2 sg fl : fl <> FNormal -> flow_ok F B1 sg fl -> flow_ok F (b_seq B1 B2) sg fl.
Proof.
  intros Hn H. unfold b_seq. destruct (b_next B1); [|exact H].
  destruct fl; cbn in *; try congruence.
  - destruct H as [-> ?]. auto.
  - destruct H as [-> ?]. auto.
  - destruct H as (-> & ? & ?). auto.
Qed.

Lemma flow_seq_second F B1 B2 sg fl : b_next B1 = true -> flow_ok F B2 sg fl -> flow_ok F (b_seq B1 B2) sg fl.
Proof.
  intros Hn H. unfold b_seq. rewrite Hn. destruct fl; cbn in *; auto.
  - destruct H as [-> ?]. split; auto. apply orb_true_r.
  - destruct H as [-> ?]. split; auto. apply orb_true_r.
  - destruct H as (-> & ? & ?). repeat split; auto. apply orb_true_r.
Qed.

Lemma block_step n : sound_stmt n -> sound_block n -> sound_block (S n).
Proof.
  intros IHS IHB cf F g cur b g' cur' B sg e mem H Hw.
  destruct cf as [|c]; [discriminate|].
  destruct b as [|s rest]; autorewrite with tcu in H; autorewrite with semu; tinv.
  - destruct Hw as (He & _ & Hm). apply spost_done; auto. reflexivity.
  - destruct s0 as [g1 cur1]. rename b into B1, b0 into B2.
    eapply rok_bind; [eapply IHS; [eassumption|exact Hw]|].
    intros [[fl e1] m1] (sg1 & Hext & Hm1 & Hfl & Henv). cbn [fst snd] in *.
    apply (rok_SPOST_ext _ sg1 _ _ _ _ Hext).
    destruct Hw as (He & Hg & Hm).
    destruct fl.
    + (* normal: go on *)
      specialize (Henv eq_refl).
      assert (Hw1 : wt sg1 g1 e1 m1) by (repeat split; auto; eapply env_ok_ext; eauto).
      eapply rok_weaken; [eapply IHB; [eassumption|exact Hw1]|].
      intros [[fl2 e2] m2] (sg2 & Hext2 & Hm2 & Hfl2 & Henv2). cbn [fst snd] in *.
      exists sg2. repeat split; auto. eapply flow_seq_second; eauto.
    + apply spost_done; auto; [|discriminate]. apply flow_seq_first; [discriminate|exact Hfl].
    + apply spost_done; auto; [|discriminate]. apply flow_seq_first; [discriminate|exact Hfl].
    + apply spost_done; auto; [|discriminate]. apply flow_seq_first; [discriminate|exact Hfl].
Qed.

(* stepping inside statements: the goal is a statement post-condition *)
Ltac svs IHV Hw v m sg1 :=
  match goal with
  | |- rok _ (rbind (Sem.eval _ _ _ _ _ ?a) _) =>
    match goal with
    | Hty : Typecheck.tyv _ _ _ _ _ a = TOk _ |- _ =>
      let He := fresh "Hext" in let Hm := fresh "Hmem" in let Hv := fresh "Hval" in
      eapply rok_bind; [eapply IHV; [exact Hty|exact Hw]|];
      intros [v m] (sg1 & He & Hm & Hv); cbn [fst snd] in He, Hm, Hv;
      apply (rok_SPOST_ext _ sg1 _ _ _ _ He)
    end
  end.

Lemma var_alloc sg F g e m n0 t v :
  wt sg g e m -> vty v t ->
  rok (SPOST sg F bNext ((n0, TRef t true) :: g)) (Done (FNormal, (n0, BRef (List.length m)) :: e, m ++ [v])).
Proof.
  intros (He & Hg & Hm) Hv. cbn. exists (sg ++ [t]). repeat split.
  - apply ext_snoc.
  - apply mem_ok_snoc; auto.
  - intros _. apply env_ok_cons; [eapply env_ok_ext; [apply ext_snoc|exact He]|].
    cbn. rewrite (mem_ok_length ss sg m Hm). apply nth_snoc.
Qed.

Lemma constructible_not_ptr t : constructible ss t = true -> is_ptr t = false.
Proof. apply ty_wf_not_ptr. Qed.

Lemma sty_int_one v s : is_index_ty (TyS s) = true -> sty v s ->
  exists one, match v with VI32 _ => Done (VI32 1) | VU32 _ => Done (VU32 1) | _ => Fail "++/--: operand" end = Done one /\ sty one s.
Proof. intros H Hv. destruct s; try discriminate; inversion Hv; subst; eexists; split; try reflexivity; constructor. Qed.

Lemma simple_flow F Bi sg fl : negb (b_brk Bi || b_cont Bi || b_ret Bi) = true -> flow_ok F Bi sg fl -> fl = FNormal.
Proof.
  intros H Hf. destruct (b_brk Bi) eqn:E1, (b_cont Bi) eqn:E2, (b_ret Bi) eqn:E3; cbn in H; try discriminate.
  destruct fl; cbn in Hf; auto; destruct Hf as [Hf _]; congruence.
Qed.

Lemma switch_flow F B' Bc sg fl :
  beh_le B' Bc -> flow_ok (flags_switch F) B' sg fl ->
  flow_ok F (b_switch Bc) sg (match fl with FBreak => FNormal | _ => fl end).
Proof.
  intros (L1 & L2 & L3 & L4) H. destruct fl; cbn in *.
  - rewrite (L1 H). reflexivity.
  - destruct H as [H _]. rewrite (L2 H). apply orb_true_r.
  - destruct H as [H H']. auto.
  - destruct H as (H & H' & H''). auto.
Qed.

Lemma tycases_in : forall cf F g sk cases B,
  tycases cf F g sk cases = TOk B -> forall sels body, In (sels, body) cases ->
  exists cf' st' B', tyb cf' F (g, []) body = TOk (st', B') /\ beh_le B' B.
Proof.
  induction cf as [|c IH]; intros F g sk cases B H sels body Hin; [discriminate|].
  destruct cases as [|[sels0 body0] rest]; [destruct Hin|].
  autorewrite with tcu in H. tinv. destruct Hin as [E|Hin].
  - inversion E; subst. exists c. eexists. eexists. split; [eassumption|apply beh_le_or_l].
  - match goal with Hc : tycases _ _ _ _ rest = TOk _ |- _ => destruct (IH _ _ _ _ _ Hc sels body Hin) as (cf' & st' & B' & Ht & Hle) end.
    exists cf', st', B'. split; auto. eapply beh_le_trans; [exact Hle|apply beh_le_or_r].
Qed.

Lemma existsb_filter_nil {A} (f : A -> bool) l : existsb f l = false -> filter f l = [].
Proof.
  induction l as [|x l IH]; cbn; auto. destruct (f x); cbn; [discriminate|auto].
Qed.

Lemma default_in cases :
  Nat.eqb (count_defaults cases) 1 = true -> exists sels, In (sels, default_body cases) cases.
Proof.
  unfold count_defaults, default_body. intros H.
  assert (Hne : filter is_default (flat_map fst cases) <> []).
  { intros E. rewrite E in H. discriminate. }
  clear H. induction cases as [|[sels body] rest IH]; cbn [flat_map fst find] in *; [cbn in Hne; congruence|].
  change (fun s : option wexpr => match s with None => true | Some _ => false end) with is_default.
  destruct (existsb is_default sels) eqn:E.
  - exists sels. left. reflexivity.
  - rewrite filter_app, (existsb_filter_nil _ _ E) in Hne. cbn [app] in Hne.
    destruct (IH Hne) as (sels' & Hin). exists sels'. right. exact Hin.
Qed.

Lemma stmt_step n :
  sound_expr n -> sound_ref n -> sound_list n -> sound_call n ->
  sound_stmt n -> sound_block n -> sound_loop n -> sound_case n -> sound_stmt (S n).
Proof.
  intros IHE IHR IHL IHC IHS IHB IHLP IHCS cf F g cur s g' cur' B sg e mem H Hw.
  pose proof (sound_value n IHE) as IHV.
  destruct cf as [|c]; [discriminate|].
  pose proof Hw as (He & Hg & Hm).
  destruct s; autorewrite with tcu in H; autorewrite with semu; cbv beta zeta in H |- *; cbn [fst] in H.
  - (* let *)
    tinv. match goal with H : declare _ _ _ = TOk _ |- _ => apply declare_ok in H; inversion H; subst end.
    svs IHV Hw v m1 sg1.
    apply spost_done; [assumption|reflexivity|]. intros _.
    apply env_ok_cons; [eapply env_ok_ext; eauto|exact Hval].
  - (* var *)
    tinv. match goal with H : declare _ _ _ = TOk _ |- _ => apply declare_ok in H; inversion H; subst end.
    match goal with H : constructible _ _ = true |- _ => pose proof (constructible_not_ptr _ H) as Hnp; rename H into Hcons end.
    destruct e0 as [x'|].
    + tinv. beq. subst. svs IHV Hw v m1 sg1.
      apply var_alloc; [eapply wt_ext; eauto|bv].
    + eapply rok_bind.
      { eapply rok_bind; [apply (wzero_ok ss Hss 16 _ Hcons)|]. intros z Hz.
        apply (rok_done (fun r : value * list value => vty (fst r) t /\ snd r = mem)). cbn. auto. }
      intros [v m1] [Hv Hm1]. cbn [fst snd] in *. subst m1. apply var_alloc; auto.
  - (* assignment *)
    unfold check_lhs in H. tinv. subst. beq. subst.
    match goal with H : constructible _ _ = true |- _ => pose proof (constructible_not_ptr _ H) as Hnp end.
    step_ref IHR Hw c0 p0 m1 sg1. apply (rok_SPOST_ext _ sg1 _ _ _ _ Hext).
    assert (Hw1 : wt sg1 g' e m1) by (eapply wt_ext; eauto).
    svs IHV Hw1 v m2 sg2.
    eapply rok_bind; [eapply (store_mem_ok ss sg2); [exact Hmem0|eapply ext_nth; eauto|exact Hpath|bv]|].
    intros m3 Hm3. apply spost_done; [assumption|reflexivity|]. intros _.
    eapply env_ok_ext; [|exact He]. eapply ext_trans; eauto.
  - (* compound assignment *)
    unfold check_lhs in H. tinv. subst. beq. subst. npt.
    match goal with H : constructible _ _ = true |- _ => pose proof (constructible_not_ptr _ H) as Hnp end.
    step_ref IHR Hw c0 p0 m1 sg1. apply (rok_SPOST_ext _ sg1 _ _ _ _ Hext).
    eapply rok_bind; [eapply load_cell_ok; eauto|]. intros old Hold.
    assert (Hw1 : wt sg1 g' e m1) by (eapply wt_ext; eauto).
    svs IHV Hw1 v m2 sg2.
    eapply rok_bind; [eapply (wbinop_ok ss); [eassumption|exact Hold|bv]|]. intros nv Hnv.
    eapply rok_bind; [eapply (store_mem_ok ss sg2); [exact Hmem0|eapply ext_nth; eauto|exact Hpath|exact Hnv]|].
    intros m3 Hm3. apply spost_done; [assumption|reflexivity|]. intros _.
    eapply env_ok_ext; [|exact He]. eapply ext_trans; eauto.
  - (* increment *)
    unfold check_lhs in H. tinv. subst.
    step_ref IHR Hw c0 p0 m1 sg1. apply (rok_SPOST_ext _ sg1 _ _ _ _ Hext).
    eapply rok_bind; [eapply load_cell_ok; eauto|]. intros old Hold.
    match goal with H : is_index_ty ?tl = true |- _ => destruct tl as [sl| | | | |]; try discriminate H; rename H into Hidx end.
    apply vty_s_inv in Hold. destruct (sty_int_one old sl Hidx Hold) as (one & -> & Hone). cbn [rbind].
    eapply rok_bind; [eapply (wbinop_ok ss _ (TyS sl) (TyS sl) (TyS sl)); [|constructor; exact Hold|constructor; exact Hone]|].
    { destruct sl; try discriminate Hidx; reflexivity. }
    intros nv Hnv.
    eapply rok_bind; [eapply (store_mem_ok ss sg1); eauto|].
    intros m3 Hm3. apply spost_done; [assumption|reflexivity|]. intros _. eapply env_ok_ext; eauto.
  - (* decrement *)
    unfold check_lhs in H. tinv. subst.
    step_ref IHR Hw c0 p0 m1 sg1. apply (rok_SPOST_ext _ sg1 _ _ _ _ Hext).
    eapply rok_bind; [eapply load_cell_ok; eauto|]. intros old Hold.
    match goal with H : is_index_ty ?tl = true |- _ => destruct tl as [sl| | | | |]; try discriminate H; rename H into Hidx end.
    apply vty_s_inv in Hold. destruct (sty_int_one old sl Hidx Hold) as (one & -> & Hone). cbn [rbind].
    eapply rok_bind; [eapply (wbinop_ok ss _ (TyS sl) (TyS sl) (TyS sl)); [|constructor; exact Hold|constructor; exact Hone]|].
    { destruct sl; try discriminate Hidx; reflexivity. }
    intros nv Hnv.
    eapply rok_bind; [eapply (store_mem_ok ss sg1); eauto|].
    intros m3 Hm3. apply spost_done; [assumption|reflexivity|]. intros _. eapply env_ok_ext; eauto.
  - (* if *)
    tinv. beq. subst.
    svs IHV Hw v m1 sg1.
    apply bty_vty in Hval; [|reflexivity]. apply vty_s_inv in Hval. destruct (sty_bool_inv _ Hval) as (bb & ->).
    assert (Hw1 : wt sg1 g' e m1) by (eapply wt_ext; eauto).
    destruct s as [g1 cur1], s0 as [g2 cur2].
    destruct bb.
    + eapply scoped_ok; [apply beh_le_or_l|eapply env_ok_ext; eauto|eapply IHB; [eassumption|exact Hw1]].
    + eapply scoped_ok; [apply beh_le_or_r|eapply env_ok_ext; eauto|eapply IHB; [eassumption|exact Hw1]].
  - (* switch *)
    tinv. match goal with H : match ?w with TyS _ => _ | _ => _ end = TOk _ |- _ => destruct w as [sk| | | | |]; try discriminate H end.
    tinv.
    svs IHV Hw v m1 sg1.
    assert (Hw1 : wt sg1 g' e m1) by (eapply wt_ext; eauto).
    eapply rok_bind; [eapply IHCS; [eassumption|exact Hw1]|].
    intros [body m2] (sg2 & Hext2 & Hm2 & Hbody). cbn [fst snd] in *.
    apply (rok_SPOST_ext _ sg2 _ _ _ _ Hext2).
    assert (Hin : exists sels, In (sels, body) cases).
    { destruct Hbody as [Hin| ->]; [exact Hin|]. apply default_in. assumption. }
    destruct Hin as (sels & Hin).
    match goal with H : tycases _ _ _ _ _ = TOk ?Bc |- _ =>
      destruct (tycases_in _ _ _ _ _ _ H sels body Hin) as (cf' & [g1 cur1] & B' & Hty & Hle) end.
    assert (Hw2 : wt sg2 g' e m2) by (eapply wt_ext; eauto).
    eapply rok_bind; [eapply IHB; [exact Hty|exact Hw2]|].
    intros [[fl e3] m3] (sg3 & Hext3 & Hm3 & Hfl & _). cbn [fst snd] in *.
    apply (rok_SPOST_ext _ sg3 _ _ _ _ Hext3).
    apply spost_done; [assumption|eapply switch_flow; eauto|]. intros _.
    eapply env_ok_ext; [|exact He]. eapply ext_trans; [exact Hext|]. eapply ext_trans; eauto.
  - (* loop *)
    tinv. eapply IHLP; eauto.
  - (* for *)
    tinv. match goal with H : tyloop _ _ (fst ?st1) _ _ _ = TOk _ |- _ => destruct st1 as [g1 cur1]; cbn [fst] in H end.
    destruct init as [i|].
    + tinv.
      eapply rok_bind; [eapply IHS; [eassumption|exact Hw]|].
      intros [[fl e1] m1] (sg1 & Hext & Hm1 & Hfl & Henv). cbn [fst snd] in *.
      apply (rok_SPOST_ext _ sg1 _ _ _ _ Hext).
      match goal with H : negb _ = true |- _ => pose proof (simple_flow _ _ _ _ H Hfl) as Efl end. subst fl.
      specialize (Henv eq_refl).
      assert (Hw1 : wt sg1 g1 e1 m1) by (repeat split; auto; eapply env_ok_ext; eauto).
      eapply scoped_ok; [apply beh_le_refl|eapply env_ok_ext; eauto|eapply IHLP; eauto].
    + tinv. cbn [rbind].
      eapply scoped_ok; [apply beh_le_refl|exact He|eapply IHLP; eauto].
  - (* while *)
    tinv. eapply scoped_ok; [apply beh_le_refl|exact He|eapply IHLP; eauto].
  - (* break *)
    tinv. apply spost_done; [assumption| |discriminate]. cbn. auto.
  - (* continue *)
    tinv. apply spost_done; [assumption| |discriminate]. cbn. auto.
  - (* return *)
    destruct e0 as [x'|]; autorewrite with semu; cbv beta zeta; tinv.
    + destruct (f_rty F) as [rt|] eqn:Ert; [|discriminate]. tinv. beq. subst.
      svs IHV Hw v m1 sg1.
      apply spost_done; [assumption| |discriminate]. cbn. rewrite Ert. auto.
    + destruct (f_rty F) as [rt|] eqn:Ert; [discriminate|]. tinv.
      apply spost_done; [assumption| |discriminate]. cbn. rewrite Ert. repeat split; auto.
  - (* call statement *)
    unfold check_call in H. tinv.
    destruct (flookup f PHI) as [[ps ret]|] eqn:Ef; [|discriminate]. tinv. beq. subst.
    eapply rok_bind; [eapply IHL; eauto|]. intros [vs m1] (sg1 & Hext & Hm1 & Hvs). cbn [fst snd] in *.
    apply (rok_SPOST_ext _ sg1 _ _ _ _ Hext).
    eapply rok_bind; [eapply IHC; eauto; eapply env_ok_ext; eauto|].
    intros [rv m2] (sg2 & Hext2 & Hm2 & Hrv). cbn [fst snd] in *.
    apply (rok_SPOST_ext _ sg2 _ _ _ _ Hext2).
    apply spost_done; [assumption|reflexivity|]. intros _.
    eapply env_ok_ext; [|exact He]. eapply ext_trans; eauto.
  - (* block *)
    tinv. match goal with H : tyb _ _ _ _ = TOk (?s, _) |- _ => destruct s as [g1 cur1] end.
    eapply scoped_ok; [apply beh_le_refl|exact He|eapply IHB; eauto].
Qed.

(* ---- loops ---- *)
Lemma cont_flow F Bc sg fl : flow_ok (flags_cont F) Bc sg fl -> fl = FNormal.
Proof. destruct fl; cbn; auto; intros H; exfalso; destruct H as (_ & H); try discriminate H; destruct H; discriminate. Qed.

Lemma loop_tail n :
  sound_expr n -> sound_block n -> sound_loop n ->
  forall cf F g body cont brk B, tyloop cf F g body cont brk = TOk B ->
  (forall x, brk = Some x -> b_next B = true) ->
  forall c gx stc Bc ex e sg1 m1,
    tyb c (flags_cont F) (gx, []) cont = TOk (stc, Bc) ->
    (forall x, brk = Some x -> tyv c (fst stc) x = TOk (TyS WBool)) ->
    wt sg1 gx ex m1 -> env_ok sg1 g e ->
    rok (SPOST sg1 F B g)
        (r2 <~ exec n ex m1 cont ;; let '(fl2, e2, m2) := r2 in
         match fl2 with
         | FReturn _ => Done (fl2, e, m2)
         | FNormal =>
           match brk with
           | None => exec_loop n e m2 body cont brk
           | Some c =>
             r3 <~ eval n e2 m2 c ;; let '(v, m3) := r3 in
             match v with
             | VBool true => Done (FNormal, e, m3)
             | VBool false => exec_loop n e m3 body cont brk
             | _ => Fail "break if: condition"
             end
           end
         | _ => Fail "break/continue in a continuing block"
         end).
Proof.
  intros IHE IHB IHLP cf F g body cont brk B Hloop Hbrk c gx [gc curc] Bc ex e sg1 m1 Hc Hb Hw Henv.
  pose proof (sound_value n IHE) as IHV.
  eapply rok_bind; [eapply IHB; [exact Hc|exact Hw]|].
  intros [[fl2 e2] m2] (sg2 & Hext2 & Hm2 & Hfl2 & Henv2). cbn [fst snd] in *.
  apply (rok_SPOST_ext _ sg2 _ _ _ _ Hext2).
  pose proof (cont_flow _ _ _ _ Hfl2) as ->. specialize (Henv2 eq_refl).
  destruct Hw as (_ & Hg & _).
  assert (Hg2 : env_ok sg2 D genv) by (eapply env_ok_ext; eauto).
  assert (He2 : env_ok sg2 g e) by (eapply env_ok_ext; eauto).
  destruct brk as [x|].
  - specialize (Hb x eq_refl). specialize (Hbrk x eq_refl).
    assert (Hw2 : wt sg2 gc e2 m2) by (repeat split; auto).
    eapply rok_bind; [eapply IHV; [exact Hb|exact Hw2]|].
    intros [v m3] (sg3 & Hext3 & Hm3 & Hv). cbn [fst snd] in *.
    apply (rok_SPOST_ext _ sg3 _ _ _ _ Hext3).
    apply bty_vty in Hv; [|reflexivity]. apply vty_s_inv in Hv. destruct (sty_bool_inv _ Hv) as (bb & ->).
    destruct bb.
    + apply spost_done; [assumption|exact Hbrk|]. intros _. eapply env_ok_ext; eauto.
    + eapply IHLP; [exact Hloop|]. repeat split; auto; eapply env_ok_ext; eauto.
  - eapply IHLP; [exact Hloop|]. repeat split; auto.
Qed.

Lemma loop_step n : sound_expr n -> sound_block n -> sound_loop n -> sound_loop (S n).
Proof.
  intros IHE IHB IHLP cf F g body cont brk B sg e mem H Hw.
  pose proof H as Hloop.
  destruct cf as [|c]; [discriminate|].
  autorewrite with tcu in H. autorewrite with semu. tinv.
  destruct s as [gb curb], s0 as [gc1 curc1], s1 as [gc2 curc2]. cbn [fst] in *.
  rename b into Bb, b0 into Bc1, b1 into Bc2.
  set (B := b_loop (b_or Bb (b_or Bc1 Bc2)) match brk with Some _ => true | None => false end) in *.
  assert (Hbrk : forall x, brk = Some x -> b_next B = true).
  { intros x ->. unfold B. cbn. apply orb_true_r. }
  assert (Hb1 : forall x, brk = Some x -> tyv c gc1 x = TOk (TyS WBool)).
  { intros x ->. tinv. beq. subst. assumption. }
  assert (Hb2 : forall x, brk = Some x -> tyv c gc2 x = TOk (TyS WBool)).
  { intros x ->. tinv. beq. subst. assumption. }
  pose proof Hw as (He & Hg & Hm).
  eapply rok_bind; [eapply IHB; [eassumption|exact Hw]|].
  intros [[fl e1] m1] (sg1 & Hext & Hm1 & Hfl & Henv). cbn [fst snd] in *.
  apply (rok_SPOST_ext _ sg1 _ _ _ _ Hext).
  assert (He1 : env_ok sg1 g e) by (eapply env_ok_ext; eauto).
  assert (Hg1 : env_ok sg1 D genv) by (eapply env_ok_ext; eauto).
  destruct fl.
  - (* fell through: the continuing block sees the body's scope *)
    specialize (Henv eq_refl). cbv zeta.
    eapply (loop_tail n IHE IHB IHLP _ F g body cont brk B Hloop Hbrk c gb (gc1, curc1) Bc1); eauto.
    repeat split; auto.
  - (* break *)
    apply spost_done; [assumption| |intros _; exact He1].
    destruct Hfl as [Hb _]. unfold B. cbn. rewrite Hb. reflexivity.
  - (* continue *)
    cbv zeta.
    eapply (loop_tail n IHE IHB IHLP _ F g body cont brk B Hloop Hbrk c g (gc2, curc2) Bc2); eauto.
    repeat split; auto.
  - (* return *)
    apply spost_done; [assumption| |discriminate].
    destruct Hfl as (Hr & Hf & Hrv). cbn in Hf, Hrv. unfold B. cbn. rewrite Hr. repeat split; auto.
Qed.

(* ---- switch clauses ---- *)
Lemma sels_step n : sound_expr n -> sound_sels n -> sound_sels (S n).
Proof.
  intros IHE IHSL cf g sk sels sg e mem v H Hw.
  pose proof (sound_value n IHE) as IHV.
  destruct cf as [|c]; [discriminate|].
  destruct sels as [|[x|] rest]; autorewrite with tcu in H; autorewrite with semu.
  - destruct Hw as (_ & _ & Hm). apply res_done; auto.
  - tinv. sv IHV Hw sv0 m1 sg1.
    destruct (value_eqb sv0 v); [apply res_done; auto|].
    eapply IHSL; [eassumption|eapply wt_ext; eauto].
  - eapply IHSL; eauto.
Qed.

Lemma case_step n : sound_sels n -> sound_case n -> sound_case (S n).
Proof.
  intros IHSL IHCS cf F g sk cases all Bc sg e mem v H Hw.
  destruct cf as [|c]; [discriminate|].
  destruct cases as [|[sels body] rest]; autorewrite with tcu in H; autorewrite with semu.
  - destruct Hw as (_ & _ & Hm). apply res_done; auto.
  - tinv. match goal with Hs : tysels _ _ _ _ = TOk ?u |- _ => destruct u end.
    eapply rok_bind; [eapply IHSL; [eassumption|exact Hw]|].
    intros [hit m1] (sg1 & Hext & Hm1 & _). cbn [fst snd] in *.
    apply (rok_RES_ext _ sg1 _ _ Hext).
    destruct hit.
    + apply res_done; auto. left. exists sels. left. reflexivity.
    + eapply rok_weaken; [eapply IHCS; [eassumption|eapply wt_ext; eauto]|].
      intros [b' m2] (sg2 & Hext2 & Hm2 & Hb). cbn [fst snd] in *.
      exists sg2. repeat split; auto. cbn [fst]. destruct Hb as [(sels' & Hin)|Hd]; [left|right; exact Hd].
      exists sels'. right. exact Hin.
Qed.

(* ---- calls ---- *)
Lemma env_ok_params sg : forall ps args,
  Forall2 (bty sg) args (map snd ps) -> env_ok sg (params_env ps) (combine (map fst ps) (map BVal args)).
Proof.
  induction ps as [|[pn pt] ps IH]; intros args Hf; cbn in *.
  - inversion Hf; subst. apply env_ok_nil.
  - inversion Hf as [|v t vs ts Hv Hvs]; subst. cbn. apply env_ok_cons; [apply IH; exact Hvs|exact Hv].
Qed.

Lemma call_step n : sound_block n -> sound_call (S n).
Proof.
  intros IHB fn ps ret args sg mem Hf Hargs Hg Hm.
  destruct (Hfuncs fn ps ret Hf) as (fd & Efd & -> & -> & (cf & [g1 cur1] & B & Hty & Hret)).
  autorewrite with semu. rewrite Efd. cbn [of_option rbind]. cbv zeta.
  assert (Hw : wt sg (params_env (wf_params fd)) (combine (map fst (wf_params fd)) (map BVal args)) mem).
  { repeat split; auto. apply env_ok_params. exact Hargs. }
  eapply rok_bind; [eapply IHB; [exact Hty|exact Hw]|].
  intros [[fl e1] m1] (sg1 & Hext & Hm1 & Hfl & _). cbn [fst snd] in *.
  destruct fl; cbn in Hfl.
  - cbn. exists sg1. repeat split; auto. cbn. destruct (wf_ret fd) as [t|]; auto.
    assert (b_next B = false) by (apply Hret; discriminate). congruence.
  - destruct Hfl as [_ Hx]. discriminate Hx.
  - destruct Hfl as [_ Hx]. discriminate Hx.
  - destruct Hfl as (_ & _ & Hrv). cbn. exists sg1. repeat split; auto. cbn.
    unfold ret_ok in Hrv. cbn in Hrv. destruct (wf_ret fd), v; auto.
Qed.

(* ---- all interpreters, all fuel ---- *)
Definition sound_all (n : nat) : Prop :=
  sound_expr n /\ sound_ref n /\ sound_list n /\ sound_call n /\
  sound_stmt n /\ sound_block n /\ sound_loop n /\ sound_sels n /\ sound_case n.

Theorem sound : forall n, sound_all n.
Proof.
  induction n as [|n (IHE & IHR & IHL & IHC & IHS & IHB & IHLP & IHSL & IHCS)].
  - repeat split; intros until 0; intros; exact I.
  - pose proof (call_step n IHB) as HC.
    pose proof (expr_step n IHE IHR IHL IHC) as HE.
    repeat split; auto.
    + apply ref_step; auto.
    + apply list_step; auto.
    + apply stmt_step; auto.
    + apply block_step; auto.
    + apply loop_step; auto.
    + apply sels_step; auto.
    + apply case_step; auto.
Qed.

End Sound.

