(* Wgsl/Typecheck.v decides its rules: for ALL programs containing a rule-breaking statement, the
   checker rejects (examples of the "rejects" direction; the "accepts implies safe" direction is the
   soundness theorem of Wgsl/TypecheckProgram.v). *)
From Coq Require Import List ZArith String Bool Lia.
Import ListNotations.
Require Import Naga.IR.Values Naga.IR.Sem Naga.Wgsl.Sem Naga.Wgsl.Typecheck.
Require Import Naga.Wgsl.TypecheckBase Naga.Wgsl.TypecheckUnfold Naga.Wgsl.TypecheckProofs Naga.Wgsl.TypecheckProgram.
Open Scope string_scope.
Open Scope list_scope.

(* ---- break outside loop and switch ---- *)
(* a `break` that no loop / switch of the statement encloses (reached through if / else / blocks) *)
Inductive bare_break : wstmt -> Prop :=
| bb_break : bare_break WBreak
| bb_then c th el : Exists bare_break th -> bare_break (WIf c th el)
| bb_else c th el : Exists bare_break el -> bare_break (WIf c th el)
| bb_block body : Exists bare_break body -> bare_break (WBlock body).

Section Rules.
Variable ss : list (string * list wty).
Variable PHI : list (string * fsig).
Variable D : tenv.
Notation tys := (tys ss PHI D).
Notation tyb := (tyb ss PHI D).

Lemma bare_break_rejected : forall cf,
  (forall F st s r, f_brk F = false -> bare_break s -> tys cf F st s = TOk r -> False) /\
  (forall F st b r, f_brk F = false -> Exists bare_break b -> tyb cf F st b = TOk r -> False).
Proof.
  induction cf as [|c [IHs IHb]]; [split; intros; discriminate|].
  split.
  - intros F st s r HF Hb H. inversion Hb; subst; autorewrite with tcu in H; cbv zeta in H; tinv.
    + congruence.
    + eapply IHb; eauto.
    + eapply IHb; eauto.
    + eapply IHb; eauto.
  - intros F st b r HF Hb H. destruct b as [|s rest]; [inversion Hb|].
    autorewrite with tcu in H. tinv.
    inversion Hb; subst; [eapply IHs; eauto|eapply IHb; eauto].
Qed.

(* ---- assignment to a let (or any identifier the scope binds as a value) ---- *)
Fixpoint root_var (x : wexpr) : option string :=
  match x with
  | WVar n => Some n
  | WIdx a _ | WMem a _ | WSwz a _ => root_var a
  | _ => None
  end.

Lemma value_root_not_ref : forall cf g x n t r t0,
  root_var x = Some n -> tlookup_all D n g = Some (TVal t0) -> tyx ss PHI D cf g x = TOk (t, r) -> r = false.
Proof.
  induction cf as [|c IH]; intros g x n t r t0 Hr Hl H; [discriminate|].
  destruct x; cbn in Hr; try discriminate; autorewrite with tcu in H; tinv.
  - inversion Hr; subst. rewrite Hl in H. inversion H; reflexivity.
  - eapply IH; eauto.
  - match goal with H : match ?w with TyS _ => _ | _ => _ end = TOk _ |- _ => destruct w; try discriminate H end. tinv.
    eapply IH; eauto.
  - match goal with H : match ?w with TyS _ => _ | _ => _ end = TOk _ |- _ => destruct w; try discriminate H end. tinv.
    destruct p as [|k [|k2 p']]; tinv; try reflexivity. eapply IH; eauto.
Qed.

(* in ANY scope that binds the root identifier of the left side as a value (let, parameter, module
   constant), an assignment / compound assignment / increment / decrement is rejected *)
Lemma assign_to_value_rejected cf F g cur s l n t0 r :
  (exists x, s = WAssign l x) \/ (exists op x, s = WCompound op l x) \/ s = WIncr l \/ s = WDecr l ->
  root_var l = Some n -> tlookup_all D n g = Some (TVal t0) ->
  tys cf F (g, cur) s = TOk r -> False.
Proof.
  intros Hs Hr Hl H. destruct cf as [|c]; [discriminate|].
  assert (Hlhs : forall tl, check_lhs ss PHI D c g l = TOk tl -> False).
  { intros tl Hc. unfold check_lhs in Hc. tinv. subst.
    match goal with Hx : tyx _ _ _ _ _ _ = TOk (_, true) |- _ => pose proof (value_root_not_ref _ _ _ _ _ _ _ Hr Hl Hx) end.
    discriminate. }
  destruct Hs as [(x & ->)|[(op & x & ->)|[->| ->]]]; autorewrite with tcu in H; cbv zeta in H; cbn [fst] in H; tinv;
    eapply Hlhs; eauto.
Qed.

(* the syntactic form: `let n = e; n = x;` next to each other in any block the checker visits *)
Lemma let_then_assign_rejected : forall pre cf F st n e x post r,
  tyb cf F st (pre ++ WLet n e :: WAssign (WVar n) x :: post) = TOk r -> False.
Proof.
  induction pre as [|s pre IH]; intros cf F st n e x post r H; cbn [app] in H.
  - destruct cf as [|c]; [discriminate|]. autorewrite with tcu in H. tinv.
    destruct c as [|c]; [discriminate|]. destruct st as [g cur].
    match goal with Hl : Typecheck.tys _ _ _ _ _ _ (WLet _ _) = TOk _ |- _ => autorewrite with tcu in Hl; cbv zeta in Hl; cbn [fst] in Hl end.
    tinv. match goal with Hd : declare _ _ _ = TOk _ |- _ => apply declare_ok in Hd; subst end.
    match goal with Hb : Typecheck.tyb _ _ _ _ _ _ (WAssign _ _ :: _) = TOk _ |- _ => autorewrite with tcu in Hb end.
    tinv.
    match goal with Ha : Typecheck.tys _ _ _ _ _ _ (WAssign _ _) = TOk _ |- _ =>
      eapply (assign_to_value_rejected _ _ _ _ _ (WVar n) n); [left; eauto|reflexivity| |exact Ha] end.
    unfold tlookup_all. cbn [tlookup]. rewrite String.eqb_refl. reflexivity.
  - destruct cf as [|c]; [discriminate|]. autorewrite with tcu in H. tinv. eapply IH; eauto.
Qed.

End Rules.

(* ---- whole programs ---- *)
Lemma accepted_funcs_checked p :
  wgsl_check p = None -> forall f, In f (wp_funcs p) \/ f = wp_entry p ->
  exists D u, check_func (wp_structs p) (prog_sigs p) D f = TOk u.
Proof.
  intros Hc f Hin. destruct (check_inv p Hc) as (_ & D1 & D & _ & _ & E3 & E4). exists D.
  destruct Hin as [Hin| ->].
  - eapply check_funcs_all; eauto.
  - unfold check_entry in E4.
    destruct (in_tenv _ D || _); [discriminate|]. destruct (wf_ret (wp_entry p)); [discriminate|].
    destruct (negb _); [discriminate|].
    destruct (check_func (wp_structs p) (prog_sigs p) D (wp_entry p)) as [u|]; [eauto|discriminate].
Qed.

(* a program one of whose functions has a break outside loop and switch is rejected *)
Theorem check_rejects_break_outside_loop p f :
  In f (wp_funcs p) \/ f = wp_entry p -> Exists bare_break (wf_body f) -> wgsl_check p <> None.
Proof.
  intros Hin Hb Hc. destruct (accepted_funcs_checked p Hc f Hin) as (D & u & Hu).
  unfold check_func in Hu. tinv.
  match goal with Ht : tyb _ _ _ _ _ _ _ = TOk _ |- _ =>
    eapply (proj2 (bare_break_rejected _ _ _ _)); [|exact Hb|exact Ht]; reflexivity end.
Qed.

(* a program one of whose function bodies has, at its top level, `let n = e; n = x;` is rejected
   (the same holds for every nested block: let_then_assign_rejected is about any block the checker visits) *)
Theorem check_rejects_assign_to_let p f pre n e x post :
  In f (wp_funcs p) \/ f = wp_entry p ->
  wf_body f = pre ++ WLet n e :: WAssign (WVar n) x :: post -> wgsl_check p <> None.
Proof.
  intros Hin Hb Hc. destruct (accepted_funcs_checked p Hc f Hin) as (D & u & Hu).
  unfold check_func in Hu. tinv. rewrite Hb in *.
  match goal with Ht : tyb _ _ _ _ _ _ _ = TOk _ |- _ => eapply let_then_assign_rejected; exact Ht end.
Qed.
