(* Type soundness of Wgsl/Typecheck.v, part 2: operators (incl. matrix products), builtins,
   constructors and zero values of Wgsl/Sem.v on well-typed operands. *)
From Coq Require Import List ZArith String Bool Lia.
Import ListNotations.
Require Import Naga.IR.Values Naga.IR.Sem Naga.Wgsl.Sem Naga.Wgsl.Typecheck Naga.Wgsl.TypecheckBase.
Open Scope string_scope.
Open Scope list_scope.

Section Ops.
Variable ss : list (string * list wty).
Notation vty := (vty ss).

(* ---- shapes ---- *)
Lemma svty_not_mat n s v : svty n s v -> forall cs, v <> VMat cs.
Proof. intros H cs E; subst. destruct n; cbn in H; [destruct H as (l & E & _); discriminate|inversion H]. Qed.

Lemma lift_mat_sv f n s v : svty n s v -> lift_mat f v = lift1 f v.
Proof. intros H. destruct v; try reflexivity. exfalso. eapply svty_not_mat; eauto. Qed.

Lemma dim_ok_bounds n : dim_ok n = true -> (2 <= n <= 4)%nat.
Proof. unfold dim_ok. intros H. apply andb_prop in H. destruct H as [H1 H2]. apply Nat.leb_le in H1, H2. lia. Qed.

(* ---- unary ---- *)
Lemma wunop_ok op ta t va : unop_ty op ta = TOk t -> vty va ta -> rok (fun v => vty v t) (wunop op va).
Proof.
  unfold unop_ty, wunop. intros H Hv.
  destruct (sv_of ta) as [[n s]|] eqn:Es.
  2:{ destruct (String.eqb op "-" || String.eqb op "!" || String.eqb op "~"); discriminate. }
  pose proof (proj1 (vty_sv ss ta n s va Es) Hv) as Hsv.
  destruct (String.eqb op "-").
  { tinv. rewrite (lift_mat_sv _ n s) by assumption.
    eapply rok_weaken; [eapply lift1_ok; [apply neg_sf; eassumption|eassumption]|].
    intros v Hv'. apply (vty_sv ss t n s v Es). exact Hv'. }
  destruct (String.eqb op "!").
  { tinv. destruct s; try discriminate.
    eapply rok_weaken; [eapply lift1_ok; [apply lognot_sf|eassumption]|].
    intros v Hv'. apply (vty_sv ss t n WBool v Es). exact Hv'. }
  destruct (String.eqb op "~"); [|discriminate].
  tinv. eapply rok_weaken; [eapply lift1_ok; [apply bitnot_sf; eassumption|eassumption]|].
  intros v Hv'. apply (vty_sv ss t n s v Es). exact Hv'.
Qed.

(* ---- binary: the spelling table ---- *)
Lemma wbinop_parse op k a b : parse_bop op = Some k -> wbinop op a b = eval_bop k a b.
Proof.
  unfold parse_bop, wbinop.
  repeat (match goal with |- context [String.eqb op ?x] => destruct (String.eqb op x) end;
          [intros H; inversion H; reflexivity|]).
  discriminate.
Qed.

Lemma num_bcast_ok f ta tb t va vb :
  num_bcast ta tb = Some t -> vty va ta -> vty vb tb ->
  (forall s, is_numeric s = true -> sf2 f s s s) ->
  rok (fun v => vty v t) (lift2 f va vb).
Proof.
  unfold num_bcast. intros H Ha Hb Hf.
  destruct (sv_of ta) as [[na sa]|] eqn:Ea; [|discriminate].
  destruct (sv_of tb) as [[nb sb]|] eqn:Eb; [|discriminate].
  destruct (wscalar_eqb sa sb && is_numeric sa) eqn:E; [|discriminate].
  apply andb_prop in E. destruct E as [E1 E2]. apply wscalar_eqb_eq in E1. subst sb.
  destruct (join_n na nb) as [n|] eqn:Ej; [|discriminate]. inversion H; subst.
  apply (vty_sv ss ta na sa va Ea) in Ha. apply (vty_sv ss tb nb sa vb Eb) in Hb.
  eapply rok_weaken; [eapply lift2_ok; [apply Hf; exact E2|exact Ha|exact Hb|exact Ej]|].
  intros v Hv. apply svty_vty. exact Hv.
Qed.

Lemma same_sv_ok f ta tb n s s' va vb :
  sv_of ta = Some (n, s) -> wty_eqb ta tb = true -> vty va ta -> vty vb tb -> sf2 f s s s' ->
  rok (fun v => vty v (sv_ty n s')) (lift2 f va vb).
Proof.
  intros Ea E Ha Hb Hf. apply wty_eqb_eq in E. subst tb.
  apply (vty_sv ss ta n s va Ea) in Ha. apply (vty_sv ss ta n s vb Ea) in Hb.
  eapply rok_weaken; [eapply lift2_ok; [exact Hf|exact Ha|exact Hb|]|].
  - destruct n; cbn; [rewrite Nat.eqb_refl|]; reflexivity.
  - intros v Hv. apply svty_vty. exact Hv.
Qed.

(* ---- matrices ---- *)
Definition f32l (n : nat) (l : list value) : Prop := List.length l = n /\ Forall (fun x => sty x WF32) l.

Lemma mat_cols_ok cols c r :
  vty (VMat cols) (TyMat c r) ->
  exists ls, mat_cols (VMat cols) = Done ls /\ List.length ls = c /\ Forall (f32l r) ls /\ cols = map VVec ls.
Proof.
  intros H. apply vty_mat_inv in H. destruct H as (cols' & E' & Hlen & Hcols). inversion E'; subst cols'. clear E'.
  subst c. cbn [mat_cols].
  induction Hcols as [|x cols Hx Hcols IH]; cbn [rmap].
  - exists []. cbn. repeat split; auto.
  - destruct Hx as (l & -> & Hl & Hf). destruct IH as (ls & E & Hn & Hls & Hc).
    exists (l :: ls). cbn [vec_elems rbind]. rewrite E. cbn. repeat split; auto.
    + constructor; [split; auto|auto].
    + congruence.
Qed.

Lemma fold_sum_ok s l : is_numeric s = true -> Forall (fun x => sty x s) l -> forall acc,
  rok (fun v => sty v s) acc ->
  rok (fun v => sty v s) (fold_left (fun acc y => a <~ acc ;; arith_scalar OAdd a y) l acc).
Proof.
  intros Hs Hl. induction Hl as [|x l Hx Hl IH]; intros acc Hacc; cbn [fold_left]; [exact Hacc|].
  apply IH. eapply rok_bind; [exact Hacc|]. intros a Ha. apply (arith_sf OAdd s Hs); assumption.
Qed.

Lemma dot_ok s l1 l2 :
  is_numeric s = true -> Forall (fun x => sty x s) l1 -> Forall (fun x => sty x s) l2 ->
  List.length l1 = List.length l2 -> (1 <= List.length l1)%nat ->
  rok (fun v => sty v s) (dot_vals l1 l2).
Proof.
  intros Hs H1 H2 Hn Hp. unfold dot_vals.
  eapply rok_bind; [eapply zip_ok; [exact H1|exact H2|exact Hn|apply (arith_sf OMul s Hs)]|].
  intros ps [Hpn Hps]. unfold fsum. destruct ps as [|x r]; [cbn in Hpn; lia|].
  inversion Hps; subst. apply fold_sum_ok; auto.
Qed.

Lemma transpose_ok (P : value -> Prop) : forall f cols r,
  (r < f)%nat -> cols <> [] -> Forall (fun c => List.length c = r /\ Forall P c) cols ->
  List.length (transpose_lists f cols) = r /\
  Forall (fun row => List.length row = List.length cols /\ Forall P row) (transpose_lists f cols).
Proof.
  induction f as [|f IH]; intros cols r Hr Hne Hc; [lia|].
  cbn [transpose_lists]. destruct cols as [|c0 rest]; [congruence|].
  destruct c0 as [|x c0'].
  - inversion Hc; subst. destruct H1 as [H1 _]. cbn in H1. subst r. cbn. auto.
  - inversion Hc; subst. destruct H1 as [H1 H1']. cbn in H1. destruct r as [|r']; [discriminate|].
    assert (Hall : Forall (fun c => exists y c', c = y :: c' /\ P y /\ List.length c' = r' /\ Forall P c') ((x :: c0') :: rest)).
    { apply Forall_forall. intros c Hin. rewrite Forall_forall in Hc. destruct (Hc c Hin) as [Hl Hp].
      destruct c as [|y c']; [discriminate|]. inversion Hp; subst. exists y, c'. cbn in Hl. repeat split; auto; lia. }
    set (cols := (x :: c0') :: rest) in *.
    assert (Hheads : List.length (map (fun c => hd (VBool false) c) cols) = List.length cols /\ Forall P (map (fun c => hd (VBool false) c) cols)).
    { split; [apply map_length|]. apply Forall_forall. intros y Hy. apply in_map_iff in Hy. destruct Hy as (c & <- & Hin).
      rewrite Forall_forall in Hall. destruct (Hall c Hin) as (y & c' & -> & Py & _). exact Py. }
    assert (Htails : Forall (fun c => List.length c = r' /\ Forall P c) (map (fun c => tl c) cols)).
    { apply Forall_forall. intros y Hy. apply in_map_iff in Hy. destruct Hy as (c & <- & Hin).
      rewrite Forall_forall in Hall. destruct (Hall c Hin) as (y & c' & -> & _ & Hl & Hp). cbn. auto. }
    assert (Hne' : map (fun c => tl c) cols <> []) by (unfold cols; cbn; discriminate).
    destruct (IH _ r' ltac:(lia) Hne' Htails) as [Hn Hrows].
    split.
    + cbn [List.length]. rewrite Hn. reflexivity.
    + constructor; [exact Hheads|]. rewrite map_length in Hrows. exact Hrows.
Qed.

Lemma mat_mul_vec_ok cols c r v :
  dim_ok c = true -> dim_ok r = true ->
  vty (VMat cols) (TyMat c r) -> vecv c WF32 v -> rok (vecv r WF32) (mat_mul_vec (VMat cols) v).
Proof.
  intros Hc Hr Hm (vs & -> & Hvn & Hvs). apply dim_ok_bounds in Hc, Hr.
  destruct (mat_cols_ok _ _ _ Hm) as (ls & E & Hn & Hls & _).
  unfold mat_mul_vec. rewrite E. cbn [rbind vec_elems].
  assert (Hne : ls <> []) by (destruct ls; [cbn in Hn; lia|discriminate]).
  destruct (transpose_ok (fun x => sty x WF32) 5 ls r ltac:(lia) Hne Hls) as [Htn Hrows].
  eapply rok_bind.
  - eapply rmap_ok; [exact Hrows|]. intros row [Hrn Hrp]. cbv beta.
    apply (dot_ok WF32); auto; try reflexivity; lia.
  - intros ys [Hyn Hys]. cbn. exists ys. repeat split; auto. congruence.
Qed.

Lemma vec_mul_mat_ok cols c r v :
  dim_ok c = true -> dim_ok r = true ->
  vty (VMat cols) (TyMat c r) -> vecv r WF32 v -> rok (vecv c WF32) (vec_mul_mat v (VMat cols)).
Proof.
  intros Hc Hr Hm (vs & -> & Hvn & Hvs). apply dim_ok_bounds in Hc, Hr.
  destruct (mat_cols_ok _ _ _ Hm) as (ls & E & Hn & Hls & _).
  unfold vec_mul_mat. rewrite E. cbn [rbind vec_elems].
  eapply rok_bind.
  - eapply rmap_ok; [exact Hls|]. intros col [Hcn Hcp]. cbv beta.
    apply (dot_ok WF32); auto; try reflexivity; lia.
  - intros ys [Hyn Hys]. cbn. exists ys. repeat split; auto. congruence.
Qed.

Lemma mat_mul_mat_ok ca cb c r c2 :
  dim_ok c = true -> dim_ok r = true -> dim_ok c2 = true ->
  vty (VMat ca) (TyMat c r) -> vty (VMat cb) (TyMat c2 c) ->
  rok (fun v => vty v (TyMat c2 r)) (mat_mul_mat (VMat ca) (VMat cb)).
Proof.
  intros Hc Hr Hc2 Ha Hb.
  destruct (mat_cols_ok _ _ _ Hb) as (ls & E & Hn & Hls & _).
  unfold mat_mul_mat. rewrite E. cbn [rbind].
  eapply rok_bind.
  - eapply rmap_ok; [exact Hls|]. intros bc [Hbn Hbp]. cbv beta.
    apply (mat_mul_vec_ok ca c r); auto. exists bc. auto.
  - intros ys [Hyn Hys]. cbn. constructor; [congruence|exact Hys].
Qed.

Lemma mat_scale_ok (g : value -> result value) cols c r :
  (forall col, vecv r WF32 col -> rok (vecv r WF32) (g col)) ->
  vty (VMat cols) (TyMat c r) ->
  rok (fun v => vty v (TyMat c r)) (r0 <~ rmap g cols ;; Done (VMat r0)).
Proof.
  intros Hg Hm. apply vty_mat_inv in Hm. destruct Hm as (cols' & E' & Hlen & Hcols). inversion E'; subst cols'.
  eapply rok_bind; [eapply rmap_ok; [exact Hcols|exact Hg]|].
  intros ys [Hyn Hys]. cbn. constructor; [congruence|auto].
Qed.

Lemma sty_f32_svty x : sty x WF32 -> svty None WF32 x.
Proof. auto. Qed.

Lemma bop_ok k ta tb t va vb :
  bop_ty k ta tb = Some t -> vty va ta -> vty vb tb -> rok (fun v => vty v t) (eval_bop k va vb).
Proof.
  intros H Ha Hb. destruct k; cbn [bop_ty eval_bop] in *.
  - (* + - *)
    assert (Hcases : (exists c r, ta = TyMat c r /\ tb = TyMat c r /\ t = ta) \/ num_bcast ta tb = Some t).
    { destruct ta; try (right; exact H). destruct tb; try (right; exact H).
      destruct (Nat.eqb c c0 && Nat.eqb r r0) eqn:E; [|discriminate].
      apply andb_prop in E. destruct E as [E1 E2]. apply Nat.eqb_eq in E1, E2. subst. inversion H. left; eauto. }
    destruct Hcases as [(c & r & -> & -> & ->)|Hnb].
    + apply vty_mat_inv in Ha, Hb. destruct Ha as (ca & -> & Hca & Hfa). destruct Hb as (cb & -> & Hcb & Hfb).
      cbn [addsub_value].
      eapply rok_bind.
      * eapply zip_ok; [exact Hfa|exact Hfb|congruence|].
        intros x y Hx Hy. cbv beta.
        eapply (lift2_ok (arith_scalar o) WF32 WF32 WF32 (Some r) (Some r) (Some r)); auto.
        -- apply arith_sf; reflexivity.
        -- cbn. rewrite Nat.eqb_refl. reflexivity.
      * intros ys [Hyn Hys]. cbn. constructor; [congruence|exact Hys].
    + assert (E : addsub_value o va vb = lift2 (arith_scalar o) va vb).
      { unfold num_bcast in Hnb. destruct (sv_of ta) as [[na sa]|] eqn:Ea; [|discriminate].
        apply (vty_sv ss ta na sa va Ea) in Ha. destruct va; try reflexivity. exfalso. eapply svty_not_mat; eauto. }
      rewrite E. eapply num_bcast_ok; eauto. intros; apply arith_sf; assumption.
  - (* * *)
    assert (Hcases :
      (exists c r c2, ta = TyMat c r /\ tb = TyMat c2 c /\ t = TyMat c2 r /\ dim_ok c = true /\ dim_ok r = true /\ dim_ok c2 = true)
      \/ (exists c r, ta = TyMat c r /\ tb = TyVec c WF32 /\ t = TyVec r WF32 /\ dim_ok c = true /\ dim_ok r = true)
      \/ (exists c r, ta = TyVec r WF32 /\ tb = TyMat c r /\ t = TyVec c WF32 /\ dim_ok c = true /\ dim_ok r = true)
      \/ (exists c r, ta = TyMat c r /\ tb = TyS WF32 /\ t = ta)
      \/ (exists c r, ta = TyS WF32 /\ tb = TyMat c r /\ t = tb)
      \/ (num_bcast ta tb = Some t /\ sv_of ta <> None /\ sv_of tb <> None)).
    { destruct ta, tb;
        try (right; right; right; right; right; split; [exact H|split; discriminate]);
        try (exfalso; cbn in H; discriminate H).
      - destruct s; try discriminate H. inversion H. right; right; right; right; left; eauto.
      - destruct (Nat.eqb n r && is_f32 s && dim_ok c && dim_ok r) eqn:E; [|discriminate]. inversion H.
        repeat (apply andb_prop in E; destruct E as [E ?]). apply Nat.eqb_eq in E. subst. destruct s; try discriminate.
        right; right; left. exists c, r. repeat split; auto.
      - destruct s; try discriminate H. inversion H. right; right; right; left; eauto.
      - destruct (Nat.eqb n c && is_f32 s && dim_ok c && dim_ok r) eqn:E; [|discriminate]. inversion H.
        repeat (apply andb_prop in E; destruct E as [E ?]). apply Nat.eqb_eq in E. subst. destruct s; try discriminate.
        right; left. exists c, r. repeat split; auto.
      - destruct (Nat.eqb c r0 && dim_ok c && dim_ok r && dim_ok c0) eqn:E; [|discriminate]. inversion H.
        repeat (apply andb_prop in E; destruct E as [E ?]). apply Nat.eqb_eq in E. subst.
        left. exists r0, r, c0. repeat split; auto. }
    destruct Hcases as [(c & r & c2 & -> & -> & -> & Hc & Hr & Hc2)
                       |[(c & r & -> & -> & -> & Hc & Hr)
                       |[(c & r & -> & -> & -> & Hc & Hr)
                       |[(c & r & -> & -> & ->)
                       |[(c & r & -> & -> & ->)
                       |(Hnb & Hsa & Hsb)]]]]].
    + destruct (vty_mat_inv _ _ _ _ Ha) as (ca & -> & _). destruct (vty_mat_inv _ _ _ _ Hb) as (cb & -> & _).
      cbn [mul_value]. apply (mat_mul_mat_ok ca cb c r c2); auto.
    + destruct (vty_mat_inv _ _ _ _ Ha) as (ca & -> & _). apply vty_vec_inv in Hb.
      assert (E : mul_value (VMat ca) vb = mat_mul_vec (VMat ca) vb) by (destruct Hb as (l & -> & _); reflexivity).
      rewrite E. eapply rok_weaken; [apply (mat_mul_vec_ok ca c r); auto|].
      intros v Hv. apply vecv_vty. exact Hv.
    + destruct (vty_mat_inv _ _ _ _ Hb) as (cb & -> & _). apply vty_vec_inv in Ha.
      assert (E : mul_value va (VMat cb) = vec_mul_mat va (VMat cb)) by (destruct Ha as (l & -> & _); reflexivity).
      rewrite E. eapply rok_weaken; [apply (vec_mul_mat_ok cb c r); auto|].
      intros v Hv. apply vecv_vty. exact Hv.
    + destruct (vty_mat_inv _ _ _ _ Ha) as (ca & -> & _). apply vty_s_inv in Hb.
      assert (E : mul_value (VMat ca) vb = (r0 <~ rmap (fun c0 => lift2 (arith_scalar OMul) c0 vb) ca ;; Done (VMat r0)))
        by (inversion Hb; reflexivity).
      rewrite E. apply mat_scale_ok; [|exact Ha]. intros col Hcol.
      eapply (lift2_ok (arith_scalar OMul) WF32 WF32 WF32 (Some r) None (Some r)); eauto.
      apply arith_sf; reflexivity.
    + destruct (vty_mat_inv _ _ _ _ Hb) as (cb & -> & _). apply vty_s_inv in Ha.
      assert (E : mul_value va (VMat cb) = (r0 <~ rmap (fun c0 => lift2 (arith_scalar OMul) va c0) cb ;; Done (VMat r0)))
        by (inversion Ha; reflexivity).
      rewrite E. apply mat_scale_ok; [|exact Hb]. intros col Hcol.
      eapply (lift2_ok (arith_scalar OMul) WF32 WF32 WF32 None (Some r) (Some r)); eauto.
      apply arith_sf; reflexivity.
    + assert (E : mul_value va vb = lift2 (arith_scalar OMul) va vb).
      { destruct (sv_of ta) as [[na sa]|] eqn:Ea; [|congruence]. destruct (sv_of tb) as [[nb sb]|] eqn:Eb; [|congruence].
        apply (vty_sv ss ta na sa va Ea) in Ha. apply (vty_sv ss tb nb sb vb Eb) in Hb.
        assert (Hna : forall cs, va <> VMat cs) by (eapply svty_not_mat; exact Ha).
        assert (Hnb' : forall cs, vb <> VMat cs) by (eapply svty_not_mat; exact Hb).
        destruct va; try (exfalso; eapply Hna; reflexivity);
          (destruct vb; try reflexivity; exfalso; eapply Hnb'; reflexivity). }
      rewrite E. eapply num_bcast_ok; eauto. intros; apply arith_sf; assumption.
  - (* / % *) eapply num_bcast_ok; eauto. intros; apply arith_sf; assumption.
  - (* & | ^ *)
    destruct (sv_of ta) as [[n s]|] eqn:Es; [|discriminate].
    destruct (wty_eqb ta tb && (is_int s || is_bool s && match o with OXor => false | _ => true end)) eqn:E; [|discriminate].
    inversion H; subst. apply andb_prop in E. destruct E as [E1 E2].
    replace t with (sv_ty n s) by (destruct t; cbn in Es; inversion Es; reflexivity).
    eapply same_sv_ok; eauto. apply bit_sf. exact E2.
  - (* << *)
    destruct (sv_of ta) as [[na sa]|] eqn:Ea; [|discriminate].
    destruct (sv_of tb) as [[nb sb]|] eqn:Eb; [|discriminate].
    destruct (is_int sa && wscalar_eqb sb WU32 && optnat_eqb na nb) eqn:E; [|discriminate].
    inversion H; subst. repeat (apply andb_prop in E; destruct E as [E ?]).
    apply wscalar_eqb_eq in H1. apply optnat_eqb_eq in H0. subst.
    apply (vty_sv ss t nb sa va Ea) in Ha. apply (vty_sv ss tb nb WU32 vb Eb) in Hb.
    eapply rok_weaken; [eapply lift2_ok; [apply shl_sf; exact E|exact Ha|exact Hb|]|].
    + destruct nb; cbn; [rewrite Nat.eqb_refl|]; reflexivity.
    + intros v Hv. apply (vty_sv ss t nb sa v Ea). exact Hv.
  - (* >> *)
    destruct (sv_of ta) as [[na sa]|] eqn:Ea; [|discriminate].
    destruct (sv_of tb) as [[nb sb]|] eqn:Eb; [|discriminate].
    destruct (is_int sa && wscalar_eqb sb WU32 && optnat_eqb na nb) eqn:E; [|discriminate].
    inversion H; subst. repeat (apply andb_prop in E; destruct E as [E ?]).
    apply wscalar_eqb_eq in H1. apply optnat_eqb_eq in H0. subst.
    apply (vty_sv ss t nb sa va Ea) in Ha. apply (vty_sv ss tb nb WU32 vb Eb) in Hb.
    eapply rok_weaken; [eapply lift2_ok; [apply shr_sf; exact E|exact Ha|exact Hb|]|].
    + destruct nb; cbn; [rewrite Nat.eqb_refl|]; reflexivity.
    + intros v Hv. apply (vty_sv ss t nb sa v Ea). exact Hv.
  - (* comparisons *)
    destruct (sv_of ta) as [[n s]|] eqn:Es; [|discriminate].
    destruct (wty_eqb ta tb && (is_numeric s || match c with CEq | CNe => true | _ => false end)) eqn:E; [|discriminate].
    inversion H; subst. apply andb_prop in E. destruct E as [E1 E2].
    eapply same_sv_ok; eauto. apply cmp_sf. exact E2.
Qed.

Lemma wbinop_ok op ta tb t va vb :
  binop_ty op ta tb = TOk t -> vty va ta -> vty vb tb -> rok (fun v => vty v t) (wbinop op va vb).
Proof.
  unfold binop_ty. intros H Ha Hb. destruct (parse_bop op) as [k|] eqn:E; [|discriminate].
  apply of_opt_ok in H. rewrite (wbinop_parse op k va vb E). eapply bop_ok; eauto.
Qed.

End Ops.
