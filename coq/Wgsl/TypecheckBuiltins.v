(* Type soundness of Wgsl/Typecheck.v, part 3: builtin functions, value constructors, zero values. *)
From Coq Require Import List ZArith String Bool Lia.
Import ListNotations.
Require Import Naga.Base.Bits32 Naga.Base.F32 Naga.IR.Syntax Naga.IR.Values Naga.IR.Sem Naga.Wgsl.Sem Naga.Wgsl.Typecheck Naga.Wgsl.TypecheckBase Naga.Wgsl.TypecheckOps.
Open Scope string_scope.
Open Scope list_scope.

Ltac red_m := cbv beta iota delta [rok rbind abs_scalar sign_scalar int1 float1 num2 clamp_scalar extract_scalar insert_scalar].

Definition sf3 (f : value -> value -> value -> result value) (s : wscalar) : Prop :=
  forall x y z, sty x s -> sty y s -> sty z s -> rok (fun v => sty v s) (f x y z).

Lemma rok_unvec (R : list value -> Prop) (r : result (list value)) :
  rok (fun v => exists vs, v = VVec vs /\ R vs) (rbind r (fun vs => Done (VVec vs))) -> rok R r.
Proof. destruct r; cbn; auto. intros (vs & E & H). inversion E; subst; auto. Qed.

Lemma lift3_vec f s l1 : forall l2 l3,
  sf3 f s -> Forall (fun x => sty x s) l1 -> Forall (fun x => sty x s) l2 -> Forall (fun x => sty x s) l3 ->
  List.length l1 = List.length l2 -> List.length l1 = List.length l3 ->
  rok (fun v => exists ys, v = VVec ys /\ (List.length ys = List.length l1 /\ Forall (fun x => sty x s) ys))
      (lift3 f (VVec l1) (VVec l2) (VVec l3)).
Proof.
  induction l1 as [|x l1 IH]; intros [|y l2] [|z l3] Hf H1 H2 H3 E2 E3; cbn in E2, E3; try discriminate.
  - cbn. exists []. auto.
  - inversion H1; inversion H2; inversion H3; subst.
    specialize (IH l2 l3 Hf ltac:(assumption) ltac:(assumption) ltac:(assumption) ltac:(lia) ltac:(lia)).
    apply rok_unvec in IH. cbn [lift3] in *.
    eapply rok_bind; [|intros vs Hvs; exact Hvs].
    eapply rok_bind; [apply Hf; assumption|]. intros v Hv.
    eapply rok_bind; [exact IH|]. intros vs [Hn Hvs]. cbn.
    exists (v :: vs). cbn. repeat split; auto.
Qed.

Lemma lift3_ok f s n a b c : sf3 f s -> svty n s a -> svty n s b -> svty n s c -> rok (svty n s) (lift3 f a b c).
Proof.
  intros Hf Ha Hb Hc. destruct n as [k|]; cbn in Ha, Hb, Hc.
  - destruct Ha as (l1 & -> & Hn1 & Hl1). destruct Hb as (l2 & -> & Hn2 & Hl2). destruct Hc as (l3 & -> & Hn3 & Hl3).
    eapply rok_weaken; [apply (lift3_vec f s l1 l2 l3); auto; congruence|].
    intros v (ys & -> & Hyn & Hys). exists ys. repeat split; auto; congruence.
  - assert (E : lift3 f a b c = f a b c) by (inversion Ha; reflexivity). rewrite E. apply Hf; assumption.
Qed.

(* ---- scalar facts ---- *)
Lemma abs_sf s : is_numeric s = true -> sf1 abs_scalar s s.
Proof. intros Hs x Hx. destruct s; try discriminate; sinv; red_m; constructor. Qed.
Lemma sign_sf s : is_signed s = true -> sf1 sign_scalar s s.
Proof. intros Hs x Hx. destruct s; try discriminate; sinv; red_m; constructor. Qed.
Lemma int1_sf fi fu s : is_int s = true -> sf1 (int1 fi fu) s s.
Proof. intros Hs x Hx. destruct s; try discriminate; sinv; red_m; constructor. Qed.
Lemma float1_sf ff s : is_f32 s = true -> sf1 (float1 ff) s s.
Proof. intros Hs x Hx. destruct s; try discriminate; sinv; red_m; constructor. Qed.
Lemma num2_sf fi fu ff s : is_numeric s = true -> sf2 (num2 fi fu ff) s s s.
Proof. intros Hs x y Hx Hy. destruct s; try discriminate; sinv; red_m; constructor. Qed.
Lemma clamp_sf s : is_numeric s = true -> sf3 clamp_scalar s.
Proof. intros Hs x y z Hx Hy Hz. destruct s; try discriminate; sinv; red_m; constructor. Qed.
Lemma saturate_sf s : is_f32 s = true -> sf1 (fun x => clamp_scalar x (VF32 0) (VF32 1065353216)) s s.
Proof. intros Hs x Hx. destruct s; try discriminate; sinv; red_m; constructor. Qed.
Lemma fma_sf s : is_f32 s = true ->
  sf3 (fun x y z => match x, y, z with VF32 p, VF32 q, VF32 r => Done (VF32 (ffma p q r)) | _, _, _ => Fail "fma: operands" end) s.
Proof. intros Hs x y z Hx Hy Hz. destruct s; try discriminate; sinv; red_m; constructor. Qed.
Lemma extract_sf s b c : is_int s = true -> sty b WU32 -> sty c WU32 -> sf1 (fun x => extract_scalar x b c) s s.
Proof. intros Hs Hb Hc x Hx. destruct s; try discriminate; sinv; red_m; constructor. Qed.
Lemma insert_sf s c d : is_int s = true -> sty c WU32 -> sty d WU32 -> sf2 (fun x y => insert_scalar x y c d) s s s.
Proof. intros Hs Hc Hd x y Hx Hy. destruct s; try discriminate; sinv; red_m; constructor. Qed.

Section Builtins.
Variable ss : list (string * list wty).
Notation vty := (vty ss).

Lemma sv_dom_inv dom t : sv_dom dom t = true -> exists n s, sv_of t = Some (n, s) /\ dom s = true.
Proof. unfold sv_dom. destruct (sv_of t) as [[n s]|]; [eauto|discriminate]. Qed.

Lemma sig1_ok dom fs (ev : list value -> result value) ts t vs :
  (forall a, ev [a] = lift1 fs a) -> (forall s, dom s = true -> sf1 fs s s) ->
  sig_ty (Sig1 dom) ts = TOk t -> Forall2 vty vs ts -> rok (fun v => vty v t) (ev vs).
Proof.
  intros Hev Hf H Hv. cbn [sig_ty] in H. destruct ts as [|t1 [|? ?]]; try discriminate. tinv.
  inversion Hv as [|a ? vs' ? Ha Hv']; subst. inversion Hv'; subst. rewrite Hev.
  match goal with H : sv_dom _ _ = true |- _ => destruct (sv_dom_inv _ _ H) as (n & s & Es & Hd) end.
  apply (vty_sv ss t n s a Es) in Ha.
  eapply rok_weaken; [eapply lift1_ok; [apply Hf; exact Hd|exact Ha]|].
  intros v Hv0. apply (vty_sv ss t n s v Es). exact Hv0.
Qed.

Lemma sig2_ok dom fs (ev : list value -> result value) ts t vs :
  (forall a b, ev [a; b] = lift2 fs a b) -> (forall s, dom s = true -> sf2 fs s s s) ->
  sig_ty (Sig2 dom) ts = TOk t -> Forall2 vty vs ts -> rok (fun v => vty v t) (ev vs).
Proof.
  intros Hev Hf H Hv. cbn [sig_ty] in H. destruct ts as [|t1 [|t2 [|? ?]]]; try discriminate. tinv.
  inversion Hv as [|a ? vs' ? Ha Hv']; subst. inversion Hv' as [|b ? vs'' ? Hb Hv'']; subst. inversion Hv''; subst.
  rewrite Hev. match goal with H : sv_dom _ _ = true |- _ => destruct (sv_dom_inv _ _ H) as (n & s & Es & Hd) end.
  replace t with (sv_ty n s) by (destruct t; cbn in Es; inversion Es; reflexivity).
  eapply same_sv_ok; eauto.
Qed.

Lemma sig3_ok dom fs (ev : list value -> result value) ts t vs :
  (forall a b c, ev [a; b; c] = lift3 fs a b c) -> (forall s, dom s = true -> sf3 fs s) ->
  sig_ty (Sig3 dom) ts = TOk t -> Forall2 vty vs ts -> rok (fun v => vty v t) (ev vs).
Proof.
  intros Hev Hf H Hv. cbn [sig_ty] in H. destruct ts as [|t1 [|t2 [|t3 [|? ?]]]]; try discriminate. tinv.
  inversion Hv as [|a ? vs' ? Ha Hv']; subst. inversion Hv' as [|b ? vs'' ? Hb Hv'']; subst.
  inversion Hv'' as [|c ? vs3 ? Hc Hv3]; subst. inversion Hv3; subst.
  rewrite Hev. match goal with H : sv_dom _ _ = true |- _ => destruct (sv_dom_inv _ _ H) as (n & s & Es & Hd) end.
  beq. subst.
  apply (vty_sv ss _ n s a Es) in Ha. apply (vty_sv ss _ n s b Es) in Hb. apply (vty_sv ss _ n s c Es) in Hc.
  eapply rok_weaken; [eapply lift3_ok; [apply Hf; exact Hd|exact Ha|exact Hb|exact Hc]|].
  intros v Hv0. apply (vty_sv ss _ n s v Es). exact Hv0.
Qed.

Lemma select_vec_ok s cs : forall la lr,
  Forall (fun x => sty x WBool) cs -> Forall (fun x => sty x s) la -> Forall (fun x => sty x s) lr ->
  List.length cs = List.length la -> List.length cs = List.length lr ->
  rok (fun v => exists ys, v = VVec ys /\ (List.length ys = List.length cs /\ Forall (fun x => sty x s) ys))
      (eval_select (VVec cs) (VVec la) (VVec lr)).
Proof.
  induction cs as [|c cs IH]; intros [|x la] [|y lr] Hc Ha Hr E1 E2; cbn in E1, E2; try discriminate.
  - cbn. exists []. auto.
  - inversion Hc; inversion Ha; inversion Hr; subst.
    specialize (IH la lr ltac:(assumption) ltac:(assumption) ltac:(assumption) ltac:(lia) ltac:(lia)).
    apply rok_unvec in IH. cbn [eval_select] in *.
    match goal with H : sty c WBool |- _ => inversion H; subst end.
    eapply rok_bind; [|intros vs Hvs; exact Hvs].
    eapply rok_bind; [exact IH|]. intros vs [Hn Hvs]. cbn.
    exists ((if b then x else y) :: vs). cbn. repeat split; auto. constructor; auto. destruct b; assumption.
Qed.

Lemma select_ok ts t vs :
  sig_ty SigSelect ts = TOk t -> Forall2 vty vs ts -> rok (fun v => vty v t) (wbuiltin "select" vs).
Proof.
  intros H Hv. cbn [sig_ty] in H. destruct ts as [|tf [|tt2 [|tc [|? ?]]]]; try discriminate.
  destruct (sv_of tf) as [[n s]|] eqn:Ef; [|discriminate]. destruct (sv_of tc) as [[nc sc]|] eqn:Ec; [|discriminate].
  tinv. inversion Hv as [|r ? vs' ? Hr Hv']; subst. inversion Hv' as [|a ? vs'' ? Ha Hv'']; subst.
  inversion Hv'' as [|c ? vs3 ? Hc Hv3]; subst. inversion Hv3; subst.
  change (wbuiltin "select" [r; a; c]) with (eval_select c a r).
  apply wty_eqb_eq in H. subst tt2. destruct sc; try discriminate.
  apply (vty_sv ss tc nc WBool c Ec) in Hc.
  destruct nc as [k|]; cbn in Hc.
  - beq. subst n.
    apply (vty_sv ss t (Some k) s r Ef) in Hr. apply (vty_sv ss t (Some k) s a Ef) in Ha.
    destruct Hc as (cs & -> & Hcn & Hcs). destruct Ha as (la & -> & Han & Hla). destruct Hr as (lr & -> & Hrn & Hlr).
    eapply rok_weaken; [apply (select_vec_ok s cs la lr); auto; congruence|].
    intros v (ys & -> & Hyn & Hys). apply (vty_sv ss t (Some k) s _ Ef). exists ys. repeat split; auto; congruence.
  - inversion Hc; subst. cbn. destruct b; assumption.
Qed.

Lemma bools_ok n v : svty n WBool v -> exists bs, bools_of v = Done bs.
Proof.
  destruct n as [k|]; cbn; intros H.
  - destruct H as (l & -> & _ & Hl). cbn [bools_of]. clear k.
    induction Hl as [|x l Hx Hl IH]; cbn [rmap]; [eexists; reflexivity|].
    destruct IH as (bs & E). inversion Hx; subst. cbn [rbind]. rewrite E. cbn. eexists; reflexivity.
  - inversion H; subst. cbn. eexists; reflexivity.
Qed.

Lemma anyall_ok (fn : string) rf ts t vs :
  (forall a, wbuiltin fn [a] = eval_relational rf a) -> (rf = RAny \/ rf = RAll) ->
  sig_ty SigAnyAll ts = TOk t -> Forall2 vty vs ts -> rok (fun v => vty v t) (wbuiltin fn vs).
Proof.
  intros Hev Hrf H Hv. cbn [sig_ty] in H. destruct ts as [|t1 [|? ?]]; try discriminate. tinv.
  inversion Hv as [|a ? vs' ? Ha Hv']; subst. inversion Hv'; subst. rewrite Hev.
  match goal with H : sv_dom _ _ = true |- _ => destruct (sv_dom_inv _ _ H) as (n & s & Es & Hd) end.
  destruct s; try discriminate.
  apply (vty_sv ss t1 n WBool a Es) in Ha. destruct (bools_ok n a Ha) as (bs & E).
  destruct Hrf as [-> | ->]; cbn [eval_relational]; rewrite E; cbn; constructor; constructor.
Qed.

Lemma dot_builtin_ok ts t vs :
  sig_ty SigDot ts = TOk t -> Forall2 vty vs ts -> rok (fun v => vty v t) (wbuiltin "dot" vs).
Proof.
  intros H Hv. cbn [sig_ty] in H.
  destruct ts as [|t1 [|t2 [|? ?]]]; try discriminate; try (destruct t1; discriminate).
  destruct t1; try discriminate. tinv.
  inversion Hv as [|a ? vs' ? Ha Hv']; subst. inversion Hv' as [|b ? vs'' ? Hb Hv'']; subst. inversion Hv''; subst.
  beq. subst t2. apply vty_vec_inv in Ha, Hb.
  destruct Ha as (l1 & -> & Hn1 & Hl1). destruct Hb as (l2 & -> & Hn2 & Hl2).
  change (wbuiltin "dot" [VVec l1; VVec l2]) with (dot_vals l1 l2).
  match goal with H : dim_ok _ = true |- _ => apply dim_ok_bounds in H end.
  eapply rok_weaken; [apply (dot_ok s l1 l2); auto; try congruence; lia|].
  intros v Hv0. constructor. exact Hv0.
Qed.

Lemma extract_ok ts t vs :
  sig_ty SigExtract ts = TOk t -> Forall2 vty vs ts -> rok (fun v => vty v t) (wbuiltin "extractBits" vs).
Proof.
  intros H Hv. cbn [sig_ty] in H. destruct ts as [|t1 [|t2 [|t3 [|? ?]]]]; try discriminate. tinv.
  inversion Hv as [|a ? vs' ? Ha Hv']; subst. inversion Hv' as [|b ? vs'' ? Hb Hv'']; subst.
  inversion Hv'' as [|c ? vs3 ? Hc Hv3]; subst. inversion Hv3; subst.
  beq. subst. apply vty_s_inv in Hb, Hc.
  match goal with H : sv_dom _ _ = true |- _ => destruct (sv_dom_inv _ _ H) as (n & s & Es & Hd) end.
  apply (vty_sv ss t n s a Es) in Ha.
  assert (E : wbuiltin "extractBits" [a; b; c] = lift1 (fun x => extract_scalar x b c) a).
  { destruct n as [k|]; cbn in Ha; [destruct Ha as (l & -> & _); reflexivity|inversion Ha; reflexivity]. }
  rewrite E. eapply rok_weaken; [eapply lift1_ok; [apply (extract_sf s b c Hd Hb Hc)|exact Ha]|].
  intros v Hv0. apply (vty_sv ss t n s v Es). exact Hv0.
Qed.

Lemma insert_ok ts t vs :
  sig_ty SigInsert ts = TOk t -> Forall2 vty vs ts -> rok (fun v => vty v t) (wbuiltin "insertBits" vs).
Proof.
  intros H Hv. cbn [sig_ty] in H. destruct ts as [|t1 [|t2 [|t3 [|t4 [|? ?]]]]]; try discriminate. tinv.
  inversion Hv as [|a ? vs' ? Ha Hv']; subst. inversion Hv' as [|b ? vs'' ? Hb Hv'']; subst.
  inversion Hv'' as [|c ? vs3 ? Hc Hv3]; subst. inversion Hv3 as [|d ? vs4 ? Hd Hv4]; subst. inversion Hv4; subst.
  beq. subst. apply vty_s_inv in Hc, Hd.
  match goal with H : sv_dom _ _ = true |- _ => destruct (sv_dom_inv _ _ H) as (n & s & Es & Hdm) end.
  apply (vty_sv ss _ n s a Es) in Ha. apply (vty_sv ss _ n s b Es) in Hb.
  assert (E : wbuiltin "insertBits" [a; b; c; d] = lift2 (fun x y => insert_scalar x y c d) a b).
  { destruct n as [k|]; cbn in Ha, Hb.
    - destruct Ha as (l1 & -> & _). destruct Hb as (l2 & -> & _). reflexivity.
    - inversion Ha; inversion Hb; reflexivity. }
  rewrite E. eapply rok_weaken; [eapply lift2_ok; [apply (insert_sf s c d Hdm Hc Hd)|exact Ha|exact Hb|]|].
  - destruct n; cbn; [rewrite Nat.eqb_refl|]; reflexivity.
  - intros v Hv0. apply (vty_sv ss _ n s v Es). exact Hv0.
Qed.

Lemma wbuiltin_ok f ts t vs :
  builtin_ty f ts = TOk t -> Forall2 vty vs ts -> rok (fun v => vty v t) (wbuiltin f vs).
Proof.
  unfold builtin_ty, builtin_sig. intros H Hv.
  Ltac bcase H nm := destruct (String.eqb _ nm) eqn:?E in H;
                     [match goal with E : String.eqb _ nm = true |- _ => apply String.eqb_eq in E; subst end|].
  bcase H "select". { eapply select_ok; eauto. }
  bcase H "any". { eapply (anyall_ok "any" RAny); eauto. }
  bcase H "all". { eapply (anyall_ok "all" RAll); eauto. }
  bcase H "abs". { eapply (sig1_ok is_numeric abs_scalar (wbuiltin "abs")); eauto using abs_sf. }
  bcase H "min". { eapply (sig2_ok is_numeric (num2 min_i32 min_u32 fmin) (wbuiltin "min")); eauto using num2_sf. }
  bcase H "max". { eapply (sig2_ok is_numeric (num2 max_i32 max_u32 fmax) (wbuiltin "max")); eauto using num2_sf. }
  bcase H "clamp". { eapply (sig3_ok is_numeric clamp_scalar (wbuiltin "clamp")); eauto using clamp_sf. }
  bcase H "sign". { eapply (sig1_ok is_signed sign_scalar (wbuiltin "sign")); eauto using sign_sf. }
  bcase H "floor". { eapply (sig1_ok is_f32 (float1 ffloor) (wbuiltin "floor")); eauto using float1_sf. }
  bcase H "ceil". { eapply (sig1_ok is_f32 (float1 fceil) (wbuiltin "ceil")); eauto using float1_sf. }
  bcase H "trunc". { eapply (sig1_ok is_f32 (float1 ftrunc) (wbuiltin "trunc")); eauto using float1_sf. }
  bcase H "round". { eapply (sig1_ok is_f32 (float1 fround) (wbuiltin "round")); eauto using float1_sf. }
  bcase H "sqrt". { eapply (sig1_ok is_f32 (float1 fsqrt) (wbuiltin "sqrt")); eauto using float1_sf. }
  bcase H "fma". { eapply (sig3_ok is_f32 _ (wbuiltin "fma")); [reflexivity|apply fma_sf|eauto|eauto]. }
  bcase H "saturate". { eapply (sig1_ok is_f32 _ (wbuiltin "saturate")); [reflexivity|apply saturate_sf|eauto|eauto]. }
  bcase H "dot". { eapply dot_builtin_ok; eauto. }
  bcase H "countOneBits". { eapply (sig1_ok is_int (int1 _ _) (wbuiltin "countOneBits")); [reflexivity|apply int1_sf|eauto|eauto]. }
  bcase H "countLeadingZeros". { eapply (sig1_ok is_int (int1 _ _) (wbuiltin "countLeadingZeros")); [reflexivity|apply int1_sf|eauto|eauto]. }
  bcase H "countTrailingZeros". { eapply (sig1_ok is_int (int1 _ _) (wbuiltin "countTrailingZeros")); [reflexivity|apply int1_sf|eauto|eauto]. }
  bcase H "reverseBits". { eapply (sig1_ok is_int (int1 _ _) (wbuiltin "reverseBits")); [reflexivity|apply int1_sf|eauto|eauto]. }
  bcase H "firstLeadingBit". { eapply (sig1_ok is_int (int1 _ _) (wbuiltin "firstLeadingBit")); [reflexivity|apply int1_sf|eauto|eauto]. }
  bcase H "firstTrailingBit". { eapply (sig1_ok is_int (int1 _ _) (wbuiltin "firstTrailingBit")); [reflexivity|apply int1_sf|eauto|eauto]. }
  bcase H "extractBits". { eapply extract_ok; eauto. }
  bcase H "insertBits". { eapply insert_ok; eauto. }
  discriminate.
Qed.

(* ---- zero values ---- *)
Lemma find_struct_in name : forall l ms, find_struct name l = Some ms -> In (name, ms) l.
Proof.
  induction l as [|[k m] l IH]; cbn; intros ms H; [discriminate|].
  destruct (String.eqb k name) eqn:E.
  - apply String.eqb_eq in E. inversion H; subst. left; reflexivity.
  - right. apply IH. exact H.
Qed.

Lemma structs_wf_members name ms :
  structs_wf ss = true -> find_struct name ss = Some ms -> forallb (ty_wf ss) ms = true.
Proof.
  unfold structs_wf. intros H E. apply find_struct_in in E.
  rewrite forallb_forall in H. apply (H (name, ms) E).
Qed.

Lemma Forall_repeat {A} (P : A -> Prop) x n : P x -> Forall P (repeat x n).
Proof. intros H. apply Forall_forall. intros y Hy. apply repeat_spec in Hy. subst. exact H. Qed.

Lemma zero_ws_sty s : sty (zero_ws s) s.
Proof. destruct s; constructor. Qed.

Lemma Forall2_flip {A B} (R : A -> B -> Prop) l1 l2 : Forall2 (fun a b => R b a) l2 l1 -> Forall2 R l1 l2.
Proof. induction 1; constructor; auto. Qed.

Lemma wzero_ok : structs_wf ss = true -> forall f t, ty_wf ss t = true -> rok (fun v => vty v t) (wzero f ss t).
Proof.
  intros Hss. induction f as [|f IH]; intros t Ht; [exact I|].
  cbn [wzero]. destruct t as [s|n s|c r|[n|] e|name|e]; cbn [ty_wf] in Ht; try discriminate.
  - cbn. constructor. apply zero_ws_sty.
  - cbn. constructor; [apply repeat_length|apply Forall_repeat, zero_ws_sty].
  - cbn. constructor; [apply repeat_length|]. apply Forall_repeat.
    exists (repeat (VF32 0) r). repeat split; [apply repeat_length|apply Forall_repeat; constructor].
  - apply andb_prop in Ht. destruct Ht as [_ Ht].
    eapply rok_bind; [apply IH; exact Ht|]. intros z Hz. cbn.
    constructor; [apply Forall_repeat; exact Hz|]. intros k Hk. inversion Hk; subst. apply repeat_length.
  - destruct (find_struct name ss) as [ms|] eqn:E; [|discriminate]. cbn [of_option rbind].
    pose proof (structs_wf_members name ms Hss E) as Hms. rewrite forallb_forall in Hms.
    eapply rok_bind; [apply (rmap_ok2 (fun t v => vty v t)); intros x Hx; apply IH, Hms, Hx|].
    intros vs Hvs. cbn. econstructor; [exact E|]. apply Forall2_flip. exact Hvs.
Qed.

(* ---- constructors ---- *)
Lemma flatten_ok s : forall vs ts,
  Forall2 vty vs ts ->
  forallb (fun a => match sv_of a with Some (_, s') => wscalar_eqb s s' | None => false end) ts = true ->
  List.length (flatten_scalars vs) = fold_right (fun a acc => sv_size a + acc)%nat O ts /\
  Forall (fun x => sty x s) (flatten_scalars vs).
Proof.
  induction 1 as [|v t vs ts Hv Hvs IH]; cbn [forallb fold_right]; intros Hf.
  - cbn. auto.
  - apply andb_prop in Hf. destruct Hf as [Ht Hts]. destruct (IH Hts) as [IHn IHf].
    destruct (sv_of t) as [[n s']|] eqn:Es; [|discriminate]. apply wscalar_eqb_eq in Ht. subst s'.
    apply (vty_sv ss t n s v Es) in Hv. unfold flatten_scalars in *. cbn [flat_map].
    destruct t; cbn in Es; try discriminate; inversion Es; subst; cbn in Hv; cbn [sv_size].
    + assert (E : match v with VVec l => l | _ => [v] end = [v]) by (inversion Hv; reflexivity). rewrite E.
      cbn. split; [congruence|constructor; auto].
    + destruct Hv as (l & -> & Hn & Hl). rewrite app_length. split; [congruence|apply Forall_app; auto].
Qed.

Lemma Forall2_forallb_eq ts e vs :
  Forall2 vty vs ts -> forallb (wty_eqb e) ts = true -> Forall (fun x => vty x e) vs.
Proof.
  induction 1 as [|v t vs ts Hv Hvs IH]; cbn; intros H; [constructor|].
  apply andb_prop in H. destruct H as [H1 H2]. apply wty_eqb_eq in H1. subst. constructor; auto.
Qed.

Lemma Forall2_length' {A B} (R : A -> B -> Prop) l1 l2 : Forall2 R l1 l2 -> List.length l1 = List.length l2.
Proof. induction 1; cbn; congruence. Qed.

Lemma wcons_ok t ts vs :
  structs_wf ss = true -> cons_ty ss t ts = true -> Forall2 vty vs ts -> rok (fun v => vty v t) (wcons 16 ss t vs).
Proof.
  intros Hss H Hv. unfold wcons.
  destruct ts as [|t1 ts'].
  { inversion Hv; subst. apply wzero_ok; auto. }
  inversion Hv as [|a ? vs' ? Ha Hv']; subst.
  cbn [cons_ty] in H.
  destruct t as [s|n s|c r|[n|] e|name|e]; try discriminate.
  - (* scalar *)
    destruct t1; try discriminate. destruct ts'; try discriminate. inversion Hv'; subst.
    apply vty_s_inv in Ha. eapply rok_weaken; [apply (convert_sf s s0 a Ha)|]. intros v Hv0. constructor. exact Hv0.
  - (* vector *)
    apply andb_prop in H. destruct H as [Hn H].
    destruct ts' as [|t2 ts''].
    + inversion Hv'; subst.
      destruct t1 as [s'|m s'| | | |]; try (cbn in H; discriminate).
      * apply wscalar_eqb_eq in H. subst s'. apply vty_s_inv in Ha.
        assert (E : match a with VVec l => if Nat.eqb (List.length l) n then lift1 (convert_scalar (kind_of s)) a else Fail "vector constructor"
                            | _ => Done (VVec (repeat a n)) end = Done (VVec (repeat a n))) by (inversion Ha; reflexivity).
        rewrite E. cbn. constructor; [apply repeat_length|apply Forall_repeat; exact Ha].
      * apply Nat.eqb_eq in H. subst m. apply vty_vec_inv in Ha. destruct Ha as (l & -> & Hl & Hf).
        rewrite Hl, Nat.eqb_refl.
        eapply rok_weaken; [eapply (lift1_ok _ s' s (Some n)); [apply convert_sf|exists l; auto]|].
        intros v Hv0. apply vecv_vty. exact Hv0.
    + assert (H' : forallb (fun a => match sv_of a with Some (_, s') => wscalar_eqb s s' | None => false end) (t1 :: t2 :: ts'')
                   && Nat.eqb (fold_right (fun a acc => sv_size a + acc)%nat O (t1 :: t2 :: ts'')) n = true)
        by (destruct t1; exact H).
      clear H. apply andb_prop in H'. destruct H' as [Hf Hsum]. apply Nat.eqb_eq in Hsum. subst n.
      destruct (flatten_ok s _ _ Hv Hf) as [Hlen Hall].
      inversion Hv' as [|b ? vs'' ? Hb Hv'']; subst.
      rewrite Hlen, Nat.eqb_refl. cbn [rok]. constructor; [exact Hlen|exact Hall].
  - (* matrix: columns *)
    repeat (apply andb_prop in H; destruct H as [H ?]). apply Nat.eqb_eq in H1.
    pose proof (Forall2_length' _ _ _ Hv) as Hlen. rewrite Hlen, H1, Nat.eqb_refl. cbn.
    constructor; [congruence|].
    pose proof (Forall2_forallb_eq _ _ _ Hv H0) as Hcols.
    eapply Forall_impl; [|exact Hcols]. intros x Hx. apply vecv_vty in Hx. exact Hx.
  - (* array *)
    repeat (apply andb_prop in H; destruct H as [H ?]). apply Nat.eqb_eq in H1.
    pose proof (Forall2_length' _ _ _ Hv) as Hlen. cbn.
    constructor; [exact (Forall2_forallb_eq _ _ _ Hv H0)|]. intros k Hk. inversion Hk; subst. congruence.
  - (* structure *)
    destruct (find_struct name ss) as [ms|] eqn:E; [|discriminate]. apply wtys_eqb_eq in H. subst ms. cbn.
    econstructor; [exact E|exact Hv].
Qed.

End Builtins.
