(* WGSL-core: abstract syntax (the shape produced by lib/wgslgen.py) and an
   executable, fuel-indexed semantics following the WGSL specification's
   evaluation rules: left-to-right evaluation, the load rule for references,
   short-circuit && and ||, compound assignment `e1 op= e2` = `{ let r = &e1;
   *r = *r op (e2); }` (the old value is read BEFORE e2 is evaluated), loops
   with continuing blocks and `break if`, switch with multi-selector clauses
   and default anywhere, a fresh zero-initialised variable for every execution
   of a `var` declaration.  Operators take their meaning from IR/Values.v
   (Base/Bits32, Base/F32).  This is the independent reading of "what the WGSL
   program means" for C01's WGSL -> IR leg. *)
From Coq Require Import List ZArith String Bool.
Import ListNotations.
Require Import Naga.Base.Bits32 Naga.Base.F32 Naga.Base.Json Naga.IR.Syntax Naga.IR.Values Naga.IR.Sem.
Open Scope string_scope.
Open Scope Z_scope.
Open Scope list_scope.

Inductive wscalar := WI32 | WU32 | WF32 | WBool.

Inductive wty :=
| TyS (s : wscalar)
| TyVec (n : nat) (s : wscalar)
| TyMat (c r : nat)
| TyArr (n : option nat) (e : wty)
| TyStruct (name : string)
| TyPtr (e : wty).

Inductive wexpr :=
| WLit (s : wscalar) (bits : Z)
| WVar (n : string)
| WUn (op : string) (a : wexpr)
| WBin (op : string) (a b : wexpr)
| WCall (f : string) (args : list wexpr)
| WBuiltin (f : string) (args : list wexpr)
| WCons (t : wty) (args : list wexpr)
| WIdx (a i : wexpr)
| WMem (a : wexpr) (m : nat)
| WSwz (a : wexpr) (p : list nat)
| WConv (t : wscalar) (a : wexpr)
| WBitcast (t : wscalar) (a : wexpr)
| WAddr (a : wexpr)
| WDeref (a : wexpr)
| WArrayLen (a : wexpr).

Inductive wstmt :=
| WLet (n : string) (e : wexpr)
| WVarDecl (n : string) (t : wty) (e : option wexpr)
| WAssign (l e : wexpr)
| WCompound (op : string) (l e : wexpr)
| WIncr (l : wexpr) | WDecr (l : wexpr)
| WIf (c : wexpr) (th el : list wstmt)
| WSwitch (e : wexpr) (cases : list (list (option wexpr) * list wstmt))   (* None = default *)
| WLoop (body cont : list wstmt) (break_if : option wexpr)
| WFor (init : option wstmt) (c : option wexpr) (upd : option wstmt) (body : list wstmt)
| WWhile (c : wexpr) (body : list wstmt)
| WBreak | WContinue
| WReturn (e : option wexpr)
| WCallStmt (f : string) (args : list wexpr)
| WBlock (body : list wstmt).

Record wfunc := mkwfunc { wf_name : string; wf_params : list (string * wty); wf_ret : option wty; wf_body : list wstmt }.
Record wglobal := mkwglobal { wg_name : string; wg_space : string; wg_ty : wty; wg_init : option wexpr }.
Record wprog := mkwprog {
  wp_structs : list (string * list wty);
  wp_consts : list (string * wexpr);
  wp_globals : list wglobal;
  wp_funcs : list wfunc;
  wp_entry : wfunc }.

(* ---- environments ---- *)
Inductive wbind := BVal (v : value) | BRef (cell : nat).
Definition env := list (string * wbind).

Fixpoint lookup (n : string) (e : env) : option wbind :=
  match e with [] => None | (k, b) :: e' => if String.eqb k n then Some b else lookup n e' end.

Fixpoint find_func (n : string) (fs : list wfunc) : option wfunc :=
  match fs with [] => None | f :: fs' => if String.eqb (wf_name f) n then Some f else find_func n fs' end.

Fixpoint find_struct (n : string) (ss : list (string * list wty)) : option (list wty) :=
  match ss with [] => None | (k, ms) :: ss' => if String.eqb k n then Some ms else find_struct n ss' end.

(* ---- zero values ---- *)
Definition zero_ws (s : wscalar) : value :=
  match s with WI32 => VI32 0 | WU32 => VU32 0 | WF32 => VF32 0 | WBool => VBool false end.

Fixpoint wzero (fuel : nat) (ss : list (string * list wty)) (t : wty) : result value :=
  match fuel with
  | O => OutOfFuel
  | S f =>
    match t with
    | TyS s => Done (zero_ws s)
    | TyVec n s => Done (VVec (repeat (zero_ws s) n))
    | TyMat c r => Done (VMat (repeat (VVec (repeat (VF32 0) r)) c))
    | TyArr (Some n) e => z <~ wzero f ss e ;; Done (VArr (repeat z n))
    | TyArr None _ => Fail "zero value of a runtime-sized array"
    | TyStruct name => ms <~ of_option "unknown struct" (find_struct name ss) ;; vs <~ rmap (wzero f ss) ms ;; Done (VStruct vs)
    | TyPtr _ => Fail "zero value of a pointer"
    end
  end.

(* ---- operators by their WGSL spelling ---- *)
Definition wbinop (op : string) (a b : value) : result value :=
  if String.eqb op "+" then addsub_value OAdd a b
  else if String.eqb op "-" then addsub_value OSub a b
  else if String.eqb op "*" then mul_value a b
  else if String.eqb op "/" then lift2 (arith_scalar ODiv) a b
  else if String.eqb op "%" then lift2 (arith_scalar ORem) a b
  else if String.eqb op "&" then lift2 (bit_scalar OAnd) a b
  else if String.eqb op "|" then lift2 (bit_scalar OOr) a b
  else if String.eqb op "^" then lift2 (bit_scalar OXor) a b
  else if String.eqb op "<<" then lift2 shl_scalar a b
  else if String.eqb op ">>" then lift2 shr_scalar a b
  else if String.eqb op "==" then lift2 (cmp_scalar CEq) a b
  else if String.eqb op "!=" then lift2 (cmp_scalar CNe) a b
  else if String.eqb op "<" then lift2 (cmp_scalar CLt) a b
  else if String.eqb op "<=" then lift2 (cmp_scalar CLe) a b
  else if String.eqb op ">" then lift2 (cmp_scalar CGt) a b
  else if String.eqb op ">=" then lift2 (cmp_scalar CGe) a b
  else Fail ("binary operator " ++ op)%string.

Definition wunop (op : string) (a : value) : result value :=
  if String.eqb op "-" then lift_mat neg_scalar a
  else if String.eqb op "!" then lift1 lognot_scalar a
  else if String.eqb op "~" then lift1 bitnot_scalar a
  else Fail ("unary operator " ++ op)%string.

Definition kind_of (s : wscalar) : scalar_kind :=
  match s with WI32 => Sint | WU32 => Uint | WF32 => Float | WBool => SBool end.

Definition math_name (f : string) : option string :=
  if String.eqb f "abs" then Some "MathAbs" else if String.eqb f "min" then Some "MathMin"
  else if String.eqb f "max" then Some "MathMax" else if String.eqb f "clamp" then Some "MathClamp"
  else if String.eqb f "sign" then Some "MathSign" else if String.eqb f "floor" then Some "MathFloor"
  else if String.eqb f "ceil" then Some "MathCeil" else if String.eqb f "trunc" then Some "MathTrunc"
  else if String.eqb f "round" then Some "MathRound" else if String.eqb f "sqrt" then Some "MathSqrt"
  else if String.eqb f "fma" then Some "MathFma" else if String.eqb f "saturate" then Some "MathSaturate"
  else if String.eqb f "dot" then Some "MathDot"
  else if String.eqb f "countOneBits" then Some "MathCountOneBits"
  else if String.eqb f "countLeadingZeros" then Some "MathCountLeadingZeros"
  else if String.eqb f "countTrailingZeros" then Some "MathCountTrailingZeros"
  else if String.eqb f "reverseBits" then Some "MathReverseBits"
  else if String.eqb f "firstLeadingBit" then Some "MathFirstLeadingBit"
  else if String.eqb f "firstTrailingBit" then Some "MathFirstTrailingBit"
  else if String.eqb f "extractBits" then Some "MathExtractBits"
  else if String.eqb f "insertBits" then Some "MathInsertBits"
  else None.

Definition wbuiltin (f : string) (args : list value) : result value :=
  if String.eqb f "select" then
    match args with [r; a; c] => eval_select c a r | _ => Fail "select: arity" end   (* select(f, t, cond) *)
  else if String.eqb f "any" then match args with [a] => eval_relational RAny a | _ => Fail "any: arity" end
  else if String.eqb f "all" then match args with [a] => eval_relational RAll a | _ => Fail "all: arity" end
  else match math_name f with
       | Some n => eval_math n args
       | None => Fail ("builtin " ++ f)%string
       end.

(* constructors *)
Definition wcons (fuel : nat) (ss : list (string * list wty)) (t : wty) (args : list value) : result value :=
  match args with
  | [] => wzero fuel ss t
  | _ =>
    match t with
    | TyS s => match args with [a] => convert_scalar (kind_of s) a | _ => Fail "scalar constructor arity" end
    | TyVec n s =>
      match args with
      | [a] => match a with
               | VVec l => if Nat.eqb (List.length l) n then lift1 (convert_scalar (kind_of s)) a else Fail "vector constructor"
               | _ => Done (VVec (repeat a n))
               end
      | _ => let l := flatten_scalars args in
             if Nat.eqb (List.length l) n then Done (VVec l) else Fail "vector constructor arity"
      end
    | TyMat c r =>
      if Nat.eqb (List.length args) c then Done (VMat args)
      else let l := flatten_scalars args in
           if Nat.eqb (List.length l) (c * r) then Done (VMat (map VVec (chunks (S (List.length l)) r l)))
           else Fail "matrix constructor arity"
    | TyArr _ _ => Done (VArr args)
    | TyStruct _ => Done (VStruct args)
    | TyPtr _ => Fail "pointer constructor"
    end
  end.

Section Run.
Variable P : wprog.
Variable genv : env.          (* globals (BRef cell) and module constants (BVal) *)

Definition load_cell (mem : list value) (c : nat) (p : list nat) : result value :=
  cell <~ nth_res "load: cell" mem c ;; load_path cell p.

(* is the expression a reference expression (memory view) in this environment? *)
Fixpoint is_ref (e : env) (x : wexpr) : bool :=
  match x with
  | WVar n => match lookup n e with Some (BRef _) => true | Some (BVal _) => false
                                  | None => match lookup n genv with Some (BRef _) => true | _ => false end end
  | WIdx a _ => is_ref e a
  | WMem a _ => is_ref e a
  | WSwz a [_] => is_ref e a
  | WDeref _ => true
  | _ => false
  end.

Inductive flow := FNormal | FBreak | FContinue | FReturn (v : option value).

Definition lookup_all (n : string) (e : env) : option wbind :=
  match lookup n e with Some b => Some b | None => lookup n genv end.

Fixpoint eval (fuel : nat) (e : env) (mem : list value) (x : wexpr) {struct fuel} : result (value * list value) :=
  match fuel with
  | O => OutOfFuel
  | S f =>
    if is_ref e x then
      r <~ eval_ref f e mem x ;;
      let '(c, p, mem1) := r in
      v <~ load_cell mem1 c p ;; Done (v, mem1)
    else
    match x with
    | WLit s b => Done (match s with WI32 => VI32 b | WU32 => VU32 b | WF32 => VF32 b | WBool => VBool (negb (b =? 0)) end, mem)
    | WVar n =>
      match lookup_all n e with
      | Some (BVal v) => Done (v, mem)
      | _ => Fail ("unbound value identifier " ++ n)%string
      end
    | WUn op a => r <~ eval f e mem a ;; let '(v, m1) := r in v' <~ wunop op v ;; Done (v', m1)
    | WBin op a b =>
      if String.eqb op "&&" then
        r <~ eval f e mem a ;; let '(va, m1) := r in
        match va with
        | VBool false => Done (VBool false, m1)
        | VBool true => eval f e m1 b
        | _ => Fail "&&: operand"
        end
      else if String.eqb op "||" then
        r <~ eval f e mem a ;; let '(va, m1) := r in
        match va with
        | VBool true => Done (VBool true, m1)
        | VBool false => eval f e m1 b
        | _ => Fail "||: operand"
        end
      else
        r <~ eval f e mem a ;; let '(va, m1) := r in
        r2 <~ eval f e m1 b ;; let '(vb, m2) := r2 in
        v <~ wbinop op va vb ;; Done (v, m2)
    | WCall fn args =>
      r <~ eval_list f e mem args ;; let '(vs, m1) := r in
      r2 <~ call f fn vs m1 ;; let '(ret, m2) := r2 in
      match ret with Some v => Done (v, m2) | None => Fail "call of a function without result in an expression" end
    | WBuiltin fn args =>
      r <~ eval_list f e mem args ;; let '(vs, m1) := r in v <~ wbuiltin fn vs ;; Done (v, m1)
    | WCons t args =>
      r <~ eval_list f e mem args ;; let '(vs, m1) := r in v <~ wcons 16 (wp_structs P) t vs ;; Done (v, m1)
    | WIdx a i =>
      r <~ eval f e mem a ;; let '(va, m1) := r in
      r2 <~ eval f e m1 i ;; let '(vi, m2) := r2 in
      n <~ index_of_value vi ;; v <~ index_value va n ;; Done (v, m2)
    | WMem a k => r <~ eval f e mem a ;; let '(va, m1) := r in v <~ index_value va k ;; Done (v, m1)
    | WSwz a p =>
      r <~ eval f e mem a ;; let '(va, m1) := r in
      l <~ vec_elems va ;;
      match p with
      | [k] => v <~ nth_res "swizzle" l k ;; Done (v, m1)
      | _ => vs <~ rmap (fun k => nth_res "swizzle" l k) p ;; Done (VVec vs, m1)
      end
    | WConv t a => r <~ eval f e mem a ;; let '(va, m1) := r in v <~ lift_mat (convert_scalar (kind_of t)) va ;; Done (v, m1)
    | WBitcast t a => r <~ eval f e mem a ;; let '(va, m1) := r in v <~ lift1 (bitcast_scalar (kind_of t)) va ;; Done (v, m1)
    | WAddr a => r <~ eval_ref f e mem a ;; let '(c, p, m1) := r in Done (VPtr c p, m1)
    | WDeref _ => Fail "deref handled as reference"
    | WArrayLen a =>
      r <~ eval f e mem a ;; let '(va, m1) := r in
      match va with
      | VPtr c p => v <~ load_cell m1 c p ;; l <~ elems v ;; Done (VU32 (Z.of_nat (List.length l)), m1)
      | _ => Fail "arrayLength: operand"
      end
    end
  end
with eval_ref (fuel : nat) (e : env) (mem : list value) (x : wexpr) {struct fuel} : result (nat * list nat * list value) :=
  match fuel with
  | O => OutOfFuel
  | S f =>
    match x with
    | WVar n => match lookup_all n e with Some (BRef c) => Done (c, [], mem) | _ => Fail ("not a variable: " ++ n)%string end
    | WIdx a i =>
      r <~ eval_ref f e mem a ;; let '(c, p, m1) := r in
      r2 <~ eval f e m1 i ;; let '(vi, m2) := r2 in
      n <~ index_of_value vi ;;
      (* an out-of-bounds index is a failed execution: generated programs index in bounds *)
      cur <~ load_cell m2 c p ;; _ <~ index_value cur n ;;
      Done (c, p ++ [n], m2)
    | WMem a k => r <~ eval_ref f e mem a ;; let '(c, p, m1) := r in Done (c, p ++ [k], m1)
    | WSwz a [k] => r <~ eval_ref f e mem a ;; let '(c, p, m1) := r in Done (c, p ++ [k], m1)
    | WDeref a =>
      r <~ eval f e mem a ;; let '(v, m1) := r in
      match v with VPtr c p => Done (c, p, m1) | _ => Fail "deref: not a pointer" end
    | _ => Fail "not a reference expression"
    end
  end
with eval_list (fuel : nat) (e : env) (mem : list value) (xs : list wexpr) {struct fuel} : result (list value * list value) :=
  match fuel with
  | O => OutOfFuel
  | S f =>
    match xs with
    | [] => Done ([], mem)
    | x :: xs' =>
      r <~ eval f e mem x ;; let '(v, m1) := r in
      r2 <~ eval_list f e m1 xs' ;; let '(vs, m2) := r2 in Done (v :: vs, m2)
    end
  end
with exec (fuel : nat) (e : env) (mem : list value) (b : list wstmt) {struct fuel} : result (flow * env * list value) :=
  match fuel with
  | O => OutOfFuel
  | S f =>
    match b with
    | [] => Done (FNormal, e, mem)
    | s :: rest =>
      r <~ exec1 f e mem s ;; let '(fl, e1, m1) := r in
      match fl with FNormal => exec f e1 m1 rest | _ => Done (fl, e1, m1) end
    end
  end
with exec1 (fuel : nat) (e : env) (mem : list value) (s : wstmt) {struct fuel} : result (flow * env * list value) :=
  match fuel with
  | O => OutOfFuel
  | S f =>
    let scoped (r : result (flow * env * list value)) : result (flow * env * list value) :=
        x <~ r ;; let '(fl, _, m1) := x in Done (fl, e, m1) in
    match s with
    | WLet n x => r <~ eval f e mem x ;; let '(v, m1) := r in Done (FNormal, (n, BVal v) :: e, m1)
    | WVarDecl n t x =>
      r <~ match x with
           | Some x' => eval f e mem x'
           | None => z <~ wzero 16 (wp_structs P) t ;; Done (z, mem)
           end ;;
      let '(v, m1) := r in
      Done (FNormal, (n, BRef (List.length m1)) :: e, m1 ++ [v])
    | WAssign l x =>
      r <~ eval_ref f e mem l ;; let '(c, p, m1) := r in
      r2 <~ eval f e m1 x ;; let '(v, m2) := r2 in
      m3 <~ store_mem m2 (VPtr c p) v ;; Done (FNormal, e, m3)
    | WCompound op l x =>
      r <~ eval_ref f e mem l ;; let '(c, p, m1) := r in
      old <~ load_cell m1 c p ;;                                   (* *r is read before e2 is evaluated *)
      r2 <~ eval f e m1 x ;; let '(v, m2) := r2 in
      nv <~ wbinop op old v ;;
      m3 <~ store_mem m2 (VPtr c p) nv ;; Done (FNormal, e, m3)
    | WIncr l | WDecr l =>
      r <~ eval_ref f e mem l ;; let '(c, p, m1) := r in
      old <~ load_cell m1 c p ;;
      one <~ match old with VI32 _ => Done (VI32 1) | VU32 _ => Done (VU32 1) | _ => Fail "++/--: operand" end ;;
      nv <~ wbinop (match s with WIncr _ => "+" | _ => "-" end) old one ;;
      m2 <~ store_mem m1 (VPtr c p) nv ;; Done (FNormal, e, m2)
    | WIf c th el =>
      r <~ eval f e mem c ;; let '(v, m1) := r in
      match v with
      | VBool true => scoped (exec f e m1 th)
      | VBool false => scoped (exec f e m1 el)
      | _ => Fail "if: condition"
      end
    | WSwitch x cases =>
      r <~ eval f e mem x ;; let '(v, m1) := r in
      r2 <~ select_case f e m1 v cases cases ;;
      let '(body, m2) := r2 in
      r3 <~ exec f e m2 body ;; let '(fl, _, m3) := r3 in
      Done (match fl with FBreak => FNormal | _ => fl end, e, m3)
    | WLoop body cont brk => exec_loop f e mem body cont brk
    | WFor init c upd body =>
      r <~ match init with Some i => exec1 f e mem i | None => Done (FNormal, e, mem) end ;;
      let '(_, e1, m1) := r in
      (* for (init; c; upd) body  ==  { init; loop { if !(c) { break; } body; continuing { upd } } } *)
      let guard := match c with Some c' => [WIf c' [] [WBreak]] | None => [] end in
      scoped (exec_loop f e1 m1 (guard ++ [WBlock body]) (match upd with Some u => [u] | None => [] end) None)
    | WWhile c body => scoped (exec_loop f e mem ([WIf c [] [WBreak]] ++ [WBlock body]) [] None)
    | WBreak => Done (FBreak, e, mem)
    | WContinue => Done (FContinue, e, mem)
    | WReturn None => Done (FReturn None, e, mem)
    | WReturn (Some x) => r <~ eval f e mem x ;; let '(v, m1) := r in Done (FReturn (Some v), e, m1)
    | WCallStmt fn args =>
      r <~ eval_list f e mem args ;; let '(vs, m1) := r in
      r2 <~ call f fn vs m1 ;; let '(_, m2) := r2 in Done (FNormal, e, m2)
    | WBlock body => scoped (exec f e mem body)
    end
  end
with select_case (fuel : nat) (e : env) (mem : list value) (v : value)
                 (cases all : list (list (option wexpr) * list wstmt)) {struct fuel}
  : result (list wstmt * list value) :=
  match fuel with
  | O => OutOfFuel
  | S f =>
    match cases with
    | [] =>
      (* no selector matched: the default clause *)
      Done (match find (fun c => existsb (fun s => match s with None => true | Some _ => false end) (fst c)) all with
            | Some c => snd c | None => [] end, mem)
    | (sels, body) :: rest =>
      r <~ match_sels f e mem v sels ;; let '(hit, m1) := r in
      if hit then Done (body, m1) else select_case f e m1 v rest all
    end
  end
with match_sels (fuel : nat) (e : env) (mem : list value) (v : value) (sels : list (option wexpr)) {struct fuel}
  : result (bool * list value) :=
  match fuel with
  | O => OutOfFuel
  | S f =>
    match sels with
    | [] => Done (false, mem)
    | None :: rest => match_sels f e mem v rest
    | Some x :: rest =>
      r <~ eval f e mem x ;; let '(sv, m1) := r in
      if value_eqb sv v then Done (true, m1) else match_sels f e m1 v rest
    end
  end
with exec_loop (fuel : nat) (e : env) (mem : list value) (body cont : list wstmt) (brk : option wexpr) {struct fuel}
  : result (flow * env * list value) :=
  match fuel with
  | O => OutOfFuel
  | S f =>
    r <~ exec f e mem body ;; let '(fl, e1, m1) := r in
    match fl with
    | FBreak => Done (FNormal, e, m1)
    | FReturn _ => Done (fl, e, m1)
    | FNormal | FContinue =>
      (* the continuing block sees the declarations of the loop body when control fell through *)
      let ec := match fl with FNormal => e1 | _ => e end in
      r2 <~ exec f ec m1 cont ;; let '(fl2, e2, m2) := r2 in
      match fl2 with
      | FReturn _ => Done (fl2, e, m2)
      | FNormal =>
        match brk with
        | None => exec_loop f e m2 body cont brk
        | Some c =>
          r3 <~ eval f e2 m2 c ;; let '(v, m3) := r3 in
          match v with
          | VBool true => Done (FNormal, e, m3)
          | VBool false => exec_loop f e m3 body cont brk
          | _ => Fail "break if: condition"
          end
        end
      | _ => Fail "break/continue in a continuing block"
      end
    end
  end
with call (fuel : nat) (fn : string) (args : list value) (mem : list value) {struct fuel} : result (option value * list value) :=
  match fuel with
  | O => OutOfFuel
  | S f =>
    fd <~ of_option ("unknown function " ++ fn)%string (find_func fn (wp_funcs P)) ;;
    let e0 := combine (map fst (wf_params fd)) (map BVal args) in
    r <~ exec f e0 mem (wf_body fd) ;; let '(fl, _, m1) := r in
    match fl with
    | FReturn v => Done (v, m1)
    | FNormal => Done (None, m1)
    | _ => Fail "break/continue escaping a function"
    end
  end.

End Run.

(* ---- whole programs ---- *)

(* module constants are evaluated in order (no memory) *)
Fixpoint eval_consts (P : wprog) (cs : list (string * wexpr)) (ge : env) : result env :=
  match cs with
  | [] => Done ge
  | (n, x) :: cs' =>
    r <~ eval P ge 64 [] [] x ;; let '(v, _) := r in eval_consts P cs' (ge ++ [(n, BVal v)])
  end.

(* one memory cell per global, in declaration order; [given] supplies buffer contents *)
Fixpoint init_wglobals (P : wprog) (ge : env) (gs : list wglobal) (given : list (option value)) (mem : list value)
  : result (env * list value) :=
  match gs with
  | [] => Done (ge, mem)
  | g :: gs' =>
    v <~ match given with
         | Some v :: _ => Done v
         | _ => match wg_init g with
                | Some x => r <~ eval P ge 64 [] mem x ;; Done (fst r)
                | None => wzero 16 (wp_structs P) (wg_ty g)
                end
         end ;;
    init_wglobals P (ge ++ [(wg_name g, BRef (List.length mem))]) gs' (tl given) (mem ++ [v])
  end.

Definition wgsl_run (fuel : nat) (P : wprog) (globals : list (option value)) (args : list value)
  : result (list value) :=
  ge0 <~ eval_consts P (wp_consts P) [] ;;
  r <~ init_wglobals P ge0 (wp_globals P) globals [] ;;
  let '(ge, mem0) := r in
  let ep := wp_entry P in
  let e0 := combine (map fst (wf_params ep)) (map BVal args) in
  r2 <~ exec P ge fuel e0 mem0 (wf_body ep) ;;
  let '(_, _, mem1) := r2 in
  Done (firstn (List.length (wp_globals P)) mem1).
