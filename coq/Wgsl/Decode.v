(* JSON (the AST emitted by lib/wgslgen.py) -> Wgsl/Sem.wprog *)
From Coq Require Import List ZArith String Bool.
Import ListNotations.
Require Import Naga.Base.Json Naga.IR.Decode Naga.Wgsl.Sem.
Open Scope string_scope.
Open Scope Z_scope.
Open Scope list_scope.
Infix "==" := String.eqb (at level 70).

Definition dec_ws (s : string) : res wscalar :=
  if s == "i32" then Ok WI32 else if s == "u32" then Ok WU32 else if s == "f32" then Ok WF32
  else if s == "bool" then Ok WBool else Err ("scalar type " ++ s)%string.

Fixpoint dec_wty (fuel : nat) (j : json) : res wty :=
  match fuel with
  | O => Err "type nesting"
  | S f =>
    match j with
    | JStr s => x <- dec_ws s ;; Ok (TyS x)
    | JArr (JStr k :: rest) =>
      if k == "vec" then
        match rest with [JNum n; JStr s] => x <- dec_ws s ;; Ok (TyVec (Z.to_nat n) x) | _ => Err "vec type" end
      else if k == "mat" then
        match rest with [JNum c; JNum r] => Ok (TyMat (Z.to_nat c) (Z.to_nat r)) | _ => Err "mat type" end
      else if k == "arr" then
        match rest with
        | [JNum n; e] => t <- dec_wty f e ;; Ok (TyArr (Some (Z.to_nat n)) t)
        | [JNull; e] => t <- dec_wty f e ;; Ok (TyArr None t)
        | _ => Err "array type"
        end
      else if k == "struct" then match rest with [JStr n] => Ok (TyStruct n) | _ => Err "struct type" end
      else if k == "ptr" then match rest with [JStr _; e] => t <- dec_wty f e ;; Ok (TyPtr t) | _ => Err "ptr type" end
      else Err ("type constructor " ++ k)%string
    | _ => Err "type shape"
    end
  end.

Definition dty := dec_wty 16.

Definition jnatl (j : json) : res (list nat) := match j with JArr l => map_res jnat l | _ => Err "expected list" end.

Fixpoint dec_wexpr (fuel : nat) (j : json) : res wexpr :=
  match fuel with
  | O => Err "expression nesting too deep"
  | S f =>
    let sub (k : string) := x <- get k j ;; dec_wexpr f x in
    let subs (k : string) := l <- getarr k j ;; map_res (dec_wexpr f) l in
    k <- getstr "e" j ;;
    if k == "lit" then
      t <- getstr "t" j ;; s <- dec_ws t ;;
      v <- get "v" j ;;
      match v with
      | JNum z => Ok (WLit s z)
      | JBool b => Ok (WLit s (if b then 1 else 0))
      | _ => Err "literal payload"
      end
    else if k == "var" then n <- getstr "n" j ;; Ok (WVar n)
    else if k == "un" then o <- getstr "op" j ;; a <- sub "a" ;; Ok (WUn o a)
    else if k == "bin" then o <- getstr "op" j ;; a <- sub "a" ;; b <- sub "b" ;; Ok (WBin o a b)
    else if k == "call" then fn <- getstr "f" j ;; a <- subs "args" ;; Ok (WCall fn a)
    else if k == "builtin" then fn <- getstr "f" j ;; a <- subs "args" ;; Ok (WBuiltin fn a)
    else if k == "cons" then tj <- get "t" j ;; t <- dty tj ;; a <- subs "args" ;; Ok (WCons t a)
    else if k == "idx" then a <- sub "a" ;; i <- sub "i" ;; Ok (WIdx a i)
    else if k == "mem" then a <- sub "a" ;; m <- getnat "m" j ;; Ok (WMem a m)
    else if k == "swz" then a <- sub "a" ;; pj <- get "p" j ;; p <- jnatl pj ;; Ok (WSwz a p)
    else if k == "conv" then t <- getstr "t" j ;; s <- dec_ws t ;; a <- sub "a" ;; Ok (WConv s a)
    else if k == "bitcast" then
      (* the target is a scalar type or (vector bitcasts between integer vectors of one width) ["vec", n, scalar]:
         WBitcast is component-wise (Sem.v lifts bitcast_scalar over vectors), so the component type is what it needs *)
      s <- match field "t" j with
           | Some (JStr t) => dec_ws t
           | Some (JArr [JStr v; JNum _; JStr t]) => if v == "vec" then dec_ws t else Err "bitcast target type"
           | _ => Err "bitcast target type"
           end ;;
      a <- sub "a" ;; Ok (WBitcast s a)
    else if k == "addr" then a <- sub "a" ;; Ok (WAddr a)
    else if k == "deref" then a <- sub "a" ;; Ok (WDeref a)
    else if k == "arraylen" then a <- sub "a" ;; Ok (WArrayLen a)
    else Err ("expression kind " ++ k)%string
  end.

Definition dex := dec_wexpr 64.

Definition dopt {A} (f : json -> res A) (k : string) (j : json) : res (option A) :=
  match field k j with
  | None | Some JNull => Ok None
  | Some v => x <- f v ;; Ok (Some x)
  end.

Fixpoint dec_wstmt (fuel : nat) (j : json) : res wstmt :=
  match fuel with
  | O => Err "statement nesting too deep"
  | S f =>
    let blk (k : string) := l <- getarr k j ;; map_res (dec_wstmt f) l in
    k <- getstr "s" j ;;
    if k == "let" then n <- getstr "n" j ;; ej <- get "e" j ;; e <- dex ej ;; Ok (WLet n e)
    else if k == "var" then
      n <- getstr "n" j ;; tj <- get "t" j ;; t <- dty tj ;; e <- dopt dex "e" j ;; Ok (WVarDecl n t e)
    else if k == "assign" then lj <- get "l" j ;; l <- dex lj ;; ej <- get "e" j ;; e <- dex ej ;; Ok (WAssign l e)
    else if k == "compound" then
      o <- getstr "op" j ;; lj <- get "l" j ;; l <- dex lj ;; ej <- get "e" j ;; e <- dex ej ;; Ok (WCompound o l e)
    else if k == "incr" then lj <- get "l" j ;; l <- dex lj ;; Ok (WIncr l)
    else if k == "decr" then lj <- get "l" j ;; l <- dex lj ;; Ok (WDecr l)
    else if k == "if" then cj <- get "c" j ;; c <- dex cj ;; t <- blk "then" ;; e <- blk "else" ;; Ok (WIf c t e)
    else if k == "switch" then
      ej <- get "e" j ;; e <- dex ej ;; cs <- getarr "cases" j ;;
      cs' <- map_res (fun cj =>
                 sels <- getarr "sel" cj ;;
                 sels' <- map_res (fun sj => match sj with JStr _ => Ok None | _ => x <- dex sj ;; Ok (Some x) end) sels ;;
                 bl <- getarr "body" cj ;; b <- map_res (dec_wstmt f) bl ;; Ok (sels', b)) cs ;;
      Ok (WSwitch e cs')
    else if k == "loop" then b <- blk "body" ;; c <- blk "cont" ;; bi <- dopt dex "break_if" j ;; Ok (WLoop b c bi)
    else if k == "for" then
      i <- dopt (dec_wstmt f) "init" j ;; c <- dopt dex "c" j ;; u <- dopt (dec_wstmt f) "upd" j ;; b <- blk "body" ;;
      Ok (WFor i c u b)
    else if k == "while" then cj <- get "c" j ;; c <- dex cj ;; b <- blk "body" ;; Ok (WWhile c b)
    else if k == "break" then Ok WBreak
    else if k == "continue" then Ok WContinue
    else if k == "return" then e <- dopt dex "e" j ;; Ok (WReturn e)
    else if k == "callstmt" then fn <- getstr "f" j ;; al <- getarr "args" j ;; a <- map_res dex al ;; Ok (WCallStmt fn a)
    else if k == "block" then b <- blk "body" ;; Ok (WBlock b)
    else Err ("statement kind " ++ k)%string
  end.

Definition dbody (k : string) (j : json) : res (list wstmt) := l <- getarr k j ;; map_res (dec_wstmt 64) l.

Definition dec_param (j : json) : res (string * wty) :=
  n <- getstr "n" j ;;
  match field "t" j with
  | Some tj => t <- dty tj ;; Ok (n, t)
  | None => Ok (n, TyVec 3 WU32)      (* builtin parameter of the entry point *)
  end.

Definition dec_wfunc (j : json) : res wfunc :=
  n <- getstr "n" j ;; ps <- getarr "params" j ;; ps' <- map_res dec_param ps ;;
  r <- dopt dty "ret" j ;; b <- dbody "body" j ;; Ok (mkwfunc n ps' r b).

Definition dec_wprog (j : json) : res wprog :=
  ss <- getarr "structs" j ;;
  ss' <- map_res (fun sj => n <- getstr "name" sj ;; ms <- getarr "members" sj ;;
                            ts <- map_res (fun mj => tj <- get "t" mj ;; dty tj) ms ;; Ok (n, ts)) ss ;;
  cs <- getarr "consts" j ;;
  cs' <- map_res (fun cj => n <- getstr "n" cj ;; ej <- get "e" cj ;; e <- dex ej ;; Ok (n, e)) cs ;;
  gs <- getarr "globals" j ;;
  gs' <- map_res (fun gj => n <- getstr "n" gj ;; sp <- getstr "space" gj ;; tj <- get "t" gj ;; t <- dty tj ;;
                            i <- dopt dex "e" gj ;; Ok (mkwglobal n sp t i)) gs ;;
  fs <- getarr "funcs" j ;; fs' <- map_res dec_wfunc fs ;;
  ej <- get "entry" j ;; e <- dec_wfunc ej ;;
  Ok (mkwprog ss' cs' gs' fs' e).
