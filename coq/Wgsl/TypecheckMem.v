(* Type soundness of Wgsl/Typecheck.v, part 4: access paths, typed memory (store typing), pointers,
   typed environments. *)
From Coq Require Import List ZArith String Bool Lia.
Import ListNotations.
Require Import Naga.IR.Values Naga.IR.Sem Naga.Wgsl.Sem Naga.Wgsl.Typecheck Naga.Wgsl.TypecheckBase.
Open Scope string_scope.
Open Scope list_scope.

Section Mem.
Variable ss : list (string * list wty).
Notation vty := (vty ss).

(* type of one access step (index / member / single-component swizzle) *)
Definition path_step (t : wty) (k : nat) : option wty :=
  match t with
  | TyStruct name => match find_struct name ss with Some ms => nth_error ms k | None => None end
  | _ => elem_ty t
  end.

Fixpoint path_ty (t : wty) (p : list nat) : option wty :=
  match p with
  | [] => Some t
  | k :: p' => match path_step t k with Some t' => path_ty t' p' | None => None end
  end.

Lemma path_ty_app t p k : path_ty t (p ++ [k]) = match path_ty t p with Some t' => path_step t' k | None => None end.
Proof.
  revert t. induction p as [|j p IH]; intros t; cbn.
  - destruct (path_step t k); reflexivity.
  - destruct (path_step t j); [apply IH|reflexivity].
Qed.

Lemma Forall2_nth {A B} (R : A -> B -> Prop) l1 l2 k y :
  Forall2 R l1 l2 -> nth_error l2 k = Some y -> exists x, nth_error l1 k = Some x /\ R x y.
Proof.
  intros H. revert k. induction H as [|a b l1 l2 Hab H IH]; intros [|k] E; cbn in E; try discriminate.
  - inversion E; subst. exists a. auto.
  - apply IH. exact E.
Qed.

Lemma Forall_nth {A} (P : A -> Prop) l k x : Forall P l -> nth_error l k = Some x -> P x.
Proof. intros H E. rewrite Forall_forall in H. apply H. eapply nth_error_In; eauto. Qed.

Lemma nth_res_ok {A} (Q : A -> Prop) msg l k :
  benign msg = true -> (forall x, nth_error l k = Some x -> Q x) -> rok Q (nth_res msg l k).
Proof. intros Hb H. unfold nth_res. destruct (nth_error l k); cbn; auto. Qed.

Lemma index_ok v t k t' : vty v t -> path_step t k = Some t' -> rok (fun x => vty x t') (index_value v k).
Proof.
  intros Hv Hs. unfold index_value.
  destruct t as [s|n s|c r|n e|name|e]; cbn in Hs; try discriminate.
  - inversion Hs; subst. apply vty_vec_inv in Hv. destruct Hv as (l & -> & _ & Hl). cbn [elems rbind].
    apply nth_res_ok; [reflexivity|]. intros x E. constructor. exact (Forall_nth _ _ _ _ Hl E).
  - inversion Hs; subst. apply vty_mat_inv in Hv. destruct Hv as (l & -> & _ & Hl). cbn [elems rbind].
    apply nth_res_ok; [reflexivity|]. intros x E. apply vecv_vty. exact (Forall_nth _ _ _ _ Hl E).
  - inversion Hs; subst. apply vty_arr_inv in Hv. destruct Hv as (l & -> & Hl & _). cbn [elems rbind].
    apply nth_res_ok; [reflexivity|]. intros x E. exact (Forall_nth _ _ _ _ Hl E).
  - apply vty_struct_inv in Hv. destruct Hv as (l & ms & -> & E & Hl). rewrite E in Hs. cbn [elems rbind].
    apply nth_res_ok; [reflexivity|]. intros x Ex.
    destruct (Forall2_nth _ _ _ _ _ Hl Hs) as (x' & Ex' & Hx'). congruence.
Qed.

Lemma load_path_ok p : forall v t t', vty v t -> path_ty t p = Some t' -> rok (fun x => vty x t') (load_path v p).
Proof.
  induction p as [|k p IH]; intros v t t' Hv Hp; cbn in Hp; cbn [load_path].
  - inversion Hp; subst. exact Hv.
  - destruct (path_step t k) as [t1|] eqn:Es; [|discriminate].
    eapply rok_bind; [eapply index_ok; eauto|]. intros x Hx. exact (IH x t1 t' Hx Hp).
Qed.

(* ---- stores ---- *)
Lemma set_nth_length {A} (l : list A) : forall i x, List.length (set_nth l i x) = List.length l.
Proof. induction l as [|y l IH]; intros [|i] x; cbn; auto. Qed.

Lemma set_nth_Forall {A} (P : A -> Prop) (l : list A) : forall i x, Forall P l -> P x -> Forall P (set_nth l i x).
Proof.
  induction l as [|y l IH]; intros [|i] x Hl Hx; cbn; auto; inversion Hl; subst; constructor; auto.
Qed.

Lemma set_nth_Forall2 {A B} (R : A -> B -> Prop) l ms : Forall2 R l ms -> forall i x m,
  nth_error ms i = Some m -> R x m -> Forall2 R (set_nth l i x) ms.
Proof.
  induction 1 as [|a b l ms Hab H IH]; intros [|i] x m E Hx; cbn in E; try discriminate; cbn.
  - inversion E; subst. constructor; auto.
  - constructor; auto. eapply IH; eauto.
Qed.

Lemma store_path_ok p : forall v t t' nv,
  vty v t -> path_ty t p = Some t' -> vty nv t' -> rok (fun x => vty x t) (store_path v p nv).
Proof.
  induction p as [|k p IH]; intros v t t' nv Hv Hp Hn; cbn in Hp; cbn [store_path].
  - inversion Hp; subst. exact Hn.
  - destruct (path_step t k) as [t1|] eqn:Es; [|discriminate].
    destruct t as [s|n s|c r|n e|name|e]; cbn in Es; try discriminate.
    + inversion Es; subst. apply vty_vec_inv in Hv. destruct Hv as (l & -> & Hlen & Hl). cbn [elems rbind].
      eapply rok_bind; [apply (nth_res_ok (fun x => sty x s)); [reflexivity|intros x E; exact (Forall_nth _ _ _ _ Hl E)]|].
      intros x Hx. eapply rok_bind; [eapply (IH x (TyS s)); eauto; constructor; exact Hx|].
      intros x' Hx'. cbn. apply vty_s_inv in Hx'.
      constructor; [rewrite set_nth_length; exact Hlen|apply set_nth_Forall; auto].
    + inversion Es; subst. apply vty_mat_inv in Hv. destruct Hv as (l & -> & Hlen & Hl). cbn [elems rbind].
      eapply rok_bind; [apply (nth_res_ok (vecv r WF32)); [reflexivity|intros x E; exact (Forall_nth _ _ _ _ Hl E)]|].
      intros x Hx. eapply rok_bind; [eapply (IH x (TyVec r WF32)); eauto; apply vecv_vty; exact Hx|].
      intros x' Hx'. cbn. apply vecv_vty in Hx'.
      constructor; [rewrite set_nth_length; exact Hlen|apply set_nth_Forall; auto].
    + inversion Es; subst. apply vty_arr_inv in Hv. destruct Hv as (l & -> & Hl & Hlen). cbn [elems rbind].
      eapply rok_bind; [apply (nth_res_ok (fun x => vty x t1)); [reflexivity|intros x E; exact (Forall_nth _ _ _ _ Hl E)]|].
      intros x Hx. eapply rok_bind; [eapply (IH x t1); eauto|].
      intros x' Hx'. cbn.
      constructor; [apply set_nth_Forall; auto|]. intros k0 Hk. rewrite set_nth_length. auto.
    + apply vty_struct_inv in Hv. destruct Hv as (l & ms & -> & E & Hl). rewrite E in Es. cbn [elems rbind].
      eapply rok_bind; [apply (nth_res_ok (fun x => vty x t1)); [reflexivity|]|].
      { intros x Ex. destruct (Forall2_nth _ _ _ _ _ Hl Es) as (x0 & Ex0 & Hx0). congruence. }
      intros x Hx. eapply rok_bind; [eapply (IH x t1); eauto|].
      intros x' Hx'. cbn. econstructor; [exact E|]. eapply set_nth_Forall2; eauto.
Qed.

(* ---- typed memory ---- *)
Definition mem_ok (sg : list wty) (mem : list value) : Prop := Forall2 vty mem sg.

Definition ext (sg sg1 : list wty) : Prop := exists sg', sg1 = sg ++ sg'.

Lemma ext_refl sg : ext sg sg.
Proof. exists []. symmetry. apply app_nil_r. Qed.
Lemma ext_trans a b c : ext a b -> ext b c -> ext a c.
Proof. intros [x ->] [y ->]. exists (x ++ y). symmetry. apply app_assoc. Qed.
Lemma ext_nth sg sg1 c t : ext sg sg1 -> nth_error sg c = Some t -> nth_error sg1 c = Some t.
Proof.
  intros [x ->] H. rewrite nth_error_app1; [exact H|]. apply nth_error_Some. congruence.
Qed.
Lemma ext_snoc sg t : ext sg (sg ++ [t]).
Proof. exists [t]. reflexivity. Qed.

Lemma mem_ok_length sg mem : mem_ok sg mem -> List.length mem = List.length sg.
Proof. induction 1; cbn; congruence. Qed.

Lemma mem_ok_snoc sg mem v t : mem_ok sg mem -> vty v t -> mem_ok (sg ++ [t]) (mem ++ [v]).
Proof. intros H Hv. apply Forall2_app; [exact H|constructor; [exact Hv|constructor]]. Qed.

Lemma nth_snoc {A} (l : list A) x : nth_error (l ++ [x]) (List.length l) = Some x.
Proof. rewrite nth_error_app2 by lia. rewrite Nat.sub_diag. reflexivity. Qed.

Lemma load_cell_ok sg mem c p t0 t :
  mem_ok sg mem -> nth_error sg c = Some t0 -> path_ty t0 p = Some t ->
  rok (fun x => vty x t) (load_cell mem c p).
Proof.
  intros Hm Hc Hp. unfold load_cell.
  destruct (Forall2_nth _ _ _ _ _ Hm Hc) as (v & Ev & Hv).
  unfold nth_res. rewrite Ev. cbn [rbind]. eapply load_path_ok; eauto.
Qed.

Lemma store_mem_ok sg mem c p t0 t v :
  mem_ok sg mem -> nth_error sg c = Some t0 -> path_ty t0 p = Some t -> vty v t ->
  rok (mem_ok sg) (store_mem mem (VPtr c p) v).
Proof.
  intros Hm Hc Hp Hv. cbn [store_mem].
  destruct (Forall2_nth _ _ _ _ _ Hm Hc) as (cell & Ev & Hcell).
  unfold nth_res. rewrite Ev. cbn [rbind].
  eapply rok_bind; [eapply store_path_ok; eauto|]. intros cell' Hcell'. cbn.
  unfold mem_ok. eapply set_nth_Forall2; eauto.
Qed.

(* ---- bound values: constructible values, or pointers into the typed memory ---- *)
Definition bty (sg : list wty) (v : value) (t : wty) : Prop :=
  match t with
  | TyPtr e => exists c p t0, v = VPtr c p /\ nth_error sg c = Some t0 /\ path_ty t0 p = Some e
  | _ => vty v t
  end.

Lemma bty_ext sg sg1 v t : ext sg sg1 -> bty sg v t -> bty sg1 v t.
Proof.
  intros He H. destruct t; cbn in *; auto. destruct H as (c & p & t0 & -> & Hc & Hp).
  exists c, p, t0. repeat split; auto. eapply ext_nth; eauto.
Qed.

Lemma vty_bty sg v t : vty v t -> bty sg v t.
Proof. intros H. destruct t; cbn; auto. exfalso. eapply vty_ptr_inv; eauto. Qed.

Lemma bty_vty sg v t : is_ptr t = false -> bty sg v t -> vty v t.
Proof. destruct t; cbn; auto. discriminate. Qed.

Lemma ty_wf_not_ptr t : ty_wf ss t = true -> is_ptr t = false.
Proof. destruct t; cbn; auto. Qed.

Lemma sv_not_ptr t n s : sv_of t = Some (n, s) -> is_ptr t = false.
Proof. destruct t; cbn; auto; discriminate. Qed.

(* ---- typed environments ---- *)
Definition bind_ok (sg : list wty) (tb : option tbinding) (b : option wbind) : Prop :=
  match tb, b with
  | None, None => True
  | Some (TVal t), Some (BVal v) => bty sg v t
  | Some (TRef t _), Some (BRef c) => nth_error sg c = Some t
  | _, _ => False
  end.

Definition env_ok (sg : list wty) (g : tenv) (e : env) : Prop :=
  forall n, bind_ok sg (tlookup n g) (lookup n e).

Lemma bind_ok_ext sg sg1 tb b : ext sg sg1 -> bind_ok sg tb b -> bind_ok sg1 tb b.
Proof.
  intros He H. destruct tb as [[t|t rw]|], b as [[v|c]|]; cbn in *; auto.
  - eapply bty_ext; eauto.
  - eapply ext_nth; eauto.
Qed.

Lemma env_ok_ext sg sg1 g e : ext sg sg1 -> env_ok sg g e -> env_ok sg1 g e.
Proof. intros He H n. eapply bind_ok_ext; eauto. Qed.

Lemma env_ok_cons sg g e n tb b :
  env_ok sg g e -> bind_ok sg (Some tb) (Some b) -> env_ok sg ((n, tb) :: g) ((n, b) :: e).
Proof.
  intros H Hb m. cbn [tlookup lookup]. destruct (String.eqb n m); [exact Hb|apply H].
Qed.

Lemma env_ok_nil sg : env_ok sg [] [].
Proof. intros n. exact I. Qed.

Lemma env_ok_app sg g1 e1 g2 e2 : env_ok sg g1 e1 -> env_ok sg g2 e2 -> env_ok sg (g1 ++ g2) (e1 ++ e2).
Proof.
  intros H1 H2 n. specialize (H1 n).
  assert (Ht : tlookup n (g1 ++ g2) = match tlookup n g1 with Some b => Some b | None => tlookup n g2 end).
  { clear. induction g1 as [|[k b] g1 IH]; cbn; [reflexivity|]. destruct (String.eqb k n); auto. }
  assert (Hl : lookup n (e1 ++ e2) = match lookup n e1 with Some b => Some b | None => lookup n e2 end).
  { clear. induction e1 as [|[k b] e1 IH]; cbn; [reflexivity|]. destruct (String.eqb k n); auto. }
  rewrite Ht, Hl. destruct (tlookup n g1) as [tb|], (lookup n e1) as [b|]; cbn in H1; auto; try contradiction;
    try (destruct tb; contradiction); try apply H2.
Qed.

Lemma env_ok_all sg D genv g e n :
  env_ok sg g e -> env_ok sg D genv -> bind_ok sg (tlookup_all D n g) (lookup_all genv n e).
Proof.
  intros H1 H2. unfold tlookup_all, lookup_all. specialize (H1 n). specialize (H2 n).
  destruct (tlookup n g) as [tb|], (lookup n e) as [b|]; cbn in H1; auto; try contradiction;
    try (destruct tb; contradiction).
Qed.

End Mem.
