(* Type soundness of Wgsl/Typecheck.v, part 1: value typing, the result predicate [rok], and the
   soundness of every operator / builtin / constructor of Wgsl/Sem.v on well-typed operands. *)
From Coq Require Import List ZArith String Bool Lia.
Import ListNotations.
Require Import Naga.IR.Values Naga.IR.Sem Naga.Wgsl.Sem Naga.Wgsl.Typecheck.
Open Scope string_scope.
Open Scope list_scope.

(* ---- failures a well-typed program may still run into ---- *)
(* defined dynamic errors of this semantics (an out-of-range index is a failed execution) and the one
   operator the semantics does not model (f32 %); every other Fail of Wgsl/Sem.v is a type / shape /
   scoping / arity failure *)
Definition benign (m : string) : bool :=
  String.eqb m "index out of bounds" || String.eqb m "negative index"
  || String.eqb m "store: index out of bounds" || String.eqb m "f32 % (truncated remainder) not modelled".

Definition rok {A} (Q : A -> Prop) (r : result A) : Prop :=
  match r with Done a => Q a | OutOfFuel => True | Fail m => benign m = true end.

Lemma rok_bind {A B} (Q : A -> Prop) (R : B -> Prop) (r : result A) (k : A -> result B) :
  rok Q r -> (forall a, Q a -> rok R (k a)) -> rok R (rbind r k).
Proof. destruct r; cbn; auto. Qed.

Lemma rok_weaken {A} (Q R : A -> Prop) (r : result A) : rok Q r -> (forall a, Q a -> R a) -> rok R r.
Proof. destruct r; cbn; auto. Qed.

Lemma rok_done {A} (Q : A -> Prop) a : Q a -> rok Q (Done a).
Proof. auto. Qed.

(* ---- inversion of the checker's monad ---- *)
Lemma tbind_ok {A B} (r : tres A) (f : A -> tres B) b : tbind r f = TOk b -> exists a, r = TOk a /\ f a = TOk b.
Proof. destruct r; cbn; [eauto|discriminate]. Qed.

Lemma guard_ok b r u : guard b r = TOk u -> b = true.
Proof. destruct b; cbn; [auto|discriminate]. Qed.

Lemma of_opt_ok {A} r (o : option A) a : of_opt r o = TOk a -> o = Some a.
Proof. destruct o; cbn; congruence. Qed.

Ltac tinv1 :=
  match goal with
  | H : tbind _ _ = TOk _ |- _ =>
    let a := fresh "tv" in let H1 := fresh "H" in let H2 := fresh "H" in
    apply tbind_ok in H; destruct H as (a & H1 & H2)
  | H : guard _ _ = TOk _ |- _ => apply guard_ok in H
  | H : of_opt _ _ = TOk _ |- _ => apply of_opt_ok in H
  | H : TOk _ = TOk _ |- _ => inversion H; clear H; subst
  | H : TErr _ = TOk _ |- _ => discriminate H
  | H : (let '(_, _) := ?p in _) = TOk _ |- _ => destruct p
  | H : _ && _ = true |- _ => apply andb_prop in H; destruct H
  end.
Ltac tinv := repeat tinv1.

(* ---- boolean equalities ---- *)
Lemma wscalar_eqb_eq a b : wscalar_eqb a b = true -> a = b.
Proof. destruct a, b; cbn; congruence. Qed.

Lemma optnat_eqb_eq a b : optnat_eqb a b = true -> a = b.
Proof. destruct a, b; cbn; try congruence. intros H; apply Nat.eqb_eq in H; congruence. Qed.

Lemma wty_eqb_eq a : forall b, wty_eqb a b = true -> a = b.
Proof.
  induction a; destruct b; cbn; try discriminate; intros H.
  - apply wscalar_eqb_eq in H; congruence.
  - apply andb_prop in H; destruct H as [H1 H2]. apply Nat.eqb_eq in H1. apply wscalar_eqb_eq in H2. congruence.
  - apply andb_prop in H; destruct H as [H1 H2]. apply Nat.eqb_eq in H1. apply Nat.eqb_eq in H2. congruence.
  - apply andb_prop in H; destruct H as [H1 H2]. apply optnat_eqb_eq in H1. apply IHa in H2. congruence.
  - apply String.eqb_eq in H; congruence.
  - apply IHa in H; congruence.
Qed.

Lemma wtys_eqb_eq a : forall b, wtys_eqb a b = true -> a = b.
Proof.
  induction a; destruct b; cbn; try discriminate; auto. intros H.
  apply andb_prop in H; destruct H as [H1 H2]. apply wty_eqb_eq in H1. apply IHa in H2. congruence.
Qed.

(* ---- value typing ---- *)
Inductive sty : value -> wscalar -> Prop :=
| sty_i z : sty (VI32 z) WI32
| sty_u z : sty (VU32 z) WU32
| sty_f z : sty (VF32 z) WF32
| sty_b b : sty (VBool b) WBool.

Definition vecv (n : nat) (s : wscalar) (v : value) : Prop :=
  exists l, v = VVec l /\ List.length l = n /\ Forall (fun x => sty x s) l.

Inductive vty (ss : list (string * list wty)) : value -> wty -> Prop :=
| vty_s v s : sty v s -> vty ss v (TyS s)
| vty_vec l n s : List.length l = n -> Forall (fun x => sty x s) l -> vty ss (VVec l) (TyVec n s)
| vty_mat cols c r : List.length cols = c -> Forall (vecv r WF32) cols -> vty ss (VMat cols) (TyMat c r)
| vty_arr l n e : Forall (fun x => vty ss x e) l -> (forall k, n = Some k -> List.length l = k) -> vty ss (VArr l) (TyArr n e)
| vty_struct l name ms : find_struct name ss = Some ms -> Forall2 (vty ss) l ms -> vty ss (VStruct l) (TyStruct name).

Definition svty (n : option nat) (s : wscalar) (v : value) : Prop :=
  match n with None => sty v s | Some k => vecv k s v end.

Lemma vty_sv ss t n s v : sv_of t = Some (n, s) -> (vty ss v t <-> svty n s v).
Proof.
  destruct t; cbn; try discriminate; intros H; inversion H; subst; cbn; split; intros H1.
  - inversion H1; auto.
  - constructor; auto.
  - inversion H1; subst. exists l; auto.
  - destruct H1 as (l & -> & Hl & Hf). constructor; auto.
Qed.

Lemma svty_vty ss n s v : svty n s v -> vty ss v (sv_ty n s).
Proof. intros H. apply (vty_sv ss (sv_ty n s) n s v); [destruct n; reflexivity|exact H]. Qed.

Lemma vecv_vty ss n s v : vecv n s v <-> vty ss v (TyVec n s).
Proof. symmetry. apply (vty_sv ss (TyVec n s) (Some n) s v). reflexivity. Qed.

(* ---- list combinators ---- *)
Lemma rmap_ok {A B} (P : A -> Prop) (Q : B -> Prop) (f : A -> result B) l :
  Forall P l -> (forall x, P x -> rok Q (f x)) ->
  rok (fun ys => List.length ys = List.length l /\ Forall Q ys) (rmap f l).
Proof.
  intros Hl Hf. induction Hl as [|x l Hx Hl IH]; cbn [rmap].
  - cbn. auto.
  - eapply rok_bind; [apply Hf, Hx|]. intros y Hy.
    eapply rok_bind; [apply IH|]. intros ys [Hn Hys]. cbn. split; [congruence|constructor; auto].
Qed.

Lemma rmap_ok2 {A B} (Q : A -> B -> Prop) (f : A -> result B) l :
  (forall x, In x l -> rok (Q x) (f x)) -> rok (fun ys => Forall2 Q l ys) (rmap f l).
Proof.
  induction l as [|x l IH]; intros Hf; cbn [rmap].
  - cbn. constructor.
  - eapply rok_bind; [apply Hf; left; reflexivity|]. intros y Hy.
    eapply rok_bind; [apply IH; intros; apply Hf; right; assumption|]. intros ys Hys. cbn. constructor; auto.
Qed.

Lemma zip_ok (P1 P2 Q : value -> Prop) f l1 : forall l2,
  Forall P1 l1 -> Forall P2 l2 -> List.length l1 = List.length l2 ->
  (forall x y, P1 x -> P2 y -> rok Q (f x y)) ->
  rok (fun ys => List.length ys = List.length l1 /\ Forall Q ys) (zip_res f l1 l2).
Proof.
  induction l1 as [|x l1 IH]; intros [|y l2] H1 H2 Hn Hf; cbn in Hn; try discriminate; cbn [zip_res].
  - cbn. auto.
  - inversion H1; inversion H2; subst.
    eapply rok_bind; [apply Hf; assumption|]. intros z Hz.
    eapply rok_bind; [apply IH; auto|]. intros zs [Hzn Hzs]. cbn. split; [congruence|constructor; auto].
Qed.

(* ---- lifting scalar functions ---- *)
Definition sf1 (f : value -> result value) (s s' : wscalar) : Prop :=
  forall x, sty x s -> rok (fun y => sty y s') (f x).
Definition sf2 (f : value -> value -> result value) (s1 s2 s' : wscalar) : Prop :=
  forall x y, sty x s1 -> sty y s2 -> rok (fun z => sty z s') (f x y).

Lemma lift1_ok f s s' n a : sf1 f s s' -> svty n s a -> rok (svty n s') (lift1 f a).
Proof.
  intros Hf Ha. destruct n as [k|]; cbn in Ha.
  - destruct Ha as (l & -> & Hn & Hl). cbn [lift1].
    eapply rok_bind; [eapply rmap_ok; [exact Hl|exact Hf]|].
    intros ys [Hyn Hys]. cbn. exists ys. repeat split; auto; congruence.
  - assert (E : lift1 f a = f a) by (inversion Ha; reflexivity). rewrite E. apply Hf, Ha.
Qed.

Lemma lift2_ok f s1 s2 s' na nb n a b :
  sf2 f s1 s2 s' -> svty na s1 a -> svty nb s2 b -> join_n na nb = Some n -> rok (svty n s') (lift2 f a b).
Proof.
  intros Hf Ha Hb Hj. destruct na as [ka|], nb as [kb|]; cbn in Ha, Hb, Hj.
  - destruct (Nat.eqb ka kb) eqn:E; [|discriminate]. apply Nat.eqb_eq in E. inversion Hj; subst.
    destruct Ha as (l1 & -> & Hn1 & Hl1). destruct Hb as (l2 & -> & Hn2 & Hl2). cbn [lift2].
    eapply rok_bind; [eapply zip_ok; [exact Hl1|exact Hl2|congruence|exact Hf]|].
    intros ys [Hyn Hys]. cbn. exists ys. repeat split; auto; congruence.
  - inversion Hj; subst. destruct Ha as (l1 & -> & Hn1 & Hl1).
    assert (E : lift2 f (VVec l1) b = (vs <~ rmap (fun x => f x b) l1 ;; Done (VVec vs))) by (inversion Hb; reflexivity).
    rewrite E. eapply rok_bind; [eapply rmap_ok; [exact Hl1|intros x Hx; apply Hf; assumption]|].
    intros ys [Hyn Hys]. cbn. exists ys. repeat split; auto; congruence.
  - inversion Hj; subst. destruct Hb as (l2 & -> & Hn2 & Hl2).
    assert (E : lift2 f a (VVec l2) = (vs <~ rmap (fun y => f a y) l2 ;; Done (VVec vs))) by (inversion Ha; reflexivity).
    rewrite E. eapply rok_bind; [eapply rmap_ok; [exact Hl2|intros x Hx; apply Hf; assumption]|].
    intros ys [Hyn Hys]. cbn. exists ys. repeat split; auto; congruence.
  - inversion Hj; subst.
    assert (E : lift2 f a b = f a b) by (inversion Ha; inversion Hb; reflexivity). rewrite E. apply Hf; assumption.
Qed.

(* ---- scalar operators ---- *)
Ltac sinv :=
  repeat match goal with H : sty _ ?s |- _ => inversion H; clear H; subst end.

Ltac red_s := cbv beta iota delta [rok arith_scalar cmp_scalar bit_scalar shl_scalar shr_scalar neg_scalar lognot_scalar
                                   bitnot_scalar convert_scalar bitcast_scalar kind_of].

Lemma arith_sf o s : is_numeric s = true -> sf2 (arith_scalar o) s s s.
Proof.
  intros Hs x y Hx Hy. destruct s; try discriminate; sinv; red_s.
  - red_s; constructor.
  - red_s; constructor.
  - destruct o; red_s; try constructor; reflexivity.
Qed.

Lemma cmp_sf c s : (is_numeric s || match c with CEq | CNe => true | _ => false end) = true -> sf2 (cmp_scalar c) s s WBool.
Proof.
  intros Hs x y Hx Hy. destruct s; sinv; red_s; try (red_s; constructor).
  destruct c; cbn in Hs; try discriminate; red_s; constructor.
Qed.

Lemma bit_sf o s : (is_int s || (is_bool s && match o with OXor => false | _ => true end)) = true -> sf2 (bit_scalar o) s s s.
Proof.
  intros Hs x y Hx Hy. destruct s; try discriminate; sinv; red_s; red_s; constructor.
Qed.

Lemma shl_sf s : is_int s = true -> sf2 shl_scalar s WU32 s.
Proof. intros Hs x y Hx Hy. destruct s; try discriminate; sinv; red_s; constructor. Qed.
Lemma shr_sf s : is_int s = true -> sf2 shr_scalar s WU32 s.
Proof. intros Hs x y Hx Hy. destruct s; try discriminate; sinv; red_s; constructor. Qed.

Lemma neg_sf s : is_signed s = true -> sf1 neg_scalar s s.
Proof. intros Hs x Hx. destruct s; try discriminate; sinv; red_s; constructor. Qed.
Lemma lognot_sf : sf1 lognot_scalar WBool WBool.
Proof. intros x Hx. sinv; red_s; constructor. Qed.
Lemma bitnot_sf s : is_int s = true -> sf1 bitnot_scalar s s.
Proof. intros Hs x Hx. destruct s; try discriminate; sinv; red_s; constructor. Qed.

Lemma convert_sf k s : sf1 (convert_scalar (kind_of k)) s k.
Proof. intros x Hx. destruct k; sinv; red_s; constructor. Qed.

Lemma bitcast_sf k s : is_numeric s = true -> is_numeric k = true -> sf1 (bitcast_scalar (kind_of k)) s k.
Proof. intros Hs Hk x Hx. destruct k; try discriminate; destruct s; try discriminate; sinv; red_s; constructor. Qed.

(* ---- inversion of value typing by type ---- *)
Lemma vty_s_inv ss v s : vty ss v (TyS s) -> sty v s.
Proof. intros H; inversion H; auto. Qed.
Lemma vty_vec_inv ss v n s : vty ss v (TyVec n s) -> vecv n s v.
Proof. intros H; inversion H; subst. exists l; auto. Qed.
Lemma vty_mat_inv ss v c r : vty ss v (TyMat c r) -> exists cols, v = VMat cols /\ List.length cols = c /\ Forall (vecv r WF32) cols.
Proof. intros H; inversion H; subst. exists cols; auto. Qed.
Lemma vty_arr_inv ss v n e :
  vty ss v (TyArr n e) -> exists l, v = VArr l /\ Forall (fun x => vty ss x e) l /\ (forall k, n = Some k -> List.length l = k).
Proof. intros H; inversion H; subst. exists l; auto. Qed.
Lemma vty_struct_inv ss v name :
  vty ss v (TyStruct name) -> exists l ms, v = VStruct l /\ find_struct name ss = Some ms /\ Forall2 (vty ss) l ms.
Proof. intros H; inversion H; subst. exists l, ms; auto. Qed.
Lemma vty_ptr_inv ss v e : vty ss v (TyPtr e) -> False.
Proof. intros H; inversion H. Qed.

Ltac beq := repeat match goal with
  | H : wty_eqb _ _ = true |- _ => apply wty_eqb_eq in H
  | H : wscalar_eqb _ _ = true |- _ => apply wscalar_eqb_eq in H
  | H : optnat_eqb _ _ = true |- _ => apply optnat_eqb_eq in H
  | H : Nat.eqb _ _ = true |- _ => apply Nat.eqb_eq in H
  | H : wtys_eqb _ _ = true |- _ => apply wtys_eqb_eq in H
  end.
